/-
  XMT.CloseProgress — third invariant for C16: who drives a closing Session to the end, and what
  is true once that thread is done (helper lemmas; the property theorems are in XMT/Props/C16.lean).
-/
import XMT.CloseLock
namespace XMT.Close

set_option linter.unusedVariables false
set_option linter.unusedSimpArgs false

theorem vp_1 : validPc 1 = true := by decide
theorem vp_2 : validPc 2 = true := by decide
theorem vp_3 : validPc 3 = true := by decide
theorem vp_4 : validPc 4 = true := by decide
theorem vp_5 : validPc 5 = true := by decide
theorem vp_6 : validPc 6 = true := by decide
theorem vp_7 : validPc 7 = true := by decide
theorem vp_8 : validPc 8 = true := by decide
theorem vp_20 : validPc 20 = true := by decide
theorem vp_21 : validPc 21 = true := by decide
theorem vp_22 : validPc 22 = true := by decide
theorem vp_23 : validPc 23 = true := by decide
theorem vp_24 : validPc 24 = true := by decide
theorem vp_25 : validPc 25 = true := by decide
theorem vp_26 : validPc 26 = true := by decide
theorem vp_27 : validPc 27 = true := by decide
theorem vp_28 : validPc 28 = true := by decide
theorem vp_40 : validPc 40 = true := by decide
theorem vp_41 : validPc 41 = true := by decide
theorem vp_42 : validPc 42 = true := by decide
theorem vp_43 : validPc 43 = true := by decide
theorem vp_44 : validPc 44 = true := by decide
theorem vp_45 : validPc 45 = true := by decide
theorem vp_46 : validPc 46 = true := by decide
theorem vp_47 : validPc 47 = true := by decide
theorem vp_48 : validPc 48 = true := by decide
theorem vp_49 : validPc 49 = true := by decide
theorem vp_50 : validPc 50 = true := by decide
theorem vp_51 : validPc 51 = true := by decide
theorem vp_52 : validPc 52 = true := by decide
theorem vp_53 : validPc 53 = true := by decide
theorem vp_54 : validPc 54 = true := by decide
theorem vp_60 : validPc 60 = true := by decide
theorem vp_61 : validPc 61 = true := by decide
theorem vp_62 : validPc 62 = true := by decide
theorem vp_63 : validPc 63 = true := by decide
theorem vp_64 : validPc 64 = true := by decide
theorem vp_65 : validPc 65 = true := by decide
theorem vp_66 : validPc 66 = true := by decide
theorem vp_70 : validPc 70 = true := by decide
theorem vp_71 : validPc 71 = true := by decide
theorem vp_72 : validPc 72 = true := by decide
theorem vp_73 : validPc 73 = true := by decide
theorem vp_80 : validPc 80 = true := by decide
theorem vp_86 : validPc 86 = true := by decide
theorem vp_87 : validPc 87 = true := by decide
theorem vp_88 : validPc 88 = true := by decide
theorem vp_89 : validPc 89 = true := by decide
theorem vp_90 : validPc 90 = true := by decide
theorem vp_92 : validPc 92 = true := by decide
theorem vp_94 : validPc 94 = true := by decide

structure Inv3 (cfg : Cfg) (s : St) : Prop where
  srvSd : cfg.client = false → s.closing = true → ∃ u, (s.loc u).sd = true
  cliEnt : cfg.client = true → ∃ u, ent cfg s u
  finCh : ∀ u, (s.loc u).sd = true → (s.loc u).pc = 99 → s.chC = 1
  closedAt : ∀ u, (s.loc u).sd = true → 50 < (s.loc u).pc → s.closed = true
  evAt : cfg.client = true → ∀ u, (s.loc u).sd = true → 52 < (s.loc u).pc → s.evC = 1
  no94 : cfg.client = false → ∀ u, (s.loc u).pc ≠ 94
  unl : cfg.client = false → ∀ u, (s.loc u).sd = true → 51 < (s.loc u).pc → (s.delReq > 0 ∨ s.listed = false)
  active : s.srvActive = true
  closedClosing : cfg.client = false → s.closed = true → s.closing = true
  pcOk : ∀ u, validPc (s.loc u).pc = true ∨ (s.loc u).pc = 99

macro "inv3_tac" : tactic => `(tactic| (
  refine ⟨?_, ?_, ?_, ?_, ?_, ?_, ?_, ?_, ?_, ?_⟩ <;>
  simp only [ent, closedBy, goto, setLoc, finish, die, enterSd, ret, sendSend, wakeSend, afterWake,
    removeReq, tell, upd_apply, fin, vp_1, vp_2, vp_3, vp_4, vp_5, vp_6, vp_7, vp_8, vp_20, vp_21, vp_22, vp_23, vp_24, vp_25, vp_26, vp_27, vp_28, vp_40, vp_41, vp_42, vp_43, vp_44, vp_45, vp_46, vp_47, vp_48, vp_49, vp_50, vp_51, vp_52, vp_53, vp_54, vp_60, vp_61, vp_62, vp_63, vp_64, vp_65, vp_66, vp_70, vp_71, vp_72, vp_73, vp_80, vp_86, vp_87, vp_88, vp_89, vp_90, vp_92, vp_94] at * <;>
  grind [vp_1, vp_2, vp_3, vp_4, vp_5, vp_6, vp_7, vp_8, vp_20, vp_21, vp_22, vp_23, vp_24, vp_25, vp_26, vp_27, vp_28, vp_40, vp_41, vp_42, vp_43, vp_44, vp_45, vp_46, vp_47, vp_48, vp_49, vp_50, vp_51, vp_52, vp_53, vp_54, vp_60, vp_61, vp_62, vp_63, vp_64, vp_65, vp_66, vp_70, vp_71, vp_72, vp_73, vp_80, vp_86, vp_87, vp_88, vp_89, vp_90, vp_92, vp_94]))


set_option maxHeartbeats 2000000 in
theorem inv3_a1 (cfg : Cfg) (h : cfg.trySet = true) (n : Nat) (s : St) (t : Nat)
    (ht : t < n) (hp : (s.loc t).pc = 1) (he : enabled cfg n s t = true) (hi : Inv1 cfg s) (hk : Inv3 cfg s) :
    Inv3 cfg (a1 cfg s t) := by
  obtain ⟨h1, h2, h3, h4, h4b, h5, h6, h7, h8, h9, h10, h11⟩ := hi
  obtain ⟨k1, k2, k3, k4, k5, k6, k7, k8, k9, k10⟩ := hk
  simp only [enabled, hp, noReaders_iff, Bool.and_eq_true, Bool.or_eq_true, Option.isNone_iff_eq_none, decide_eq_true_eq] at he
  simp only [a1, sendSend, wakeSend, afterWake, ret]
  repeat' split
  all_goals inv3_tac

set_option maxHeartbeats 2000000 in
theorem inv3_a2 (cfg : Cfg) (h : cfg.trySet = true) (n : Nat) (s : St) (t : Nat)
    (ht : t < n) (hp : (s.loc t).pc = 2) (he : enabled cfg n s t = true) (hi : Inv1 cfg s) (hk : Inv3 cfg s) :
    Inv3 cfg (a2 cfg s t) := by
  obtain ⟨h1, h2, h3, h4, h4b, h5, h6, h7, h8, h9, h10, h11⟩ := hi
  obtain ⟨k1, k2, k3, k4, k5, k6, k7, k8, k9, k10⟩ := hk
  simp only [enabled, hp, noReaders_iff, Bool.and_eq_true, Bool.or_eq_true, Option.isNone_iff_eq_none, decide_eq_true_eq] at he
  simp only [a2, sendSend, wakeSend, afterWake, ret]
  repeat' split
  all_goals inv3_tac

set_option maxHeartbeats 2000000 in
theorem inv3_a3 (cfg : Cfg) (h : cfg.trySet = true) (n : Nat) (s : St) (t : Nat)
    (ht : t < n) (hp : (s.loc t).pc = 3) (he : enabled cfg n s t = true) (hi : Inv1 cfg s) (hk : Inv3 cfg s) :
    Inv3 cfg (a3 cfg s t) := by
  obtain ⟨h1, h2, h3, h4, h4b, h5, h6, h7, h8, h9, h10, h11⟩ := hi
  obtain ⟨k1, k2, k3, k4, k5, k6, k7, k8, k9, k10⟩ := hk
  simp only [enabled, hp, noReaders_iff, Bool.and_eq_true, Bool.or_eq_true, Option.isNone_iff_eq_none, decide_eq_true_eq] at he
  simp only [a3, sendSend, wakeSend, afterWake, ret]
  repeat' split
  all_goals inv3_tac

set_option maxHeartbeats 2000000 in
theorem inv3_a4 (cfg : Cfg) (h : cfg.trySet = true) (n : Nat) (s : St) (t : Nat)
    (ht : t < n) (hp : (s.loc t).pc = 4) (he : enabled cfg n s t = true) (hi : Inv1 cfg s) (hk : Inv3 cfg s) :
    Inv3 cfg (a4 cfg s t) := by
  obtain ⟨h1, h2, h3, h4, h4b, h5, h6, h7, h8, h9, h10, h11⟩ := hi
  obtain ⟨k1, k2, k3, k4, k5, k6, k7, k8, k9, k10⟩ := hk
  simp only [enabled, hp, noReaders_iff, Bool.and_eq_true, Bool.or_eq_true, Option.isNone_iff_eq_none, decide_eq_true_eq] at he
  simp only [a4, sendSend, wakeSend, afterWake, ret]
  repeat' split
  all_goals inv3_tac

set_option maxHeartbeats 2000000 in
theorem inv3_a5 (cfg : Cfg) (h : cfg.trySet = true) (n : Nat) (s : St) (t : Nat)
    (ht : t < n) (hp : (s.loc t).pc = 5) (he : enabled cfg n s t = true) (hi : Inv1 cfg s) (hk : Inv3 cfg s) :
    Inv3 cfg (a5 cfg s t) := by
  obtain ⟨h1, h2, h3, h4, h4b, h5, h6, h7, h8, h9, h10, h11⟩ := hi
  obtain ⟨k1, k2, k3, k4, k5, k6, k7, k8, k9, k10⟩ := hk
  simp only [enabled, hp, noReaders_iff, Bool.and_eq_true, Bool.or_eq_true, Option.isNone_iff_eq_none, decide_eq_true_eq] at he
  simp only [a5, sendSend, wakeSend, afterWake, ret]
  repeat' split
  all_goals inv3_tac

set_option maxHeartbeats 2000000 in
theorem inv3_a6 (cfg : Cfg) (h : cfg.trySet = true) (n : Nat) (s : St) (t : Nat)
    (ht : t < n) (hp : (s.loc t).pc = 6) (he : enabled cfg n s t = true) (hi : Inv1 cfg s) (hk : Inv3 cfg s) :
    Inv3 cfg (a6 cfg s t) := by
  obtain ⟨h1, h2, h3, h4, h4b, h5, h6, h7, h8, h9, h10, h11⟩ := hi
  obtain ⟨k1, k2, k3, k4, k5, k6, k7, k8, k9, k10⟩ := hk
  simp only [enabled, hp, noReaders_iff, Bool.and_eq_true, Bool.or_eq_true, Option.isNone_iff_eq_none, decide_eq_true_eq] at he
  simp only [a6, sendSend, wakeSend, afterWake, ret]
  repeat' split
  all_goals inv3_tac

set_option maxHeartbeats 2000000 in
theorem inv3_a7 (cfg : Cfg) (h : cfg.trySet = true) (n : Nat) (s : St) (t : Nat)
    (ht : t < n) (hp : (s.loc t).pc = 7) (he : enabled cfg n s t = true) (hi : Inv1 cfg s) (hk : Inv3 cfg s) :
    Inv3 cfg (a7 cfg s t) := by
  obtain ⟨h1, h2, h3, h4, h4b, h5, h6, h7, h8, h9, h10, h11⟩ := hi
  obtain ⟨k1, k2, k3, k4, k5, k6, k7, k8, k9, k10⟩ := hk
  simp only [enabled, hp, noReaders_iff, Bool.and_eq_true, Bool.or_eq_true, Option.isNone_iff_eq_none, decide_eq_true_eq] at he
  simp only [a7, sendSend, wakeSend, afterWake, ret]
  repeat' split
  all_goals inv3_tac

set_option maxHeartbeats 2000000 in
theorem inv3_a8 (cfg : Cfg) (h : cfg.trySet = true) (n : Nat) (s : St) (t : Nat)
    (ht : t < n) (hp : (s.loc t).pc = 8) (he : enabled cfg n s t = true) (hi : Inv1 cfg s) (hk : Inv3 cfg s) :
    Inv3 cfg (a8 cfg s t) := by
  obtain ⟨h1, h2, h3, h4, h4b, h5, h6, h7, h8, h9, h10, h11⟩ := hi
  obtain ⟨k1, k2, k3, k4, k5, k6, k7, k8, k9, k10⟩ := hk
  simp only [enabled, hp, noReaders_iff, Bool.and_eq_true, Bool.or_eq_true, Option.isNone_iff_eq_none, decide_eq_true_eq] at he
  simp only [a8, sendSend, wakeSend, afterWake, ret]
  repeat' split
  all_goals inv3_tac

set_option maxHeartbeats 2000000 in
theorem inv3_a20 (cfg : Cfg) (h : cfg.trySet = true) (n : Nat) (s : St) (t : Nat)
    (ht : t < n) (hp : (s.loc t).pc = 20) (he : enabled cfg n s t = true) (hi : Inv1 cfg s) (hk : Inv3 cfg s) :
    Inv3 cfg (a20 cfg s t) := by
  obtain ⟨h1, h2, h3, h4, h4b, h5, h6, h7, h8, h9, h10, h11⟩ := hi
  obtain ⟨k1, k2, k3, k4, k5, k6, k7, k8, k9, k10⟩ := hk
  simp only [enabled, hp, noReaders_iff, Bool.and_eq_true, Bool.or_eq_true, Option.isNone_iff_eq_none, decide_eq_true_eq] at he
  simp only [a20, sendSend, wakeSend, afterWake, ret]
  repeat' split
  all_goals inv3_tac

set_option maxHeartbeats 2000000 in
theorem inv3_a21 (cfg : Cfg) (h : cfg.trySet = true) (n : Nat) (s : St) (t : Nat)
    (ht : t < n) (hp : (s.loc t).pc = 21) (he : enabled cfg n s t = true) (hi : Inv1 cfg s) (hk : Inv3 cfg s) :
    Inv3 cfg (a21 cfg s t) := by
  obtain ⟨h1, h2, h3, h4, h4b, h5, h6, h7, h8, h9, h10, h11⟩ := hi
  obtain ⟨k1, k2, k3, k4, k5, k6, k7, k8, k9, k10⟩ := hk
  simp only [enabled, hp, noReaders_iff, Bool.and_eq_true, Bool.or_eq_true, Option.isNone_iff_eq_none, decide_eq_true_eq] at he
  simp only [a21, sendSend, wakeSend, afterWake, ret]
  repeat' split
  all_goals inv3_tac

set_option maxHeartbeats 2000000 in
theorem inv3_a22 (cfg : Cfg) (h : cfg.trySet = true) (n : Nat) (s : St) (t : Nat)
    (ht : t < n) (hp : (s.loc t).pc = 22) (he : enabled cfg n s t = true) (hi : Inv1 cfg s) (hk : Inv3 cfg s) :
    Inv3 cfg (a22 cfg s t) := by
  obtain ⟨h1, h2, h3, h4, h4b, h5, h6, h7, h8, h9, h10, h11⟩ := hi
  obtain ⟨k1, k2, k3, k4, k5, k6, k7, k8, k9, k10⟩ := hk
  simp only [enabled, hp, noReaders_iff, Bool.and_eq_true, Bool.or_eq_true, Option.isNone_iff_eq_none, decide_eq_true_eq] at he
  simp only [a22, sendSend, wakeSend, afterWake, ret]
  repeat' split
  all_goals inv3_tac

set_option maxHeartbeats 2000000 in
theorem inv3_a23 (cfg : Cfg) (h : cfg.trySet = true) (n : Nat) (s : St) (t : Nat)
    (ht : t < n) (hp : (s.loc t).pc = 23) (he : enabled cfg n s t = true) (hi : Inv1 cfg s) (hk : Inv3 cfg s) :
    Inv3 cfg (a23 cfg s t) := by
  obtain ⟨h1, h2, h3, h4, h4b, h5, h6, h7, h8, h9, h10, h11⟩ := hi
  obtain ⟨k1, k2, k3, k4, k5, k6, k7, k8, k9, k10⟩ := hk
  simp only [enabled, hp, noReaders_iff, Bool.and_eq_true, Bool.or_eq_true, Option.isNone_iff_eq_none, decide_eq_true_eq] at he
  simp only [a23, sendSend, wakeSend, afterWake, ret]
  repeat' split
  all_goals inv3_tac

set_option maxHeartbeats 2000000 in
theorem inv3_a24 (cfg : Cfg) (h : cfg.trySet = true) (n : Nat) (s : St) (t : Nat)
    (ht : t < n) (hp : (s.loc t).pc = 24) (he : enabled cfg n s t = true) (hi : Inv1 cfg s) (hk : Inv3 cfg s) :
    Inv3 cfg (a24 cfg s t) := by
  obtain ⟨h1, h2, h3, h4, h4b, h5, h6, h7, h8, h9, h10, h11⟩ := hi
  obtain ⟨k1, k2, k3, k4, k5, k6, k7, k8, k9, k10⟩ := hk
  simp only [enabled, hp, noReaders_iff, Bool.and_eq_true, Bool.or_eq_true, Option.isNone_iff_eq_none, decide_eq_true_eq] at he
  simp only [a24, sendSend, wakeSend, afterWake, ret]
  repeat' split
  all_goals inv3_tac

set_option maxHeartbeats 2000000 in
theorem inv3_a25 (cfg : Cfg) (h : cfg.trySet = true) (n : Nat) (s : St) (t : Nat)
    (ht : t < n) (hp : (s.loc t).pc = 25) (he : enabled cfg n s t = true) (hi : Inv1 cfg s) (hk : Inv3 cfg s) :
    Inv3 cfg (a25 cfg s t) := by
  obtain ⟨h1, h2, h3, h4, h4b, h5, h6, h7, h8, h9, h10, h11⟩ := hi
  obtain ⟨k1, k2, k3, k4, k5, k6, k7, k8, k9, k10⟩ := hk
  simp only [enabled, hp, noReaders_iff, Bool.and_eq_true, Bool.or_eq_true, Option.isNone_iff_eq_none, decide_eq_true_eq] at he
  simp only [a25, sendSend, wakeSend, afterWake, ret]
  repeat' split
  all_goals inv3_tac

set_option maxHeartbeats 2000000 in
theorem inv3_a26 (cfg : Cfg) (h : cfg.trySet = true) (n : Nat) (s : St) (t : Nat)
    (ht : t < n) (hp : (s.loc t).pc = 26) (he : enabled cfg n s t = true) (hi : Inv1 cfg s) (hk : Inv3 cfg s) :
    Inv3 cfg (a26 cfg s t) := by
  obtain ⟨h1, h2, h3, h4, h4b, h5, h6, h7, h8, h9, h10, h11⟩ := hi
  obtain ⟨k1, k2, k3, k4, k5, k6, k7, k8, k9, k10⟩ := hk
  simp only [enabled, hp, noReaders_iff, Bool.and_eq_true, Bool.or_eq_true, Option.isNone_iff_eq_none, decide_eq_true_eq] at he
  simp only [a26, sendSend, wakeSend, afterWake, ret]
  repeat' split
  all_goals inv3_tac

set_option maxHeartbeats 2000000 in
theorem inv3_a27 (cfg : Cfg) (h : cfg.trySet = true) (n : Nat) (s : St) (t : Nat)
    (ht : t < n) (hp : (s.loc t).pc = 27) (he : enabled cfg n s t = true) (hi : Inv1 cfg s) (hk : Inv3 cfg s) :
    Inv3 cfg (a27 cfg s t) := by
  obtain ⟨h1, h2, h3, h4, h4b, h5, h6, h7, h8, h9, h10, h11⟩ := hi
  obtain ⟨k1, k2, k3, k4, k5, k6, k7, k8, k9, k10⟩ := hk
  simp only [enabled, hp, noReaders_iff, Bool.and_eq_true, Bool.or_eq_true, Option.isNone_iff_eq_none, decide_eq_true_eq] at he
  simp only [a27, sendSend, wakeSend, afterWake, ret]
  repeat' split
  all_goals inv3_tac

set_option maxHeartbeats 2000000 in
theorem inv3_a28 (cfg : Cfg) (h : cfg.trySet = true) (n : Nat) (s : St) (t : Nat)
    (ht : t < n) (hp : (s.loc t).pc = 28) (he : enabled cfg n s t = true) (hi : Inv1 cfg s) (hk : Inv3 cfg s) :
    Inv3 cfg (a28 cfg s t) := by
  obtain ⟨h1, h2, h3, h4, h4b, h5, h6, h7, h8, h9, h10, h11⟩ := hi
  obtain ⟨k1, k2, k3, k4, k5, k6, k7, k8, k9, k10⟩ := hk
  simp only [enabled, hp, noReaders_iff, Bool.and_eq_true, Bool.or_eq_true, Option.isNone_iff_eq_none, decide_eq_true_eq] at he
  simp only [a28, sendSend, wakeSend, afterWake, ret]
  repeat' split
  all_goals inv3_tac

set_option maxHeartbeats 2000000 in
theorem inv3_a40 (cfg : Cfg) (h : cfg.trySet = true) (n : Nat) (s : St) (t : Nat)
    (ht : t < n) (hp : (s.loc t).pc = 40) (he : enabled cfg n s t = true) (hi : Inv1 cfg s) (hk : Inv3 cfg s) :
    Inv3 cfg (a40 cfg s t) := by
  obtain ⟨h1, h2, h3, h4, h4b, h5, h6, h7, h8, h9, h10, h11⟩ := hi
  obtain ⟨k1, k2, k3, k4, k5, k6, k7, k8, k9, k10⟩ := hk
  simp only [enabled, hp, noReaders_iff, Bool.and_eq_true, Bool.or_eq_true, Option.isNone_iff_eq_none, decide_eq_true_eq] at he
  simp only [a40, sendSend, wakeSend, afterWake, ret]
  repeat' split
  all_goals inv3_tac

set_option maxHeartbeats 2000000 in
theorem inv3_a41 (cfg : Cfg) (h : cfg.trySet = true) (n : Nat) (s : St) (t : Nat)
    (ht : t < n) (hp : (s.loc t).pc = 41) (he : enabled cfg n s t = true) (hi : Inv1 cfg s) (hk : Inv3 cfg s) :
    Inv3 cfg (a41 cfg s t) := by
  obtain ⟨h1, h2, h3, h4, h4b, h5, h6, h7, h8, h9, h10, h11⟩ := hi
  obtain ⟨k1, k2, k3, k4, k5, k6, k7, k8, k9, k10⟩ := hk
  simp only [enabled, hp, noReaders_iff, Bool.and_eq_true, Bool.or_eq_true, Option.isNone_iff_eq_none, decide_eq_true_eq] at he
  simp only [a41, sendSend, wakeSend, afterWake, ret]
  repeat' split
  all_goals inv3_tac

set_option maxHeartbeats 2000000 in
theorem inv3_a42 (cfg : Cfg) (h : cfg.trySet = true) (n : Nat) (s : St) (t : Nat)
    (ht : t < n) (hp : (s.loc t).pc = 42) (he : enabled cfg n s t = true) (hi : Inv1 cfg s) (hk : Inv3 cfg s) :
    Inv3 cfg (a42 cfg s t) := by
  obtain ⟨h1, h2, h3, h4, h4b, h5, h6, h7, h8, h9, h10, h11⟩ := hi
  obtain ⟨k1, k2, k3, k4, k5, k6, k7, k8, k9, k10⟩ := hk
  simp only [enabled, hp, noReaders_iff, Bool.and_eq_true, Bool.or_eq_true, Option.isNone_iff_eq_none, decide_eq_true_eq] at he
  simp only [a42, sendSend, wakeSend, afterWake, ret]
  repeat' split
  all_goals inv3_tac

set_option maxHeartbeats 2000000 in
theorem inv3_a43 (cfg : Cfg) (h : cfg.trySet = true) (n : Nat) (s : St) (t : Nat)
    (ht : t < n) (hp : (s.loc t).pc = 43) (he : enabled cfg n s t = true) (hi : Inv1 cfg s) (hk : Inv3 cfg s) :
    Inv3 cfg (a43 cfg s t) := by
  obtain ⟨h1, h2, h3, h4, h4b, h5, h6, h7, h8, h9, h10, h11⟩ := hi
  obtain ⟨k1, k2, k3, k4, k5, k6, k7, k8, k9, k10⟩ := hk
  simp only [enabled, hp, noReaders_iff, Bool.and_eq_true, Bool.or_eq_true, Option.isNone_iff_eq_none, decide_eq_true_eq] at he
  simp only [a43, sendSend, wakeSend, afterWake, ret]
  repeat' split
  all_goals inv3_tac

set_option maxHeartbeats 2000000 in
theorem inv3_a44 (cfg : Cfg) (h : cfg.trySet = true) (n : Nat) (s : St) (t : Nat)
    (ht : t < n) (hp : (s.loc t).pc = 44) (he : enabled cfg n s t = true) (hi : Inv1 cfg s) (hk : Inv3 cfg s) :
    Inv3 cfg (a44 cfg s t) := by
  obtain ⟨h1, h2, h3, h4, h4b, h5, h6, h7, h8, h9, h10, h11⟩ := hi
  obtain ⟨k1, k2, k3, k4, k5, k6, k7, k8, k9, k10⟩ := hk
  simp only [enabled, hp, noReaders_iff, Bool.and_eq_true, Bool.or_eq_true, Option.isNone_iff_eq_none, decide_eq_true_eq] at he
  simp only [a44, sendSend, wakeSend, afterWake, ret]
  repeat' split
  all_goals inv3_tac

set_option maxHeartbeats 2000000 in
theorem inv3_a45 (cfg : Cfg) (h : cfg.trySet = true) (n : Nat) (s : St) (t : Nat)
    (ht : t < n) (hp : (s.loc t).pc = 45) (he : enabled cfg n s t = true) (hi : Inv1 cfg s) (hk : Inv3 cfg s) :
    Inv3 cfg (a45 cfg s t) := by
  obtain ⟨h1, h2, h3, h4, h4b, h5, h6, h7, h8, h9, h10, h11⟩ := hi
  obtain ⟨k1, k2, k3, k4, k5, k6, k7, k8, k9, k10⟩ := hk
  simp only [enabled, hp, noReaders_iff, Bool.and_eq_true, Bool.or_eq_true, Option.isNone_iff_eq_none, decide_eq_true_eq] at he
  simp only [a45, sendSend, wakeSend, afterWake, ret]
  repeat' split
  all_goals inv3_tac

set_option maxHeartbeats 2000000 in
theorem inv3_a46 (cfg : Cfg) (h : cfg.trySet = true) (n : Nat) (s : St) (t : Nat)
    (ht : t < n) (hp : (s.loc t).pc = 46) (he : enabled cfg n s t = true) (hi : Inv1 cfg s) (hk : Inv3 cfg s) :
    Inv3 cfg (a46 cfg s t) := by
  obtain ⟨h1, h2, h3, h4, h4b, h5, h6, h7, h8, h9, h10, h11⟩ := hi
  obtain ⟨k1, k2, k3, k4, k5, k6, k7, k8, k9, k10⟩ := hk
  simp only [enabled, hp, noReaders_iff, Bool.and_eq_true, Bool.or_eq_true, Option.isNone_iff_eq_none, decide_eq_true_eq] at he
  simp only [a46, sendSend, wakeSend, afterWake, ret]
  repeat' split
  all_goals inv3_tac

set_option maxHeartbeats 2000000 in
theorem inv3_a47 (cfg : Cfg) (h : cfg.trySet = true) (n : Nat) (s : St) (t : Nat)
    (ht : t < n) (hp : (s.loc t).pc = 47) (he : enabled cfg n s t = true) (hi : Inv1 cfg s) (hk : Inv3 cfg s) :
    Inv3 cfg (a47 cfg s t) := by
  obtain ⟨h1, h2, h3, h4, h4b, h5, h6, h7, h8, h9, h10, h11⟩ := hi
  obtain ⟨k1, k2, k3, k4, k5, k6, k7, k8, k9, k10⟩ := hk
  simp only [enabled, hp, noReaders_iff, Bool.and_eq_true, Bool.or_eq_true, Option.isNone_iff_eq_none, decide_eq_true_eq] at he
  simp only [a47, sendSend, wakeSend, afterWake, ret]
  repeat' split
  all_goals inv3_tac

set_option maxHeartbeats 2000000 in
theorem inv3_a48 (cfg : Cfg) (h : cfg.trySet = true) (n : Nat) (s : St) (t : Nat)
    (ht : t < n) (hp : (s.loc t).pc = 48) (he : enabled cfg n s t = true) (hi : Inv1 cfg s) (hk : Inv3 cfg s) :
    Inv3 cfg (a48 cfg s t) := by
  obtain ⟨h1, h2, h3, h4, h4b, h5, h6, h7, h8, h9, h10, h11⟩ := hi
  obtain ⟨k1, k2, k3, k4, k5, k6, k7, k8, k9, k10⟩ := hk
  simp only [enabled, hp, noReaders_iff, Bool.and_eq_true, Bool.or_eq_true, Option.isNone_iff_eq_none, decide_eq_true_eq] at he
  simp only [a48, sendSend, wakeSend, afterWake, ret]
  repeat' split
  all_goals inv3_tac

set_option maxHeartbeats 2000000 in
theorem inv3_a49 (cfg : Cfg) (h : cfg.trySet = true) (n : Nat) (s : St) (t : Nat)
    (ht : t < n) (hp : (s.loc t).pc = 49) (he : enabled cfg n s t = true) (hi : Inv1 cfg s) (hk : Inv3 cfg s) :
    Inv3 cfg (a49 cfg s t) := by
  obtain ⟨h1, h2, h3, h4, h4b, h5, h6, h7, h8, h9, h10, h11⟩ := hi
  obtain ⟨k1, k2, k3, k4, k5, k6, k7, k8, k9, k10⟩ := hk
  simp only [enabled, hp, noReaders_iff, Bool.and_eq_true, Bool.or_eq_true, Option.isNone_iff_eq_none, decide_eq_true_eq] at he
  simp only [a49, sendSend, wakeSend, afterWake, ret]
  repeat' split
  all_goals inv3_tac

set_option maxHeartbeats 2000000 in
theorem inv3_a50 (cfg : Cfg) (h : cfg.trySet = true) (n : Nat) (s : St) (t : Nat)
    (ht : t < n) (hp : (s.loc t).pc = 50) (he : enabled cfg n s t = true) (hi : Inv1 cfg s) (hk : Inv3 cfg s) :
    Inv3 cfg (a50 cfg s t) := by
  obtain ⟨h1, h2, h3, h4, h4b, h5, h6, h7, h8, h9, h10, h11⟩ := hi
  obtain ⟨k1, k2, k3, k4, k5, k6, k7, k8, k9, k10⟩ := hk
  simp only [enabled, hp, noReaders_iff, Bool.and_eq_true, Bool.or_eq_true, Option.isNone_iff_eq_none, decide_eq_true_eq] at he
  simp only [a50, sendSend, wakeSend, afterWake, ret]
  repeat' split
  all_goals inv3_tac

set_option maxHeartbeats 2000000 in
theorem inv3_a51 (cfg : Cfg) (h : cfg.trySet = true) (n : Nat) (s : St) (t : Nat)
    (ht : t < n) (hp : (s.loc t).pc = 51) (he : enabled cfg n s t = true) (hi : Inv1 cfg s) (hk : Inv3 cfg s) :
    Inv3 cfg (a51 cfg s t) := by
  obtain ⟨h1, h2, h3, h4, h4b, h5, h6, h7, h8, h9, h10, h11⟩ := hi
  obtain ⟨k1, k2, k3, k4, k5, k6, k7, k8, k9, k10⟩ := hk
  simp only [enabled, hp, noReaders_iff, Bool.and_eq_true, Bool.or_eq_true, Option.isNone_iff_eq_none, decide_eq_true_eq] at he
  simp only [a51, sendSend, wakeSend, afterWake, ret]
  repeat' split
  all_goals inv3_tac

set_option maxHeartbeats 2000000 in
theorem inv3_a52 (cfg : Cfg) (h : cfg.trySet = true) (n : Nat) (s : St) (t : Nat)
    (ht : t < n) (hp : (s.loc t).pc = 52) (he : enabled cfg n s t = true) (hi : Inv1 cfg s) (hk : Inv3 cfg s) :
    Inv3 cfg (a52 cfg s t) := by
  obtain ⟨h1, h2, h3, h4, h4b, h5, h6, h7, h8, h9, h10, h11⟩ := hi
  obtain ⟨k1, k2, k3, k4, k5, k6, k7, k8, k9, k10⟩ := hk
  simp only [enabled, hp, noReaders_iff, Bool.and_eq_true, Bool.or_eq_true, Option.isNone_iff_eq_none, decide_eq_true_eq] at he
  simp only [a52, sendSend, wakeSend, afterWake, ret]
  repeat' split
  all_goals inv3_tac

set_option maxHeartbeats 2000000 in
theorem inv3_a53 (cfg : Cfg) (h : cfg.trySet = true) (n : Nat) (s : St) (t : Nat)
    (ht : t < n) (hp : (s.loc t).pc = 53) (he : enabled cfg n s t = true) (hi : Inv1 cfg s) (hk : Inv3 cfg s) :
    Inv3 cfg (a53 cfg s t) := by
  obtain ⟨h1, h2, h3, h4, h4b, h5, h6, h7, h8, h9, h10, h11⟩ := hi
  obtain ⟨k1, k2, k3, k4, k5, k6, k7, k8, k9, k10⟩ := hk
  simp only [enabled, hp, noReaders_iff, Bool.and_eq_true, Bool.or_eq_true, Option.isNone_iff_eq_none, decide_eq_true_eq] at he
  simp only [a53, sendSend, wakeSend, afterWake, ret]
  repeat' split
  all_goals inv3_tac

set_option maxHeartbeats 2000000 in
theorem inv3_a54 (cfg : Cfg) (h : cfg.trySet = true) (n : Nat) (s : St) (t : Nat)
    (ht : t < n) (hp : (s.loc t).pc = 54) (he : enabled cfg n s t = true) (hi : Inv1 cfg s) (hk : Inv3 cfg s) :
    Inv3 cfg (a54 cfg s t) := by
  obtain ⟨h1, h2, h3, h4, h4b, h5, h6, h7, h8, h9, h10, h11⟩ := hi
  obtain ⟨k1, k2, k3, k4, k5, k6, k7, k8, k9, k10⟩ := hk
  simp only [enabled, hp, noReaders_iff, Bool.and_eq_true, Bool.or_eq_true, Option.isNone_iff_eq_none, decide_eq_true_eq] at he
  simp only [a54, sendSend, wakeSend, afterWake, ret]
  repeat' split
  all_goals inv3_tac

set_option maxHeartbeats 2000000 in
theorem inv3_a60 (cfg : Cfg) (h : cfg.trySet = true) (n : Nat) (s : St) (t : Nat)
    (ht : t < n) (hp : (s.loc t).pc = 60) (he : enabled cfg n s t = true) (hi : Inv1 cfg s) (hk : Inv3 cfg s) :
    Inv3 cfg (a60 cfg s t) := by
  obtain ⟨h1, h2, h3, h4, h4b, h5, h6, h7, h8, h9, h10, h11⟩ := hi
  obtain ⟨k1, k2, k3, k4, k5, k6, k7, k8, k9, k10⟩ := hk
  simp only [enabled, hp, noReaders_iff, Bool.and_eq_true, Bool.or_eq_true, Option.isNone_iff_eq_none, decide_eq_true_eq] at he
  simp only [a60, sendSend, wakeSend, afterWake, ret]
  repeat' split
  all_goals inv3_tac

set_option maxHeartbeats 2000000 in
theorem inv3_a61 (cfg : Cfg) (h : cfg.trySet = true) (n : Nat) (s : St) (t : Nat)
    (ht : t < n) (hp : (s.loc t).pc = 61) (he : enabled cfg n s t = true) (hi : Inv1 cfg s) (hk : Inv3 cfg s) :
    Inv3 cfg (a61 cfg s t) := by
  obtain ⟨h1, h2, h3, h4, h4b, h5, h6, h7, h8, h9, h10, h11⟩ := hi
  obtain ⟨k1, k2, k3, k4, k5, k6, k7, k8, k9, k10⟩ := hk
  simp only [enabled, hp, noReaders_iff, Bool.and_eq_true, Bool.or_eq_true, Option.isNone_iff_eq_none, decide_eq_true_eq] at he
  simp only [a61, sendSend, wakeSend, afterWake, ret]
  repeat' split
  all_goals inv3_tac

set_option maxHeartbeats 2000000 in
theorem inv3_a62 (cfg : Cfg) (h : cfg.trySet = true) (n : Nat) (s : St) (t : Nat)
    (ht : t < n) (hp : (s.loc t).pc = 62) (he : enabled cfg n s t = true) (hi : Inv1 cfg s) (hk : Inv3 cfg s) :
    Inv3 cfg (a62 cfg s t) := by
  obtain ⟨h1, h2, h3, h4, h4b, h5, h6, h7, h8, h9, h10, h11⟩ := hi
  obtain ⟨k1, k2, k3, k4, k5, k6, k7, k8, k9, k10⟩ := hk
  simp only [enabled, hp, noReaders_iff, Bool.and_eq_true, Bool.or_eq_true, Option.isNone_iff_eq_none, decide_eq_true_eq] at he
  simp only [a62, sendSend, wakeSend, afterWake, ret]
  repeat' split
  all_goals inv3_tac

set_option maxHeartbeats 2000000 in
theorem inv3_a63 (cfg : Cfg) (h : cfg.trySet = true) (n : Nat) (s : St) (t : Nat)
    (ht : t < n) (hp : (s.loc t).pc = 63) (he : enabled cfg n s t = true) (hi : Inv1 cfg s) (hk : Inv3 cfg s) :
    Inv3 cfg (a63 cfg s t) := by
  obtain ⟨h1, h2, h3, h4, h4b, h5, h6, h7, h8, h9, h10, h11⟩ := hi
  obtain ⟨k1, k2, k3, k4, k5, k6, k7, k8, k9, k10⟩ := hk
  simp only [enabled, hp, noReaders_iff, Bool.and_eq_true, Bool.or_eq_true, Option.isNone_iff_eq_none, decide_eq_true_eq] at he
  simp only [a63, sendSend, wakeSend, afterWake, ret]
  repeat' split
  all_goals inv3_tac

set_option maxHeartbeats 2000000 in
theorem inv3_a64 (cfg : Cfg) (h : cfg.trySet = true) (n : Nat) (s : St) (t : Nat)
    (ht : t < n) (hp : (s.loc t).pc = 64) (he : enabled cfg n s t = true) (hi : Inv1 cfg s) (hk : Inv3 cfg s) :
    Inv3 cfg (a64 cfg s t) := by
  obtain ⟨h1, h2, h3, h4, h4b, h5, h6, h7, h8, h9, h10, h11⟩ := hi
  obtain ⟨k1, k2, k3, k4, k5, k6, k7, k8, k9, k10⟩ := hk
  simp only [enabled, hp, noReaders_iff, Bool.and_eq_true, Bool.or_eq_true, Option.isNone_iff_eq_none, decide_eq_true_eq] at he
  simp only [a64, sendSend, wakeSend, afterWake, ret]
  repeat' split
  all_goals inv3_tac

set_option maxHeartbeats 2000000 in
theorem inv3_a65 (cfg : Cfg) (h : cfg.trySet = true) (n : Nat) (s : St) (t : Nat)
    (ht : t < n) (hp : (s.loc t).pc = 65) (he : enabled cfg n s t = true) (hi : Inv1 cfg s) (hk : Inv3 cfg s) :
    Inv3 cfg (a65 cfg s t) := by
  obtain ⟨h1, h2, h3, h4, h4b, h5, h6, h7, h8, h9, h10, h11⟩ := hi
  obtain ⟨k1, k2, k3, k4, k5, k6, k7, k8, k9, k10⟩ := hk
  simp only [enabled, hp, noReaders_iff, Bool.and_eq_true, Bool.or_eq_true, Option.isNone_iff_eq_none, decide_eq_true_eq] at he
  simp only [a65, sendSend, wakeSend, afterWake, ret]
  repeat' split
  all_goals inv3_tac

set_option maxHeartbeats 2000000 in
theorem inv3_a66 (cfg : Cfg) (h : cfg.trySet = true) (n : Nat) (s : St) (t : Nat)
    (ht : t < n) (hp : (s.loc t).pc = 66) (he : enabled cfg n s t = true) (hi : Inv1 cfg s) (hk : Inv3 cfg s) :
    Inv3 cfg (a66 cfg s t) := by
  obtain ⟨h1, h2, h3, h4, h4b, h5, h6, h7, h8, h9, h10, h11⟩ := hi
  obtain ⟨k1, k2, k3, k4, k5, k6, k7, k8, k9, k10⟩ := hk
  simp only [enabled, hp, noReaders_iff, Bool.and_eq_true, Bool.or_eq_true, Option.isNone_iff_eq_none, decide_eq_true_eq] at he
  simp only [a66, sendSend, wakeSend, afterWake, ret]
  repeat' split
  all_goals inv3_tac

set_option maxHeartbeats 2000000 in
theorem inv3_a70 (cfg : Cfg) (h : cfg.trySet = true) (n : Nat) (s : St) (t : Nat)
    (ht : t < n) (hp : (s.loc t).pc = 70) (he : enabled cfg n s t = true) (hi : Inv1 cfg s) (hk : Inv3 cfg s) :
    Inv3 cfg (a70 cfg s t) := by
  obtain ⟨h1, h2, h3, h4, h4b, h5, h6, h7, h8, h9, h10, h11⟩ := hi
  obtain ⟨k1, k2, k3, k4, k5, k6, k7, k8, k9, k10⟩ := hk
  simp only [enabled, hp, noReaders_iff, Bool.and_eq_true, Bool.or_eq_true, Option.isNone_iff_eq_none, decide_eq_true_eq] at he
  simp only [a70, sendSend, wakeSend, afterWake, ret]
  repeat' split
  all_goals inv3_tac

set_option maxHeartbeats 2000000 in
theorem inv3_a71 (cfg : Cfg) (h : cfg.trySet = true) (n : Nat) (s : St) (t : Nat)
    (ht : t < n) (hp : (s.loc t).pc = 71) (he : enabled cfg n s t = true) (hi : Inv1 cfg s) (hk : Inv3 cfg s) :
    Inv3 cfg (a71 cfg s t) := by
  obtain ⟨h1, h2, h3, h4, h4b, h5, h6, h7, h8, h9, h10, h11⟩ := hi
  obtain ⟨k1, k2, k3, k4, k5, k6, k7, k8, k9, k10⟩ := hk
  simp only [enabled, hp, noReaders_iff, Bool.and_eq_true, Bool.or_eq_true, Option.isNone_iff_eq_none, decide_eq_true_eq] at he
  simp only [a71, sendSend, wakeSend, afterWake, ret]
  repeat' split
  all_goals inv3_tac

set_option maxHeartbeats 2000000 in
theorem inv3_a72 (cfg : Cfg) (h : cfg.trySet = true) (n : Nat) (s : St) (t : Nat)
    (ht : t < n) (hp : (s.loc t).pc = 72) (he : enabled cfg n s t = true) (hi : Inv1 cfg s) (hk : Inv3 cfg s) :
    Inv3 cfg (a72 cfg s t) := by
  obtain ⟨h1, h2, h3, h4, h4b, h5, h6, h7, h8, h9, h10, h11⟩ := hi
  obtain ⟨k1, k2, k3, k4, k5, k6, k7, k8, k9, k10⟩ := hk
  simp only [enabled, hp, noReaders_iff, Bool.and_eq_true, Bool.or_eq_true, Option.isNone_iff_eq_none, decide_eq_true_eq] at he
  simp only [a72, sendSend, wakeSend, afterWake, ret]
  repeat' split
  all_goals inv3_tac

set_option maxHeartbeats 2000000 in
theorem inv3_a73 (cfg : Cfg) (h : cfg.trySet = true) (n : Nat) (s : St) (t : Nat)
    (ht : t < n) (hp : (s.loc t).pc = 73) (he : enabled cfg n s t = true) (hi : Inv1 cfg s) (hk : Inv3 cfg s) :
    Inv3 cfg (a73 cfg s t) := by
  obtain ⟨h1, h2, h3, h4, h4b, h5, h6, h7, h8, h9, h10, h11⟩ := hi
  obtain ⟨k1, k2, k3, k4, k5, k6, k7, k8, k9, k10⟩ := hk
  simp only [enabled, hp, noReaders_iff, Bool.and_eq_true, Bool.or_eq_true, Option.isNone_iff_eq_none, decide_eq_true_eq] at he
  simp only [a73, sendSend, wakeSend, afterWake, ret]
  repeat' split
  all_goals inv3_tac

set_option maxHeartbeats 2000000 in
theorem inv3_a80 (cfg : Cfg) (h : cfg.trySet = true) (n : Nat) (s : St) (t : Nat)
    (ht : t < n) (hp : (s.loc t).pc = 80) (he : enabled cfg n s t = true) (hi : Inv1 cfg s) (hk : Inv3 cfg s) :
    Inv3 cfg (a80 cfg s t) := by
  obtain ⟨h1, h2, h3, h4, h4b, h5, h6, h7, h8, h9, h10, h11⟩ := hi
  obtain ⟨k1, k2, k3, k4, k5, k6, k7, k8, k9, k10⟩ := hk
  simp only [enabled, hp, noReaders_iff, Bool.and_eq_true, Bool.or_eq_true, Option.isNone_iff_eq_none, decide_eq_true_eq] at he
  simp only [a80, sendSend, wakeSend, afterWake, ret]
  repeat' split
  all_goals inv3_tac

set_option maxHeartbeats 2000000 in
theorem inv3_a86 (cfg : Cfg) (h : cfg.trySet = true) (n : Nat) (s : St) (t : Nat)
    (ht : t < n) (hp : (s.loc t).pc = 86) (he : enabled cfg n s t = true) (hi : Inv1 cfg s) (hk : Inv3 cfg s) :
    Inv3 cfg (a86 cfg s t) := by
  obtain ⟨h1, h2, h3, h4, h4b, h5, h6, h7, h8, h9, h10, h11⟩ := hi
  obtain ⟨k1, k2, k3, k4, k5, k6, k7, k8, k9, k10⟩ := hk
  simp only [enabled, hp, noReaders_iff, Bool.and_eq_true, Bool.or_eq_true, Option.isNone_iff_eq_none, decide_eq_true_eq] at he
  simp only [a86, sendSend, wakeSend, afterWake, ret]
  repeat' split
  all_goals inv3_tac

set_option maxHeartbeats 2000000 in
theorem inv3_a87 (cfg : Cfg) (h : cfg.trySet = true) (n : Nat) (s : St) (t : Nat)
    (ht : t < n) (hp : (s.loc t).pc = 87) (he : enabled cfg n s t = true) (hi : Inv1 cfg s) (hk : Inv3 cfg s) :
    Inv3 cfg (a87 cfg s t) := by
  obtain ⟨h1, h2, h3, h4, h4b, h5, h6, h7, h8, h9, h10, h11⟩ := hi
  obtain ⟨k1, k2, k3, k4, k5, k6, k7, k8, k9, k10⟩ := hk
  simp only [enabled, hp, noReaders_iff, Bool.and_eq_true, Bool.or_eq_true, Option.isNone_iff_eq_none, decide_eq_true_eq] at he
  simp only [a87, sendSend, wakeSend, afterWake, ret]
  repeat' split
  all_goals inv3_tac

set_option maxHeartbeats 2000000 in
theorem inv3_a88 (cfg : Cfg) (h : cfg.trySet = true) (n : Nat) (s : St) (t : Nat)
    (ht : t < n) (hp : (s.loc t).pc = 88) (he : enabled cfg n s t = true) (hi : Inv1 cfg s) (hk : Inv3 cfg s) :
    Inv3 cfg (a88 cfg s t) := by
  obtain ⟨h1, h2, h3, h4, h4b, h5, h6, h7, h8, h9, h10, h11⟩ := hi
  obtain ⟨k1, k2, k3, k4, k5, k6, k7, k8, k9, k10⟩ := hk
  simp only [enabled, hp, noReaders_iff, Bool.and_eq_true, Bool.or_eq_true, Option.isNone_iff_eq_none, decide_eq_true_eq] at he
  simp only [a88, sendSend, wakeSend, afterWake, ret]
  repeat' split
  all_goals inv3_tac

set_option maxHeartbeats 2000000 in
theorem inv3_a89 (cfg : Cfg) (h : cfg.trySet = true) (n : Nat) (s : St) (t : Nat)
    (ht : t < n) (hp : (s.loc t).pc = 89) (he : enabled cfg n s t = true) (hi : Inv1 cfg s) (hk : Inv3 cfg s) :
    Inv3 cfg (a89 cfg s t) := by
  obtain ⟨h1, h2, h3, h4, h4b, h5, h6, h7, h8, h9, h10, h11⟩ := hi
  obtain ⟨k1, k2, k3, k4, k5, k6, k7, k8, k9, k10⟩ := hk
  simp only [enabled, hp, noReaders_iff, Bool.and_eq_true, Bool.or_eq_true, Option.isNone_iff_eq_none, decide_eq_true_eq] at he
  simp only [a89, sendSend, wakeSend, afterWake, ret]
  repeat' split
  all_goals inv3_tac

set_option maxHeartbeats 2000000 in
theorem inv3_a90 (cfg : Cfg) (h : cfg.trySet = true) (n : Nat) (s : St) (t : Nat)
    (ht : t < n) (hp : (s.loc t).pc = 90) (he : enabled cfg n s t = true) (hi : Inv1 cfg s) (hk : Inv3 cfg s) :
    Inv3 cfg (a90 cfg s t) := by
  obtain ⟨h1, h2, h3, h4, h4b, h5, h6, h7, h8, h9, h10, h11⟩ := hi
  obtain ⟨k1, k2, k3, k4, k5, k6, k7, k8, k9, k10⟩ := hk
  simp only [enabled, hp, noReaders_iff, Bool.and_eq_true, Bool.or_eq_true, Option.isNone_iff_eq_none, decide_eq_true_eq] at he
  simp only [a90, sendSend, wakeSend, afterWake, ret]
  repeat' split
  all_goals inv3_tac

set_option maxHeartbeats 2000000 in
theorem inv3_a92 (cfg : Cfg) (h : cfg.trySet = true) (n : Nat) (s : St) (t : Nat)
    (ht : t < n) (hp : (s.loc t).pc = 92) (he : enabled cfg n s t = true) (hi : Inv1 cfg s) (hk : Inv3 cfg s) :
    Inv3 cfg (a92 cfg s t) := by
  obtain ⟨h1, h2, h3, h4, h4b, h5, h6, h7, h8, h9, h10, h11⟩ := hi
  obtain ⟨k1, k2, k3, k4, k5, k6, k7, k8, k9, k10⟩ := hk
  simp only [enabled, hp, noReaders_iff, Bool.and_eq_true, Bool.or_eq_true, Option.isNone_iff_eq_none, decide_eq_true_eq] at he
  simp only [a92, sendSend, wakeSend, afterWake, ret]
  repeat' split
  all_goals inv3_tac

set_option maxHeartbeats 2000000 in
theorem inv3_a94 (cfg : Cfg) (h : cfg.trySet = true) (n : Nat) (s : St) (t : Nat)
    (ht : t < n) (hp : (s.loc t).pc = 94) (he : enabled cfg n s t = true) (hi : Inv1 cfg s) (hk : Inv3 cfg s) :
    Inv3 cfg (a94 cfg s t) := by
  obtain ⟨h1, h2, h3, h4, h4b, h5, h6, h7, h8, h9, h10, h11⟩ := hi
  obtain ⟨k1, k2, k3, k4, k5, k6, k7, k8, k9, k10⟩ := hk
  simp only [enabled, hp, noReaders_iff, Bool.and_eq_true, Bool.or_eq_true, Option.isNone_iff_eq_none, decide_eq_true_eq] at he
  simp only [a94, sendSend, wakeSend, afterWake, ret]
  repeat' split
  all_goals inv3_tac

set_option maxHeartbeats 2000000 in
theorem inv3_act (cfg : Cfg) (h : cfg.trySet = true) (n : Nat) (s : St) (t : Nat)
    (ht : t < n) (he : enabled cfg n s t = true) (hi : Inv1 cfg s) (hk : Inv3 cfg s) :
    Inv3 cfg (act cfg s t) := by
  unfold act
  repeat' split
  all_goals first | exact hk | exact inv3_a1 cfg h n s t ht (by assumption) he hi hk | exact inv3_a2 cfg h n s t ht (by assumption) he hi hk | exact inv3_a3 cfg h n s t ht (by assumption) he hi hk | exact inv3_a4 cfg h n s t ht (by assumption) he hi hk | exact inv3_a5 cfg h n s t ht (by assumption) he hi hk | exact inv3_a6 cfg h n s t ht (by assumption) he hi hk | exact inv3_a7 cfg h n s t ht (by assumption) he hi hk | exact inv3_a8 cfg h n s t ht (by assumption) he hi hk | exact inv3_a20 cfg h n s t ht (by assumption) he hi hk | exact inv3_a21 cfg h n s t ht (by assumption) he hi hk | exact inv3_a22 cfg h n s t ht (by assumption) he hi hk | exact inv3_a23 cfg h n s t ht (by assumption) he hi hk | exact inv3_a24 cfg h n s t ht (by assumption) he hi hk | exact inv3_a25 cfg h n s t ht (by assumption) he hi hk | exact inv3_a26 cfg h n s t ht (by assumption) he hi hk | exact inv3_a27 cfg h n s t ht (by assumption) he hi hk | exact inv3_a28 cfg h n s t ht (by assumption) he hi hk | exact inv3_a40 cfg h n s t ht (by assumption) he hi hk | exact inv3_a41 cfg h n s t ht (by assumption) he hi hk | exact inv3_a42 cfg h n s t ht (by assumption) he hi hk | exact inv3_a43 cfg h n s t ht (by assumption) he hi hk | exact inv3_a44 cfg h n s t ht (by assumption) he hi hk | exact inv3_a45 cfg h n s t ht (by assumption) he hi hk | exact inv3_a46 cfg h n s t ht (by assumption) he hi hk | exact inv3_a47 cfg h n s t ht (by assumption) he hi hk | exact inv3_a48 cfg h n s t ht (by assumption) he hi hk | exact inv3_a49 cfg h n s t ht (by assumption) he hi hk | exact inv3_a50 cfg h n s t ht (by assumption) he hi hk | exact inv3_a51 cfg h n s t ht (by assumption) he hi hk | exact inv3_a52 cfg h n s t ht (by assumption) he hi hk | exact inv3_a53 cfg h n s t ht (by assumption) he hi hk | exact inv3_a54 cfg h n s t ht (by assumption) he hi hk | exact inv3_a60 cfg h n s t ht (by assumption) he hi hk | exact inv3_a61 cfg h n s t ht (by assumption) he hi hk | exact inv3_a62 cfg h n s t ht (by assumption) he hi hk | exact inv3_a63 cfg h n s t ht (by assumption) he hi hk | exact inv3_a64 cfg h n s t ht (by assumption) he hi hk | exact inv3_a65 cfg h n s t ht (by assumption) he hi hk | exact inv3_a66 cfg h n s t ht (by assumption) he hi hk | exact inv3_a70 cfg h n s t ht (by assumption) he hi hk | exact inv3_a71 cfg h n s t ht (by assumption) he hi hk | exact inv3_a72 cfg h n s t ht (by assumption) he hi hk | exact inv3_a73 cfg h n s t ht (by assumption) he hi hk | exact inv3_a80 cfg h n s t ht (by assumption) he hi hk | exact inv3_a86 cfg h n s t ht (by assumption) he hi hk | exact inv3_a87 cfg h n s t ht (by assumption) he hi hk | exact inv3_a88 cfg h n s t ht (by assumption) he hi hk | exact inv3_a89 cfg h n s t ht (by assumption) he hi hk | exact inv3_a90 cfg h n s t ht (by assumption) he hi hk | exact inv3_a92 cfg h n s t ht (by assumption) he hi hk | exact inv3_a94 cfg h n s t ht (by assumption) he hi hk

theorem inv3_step (cfg : Cfg) (h : cfg.trySet = true) (n : Nat) (s : St) (t : Nat)
    (hi : Inv1 cfg s) (hk : Inv3 cfg s) : Inv3 cfg (step cfg n s t) := by
  unfold step
  split
  · rename_i hh; exact inv3_act cfg h n s t hh.1 hh.2 hi hk
  · exact hk

theorem inv123_run (cfg : Cfg) (h : cfg.trySet = true) (hw : cfg.wakeLocked = true) (n : Nat) (sched : List Nat) (s : St)
    (hi : Inv1 cfg s) (hj : Inv2 cfg n s) (hk : Inv3 cfg s) :
    Inv1 cfg (run cfg n s sched) ∧ Inv2 cfg n (run cfg n s sched) ∧ Inv3 cfg (run cfg n s sched) := by
  induction sched generalizing s with
  | nil => exact ⟨hi, hj, hk⟩
  | cons t ts ih =>
    exact ih _ (inv1_step cfg h n s t hi) (inv2_step cfg h hw n s t hi hj) (inv3_step cfg h n s t hi hk)

end XMT.Close
