/-
  XMT.CloseQuiesce — initial-state lemmas for the lock / progress invariants and the end-of-run
  analysis for C16: in a state where no thread can move, a closing Session has been shut down
  completely and every call has returned (helper lemmas; the property theorems are in
  XMT/Props/C16.lean).
-/
import XMT.CloseInit
import XMT.CloseProgress
namespace XMT.Close

set_option linter.unusedVariables false
set_option linter.unusedSimpArgs false

/-! ### initial state -/

theorem initLoc_facts (cfg : Cfg) (k : Kind) :
    ¬ inW (initLoc cfg k) ∧ ¬ inR (initLoc cfg k) ∧
    ((initLoc cfg k).cont = 8 → cfg.client = false) ∧
    ((initLoc cfg k).pc ≠ 3 ∧ (initLoc cfg k).pc ≠ 27) ∧
    (∀ c, (initLoc cfg k).out ≠ .panicSend c) ∧
    (((initLoc cfg k).pc = 7 ∨ (initLoc cfg k).pc = 8) → (initLoc cfg k).cont = 8) ∧
    (initLoc cfg k).pc ≠ 43 ∧ (initLoc cfg k).pc ≠ 46 ∧ (initLoc cfg k).pc ≠ 88 ∧
    ((initLoc cfg k).cont = 8 → (initLoc cfg k).pc ≠ 2 ∧ (initLoc cfg k).pc ≠ 3) ∧
    (cfg.client = false → (initLoc cfg k).pc ≠ 94) ∧
    (validPc (initLoc cfg k).pc = true ∨ (initLoc cfg k).pc = 99) := by
  cases k <;> simp only [initLoc, inW, inR] <;> (repeat' split) <;> simp_all [validPc]

theorem inv2_init (cfg : Cfg) (prog : List Kind) (a b : Bool) (q : Nat) :
    Inv2 cfg prog.length (init cfg prog a b q) := by
  have hl : ∀ u, (init cfg prog a b q).loc u = match prog[u]? with | some k => initLoc cfg k | none => {} :=
    fun u => rfl
  have key : ∀ u, ∃ l, (init cfg prog a b q).loc u = l ∧ ((∃ k, l = initLoc cfg k) ∨ l = {}) := by
    intro u; rw [hl]; cases prog[u]? with
    | none => exact ⟨_, rfl, Or.inr rfl⟩
    | some k => exact ⟨_, rfl, Or.inl ⟨k, rfl⟩⟩
  refine ⟨?_, ?_, ?_, ?_, ?_, ?_, ?_, ?_, ?_, ?_, ?_, ?_, ?_, ?_, ?_, ?_⟩
  · intro u h; simp [init] at h
  · intro u h; exfalso
    obtain ⟨l, e, hk⟩ := key u; rw [e] at h
    rcases hk with ⟨k, rfl⟩ | rfl
    · exact (initLoc_facts cfg k).1 h
    · simp [inW] at h
  · intro u h; simp [init] at h
  · intro u h; exfalso
    obtain ⟨l, e, hk⟩ := key u; rw [e] at h
    rcases hk with ⟨k, rfl⟩ | rfl
    · exact (initLoc_facts cfg k).2.1 h
    · simp [inR] at h
  · intro w u h; simp [init] at h
  · intro h; simp [init] at h
  · intro h; simp [init] at h
  · intro u _ _; rfl
  · intro u _; rfl
  · intro u hu; rw [hl]; simp [List.getElem?_eq_none hu]
  · intro u h
    obtain ⟨l, e, hk⟩ := key u; rw [e] at h
    rcases hk with ⟨k, rfl⟩ | rfl
    · exact (initLoc_facts cfg k).2.2.1 h
    · simp at h
  · intro _ u
    obtain ⟨l, e, hk⟩ := key u; rw [e]
    rcases hk with ⟨k, rfl⟩ | rfl
    · exact (initLoc_facts cfg k).2.2.2.1
    · simp
  · intro _ u c
    obtain ⟨l, e, hk⟩ := key u; rw [e]
    rcases hk with ⟨k, rfl⟩ | rfl
    · exact (initLoc_facts cfg k).2.2.2.2.1 c
    · simp
  · intro u h
    obtain ⟨l, e, hk⟩ := key u; rw [e] at h ⊢
    rcases hk with ⟨k, rfl⟩ | rfl
    · exact (initLoc_facts cfg k).2.2.2.2.2.1 h
    · simp at h
  · intro u h; exfalso
    obtain ⟨l, e, hk⟩ := key u; rw [e] at h
    rcases hk with ⟨k, rfl⟩ | rfl
    · exact (initLoc_facts cfg k).2.2.2.2.2.2.1 h
    · simp at h
  · intro u h; exfalso
    obtain ⟨l, e, hk⟩ := key u; rw [e] at h
    rcases hk with ⟨k, rfl⟩ | rfl
    · exact (initLoc_facts cfg k).2.2.2.2.2.2.2.1 h
    · simp at h

theorem hasListen_ent (cfg : Cfg) (hc : cfg.client = true) (prog : List Kind) (h : hasListen prog = true)
    (a b : Bool) (q : Nat) : ∃ u, ent cfg (init cfg prog a b q) u := by
  unfold hasListen at h
  cases e : listenIdx prog with
  | none => simp [e] at h
  | some u =>
    refine ⟨u, Or.inr ⟨hc, ?_⟩⟩
    have hu := List.find?_some e
    unfold isListenAt at hu
    have hl : (init cfg prog a b q).loc u = match prog[u]? with | some k => initLoc cfg k | none => {} := rfl
    rw [hl]
    cases e2 : prog[u]? with
    | none => simp [e2] at hu
    | some k =>
      simp only [e2] at hu ⊢
      cases k <;> simp_all [Kind.isListen, initLoc]

theorem inv3_init (cfg : Cfg) (prog : List Kind) (hl : cfg.client = true → hasListen prog = true)
    (a b : Bool) (q : Nat) : Inv3 cfg (init cfg prog a b q) := by
  have hloc : ∀ u, (init cfg prog a b q).loc u = match prog[u]? with | some k => initLoc cfg k | none => {} :=
    fun u => rfl
  have hsd : ∀ t, ((init cfg prog a b q).loc t).sd = false := by
    intro t; rw [hloc]; cases prog[t]? <;> simp [initLoc_sd]
  refine ⟨?_, ?_, ?_, ?_, ?_, ?_, ?_, ?_, ?_, ?_⟩
  · intro _ h; simp [init] at h
  · intro hc; exact hasListen_ent cfg hc prog (hl hc) a b q
  · intro u h; simp [hsd] at h
  · intro u h; simp [hsd] at h
  · intro _ u h; simp [hsd] at h
  · intro hc u; rw [hloc]
    cases prog[u]? with
    | none => simp
    | some k => exact (initLoc_facts cfg k).2.2.2.2.2.2.2.2.2.2.1 hc
  · intro _ u h; simp [hsd] at h
  · rfl
  · intro _ h; simp [init] at h
  · intro u; rw [hloc]
    cases prog[u]? with
    | none => right; rfl
    | some k => exact (initLoc_facts cfg k).2.2.2.2.2.2.2.2.2.2.2

/-! ### end of a run -/

/-- the pcs whose action never blocks -/
theorem enabled_nonblocking (cfg : Cfg) (n : Nat) (s : St) (t : Nat) (hv : validPc (s.loc t).pc = true)
    (h28 : (s.loc t).pc ≠ 28) (h80 : (s.loc t).pc ≠ 80) (h40 : (s.loc t).pc ≠ 40) (h7 : (s.loc t).pc ≠ 7)
    (h86 : (s.loc t).pc ≠ 86) (h92 : (s.loc t).pc ≠ 92) (h94 : (s.loc t).pc ≠ 94) :
    enabled cfg n s t = true := by
  have h99 : (s.loc t).pc ≠ 99 := by
    intro h; rw [h] at hv; revert hv; decide
  unfold enabled
  split <;> simp_all

/-- In a state where no thread can move (the end of a maximal run), if the Session is a client
Session or its Closing flag is set: every thread has returned (only the server loop idles), `s.ch`
is closed, the Closed flag is set and the lock is free. -/
theorem quiescent_done (cfg : Cfg) (n : Nat) (s : St) (hi : Inv1 cfg s) (hj : Inv2 cfg n s) (hk : Inv3 cfg s)
    (hq : quiescent cfg n s) (hc : cfg.client = true ∨ s.closing = true) :
    (∀ t, t < n → (s.loc t).pc = 99 ∨ (s.loc t).pc = 92) ∧ s.chC = 1 ∧ s.closed = true ∧ s.lock = none ∧
    (cfg.client = true → s.evC = 1) := by
  -- threads outside the program are finished
  have hlt : ∀ u, (s.loc u).pc ≠ 99 → u < n := by
    intro u h; by_cases hu : u < n
    · exact hu
    · exact absurd (hj.pcLt u (by omega)) h
  -- nobody holds the lock
  have hlock : s.lock = none := by
    cases e : s.lock with
    | none => rfl
    | some w =>
      exfalso
      have hw := hj.lockIn w e
      have hv : validPc (s.loc w).pc = true := by
        rcases hk.pcOk w with h | h
        · exact h
        · rcases hw with h1 | h1 <;> omega
      have hen : enabled cfg n s w = true := by
        apply enabled_nonblocking cfg n s w hv <;> (rcases hw with h1 | h1 <;> omega)
      have hwn : w < n := hlt w (by rcases hw with h1 | h1 <;> omega)
      rw [hq w hwn] at hen; exact absurd hen (by simp)
  -- nobody holds a read lock
  have hrl : ∀ u, s.rlock u = false := by
    intro u
    cases e : s.rlock u with
    | false => rfl
    | true =>
      exfalso
      have hr := hj.rIn u e
      have hv : validPc (s.loc u).pc = true := by
        rcases hk.pcOk u with h | h
        · exact h
        · unfold inR at hr; omega
      have hen : enabled cfg n s u = true := by
        apply enabled_nonblocking cfg n s u hv <;> (unfold inR at hr; omega)
      have hun : u < n := hlt u (by unfold inR at hr; omega)
      rw [hq u hun] at hen; exact absurd hen (by simp)
  have hnr : noReaders s n = true := (noReaders_iff s n).mpr (fun u _ => hrl u)
  -- the thread that owns the shutdown
  obtain ⟨d, hd⟩ : ∃ d, (s.loc d).sd = true := by
    rcases hc with hc | hc
    · obtain ⟨u, hu⟩ := hk.cliEnt hc
      rcases hu with hu | ⟨_, h60, h66⟩
      · exact ⟨u, hu⟩
      · exfalso
        have hv : validPc (s.loc u).pc = true := by
          rcases hk.pcOk u with h | h
          · exact h
          · omega
        have hen : enabled cfg n s u = true := by
          apply enabled_nonblocking cfg n s u hv <;> omega
        rw [hq u (hlt u (by omega))] at hen; exact absurd hen (by simp)
    · by_cases hcl : cfg.client = true
      · obtain ⟨u, hu⟩ := hk.cliEnt hcl
        rcases hu with hu | ⟨_, h60, h66⟩
        · exact ⟨u, hu⟩
        · exfalso
          have hv : validPc (s.loc u).pc = true := by
            rcases hk.pcOk u with h | h
            · exact h
            · omega
          have hen : enabled cfg n s u = true := by
            apply enabled_nonblocking cfg n s u hv <;> omega
          rw [hq u (hlt u (by omega))] at hen; exact absurd hen (by simp)
      · exact hk.srvSd (by simpa using hcl) hc
  -- it is finished
  have hd99 : (s.loc d).pc = 99 := by
    rcases hi.sdPc d hd with ⟨h40, h54⟩ | h
    · exfalso
      have hdn : d < n := hlt d (by omega)
      have hen : enabled cfg n s d = true := by
        by_cases h40' : (s.loc d).pc = 40
        · unfold enabled; rw [h40']; simp [hlock, hnr]
        · have hv : validPc (s.loc d).pc = true := by
            rcases hk.pcOk d with h | h
            · exact h
            · omega
          apply enabled_nonblocking cfg n s d hv <;> omega
      rw [hq d hdn] at hen; exact absurd hen (by simp)
    · exact h
  have hch : s.chC = 1 := hk.finCh d hd hd99
  have hcl : s.closed = true := hk.closedAt d hd (by omega)
  have hev : cfg.client = true → s.evC = 1 := fun h => hk.evAt h d hd (by omega)
  refine ⟨?_, hch, hcl, hlock, hev⟩
  intro t ht
  have hdis := hq t ht
  by_cases h99 : (s.loc t).pc = 99
  · exact Or.inl h99
  by_cases h92 : (s.loc t).pc = 92
  · exact Or.inr h92
  exfalso
  have hv : validPc (s.loc t).pc = true := by
    rcases hk.pcOk t with h | h
    · exact h
    · exact absurd h h99
  have hen : enabled cfg n s t = true := by
    by_cases h28 : (s.loc t).pc = 28
    · unfold enabled; rw [h28]; simp [hch]
    by_cases h80 : (s.loc t).pc = 80
    · unfold enabled; rw [h80]; simp [hch]
    by_cases h40 : (s.loc t).pc = 40
    · unfold enabled; rw [h40]; simp [hlock, hnr]
    by_cases h7 : (s.loc t).pc = 7
    · unfold enabled; rw [h7]; simp [hlock, hnr]
    by_cases h86 : (s.loc t).pc = 86
    · unfold enabled; rw [h86]; simp [hlock]
    by_cases h94 : (s.loc t).pc = 94
    · unfold enabled; rw [h94]
      by_cases hcc : cfg.client = true
      · simp [hev hcc]
      · exact absurd h94 (hk.no94 (by simpa using hcc) t)
    exact enabled_nonblocking cfg n s t hv h28 h80 h40 h7 h86 h92 h94
  rw [hdis] at hen; exact absurd hen (by simp)

/-- … and on the server the Session is unlisted once the server loop has drained its requests. -/
theorem quiescent_unlisted (cfg : Cfg) (n : Nat) (s : St) (hi : Inv1 cfg s) (hj : Inv2 cfg n s) (hk : Inv3 cfg s)
    (hq : quiescent cfg n s) (hs : cfg.client = false) (hc : s.closing = true)
    (d : Nat) (hdn : d < n) (hd : (s.loc d).pc = 92) : s.listed = false := by
  have hdone := quiescent_done cfg n s hi hj hk hq (Or.inr hc)
  obtain ⟨u, hu⟩ := hk.srvSd hs hc
  have hu99 : (s.loc u).pc = 99 := by
    rcases hi.sdPc u hu with ⟨h40, h54⟩ | h
    · by_cases hun : u < n
      · rcases hdone.1 u hun with h | h <;> omega
      · exact hj.pcLt u (by omega)
    · exact h
  have hdel : s.delReq = 0 := by
    have := hq d hdn
    unfold enabled at this; rw [hd] at this
    simpa using this
  rcases hk.unl hs u hu (by omega) with h | h
  · omega
  · exact h

end XMT.Close
