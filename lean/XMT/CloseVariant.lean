/-
  XMT.CloseVariant — the variant behind "close returns" (C16): once the Closing flag is set, every
  atomic action of every thread strictly decreases `measure` (helper lemmas; the property theorems
  are in XMT/Props/C16.lean).
-/
import XMT.Close
namespace XMT.Close

set_option linter.unusedVariables false
set_option linter.unusedSimpArgs false

/-- with the Shutdown flag set the bound of every thread is at most what it is without -/
theorem rank_mono (pc : Nat) : rank true pc ≤ rank false pc := by
  simp only [rank]
  repeat' split
  all_goals simp_all

theorem sumRank_le (b b' : Bool) (loc : Nat → Loc) (h : ∀ pc, rank b' pc ≤ rank b pc) (n : Nat) :
    sumRank b' loc n ≤ sumRank b loc n := by
  induction n with
  | zero => simp [sumRank]
  | succ k ih => simp only [sumRank]; have := h (loc k).pc; omega

theorem sumRank_upd_ge (b : Bool) (loc : Nat → Loc) (t : Nat) (l' : Loc) (n : Nat) (h : n ≤ t) :
    sumRank b (upd loc t l') n = sumRank b loc n := by
  induction n with
  | zero => simp [sumRank]
  | succ k ih =>
    simp only [sumRank]
    rw [ih (by omega), upd_other _ _ _ _ (by omega)]

theorem sumRank_lt (b b' : Bool) (loc : Nat → Loc) (t : Nat) (l' : Loc) (n : Nat) (ht : t < n)
    (hm : ∀ pc, rank b' pc ≤ rank b pc) (hr : rank b' l'.pc < rank b (loc t).pc) :
    sumRank b' (upd loc t l') n < sumRank b loc n := by
  induction n with
  | zero => omega
  | succ k ih =>
    simp only [sumRank]
    by_cases hk : t = k
    · subst hk
      have h1 := sumRank_upd_ge b' loc t l' t (Nat.le_refl _)
      have h2 := sumRank_le b b' loc hm t
      simp only [upd_same]
      omega
    · have := ih (by omega)
      have h3 := hm (loc k).pc
      rw [upd_other _ _ _ _ (fun h => hk h.symm)]
      omega

/-- the generic step: thread `t` moves to a pc of smaller rank, the other threads stay, the Shutdown
flag at most goes up, at most one removal request is added -/
theorem measure_lt (n : Nat) (s s' : St) (t : Nat) (ht : t < n)
    (hloc : ∀ u, u ≠ t → s'.loc u = s.loc u)
    (hb : s'.shutdown = s.shutdown ∨ (s.shutdown = false ∧ s'.shutdown = true))
    (hd : s'.delReq ≤ s.delReq + 1)
    (hr : rank s'.shutdown (s'.loc t).pc < rank s.shutdown (s.loc t).pc) :
    measure n s' < measure n s := by
  have e : s'.loc = upd s.loc t (s'.loc t) := by
    funext u
    by_cases hu : u = t
    · subst hu; simp
    · rw [upd_other _ _ _ _ hu]; exact hloc u hu
  have hm : ∀ pc, rank s'.shutdown pc ≤ rank s.shutdown pc := by
    intro pc
    rcases hb with hb | ⟨h1, h2⟩
    · rw [hb]; exact Nat.le_refl _
    · rw [h1, h2]; exact rank_mono pc
  have := sumRank_lt s.shutdown s'.shutdown s.loc t (s'.loc t) n ht hm hr
  unfold measure
  rw [e]
  omega

macro "var_tac" : tactic => `(tactic| (
  rcases ‹_ ∨ _ ∨ _› with hcont | hcont | hcont <;>
  apply measure_lt _ _ _ _ (by assumption) <;>
  simp_all [goto, setLoc, finish, die, enterSd, removeReq, tell, upd_apply, fin, rank] <;>
  first | omega | (split <;> omega) | (split <;> split <;> omega)))

theorem var_a1 (cfg : Cfg) (hev : cfg.evReturns = true) (n : Nat) (s : St) (t : Nat) (ht : t < n)
    (hp : (s.loc t).pc = 1) (hc : s.closing = true) (he : enabled cfg n s t = true)
    (hcont : (s.loc t).cont = 4 ∨ (s.loc t).cont = 8 ∨ (s.loc t).cont = 99) :
    measure n (a1 cfg s t) < measure n s := by
  simp only [a1, sendSend, wakeSend, afterWake, ret]
  repeat' split
  all_goals var_tac

theorem var_a2 (cfg : Cfg) (hev : cfg.evReturns = true) (n : Nat) (s : St) (t : Nat) (ht : t < n)
    (hp : (s.loc t).pc = 2) (hc : s.closing = true) (he : enabled cfg n s t = true)
    (hcont : (s.loc t).cont = 4 ∨ (s.loc t).cont = 8 ∨ (s.loc t).cont = 99) :
    measure n (a2 cfg s t) < measure n s := by
  simp only [a2, sendSend, wakeSend, afterWake, ret]
  repeat' split
  all_goals var_tac

theorem var_a3 (cfg : Cfg) (hev : cfg.evReturns = true) (n : Nat) (s : St) (t : Nat) (ht : t < n)
    (hp : (s.loc t).pc = 3) (hc : s.closing = true) (he : enabled cfg n s t = true)
    (hcont : (s.loc t).cont = 4 ∨ (s.loc t).cont = 8 ∨ (s.loc t).cont = 99) :
    measure n (a3 cfg s t) < measure n s := by
  simp only [a3, sendSend, wakeSend, afterWake, ret]
  repeat' split
  all_goals var_tac

theorem var_a4 (cfg : Cfg) (hev : cfg.evReturns = true) (n : Nat) (s : St) (t : Nat) (ht : t < n)
    (hp : (s.loc t).pc = 4) (hc : s.closing = true) (he : enabled cfg n s t = true)
    (hcont : (s.loc t).cont = 4 ∨ (s.loc t).cont = 8 ∨ (s.loc t).cont = 99) :
    measure n (a4 cfg s t) < measure n s := by
  simp only [a4, sendSend, wakeSend, afterWake, ret]
  repeat' split
  all_goals var_tac

theorem var_a5 (cfg : Cfg) (hev : cfg.evReturns = true) (n : Nat) (s : St) (t : Nat) (ht : t < n)
    (hp : (s.loc t).pc = 5) (hc : s.closing = true) (he : enabled cfg n s t = true)
    (hcont : (s.loc t).cont = 4 ∨ (s.loc t).cont = 8 ∨ (s.loc t).cont = 99) :
    measure n (a5 cfg s t) < measure n s := by
  simp only [a5, sendSend, wakeSend, afterWake, ret]
  repeat' split
  all_goals var_tac

theorem var_a6 (cfg : Cfg) (hev : cfg.evReturns = true) (n : Nat) (s : St) (t : Nat) (ht : t < n)
    (hp : (s.loc t).pc = 6) (hc : s.closing = true) (he : enabled cfg n s t = true)
    (hcont : (s.loc t).cont = 4 ∨ (s.loc t).cont = 8 ∨ (s.loc t).cont = 99) :
    measure n (a6 cfg s t) < measure n s := by
  simp only [a6, sendSend, wakeSend, afterWake, ret]
  repeat' split
  all_goals var_tac

theorem var_a7 (cfg : Cfg) (hev : cfg.evReturns = true) (n : Nat) (s : St) (t : Nat) (ht : t < n)
    (hp : (s.loc t).pc = 7) (hc : s.closing = true) (he : enabled cfg n s t = true)
    (hcont : (s.loc t).cont = 4 ∨ (s.loc t).cont = 8 ∨ (s.loc t).cont = 99) :
    measure n (a7 cfg s t) < measure n s := by
  simp only [a7, sendSend, wakeSend, afterWake, ret]
  repeat' split
  all_goals var_tac

theorem var_a8 (cfg : Cfg) (hev : cfg.evReturns = true) (n : Nat) (s : St) (t : Nat) (ht : t < n)
    (hp : (s.loc t).pc = 8) (hc : s.closing = true) (he : enabled cfg n s t = true)
    (hcont : (s.loc t).cont = 4 ∨ (s.loc t).cont = 8 ∨ (s.loc t).cont = 99) :
    measure n (a8 cfg s t) < measure n s := by
  simp only [a8, sendSend, wakeSend, afterWake, ret]
  repeat' split
  all_goals var_tac

theorem var_a20 (cfg : Cfg) (hev : cfg.evReturns = true) (n : Nat) (s : St) (t : Nat) (ht : t < n)
    (hp : (s.loc t).pc = 20) (hc : s.closing = true) (he : enabled cfg n s t = true)
    (hcont : (s.loc t).cont = 4 ∨ (s.loc t).cont = 8 ∨ (s.loc t).cont = 99) :
    measure n (a20 cfg s t) < measure n s := by
  simp only [a20, sendSend, wakeSend, afterWake, ret]
  repeat' split
  all_goals var_tac

theorem var_a21 (cfg : Cfg) (hev : cfg.evReturns = true) (n : Nat) (s : St) (t : Nat) (ht : t < n)
    (hp : (s.loc t).pc = 21) (hc : s.closing = true) (he : enabled cfg n s t = true)
    (hcont : (s.loc t).cont = 4 ∨ (s.loc t).cont = 8 ∨ (s.loc t).cont = 99) :
    measure n (a21 cfg s t) < measure n s := by
  simp only [a21, sendSend, wakeSend, afterWake, ret]
  repeat' split
  all_goals var_tac

theorem var_a22 (cfg : Cfg) (hev : cfg.evReturns = true) (n : Nat) (s : St) (t : Nat) (ht : t < n)
    (hp : (s.loc t).pc = 22) (hc : s.closing = true) (he : enabled cfg n s t = true)
    (hcont : (s.loc t).cont = 4 ∨ (s.loc t).cont = 8 ∨ (s.loc t).cont = 99) :
    measure n (a22 cfg s t) < measure n s := by
  simp only [a22, sendSend, wakeSend, afterWake, ret]
  repeat' split
  all_goals var_tac

theorem var_a23 (cfg : Cfg) (hev : cfg.evReturns = true) (n : Nat) (s : St) (t : Nat) (ht : t < n)
    (hp : (s.loc t).pc = 23) (hc : s.closing = true) (he : enabled cfg n s t = true)
    (hcont : (s.loc t).cont = 4 ∨ (s.loc t).cont = 8 ∨ (s.loc t).cont = 99) :
    measure n (a23 cfg s t) < measure n s := by
  simp only [a23, sendSend, wakeSend, afterWake, ret]
  repeat' split
  all_goals var_tac

theorem var_a24 (cfg : Cfg) (hev : cfg.evReturns = true) (n : Nat) (s : St) (t : Nat) (ht : t < n)
    (hp : (s.loc t).pc = 24) (hc : s.closing = true) (he : enabled cfg n s t = true)
    (hcont : (s.loc t).cont = 4 ∨ (s.loc t).cont = 8 ∨ (s.loc t).cont = 99) :
    measure n (a24 cfg s t) < measure n s := by
  simp only [a24, sendSend, wakeSend, afterWake, ret]
  repeat' split
  all_goals var_tac

theorem var_a25 (cfg : Cfg) (hev : cfg.evReturns = true) (n : Nat) (s : St) (t : Nat) (ht : t < n)
    (hp : (s.loc t).pc = 25) (hc : s.closing = true) (he : enabled cfg n s t = true)
    (hcont : (s.loc t).cont = 4 ∨ (s.loc t).cont = 8 ∨ (s.loc t).cont = 99) :
    measure n (a25 cfg s t) < measure n s := by
  simp only [a25, sendSend, wakeSend, afterWake, ret]
  repeat' split
  all_goals var_tac

theorem var_a26 (cfg : Cfg) (hev : cfg.evReturns = true) (n : Nat) (s : St) (t : Nat) (ht : t < n)
    (hp : (s.loc t).pc = 26) (hc : s.closing = true) (he : enabled cfg n s t = true)
    (hcont : (s.loc t).cont = 4 ∨ (s.loc t).cont = 8 ∨ (s.loc t).cont = 99) :
    measure n (a26 cfg s t) < measure n s := by
  simp only [a26, sendSend, wakeSend, afterWake, ret]
  repeat' split
  all_goals var_tac

theorem var_a27 (cfg : Cfg) (hev : cfg.evReturns = true) (n : Nat) (s : St) (t : Nat) (ht : t < n)
    (hp : (s.loc t).pc = 27) (hc : s.closing = true) (he : enabled cfg n s t = true)
    (hcont : (s.loc t).cont = 4 ∨ (s.loc t).cont = 8 ∨ (s.loc t).cont = 99) :
    measure n (a27 cfg s t) < measure n s := by
  simp only [a27, sendSend, wakeSend, afterWake, ret]
  repeat' split
  all_goals var_tac

theorem var_a28 (cfg : Cfg) (hev : cfg.evReturns = true) (n : Nat) (s : St) (t : Nat) (ht : t < n)
    (hp : (s.loc t).pc = 28) (hc : s.closing = true) (he : enabled cfg n s t = true)
    (hcont : (s.loc t).cont = 4 ∨ (s.loc t).cont = 8 ∨ (s.loc t).cont = 99) :
    measure n (a28 cfg s t) < measure n s := by
  simp only [a28, sendSend, wakeSend, afterWake, ret]
  repeat' split
  all_goals var_tac

theorem var_a40 (cfg : Cfg) (hev : cfg.evReturns = true) (n : Nat) (s : St) (t : Nat) (ht : t < n)
    (hp : (s.loc t).pc = 40) (hc : s.closing = true) (he : enabled cfg n s t = true)
    (hcont : (s.loc t).cont = 4 ∨ (s.loc t).cont = 8 ∨ (s.loc t).cont = 99) :
    measure n (a40 cfg s t) < measure n s := by
  simp only [a40, sendSend, wakeSend, afterWake, ret]
  repeat' split
  all_goals var_tac

theorem var_a41 (cfg : Cfg) (hev : cfg.evReturns = true) (n : Nat) (s : St) (t : Nat) (ht : t < n)
    (hp : (s.loc t).pc = 41) (hc : s.closing = true) (he : enabled cfg n s t = true)
    (hcont : (s.loc t).cont = 4 ∨ (s.loc t).cont = 8 ∨ (s.loc t).cont = 99) :
    measure n (a41 cfg s t) < measure n s := by
  simp only [a41, sendSend, wakeSend, afterWake, ret]
  repeat' split
  all_goals var_tac

theorem var_a42 (cfg : Cfg) (hev : cfg.evReturns = true) (n : Nat) (s : St) (t : Nat) (ht : t < n)
    (hp : (s.loc t).pc = 42) (hc : s.closing = true) (he : enabled cfg n s t = true)
    (hcont : (s.loc t).cont = 4 ∨ (s.loc t).cont = 8 ∨ (s.loc t).cont = 99) :
    measure n (a42 cfg s t) < measure n s := by
  simp only [a42, sendSend, wakeSend, afterWake, ret]
  repeat' split
  all_goals var_tac

theorem var_a43 (cfg : Cfg) (hev : cfg.evReturns = true) (n : Nat) (s : St) (t : Nat) (ht : t < n)
    (hp : (s.loc t).pc = 43) (hc : s.closing = true) (he : enabled cfg n s t = true)
    (hcont : (s.loc t).cont = 4 ∨ (s.loc t).cont = 8 ∨ (s.loc t).cont = 99) :
    measure n (a43 cfg s t) < measure n s := by
  simp only [a43, sendSend, wakeSend, afterWake, ret]
  repeat' split
  all_goals var_tac

theorem var_a44 (cfg : Cfg) (hev : cfg.evReturns = true) (n : Nat) (s : St) (t : Nat) (ht : t < n)
    (hp : (s.loc t).pc = 44) (hc : s.closing = true) (he : enabled cfg n s t = true)
    (hcont : (s.loc t).cont = 4 ∨ (s.loc t).cont = 8 ∨ (s.loc t).cont = 99) :
    measure n (a44 cfg s t) < measure n s := by
  simp only [a44, sendSend, wakeSend, afterWake, ret]
  repeat' split
  all_goals var_tac

theorem var_a45 (cfg : Cfg) (hev : cfg.evReturns = true) (n : Nat) (s : St) (t : Nat) (ht : t < n)
    (hp : (s.loc t).pc = 45) (hc : s.closing = true) (he : enabled cfg n s t = true)
    (hcont : (s.loc t).cont = 4 ∨ (s.loc t).cont = 8 ∨ (s.loc t).cont = 99) :
    measure n (a45 cfg s t) < measure n s := by
  simp only [a45, sendSend, wakeSend, afterWake, ret]
  repeat' split
  all_goals var_tac

theorem var_a46 (cfg : Cfg) (hev : cfg.evReturns = true) (n : Nat) (s : St) (t : Nat) (ht : t < n)
    (hp : (s.loc t).pc = 46) (hc : s.closing = true) (he : enabled cfg n s t = true)
    (hcont : (s.loc t).cont = 4 ∨ (s.loc t).cont = 8 ∨ (s.loc t).cont = 99) :
    measure n (a46 cfg s t) < measure n s := by
  simp only [a46, sendSend, wakeSend, afterWake, ret]
  repeat' split
  all_goals var_tac

theorem var_a47 (cfg : Cfg) (hev : cfg.evReturns = true) (n : Nat) (s : St) (t : Nat) (ht : t < n)
    (hp : (s.loc t).pc = 47) (hc : s.closing = true) (he : enabled cfg n s t = true)
    (hcont : (s.loc t).cont = 4 ∨ (s.loc t).cont = 8 ∨ (s.loc t).cont = 99) :
    measure n (a47 cfg s t) < measure n s := by
  simp only [a47, sendSend, wakeSend, afterWake, ret]
  repeat' split
  all_goals var_tac

theorem var_a48 (cfg : Cfg) (hev : cfg.evReturns = true) (n : Nat) (s : St) (t : Nat) (ht : t < n)
    (hp : (s.loc t).pc = 48) (hc : s.closing = true) (he : enabled cfg n s t = true)
    (hcont : (s.loc t).cont = 4 ∨ (s.loc t).cont = 8 ∨ (s.loc t).cont = 99) :
    measure n (a48 cfg s t) < measure n s := by
  simp only [a48, sendSend, wakeSend, afterWake, ret]
  repeat' split
  all_goals var_tac

theorem var_a49 (cfg : Cfg) (hev : cfg.evReturns = true) (n : Nat) (s : St) (t : Nat) (ht : t < n)
    (hp : (s.loc t).pc = 49) (hc : s.closing = true) (he : enabled cfg n s t = true)
    (hcont : (s.loc t).cont = 4 ∨ (s.loc t).cont = 8 ∨ (s.loc t).cont = 99) :
    measure n (a49 cfg s t) < measure n s := by
  simp only [a49, sendSend, wakeSend, afterWake, ret]
  repeat' split
  all_goals var_tac

theorem var_a50 (cfg : Cfg) (hev : cfg.evReturns = true) (n : Nat) (s : St) (t : Nat) (ht : t < n)
    (hp : (s.loc t).pc = 50) (hc : s.closing = true) (he : enabled cfg n s t = true)
    (hcont : (s.loc t).cont = 4 ∨ (s.loc t).cont = 8 ∨ (s.loc t).cont = 99) :
    measure n (a50 cfg s t) < measure n s := by
  simp only [a50, sendSend, wakeSend, afterWake, ret]
  repeat' split
  all_goals var_tac

theorem var_a51 (cfg : Cfg) (hev : cfg.evReturns = true) (n : Nat) (s : St) (t : Nat) (ht : t < n)
    (hp : (s.loc t).pc = 51) (hc : s.closing = true) (he : enabled cfg n s t = true)
    (hcont : (s.loc t).cont = 4 ∨ (s.loc t).cont = 8 ∨ (s.loc t).cont = 99) :
    measure n (a51 cfg s t) < measure n s := by
  simp only [a51, sendSend, wakeSend, afterWake, ret]
  repeat' split
  all_goals var_tac

theorem var_a52 (cfg : Cfg) (hev : cfg.evReturns = true) (n : Nat) (s : St) (t : Nat) (ht : t < n)
    (hp : (s.loc t).pc = 52) (hc : s.closing = true) (he : enabled cfg n s t = true)
    (hcont : (s.loc t).cont = 4 ∨ (s.loc t).cont = 8 ∨ (s.loc t).cont = 99) :
    measure n (a52 cfg s t) < measure n s := by
  simp only [a52, sendSend, wakeSend, afterWake, ret]
  repeat' split
  all_goals var_tac

theorem var_a53 (cfg : Cfg) (hev : cfg.evReturns = true) (n : Nat) (s : St) (t : Nat) (ht : t < n)
    (hp : (s.loc t).pc = 53) (hc : s.closing = true) (he : enabled cfg n s t = true)
    (hcont : (s.loc t).cont = 4 ∨ (s.loc t).cont = 8 ∨ (s.loc t).cont = 99) :
    measure n (a53 cfg s t) < measure n s := by
  simp only [a53, sendSend, wakeSend, afterWake, ret]
  repeat' split
  all_goals var_tac

theorem var_a54 (cfg : Cfg) (hev : cfg.evReturns = true) (n : Nat) (s : St) (t : Nat) (ht : t < n)
    (hp : (s.loc t).pc = 54) (hc : s.closing = true) (he : enabled cfg n s t = true)
    (hcont : (s.loc t).cont = 4 ∨ (s.loc t).cont = 8 ∨ (s.loc t).cont = 99) :
    measure n (a54 cfg s t) < measure n s := by
  simp only [a54, sendSend, wakeSend, afterWake, ret]
  repeat' split
  all_goals var_tac

theorem var_a60 (cfg : Cfg) (hev : cfg.evReturns = true) (n : Nat) (s : St) (t : Nat) (ht : t < n)
    (hp : (s.loc t).pc = 60) (hc : s.closing = true) (he : enabled cfg n s t = true)
    (hcont : (s.loc t).cont = 4 ∨ (s.loc t).cont = 8 ∨ (s.loc t).cont = 99) :
    measure n (a60 cfg s t) < measure n s := by
  simp only [a60, sendSend, wakeSend, afterWake, ret]
  repeat' split
  all_goals var_tac

theorem var_a61 (cfg : Cfg) (hev : cfg.evReturns = true) (n : Nat) (s : St) (t : Nat) (ht : t < n)
    (hp : (s.loc t).pc = 61) (hc : s.closing = true) (he : enabled cfg n s t = true)
    (hcont : (s.loc t).cont = 4 ∨ (s.loc t).cont = 8 ∨ (s.loc t).cont = 99) :
    measure n (a61 cfg s t) < measure n s := by
  simp only [a61, sendSend, wakeSend, afterWake, ret]
  repeat' split
  all_goals var_tac

theorem var_a62 (cfg : Cfg) (hev : cfg.evReturns = true) (n : Nat) (s : St) (t : Nat) (ht : t < n)
    (hp : (s.loc t).pc = 62) (hc : s.closing = true) (he : enabled cfg n s t = true)
    (hcont : (s.loc t).cont = 4 ∨ (s.loc t).cont = 8 ∨ (s.loc t).cont = 99) :
    measure n (a62 cfg s t) < measure n s := by
  simp only [a62, sendSend, wakeSend, afterWake, ret]
  repeat' split
  all_goals var_tac

theorem var_a63 (cfg : Cfg) (hev : cfg.evReturns = true) (n : Nat) (s : St) (t : Nat) (ht : t < n)
    (hp : (s.loc t).pc = 63) (hc : s.closing = true) (he : enabled cfg n s t = true)
    (hcont : (s.loc t).cont = 4 ∨ (s.loc t).cont = 8 ∨ (s.loc t).cont = 99) :
    measure n (a63 cfg s t) < measure n s := by
  simp only [a63, sendSend, wakeSend, afterWake, ret]
  repeat' split
  all_goals var_tac

theorem var_a64 (cfg : Cfg) (hev : cfg.evReturns = true) (n : Nat) (s : St) (t : Nat) (ht : t < n)
    (hp : (s.loc t).pc = 64) (hc : s.closing = true) (he : enabled cfg n s t = true)
    (hcont : (s.loc t).cont = 4 ∨ (s.loc t).cont = 8 ∨ (s.loc t).cont = 99) :
    measure n (a64 cfg s t) < measure n s := by
  simp only [a64, sendSend, wakeSend, afterWake, ret]
  repeat' split
  all_goals var_tac

theorem var_a65 (cfg : Cfg) (hev : cfg.evReturns = true) (n : Nat) (s : St) (t : Nat) (ht : t < n)
    (hp : (s.loc t).pc = 65) (hc : s.closing = true) (he : enabled cfg n s t = true)
    (hcont : (s.loc t).cont = 4 ∨ (s.loc t).cont = 8 ∨ (s.loc t).cont = 99) :
    measure n (a65 cfg s t) < measure n s := by
  simp only [a65, sendSend, wakeSend, afterWake, ret]
  repeat' split
  all_goals var_tac

theorem var_a66 (cfg : Cfg) (hev : cfg.evReturns = true) (n : Nat) (s : St) (t : Nat) (ht : t < n)
    (hp : (s.loc t).pc = 66) (hc : s.closing = true) (he : enabled cfg n s t = true)
    (hcont : (s.loc t).cont = 4 ∨ (s.loc t).cont = 8 ∨ (s.loc t).cont = 99) :
    measure n (a66 cfg s t) < measure n s := by
  simp only [a66, sendSend, wakeSend, afterWake, ret]
  repeat' split
  all_goals var_tac

theorem var_a70 (cfg : Cfg) (hev : cfg.evReturns = true) (n : Nat) (s : St) (t : Nat) (ht : t < n)
    (hp : (s.loc t).pc = 70) (hc : s.closing = true) (he : enabled cfg n s t = true)
    (hcont : (s.loc t).cont = 4 ∨ (s.loc t).cont = 8 ∨ (s.loc t).cont = 99) :
    measure n (a70 cfg s t) < measure n s := by
  simp only [a70, sendSend, wakeSend, afterWake, ret]
  repeat' split
  all_goals var_tac

theorem var_a71 (cfg : Cfg) (hev : cfg.evReturns = true) (n : Nat) (s : St) (t : Nat) (ht : t < n)
    (hp : (s.loc t).pc = 71) (hc : s.closing = true) (he : enabled cfg n s t = true)
    (hcont : (s.loc t).cont = 4 ∨ (s.loc t).cont = 8 ∨ (s.loc t).cont = 99) :
    measure n (a71 cfg s t) < measure n s := by
  simp only [a71, sendSend, wakeSend, afterWake, ret]
  repeat' split
  all_goals var_tac

theorem var_a72 (cfg : Cfg) (hev : cfg.evReturns = true) (n : Nat) (s : St) (t : Nat) (ht : t < n)
    (hp : (s.loc t).pc = 72) (hc : s.closing = true) (he : enabled cfg n s t = true)
    (hcont : (s.loc t).cont = 4 ∨ (s.loc t).cont = 8 ∨ (s.loc t).cont = 99) :
    measure n (a72 cfg s t) < measure n s := by
  simp only [a72, sendSend, wakeSend, afterWake, ret]
  repeat' split
  all_goals var_tac

theorem var_a73 (cfg : Cfg) (hev : cfg.evReturns = true) (n : Nat) (s : St) (t : Nat) (ht : t < n)
    (hp : (s.loc t).pc = 73) (hc : s.closing = true) (he : enabled cfg n s t = true)
    (hcont : (s.loc t).cont = 4 ∨ (s.loc t).cont = 8 ∨ (s.loc t).cont = 99) :
    measure n (a73 cfg s t) < measure n s := by
  simp only [a73, sendSend, wakeSend, afterWake, ret]
  repeat' split
  all_goals var_tac

theorem var_a80 (cfg : Cfg) (hev : cfg.evReturns = true) (n : Nat) (s : St) (t : Nat) (ht : t < n)
    (hp : (s.loc t).pc = 80) (hc : s.closing = true) (he : enabled cfg n s t = true)
    (hcont : (s.loc t).cont = 4 ∨ (s.loc t).cont = 8 ∨ (s.loc t).cont = 99) :
    measure n (a80 cfg s t) < measure n s := by
  simp only [a80, sendSend, wakeSend, afterWake, ret]
  repeat' split
  all_goals var_tac

theorem var_a86 (cfg : Cfg) (hev : cfg.evReturns = true) (n : Nat) (s : St) (t : Nat) (ht : t < n)
    (hp : (s.loc t).pc = 86) (hc : s.closing = true) (he : enabled cfg n s t = true)
    (hcont : (s.loc t).cont = 4 ∨ (s.loc t).cont = 8 ∨ (s.loc t).cont = 99) :
    measure n (a86 cfg s t) < measure n s := by
  simp only [a86, sendSend, wakeSend, afterWake, ret]
  repeat' split
  all_goals var_tac

theorem var_a87 (cfg : Cfg) (hev : cfg.evReturns = true) (n : Nat) (s : St) (t : Nat) (ht : t < n)
    (hp : (s.loc t).pc = 87) (hc : s.closing = true) (he : enabled cfg n s t = true)
    (hcont : (s.loc t).cont = 4 ∨ (s.loc t).cont = 8 ∨ (s.loc t).cont = 99) :
    measure n (a87 cfg s t) < measure n s := by
  simp only [a87, sendSend, wakeSend, afterWake, ret]
  repeat' split
  all_goals var_tac

theorem var_a88 (cfg : Cfg) (hev : cfg.evReturns = true) (n : Nat) (s : St) (t : Nat) (ht : t < n)
    (hp : (s.loc t).pc = 88) (hc : s.closing = true) (he : enabled cfg n s t = true)
    (hcont : (s.loc t).cont = 4 ∨ (s.loc t).cont = 8 ∨ (s.loc t).cont = 99) :
    measure n (a88 cfg s t) < measure n s := by
  simp only [a88, sendSend, wakeSend, afterWake, ret]
  repeat' split
  all_goals var_tac

theorem var_a89 (cfg : Cfg) (hev : cfg.evReturns = true) (n : Nat) (s : St) (t : Nat) (ht : t < n)
    (hp : (s.loc t).pc = 89) (hc : s.closing = true) (he : enabled cfg n s t = true)
    (hcont : (s.loc t).cont = 4 ∨ (s.loc t).cont = 8 ∨ (s.loc t).cont = 99) :
    measure n (a89 cfg s t) < measure n s := by
  simp only [a89, sendSend, wakeSend, afterWake, ret]
  repeat' split
  all_goals var_tac

theorem var_a90 (cfg : Cfg) (hev : cfg.evReturns = true) (n : Nat) (s : St) (t : Nat) (ht : t < n)
    (hp : (s.loc t).pc = 90) (hc : s.closing = true) (he : enabled cfg n s t = true)
    (hcont : (s.loc t).cont = 4 ∨ (s.loc t).cont = 8 ∨ (s.loc t).cont = 99) :
    measure n (a90 cfg s t) < measure n s := by
  simp only [a90, sendSend, wakeSend, afterWake, ret]
  repeat' split
  all_goals var_tac

theorem sumRank_upd_samepc (b : Bool) (loc : Nat → Loc) (t : Nat) (l' : Loc) (h : l'.pc = (loc t).pc) (n : Nat) :
    sumRank b (upd loc t l') n = sumRank b loc n := by
  induction n with
  | zero => simp [sumRank]
  | succ k ih =>
    simp only [sumRank, ih]
    by_cases hk : k = t
    · subst hk; simp [h]
    · rw [upd_other _ _ _ _ hk]

theorem var_a92 (cfg : Cfg) (hev : cfg.evReturns = true) (n : Nat) (s : St) (t : Nat) (ht : t < n)
    (hp : (s.loc t).pc = 92) (hc : s.closing = true) (he : enabled cfg n s t = true)
    (hcont : (s.loc t).cont = 4 ∨ (s.loc t).cont = 8 ∨ (s.loc t).cont = 99) :
    measure n (a92 cfg s t) < measure n s := by
  have hd : s.delReq > 0 := by simpa [enabled, hp] using he
  simp only [a92, goto, setLoc, measure]
  rw [sumRank_upd_samepc _ _ _ _ (by simp [hp])]
  omega

theorem var_a94 (cfg : Cfg) (hev : cfg.evReturns = true) (n : Nat) (s : St) (t : Nat) (ht : t < n)
    (hp : (s.loc t).pc = 94) (hc : s.closing = true) (he : enabled cfg n s t = true)
    (hcont : (s.loc t).cont = 4 ∨ (s.loc t).cont = 8 ∨ (s.loc t).cont = 99) :
    measure n (a94 cfg s t) < measure n s := by
  simp only [a94, sendSend, wakeSend, afterWake, ret]
  repeat' split
  all_goals var_tac

set_option maxHeartbeats 2000000 in
/-- every enabled atomic action of a closing Session strictly decreases the measure -/
theorem var_act (cfg : Cfg) (hev : cfg.evReturns = true) (n : Nat) (s : St) (t : Nat) (ht : t < n)
    (hc : s.closing = true) (he : enabled cfg n s t = true)
    (hcont : (s.loc t).cont = 4 ∨ (s.loc t).cont = 8 ∨ (s.loc t).cont = 99) :
    measure n (act cfg s t) < measure n s := by
  have hne : (s.loc t).pc ≠ 99 := by
    intro h; simp [enabled, h] at he
  unfold act
  repeat' split
  all_goals first | exact var_a1 cfg hev n s t ht (by assumption) hc he hcont | exact var_a2 cfg hev n s t ht (by assumption) hc he hcont | exact var_a3 cfg hev n s t ht (by assumption) hc he hcont | exact var_a4 cfg hev n s t ht (by assumption) hc he hcont | exact var_a5 cfg hev n s t ht (by assumption) hc he hcont | exact var_a6 cfg hev n s t ht (by assumption) hc he hcont | exact var_a7 cfg hev n s t ht (by assumption) hc he hcont | exact var_a8 cfg hev n s t ht (by assumption) hc he hcont | exact var_a20 cfg hev n s t ht (by assumption) hc he hcont | exact var_a21 cfg hev n s t ht (by assumption) hc he hcont | exact var_a22 cfg hev n s t ht (by assumption) hc he hcont | exact var_a23 cfg hev n s t ht (by assumption) hc he hcont | exact var_a24 cfg hev n s t ht (by assumption) hc he hcont | exact var_a25 cfg hev n s t ht (by assumption) hc he hcont | exact var_a26 cfg hev n s t ht (by assumption) hc he hcont | exact var_a27 cfg hev n s t ht (by assumption) hc he hcont | exact var_a28 cfg hev n s t ht (by assumption) hc he hcont | exact var_a40 cfg hev n s t ht (by assumption) hc he hcont | exact var_a41 cfg hev n s t ht (by assumption) hc he hcont | exact var_a42 cfg hev n s t ht (by assumption) hc he hcont | exact var_a43 cfg hev n s t ht (by assumption) hc he hcont | exact var_a44 cfg hev n s t ht (by assumption) hc he hcont | exact var_a45 cfg hev n s t ht (by assumption) hc he hcont | exact var_a46 cfg hev n s t ht (by assumption) hc he hcont | exact var_a47 cfg hev n s t ht (by assumption) hc he hcont | exact var_a48 cfg hev n s t ht (by assumption) hc he hcont | exact var_a49 cfg hev n s t ht (by assumption) hc he hcont | exact var_a50 cfg hev n s t ht (by assumption) hc he hcont | exact var_a51 cfg hev n s t ht (by assumption) hc he hcont | exact var_a52 cfg hev n s t ht (by assumption) hc he hcont | exact var_a53 cfg hev n s t ht (by assumption) hc he hcont | exact var_a54 cfg hev n s t ht (by assumption) hc he hcont | exact var_a60 cfg hev n s t ht (by assumption) hc he hcont | exact var_a61 cfg hev n s t ht (by assumption) hc he hcont | exact var_a62 cfg hev n s t ht (by assumption) hc he hcont | exact var_a63 cfg hev n s t ht (by assumption) hc he hcont | exact var_a64 cfg hev n s t ht (by assumption) hc he hcont | exact var_a65 cfg hev n s t ht (by assumption) hc he hcont | exact var_a66 cfg hev n s t ht (by assumption) hc he hcont | exact var_a70 cfg hev n s t ht (by assumption) hc he hcont | exact var_a71 cfg hev n s t ht (by assumption) hc he hcont | exact var_a72 cfg hev n s t ht (by assumption) hc he hcont | exact var_a73 cfg hev n s t ht (by assumption) hc he hcont | exact var_a80 cfg hev n s t ht (by assumption) hc he hcont | exact var_a86 cfg hev n s t ht (by assumption) hc he hcont | exact var_a87 cfg hev n s t ht (by assumption) hc he hcont | exact var_a88 cfg hev n s t ht (by assumption) hc he hcont | exact var_a89 cfg hev n s t ht (by assumption) hc he hcont | exact var_a90 cfg hev n s t ht (by assumption) hc he hcont | exact var_a92 cfg hev n s t ht (by assumption) hc he hcont | exact var_a94 cfg hev n s t ht (by assumption) hc he hcont | skip
  all_goals (exfalso; revert he; unfold enabled; simp_all [validPc])

/-- the Closing flag is never cleared -/
theorem act_closing (cfg : Cfg) (s : St) (t : Nat) (h : s.closing = true) : (act cfg s t).closing = true := by
  unfold act
  repeat' split
  all_goals (try simp only [a1, a2, a3, a4, a5, a6, a7, a8, a20, a21, a22, a23, a24, a25, a26, a27, a28, a40, a41, a42, a43, a44, a45, a46, a47, a48, a49, a50, a51, a52, a53, a54, a60, a61, a62, a63, a64, a65, a66, a70, a71, a72, a73, a80, a86, a87, a88, a89, a90, a92, a94, sendSend, wakeSend, afterWake, ret]; repeat' split)
  all_goals first | assumption | simp_all [goto, setLoc, finish, die, enterSd, removeReq, tell]

theorem step_closing (cfg : Cfg) (n : Nat) (s : St) (t : Nat) (h : s.closing = true) :
    (step cfg n s t).closing = true := by
  unfold step; split
  · exact act_closing cfg s t h
  · exact h

/-- number of schedule entries that actually execute an action -/
def effSteps (cfg : Cfg) (n : Nat) : St → List Nat → Nat
  | _, [] => 0
  | s, t :: ts => (if t < n ∧ enabled cfg n s t = true then 1 else 0) + effSteps cfg n (step cfg n s t) ts

end XMT.Close
