/-
  XMT.Codec — model of the typed binary codec of package `data`
  (chunk_writer.go / data_writer.go / chunk_reader.go / data_reader.go / util.go).

  Two writers (in-memory Chunk, stream writer) and two readers (Chunk, stream reader over an
  io.Reader that may deliver short reads) are modelled separately; the decoders share one generic
  body over a record of primitive reads (`Prim`), instantiated once per implementation.
-/
import XMT.Base
import XMT.Generated.Facts

namespace XMT.Codec
open XMT

inductive Err | eof | unexpectedEOF | invalidType | tooLarge
  deriving DecidableEq, Repr

inductive Ty | bool | u8 | u16 | u32 | u64 | bytes | strs
  deriving DecidableEq, Repr

/-- Typed values.  Signed integers, `int`/`uint`, floats (by bit pattern) and strings are casts of
these on the Go side (`WriteInt16(n) = WriteUint16(uint16(n))`, `WriteFloat32(f) =
WriteUint32(bits f)`, `WriteString(s) = WriteBytes([]byte(s))`). -/
inductive Val
  | bool (b : Bool) | u8 (n : UInt8) | u16 (n : Nat) | u32 (n : Nat) | u64 (n : Nat)
  | bytes (b : Bytes) | strs (l : List Bytes)
  deriving DecidableEq, Repr

def Val.ty : Val → Ty
  | .bool _ => .bool | .u8 _ => .u8 | .u16 _ => .u16 | .u32 _ => .u32 | .u64 _ => .u64
  | .bytes _ => .bytes | .strs _ => .strs

/-- Values the Go types can hold (lengths are `int`, i.e. below 2^63, and the decoders refuse
more than `MaxSlice` bytes). -/
def Val.WF : Val → Prop
  | .bool _ => True | .u8 _ => True
  | .u16 n => n < 2^16 | .u32 n => n < 2^32 | .u64 n => n < 2^64
  | .bytes b => b.length ≤ Facts.maxSlice
  | .strs l => l.length < 2^63 ∧ ∀ s ∈ l, s.length ≤ Facts.maxSlice

/-! ### Writers -/

/-- The tag + length header shared by `WriteBytes` and `WriteStringList`. -/
def lenPrefix (l : Nat) : Bytes :=
  if l = 0 then [0]
  else if l < Facts.limitSmall then [1, byteOf l]
  else if l < Facts.limitMedium then 3 :: be16 l
  else if l < Facts.limitLarge then 5 :: be32 l
  else 7 :: be64 l

/-- `(*Chunk).WriteBytes` with no limit set: header then body in one buffer. -/
def encBytesChunk (b : Bytes) : Bytes := lenPrefix b.length ++ b

/-- In-memory writer (`chunk_writer.go`, `util.go WriteStringList` over a Chunk). -/
def encChunk : Val → Bytes
  | .bool b => [if b then 1 else 0]
  | .u8 n => [n]
  | .u16 n => be16 n
  | .u32 n => be32 n
  | .u64 n => be64 n
  | .bytes b => encBytesChunk b
  | .strs l => lenPrefix l.length ++ l.flatMap encBytesChunk

/-- `(*writer).WriteBytes`: the list of `Write` calls made on the underlying `io.Writer`. -/
def encBytesStream (b : Bytes) : List Bytes :=
  if b.length = 0 then [[0]] else [lenPrefix b.length, b]

/-- Stream writer (`data_writer.go`): the sequence of `Write` calls. -/
def encStream : Val → List Bytes
  | .bool b => [[if b then 1 else 0]]
  | .u8 n => [[n]]
  | .u16 n => [be16 n]
  | .u32 n => [be32 n]
  | .u64 n => [be64 n]
  | .bytes b => encBytesStream b
  | .strs l => [lenPrefix l.length] ++ l.flatMap encBytesStream

def encAllChunk (vs : List Val) : Bytes := vs.flatMap encChunk
def encAllStream (vs : List Val) : List Bytes := vs.flatMap encStream

/-! ### Streams with short reads (Go `io.Reader`) -/

/-- A stream is the list of pieces the underlying reader will hand out; one `Read(buf)` returns
at most one piece (or the part of it that fits). -/
abbrev Stream := List Bytes

/-- `io.ReadFull(r, buf)` with `len(buf) = k`: the bytes obtained (fewer than `k` only at end of
stream) and the remaining stream. -/
def readFull : Nat → Stream → Bytes × Stream
  | 0, cs => ([], cs)
  | _ + 1, [] => ([], [])
  | k + 1, c :: cs =>
    if c.length < k + 1 then
      let r := readFull (k + 1 - c.length) cs
      (c ++ r.1, r.2)
    else (c.take (k + 1), if c.length = k + 1 then cs else c.drop (k + 1) :: cs)

/-- A single `Read` into a one-byte buffer (`reader.Uint8`); `none` = `io.EOF`/zero bytes. -/
def read1 : Stream → Option (UInt8 × Stream)
  | [] => none
  | [] :: _ => none            -- (0, nil) from the reader: `n < 1` → io.EOF
  | (b :: c) :: cs => some (b, if c.isEmpty then cs else c :: cs)

/-! ### Readers -/

/-- Primitive reads of one reader implementation. -/
structure Prim (S : Type) where
  u8   : S → Except Err (UInt8 × S)
  u16  : S → Except Err (Nat × S)
  u32  : S → Except Err (Nat × S)
  u64  : S → Except Err (Nat × S)
  /-- read the `l`-byte body of a byte string (`l > 0`) -/
  body : Nat → S → Except Err (Bytes × S)

/-- `chunk_reader.go` on the unread part of the buffer. -/
def chunkPrim : Prim Bytes where
  u8 | [] => .error .eof | b :: r => .ok (b, r)
  u16 | b0 :: b1 :: r => .ok (ofBe16 b0 b1, r) | _ => .error .eof
  u32 | b0 :: b1 :: b2 :: b3 :: r => .ok (ofBe32 b0 b1 b2 b3, r) | _ => .error .eof
  u64 | b0 :: b1 :: b2 :: b3 :: b4 :: b5 :: b6 :: b7 :: r => .ok (ofBe64 b0 b1 b2 b3 b4 b5 b6 b7, r)
      | _ => .error .eof
  body l s := if s.length < l then .error .eof else .ok (s.take l, s.drop l)

/-- Error class of a short `io.ReadFull`. -/
def shortErr (got : Bytes) : Err := if got.isEmpty then .eof else .unexpectedEOF

/-- `data_reader.go` over an `io.Reader` delivering arbitrary short reads. -/
def streamPrim : Prim Stream where
  u8 s := match read1 s with | none => .error .eof | some r => .ok r
  u16 s := match readFull 2 s with
    | ([b0, b1], r) => .ok (ofBe16 b0 b1, r)
    | (g, _) => .error (shortErr g)
  u32 s := match readFull 4 s with
    | ([b0, b1, b2, b3], r) => .ok (ofBe32 b0 b1 b2 b3, r)
    | (g, _) => .error (shortErr g)
  u64 s := match readFull 8 s with
    | ([b0, b1, b2, b3, b4, b5, b6, b7], r) => .ok (ofBe64 b0 b1 b2 b3 b4 b5 b6 b7, r)
    | (g, _) => .error (shortErr g)
  body l s :=
    let r := readFull l s
    if r.1.length = l then .ok r else .error (shortErr r.1)

section Generic
variable {S : Type} (P : Prim S)

/-- The length header of `Bytes()` / `ReadStringList`: `none` for tag 0. -/
def decLen (s : S) : Except Err (Option Nat × S) := do
  let (t, s) ← P.u8 s
  if t = 0 then pure (none, s)
  else if t = 1 ∨ t = 2 then do let (n, s) ← P.u8 s; pure (some n.toNat, s)
  else if t = 3 ∨ t = 4 then do let (n, s) ← P.u16 s; pure (some n, s)
  else if t = 5 ∨ t = 6 then do let (n, s) ← P.u32 s; pure (some n, s)
  else if t = 7 ∨ t = 8 then do let (n, s) ← P.u64 s; pure (some n, s)
  else throw .invalidType

/-- `Bytes()`. -/
def decBytes (s : S) : Except Err (Bytes × S) := do
  let (l, s) ← decLen P s
  match l with
  | none => pure ([], s)
  | some l =>
    if l = 0 then throw .unexpectedEOF
    else if l > Facts.maxSlice then throw .tooLarge
    else P.body l s

/-- the loop of `ReadStringList` -/
def decN : Nat → S → Except Err (List Bytes × S)
  | 0, s => pure ([], s)
  | n + 1, s => do
    let (b, s) ← decBytes P s
    let (r, s) ← decN n s
    pure (b :: r, s)

/-- `ReadStringList` (reading into an empty destination).  A 64-bit count is converted with
`int(n)`; counts ≥ 2^63 become negative and yield an empty list. -/
def decStrs (s : S) : Except Err (List Bytes × S) := do
  let (l, s) ← decLen P s
  match l with
  | none => pure ([], s)
  | some l => if l ≥ 2^63 then pure ([], s) else decN P l s

def dec : Ty → S → Except Err (Val × S)
  | .bool, s => do let (b, s) ← P.u8 s; pure (.bool (b = 1), s)
  | .u8, s => do let (b, s) ← P.u8 s; pure (.u8 b, s)
  | .u16, s => do let (n, s) ← P.u16 s; pure (.u16 n, s)
  | .u32, s => do let (n, s) ← P.u32 s; pure (.u32 n, s)
  | .u64, s => do let (n, s) ← P.u64 s; pure (.u64 n, s)
  | .bytes, s => do let (b, s) ← decBytes P s; pure (.bytes b, s)
  | .strs, s => do let (l, s) ← decStrs P s; pure (.strs l, s)

/-- Decode a sequence of typed values; on error report how many were decoded before it. -/
def decAll : List Ty → S → Except (Err × List Val) (List Val × S)
  | [], s => pure ([], s)
  | t :: ts, s =>
    match dec P t s with
    | .error e => .error (e, [])
    | .ok (v, s) =>
      match decAll ts s with
      | .error (e, vs) => .error (e, v :: vs)
      | .ok (vs, s) => .ok (v :: vs, s)

end Generic

end XMT.Codec
