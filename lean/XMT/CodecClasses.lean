/-
  XMT.CodecClasses — the length-prefix classes of `WriteBytes` / `WriteStringList` (0 / 1 / 2 / 4 / 8
  length bytes, tags 0 / 1 / 3 / 5 / 7) and what the readers do with headers no writer emits
  (even tags, a wider class than needed, a zero length behind a non-zero tag, too large, unknown tag).

  The three writer switches and the three reader switches are extracted from the source on every
  run (`Facts.c10_sw*`, `Facts.c10_cases*`); `evalSwitch` interprets an extracted writer switch.
-/
import XMT.CodecPrefix

namespace XMT.Codec
open XMT

/-! ### Writer side -/

/-- Number of length bytes the writers use for a length / count `l`. -/
def lenClass (l : Nat) : Nat :=
  if l = 0 then 0
  else if l < Facts.limitSmall then 1
  else if l < Facts.limitMedium then 2
  else if l < Facts.limitLarge then 4
  else 8

/-- The tag byte the writers use. -/
def lenTag (l : Nat) : Nat :=
  if l = 0 then 0
  else if l < Facts.limitSmall then 1
  else if l < Facts.limitMedium then 3
  else if l < Facts.limitLarge then 5
  else 7

/-- `w`-byte big-endian rendering as the Go code writes it (`byte(l >> 8·(w-1)), …, byte(l)`). -/
def beW : Nat → Nat → Bytes
  | 1, l => [byteOf l]
  | 2, l => be16 l
  | 4, l => be32 l
  | 8, l => be64 l
  | _, _ => []

/-- The constants of `data/data.go` are the powers of 256 (regenerated; closed by `decide`). -/
structure LimitsExact : Prop where
  small : Facts.limitSmall = 2^8
  medium : Facts.limitMedium = 2^16
  large : Facts.limitLarge = 2^32

theorem limitsExact : LimitsExact := by
  constructor <;> decide

theorem lenPrefix_eq (l : Nat) : lenPrefix l = byteOf (lenTag l) :: beW (lenClass l) l := by
  unfold lenPrefix lenTag lenClass
  by_cases h0 : l = 0
  · simp [h0, beW, byteOf]
  · by_cases h1 : l < Facts.limitSmall
    · simp [h0, h1, beW, byteOf]
    · by_cases h2 : l < Facts.limitMedium
      · simp [h0, h1, h2, beW, byteOf]
      · by_cases h3 : l < Facts.limitLarge
        · simp [h0, h1, h2, h3, beW, byteOf]
        · simp [h0, h1, h2, h3, beW, byteOf]

theorem lenClass_mono {a b : Nat} (h : a ≤ b) : lenClass a ≤ lenClass b := by
  have K := limitsExact
  unfold lenClass
  rw [K.small, K.medium, K.large]
  repeat' split
  all_goals omega

theorem lenTag_mono {a b : Nat} (h : a ≤ b) : lenTag a ≤ lenTag b := by
  have K := limitsExact
  unfold lenTag
  rw [K.small, K.medium, K.large]
  repeat' split
  all_goals omega

/-- The class holds the value … -/
theorem lenClass_fits (l : Nat) (hl : l < 2^64) : l < 2 ^ (8 * lenClass l) := by
  have K := limitsExact
  unfold lenClass
  rw [K.small, K.medium, K.large]
  repeat' split
  all_goals omega

/-- … and no smaller class would (the encoding is the canonical, shortest one). -/
theorem lenClass_minimal (l : Nat) (w : Nat) (hw : w = 0 ∨ w = 1 ∨ w = 2 ∨ w = 4)
    (hlt : w < lenClass l) : ¬ l < 2 ^ (8 * w) := by
  have K := limitsExact
  unfold lenClass at hlt
  rw [K.small, K.medium, K.large] at hlt
  rcases hw with rfl | rfl | rfl | rfl <;> (repeat' split at hlt) <;> omega

theorem beW_length (w l : Nat) (hw : w = 1 ∨ w = 2 ∨ w = 4 ∨ w = 8) : (beW w l).length = w := by
  rcases hw with rfl | rfl | rfl | rfl <;> simp [beW, be16, be32, be64]

theorem lenPrefix_length (l : Nat) : (lenPrefix l).length = 1 + lenClass l := by
  rw [lenPrefix_eq]
  unfold lenClass
  repeat' split
  all_goals simp [beW, be16, be32, be64]

/-! ### The extracted writer switches -/

/-- An extracted `switch l := uint64(len(x)); { case … }`: per clause the condition (0 = `l == 0`,
1 = `l < LimitSmall`, 2 = `l < LimitMedium`, 3 = `l < LimitLarge`, 4 = `default`, anything else =
not recognised), the tag byte written and the number of `byte(l >> …)` length bytes. -/
abbrev Switch := List (Nat × Nat × Nat)

def condHolds (c l : Nat) : Option Bool :=
  if c = 0 then some (decide (l = 0))
  else if c = 1 then some (decide (l < Facts.limitSmall))
  else if c = 2 then some (decide (l < Facts.limitMedium))
  else if c = 3 then some (decide (l < Facts.limitLarge))
  else if c = 4 then some true
  else none

/-- Run an extracted switch: the header it writes for `l`. -/
def evalSwitch : Switch → Nat → Option Bytes
  | [], _ => none
  | (c, tag, n) :: rest, l =>
    match condHolds c l with
    | none => none
    | some true => some (byteOf tag :: beW n l)
    | some false => evalSwitch rest l

/-- The switch all three writers are expected to have. -/
def expectedSwitch : Switch := [(0, 0, 0), (1, 1, 1), (2, 3, 2), (3, 5, 4), (4, 7, 8)]

theorem evalSwitch_expected (l : Nat) : evalSwitch expectedSwitch l = some (lenPrefix l) := by
  unfold lenPrefix
  by_cases h0 : l = 0
  · simp [expectedSwitch, evalSwitch, condHolds, h0, beW, byteOf]
  · by_cases h1 : l < Facts.limitSmall
    · simp [expectedSwitch, evalSwitch, condHolds, h0, h1, beW, byteOf]
    · by_cases h2 : l < Facts.limitMedium
      · simp [expectedSwitch, evalSwitch, condHolds, h0, h1, h2, beW, byteOf]
      · by_cases h3 : l < Facts.limitLarge
        · simp [expectedSwitch, evalSwitch, condHolds, h0, h1, h2, h3, beW, byteOf]
        · simp [expectedSwitch, evalSwitch, condHolds, h0, h1, h2, h3, beW, byteOf]

/-! ### Reader side -/

/-- Width of the length field the readers read for a tag byte (`case 1, 2:` … `case 7, 8:`);
`some 0` = tag 0 (empty value, nothing more is read), `none` = `ErrInvalidType`. -/
def widthOfTag (t : UInt8) : Option Nat :=
  if t = 0 then some 0
  else if t = 1 ∨ t = 2 then some 1
  else if t = 3 ∨ t = 4 then some 2
  else if t = 5 ∨ t = 6 then some 4
  else if t = 7 ∨ t = 8 then some 8
  else none

/-- An extracted reader switch: per clause the case labels and what is read next (1/2/4/8 =
`Uint8/16/32/64()`, 0 = returns the empty value, 99 = `ErrInvalidType`). -/
abbrev Cases := List (List Nat × Nat)

def expectedCases : Cases := [([0], 0), ([1, 2], 1), ([3, 4], 2), ([5, 6], 4), ([7, 8], 8), ([], 99)]

/-- Look a tag up in an extracted reader switch (the clause without labels is `default`). -/
def lookupCase : Cases → Nat → Option Nat
  | [], _ => none
  | (ls, w) :: rest, t =>
    if ls.contains t then (if w = 99 then none else some w)
    else if ls.isEmpty then (match lookupCase rest t with
      | some x => some x
      | none => if w = 99 then none else some w)
    else lookupCase rest t

theorem widthOfTag_table :
    (List.range 12).all (fun n => widthOfTag (UInt8.ofNat n) == lookupCase expectedCases n) = true := by
  decide

section
variable {S : Type} {P : Prim S} {abs : S → Bytes} {inv : S → Prop}

theorem decLen_w0 (L : Lawful P abs inv) (s : S) (r : Bytes) (hi : inv s) (h : abs s = 0 :: r) :
    ∃ s', decLen P s = .ok (none, s') ∧ abs s' = r ∧ inv s' := by
  obtain ⟨s1, e1, a1, i1⟩ := L.u8_ok s _ _ hi h
  exact ⟨s1, by simp [decLen, e1, bind, Except.bind, pure, Except.pure], a1, i1⟩

/-- Any tag of a class is accepted with any value of its length field — also values a narrower
class would hold (non-canonical) and the even tags no writer emits. -/
theorem decLen_tag (L : Lawful P abs inv) (t : UInt8) (w : Nat) (hw : widthOfTag t = some w)
    (hw0 : w ≠ 0) (l : Nat) (hl : l < 2 ^ (8 * w)) (s : S) (r : Bytes) (hi : inv s)
    (h : abs s = t :: (beW w l ++ r)) :
    ∃ s', decLen P s = .ok (some l, s') ∧ abs s' = r ∧ inv s' := by
  obtain ⟨s1, e1, a1, i1⟩ := L.u8_ok s _ _ hi h
  unfold widthOfTag at hw
  by_cases c0 : t = 0
  · simp [c0] at hw; omega
  · by_cases c1 : t = 1 ∨ t = 2
    · simp only [c0, c1, if_true, if_false, Option.some.injEq] at hw
      subst hw
      simp only [beW, List.cons_append, List.nil_append] at a1
      obtain ⟨s2, e2, a2, i2⟩ := L.u8_ok s1 _ _ i1 a1
      refine ⟨s2, ?_, a2, i2⟩
      have : l % 256 = l := Nat.mod_eq_of_lt (by omega)
      simp [decLen, e1, e2, bind, Except.bind, pure, Except.pure, c0, c1, this]
    · by_cases c2 : t = 3 ∨ t = 4
      · simp only [c0, c1, c2, if_true, if_false, Option.some.injEq] at hw
        subst hw
        simp only [beW, be16, List.cons_append, List.nil_append] at a1
        obtain ⟨s2, e2, a2, i2⟩ := L.u16_ok s1 _ _ _ i1 a1
        refine ⟨s2, ?_, a2, i2⟩
        have : ofBe16 (byteOf (l >>> 8)) (byteOf l) = l := ofBe16_be16 l (by omega)
        simp [decLen, e1, e2, bind, Except.bind, pure, Except.pure, c0, c1, c2, this]
      · by_cases c3 : t = 5 ∨ t = 6
        · simp only [c0, c1, c2, c3, if_true, if_false, Option.some.injEq] at hw
          subst hw
          simp only [beW, be32, List.cons_append, List.nil_append] at a1
          obtain ⟨s2, e2, a2, i2⟩ := L.u32_ok s1 _ _ _ _ _ i1 a1
          refine ⟨s2, ?_, a2, i2⟩
          have : ofBe32 (byteOf (l >>> 24)) (byteOf (l >>> 16)) (byteOf (l >>> 8)) (byteOf l) = l :=
            ofBe32_be32 l (by omega)
          simp [decLen, e1, e2, bind, Except.bind, pure, Except.pure, c0, c1, c2, c3, this]
        · by_cases c4 : t = 7 ∨ t = 8
          · simp only [c0, c1, c2, c3, c4, if_true, if_false, Option.some.injEq] at hw
            subst hw
            simp only [beW, be64, List.cons_append, List.nil_append] at a1
            obtain ⟨s2, e2, a2, i2⟩ := L.u64_ok s1 _ _ _ _ _ _ _ _ _ i1 a1
            refine ⟨s2, ?_, a2, i2⟩
            have := ofBe64_be64 l (by omega)
            simp [decLen, e1, e2, bind, Except.bind, pure, Except.pure, c0, c1, c2, c3, c4, this]
          · simp [c0, c1, c2, c3, c4] at hw

theorem decLen_badTag (L : Lawful P abs inv) (t : UInt8) (hw : widthOfTag t = none) (s : S)
    (r : Bytes) (hi : inv s) (h : abs s = t :: r) : decLen P s = .error .invalidType := by
  obtain ⟨s1, e1, _, _⟩ := L.u8_ok s _ _ hi h
  unfold widthOfTag at hw
  by_cases c0 : t = 0
  · simp [c0] at hw
  · by_cases c1 : t = 1 ∨ t = 2
    · simp [c0, c1] at hw
    · by_cases c2 : t = 3 ∨ t = 4
      · simp [c0, c1, c2] at hw
      · by_cases c3 : t = 5 ∨ t = 6
        · simp [c0, c1, c2, c3] at hw
        · by_cases c4 : t = 7 ∨ t = 8
          · simp [c0, c1, c2, c3, c4] at hw
          · simp [decLen, e1, bind, Except.bind, c0, c1, c2, c3, c4, throw, throwThe, MonadExceptOf.throw]

/-- `Bytes()` on a non-canonical header followed by the announced number of bytes: accepted, the
value is the body. -/
theorem decBytes_noncanonical (L : Lawful P abs inv) (t : UInt8) (w : Nat)
    (hw : widthOfTag t = some w) (hw0 : w ≠ 0) (b : Bytes) (hb0 : b ≠ [])
    (hb : b.length ≤ Facts.maxSlice) (hl : b.length < 2 ^ (8 * w)) (s : S) (r : Bytes) (hi : inv s)
    (h : abs s = t :: (beW w b.length ++ (b ++ r))) :
    ∃ s', decBytes P s = .ok (b, s') ∧ abs s' = r ∧ inv s' := by
  obtain ⟨s1, e1, a1, i1⟩ := decLen_tag L t w hw hw0 b.length hl s _ hi h
  have h0 : b.length ≠ 0 := by
    intro h0; exact hb0 (List.length_eq_zero_iff.mp h0)
  obtain ⟨s2, e2, a2, i2⟩ := L.body_ok s1 b.length i1 (by rw [a1]; simp)
  refine ⟨s2, ?_, by rw [a2, a1]; simp, i2⟩
  rw [a1] at e2
  simp only [List.take_left'] at e2
  simp [decBytes, e1, bind, Except.bind, h0, e2]
  omega

/-- A zero length behind a non-zero tag: `io.ErrUnexpectedEOF` (the writers use tag 0). -/
theorem decBytes_zeroLen (L : Lawful P abs inv) (t : UInt8) (w : Nat)
    (hw : widthOfTag t = some w) (hw0 : w ≠ 0) (s : S) (r : Bytes) (hi : inv s)
    (h : abs s = t :: (beW w 0 ++ r)) : decBytes P s = .error .unexpectedEOF := by
  obtain ⟨s1, e1, a1, i1⟩ := decLen_tag L t w hw hw0 0 (Nat.two_pow_pos _) s _ hi h
  simp [decBytes, e1, bind, Except.bind, throw, throwThe, MonadExceptOf.throw]

/-- More than `MaxSlice`: `ErrTooLarge`, whatever follows. -/
theorem decBytes_tooLarge (L : Lawful P abs inv) (t : UInt8) (w : Nat)
    (hw : widthOfTag t = some w) (hw0 : w ≠ 0) (l : Nat) (hl : l < 2 ^ (8 * w))
    (hbig : l > Facts.maxSlice) (s : S) (r : Bytes) (hi : inv s)
    (h : abs s = t :: (beW w l ++ r)) : decBytes P s = .error .tooLarge := by
  obtain ⟨s1, e1, a1, i1⟩ := decLen_tag L t w hw hw0 l hl s _ hi h
  have h0 : l ≠ 0 := by omega
  simp [decBytes, e1, bind, Except.bind, h0, hbig, throw, throwThe, MonadExceptOf.throw]

theorem decBytes_badTag (L : Lawful P abs inv) (t : UInt8) (hw : widthOfTag t = none) (s : S)
    (r : Bytes) (hi : inv s) (h : abs s = t :: r) : decBytes P s = .error .invalidType := by
  simp [decBytes, decLen_badTag L t hw s r hi h, bind, Except.bind]

/-- `ReadStringList` with a zero count behind a non-zero tag: accepted as the empty list (unlike
`Bytes()`). -/
theorem decStrs_zeroCount (L : Lawful P abs inv) (t : UInt8) (w : Nat)
    (hw : widthOfTag t = some w) (hw0 : w ≠ 0) (s : S) (r : Bytes) (hi : inv s)
    (h : abs s = t :: (beW w 0 ++ r)) :
    ∃ s', decStrs P s = .ok ([], s') ∧ abs s' = r ∧ inv s' := by
  obtain ⟨s1, e1, a1, i1⟩ := decLen_tag L t w hw hw0 0 (Nat.two_pow_pos _) s _ hi h
  exact ⟨s1, by simp [decStrs, e1, bind, Except.bind, decN, pure, Except.pure], a1, i1⟩

/-- `ReadStringList` with a non-canonical count header followed by that many entries. -/
theorem decStrs_noncanonical (L : Lawful P abs inv) (t : UInt8) (w : Nat)
    (hw : widthOfTag t = some w) (hw0 : w ≠ 0) (l : List Bytes) (hl63 : l.length < 2^63)
    (hl : ∀ b ∈ l, b.length ≤ Facts.maxSlice) (hfit : l.length < 2 ^ (8 * w)) (s : S) (r : Bytes)
    (hi : inv s) (h : abs s = t :: (beW w l.length ++ (l.flatMap encBytesChunk ++ r))) :
    ∃ s', decStrs P s = .ok (l, s') ∧ abs s' = r ∧ inv s' := by
  obtain ⟨s1, e1, a1, i1⟩ := decLen_tag L t w hw hw0 l.length hfit s _ hi h
  obtain ⟨s2, e2, a2, i2⟩ := decN_ok L l hl s1 r i1 a1
  refine ⟨s2, ?_, a2, i2⟩
  have hlt : ¬ (l.length ≥ 2^63) := by omega
  simp [decStrs, e1, e2, hlt, bind, Except.bind]

end
end XMT.Codec
