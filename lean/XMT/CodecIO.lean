/-
  XMT.CodecIO — the stream reader of `data/data_reader.go` over an `io.Reader` described call by
  call: every `Read` returns a piece of data, possibly nothing (`(0, nil)`, a no-progress read),
  possibly together with `io.EOF` (`(n > 0, io.EOF)`, the final bytes and the end in one call, as
  flate / cipher / HTTP body readers and `iotest.DataErrReader` do), or `(0, io.EOF)`.

  All primitive reads of the current code go through `io.ReadFull` (since fix 01c25de also the
  one-byte read), which is modelled literally (`io.ReadAtLeast` loop).
-/
import XMT.CodecLemmas

namespace XMT.Codec
open XMT

/-- What one `Read` call of the underlying `io.Reader` has to offer: `data` (all of it if the
buffer is large enough, else the part that fits, the rest stays for the next call) and whether
`io.EOF` is returned together with the last of it.  `⟨[], false⟩` is a `(0, nil)` read. -/
structure Piece where
  data : Bytes
  eof : Bool
  deriving DecidableEq, Repr

abbrev IOStream := List Piece

/-- all bytes the reader will ever deliver -/
def absIO (s : IOStream) : Bytes := s.flatMap (·.data)

/-- `io.ReadFull(r, buf)`, `len(buf) = k` (`io.ReadAtLeast`: `for n < min && err == nil { nn, err
= r.Read(buf[n:]); n += nn }`).  Returns the bytes obtained and the reader afterwards; fewer than
`k` bytes mean the loop was ended by `io.EOF` (an exhausted script answers `(0, io.EOF)`).  An
`io.EOF` that arrives together with the last byte needed is dropped (`if n >= min { err = nil }`). -/
def readFullIO : IOStream → Nat → Bytes × IOStream
  | [], _ => ([], [])
  | p :: ps, k =>
    if k = 0 then ([], p :: ps)                                 -- `n < min` is false: no Read at all
    else if p.data.length ≤ k then
      if p.eof then (p.data, ps)                                -- err == io.EOF ends the loop
      else
        let r := readFullIO ps (k - p.data.length)              -- (also the `(0, nil)` read: once more)
        (p.data ++ r.1, r.2)
    else (p.data.take k, { p with data := p.data.drop k } :: ps)  -- the buffer is full

/-- `data_reader.go` over such a reader.  `Uint8` is `io.ReadFull(r.r, r.buf[0:1])`. -/
def ioPrim : Prim IOStream where
  u8 s := match readFullIO s 1 with
    | ([b0], r) => .ok (b0, r)
    | (g, _) => .error (shortErr g)
  u16 s := match readFullIO s 2 with
    | ([b0, b1], r) => .ok (ofBe16 b0 b1, r)
    | (g, _) => .error (shortErr g)
  u32 s := match readFullIO s 4 with
    | ([b0, b1, b2, b3], r) => .ok (ofBe32 b0 b1 b2 b3, r)
    | (g, _) => .error (shortErr g)
  u64 s := match readFullIO s 8 with
    | ([b0, b1, b2, b3, b4, b5, b6, b7], r) => .ok (ofBe64 b0 b1 b2 b3 b4 b5 b6 b7, r)
    | (g, _) => .error (shortErr g)
  body l s :=
    let r := readFullIO s l
    if r.1.length = l then .ok r else .error (shortErr r.1)

/-- A reader that keeps the `io.Reader` contract at its end: once a `Read` has returned `io.EOF`
no later `Read` delivers data.  (`(0, nil)` reads and EOF-with-data are allowed anywhere /
at the end.) -/
def EofOK : IOStream → Prop
  | [] => True
  | p :: ps => (p.eof = true → ∀ q ∈ ps, q.data = []) ∧ EofOK ps

instance : (s : IOStream) → Decidable (EofOK s)
  | [] => isTrue trivial
  | p :: ps =>
    have : Decidable (EofOK ps) := instDecidableEofOK ps
    by unfold EofOK; exact inferInstance

/-- The old model's streams (`List Bytes`, no EOF flags) as scripts. -/
def ofStream (cs : Stream) : IOStream := cs.map fun c => ⟨c, false⟩

theorem absIO_nil_of_all_empty (ps : IOStream) (h : ∀ q ∈ ps, q.data = []) : absIO ps = [] := by
  induction ps with
  | nil => rfl
  | cons q ps ih =>
    simp only [absIO, List.flatMap_cons] at ih ⊢
    rw [h q List.mem_cons_self, ih (fun x hx => h x (List.mem_cons_of_mem _ hx))]; rfl

theorem absIO_cons (p : Piece) (ps : IOStream) : absIO (p :: ps) = p.data ++ absIO ps := by
  simp [absIO]

theorem readFullIO_fst (s : IOStream) (k : Nat) (h : EofOK s) :
    (readFullIO s k).1 = (absIO s).take k := by
  induction s generalizing k with
  | nil => simp [readFullIO, absIO]
  | cons p ps ih =>
    obtain ⟨h1, h2⟩ := h
    simp only [readFullIO]
    by_cases hk : k = 0
    · simp [hk]
    · simp only [hk, if_false]
      by_cases hl : p.data.length ≤ k
      · simp only [hl, if_true]
        rcases Bool.eq_false_or_eq_true p.eof with he | he
        · simp only [he, if_true]
          rw [absIO_cons, absIO_nil_of_all_empty ps (h1 he), List.append_nil,
            List.take_of_length_le hl]
        · simp only [he, Bool.false_eq_true, if_false]
          rw [absIO_cons, ih _ h2, List.take_append, List.take_of_length_le hl]
      · simp only [hl, if_false]
        rw [absIO_cons, List.take_append]
        have : k - p.data.length = 0 := by omega
        simp [this]

theorem readFullIO_snd (s : IOStream) (k : Nat) (h : EofOK s) :
    absIO (readFullIO s k).2 = (absIO s).drop k := by
  induction s generalizing k with
  | nil => simp [readFullIO, absIO]
  | cons p ps ih =>
    obtain ⟨h1, h2⟩ := h
    simp only [readFullIO]
    by_cases hk : k = 0
    · simp [hk]
    · simp only [hk, if_false]
      by_cases hl : p.data.length ≤ k
      · simp only [hl, if_true]
        rcases Bool.eq_false_or_eq_true p.eof with he | he
        · simp only [he, if_true]
          rw [absIO_cons, absIO_nil_of_all_empty ps (h1 he)]
          simp [List.drop_of_length_le hl]
        · simp only [he, Bool.false_eq_true, if_false]
          rw [absIO_cons, ih _ h2, List.drop_append, List.drop_of_length_le hl]
          simp
      · simp only [hl, if_false]
        rw [absIO_cons, absIO_cons, List.drop_append]
        have : k - p.data.length = 0 := by omega
        simp [this]

theorem readFullIO_inv (s : IOStream) (k : Nat) (h : EofOK s) : EofOK (readFullIO s k).2 := by
  induction s generalizing k with
  | nil => simp [readFullIO, EofOK]
  | cons p ps ih =>
    obtain ⟨h1, h2⟩ := h
    simp only [readFullIO]
    by_cases hk : k = 0
    · simp only [hk, if_true]; exact ⟨h1, h2⟩
    · simp only [hk, if_false]
      by_cases hl : p.data.length ≤ k
      · simp only [hl, if_true]
        rcases Bool.eq_false_or_eq_true p.eof with he | he
        · simp only [he, if_true]; exact h2
        · simp only [he, Bool.false_eq_true, if_false]; exact ih _ h2
      · simp only [hl, if_false]
        exact ⟨h1, h2⟩

theorem io_lawful : Lawful ioPrim absIO EofOK where
  u8_ok := by
    intro s b r hi h
    have h1 := readFullIO_fst s 1 hi; have h2 := readFullIO_snd s 1 hi; have h3 := readFullIO_inv s 1 hi
    rw [h] at h1 h2
    generalize hp : readFullIO s 1 = p at h1 h2 h3
    obtain ⟨g, t⟩ := p
    simp at h1 h2; subst h1
    exact ⟨t, by simp [ioPrim, hp], h2, h3⟩
  u8_err := by
    intro s hi h
    have h1 := readFullIO_fst s 1 hi
    generalize hp : readFullIO s 1 = p at h1
    obtain ⟨g, t⟩ := p
    simp [h] at h1
    subst h1
    exact ⟨shortErr [], by simp only [ioPrim, hp]⟩
  u16_ok := by
    intro s b0 b1 r hi h
    have h1 := readFullIO_fst s 2 hi; have h2 := readFullIO_snd s 2 hi; have h3 := readFullIO_inv s 2 hi
    rw [h] at h1 h2
    generalize hp : readFullIO s 2 = p at h1 h2 h3
    obtain ⟨g, t⟩ := p
    simp at h1 h2; subst h1
    exact ⟨t, by simp [ioPrim, hp], h2, h3⟩
  u16_err := by
    intro s hi h
    have h1 := readFullIO_fst s 2 hi
    generalize hp : readFullIO s 2 = p at h1
    obtain ⟨g, t⟩ := p
    simp at h1
    have hl : g.length < 2 := by rw [h1, List.length_take]; omega
    simp only [ioPrim, hp]
    match g, hl with
    | [], _ => exact ⟨_, rfl⟩
    | [_], _ => exact ⟨_, rfl⟩
    | _ :: _ :: _, hl => simp at hl; omega
  u32_ok := by
    intro s b0 b1 b2 b3 r hi h
    have h1 := readFullIO_fst s 4 hi; have h2 := readFullIO_snd s 4 hi; have h3 := readFullIO_inv s 4 hi
    rw [h] at h1 h2
    generalize hp : readFullIO s 4 = p at h1 h2 h3
    obtain ⟨g, t⟩ := p
    simp at h1 h2; subst h1
    exact ⟨t, by simp [ioPrim, hp], h2, h3⟩
  u32_err := by
    intro s hi h
    have h1 := readFullIO_fst s 4 hi
    generalize hp : readFullIO s 4 = p at h1
    obtain ⟨g, t⟩ := p
    simp at h1
    have hl : g.length < 4 := by rw [h1, List.length_take]; omega
    simp only [ioPrim, hp]
    match g, hl with
    | [], _ => exact ⟨_, rfl⟩
    | [_], _ => exact ⟨_, rfl⟩
    | [_, _], _ => exact ⟨_, rfl⟩
    | [_, _, _], _ => exact ⟨_, rfl⟩
    | _ :: _ :: _ :: _ :: _, hl => simp at hl; omega
  u64_ok := by
    intro s b0 b1 b2 b3 b4 b5 b6 b7 r hi h
    have h1 := readFullIO_fst s 8 hi; have h2 := readFullIO_snd s 8 hi; have h3 := readFullIO_inv s 8 hi
    rw [h] at h1 h2
    generalize hp : readFullIO s 8 = p at h1 h2 h3
    obtain ⟨g, t⟩ := p
    simp at h1 h2; subst h1
    exact ⟨t, by simp [ioPrim, hp], h2, h3⟩
  u64_err := by
    intro s hi h
    have h1 := readFullIO_fst s 8 hi
    generalize hp : readFullIO s 8 = p at h1
    obtain ⟨g, t⟩ := p
    simp at h1
    have hl : g.length < 8 := by rw [h1, List.length_take]; omega
    simp only [ioPrim, hp]
    match g, hl with
    | [], _ => exact ⟨_, rfl⟩
    | [_], _ => exact ⟨_, rfl⟩
    | [_, _], _ => exact ⟨_, rfl⟩
    | [_, _, _], _ => exact ⟨_, rfl⟩
    | [_, _, _, _], _ => exact ⟨_, rfl⟩
    | [_, _, _, _, _], _ => exact ⟨_, rfl⟩
    | [_, _, _, _, _, _], _ => exact ⟨_, rfl⟩
    | [_, _, _, _, _, _, _], _ => exact ⟨_, rfl⟩
    | _ :: _ :: _ :: _ :: _ :: _ :: _ :: _ :: _, hl => simp at hl; omega
  body_ok := by
    intro s l hi h
    have h1 := readFullIO_fst s l hi; have h2 := readFullIO_snd s l hi; have h3 := readFullIO_inv s l hi
    refine ⟨(readFullIO s l).2, ?_, h2, h3⟩
    simp only [ioPrim]
    rw [if_pos (by rw [h1, List.length_take]; omega), ← h1]
  body_err := by
    intro s l hi h
    have h1 := readFullIO_fst s l hi
    refine ⟨shortErr (readFullIO s l).1, ?_⟩
    simp only [ioPrim]
    rw [if_neg (by rw [h1, List.length_take]; omega)]

/-- Scripts without EOF flags satisfy the end-of-stream contract trivially. -/
theorem ofStream_eofOK (cs : Stream) : EofOK (ofStream cs) := by
  induction cs with
  | nil => trivial
  | cons c cs ih => exact ⟨by simp, ih⟩

theorem absIO_ofStream (cs : Stream) : absIO (ofStream cs) = cs.flatten := by
  induction cs with
  | nil => rfl
  | cons c cs ih =>
    have : ofStream (c :: cs) = ⟨c, false⟩ :: ofStream cs := rfl
    rw [this, absIO_cons, ih]; simp

/-- An `io.EOF` in the middle followed by more data (a reader that breaks the contract) is outside
the theorems: the reads stop short there. -/
example : readFullIO [⟨[1], true⟩, ⟨[2], false⟩] 2 = ([1], [⟨[2], false⟩]) := by decide

end XMT.Codec
