import XMT.Codec
namespace XMT.Codec
open XMT

/-- all pieces of a stream are non-empty (a `Read` that returns `(0, nil)` is excluded) -/
def NoEmpty (cs : Stream) : Prop := ∀ c ∈ cs, c ≠ []

theorem readFull_fst (k : Nat) (cs : Stream) : (readFull k cs).1 = cs.flatten.take k := by
  induction cs generalizing k with
  | nil => cases k <;> simp [readFull]
  | cons c cs ih =>
    cases k with
    | zero => simp [readFull]
    | succ k =>
      simp only [readFull]
      split
      · rename_i h
        simp only [List.flatten_cons, ih]
        rw [List.take_append, List.take_of_length_le (l := c) (by omega)]
      · rename_i h
        simp only [List.flatten_cons]
        rw [List.take_append]
        have : k + 1 - c.length = 0 := by omega
        simp [this]

theorem readFull_snd (k : Nat) (cs : Stream) : (readFull k cs).2.flatten = cs.flatten.drop k := by
  induction cs generalizing k with
  | nil => cases k <;> simp [readFull]
  | cons c cs ih =>
    cases k with
    | zero => simp [readFull]
    | succ k =>
      simp only [readFull]
      split
      · rename_i h
        simp only [List.flatten_cons, ih]
        rw [List.drop_append, List.drop_of_length_le (l := c) (by omega)]
        simp
      · rename_i h
        simp only [List.flatten_cons]
        rw [List.drop_append]
        have h0 : k + 1 - c.length = 0 := by omega
        split
        · rename_i h2
          rw [List.drop_of_length_le (l := c) (by omega)]; simp [h0]
        · simp [h0]

theorem readFull_noEmpty (k : Nat) (cs : Stream) (h : NoEmpty cs) : NoEmpty (readFull k cs).2 := by
  induction cs generalizing k with
  | nil => cases k <;> simp [readFull, NoEmpty]
  | cons c cs ih =>
    cases k with
    | zero => simpa [readFull] using h
    | succ k =>
      simp only [readFull]
      have hcs : NoEmpty cs := fun x hx => h x (List.mem_cons_of_mem _ hx)
      split
      · exact ih _ hcs
      · rename_i h1
        split
        · exact hcs
        · rename_i h2
          intro x hx
          cases hx with
          | head => intro h3; have := congrArg List.length h3; simp at this; omega
          | tail _ hx => exact hcs x hx

end XMT.Codec

namespace XMT.Codec
open XMT

/-- What a reader implementation must satisfy for the generic theorems: relative to an abstraction
`abs` of its state to "the bytes still to be read" and a state invariant `inv`, every primitive
read returns exactly the next bytes and fails when there are not enough. -/
structure Lawful {S : Type} (P : Prim S) (abs : S → Bytes) (inv : S → Prop) : Prop where
  u8_ok : ∀ s b r, inv s → abs s = b :: r → ∃ s', P.u8 s = .ok (b, s') ∧ abs s' = r ∧ inv s'
  u8_err : ∀ s, inv s → abs s = [] → ∃ e, P.u8 s = .error e
  u16_ok : ∀ s b0 b1 r, inv s → abs s = b0 :: b1 :: r →
    ∃ s', P.u16 s = .ok (ofBe16 b0 b1, s') ∧ abs s' = r ∧ inv s'
  u16_err : ∀ s, inv s → (abs s).length < 2 → ∃ e, P.u16 s = .error e
  u32_ok : ∀ s b0 b1 b2 b3 r, inv s → abs s = b0 :: b1 :: b2 :: b3 :: r →
    ∃ s', P.u32 s = .ok (ofBe32 b0 b1 b2 b3, s') ∧ abs s' = r ∧ inv s'
  u32_err : ∀ s, inv s → (abs s).length < 4 → ∃ e, P.u32 s = .error e
  u64_ok : ∀ s b0 b1 b2 b3 b4 b5 b6 b7 r, inv s →
    abs s = b0 :: b1 :: b2 :: b3 :: b4 :: b5 :: b6 :: b7 :: r →
    ∃ s', P.u64 s = .ok (ofBe64 b0 b1 b2 b3 b4 b5 b6 b7, s') ∧ abs s' = r ∧ inv s'
  u64_err : ∀ s, inv s → (abs s).length < 8 → ∃ e, P.u64 s = .error e
  body_ok : ∀ s l, inv s → l ≤ (abs s).length →
    ∃ s', P.body l s = .ok ((abs s).take l, s') ∧ abs s' = (abs s).drop l ∧ inv s'
  body_err : ∀ s l, inv s → (abs s).length < l → ∃ e, P.body l s = .error e

theorem chunk_lawful : Lawful chunkPrim id (fun _ => True) where
  u8_ok := by intro s b r _ h; simp at h; subst h; exact ⟨r, rfl, rfl, trivial⟩
  u8_err := by intro s _ h; simp at h; subst h; exact ⟨_, rfl⟩
  u16_ok := by intro s b0 b1 r _ h; simp at h; subst h; exact ⟨r, rfl, rfl, trivial⟩
  u16_err := by
    intro s _ h
    match s, h with
    | [], _ => exact ⟨_, rfl⟩
    | [_], _ => exact ⟨_, rfl⟩
    | _ :: _ :: _, h => simp at h; omega
  u32_ok := by intro s b0 b1 b2 b3 r _ h; simp at h; subst h; exact ⟨r, rfl, rfl, trivial⟩
  u32_err := by
    intro s _ h
    match s, h with
    | [], _ => exact ⟨_, rfl⟩
    | [_], _ => exact ⟨_, rfl⟩
    | [_, _], _ => exact ⟨_, rfl⟩
    | [_, _, _], _ => exact ⟨_, rfl⟩
    | _ :: _ :: _ :: _ :: _, h => simp at h; omega
  u64_ok := by
    intro s b0 b1 b2 b3 b4 b5 b6 b7 r _ h; simp at h; subst h; exact ⟨r, rfl, rfl, trivial⟩
  u64_err := by
    intro s _ h
    match s, h with
    | [], _ => exact ⟨_, rfl⟩
    | [_], _ => exact ⟨_, rfl⟩
    | [_, _], _ => exact ⟨_, rfl⟩
    | [_, _, _], _ => exact ⟨_, rfl⟩
    | [_, _, _, _], _ => exact ⟨_, rfl⟩
    | [_, _, _, _, _], _ => exact ⟨_, rfl⟩
    | [_, _, _, _, _, _], _ => exact ⟨_, rfl⟩
    | [_, _, _, _, _, _, _], _ => exact ⟨_, rfl⟩
    | _ :: _ :: _ :: _ :: _ :: _ :: _ :: _ :: _, h => simp at h; omega
  body_ok := by
    intro s l _ h
    refine ⟨s.drop l, ?_, rfl, trivial⟩
    simp only [chunkPrim, id]
    rw [if_neg (by simp at h; omega)]
  body_err := by
    intro s l _ h
    refine ⟨.eof, ?_⟩
    simp only [chunkPrim]
    rw [if_pos (by simpa using h)]

theorem read1_ok (s : Stream) (b : UInt8) (r : Bytes) (hi : NoEmpty s) (h : s.flatten = b :: r) :
    ∃ s', read1 s = some (b, s') ∧ s'.flatten = r ∧ NoEmpty s' := by
  match s, hi, h with
  | [], _, h => simp at h
  | [] :: cs, hi, _ => exact absurd rfl (hi [] (List.mem_cons_self))
  | (x :: c) :: cs, hi, h =>
    simp only [List.flatten_cons, List.cons_append, List.cons.injEq] at h
    obtain ⟨rfl, h⟩ := h
    have hcs : NoEmpty cs := fun y hy => hi y (List.mem_cons_of_mem _ hy)
    simp only [read1]
    cases c with
    | nil => exact ⟨cs, by simp, by simpa using h, hcs⟩
    | cons y c =>
      refine ⟨(y :: c) :: cs, by simp, by simpa using h, ?_⟩
      intro z hz
      cases hz with
      | head => simp
      | tail _ hz => exact hcs z hz

theorem shortErr_exists (g : Bytes) : ∃ e, shortErr g = e := ⟨_, rfl⟩

theorem stream_lawful : Lawful streamPrim List.flatten NoEmpty where
  u8_ok := by
    intro s b r hi h
    obtain ⟨s', h1, h2, h3⟩ := read1_ok s b r hi h
    exact ⟨s', by simp [streamPrim, h1], h2, h3⟩
  u8_err := by
    intro s hi h
    refine ⟨.eof, ?_⟩
    match s, hi, h with
    | [], _, _ => rfl
    | [] :: _, _, _ => rfl
    | (x :: c) :: cs, _, h => simp at h
  u16_ok := by
    intro s b0 b1 r hi h
    have h1 := readFull_fst 2 s; have h2 := readFull_snd 2 s; have h3 := readFull_noEmpty 2 s hi
    rw [h] at h1 h2
    generalize hp : readFull 2 s = p at h1 h2 h3
    obtain ⟨g, t⟩ := p
    simp at h1 h2; subst h1
    exact ⟨t, by simp [streamPrim, hp], h2, h3⟩
  u16_err := by
    intro s _ h
    have h1 := readFull_fst 2 s
    generalize hp : readFull 2 s = p at h1
    obtain ⟨g, t⟩ := p
    simp at h1
    have hl : g.length < 2 := by rw [h1, List.length_take]; omega
    simp only [streamPrim, hp]
    match g, hl with
    | [], _ => exact ⟨_, rfl⟩
    | [_], _ => exact ⟨_, rfl⟩
    | _ :: _ :: _, hl => simp at hl; omega
  u32_ok := by
    intro s b0 b1 b2 b3 r hi h
    have h1 := readFull_fst 4 s; have h2 := readFull_snd 4 s; have h3 := readFull_noEmpty 4 s hi
    rw [h] at h1 h2
    generalize hp : readFull 4 s = p at h1 h2 h3
    obtain ⟨g, t⟩ := p
    simp at h1 h2; subst h1
    exact ⟨t, by simp [streamPrim, hp], h2, h3⟩
  u32_err := by
    intro s _ h
    have h1 := readFull_fst 4 s
    generalize hp : readFull 4 s = p at h1
    obtain ⟨g, t⟩ := p
    simp at h1
    have hl : g.length < 4 := by rw [h1, List.length_take]; omega
    simp only [streamPrim, hp]
    match g, hl with
    | [], _ => exact ⟨_, rfl⟩
    | [_], _ => exact ⟨_, rfl⟩
    | [_, _], _ => exact ⟨_, rfl⟩
    | [_, _, _], _ => exact ⟨_, rfl⟩
    | _ :: _ :: _ :: _ :: _, hl => simp at hl; omega
  u64_ok := by
    intro s b0 b1 b2 b3 b4 b5 b6 b7 r hi h
    have h1 := readFull_fst 8 s; have h2 := readFull_snd 8 s; have h3 := readFull_noEmpty 8 s hi
    rw [h] at h1 h2
    generalize hp : readFull 8 s = p at h1 h2 h3
    obtain ⟨g, t⟩ := p
    simp at h1 h2; subst h1
    exact ⟨t, by simp [streamPrim, hp], h2, h3⟩
  u64_err := by
    intro s _ h
    have h1 := readFull_fst 8 s
    generalize hp : readFull 8 s = p at h1
    obtain ⟨g, t⟩ := p
    simp at h1
    have hl : g.length < 8 := by rw [h1, List.length_take]; omega
    simp only [streamPrim, hp]
    match g, hl with
    | [], _ => exact ⟨_, rfl⟩
    | [_], _ => exact ⟨_, rfl⟩
    | [_, _], _ => exact ⟨_, rfl⟩
    | [_, _, _], _ => exact ⟨_, rfl⟩
    | [_, _, _, _], _ => exact ⟨_, rfl⟩
    | [_, _, _, _, _], _ => exact ⟨_, rfl⟩
    | [_, _, _, _, _, _], _ => exact ⟨_, rfl⟩
    | [_, _, _, _, _, _, _], _ => exact ⟨_, rfl⟩
    | _ :: _ :: _ :: _ :: _ :: _ :: _ :: _ :: _, hl => simp at hl; omega
  body_ok := by
    intro s l hi h
    have h1 := readFull_fst l s; have h2 := readFull_snd l s; have h3 := readFull_noEmpty l s hi
    refine ⟨(readFull l s).2, ?_, h2, h3⟩
    simp only [streamPrim]
    rw [if_pos (by rw [h1, List.length_take]; omega), ← h1]
  body_err := by
    intro s l _ h
    have h1 := readFull_fst l s
    refine ⟨shortErr (readFull l s).1, ?_⟩
    simp only [streamPrim]
    rw [if_neg (by rw [h1, List.length_take]; omega)]

end XMT.Codec
