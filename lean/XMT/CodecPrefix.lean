import XMT.CodecRoundtrip
namespace XMT.Codec
open XMT

theorem prefix_append_cases {α : Type} {p x y : List α} (h : p <+: x ++ y) :
    (p <+: x ∧ p.length < x.length) ∨ ∃ p', p = x ++ p' ∧ p' <+: y := by
  rw [List.prefix_iff_eq_take] at h
  by_cases hl : p.length < x.length
  · left
    refine ⟨?_, hl⟩
    rw [List.prefix_iff_eq_take]
    rw [h, List.take_append_of_le_length (by omega)]
    simp [List.length_take]
  · right
    refine ⟨y.take (p.length - x.length), ?_, List.take_prefix _ _⟩
    rw [List.take_append] at h
    rw [List.take_of_length_le (l := x) (by omega)] at h
    exact h

theorem strict_prefix_length {α : Type} {p x : List α} (h : p <+: x) (hne : p ≠ x) :
    p.length < x.length := by
  have := h.length_le
  rcases Nat.lt_or_ge p.length x.length with h1 | h1
  · exact h1
  · exact absurd (List.IsPrefix.eq_of_length_le h h1) hne

section
variable {S : Type} {P : Prim S} {abs : S → Bytes} {inv : S → Prop}

theorem lenPrefix_length_pos (l : Nat) : 0 < (lenPrefix l).length := by
  unfold lenPrefix; repeat' split
  all_goals simp [be16, be32, be64]

/-- A strict prefix of a length header makes the header read fail. -/
theorem decLen_prefix_err (L : Lawful P abs inv) (l : Nat) (s : S) (hi : inv s)
    (hp : abs s <+: lenPrefix l) (hlt : (abs s).length < (lenPrefix l).length) :
    ∃ e, decLen P s = .error e := by
  -- either nothing at all is available …
  rcases hq : abs s with _ | ⟨t, q⟩
  · obtain ⟨e, he⟩ := L.u8_err s hi hq
    exact ⟨e, by simp [decLen, he, bind, Except.bind]⟩
  · -- … or the tag byte is there and the length bytes are short
    rw [hq] at hp hlt
    obtain ⟨s1, e1, a1, i1⟩ := L.u8_ok s t q hi hq
    unfold lenPrefix at hp hlt
    by_cases c0 : l = 0
    · simp [c0] at hlt
    · by_cases c1 : l < Facts.limitSmall
      · simp only [c0, c1, if_true, if_false, List.cons_prefix_cons, List.length_cons,
          List.length_nil] at hp hlt
        have hql : q = [] := List.length_eq_zero_iff.mp (by omega)
        obtain ⟨ht, _⟩ := hp
        subst ht
        obtain ⟨e, he⟩ := L.u8_err s1 i1 (by rw [a1, hql])
        exact ⟨e, by simp [decLen, e1, he, bind, Except.bind]⟩
      · by_cases c2 : l < Facts.limitMedium
        · simp only [c0, c1, c2, if_true, if_false, be16, List.cons_prefix_cons, List.length_cons,
            List.length_nil] at hp hlt
          obtain ⟨ht, _⟩ := hp
          subst ht
          obtain ⟨e, he⟩ := L.u16_err s1 i1 (by rw [a1]; omega)
          exact ⟨e, by simp [decLen, e1, he, bind, Except.bind]⟩
        · by_cases c3 : l < Facts.limitLarge
          · simp only [c0, c1, c2, c3, if_true, if_false, be32, List.cons_prefix_cons,
              List.length_cons, List.length_nil] at hp hlt
            obtain ⟨ht, _⟩ := hp
            subst ht
            obtain ⟨e, he⟩ := L.u32_err s1 i1 (by rw [a1]; omega)
            exact ⟨e, by simp [decLen, e1, he, bind, Except.bind]⟩
          · simp only [c0, c1, c2, c3, if_false, be64, List.cons_prefix_cons,
              List.length_cons, List.length_nil] at hp hlt
            obtain ⟨ht, _⟩ := hp
            subst ht
            obtain ⟨e, he⟩ := L.u64_err s1 i1 (by rw [a1]; omega)
            exact ⟨e, by simp [decLen, e1, he, bind, Except.bind]⟩

theorem decBytes_prefix_err (L : Lawful P abs inv) (b : Bytes) (hb : b.length ≤ Facts.maxSlice)
    (s : S) (hi : inv s) (hp : abs s <+: encBytesChunk b)
    (hlt : (abs s).length < (encBytesChunk b).length) :
    ∃ e, decBytes P s = .error e := by
  have K := limitsOK
  unfold encBytesChunk at hp hlt
  rcases prefix_append_cases hp with ⟨h1, h2⟩ | ⟨p', h1, h2⟩
  · obtain ⟨e, he⟩ := decLen_prefix_err L b.length s hi h1 h2
    exact ⟨e, by simp [decBytes, he, bind, Except.bind]⟩
  · obtain ⟨s1, e1, a1, i1⟩ := decLen_ok L b.length (by have := K.maxs; omega) s p' hi h1
    have hl : p'.length < b.length := by rw [h1] at hlt; simp at hlt; omega
    have h0 : b.length ≠ 0 := by omega
    obtain ⟨e, he⟩ := L.body_err s1 b.length i1 (by rw [a1]; exact hl)
    refine ⟨e, ?_⟩
    have hm : ¬ (b.length > Facts.maxSlice) := by omega
    simp [decBytes, e1, h0, hm, he, bind, Except.bind]

theorem encBytesChunk_length_pos (b : Bytes) : 0 < (encBytesChunk b).length := by
  have := lenPrefix_length_pos b.length
  simp [encBytesChunk]; omega

theorem decN_prefix_err (L : Lawful P abs inv) (l : List Bytes)
    (hl : ∀ b ∈ l, b.length ≤ Facts.maxSlice) (s : S) (hi : inv s)
    (hp : abs s <+: l.flatMap encBytesChunk)
    (hlt : (abs s).length < (l.flatMap encBytesChunk).length) :
    ∃ e, decN P l.length s = .error e := by
  induction l generalizing s with
  | nil => simp at hlt
  | cons b l ih =>
    simp only [List.flatMap_cons] at hp hlt
    rcases prefix_append_cases hp with ⟨h1, h2⟩ | ⟨p', h1, h2⟩
    · obtain ⟨e, he⟩ := decBytes_prefix_err L b (hl b List.mem_cons_self) s hi h1 h2
      exact ⟨e, by simp [decN, he, bind, Except.bind]⟩
    · obtain ⟨s1, e1, a1, i1⟩ := decBytes_ok L b (hl b List.mem_cons_self) s p' hi h1
      have hl' : p'.length < (l.flatMap encBytesChunk).length := by
        rw [h1] at hlt; simp at hlt; simpa using hlt
      obtain ⟨e, he⟩ := ih (fun x hx => hl x (List.mem_cons_of_mem _ hx)) s1 i1
        (by rw [a1]; exact h2) (by rw [a1]; exact hl')
      exact ⟨e, by simp [decN, e1, he, bind, Except.bind]⟩

theorem encChunk_length_pos (v : Val) : 0 < (encChunk v).length := by
  cases v <;> simp [encChunk, be16, be32, be64]
  · exact encBytesChunk_length_pos _
  · have := lenPrefix_length_pos (List.length ‹List Bytes›); omega

/-- **Reading past the end reports an error**: any strict prefix of the encoding of a value makes
the decoder of either implementation return an error (never a fabricated value). -/
theorem dec_prefix_err (L : Lawful P abs inv) (v : Val) (hv : v.WF) (s : S) (hi : inv s)
    (hp : abs s <+: encChunk v) (hlt : (abs s).length < (encChunk v).length) :
    ∃ e, dec P v.ty s = .error e := by
  have K := limitsOK
  cases v with
  | bool b =>
    simp [encChunk] at hlt
    obtain ⟨e, he⟩ := L.u8_err s hi hlt
    exact ⟨e, by simp [dec, Val.ty, he, bind, Except.bind]⟩
  | u8 n =>
    simp [encChunk] at hlt
    obtain ⟨e, he⟩ := L.u8_err s hi hlt
    exact ⟨e, by simp [dec, Val.ty, he, bind, Except.bind]⟩
  | u16 n =>
    obtain ⟨e, he⟩ := L.u16_err s hi (by simpa [encChunk, be16] using hlt)
    exact ⟨e, by simp [dec, Val.ty, he, bind, Except.bind]⟩
  | u32 n =>
    obtain ⟨e, he⟩ := L.u32_err s hi (by simpa [encChunk, be32] using hlt)
    exact ⟨e, by simp [dec, Val.ty, he, bind, Except.bind]⟩
  | u64 n =>
    obtain ⟨e, he⟩ := L.u64_err s hi (by simpa [encChunk, be64] using hlt)
    exact ⟨e, by simp [dec, Val.ty, he, bind, Except.bind]⟩
  | bytes b =>
    obtain ⟨e, he⟩ := decBytes_prefix_err L b hv s hi hp hlt
    exact ⟨e, by simp [dec, Val.ty, he, bind, Except.bind]⟩
  | strs l =>
    obtain ⟨hv1, hv2⟩ := hv
    simp only [encChunk] at hp hlt
    rcases prefix_append_cases hp with ⟨h1, h2⟩ | ⟨p', h1, h2⟩
    · obtain ⟨e, he⟩ := decLen_prefix_err L l.length s hi h1 h2
      exact ⟨e, by simp [dec, decStrs, Val.ty, he, bind, Except.bind]⟩
    · obtain ⟨s1, e1, a1, i1⟩ := decLen_ok L l.length (by omega) s p' hi h1
      have hl' : p'.length < (l.flatMap encBytesChunk).length := by
        rw [h1] at hlt; simp at hlt; simpa using hlt
      have h0 : l.length ≠ 0 := by
        intro h0
        have : l = [] := List.length_eq_zero_iff.mp h0
        subst this; simp at hl'
      obtain ⟨e, he⟩ := decN_prefix_err L l hv2 s1 i1 (by rw [a1]; exact h2) (by rw [a1]; exact hl')
      have hlt2 : ¬ (l.length ≥ 2^63) := by omega
      exact ⟨e, by simp [dec, decStrs, Val.ty, e1, h0, hlt2, he, bind, Except.bind]⟩

/-- Sequence form: decoding a strict prefix of the encoding of `vs` stops with an error, and the
values decoded before the error are exactly the first values that were written. -/
theorem decAll_prefix_err (L : Lawful P abs inv) (vs : List Val) (hv : ∀ v ∈ vs, v.WF) (s : S)
    (hi : inv s) (hp : abs s <+: encAllChunk vs) (hlt : (abs s).length < (encAllChunk vs).length) :
    ∃ e k, decAll P (vs.map Val.ty) s = .error (e, vs.take k) := by
  induction vs generalizing s with
  | nil => simp [encAllChunk] at hlt
  | cons v vs ih =>
    simp only [encAllChunk, List.flatMap_cons] at hp hlt
    rcases prefix_append_cases hp with ⟨h1, h2⟩ | ⟨p', h1, h2⟩
    · obtain ⟨e, he⟩ := dec_prefix_err L v (hv v List.mem_cons_self) s hi h1 h2
      exact ⟨e, 0, by simp [decAll, he]⟩
    · obtain ⟨s1, e1, a1, i1⟩ := dec_ok L v (hv v List.mem_cons_self) s p' hi h1
      have hl' : p'.length < (encAllChunk vs).length := by
        rw [h1] at hlt; simp at hlt; simpa [encAllChunk] using hlt
      obtain ⟨e, k, he⟩ := ih (fun x hx => hv x (List.mem_cons_of_mem _ hx)) s1 i1
        (by rw [a1]; exact h2) (by rw [a1]; exact hl')
      exact ⟨e, k + 1, by simp [decAll, e1, he]⟩

end
end XMT.Codec
