import XMT.CodecLemmas
namespace XMT.Codec
open XMT

/-- Obligations on the constants extracted from the source (`Generated/Facts.lean`); they are
closed by `decide` against the *current* values on every run. -/
structure LimitsOK : Prop where
  small : Facts.limitSmall ≤ 256
  medium : Facts.limitMedium ≤ 65536
  large : Facts.limitLarge ≤ 4294967296
  maxs : Facts.maxSlice < 2^63
  pos : 0 < Facts.limitSmall

theorem limitsOK : LimitsOK := by
  constructor <;> decide

section
variable {S : Type} {P : Prim S} {abs : S → Bytes} {inv : S → Prop}

theorem decLen_ok (L : Lawful P abs inv) (l : Nat) (hl : l < 2^64) (s : S) (r : Bytes)
    (hi : inv s) (h : abs s = lenPrefix l ++ r) :
    ∃ s', decLen P s = .ok (if l = 0 then none else some l, s') ∧ abs s' = r ∧ inv s' := by
  have K := limitsOK
  unfold lenPrefix at h
  by_cases h0 : l = 0
  · subst h0
    simp only [if_true, List.cons_append, List.nil_append] at h
    obtain ⟨s1, e1, a1, i1⟩ := L.u8_ok s _ _ hi h
    exact ⟨s1, by simp [decLen, e1, bind, Except.bind, pure, Except.pure], a1, i1⟩
  · simp only [h0, if_false] at h ⊢
    by_cases h1 : l < Facts.limitSmall
    · simp only [h1, if_true, List.cons_append, List.nil_append] at h
      obtain ⟨s1, e1, a1, i1⟩ := L.u8_ok s _ _ hi h
      obtain ⟨s2, e2, a2, i2⟩ := L.u8_ok s1 _ _ i1 a1
      refine ⟨s2, ?_, a2, i2⟩
      have : l % 256 = l := Nat.mod_eq_of_lt (by have := K.small; omega)
      simp [decLen, e1, e2, bind, Except.bind, pure, Except.pure, this]
    · simp only [h1, if_false] at h
      by_cases h2 : l < Facts.limitMedium
      · simp only [h2, if_true, be16, List.cons_append, List.nil_append] at h
        obtain ⟨s1, e1, a1, i1⟩ := L.u8_ok s _ _ hi h
        obtain ⟨s2, e2, a2, i2⟩ := L.u16_ok s1 _ _ _ i1 a1
        refine ⟨s2, ?_, a2, i2⟩
        have : ofBe16 (byteOf (l >>> 8)) (byteOf l) = l :=
          ofBe16_be16 l (by have := K.medium; omega)
        simp [decLen, e1, e2, bind, Except.bind, pure, Except.pure, this]
      · simp only [h2, if_false] at h
        by_cases h3 : l < Facts.limitLarge
        · simp only [h3, if_true, be32, List.cons_append, List.nil_append] at h
          obtain ⟨s1, e1, a1, i1⟩ := L.u8_ok s _ _ hi h
          obtain ⟨s2, e2, a2, i2⟩ := L.u32_ok s1 _ _ _ _ _ i1 a1
          refine ⟨s2, ?_, a2, i2⟩
          have : ofBe32 (byteOf (l >>> 24)) (byteOf (l >>> 16)) (byteOf (l >>> 8)) (byteOf l) = l :=
            ofBe32_be32 l (by have := K.large; omega)
          simp [decLen, e1, e2, bind, Except.bind, pure, Except.pure, this]
        · simp only [h3, if_false, be64, List.cons_append, List.nil_append] at h
          obtain ⟨s1, e1, a1, i1⟩ := L.u8_ok s _ _ hi h
          obtain ⟨s2, e2, a2, i2⟩ := L.u64_ok s1 _ _ _ _ _ _ _ _ _ i1 a1
          refine ⟨s2, ?_, a2, i2⟩
          have := ofBe64_be64 l hl
          simp [decLen, e1, e2, bind, Except.bind, pure, Except.pure, this]

theorem decBytes_ok (L : Lawful P abs inv) (b : Bytes) (hb : b.length ≤ Facts.maxSlice)
    (s : S) (r : Bytes) (hi : inv s) (h : abs s = encBytesChunk b ++ r) :
    ∃ s', decBytes P s = .ok (b, s') ∧ abs s' = r ∧ inv s' := by
  have K := limitsOK
  unfold encBytesChunk at h
  rw [List.append_assoc] at h
  obtain ⟨s1, e1, a1, i1⟩ := decLen_ok L b.length (by have := K.maxs; omega) s _ hi h
  by_cases h0 : b.length = 0
  · have : b = [] := List.length_eq_zero_iff.mp h0
    subst this
    refine ⟨s1, ?_, by simpa using a1, i1⟩
    simp [decBytes, e1, bind, Except.bind, pure, Except.pure]
  · obtain ⟨s2, e2, a2, i2⟩ := L.body_ok s1 b.length i1 (by rw [a1]; simp)
    refine ⟨s2, ?_, by rw [a2, a1]; simp, i2⟩
    rw [a1] at e2
    simp only [List.take_left'] at e2
    simp [decBytes, e1, bind, Except.bind, h0, e2]
    omega

theorem decN_ok (L : Lawful P abs inv) (l : List Bytes) (hl : ∀ b ∈ l, b.length ≤ Facts.maxSlice)
    (s : S) (r : Bytes) (hi : inv s) (h : abs s = l.flatMap encBytesChunk ++ r) :
    ∃ s', decN P l.length s = .ok (l, s') ∧ abs s' = r ∧ inv s' := by
  induction l generalizing s with
  | nil => exact ⟨s, rfl, by simpa using h, hi⟩
  | cons b l ih =>
    simp only [List.flatMap_cons, List.append_assoc] at h
    obtain ⟨s1, e1, a1, i1⟩ := decBytes_ok L b (hl b List.mem_cons_self) s _ hi h
    obtain ⟨s2, e2, a2, i2⟩ := ih (fun x hx => hl x (List.mem_cons_of_mem _ hx)) s1 i1 a1
    refine ⟨s2, ?_, a2, i2⟩
    simp [decN, e1, e2, bind, Except.bind, pure, Except.pure]

/-- Round trip of one value through any lawful reader, with arbitrary trailing data. -/
theorem dec_ok (L : Lawful P abs inv) (v : Val) (hv : v.WF) (s : S) (r : Bytes)
    (hi : inv s) (h : abs s = encChunk v ++ r) :
    ∃ s', dec P v.ty s = .ok (v, s') ∧ abs s' = r ∧ inv s' := by
  have K := limitsOK
  cases v with
  | bool b =>
    simp only [encChunk, List.cons_append, List.nil_append] at h
    obtain ⟨s1, e1, a1, i1⟩ := L.u8_ok s _ _ hi h
    refine ⟨s1, ?_, a1, i1⟩
    cases b <;> simp [dec, Val.ty, e1, bind, Except.bind, pure, Except.pure]
  | u8 n =>
    simp only [encChunk, List.cons_append, List.nil_append] at h
    obtain ⟨s1, e1, a1, i1⟩ := L.u8_ok s _ _ hi h
    exact ⟨s1, by simp [dec, Val.ty, e1, bind, Except.bind, pure, Except.pure], a1, i1⟩
  | u16 n =>
    simp only [encChunk, be16, List.cons_append, List.nil_append] at h
    obtain ⟨s1, e1, a1, i1⟩ := L.u16_ok s _ _ _ hi h
    have := ofBe16_be16 n hv
    exact ⟨s1, by simp [dec, Val.ty, e1, bind, Except.bind, pure, Except.pure, this], a1, i1⟩
  | u32 n =>
    simp only [encChunk, be32, List.cons_append, List.nil_append] at h
    obtain ⟨s1, e1, a1, i1⟩ := L.u32_ok s _ _ _ _ _ hi h
    have := ofBe32_be32 n hv
    exact ⟨s1, by simp [dec, Val.ty, e1, bind, Except.bind, pure, Except.pure, this], a1, i1⟩
  | u64 n =>
    simp only [encChunk, be64, List.cons_append, List.nil_append] at h
    obtain ⟨s1, e1, a1, i1⟩ := L.u64_ok s _ _ _ _ _ _ _ _ _ hi h
    have := ofBe64_be64 n hv
    exact ⟨s1, by simp [dec, Val.ty, e1, bind, Except.bind, pure, Except.pure, this], a1, i1⟩
  | bytes b =>
    simp only [encChunk] at h
    obtain ⟨s1, e1, a1, i1⟩ := decBytes_ok L b hv s _ hi h
    exact ⟨s1, by simp [dec, Val.ty, e1, bind, Except.bind, pure, Except.pure], a1, i1⟩
  | strs l =>
    simp only [encChunk, List.append_assoc] at h
    obtain ⟨hv1, hv2⟩ := hv
    obtain ⟨s1, e1, a1, i1⟩ := decLen_ok L l.length (by omega) s _ hi h
    by_cases h0 : l.length = 0
    · have : l = [] := List.length_eq_zero_iff.mp h0
      subst this
      refine ⟨s1, ?_, by simpa using a1, i1⟩
      simp [dec, decStrs, Val.ty, e1, bind, Except.bind, pure, Except.pure]
    · obtain ⟨s2, e2, a2, i2⟩ := decN_ok L l hv2 s1 _ i1 a1
      refine ⟨s2, ?_, a2, i2⟩
      have hlt : ¬ (l.length ≥ 2^63) := by omega
      simp [dec, decStrs, Val.ty, e1, e2, h0, hlt, bind, Except.bind, pure, Except.pure]

/-- Round trip of a whole sequence of values. -/
theorem decAll_ok (L : Lawful P abs inv) (vs : List Val) (hv : ∀ v ∈ vs, v.WF) (s : S) (r : Bytes)
    (hi : inv s) (h : abs s = encAllChunk vs ++ r) :
    ∃ s', decAll P (vs.map Val.ty) s = .ok (vs, s') ∧ abs s' = r ∧ inv s' := by
  induction vs generalizing s with
  | nil => exact ⟨s, rfl, by simpa [encAllChunk] using h, hi⟩
  | cons v vs ih =>
    simp only [encAllChunk, List.flatMap_cons, List.append_assoc] at h
    obtain ⟨s1, e1, a1, i1⟩ := dec_ok L v (hv v List.mem_cons_self) s _ hi h
    obtain ⟨s2, e2, a2, i2⟩ := ih (fun x hx => hv x (List.mem_cons_of_mem _ hx)) s1 i1 a1
    exact ⟨s2, by simp [decAll, e1, e2], a2, i2⟩

end
end XMT.Codec
