/-
  XMT.CodecTyped — the Go-level surface of the typed codec (package `data`): every method of the
  `data.Reader` / `data.Writer` interfaces, written the way the Go methods are written (a cast
  around one of the five primitive reads / writes), the pointer variants `ReadX(p *T) error`, and
  `data.ReadStringList` reading into a destination that is not fresh.

  `Codec.lean` treats the signed / platform-width / float / string methods as "casts on the Go
  side"; here the casts themselves are modelled (two's complement conversions of Go) so that the
  round trip is stated on the values the caller sees.
-/
import XMT.Codec

namespace XMT.Codec
open XMT

/-- The 16 typed kinds of the `Reader` / `Writer` interfaces (+ the string list helper). -/
inductive GKind
  | bool | i8 | u8 | i16 | u16 | i32 | u32 | i64 | u64 | int | uint | f32 | f64 | bytes | str | strs
  deriving DecidableEq, Repr

/-- Go-level values.  Signed integers are mathematical integers (`Int`), floats are their IEEE bit
patterns (the code converts with a raw pointer cast, i.e. bit-for-bit), strings are their
bytes. -/
inductive GVal
  | bool (b : Bool)
  | i8 (n : Int) | u8 (n : Nat) | i16 (n : Int) | u16 (n : Nat) | i32 (n : Int) | u32 (n : Nat)
  | i64 (n : Int) | u64 (n : Nat) | int (n : Int) | uint (n : Nat)
  | f32 (bits : Nat) | f64 (bits : Nat)
  | bytes (b : Bytes) | str (s : Bytes) | strs (l : List Bytes)
  deriving DecidableEq, Repr

def GVal.kind : GVal → GKind
  | .bool _ => .bool | .i8 _ => .i8 | .u8 _ => .u8 | .i16 _ => .i16 | .u16 _ => .u16
  | .i32 _ => .i32 | .u32 _ => .u32 | .i64 _ => .i64 | .u64 _ => .u64 | .int _ => .int
  | .uint _ => .uint | .f32 _ => .f32 | .f64 _ => .f64 | .bytes _ => .bytes | .str _ => .str
  | .strs _ => .strs

/-- `n` fits Go's signed `w`-bit integer type. -/
def fitsS (w : Nat) (n : Int) : Prop := -(2 ^ (w - 1) : Int) ≤ n ∧ n < (2 ^ (w - 1) : Int)

instance (w : Nat) (n : Int) : Decidable (fitsS w n) := by unfold fitsS; exact inferInstance

/-- Values the Go types can hold.  `int` / `uint` have the width of the platform the harness was
compiled for (`Facts.c10_intSize`). -/
def GVal.WF : GVal → Prop
  | .bool _ => True
  | .i8 n => fitsS 8 n | .u8 n => n < 2^8
  | .i16 n => fitsS 16 n | .u16 n => n < 2^16
  | .i32 n => fitsS 32 n | .u32 n => n < 2^32
  | .i64 n => fitsS 64 n | .u64 n => n < 2^64
  | .int n => fitsS Facts.c10_intSize n | .uint n => n < 2^Facts.c10_intSize
  | .f32 b => b < 2^32 | .f64 b => b < 2^64
  | .bytes b => b.length ≤ Facts.maxSlice
  | .str s => s.length ≤ Facts.maxSlice
  | .strs l => l.length < 2^63 ∧ ∀ s ∈ l, s.length ≤ Facts.maxSlice

/-! ### Go's integer conversions -/

/-- Go `uintW(n)` of a signed integer: two's complement, `n mod 2^w`. -/
def toU (w : Nat) (n : Int) : Nat := (n % (2 ^ w : Int)).toNat

/-- Go `intW(v)` of an unsigned integer: keep the low `w` bits, the top one is the sign. -/
def toS (w : Nat) (v : Nat) : Int :=
  if v % 2 ^ w < 2 ^ (w - 1) then ((v % 2 ^ w : Nat) : Int) else ((v % 2 ^ w : Nat) : Int) - (2 ^ w : Int)

/-! ### Writers (one arm per interface method) -/

/-- `(*Chunk).WriteX`. -/
def encGChunk : GVal → Bytes
  | .bool b => [if b then 1 else 0]                 -- WriteBool: WriteUint8(1) / WriteUint8(0)
  | .i8 n => [byteOf (toU 8 n)]                      -- WriteInt8(n)  = WriteUint8(uint8(n))
  | .u8 n => [byteOf n]
  | .i16 n => be16 (toU 16 n)                        -- WriteInt16(n) = WriteUint16(uint16(n))
  | .u16 n => be16 n
  | .i32 n => be32 (toU 32 n)
  | .u32 n => be32 n
  | .i64 n => be64 (toU 64 n)
  | .u64 n => be64 n
  | .int n => be64 (toU 64 n)                        -- WriteInt(n)   = WriteUint64(uint64(n))
  | .uint n => be64 n                                -- WriteUint(n)  = WriteUint64(uint64(n))
  | .f32 b => be32 b                                 -- WriteFloat32  = WriteUint32(float32ToInt(f))
  | .f64 b => be64 b
  | .bytes b => encBytesChunk b
  | .str s => encBytesChunk s                        -- WriteString(s) = WriteBytes([]byte(s))
  | .strs l => lenPrefix l.length ++ l.flatMap encBytesChunk

/-- `(*writer).WriteX`: the `Write` calls on the underlying `io.Writer`. -/
def encGStream : GVal → List Bytes
  | .bool b => [[if b then 1 else 0]]
  | .i8 n => [[byteOf (toU 8 n)]]
  | .u8 n => [[byteOf n]]
  | .i16 n => [be16 (toU 16 n)]
  | .u16 n => [be16 n]
  | .i32 n => [be32 (toU 32 n)]
  | .u32 n => [be32 n]
  | .i64 n => [be64 (toU 64 n)]
  | .u64 n => [be64 n]
  | .int n => [be64 (toU 64 n)]
  | .uint n => [be64 n]
  | .f32 b => [be32 b]
  | .f64 b => [be64 b]
  | .bytes b => encBytesStream b
  | .str s => encBytesStream s
  | .strs l => [lenPrefix l.length] ++ l.flatMap encBytesStream

def encAllGChunk (gs : List GVal) : Bytes := gs.flatMap encGChunk
def encAllGStream (gs : List GVal) : List Bytes := gs.flatMap encGStream

/-! ### Readers (one arm per value-returning interface method) -/

section Generic
variable {S : Type} (P : Prim S)

/-- `Bool()`, `Int8()`, … `StringVal()`, `data.ReadStringList` (fresh destination): the primitive
read followed by the conversion the Go method applies. -/
def decG : GKind → S → Except Err (GVal × S)
  | .bool, s => do let (b, s) ← P.u8 s; pure (.bool (b = 1), s)
  | .i8, s => do let (b, s) ← P.u8 s; pure (.i8 (toS 8 b.toNat), s)
  | .u8, s => do let (b, s) ← P.u8 s; pure (.u8 b.toNat, s)
  | .i16, s => do let (n, s) ← P.u16 s; pure (.i16 (toS 16 n), s)
  | .u16, s => do let (n, s) ← P.u16 s; pure (.u16 n, s)
  | .i32, s => do let (n, s) ← P.u32 s; pure (.i32 (toS 32 n), s)
  | .u32, s => do let (n, s) ← P.u32 s; pure (.u32 n, s)
  | .i64, s => do let (n, s) ← P.u64 s; pure (.i64 (toS 64 n), s)
  | .u64, s => do let (n, s) ← P.u64 s; pure (.u64 n, s)
  | .int, s => do let (n, s) ← P.u64 s; pure (.int (toS Facts.c10_intSize n), s)        -- int(v)
  | .uint, s => do let (n, s) ← P.u64 s; pure (.uint (n % 2 ^ Facts.c10_intSize), s)    -- uint(v)
  | .f32, s => do let (n, s) ← P.u32 s; pure (.f32 n, s)
  | .f64, s => do let (n, s) ← P.u64 s; pure (.f64 n, s)
  | .bytes, s => do let (b, s) ← decBytes P s; pure (.bytes b, s)
  | .str, s => do let (b, s) ← decBytes P s; pure (.str b, s)
  | .strs, s => do let (l, s) ← decStrs P s; pure (.strs l, s)

def decAllG : List GKind → S → Except (Err × List GVal) (List GVal × S)
  | [], s => pure ([], s)
  | t :: ts, s =>
    match decG P t s with
    | .error e => .error (e, [])
    | .ok (v, s) =>
      match decAllG ts s with
      | .error (e, vs) => .error (e, v :: vs)
      | .ok (vs, s) => .ok (v :: vs, s)

/-- The pointer variants `ReadX(p *T) error` (`v, err := r.X(); if err != nil { return err };
*p = v`): the destination after the call and the outcome.  On an error the destination keeps its
old value. -/
def readInto (k : GKind) (old : GVal) (s : S) : GVal × Except Err S :=
  match decG P k s with
  | .ok (v, s') => (v, .ok s')
  | .error e => (old, .error e)

/-- One element of the loops of `data.ReadStringList`: `r.ReadString(&dst)`. -/
def readStr (s : S) : Except Err (Bytes × S) := decBytes P s

/-- First loop of `ReadStringList` (`len(*s) >= l`): the entries `(*s)[x]`, `x < l`, are
overwritten in place; the list keeps its length.  `done` are the entries already overwritten
(reversed), `old` the not yet visited tail.  Result: destination, outcome. -/
def slOverwrite : Nat → List Bytes → List Bytes → S → List Bytes × Except Err S
  | 0, done, old, s => (done.reverse ++ old, .ok s)
  | n + 1, done, old, s =>
    match readStr P s with
    | .error e => (done.reverse ++ old, .error e)
    | .ok (b, s') => slOverwrite n (b :: done) old.tail s'

/-- Second loop (`*s = (*s)[:0]`, then `append`). -/
def slAppend : Nat → List Bytes → S → List Bytes × Except Err S
  | 0, done, s => (done.reverse, .ok s)
  | n + 1, done, s =>
    match readStr P s with
    | .error e => (done.reverse, .error e)
    | .ok (b, s') => slAppend n (b :: done) s'

/-- Go `int(n)` of the 64-bit count (platform `int`), as an integer. -/
def countInt (n : Nat) : Int := toS Facts.c10_intSize n

/-- `data.ReadStringList(r, &dst)` with `dst = old`: the destination after the call and the
outcome.  Tag 0 returns at once and leaves the destination as it is; a count that does not exceed
`len(old)` (this includes negative counts) overwrites the first entries and keeps the rest. -/
def decStrsInto (old : List Bytes) (s : S) : List Bytes × Except Err S :=
  match decLen P s with
  | .error e => (old, .error e)
  | .ok (none, s') => (old, .ok s')
  | .ok (some n, s') =>
    let l := countInt n
    if (old.length : Int) ≥ l then slOverwrite P l.toNat [] old s'
    else slAppend P l.toNat [] s'

end Generic

/-! ### The codec surface: which model function covers which exported method -/

/-- How an exported method of the codec implementations is covered. -/
inductive Cover
  /-- a value-returning read `X() (T, error)` of kind `k`: `decG P k` -/
  | read (k : GKind)
  /-- a pointer read `ReadX(*T) error` of kind `k`: `readInto P k` -/
  | readPtr (k : GKind)
  /-- a write `WriteX(T) error` of kind `k`: `encGChunk` / `encGStream` -/
  | write (k : GKind)
  /-- outside the typed codec, with the reason -/
  | outside (why : String)
  deriving DecidableEq, Repr

/-- Go spelling of the type of a kind. -/
def GKind.goType : GKind → String
  | .bool => "bool" | .i8 => "int8" | .u8 => "uint8" | .i16 => "int16" | .u16 => "uint16"
  | .i32 => "int32" | .u32 => "uint32" | .i64 => "int64" | .u64 => "uint64" | .int => "int"
  | .uint => "uint" | .f32 => "float32" | .f64 => "float64" | .bytes => "[]byte" | .str => "string"
  | .strs => "[]string"

/-- The signature (as printed by the fact extractor) a method must have to be covered that way. -/
def Cover.sig : Cover → Option String
  | .read k => some s!"() ({k.goType}, error)"
  | .readPtr k => some s!"(*{k.goType}) error"
  | .write k => some s!"({k.goType}) error"
  | .outside _ => none

/-- Method name ↦ cover.  Names not listed are not covered (the tie obligations fail when an
interface method is missing here). -/
def surface : List (String × Cover) := [
  ("Bool", .read .bool), ("Int8", .read .i8), ("Uint8", .read .u8), ("Int16", .read .i16),
  ("Uint16", .read .u16), ("Int32", .read .i32), ("Uint32", .read .u32), ("Int64", .read .i64),
  ("Uint64", .read .u64), ("Int", .read .int), ("Uint", .read .uint), ("Float32", .read .f32),
  ("Float64", .read .f64), ("Bytes", .read .bytes), ("StringVal", .read .str),
  ("ReadBool", .readPtr .bool), ("ReadInt8", .readPtr .i8), ("ReadUint8", .readPtr .u8),
  ("ReadInt16", .readPtr .i16), ("ReadUint16", .readPtr .u16), ("ReadInt32", .readPtr .i32),
  ("ReadUint32", .readPtr .u32), ("ReadInt64", .readPtr .i64), ("ReadUint64", .readPtr .u64),
  ("ReadInt", .readPtr .int), ("ReadUint", .readPtr .uint), ("ReadFloat32", .readPtr .f32),
  ("ReadFloat64", .readPtr .f64), ("ReadBytes", .readPtr .bytes), ("ReadString", .readPtr .str),
  ("WriteBool", .write .bool), ("WriteInt8", .write .i8), ("WriteUint8", .write .u8),
  ("WriteInt16", .write .i16), ("WriteUint16", .write .u16), ("WriteInt32", .write .i32),
  ("WriteUint32", .write .u32), ("WriteInt64", .write .i64), ("WriteUint64", .write .u64),
  ("WriteInt", .write .int), ("WriteUint", .write .uint), ("WriteFloat32", .write .f32),
  ("WriteFloat64", .write .f64), ("WriteBytes", .write .bytes), ("WriteString", .write .str),
  ("Close", .outside "no codec effect: closes the underlying io.Closer (stream); returns nil for a Chunk"),
  ("Flush", .outside "no codec effect: forwards to the underlying writer's Flush, nil for a Chunk"),
  ("Read", .outside "raw io.Reader pass-through: stream = one Read of the source (the `Stream` / `IOStream` of the model), Chunk = byte queue read (C11)"),
  ("Write", .outside "raw io.Writer pass-through: stream = one Write on the sink (an element of encGStream), Chunk = byte queue write (C11)")]

/-- Exported methods of `*data.Chunk` that are not part of the two interfaces. -/
def chunkExtras : List (String × String) := [
  ("WriteBoolPos", "positional overwrite, C11 (ChunkOps)"), ("WriteUint8Pos", "positional overwrite, C11"),
  ("WriteUint16Pos", "positional overwrite, C11"), ("WriteUint32Pos", "positional overwrite, C11"),
  ("WriteUint64Pos", "positional overwrite, C11"),
  ("Size", "byte queue, C11"), ("Empty", "byte queue, C11"), ("Space", "byte queue, C11"),
  ("Remaining", "byte queue, C11"), ("Reset", "byte queue, C11"), ("Clear", "byte queue, C11"),
  ("Grow", "byte queue, C11"), ("Available", "byte queue, C11"), ("Truncate", "byte queue, C11"),
  ("Seek", "byte queue, C11"), ("Payload", "byte queue, C11"), ("String", "formatting only"),
  ("ReadFrom", "byte queue, C11"), ("WriteTo", "byte queue, C11"), ("ReadDeadline", "byte queue, C11"),
  ("KeyCrypt", "XOR with the session key over the buffer, C06"), ("MarshalStream", "nested Chunk wire form, C01"), ("UnmarshalStream", "nested Chunk wire form, C01")]

def lookup (n : String) : Option Cover := (surface.find? (·.1 = n)).map (·.2)

/-- Every method of an interface (name, signature) is in the table, and where the table names a
model function the signature is the one that function models. -/
def coversIface (ms : List (String × String)) : Bool :=
  ms.all fun m => match lookup m.1 with
    | none => false
    | some c => match c.sig with | none => true | some sg => sg == m.2

/-- An implementation's method set provides every interface method with the same signature. -/
def provides (impl iface : List (String × String)) : Bool :=
  iface.all fun m => impl.contains m

/-- Every exported method of an implementation is either an interface method or an explained extra. -/
def explained (impl iface : List (String × String)) (extras : List (String × String)) : Bool :=
  impl.all fun m => iface.contains m || extras.any (·.1 == m.1)

end XMT.Codec
