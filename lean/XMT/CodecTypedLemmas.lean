/-
  Lemmas for XMT.CodecTyped: Go's integer conversions round-trip, the Go-level writers are the
  primitive writers after the cast (`lower`), and the round trip / truncation theorems of
  CodecRoundtrip / CodecPrefix lifted to Go-level values, generic over a lawful reader.
-/
import XMT.CodecTyped
import XMT.CodecPrefix

namespace XMT.Codec
open XMT

theorem toS_toU {w : Nat} (hw : w = 8 ∨ w = 16 ∨ w = 32 ∨ w = 64) (n : Int) (h : fitsS w n) :
    toS w (toU w n) = n := by
  rcases hw with rfl | rfl | rfl | rfl <;>
  · unfold toS toU; unfold fitsS at h
    simp only [Int.reducePow, Nat.reducePow, Nat.reduceSub] at *
    split <;> omega

theorem toU_lt {w : Nat} (hw : w = 8 ∨ w = 16 ∨ w = 32 ∨ w = 64) (n : Int) : toU w n < 2 ^ w := by
  rcases hw with rfl | rfl | rfl | rfl <;>
  · unfold toU
    simp only [Int.reducePow, Nat.reducePow]
    omega

theorem toS32_toU64 (n : Int) (h : fitsS 32 n) : toS 32 (toU 64 n) = n := by
  unfold toS toU; unfold fitsS at h
  simp only [Int.reducePow, Nat.reducePow, Nat.reduceSub] at *
  split <;> omega

/-- The platform's `int` is 32 or 64 bits wide (regenerated; closed by `decide`). -/
theorem intSize_ok : Facts.c10_intSize = 64 ∨ Facts.c10_intSize = 32 := by decide

/-- `int(uint64(n)) = n` for every `int` of the platform. -/
theorem int_cast_roundtrip (n : Int) (h : fitsS Facts.c10_intSize n) :
    toS Facts.c10_intSize (toU 64 n) = n := by
  rcases intSize_ok with e | e
  · rw [e] at h ⊢; exact toS_toU (by simp) n h
  · rw [e] at h ⊢; exact toS32_toU64 n h

/-- The value the primitive writer is called with (`WriteInt16(n) = WriteUint16(uint16(n))`, …). -/
def GVal.lower : GVal → Val
  | .bool b => .bool b
  | .i8 n => .u8 (byteOf (toU 8 n)) | .u8 n => .u8 (byteOf n)
  | .i16 n => .u16 (toU 16 n) | .u16 n => .u16 n
  | .i32 n => .u32 (toU 32 n) | .u32 n => .u32 n
  | .i64 n => .u64 (toU 64 n) | .u64 n => .u64 n
  | .int n => .u64 (toU 64 n) | .uint n => .u64 n
  | .f32 b => .u32 b | .f64 b => .u64 b
  | .bytes b => .bytes b | .str s => .bytes s | .strs l => .strs l

theorem encGChunk_lower (g : GVal) : encGChunk g = encChunk g.lower := by
  cases g <;> rfl

theorem encGStream_lower (g : GVal) : encGStream g = encStream g.lower := by
  cases g <;> rfl

theorem encAllGChunk_lower (gs : List GVal) : encAllGChunk gs = encAllChunk (gs.map GVal.lower) := by
  induction gs with
  | nil => rfl
  | cons g gs ih =>
    simp only [encAllGChunk, encAllChunk, List.flatMap_cons, List.map_cons] at ih ⊢
    rw [encGChunk_lower, ih]

theorem encAllGStream_lower (gs : List GVal) : encAllGStream gs = encAllStream (gs.map GVal.lower) := by
  induction gs with
  | nil => rfl
  | cons g gs ih =>
    simp only [encAllGStream, encAllStream, List.flatMap_cons, List.map_cons] at ih ⊢
    rw [encGStream_lower, ih]

theorem uintSize_le : Facts.c10_intSize ≤ 64 := by decide

theorem lower_WF (g : GVal) (h : g.WF) : g.lower.WF := by
  cases g with
  | i16 n => exact toU_lt (by simp) n
  | i32 n => exact toU_lt (by simp) n
  | i64 n => exact toU_lt (by simp) n
  | int n => exact toU_lt (by simp) n
  | uint n =>
    have h' : n < 2 ^ Facts.c10_intSize := h
    have : 2 ^ Facts.c10_intSize ≤ 2 ^ 64 := Nat.pow_le_pow_right (by omega) uintSize_le
    show n < 2 ^ 64
    omega
  | _ => first | exact h | trivial

section
variable {S : Type} {P : Prim S} {abs : S → Bytes} {inv : S → Prop}

/-- Round trip of one Go-level value through any lawful reader, with arbitrary trailing data. -/
theorem decG_ok (L : Lawful P abs inv) (g : GVal) (hg : g.WF) (s : S) (r : Bytes)
    (hi : inv s) (h : abs s = encGChunk g ++ r) :
    ∃ s', decG P g.kind s = .ok (g, s') ∧ abs s' = r ∧ inv s' := by
  have hw8 : (8 : Nat) = 8 ∨ (8 : Nat) = 16 ∨ (8 : Nat) = 32 ∨ (8 : Nat) = 64 := by simp
  have hw16 : (16 : Nat) = 8 ∨ (16 : Nat) = 16 ∨ (16 : Nat) = 32 ∨ (16 : Nat) = 64 := by simp
  have hw32 : (32 : Nat) = 8 ∨ (32 : Nat) = 16 ∨ (32 : Nat) = 32 ∨ (32 : Nat) = 64 := by simp
  have hw64 : (64 : Nat) = 8 ∨ (64 : Nat) = 16 ∨ (64 : Nat) = 32 ∨ (64 : Nat) = 64 := by simp
  cases g with
  | bool b =>
    simp only [encGChunk, List.cons_append, List.nil_append] at h
    obtain ⟨s1, e1, a1, i1⟩ := L.u8_ok s _ _ hi h
    refine ⟨s1, ?_, a1, i1⟩
    cases b <;> simp [decG, GVal.kind, e1, bind, Except.bind, pure, Except.pure]
  | i8 n =>
    simp only [encGChunk, List.cons_append, List.nil_append] at h
    obtain ⟨s1, e1, a1, i1⟩ := L.u8_ok s _ _ hi h
    have h1 : toU 8 n % 256 = toU 8 n := Nat.mod_eq_of_lt (toU_lt hw8 n)
    have h2 := toS_toU hw8 n hg
    exact ⟨s1, by simp [decG, GVal.kind, e1, bind, Except.bind, pure, Except.pure, h1, h2], a1, i1⟩
  | u8 n =>
    simp only [encGChunk, List.cons_append, List.nil_append] at h
    obtain ⟨s1, e1, a1, i1⟩ := L.u8_ok s _ _ hi h
    have h1 : n % 256 = n := Nat.mod_eq_of_lt hg
    exact ⟨s1, by simp [decG, GVal.kind, e1, bind, Except.bind, pure, Except.pure, h1], a1, i1⟩
  | i16 n =>
    simp only [encGChunk, be16, List.cons_append, List.nil_append] at h
    obtain ⟨s1, e1, a1, i1⟩ := L.u16_ok s _ _ _ hi h
    have h1 := ofBe16_be16 (toU 16 n) (toU_lt hw16 n)
    have h2 := toS_toU hw16 n hg
    exact ⟨s1, by simp [decG, GVal.kind, e1, bind, Except.bind, pure, Except.pure, h1, h2], a1, i1⟩
  | u16 n =>
    simp only [encGChunk, be16, List.cons_append, List.nil_append] at h
    obtain ⟨s1, e1, a1, i1⟩ := L.u16_ok s _ _ _ hi h
    have h1 := ofBe16_be16 n hg
    exact ⟨s1, by simp [decG, GVal.kind, e1, bind, Except.bind, pure, Except.pure, h1], a1, i1⟩
  | i32 n =>
    simp only [encGChunk, be32, List.cons_append, List.nil_append] at h
    obtain ⟨s1, e1, a1, i1⟩ := L.u32_ok s _ _ _ _ _ hi h
    have h1 := ofBe32_be32 (toU 32 n) (toU_lt hw32 n)
    have h2 := toS_toU hw32 n hg
    exact ⟨s1, by simp [decG, GVal.kind, e1, bind, Except.bind, pure, Except.pure, h1, h2], a1, i1⟩
  | u32 n =>
    simp only [encGChunk, be32, List.cons_append, List.nil_append] at h
    obtain ⟨s1, e1, a1, i1⟩ := L.u32_ok s _ _ _ _ _ hi h
    have h1 := ofBe32_be32 n hg
    exact ⟨s1, by simp [decG, GVal.kind, e1, bind, Except.bind, pure, Except.pure, h1], a1, i1⟩
  | i64 n =>
    simp only [encGChunk, be64, List.cons_append, List.nil_append] at h
    obtain ⟨s1, e1, a1, i1⟩ := L.u64_ok s _ _ _ _ _ _ _ _ _ hi h
    have h1 := ofBe64_be64 (toU 64 n) (toU_lt hw64 n)
    have h2 := toS_toU hw64 n hg
    exact ⟨s1, by simp [decG, GVal.kind, e1, bind, Except.bind, pure, Except.pure, h1, h2], a1, i1⟩
  | u64 n =>
    simp only [encGChunk, be64, List.cons_append, List.nil_append] at h
    obtain ⟨s1, e1, a1, i1⟩ := L.u64_ok s _ _ _ _ _ _ _ _ _ hi h
    have h1 := ofBe64_be64 n hg
    exact ⟨s1, by simp [decG, GVal.kind, e1, bind, Except.bind, pure, Except.pure, h1], a1, i1⟩
  | int n =>
    simp only [encGChunk, be64, List.cons_append, List.nil_append] at h
    obtain ⟨s1, e1, a1, i1⟩ := L.u64_ok s _ _ _ _ _ _ _ _ _ hi h
    have h1 := ofBe64_be64 (toU 64 n) (toU_lt hw64 n)
    have h2 := int_cast_roundtrip n hg
    exact ⟨s1, by simp [decG, GVal.kind, e1, bind, Except.bind, pure, Except.pure, h1, h2], a1, i1⟩
  | uint n =>
    simp only [encGChunk, be64, List.cons_append, List.nil_append] at h
    obtain ⟨s1, e1, a1, i1⟩ := L.u64_ok s _ _ _ _ _ _ _ _ _ hi h
    have hn : n < 2 ^ Facts.c10_intSize := hg
    have h64 : n < 2 ^ 64 := by
      have : 2 ^ Facts.c10_intSize ≤ 2 ^ 64 := Nat.pow_le_pow_right (by omega) uintSize_le
      omega
    have h1 := ofBe64_be64 n h64
    have h2 : n % 2 ^ Facts.c10_intSize = n := Nat.mod_eq_of_lt hn
    exact ⟨s1, by simp [decG, GVal.kind, e1, bind, Except.bind, pure, Except.pure, h1, h2], a1, i1⟩
  | f32 n =>
    simp only [encGChunk, be32, List.cons_append, List.nil_append] at h
    obtain ⟨s1, e1, a1, i1⟩ := L.u32_ok s _ _ _ _ _ hi h
    have h1 := ofBe32_be32 n hg
    exact ⟨s1, by simp [decG, GVal.kind, e1, bind, Except.bind, pure, Except.pure, h1], a1, i1⟩
  | f64 n =>
    simp only [encGChunk, be64, List.cons_append, List.nil_append] at h
    obtain ⟨s1, e1, a1, i1⟩ := L.u64_ok s _ _ _ _ _ _ _ _ _ hi h
    have h1 := ofBe64_be64 n hg
    exact ⟨s1, by simp [decG, GVal.kind, e1, bind, Except.bind, pure, Except.pure, h1], a1, i1⟩
  | bytes b =>
    simp only [encGChunk] at h
    obtain ⟨s1, e1, a1, i1⟩ := decBytes_ok L b hg s _ hi h
    exact ⟨s1, by simp [decG, GVal.kind, e1, bind, Except.bind, pure, Except.pure], a1, i1⟩
  | str b =>
    simp only [encGChunk] at h
    obtain ⟨s1, e1, a1, i1⟩ := decBytes_ok L b hg s _ hi h
    exact ⟨s1, by simp [decG, GVal.kind, e1, bind, Except.bind, pure, Except.pure], a1, i1⟩
  | strs l =>
    have h' : abs s = encChunk (.strs l) ++ r := h
    obtain ⟨s1, e1, a1, i1⟩ := dec_ok L (.strs l) hg s r hi h'
    refine ⟨s1, ?_, a1, i1⟩
    simp only [dec, Val.ty, bind, Except.bind, pure, Except.pure] at e1
    simp only [decG, GVal.kind, bind, Except.bind, pure, Except.pure]
    cases hq : decStrs P s with
    | error e => simp [hq] at e1
    | ok p =>
      obtain ⟨l', s'⟩ := p
      simp [hq] at e1
      obtain ⟨rfl, rfl⟩ := e1
      rfl

theorem decAllG_ok (L : Lawful P abs inv) (gs : List GVal) (hg : ∀ g ∈ gs, g.WF) (s : S)
    (r : Bytes) (hi : inv s) (h : abs s = encAllGChunk gs ++ r) :
    ∃ s', decAllG P (gs.map GVal.kind) s = .ok (gs, s') ∧ abs s' = r ∧ inv s' := by
  induction gs generalizing s with
  | nil => exact ⟨s, rfl, by simpa [encAllGChunk] using h, hi⟩
  | cons g gs ih =>
    simp only [encAllGChunk, List.flatMap_cons, List.append_assoc] at h
    obtain ⟨s1, e1, a1, i1⟩ := decG_ok L g (hg g List.mem_cons_self) s _ hi h
    obtain ⟨s2, e2, a2, i2⟩ := ih (fun x hx => hg x (List.mem_cons_of_mem _ hx)) s1 i1 a1
    exact ⟨s2, by simp [decAllG, e1, e2], a2, i2⟩

/-- The primitive read a kind starts with fails ⇒ the Go-level read fails with the same error. -/
theorem decG_err_of_dec (g : GVal) (s : S) (e : Err) (h : dec P g.lower.ty s = .error e) :
    decG P g.kind s = .error e := by
  cases g <;> simp only [GVal.lower, Val.ty, dec, bind, Except.bind] at h <;>
    simp only [decG, GVal.kind, bind, Except.bind] <;>
    (split at h <;> first | exact h | (simp [pure, Except.pure] at h; done) | (simp at h; simp [h]))

theorem decG_prefix_err (L : Lawful P abs inv) (g : GVal) (hg : g.WF) (s : S) (hi : inv s)
    (hp : abs s <+: encGChunk g) (hlt : (abs s).length < (encGChunk g).length) :
    ∃ e, decG P g.kind s = .error e := by
  rw [encGChunk_lower] at hp hlt
  obtain ⟨e, he⟩ := dec_prefix_err L g.lower (lower_WF g hg) s hi hp hlt
  exact ⟨e, decG_err_of_dec g s e he⟩

theorem decAllG_prefix_err (L : Lawful P abs inv) (gs : List GVal) (hg : ∀ g ∈ gs, g.WF) (s : S)
    (hi : inv s) (hp : abs s <+: encAllGChunk gs)
    (hlt : (abs s).length < (encAllGChunk gs).length) :
    ∃ e k, decAllG P (gs.map GVal.kind) s = .error (e, gs.take k) := by
  induction gs generalizing s with
  | nil => simp [encAllGChunk] at hlt
  | cons g gs ih =>
    simp only [encAllGChunk, List.flatMap_cons] at hp hlt
    rcases prefix_append_cases hp with ⟨h1, h2⟩ | ⟨p', h1, h2⟩
    · obtain ⟨e, he⟩ := decG_prefix_err L g (hg g List.mem_cons_self) s hi h1 h2
      exact ⟨e, 0, by simp [decAllG, he]⟩
    · obtain ⟨s1, e1, a1, i1⟩ := decG_ok L g (hg g List.mem_cons_self) s p' hi h1
      have hl' : p'.length < (encAllGChunk gs).length := by
        rw [h1] at hlt; simp at hlt; simpa [encAllGChunk] using hlt
      obtain ⟨e, k, he⟩ := ih (fun x hx => hg x (List.mem_cons_of_mem _ hx)) s1 i1
        (by rw [a1]; exact h2) (by rw [a1]; exact hl')
      exact ⟨e, k + 1, by simp [decAllG, e1, he]⟩

/-! ### `ReadStringList` into a used destination -/

theorem slAppend_ok (L : Lawful P abs inv) (l : List Bytes)
    (hl : ∀ b ∈ l, b.length ≤ Facts.maxSlice) (done : List Bytes) (s : S) (r : Bytes) (hi : inv s)
    (h : abs s = l.flatMap encBytesChunk ++ r) :
    ∃ s', slAppend P l.length done s = (done.reverse ++ l, .ok s') ∧ abs s' = r ∧ inv s' := by
  induction l generalizing s done with
  | nil => exact ⟨s, by simp [slAppend], by simpa using h, hi⟩
  | cons b l ih =>
    simp only [List.flatMap_cons, List.append_assoc] at h
    obtain ⟨s1, e1, a1, i1⟩ := decBytes_ok L b (hl b List.mem_cons_self) s _ hi h
    obtain ⟨s2, e2, a2, i2⟩ := ih (fun x hx => hl x (List.mem_cons_of_mem _ hx)) (b :: done) s1 i1 a1
    exact ⟨s2, by simp [slAppend, readStr, e1, e2], a2, i2⟩

theorem slOverwrite_ok (L : Lawful P abs inv) (l : List Bytes)
    (hl : ∀ b ∈ l, b.length ≤ Facts.maxSlice) (done old : List Bytes) (s : S) (r : Bytes)
    (hi : inv s) (h : abs s = l.flatMap encBytesChunk ++ r) :
    ∃ s', slOverwrite P l.length done old s = (done.reverse ++ l ++ old.drop l.length, .ok s') ∧
      abs s' = r ∧ inv s' := by
  induction l generalizing s done old with
  | nil => exact ⟨s, by simp [slOverwrite], by simpa using h, hi⟩
  | cons b l ih =>
    simp only [List.flatMap_cons, List.append_assoc] at h
    obtain ⟨s1, e1, a1, i1⟩ := decBytes_ok L b (hl b List.mem_cons_self) s _ hi h
    obtain ⟨s2, e2, a2, i2⟩ :=
      ih (fun x hx => hl x (List.mem_cons_of_mem _ hx)) (b :: done) old.tail s1 i1 a1
    refine ⟨s2, ?_, a2, i2⟩
    simp only [slOverwrite, readStr, e1, List.length_cons, e2]
    cases old <;> simp

theorem countInt_small (n : Nat) (h : n < 2^31) : countInt n = n := by
  unfold countInt toS
  rcases intSize_ok with e | e <;> rw [e] <;>
    simp only [Nat.reducePow, Nat.reduceSub, Int.reducePow] at * <;> split <;> omega

theorem countInt_fits (n : Nat) (h : n < 2 ^ (Facts.c10_intSize - 1)) : countInt n = n := by
  unfold countInt toS
  rcases intSize_ok with e | e <;> rw [e] at h ⊢ <;>
    simp only [Nat.reducePow, Nat.reduceSub, Int.reducePow] at * <;> split <;> omega

/-- Pointer readers: a complete encoding sets the destination to the written value … -/
theorem readInto_ok (L : Lawful P abs inv) (g old : GVal) (hg : g.WF) (s : S) (r : Bytes)
    (hi : inv s) (h : abs s = encGChunk g ++ r) :
    ∃ s', readInto P g.kind old s = (g, .ok s') ∧ abs s' = r ∧ inv s' := by
  obtain ⟨s1, e1, a1, i1⟩ := decG_ok L g hg s r hi h
  exact ⟨s1, by simp [readInto, e1], a1, i1⟩

/-- … and a strict prefix leaves the destination as it was and reports an error. -/
theorem readInto_prefix (L : Lawful P abs inv) (g old : GVal) (hg : g.WF) (s : S) (hi : inv s)
    (hp : abs s <+: encGChunk g) (hlt : (abs s).length < (encGChunk g).length) :
    ∃ e, readInto P g.kind old s = (old, .error e) := by
  obtain ⟨e, he⟩ := decG_prefix_err L g hg s hi hp hlt
  exact ⟨e, by simp [readInto, he]⟩

/-- What `data.ReadStringList` leaves in a destination that held `old`. -/
def slIntoResult (old l : List Bytes) : List Bytes :=
  if l = [] then old
  else if old.length ≥ l.length then l ++ old.drop l.length
  else l

theorem decStrsInto_ok (L : Lawful P abs inv) (l old : List Bytes)
    (hl1 : l.length < 2 ^ (Facts.c10_intSize - 1)) (hl2 : ∀ b ∈ l, b.length ≤ Facts.maxSlice)
    (s : S) (r : Bytes) (hi : inv s)
    (h : abs s = lenPrefix l.length ++ (l.flatMap encBytesChunk ++ r)) :
    ∃ s', decStrsInto P old s = (slIntoResult old l, .ok s') ∧ abs s' = r ∧ inv s' := by
  have h64 : l.length < 2 ^ 64 := by
    have : 2 ^ (Facts.c10_intSize - 1) ≤ 2 ^ 64 :=
      Nat.pow_le_pow_right (by omega) (by have := uintSize_le; omega)
    omega
  obtain ⟨s1, e1, a1, i1⟩ := decLen_ok L l.length h64 s _ hi h
  by_cases h0 : l.length = 0
  · have : l = [] := List.length_eq_zero_iff.mp h0
    subst this
    exact ⟨s1, by simp [decStrsInto, e1, slIntoResult], by simpa using a1, i1⟩
  · have hne : l ≠ [] := fun hh => h0 (by simp [hh])
    have hc := countInt_fits l.length hl1
    by_cases hge : old.length ≥ l.length
    · obtain ⟨s2, e2, a2, i2⟩ := slOverwrite_ok L l hl2 [] old s1 r i1 a1
      refine ⟨s2, ?_, a2, i2⟩
      have hge' : (old.length : Int) ≥ (l.length : Int) := by omega
      simp only [decStrsInto, e1, h0, if_false, hc, hge', if_true, Int.toNat_natCast, e2,
        slIntoResult, hne, hge]
      simp
    · obtain ⟨s2, e2, a2, i2⟩ := slAppend_ok L l hl2 [] s1 r i1 a1
      refine ⟨s2, ?_, a2, i2⟩
      have hge' : ¬ ((old.length : Int) ≥ (l.length : Int)) := by omega
      simp only [decStrsInto, e1, h0, if_false, hc, hge', Int.toNat_natCast, e2,
        slIntoResult, hne, hge]
      simp

end
end XMT.Codec
