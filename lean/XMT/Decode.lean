/-
  XMT.Decode — the server-side decoders of attacker-controlled bytes as total functions with an
  explicit outcome: `ok` / `err` (both carrying the unread bytes, the bytes requested from the
  allocator so far and the trace of primitive reads), `panic site`, `hang`.

  This file: the decoder monad over the in-memory reader (`data.Chunk`, chunk_reader.go — every
  network-facing decoder runs on a `com.Packet`, i.e. a Chunk), the typed primitives, `Bytes()`,
  `StringVal()`, `ReadStringList`, `ID.Read`, `Machine`/`Network`/`WorkHours`, `readProxyData`,
  `readDeviceInfo`, `Packet.UnmarshalStream` and every exported `result.*` decoder.

  Allocation is a value: every `make` / `string(b)` / `append` growth is charged to `St.alloc` with
  the size the Go code passes (element count × element size; element sizes are regenerated facts).
  `make` with a size the runtime refuses is `panic`.

  Index and reslice expressions on the Chunk's buffer are **partial**: `idxP`, `sliceP`, `sliceFromP`
  and the cursor step `advanceP` yield `panic` when out of range, like `b[i]` / `b[lo:hi]` in Go.  The
  Go guards in front of them are explicit tests of the model; that they suffice is proved in
  XMT/DecodeSlice.lean (and that they are needed in XMT/DecodeGuardsMatter.lean).
-/
import XMT.Base
import XMT.Generated.Facts

namespace XMT.Decode
open XMT

inductive Err
  | eof | ueof | badType | tooLarge | noProgress | malformedTag | malformedPacket | invalidCount
  | shortBuffer | closedPipe | mismatch
  deriving DecidableEq, Repr

/-- one primitive read, as seen at the `data.Reader` interface -/
inductive Tok
  | u8 (n : Nat) | u16 (n : Nat) | u32 (n : Nat) | u64 (n : Nat) | bool (b : Bool)
  | by (b : Bytes) | str (b : Bytes) | raw (b : Bytes)
  deriving DecidableEq, Repr

structure St where
  rest : Bytes          -- unread bytes of the Chunk (`c.buf[c.rpos:]`)
  alloc : Nat := 0      -- bytes requested from the allocator so far
  out : List Tok := []  -- primitive reads, most recent first
  deriving Repr, DecidableEq

inductive Out (α : Type) where
  | ok (a : α) (s : St)
  | err (e : Err) (s : St)
  | panic (site : String)
  | hang
  deriving Repr, DecidableEq

def D (α : Type) := St → Out α

def D.pure {α : Type} (a : α) : D α := fun s => .ok a s
def D.bind {α β : Type} (d : D α) (f : α → D β) : D β := fun s =>
  match d s with
  | .ok a s' => f a s'
  | .err e s' => .err e s'
  | .panic m => .panic m
  | .hang => .hang

instance : Monad D where
  pure := D.pure
  bind := D.bind

def fail {α : Type} (e : Err) : D α := fun s => .err e s
def panic {α : Type} (site : String) : D α := fun _ => .panic site
def emit (t : Tok) : D Unit := fun s => .ok () { s with out := t :: s.out }
/-- account `n` bytes requested from the allocator -/
def charge (n : Nat) : D Unit := fun s => .ok () { s with alloc := s.alloc + n }
/-- `c.Remaining()` -/
def remaining : D Nat := fun s => .ok s.rest.length s

/-- largest request `make` accepts on a 64-bit platform (`maxAlloc`, 2^48) -/
def maxAlloc : Nat := 2 ^ 48

/-- `make([]T, n)` with `n` a Go `int` (so possibly negative) and `size = unsafe.Sizeof(T)` -/
def mk (n : Int) (size : Nat) (site : String) : D Unit := fun s =>
  if n < 0 then .panic ("makeslice: len out of range: " ++ site)
  else if n.toNat * size > maxAlloc then .panic ("makeslice: len out of range: " ++ site)
  else .ok () { s with alloc := s.alloc + n.toNat * size }

/-! ### the buffer: index and reslice expressions

The state keeps `rest = c.buf[c.rpos:]`.  Every index expression `c.buf[c.rpos+i]` and every reslice
`c.buf[c.rpos+lo : c.rpos+hi]` / `c.buf[c.rpos+lo:]` of the Go code is one of the primitives below and
**panics** when it is out of range, exactly as the Go runtime does ("index out of range" / "slice
bounds out of range").  The guards of the Go code (`checkBounds`, `n < c.rpos+int(l)`, `Empty()`) are
explicit tests in front of them, where the Go code has them; nothing else keeps them in range. -/

/-- `c.buf[c.rpos+i]` -/
def idxP (i : Nat) (site : String) : D UInt8 := fun s =>
  match s.rest[i]? with
  | some v => .ok v s
  | none => .panic ("index out of range: " ++ site)

/-- `c.buf[c.rpos+lo : c.rpos+hi]` -/
def sliceP (lo hi : Nat) (site : String) : D Bytes := fun s =>
  if hi > s.rest.length ∨ lo > hi then .panic ("slice bounds out of range: " ++ site)
  else .ok ((s.rest.drop lo).take (hi - lo)) s

/-- `c.buf[c.rpos+lo:]` -/
def sliceFromP (lo : Nat) (site : String) : D Bytes := fun s =>
  if lo > s.rest.length then .panic ("slice bounds out of range: " ++ site)
  else .ok (s.rest.drop lo) s

/-- `c.rpos += n`.  The addition itself cannot fail in Go; a cursor beyond `len(c.buf)` would make the
next `c.buf[c.rpos:]` panic.  `rest = c.buf[c.rpos:]` only exists while `c.rpos ≤ len(c.buf)`, so the
model reports the step that leaves the buffer as the panic (conservative: the model panics no later
than the code). -/
def advanceP (n : Nat) (site : String) : D Unit := fun s =>
  if n > s.rest.length then .panic ("cursor beyond the buffer: " ++ site)
  else .ok () { s with rest := s.rest.drop n }

/-- `c.rpos = c.Size()` -/
def seekEnd : D Unit := fun s => .ok () { s with rest := [] }

/-- `c.checkBounds(n)` = `c.rpos+n > len(c.buf)` -/
def checkBounds (n : Nat) : D Bool := fun s => .ok (decide (n > s.rest.length)) s

/-! ### compiled forms of the length tests (the driver must not walk the whole buffer per read)

`s.rest.length` is linear in what is left of the buffer; a decoder that reads n fields would cost n²
in the compiled driver. The comparisons `k > rest.length` are replaced, for COMPILATION only, by a walk
of at most `k` cells (`lenLt`), through proved equalities tagged `@[csimp]`; the theorems keep speaking
about the definitions above. -/

/-- `l.length < n`, looking at no more than `n` cells -/
def lenLt {α : Type} : List α → Nat → Bool
  | _, 0 => false
  | [], _ + 1 => true
  | _ :: t, n + 1 => lenLt t n

theorem lenLt_eq {α : Type} (l : List α) (n : Nat) : lenLt l n = decide (n > l.length) := by
  induction l generalizing n with
  | nil => cases n <;> simp [lenLt]
  | cons a t ih =>
    cases n with
    | zero => simp [lenLt]
    | succ n => simp only [lenLt, ih, List.length_cons]; congr 1; simp

def checkBoundsFast (n : Nat) : D Bool := fun s => .ok (lenLt s.rest n) s

@[csimp] theorem checkBounds_eq_fast : @checkBounds = @checkBoundsFast := by
  funext n s; simp [checkBounds, checkBoundsFast, lenLt_eq]

def advancePFast (n : Nat) (site : String) : D Unit := fun s =>
  if lenLt s.rest n then .panic ("cursor beyond the buffer: " ++ site)
  else .ok () { s with rest := s.rest.drop n }

@[csimp] theorem advanceP_eq_fast : @advanceP = @advancePFast := by
  funext n site s; simp [advanceP, advancePFast, lenLt_eq]

def slicePFast (lo hi : Nat) (site : String) : D Bytes := fun s =>
  if lenLt s.rest hi ∨ lo > hi then .panic ("slice bounds out of range: " ++ site)
  else .ok ((s.rest.drop lo).take (hi - lo)) s

@[csimp] theorem sliceP_eq_fast : @sliceP = @slicePFast := by
  funext lo hi site s; simp [sliceP, slicePFast, lenLt_eq]

def sliceFromPFast (lo : Nat) (site : String) : D Bytes := fun s =>
  if lenLt s.rest lo then .panic ("slice bounds out of range: " ++ site)
  else .ok (s.rest.drop lo) s

@[csimp] theorem sliceFromP_eq_fast : @sliceFromP = @sliceFromPFast := by
  funext lo site s; simp [sliceFromP, sliceFromPFast, lenLt_eq]

/-! ### raw primitives of chunk_reader.go (no trace) -/

/-- `Uint8()`: `if c.checkBounds(1) { return 0, io.EOF }; v := c.buf[c.rpos]; c.rpos++` -/
def u8r : D UInt8 := do
  if ← checkBounds 1 then fail .eof
  else do
    let v ← idxP 0 "Uint8: c.buf[c.rpos]"
    advanceP 1 "Uint8: c.rpos++"
    pure v

/-- `Uint16()`: `if c.checkBounds(2) { return 0, io.EOF }; _ = c.buf[c.rpos+1];
v := uint16(c.buf[c.rpos+1]) | uint16(c.buf[c.rpos])<<8; c.rpos += 2` — nothing is consumed when fewer
than 2 bytes are left -/
def u16r : D Nat := do
  if ← checkBounds 2 then fail .eof
  else do
    let _ ← idxP 1 "Uint16: _ = c.buf[c.rpos+1]"
    let b1 ← idxP 1 "Uint16: c.buf[c.rpos+1]"
    let b0 ← idxP 0 "Uint16: c.buf[c.rpos]"
    advanceP 2 "Uint16: c.rpos += 2"
    pure (ofBe16 b0 b1)

/-- `Uint32()`: `checkBounds(4)`, `_ = c.buf[c.rpos+3]`, four index reads, `c.rpos += 4` -/
def u32r : D Nat := do
  if ← checkBounds 4 then fail .eof
  else do
    let _ ← idxP 3 "Uint32: _ = c.buf[c.rpos+3]"
    let b3 ← idxP 3 "Uint32: c.buf[c.rpos+3]"
    let b2 ← idxP 2 "Uint32: c.buf[c.rpos+2]"
    let b1 ← idxP 1 "Uint32: c.buf[c.rpos+1]"
    let b0 ← idxP 0 "Uint32: c.buf[c.rpos]"
    advanceP 4 "Uint32: c.rpos += 4"
    pure (ofBe32 b0 b1 b2 b3)

/-- `Uint64()`: `checkBounds(8)`, `_ = c.buf[c.rpos+7]`, eight index reads, `c.rpos += 8` -/
def u64r : D Nat := do
  if ← checkBounds 8 then fail .eof
  else do
    let _ ← idxP 7 "Uint64: _ = c.buf[c.rpos+7]"
    let b7 ← idxP 7 "Uint64: c.buf[c.rpos+7]"
    let b6 ← idxP 6 "Uint64: c.buf[c.rpos+6]"
    let b5 ← idxP 5 "Uint64: c.buf[c.rpos+5]"
    let b4 ← idxP 4 "Uint64: c.buf[c.rpos+4]"
    let b3 ← idxP 3 "Uint64: c.buf[c.rpos+3]"
    let b2 ← idxP 2 "Uint64: c.buf[c.rpos+2]"
    let b1 ← idxP 1 "Uint64: c.buf[c.rpos+1]"
    let b0 ← idxP 0 "Uint64: c.buf[c.rpos]"
    advanceP 8 "Uint64: c.rpos += 8"
    pure (ofBe64 b0 b1 b2 b3 b4 b5 b6 b7)

/-- the `switch t` of `Bytes()` / `ReadStringList` once the tag byte is read: `none` for tag 0 -/
def lenHdrK (t : UInt8) : D (Option Nat) :=
  if t = 0 then pure none
  else if t = 1 ∨ t = 2 then do let n ← u8r; pure (some n.toNat)
  else if t = 3 ∨ t = 4 then do let n ← u16r; pure (some n)
  else if t = 5 ∨ t = 6 then do let n ← u32r; pure (some n)
  else if t = 7 ∨ t = 8 then do let n ← u64r; pure (some n)
  else fail .badType

def lenHdr : D (Option Nat) := do let t ← u8r; lenHdrK t

/-- the tail of `(*Chunk).Bytes()`: a reslice (no allocation); a short body hands out what is left
with `io.EOF` and moves the cursor to the end.  `copy` = the caller is `StringVal()`, which converts
the slice with `string(b)` (an allocation of `l` bytes) when, and only when, `Bytes()` succeeded.
```
if n := c.Size(); n < c.rpos+int(l) { o := c.buf[c.rpos:]; c.rpos = n; return o, io.EOF }
o := c.buf[c.rpos : uint64(c.rpos)+l]
c.rpos += int(l)
return o, nil
``` -/
def bodyC (copy : Bool) (l : Nat) : D Bytes := do
  if (← remaining) < l then do             -- `n < c.rpos+int(l)` (`l ≤ MaxSlice`: no overflow)
    let _ ← sliceFromP 0 "Bytes: c.buf[c.rpos:]"
    seekEnd
    fail .eof
  else do
    let o ← sliceP 0 l "Bytes: c.buf[c.rpos : uint64(c.rpos)+l]"
    advanceP l "Bytes: c.rpos += int(l)"
    charge (if copy then l else 0)
    pure o

def bytesRawK (copy : Bool) : Option Nat → D Bytes
  | none => pure []
  | some l =>
    if l = 0 then fail .ueof
    else if l > Facts.maxSlice then fail .tooLarge
    else bodyC copy l

/-- `(*Chunk).Bytes()` (`copy = false`) / `(*Chunk).StringVal()` (`copy = true`) -/
def bytesRaw (copy : Bool) : D Bytes := do let o ← lenHdr; bytesRawK copy o

/-! ### interface-level reads (traced) -/

def u8 : D UInt8 := do let v ← u8r; emit (.u8 v.toNat); pure v
def u16 : D Nat := do let v ← u16r; emit (.u16 v); pure v
def u32 : D Nat := do let v ← u32r; emit (.u32 v); pure v
def u64 : D Nat := do let v ← u64r; emit (.u64 v); pure v
/-- `Bool()` = `Uint8() == 1` -/
def bool : D Bool := do let v ← u8r; emit (.bool (v = 1)); pure (v = 1)
/-- `Bytes()` / `ReadBytes(&p)` -/
def bytes : D Bytes := do let b ← bytesRaw false; emit (.by b); pure b
/-- `StringVal()` / `ReadString(&p)`: `string(b)` copies the bytes -/
def str : D Bytes := do let b ← bytesRaw true; emit (.str b); pure b

/-- `(*Chunk).Read(b)` with `len(b) = k`; `none` = `(0, io.EOF)`:
```
if c.Empty() { if c.Reset(); len(b) == 0 { return 0, nil }; return 0, io.EOF }
n := copy(b, c.buf[c.rpos:])
c.rpos += n
return n, nil
``` -/
def chunkRead (k : Nat) : D (Option Bytes) := do
  if (← remaining) = 0 then                         -- `c.Empty()`
    if k = 0 then pure (some []) else pure none
  else do
    let src ← sliceFromP 0 "Read: c.buf[c.rpos:]"
    let got := src.take k                           -- `copy(b, src)` moves `min(len(b), len(src))` bytes
    advanceP got.length "Read: c.rpos += n"
    pure (some got)

/-- `io.ReadAtLeast(r, buf, min)` with `min = len(buf) = k` and `r` a Chunk:
```
for n < min && err == nil { nn, err = r.Read(buf[n:]); n += nn }
if n >= min { err = nil } else if n > 0 && err == EOF { err = ErrUnexpectedEOF }
```
(`buf[n:]` reslices the caller's fixed-size array with `n < min = len(buf)` by the loop test.)
Every successful `Read` of a non-empty buffer delivers at least one byte, so `k + 1` rounds are
enough (`fuel`). -/
def readAtLeast : Nat → Nat → Bytes → D (Bytes × Option Err)
  | 0, _, _ => fun _ => .hang
  | fuel + 1, k, acc =>
    if ¬ (acc.length < k) then pure (acc, none)
    else do
      match ← chunkRead (k - acc.length) with
      | none => pure (acc, some (if acc.isEmpty then .eof else .ueof))
      | some got => readAtLeast fuel k (acc ++ got)

/-- `io.ReadFull(r, buf[:k])` on a Chunk (`Chunk.Read` hands out what is there; an empty Chunk
reports `io.EOF`) followed by the caller's `n != k` test -/
def readFullC (k : Nat) : D Bytes := do
  let r ← readAtLeast (k + 1) k []
  if r.1.isEmpty then pure () else emit (.raw r.1)
  match r.2 with
  | some e => fail e
  | none => pure r.1

/-- `(*ID).Read` / `(*ID).UnmarshalStream` into a zero ID -/
def idRead : D Bytes := do
  let b ← readFullC Facts.idSize
  if b.head? = some 0 then fail .noProgress else pure b

/-- a counted loop `for x := 0; x < n; x++ { body }` that stops at the first error -/
def rep {α : Type} : Nat → D α → D (List α)
  | 0, _ => pure []
  | n + 1, d => do let a ← d; let r ← rep n d; pure (a :: r)

/-! ### data.ReadStringList (data/util.go, after the fix: the list grows as entries arrive) -/

/-- the `switch t` of `ReadStringList`: the same header, but read through the `data.Reader`
interface (so the reads show up in the trace) -/
def lenHdrT : D (Option Nat) := do
  let t ← u8
  if t = 0 then pure none
  else if t = 1 ∨ t = 2 then do let n ← u8; pure (some n.toNat)
  else if t = 3 ∨ t = 4 then do let n ← u16; pure (some n)
  else if t = 5 ∨ t = 6 then do let n ← u32; pure (some n)
  else if t = 7 ∨ t = 8 then do let n ← u64; pure (some n)
  else fail .badType

/-- amortised cost charged per `append` of a 16-byte string header (runtime growslice doubles below
256 elements and grows by 1.25× above: at most 8 headers allocated per element appended) -/
def appendCost : Nat := 128

/-- the count conversion `l = int(n)` -/
def toInt64 (n : Nat) : Int := if n < 2 ^ 63 then (n : Int) else (n : Int) - 2 ^ 64

/-- `ReadStringList(r, &s)` with `*s` empty: `len(*s) >= l` holds only for `l ≤ 0` -/
def strList : D (List Bytes) := do
  match ← lenHdrT with
  | none => pure []
  | some n =>
    let l := toInt64 n
    if l ≤ 0 then pure []            -- negative counts: the loops do not run
    else rep l.toNat (do let v ← str; charge appendCost; pure v)

/-- the code before the fix: `*s = make([]string, l)` from the announced count -/
def strListOld : D (List Bytes) := do
  match ← lenHdrT with
  | none => pure []
  | some n =>
    let l := toInt64 n
    if l ≤ 0 then pure []
    else do
      mk l 16 "ReadStringList"
      rep l.toNat str

/-! ### device info (device/machine.go, device/network.go, c2/cfg/workhours.go, c2/proxy.go) -/

def readAddr : D Unit := do let _ ← u64; let _ ← u64; pure ()

/-- `(*device).UnmarshalStream` -/
def readIface : D Unit := do
  let _ ← str
  let _ ← u64
  let l ← u8
  mk l.toNat Facts.c04_sizeofAddress "device.Address"
  let _ ← rep l.toNat readAddr
  pure ()

/-- `(*Network).UnmarshalStream` -/
def readNetwork : D Unit := do
  let l ← u8
  mk l.toNat Facts.c04_sizeofIface "device.Network"
  let _ ← rep l.toNat readIface
  pure ()

/-- `(*Machine).UnmarshalStream` -/
def readMachine : D Unit := do
  let _ ← idRead
  let _ ← u8; let _ ← u32; let _ ← u32
  let _ ← str; let _ ← str; let _ ← str
  let _ ← u8; let _ ← u32
  readNetwork

/-- `(*WorkHours).UnmarshalStream` -/
def readWork : D Unit := do
  let _ ← u8; let _ ← u8; let _ ← u8; let _ ← u8; let _ ← u8; pure ()

/-- `readProxyData(f, r)` -/
def readProxyData (f : Bool) : D Unit := do
  let n ← u8
  mk n.toNat Facts.c04_sizeofProxyData "proxyData"
  let _ ← rep n.toNat (do
    let _ ← str
    let _ ← str
    if f then do let _ ← bytes; pure () else pure ())
  pure ()

/-- `KeyPair.Unmarshal` (three `io.ReadFull`) -/
def readKeys : D Unit := do
  let _ ← readFullC Facts.c12_publicKeySize
  let _ ← readFullC Facts.c12_privateKeySize
  let _ ← readFullC Facts.c12_sharedKeySize
  pure ()

/-- the `switch t` at the top of `readDeviceInfo` (the `infoProxy` arm returns early, see below) -/
def readInfoHead (t : Nat) : D Unit :=
  if t = Facts.c12_infoHello ∨ t = Facts.c12_infoRefresh ∨ t = Facts.c12_infoSyncMigrate then readMachine
  else if t = Facts.c12_infoMigrate then do let _ ← idRead; pure ()
  else pure ()

/-- the part of `readDeviceInfo` after the work hours -/
def readInfoTail (t : Nat) : D Unit :=
  if t > Facts.c12_infoRefresh then pure ()
  else do
    readProxyData true
    if t ≠ Facts.c12_infoMigrate then pure () else readKeys

/-- `(*Session).readDeviceInfo(t, r)` -/
def readDeviceInfo (t : Nat) : D Unit :=
  if t = Facts.c12_infoProxy then readProxyData false
  else do
    readInfoHead t
    let _ ← u8          -- jitter
    let _ ← u64         -- sleep
    let _ ← u64         -- kill date
    charge 8            -- `var w cfg.WorkHours` escapes (`s.work = &w`)
    readWork
    readInfoTail t

/-! ### com.Packet.UnmarshalStream (the nested form inside a FlagMulti packet) -/

/-- `p.Tags[i]` with `len(p.Tags) = len`: an index into the freshly made tag table (not the buffer),
partial like every other index expression -/
def tagIdx (len i : Nat) : D Unit := fun s =>
  if i < len then .ok () s else .panic "index out of range: p.Tags[i]"

/-- the tag loop `for i := uint16(0); i < t && i < PacketMaxTags; i++ { r.ReadUint32(&p.Tags[i]); … }`:
`len` = `len(p.Tags)`, then the index `i` and the rounds left -/
def readTagsN (len : Nat) : Nat → Nat → D Unit
  | _, 0 => pure ()
  | i, n + 1 => do
    tagIdx len i
    let t ← u32
    if t = 0 then fail .malformedTag else readTagsN len (i + 1) n

/-- `if t > 0 { p.Tags = make([]uint32, t); loop }` -/
def readTags (t : Nat) : D Unit :=
  if t = 0 then pure ()
  else do
    mk t 4 "Packet.Tags"
    readTagsN t 0 (min t Facts.packetMaxTags)

structure Pkt where
  id : Nat
  job : Nat
  flags : Nat
  ntags : Nat
  dev : Bytes
  payload : Bytes
  deriving Repr, DecidableEq

/-- `(*Packet).UnmarshalStream(r)` with `r` a Chunk: the payload is a reslice of the parent buffer -/
def unmarshalStream : D Pkt := do
  let i ← u8
  let j ← u16
  let t ← u16
  let f ← u64
  let d ← idRead
  readTags t
  let p ← bytes
  pure { id := i.toNat, job := j, flags := f, ntags := t, dev := d, payload := p }

/-! ### result.* (c2/task/result/v_no_implant.go)

The guard `n == nil || n.Empty() || n.Flags&FlagError != 0` is the first step of every decoder; the
flags are an input of the model. -/

def flagError : Nat := Facts.c04_flagError

def guardResult (flags : Nat) : D Unit := fun s =>
  if s.rest.isEmpty ∨ flags &&& flagError ≠ 0 then .err .malformedPacket s else .ok () s

/-- the count check added by the fix: `if int(c) > n.Remaining() { return io.ErrUnexpectedEOF }` -/
def checkCount (c : Nat) : D Unit := fun s =>
  if c > s.rest.length then .err .ueof s else .ok () s

/-- `if int(c) > n.Remaining() { return io.ErrUnexpectedEOF }; e := make([]T, c)` -/
def mkChecked (c size : Nat) (site : String) : D Unit := do checkCount c; mk c size site

def rPwd (fl : Nat) : D Unit := do guardResult fl; let _ ← str; pure ()
def rSpawn (fl : Nat) : D Unit := do guardResult fl; let _ ← u32; pure ()
def rBool (fl : Nat) : D Unit := do guardResult fl; let _ ← bool; pure ()
def rMounts (fl : Nat) : D Unit := do guardResult fl; let _ ← strList; pure ()

def lsFields : D Unit := do
  let _ ← str; let _ ← u32; let _ ← u64; let _ ← u64; pure ()

def lsEntry : D Unit := do
  let v ← lsFields
  charge Facts.c04_sizeofFileInfo       -- `e[i] = v` boxes the fileInfo into the interface
  pure v

def rLs (fl : Nat) : D Unit := do
  guardResult fl
  let c ← u32
  if c = 0 then pure ()
  else do
    mkChecked c Facts.c04_sizeofInterface "result.Ls"
    let _ ← rep c lsEntry
    pure ()

def windowEntry : D Unit := do
  let _ ← u64; let _ ← str; let _ ← u8; let _ ← u32; let _ ← u32; let _ ← u32; let _ ← u32; pure ()

def rWindowList (fl : Nat) : D Unit := do
  guardResult fl
  let c ← u32
  mkChecked c Facts.c04_sizeofWindow "result.WindowList"
  let _ ← rep c windowEntry
  pure ()

def funcEntry : D Unit := do let _ ← u32; let _ ← u64; let _ ← u64; pure ()

def rFuncRemapList (fl : Nat) : D Unit := do
  guardResult fl
  let c ← u32
  mkChecked c Facts.c04_sizeofFuncEntry "result.FuncRemapList"
  let _ ← rep c funcEntry
  pure ()

def procEntry : D Unit := do let _ ← u32; let _ ← u32; let _ ← str; let _ ← str; pure ()

def rProcessList (fl : Nat) : D Unit := do
  guardResult fl
  let c ← u32
  mkChecked c Facts.c04_sizeofProcessInfo "result.ProcessList"
  let _ ← rep c procEntry
  pure ()

/-- `(*Login).UnmarshalStream` -/
def loginEntry : D Unit := do
  let _ ← u32; let _ ← u8; let _ ← u64; let _ ← u64; readAddr; let _ ← str; let _ ← str; pure ()

/-- `UserLogins`: a 16-bit count, not checked (bounded by 65535 × sizeof(Login)) -/
def rUserLogins (fl : Nat) : D Unit := do
  guardResult fl
  let c ← u16
  mk c Facts.c04_sizeofLogin "result.UserLogins"
  let _ ← rep c loginEntry
  pure ()

/-- `o, err := n.Uint8(); if err != nil { return …, c2.ErrMalformedPacket }` -/
def u8M : D UInt8 := fun s =>
  match u8 s with
  | .err _ s' => .err .malformedPacket s'
  | r => r

def regEntry : D Unit := do let _ ← str; let _ ← u32; let _ ← bytes; pure ()

/-- `Registry`: an error of the first `Uint8` is reported as ErrMalformedPacket -/
def rRegistry (fl : Nat) : D Unit := do
  guardResult fl
  let o ← u8M
  if o.toNat > 1 then pure ()
  else do
    let c ← (if o.toNat = 0 then u32 else pure 1)
    if o.toNat = 0 ∧ c = 0 then pure ()
    else do
      mkChecked c Facts.c04_sizeofRegEntry "result.Registry"
      let _ ← rep c regEntry
      pure ()

def rUpload (fl : Nat) : D Unit := do guardResult fl; let _ ← str; let _ ← u64; pure ()
def rWhoami (fl : Nat) : D Unit := do guardResult fl; let _ ← str; let _ ← str; pure ()
def rPull (fl : Nat) : D Unit := do guardResult fl; let _ ← str; let _ ← u64; pure ()
def rAssembly (fl : Nat) : D Unit := do guardResult fl; let _ ← u64; let _ ← u32; let _ ← u32; pure ()
def rProcess (fl : Nat) : D Unit := do guardResult fl; let _ ← u32; let _ ← u32; pure ()
def rDownload (fl : Nat) : D Unit := do guardResult fl; let _ ← str; let _ ← bool; let _ ← u64; pure ()

def rSystemIO (fl : Nat) : D Unit := do
  guardResult fl
  let o ← u8M
  if o.toNat ≠ 2 ∧ o.toNat ≠ 3 then pure ()
  else do let _ ← str; let _ ← u64; pure ()

/-! `Script`: the loop runs until a read fails; `io.EOF` ends it normally. Every round consumes at
least one byte, so the input length bounds the number of rounds (`fuel`). A result is a new Packet
whose Chunk receives the bytes (`v.Grow(len(d)); v.Write(d)` / `v.WriteString(m)`). -/

/-- `ReadBytes(&d)` in `Script`: on any error `d` stays nil; `io.EOF` is tolerated (the round still
appends a Packet), other errors end the loop -/
def scriptBytes : D Unit := fun s =>
  match bytes s with
  | .ok d s' => .ok () { s' with alloc := s'.alloc + (2 * d.length + 256 + appendCost) }
  | .err .eof s' => .ok () { s' with alloc := s'.alloc + (256 + appendCost) }
  | .err e s' => .err e s'
  | .panic m => .panic m
  | .hang => .hang

/-- the error-message arm: `ReadString(&m); v.WriteString(m); r = append(r, &v)` -/
def scriptStr : D Unit := do
  let m ← str
  charge (2 * m.length + 256 + appendCost)

def scriptRound : D Unit := do
  charge Facts.c04_sizeofPacket             -- `var v com.Packet` escapes (`append(r, &v)`)
  let _ ← u8
  let e ← bool
  if e then scriptBytes else scriptStr

def scriptLoop : Nat → D Unit
  | 0 => fun _ => .hang
  | fuel + 1 => fun s =>
    match scriptRound s with
    | .ok _ s' => scriptLoop fuel s'
    | .err .eof s' => .ok () s'                 -- `if err == io.EOF { return r, nil }`
    | .err e s' => .err e s'
    | .panic m => .panic m
    | .hang => .hang

def scriptAll : D Unit := fun s => scriptLoop (s.rest.length + 1) s

def rScript (fl : Nat) : D Unit := do
  guardResult fl
  scriptAll

/-! ### the decision at the end of `c2.handle` (c2/channel.go): keep the connection as a channel or
close it.  `host = none` is the conn `Listener.talk` returns for an unregistered client that sent a
non-hello Packet (it is told to re-register); `start` dereferences the host. -/

inductive After | start | close | panic
  deriving DecidableEq, Repr

/-- `switch { case v.host != nil && (n.Flags&FlagChannel != 0 || v.next.Flags&FlagChannel != 0):
case v.host == nil: fallthrough; case !v.host.chanStart(): close; return }; v.start(…)`.
`host = some cs`: a Session whose `chanStart()` answers `cs`. -/
def handleSwitch (host : Option Bool) (nChan nextChan : Bool) : After :=
  match host with
  | none => .close
  | some cs => if nChan || nextChan then .start else if !cs then .close else .start

/-- before the fix the first case did not look at the host -/
def handleSwitchOld (host : Option Bool) (nChan nextChan : Bool) : After :=
  if nChan || nextChan then (match host with | none => .panic | some _ => .start)
  else match host with
    | none => .close
    | some cs => if !cs then .close else .start

/-! ### running a decoder -/

def run {α : Type} (d : D α) (bs : Bytes) : Out α := d { rest := bs }

def Out.alloc {α : Type} : Out α → Nat
  | .ok _ s => s.alloc | .err _ s => s.alloc | _ => 0

def Out.isPanic {α : Type} : Out α → Bool | .panic _ => true | _ => false
def Out.isHang {α : Type} : Out α → Bool | .hang => true | _ => false

end XMT.Decode
