/-
  XMT.DecodeDns — model of the DNS transform's reader (c2/transform/dns.go `decodePacket`,
  `decodePackets`, `DNSTransform.Read`) after the bounds fix.  Every index expression of the Go code
  is an `idx` and every reslice (`b[s : s+i]`, `b[i:]`) a `sliceP` / `sliceFromP`; they are `none`
  out of range and the decoder then PANICS, as Go does.  The guards in front of them are the code's
  own; that they suffice is what `read_fine` proves (each case discharges the bound from the guard),
  that they are needed is shown in XMT/DecodeGuardsMatter.lean.
-/
import XMT.Decode

namespace XMT.Decode.Dns
open XMT XMT.Decode

inductive R (α : Type) where
  | ok (a : α)
  | err (e : Err)
  | panic (site : String)
  | hang
  deriving Repr

/-- `int(b[i])` -/
def idx (b : Bytes) (i : Nat) : Option Nat := (b[i]?).map UInt8.toNat

theorem idx_some {b : Bytes} {i : Nat} (h : i < b.length) : ∃ x, idx b i = some x := by
  unfold idx
  rw [List.getElem?_eq_getElem h]
  exact ⟨_, rfl⟩

/-- `b[lo:hi]`: `none` = "slice bounds out of range" -/
def sliceP (b : Bytes) (lo hi : Nat) : Option Bytes :=
  if hi > b.length ∨ lo > hi then none else some ((b.drop lo).take (hi - lo))

/-- `b[lo:]` -/
def sliceFromP (b : Bytes) (lo : Nat) : Option Bytes :=
  if lo > b.length then none else some (b.drop lo)

/-- the only rule for a reslice: it REQUIRES the bounds -/
theorem sliceP_some {b : Bytes} {lo hi : Nat} (h1 : lo ≤ hi) (h2 : hi ≤ b.length) :
    sliceP b lo hi = some ((b.drop lo).take (hi - lo)) := by
  have : ¬ (hi > b.length ∨ lo > hi) := by omega
  simp only [sliceP, this, if_false]

theorem sliceP_none {b : Bytes} {lo hi : Nat} (h : b.length < hi ∨ hi < lo) : sliceP b lo hi = none := by
  have : hi > b.length ∨ lo > hi := by omega
  simp only [sliceP, this, if_true]

theorem sliceFromP_some {b : Bytes} {lo : Nat} (h : lo ≤ b.length) : sliceFromP b lo = some (b.drop lo) := by
  have : ¬ (lo > b.length) := by omega
  simp only [sliceFromP, this, if_false]

theorem sliceFromP_none {b : Bytes} {lo : Nat} (h : b.length < lo) : sliceFromP b lo = none := by
  have : lo > b.length := h
  simp only [sliceFromP, this, if_true]

/-- the label walk of one question: `for i := 0; i < 64; { … }`; returns the new `s` -/
def labels : Nat → Bytes → Nat → Nat → R Nat
  | 0, _, _, _ => .hang
  | fuel + 1, b, s, i =>
    if ¬ (i < 64) then .ok s
    else if i ≥ b.length ∨ s ≥ b.length then .err .ueof
    else match idx b s with
      | none => .panic "dns: b[s] (label)"
      | some x => if x = 0 then .ok (s + 1) else labels fuel b (s + x + 1) x

/-- `for ; q > 0; q-- { labels; if s += 4; s >= len(b) { ueof } }` -/
def questions : Nat → Bytes → Nat → R Nat
  | 0, _, s => .ok s
  | q + 1, b, s =>
    match labels (b.length + 1) b s 0 with
    | .ok s1 => if s1 + 4 ≥ b.length then .err .ueof else questions q b (s1 + 4)
    | .err e => .err e
    | .panic m => .panic m
    | .hang => .hang

/-- `for ; c > 0; c-- { if s += 10; s+2 > len(b) { ueof }; s += int(b[s])<<8 | int(b[s+1]) + 2 }` -/
def answers : Nat → Bytes → Nat → R Nat
  | 0, _, s => .ok s
  | c + 1, b, s =>
    if s + 10 + 2 > b.length then .err .ueof
    else match idx b (s + 10), idx b (s + 10 + 1) with
      | some x, some y => answers c b (s + 10 + (((x <<< 8) ||| y) + 2))
      | _, _ => .panic "dns: b[s] (answer)"

/-- the additional records carrying the payload; `w` = bytes written so far:
```
for i := 0; t > 0; t-- {
    if s+12 > len(b) { return 0, io.ErrUnexpectedEOF }
    if b[s] != 0xC0 || … || b[s+5] != 1 { return 0, io.ErrNoProgress }
    s += 10
    i = int(b[s])<<8 | int(b[s+1])
    if s += 2; s+i > len(b) { return 0, io.ErrUnexpectedEOF }
    if _, err := w.Write(b[s : s+i]); err != nil { return 0, err }
    s += i
}
``` -/
def additional : Nat → Bytes → Nat → Bytes → R (Nat × Bytes)
  | 0, _, s, w => .ok (s, w)
  | t + 1, b, s, w =>
    if s + 12 > b.length then .err .ueof
    else match idx b s, idx b (s + 1), idx b (s + 2), idx b (s + 3), idx b (s + 4), idx b (s + 5) with
      | some c0, some c1, some c2, some c3, some c4, some c5 =>
        if c0 ≠ 0xC0 ∨ c1 ≠ 0x0C ∨ c2 ≠ 0 ∨ c3 ≠ 0xA ∨ c4 ≠ 0 ∨ c5 ≠ 1 then .err .noProgress
        else match idx b (s + 10), idx b (s + 10 + 1) with
          | some x, some y =>
            let i := (x <<< 8) ||| y
            if s + 12 + i > b.length then .err .ueof
            else match sliceP b (s + 12) (s + 12 + i) with
              | some d => additional t b (s + 12 + i) (w ++ d)
              | none => .panic "dns: b[s : s+i] (record data)"
          | _, _ => .panic "dns: b[s] (record length)"
      | _, _, _, _, _, _ => .panic "dns: b[s] (record header)"

/-- `decodePacket(w, b)`: bytes consumed and bytes written
(`if len(b) < 13 { ueof }; _ = b[12]; q = int(b[4])<<8 | int(b[5]); …`) -/
def decodePacket (b : Bytes) : R (Nat × Bytes) :=
  if b.length < 13 then .err .ueof
  else match idx b 12, idx b 4, idx b 5, idx b 6, idx b 7, idx b 10, idx b 11 with
    | some _, some q1, some q0, some c1, some c0, some t1, some t0 =>
      match questions ((q1 <<< 8) ||| q0) b 12 with
      | .ok s =>
        match answers ((c1 <<< 8) ||| c0) b s with
        | .ok s => additional ((t1 <<< 8) ||| t0) b s []
        | .err e => .err e
        | .panic m => .panic m
        | .hang => .hang
      | .err e => .err e
      | .panic m => .panic m
      | .hang => .hang
    | _, _, _, _, _, _, _ => .panic "dns: b[12]"

/-- `decodePackets`: `for i < len(b) { n, err := decodePacket(w, b[i:]); i += n }` -/
def packets : Nat → Bytes → Nat → Bytes → R (Nat × Bytes)
  | 0, _, _, _ => .hang
  | fuel + 1, b, i, w =>
    if ¬ (i < b.length) then .ok (i, w)
    else match sliceFromP b i with
      | none => .panic "dns: b[i:]"
      | some bi =>
        match decodePacket bi with
        | .ok (n, w') => packets fuel b (i + n) (w ++ w')
        | .err e => .err e
        | .panic m => .panic m
        | .hang => .hang

/-- `DNSTransform.Read(b, w)`: the bytes written to `w` -/
def read (b : Bytes) : R Bytes :=
  if b.length = 0 then .ok []
  else match packets (b.length + 1) b 0 [] with
    | .ok (n, w) => if b.length ≠ n then .err .ueof else .ok w
    | .err e => .err e
    | .panic m => .panic m
    | .hang => .hang

/-- the code before the fix (`_ = b[12]` unguarded, `s > len(b)`, `s+6 >= len(b)`): only what is
needed for the concrete counterexample -/
def decodePacketOld (b : Bytes) : R (Nat × Bytes) :=
  match idx b 12 with
  | none => .panic "dns: b[12]"
  | some _ => decodePacket b

/-! ### totality -/

def Fine {α : Type} : R α → Prop
  | .ok _ => True | .err _ => True | .panic _ => False | .hang => False

theorem labels_fine (fuel : Nat) (b : Bytes) (s i : Nat) (hf : 1 ≤ fuel) (h : b.length + 2 ≤ fuel + s) :
    Fine (labels fuel b s i) ∧ ∀ s', labels fuel b s i = .ok s' → s ≤ s' := by
  induction fuel generalizing s i with
  | zero => omega
  | succ n ih =>
    unfold labels
    by_cases h1 : ¬ (i < 64)
    · simp only [h1, if_true]
      exact ⟨trivial, fun s' e => by injection e with e; omega⟩
    · simp only [h1, if_false]
      by_cases h2 : i ≥ b.length ∨ s ≥ b.length
      · simp only [h2, if_true]
        exact ⟨trivial, fun s' e => by cases e⟩
      · simp only [h2, if_false]
        have hs : s < b.length := by omega
        obtain ⟨x, hx⟩ := idx_some hs
        rw [hx]
        simp only []
        by_cases h3 : x = 0
        · simp only [h3, if_true]
          exact ⟨trivial, fun s' e => by injection e with e; omega⟩
        · simp only [h3, if_false]
          have := ih (s + x + 1) x (by omega) (by omega)
          exact ⟨this.1, fun s' e => by have := this.2 s' e; omega⟩

theorem questions_fine (q : Nat) (b : Bytes) (s : Nat) (hs : 1 ≤ s) :
    Fine (questions q b s) ∧ ∀ s', questions q b s = .ok s' → s ≤ s' := by
  induction q generalizing s with
  | zero => exact ⟨trivial, fun s' e => by simp only [questions] at e; injection e with e; omega⟩
  | succ n ih =>
    unfold questions
    have hl := labels_fine (b.length + 1) b s 0 (by omega) (by omega)
    cases hr : labels (b.length + 1) b s 0 with
    | ok s1 =>
      have hle := hl.2 s1 hr
      simp only []
      by_cases h1 : s1 + 4 ≥ b.length
      · simp only [h1, if_true]; exact ⟨trivial, fun s' e => by cases e⟩
      · simp only [h1, if_false]
        have := ih (s1 + 4) (by omega)
        exact ⟨this.1, fun s' e => by have := this.2 s' e; omega⟩
    | err e => exact ⟨trivial, fun s' e => by cases e⟩
    | panic m => rw [hr] at hl; exact absurd hl.1 (by simp [Fine])
    | hang => rw [hr] at hl; exact absurd hl.1 (by simp [Fine])

theorem answers_fine (c : Nat) (b : Bytes) (s : Nat) :
    Fine (answers c b s) ∧ ∀ s', answers c b s = .ok s' → s ≤ s' := by
  induction c generalizing s with
  | zero => exact ⟨trivial, fun s' e => by simp only [answers] at e; injection e with e; omega⟩
  | succ n ih =>
    unfold answers
    by_cases h1 : s + 10 + 2 > b.length
    · simp only [h1, if_true]; exact ⟨trivial, fun s' e => by cases e⟩
    · simp only [h1, if_false]
      obtain ⟨x, hx⟩ := idx_some (show s + 10 < b.length by omega)
      obtain ⟨y, hy⟩ := idx_some (show s + 10 + 1 < b.length by omega)
      rw [hx, hy]
      simp only []
      have := ih (s + 10 + (((x <<< 8) ||| y) + 2))
      exact ⟨this.1, fun s' e => by have := this.2 s' e; omega⟩

theorem additional_fine (t : Nat) (b : Bytes) (s : Nat) (w : Bytes) :
    Fine (additional t b s w) ∧ ∀ r, additional t b s w = .ok r → s ≤ r.1 := by
  induction t generalizing s w with
  | zero => exact ⟨trivial, fun r e => by simp only [additional] at e; injection e with e; subst e; simp⟩
  | succ n ih =>
    unfold additional
    by_cases h1 : s + 12 > b.length
    · simp only [h1, if_true]; exact ⟨trivial, fun r e => by cases e⟩
    · simp only [h1, if_false]
      obtain ⟨c0, h0⟩ := idx_some (show s < b.length by omega)
      obtain ⟨c1, h1'⟩ := idx_some (show s + 1 < b.length by omega)
      obtain ⟨c2, h2⟩ := idx_some (show s + 2 < b.length by omega)
      obtain ⟨c3, h3⟩ := idx_some (show s + 3 < b.length by omega)
      obtain ⟨c4, h4⟩ := idx_some (show s + 4 < b.length by omega)
      obtain ⟨c5, h5⟩ := idx_some (show s + 5 < b.length by omega)
      obtain ⟨x, hx⟩ := idx_some (show s + 10 < b.length by omega)
      obtain ⟨y, hy⟩ := idx_some (show s + 10 + 1 < b.length by omega)
      rw [h0, h1', h2, h3, h4, h5]
      simp only []
      split
      · exact ⟨trivial, fun r e => by cases e⟩
      · rw [hx, hy]
        simp only []
        split
        · exact ⟨trivial, fun r e => by cases e⟩
        · -- the guard `s+i > len(b)` failed: that is the upper bound of `b[s : s+i]`
          rename_i hg
          rw [sliceP_some (show s + 12 ≤ s + 12 + ((x <<< 8) ||| y) by omega) (by omega)]
          simp only []
          have := ih (s + 12 + ((x <<< 8) ||| y))
            (w ++ (b.drop (s + 12)).take (s + 12 + ((x <<< 8) ||| y) - (s + 12)))
          exact ⟨this.1, fun r e => by have := this.2 r e; omega⟩

theorem decodePacket_fine (b : Bytes) :
    Fine (decodePacket b) ∧ ∀ r, decodePacket b = .ok r → 12 ≤ r.1 := by
  unfold decodePacket
  by_cases h1 : b.length < 13
  · simp only [h1, if_true]; exact ⟨trivial, fun r e => by cases e⟩
  · simp only [h1, if_false]
    obtain ⟨q1, e1⟩ := idx_some (show 4 < b.length by omega)
    obtain ⟨q0, e2⟩ := idx_some (show 5 < b.length by omega)
    obtain ⟨c1, e3⟩ := idx_some (show 6 < b.length by omega)
    obtain ⟨c0, e4⟩ := idx_some (show 7 < b.length by omega)
    obtain ⟨t1, e5⟩ := idx_some (show 10 < b.length by omega)
    obtain ⟨t0, e6⟩ := idx_some (show 11 < b.length by omega)
    obtain ⟨_, e0⟩ := idx_some (show 12 < b.length by omega)
    rw [e0, e1, e2, e3, e4, e5, e6]
    simp only []
    have hq := questions_fine ((q1 <<< 8) ||| q0) b 12 (by omega)
    cases hr : questions ((q1 <<< 8) ||| q0) b 12 with
    | ok s =>
      have hs := hq.2 s hr
      simp only []
      have ha := answers_fine ((c1 <<< 8) ||| c0) b s
      cases hr2 : answers ((c1 <<< 8) ||| c0) b s with
      | ok s2 =>
        have hs2 := ha.2 s2 hr2
        simp only []
        have hd := additional_fine ((t1 <<< 8) ||| t0) b s2 []
        exact ⟨hd.1, fun r e => by have := hd.2 r e; omega⟩
      | err e => exact ⟨trivial, fun r e => by cases e⟩
      | panic m => rw [hr2] at ha; exact absurd ha.1 (by simp [Fine])
      | hang => rw [hr2] at ha; exact absurd ha.1 (by simp [Fine])
    | err e => exact ⟨trivial, fun r e => by cases e⟩
    | panic m => rw [hr] at hq; exact absurd hq.1 (by simp [Fine])
    | hang => rw [hr] at hq; exact absurd hq.1 (by simp [Fine])

theorem packets_fine (fuel : Nat) (b : Bytes) (i : Nat) (w : Bytes) (hf : 1 ≤ fuel)
    (h : b.length + 1 ≤ fuel + i) : Fine (packets fuel b i w) := by
  induction fuel generalizing i w with
  | zero => omega
  | succ n ih =>
    unfold packets
    by_cases h1 : ¬ (i < b.length)
    · simp only [h1, if_true]; trivial
    · simp only [h1, if_false]
      -- the loop test `i < len(b)` is the bound of `b[i:]`
      rw [sliceFromP_some (show i ≤ b.length by omega)]
      simp only []
      have hd := decodePacket_fine (b.drop i)
      cases hr : decodePacket (b.drop i) with
      | ok r =>
        have := hd.2 r hr
        obtain ⟨k, w'⟩ := r
        simp only [] at this ⊢
        exact ih (i + k) (w ++ w') (by omega) (by omega)
      | err e => trivial
      | panic m => rw [hr] at hd; exact absurd hd.1 (by simp [Fine])
      | hang => rw [hr] at hd; exact absurd hd.1 (by simp [Fine])

/-- `DNSTransform.Read` never panics and never loops, whatever the message -/
theorem read_fine (b : Bytes) : Fine (read b) := by
  unfold read
  by_cases h : b.length = 0
  · simp only [h, if_true]; trivial
  · simp only [h, if_false]
    have hp := packets_fine (b.length + 1) b 0 [] (by omega) (by omega)
    cases hr : packets (b.length + 1) b 0 [] with
    | ok r =>
      obtain ⟨n, w⟩ := r
      simp only []
      split <;> trivial
    | err e => trivial
    | panic m => rw [hr] at hp; exact hp
    | hang => rw [hr] at hp; exact hp

/-! ### bytes written -/

theorem additional_len (t : Nat) (b : Bytes) (s : Nat) (w : Bytes) :
    ∀ r, additional t b s w = .ok r → r.2.length + s ≤ w.length + r.1 := by
  induction t generalizing s w with
  | zero => intro r e; simp only [additional] at e; injection e with e; subst e; simp
  | succ n ih =>
    intro r
    unfold additional
    by_cases h1 : s + 12 > b.length
    · simp only [h1, if_true]; intro e; cases e
    · simp only [h1, if_false]
      obtain ⟨c0, h0⟩ := idx_some (show s < b.length by omega)
      obtain ⟨c1, h1'⟩ := idx_some (show s + 1 < b.length by omega)
      obtain ⟨c2, h2⟩ := idx_some (show s + 2 < b.length by omega)
      obtain ⟨c3, h3⟩ := idx_some (show s + 3 < b.length by omega)
      obtain ⟨c4, h4⟩ := idx_some (show s + 4 < b.length by omega)
      obtain ⟨c5, h5⟩ := idx_some (show s + 5 < b.length by omega)
      obtain ⟨x, hx⟩ := idx_some (show s + 10 < b.length by omega)
      obtain ⟨y, hy⟩ := idx_some (show s + 10 + 1 < b.length by omega)
      rw [h0, h1', h2, h3, h4, h5]
      simp only []
      split
      · intro e; cases e
      · rw [hx, hy]
        simp only []
        split
        · intro e; cases e
        · rename_i hg
          rw [sliceP_some (show s + 12 ≤ s + 12 + ((x <<< 8) ||| y) by omega) (by omega)]
          simp only []
          intro e
          have := ih (s + 12 + ((x <<< 8) ||| y))
            (w ++ (b.drop (s + 12)).take (s + 12 + ((x <<< 8) ||| y) - (s + 12))) r e
          have hl : ((b.drop (s + 12)).take (s + 12 + ((x <<< 8) ||| y) - (s + 12))).length
              ≤ s + 12 + ((x <<< 8) ||| y) - (s + 12) := List.length_take_le _ _
          simp only [List.length_append] at this
          omega

theorem decodePacket_len (b : Bytes) : ∀ r, decodePacket b = .ok r → r.2.length ≤ r.1 := by
  intro r
  unfold decodePacket
  by_cases h1 : b.length < 13
  · simp only [h1, if_true]; intro e; cases e
  · simp only [h1, if_false]
    obtain ⟨q1, e1⟩ := idx_some (show 4 < b.length by omega)
    obtain ⟨q0, e2⟩ := idx_some (show 5 < b.length by omega)
    obtain ⟨c1, e3⟩ := idx_some (show 6 < b.length by omega)
    obtain ⟨c0, e4⟩ := idx_some (show 7 < b.length by omega)
    obtain ⟨t1, e5⟩ := idx_some (show 10 < b.length by omega)
    obtain ⟨t0, e6⟩ := idx_some (show 11 < b.length by omega)
    obtain ⟨_, e0⟩ := idx_some (show 12 < b.length by omega)
    rw [e0, e1, e2, e3, e4, e5, e6]
    simp only []
    cases hr : questions ((q1 <<< 8) ||| q0) b 12 with
    | ok s =>
      simp only []
      cases hr2 : answers ((c1 <<< 8) ||| c0) b s with
      | ok s2 =>
        simp only []
        intro e
        have := additional_len _ b s2 [] r e
        simp only [List.length_nil] at this
        omega
      | err e => intro e; cases e
      | panic m => intro e; cases e
      | hang => intro e; cases e
    | err e => intro e; cases e
    | panic m => intro e; cases e
    | hang => intro e; cases e

theorem packets_len (fuel : Nat) (b : Bytes) (i : Nat) (w : Bytes) (hw : w.length ≤ i) :
    ∀ r, packets fuel b i w = .ok r → r.2.length ≤ r.1 := by
  induction fuel generalizing i w with
  | zero => intro r e; simp only [packets] at e; cases e
  | succ n ih =>
    intro r
    unfold packets
    by_cases h1 : ¬ (i < b.length)
    · simp only [h1, if_true]; intro e; injection e with e; subst e; exact hw
    · simp only [h1, if_false]
      rw [sliceFromP_some (show i ≤ b.length by omega)]
      simp only []
      cases hr : decodePacket (b.drop i) with
      | ok p =>
        have := decodePacket_len (b.drop i) p hr
        obtain ⟨k, w'⟩ := p
        simp only [] at this ⊢
        exact ih (i + k) (w ++ w') (by simp only [List.length_append]; omega) r
      | err e => intro e; cases e
      | panic m => intro e; cases e
      | hang => intro e; cases e

/-- the bytes `DNSTransform.Read` writes are never more than the message carried -/
theorem read_len (b : Bytes) : ∀ w, read b = .ok w → w.length ≤ b.length := by
  intro w
  unfold read
  by_cases h : b.length = 0
  · simp only [h, if_true]; intro e; injection e with e; subst e; simp
  · simp only [h, if_false]
    cases hr : packets (b.length + 1) b 0 [] with
    | ok r =>
      have := packets_len (b.length + 1) b 0 [] (by simp) r hr
      obtain ⟨n, w'⟩ := r
      simp only [] at this ⊢
      split
      · intro e; cases e
      · rename_i hn
        intro e; injection e with e; subst e
        have : b.length = n := by
          by_cases hh : b.length = n
          · exact hh
          · exact absurd hh hn
        omega
    | err e => intro e; cases e
    | panic m => intro e; cases e
    | hang => intro e; cases e

end XMT.Decode.Dns
