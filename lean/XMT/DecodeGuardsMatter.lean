/-
  XMT.DecodeGuardsMatter — the length guards of the decoders are what keeps them from panicking.

  The decoders of XMT.Decode / XMT.DecodeDns with a guard DELETED (everything else word for word the
  same, in particular the same panicking index / reslice primitives) panic on concrete inputs.  So the
  no-panic theorems of XMT/Props/C04.lean are not true "by construction" of the model: they hold for
  the guarded code and fail for the unguarded one.

  (Before the index / reslice expressions were made partial, `bytesBad` below satisfied
  `TotalAndBounded bytesBad 1 0` by the very lemmas that proved `bytes_total_alloc`.)
-/
import XMT.DecodeSlice
import XMT.DecodeDns

namespace XMT.Decode.GuardsMatter
open XMT XMT.Decode

/-! ### chunk_reader.go without `checkBounds` -/

/-- `Uint8()` without `if c.checkBounds(1) { return 0, io.EOF }` -/
def u8rBad : D UInt8 := do
  let v ← idxP 0 "Uint8: c.buf[c.rpos]"
  advanceP 1 "Uint8: c.rpos++"
  pure v

/-- `Uint16()` without `if c.checkBounds(2) { return 0, io.EOF }` -/
def u16rBad : D Nat := do
  let _ ← idxP 1 "Uint16: _ = c.buf[c.rpos+1]"
  let b1 ← idxP 1 "Uint16: c.buf[c.rpos+1]"
  let b0 ← idxP 0 "Uint16: c.buf[c.rpos]"
  advanceP 2 "Uint16: c.rpos += 2"
  pure (ofBe16 b0 b1)

/-- an empty Chunk / a Chunk with one byte left -/
theorem u8rBad_panics : (run u8rBad []).isPanic = true := by decide
theorem u16rBad_panics : (run u16rBad [1]).isPanic = true := by decide
/-- the guarded reads on the same inputs -/
example : (run u8r []).isPanic = false := by decide
example : (run u16r [1]).isPanic = false := by decide

/-! ### `Bytes()` without its length guards -/

/-- the tail of `Bytes()` without `if n := c.Size(); n < c.rpos+int(l) { … return o, io.EOF }` -/
def bodyCBad (copy : Bool) (l : Nat) : D Bytes := do
  let o ← sliceP 0 l "Bytes: c.buf[c.rpos : uint64(c.rpos)+l]"
  advanceP l "Bytes: c.rpos += int(l)"
  charge (if copy then l else 0)
  pure o

/-- `Bytes()` with only the short-body guard deleted (`l == 0` and `l > MaxSlice` still tested) -/
def bytesNoShortGuard : D Bytes := do
  match ← lenHdr with
  | none => pure []
  | some l =>
    if l = 0 then fail .ueof
    else if l > Facts.maxSlice then fail .tooLarge
    else bodyCBad false l

/-- `Bytes()` with every length guard deleted -/
def bytesBad : D Bytes := do
  match ← lenHdr with
  | none => pure []
  | some l => bodyCBad false l

/-- `StringVal()` over it -/
def strBad : D Bytes := do
  match ← lenHdr with
  | none => pure []
  | some l => bodyCBad true l

/-- `result.Pwd` over it -/
def rPwdBad (fl : Nat) : D Unit := do guardResult fl; let _ ← strBad; pure ()

/-- the reviewer's input: tag 7, length 2^64-1, one body byte -/
theorem bytesBad_panics :
    (run bytesBad [7, 0xFF, 0xFF, 0xFF, 0xFF, 0xFF, 0xFF, 0xFF, 0xFF, 1]).isPanic = true := by decide

/-- three bytes: "5 bytes follow", one does -/
theorem bytesBad_panics_short : (run bytesBad [1, 5, 65]).isPanic = true := by decide
theorem bytesNoShortGuard_panics : (run bytesNoShortGuard [1, 5, 65]).isPanic = true := by decide
theorem strBad_panics : (run strBad [1, 5, 65]).isPanic = true := by decide
theorem rPwdBad_panics : (run (rPwdBad 0) [1, 5, 65]).isPanic = true := by decide

/-- the guarded decoders on the same inputs: an error, no panic -/
example : (run bytes [7, 0xFF, 0xFF, 0xFF, 0xFF, 0xFF, 0xFF, 0xFF, 0xFF, 1]).isPanic = false := by decide
example : (run bytes [1, 5, 65]).isPanic = false := by decide
example : (run str [1, 5, 65]).isPanic = false := by decide
example : (run (rPwd 0) [1, 5, 65]).isPanic = false := by decide

/-- the general fact behind the witnesses: without the guard the reslice panics on EVERY state whose
unread part is shorter than the announced length -/
theorem bodyCBad_panics (copy : Bool) (l : Nat) (s : St) (h : s.rest.length < l) :
    (bodyCBad copy l s).isPanic = true := by
  have hp := sliceP_panics (lo := 0) "Bytes: c.buf[c.rpos : uint64(c.rpos)+l]" (s := s) (Or.inl h)
  unfold bodyCBad
  rw [bindA]
  unfold D.bind
  cases hs : sliceP 0 l "Bytes: c.buf[c.rpos : uint64(c.rpos)+l]" s with
  | panic m => rfl
  | ok a s' => rw [hs] at hp; cases hp
  | err e s' => rw [hs] at hp; cases hp
  | hang => rw [hs] at hp; cases hp

/-- in range, guarded and unguarded body agree (the guard is the only difference) -/
theorem bodyCBad_eq_of_le (copy : Bool) (l : Nat) (s : St) (h : l ≤ s.rest.length) :
    bodyCBad copy l s = bodyC copy l s := by
  have hl : ¬ (s.rest.length < l) := by omega
  unfold bodyCBad bodyC
  simp only [bindA, D.bind, remaining, hl, if_false]

/-! ### the tag loop of `Packet.UnmarshalStream` without `i < t` -/

/-- `for i := uint16(0); i < PacketMaxTags; i++ { r.ReadUint32(&p.Tags[i]); … }` (the test `i < t`,
`t = len(p.Tags)`, deleted) -/
def readTagsBad (t : Nat) : D Unit :=
  if t = 0 then pure ()
  else do
    mk t 4 "Packet.Tags"
    readTagsN t 0 Facts.packetMaxTags

/-- one tag announced, two on the wire -/
theorem readTagsBad_panics : (run (readTagsBad 1) [0, 0, 0, 1, 0, 0, 0, 2]).isPanic = true := by
  decide +kernel
example : (run (readTags 1) [0, 0, 0, 1, 0, 0, 0, 2]).isPanic = false := by decide +kernel

/-! ### the DNS reader without the record-length guard -/

namespace Dns
open XMT.Decode.Dns

/-- `additional` without `if s += 2; s+i > len(b) { return 0, io.ErrUnexpectedEOF }` -/
def additionalBad : Nat → Bytes → Nat → Bytes → R (Nat × Bytes)
  | 0, _, s, w => .ok (s, w)
  | t + 1, b, s, w =>
    if s + 12 > b.length then .err .ueof
    else match idx b s, idx b (s + 1), idx b (s + 2), idx b (s + 3), idx b (s + 4), idx b (s + 5) with
      | some c0, some c1, some c2, some c3, some c4, some c5 =>
        if c0 ≠ 0xC0 ∨ c1 ≠ 0x0C ∨ c2 ≠ 0 ∨ c3 ≠ 0xA ∨ c4 ≠ 0 ∨ c5 ≠ 1 then .err .noProgress
        else match idx b (s + 10), idx b (s + 10 + 1) with
          | some x, some y =>
            let i := (x <<< 8) ||| y
            match XMT.Decode.Dns.sliceP b (s + 12) (s + 12 + i) with
            | some d => additionalBad t b (s + 12 + i) (w ++ d)
            | none => .panic "dns: b[s : s+i] (record data)"
          | _, _ => .panic "dns: b[s] (record length)"
      | _, _, _, _, _, _ => .panic "dns: b[s] (record header)"

/-- `answers` without `if s += 10; s+2 > len(b) { return 0, io.ErrUnexpectedEOF }` -/
def answersBad : Nat → Bytes → Nat → R Nat
  | 0, _, s => .ok s
  | c + 1, b, s =>
    match idx b (s + 10), idx b (s + 10 + 1) with
    | some x, some y => answersBad c b (s + 10 + (((x <<< 8) ||| y) + 2))
    | _, _ => .panic "dns: b[s] (answer)"

/-- `decodePacket` over the two -/
def decodePacketBad (b : Bytes) : R (Nat × Bytes) :=
  if b.length < 13 then .err .ueof
  else match idx b 12, idx b 4, idx b 5, idx b 6, idx b 7, idx b 10, idx b 11 with
    | some _, some q1, some q0, some c1, some c0, some t1, some t0 =>
      match questions ((q1 <<< 8) ||| q0) b 12 with
      | .ok s =>
        match answersBad ((c1 <<< 8) ||| c0) b s with
        | .ok s => additionalBad ((t1 <<< 8) ||| t0) b s []
        | .err e => .err e
        | .panic m => .panic m
        | .hang => .hang
      | .err e => .err e
      | .panic m => .panic m
      | .hang => .hang
    | _, _, _, _, _, _, _ => .panic "dns: b[12]"

def isPanic {α : Type} : R α → Bool | .panic _ => true | _ => false

/-- one question, one data record that announces 3 bytes and carries 2 -/
def shortRecord : Bytes :=
  [0, 0, 1, 0, 0, 1, 0, 0, 0, 0, 0, 1, 1, 97, 0, 0, 1, 0, 1,
   0xC0, 0x0C, 0, 0xA, 0, 1, 0, 0, 0, 0, 0, 3, 7, 9]

/-- one question, one answer record announced, four bytes after the question -/
def shortAnswer : Bytes :=
  [0, 0, 1, 0, 0, 1, 0, 1, 0, 0, 0, 0, 1, 97, 0, 0, 1, 0, 1, 1, 2, 3, 4]

theorem additionalBad_panics : isPanic (additionalBad 1 shortRecord 19 []) = true := by decide
theorem decodePacketBad_panics : isPanic (decodePacketBad shortRecord) = true := by decide
theorem answersBad_panics : isPanic (decodePacketBad shortAnswer) = true := by decide

/-- the guarded reader on the same messages: `io.ErrUnexpectedEOF` -/
example : isPanic (additional 1 shortRecord 19 []) = false := by decide
example : isPanic (decodePacket shortRecord) = false := by decide
example : isPanic (decodePacket shortAnswer) = false := by decide
example : isPanic (read shortRecord) = false := by decide

end Dns

end XMT.Decode.GuardsMatter
