/-
  XMT.DecodeLemmas — the "safe" predicate for decoders of XMT.Decode and its closure rules.

  `Safe K M B E d`: on every state whose unread part is at most `MaxSlice` bytes (a Chunk cannot be
  larger) `d` neither panics nor hangs, never un-reads, and the potential `alloc + K·|rest|`
  grows by at most `M·|rest| + B` (plus `E` when `d` ends with an error).  Hence, for a run from
  the empty state, `alloc ≤ (K+M)·|input| + B + E`.

  The primitive reads (`u8r` … `u64r`, `bodyC`, `readFullC`) are built from index / reslice steps that
  panic out of range; their `Safe` lemmas go through the equations of XMT/DecodeSlice.lean
  (`u8r_eq`, `bodyC_eq`, `readFullC_eq`, …), each of which is proved by splitting on the Go guard and
  discharging the bound of the index / reslice from it.  There is no `Safe` lemma for `idxP`,
  `sliceP`, `sliceFromP`, `advanceP` on their own — they are not safe on their own.
-/
import XMT.DecodeSlice

namespace XMT.Decode
open XMT

def Bound (K M B : Nat) (s s' : St) : Prop :=
  s'.rest.length ≤ s.rest.length ∧
  s'.alloc + K * s'.rest.length ≤ s.alloc + K * s.rest.length + M * s.rest.length + B

def Safe {α : Type} (K M B E : Nat) (d : D α) : Prop :=
  ∀ s : St, s.rest.length ≤ Facts.maxSlice →
    match d s with
    | .ok _ s' => Bound K M B s s'
    | .err _ s' => Bound K M (B + E) s s'
    | .panic _ => False
    | .hang => False

variable {α β : Type} {K M B E : Nat}

theorem Bound.refl (s : St) : Bound K 0 0 s s := by
  simp [Bound]

theorem safe_pure (a : α) : Safe K 0 0 0 (pure a : D α) := by
  intro s _; simp [pure, D.pure, Bound]

theorem safe_fail (e : Err) : Safe K 0 0 0 (fail e : D α) := by
  intro s _; simp [fail, Bound]

theorem safe_mono {d : D α} {M' B' E' : Nat} (h : Safe K M B E d) (hM : M ≤ M') (hB : B ≤ B')
    (hE : E ≤ E') : Safe K M' B' E' d := by
  intro s hs
  have := h s hs
  have hm := Nat.mul_le_mul_right s.rest.length hM
  cases hd : d s with
  | ok a s' => rw [hd] at this; simp only [Bound] at this ⊢; omega
  | err e s' => rw [hd] at this; simp only [Bound] at this ⊢; omega
  | panic m => rw [hd] at this; exact this
  | hang => rw [hd] at this; exact this

/-- sequencing with a postcondition `P` on the value of the first decoder -/
theorem safe_bind_post {d : D α} {f : α → D β} {M1 B1 E1 M2 B2 E2 : Nat} (P : α → Prop)
    (h1 : Safe K M1 B1 E1 d) (hp : ∀ s a s', d s = .ok a s' → P a)
    (h2 : ∀ a, P a → Safe K M2 B2 E2 (f a)) :
    Safe K (M1 + M2) (B1 + B2) (max E1 E2) (d >>= f) := by
  intro s hs
  have h := h1 s hs
  show match D.bind d f s with
    | .ok _ s' => Bound K (M1 + M2) (B1 + B2) s s'
    | .err _ s' => Bound K (M1 + M2) (B1 + B2 + max E1 E2) s s'
    | .panic _ => False
    | .hang => False
  unfold D.bind
  cases hd : d s with
  | ok a s1 =>
    rw [hd] at h
    simp only [Bound] at h
    have h' := h2 a (hp s a s1 hd) s1 (by omega)
    have hm := Nat.mul_le_mul_left M2 h.1
    have e1 : (M1 + M2) * s.rest.length = M1 * s.rest.length + M2 * s.rest.length := Nat.add_mul ..
    simp only []
    cases hf : f a s1 with
    | ok b s2 => rw [hf] at h'; simp only [Bound] at h' ⊢; omega
    | err e s2 => rw [hf] at h'; simp only [Bound] at h' ⊢; omega
    | panic m => rw [hf] at h'; exact h'
    | hang => rw [hf] at h'; exact h'
  | err e s1 =>
    rw [hd] at h
    have e1 : (M1 + M2) * s.rest.length = M1 * s.rest.length + M2 * s.rest.length := Nat.add_mul ..
    simp only [Bound] at h ⊢; omega
  | panic m => rw [hd] at h; exact h
  | hang => rw [hd] at h; exact h

theorem safe_bind {d : D α} {f : α → D β} {M1 B1 E1 M2 B2 E2 : Nat}
    (h1 : Safe K M1 B1 E1 d) (h2 : ∀ a, Safe K M2 B2 E2 (f a)) :
    Safe K (M1 + M2) (B1 + B2) (max E1 E2) (d >>= f) :=
  safe_bind_post (fun _ => True) h1 (fun _ _ _ _ => trivial) (fun a _ => h2 a)

/-- a free step followed by anything -/
theorem safe_bind0 {d : D α} {f : α → D β} (h1 : Safe K 0 0 0 d) (h2 : ∀ a, Safe K M B E (f a)) :
    Safe K M B E (d >>= f) := by
  have := safe_bind h1 h2
  simpa using this

theorem safe_bind0_post {d : D α} {f : α → D β} (P : α → Prop) (h1 : Safe K 0 0 0 d)
    (hp : ∀ s a s', d s = .ok a s' → P a) (h2 : ∀ a, P a → Safe K M B E (f a)) :
    Safe K M B E (d >>= f) := by
  have := safe_bind_post P h1 hp h2
  simpa using this

/-- anything followed by a free step -/
theorem safe_bind_0 {d : D α} {f : α → D β} (h1 : Safe K M B E d) (h2 : ∀ a, Safe K 0 0 0 (f a)) :
    Safe K M B E (d >>= f) := by
  have := safe_bind h1 h2
  simpa using this

theorem safe_map_unit {d : D α} (h : Safe K M B E d) : Safe K M B E (do let _ ← d; pure ()) :=
  safe_bind_0 h (fun _ => safe_pure ())

/-! ### primitives -/

theorem safe_emit (t : Tok) : Safe K 0 0 0 (emit t) := by
  intro s _; exact ⟨Nat.le_refl _, by simp⟩

theorem safe_charge (n : Nat) : Safe K 0 n 0 (charge n) := by
  intro s _; simp [charge, Bound]; omega

theorem Bound.of_shrink {s s' : St} {B : Nat} (ha : s'.alloc = s.alloc)
    (hr : s'.rest.length ≤ s.rest.length) : Bound K 0 B s s' := by
  refine ⟨hr, ?_⟩
  have := Nat.mul_le_mul_left K hr
  omega

theorem safe_u8r : Safe K 0 0 0 u8r := by
  rw [u8r_eq]
  intro ⟨rest, al, out⟩ _
  match rest with
  | [] => exact Bound.of_shrink rfl (Nat.le_refl _)
  | _ :: r => exact Bound.of_shrink rfl (by simp only [List.length_cons]; omega)

theorem safe_u16r : Safe K 0 0 0 u16r := by
  rw [u16r_eq]
  intro ⟨rest, al, out⟩ _
  match rest with
  | [] => exact Bound.of_shrink rfl (Nat.le_refl _)
  | [_] => exact Bound.of_shrink rfl (Nat.le_refl _)
  | _ :: _ :: r => exact Bound.of_shrink rfl (by simp only [List.length_cons]; omega)

theorem safe_u32r : Safe K 0 0 0 u32r := by
  rw [u32r_eq]
  intro ⟨rest, al, out⟩ _
  match rest with
  | [] => exact Bound.of_shrink rfl (Nat.le_refl _)
  | [_] => exact Bound.of_shrink rfl (Nat.le_refl _)
  | [_, _] => exact Bound.of_shrink rfl (Nat.le_refl _)
  | [_, _, _] => exact Bound.of_shrink rfl (Nat.le_refl _)
  | _ :: _ :: _ :: _ :: r => exact Bound.of_shrink rfl (by simp only [List.length_cons]; omega)

theorem safe_u64r : Safe K 0 0 0 u64r := by
  rw [u64r_eq]
  intro ⟨rest, al, out⟩ _
  match rest with
  | [] => exact Bound.of_shrink rfl (Nat.le_refl _)
  | [_] => exact Bound.of_shrink rfl (Nat.le_refl _)
  | [_, _] => exact Bound.of_shrink rfl (Nat.le_refl _)
  | [_, _, _] => exact Bound.of_shrink rfl (Nat.le_refl _)
  | [_, _, _, _] => exact Bound.of_shrink rfl (Nat.le_refl _)
  | [_, _, _, _, _] => exact Bound.of_shrink rfl (Nat.le_refl _)
  | [_, _, _, _, _, _] => exact Bound.of_shrink rfl (Nat.le_refl _)
  | [_, _, _, _, _, _, _] => exact Bound.of_shrink rfl (Nat.le_refl _)
  | _ :: _ :: _ :: _ :: _ :: _ :: _ :: _ :: r => exact Bound.of_shrink rfl (by simp only [List.length_cons]; omega)

theorem u16r_lt (s : St) (a : Nat) (s' : St) (h : u16r s = .ok a s') : a < 2 ^ 16 := by
  rw [u16r_eq] at h
  unfold Spec.u16r at h
  split at h
  · injection h with h1 _; subst h1; exact ofBe16_lt _ _
  · cases h

theorem u32r_lt (s : St) (a : Nat) (s' : St) (h : u32r s = .ok a s') : a < 2 ^ 32 := by
  rw [u32r_eq] at h
  unfold Spec.u32r at h
  split at h
  · injection h with h1 _; subst h1; exact ofBe32_lt _ _ _ _
  · cases h

theorem safe_lenHdrK (t : UInt8) : Safe K 0 0 0 (lenHdrK t) := by
  unfold lenHdrK
  split
  · exact safe_pure _
  · split
    · exact safe_bind0 safe_u8r (fun _ => safe_pure _)
    · split
      · exact safe_bind0 safe_u16r (fun _ => safe_pure _)
      · split
        · exact safe_bind0 safe_u32r (fun _ => safe_pure _)
        · split
          · exact safe_bind0 safe_u64r (fun _ => safe_pure _)
          · exact safe_fail _

theorem safe_lenHdr : Safe K 0 0 0 lenHdr :=
  safe_bind0 safe_u8r safe_lenHdrK

theorem safe_bodyC (hK : 1 ≤ K) (c : Bool) (l : Nat) : Safe K 0 0 0 (bodyC c l) := by
  rw [bodyC_eq]
  intro s _
  by_cases hl : s.rest.length < l
  · simp only [Spec.bodyC, hl, if_true]
    exact Bound.of_shrink rfl (by simp)
  · simp only [Spec.bodyC, hl, if_false]
    simp only [Bound, List.length_drop]
    have e : K * s.rest.length = K * (s.rest.length - l) + K * l := by
      rw [← Nat.mul_add]; congr 1; omega
    have : l ≤ K * l := Nat.le_mul_of_pos_left l hK
    split <;> omega

theorem safe_bytesRawK (hK : 1 ≤ K) (c : Bool) (o : Option Nat) : Safe K 0 0 0 (bytesRawK c o) := by
  cases o with
  | none => exact safe_pure _
  | some l =>
    show Safe K 0 0 0 (if l = 0 then fail .ueof else if l > Facts.maxSlice then fail .tooLarge
      else bodyC c l)
    split
    · exact safe_fail _
    · split
      · exact safe_fail _
      · exact safe_bodyC hK c l

theorem safe_bytesRaw (hK : 1 ≤ K) (c : Bool) : Safe K 0 0 0 (bytesRaw c) :=
  safe_bind0 safe_lenHdr (safe_bytesRawK hK c)

theorem bind_apply (d : D α) (f : α → D β) (s : St) : (d >>= f) s = D.bind d f s := rfl

theorem bind_ok {d : D α} {f : α → D β} {s s2 : St} {b : β} (h : (d >>= f) s = .ok b s2) :
    ∃ a s1, d s = .ok a s1 ∧ f a s1 = .ok b s2 := by
  change D.bind d f s = _ at h
  unfold D.bind at h
  cases hd : d s with
  | ok a s1 => rw [hd] at h; exact ⟨a, s1, rfl, h⟩
  | err e s1 => rw [hd] at h; cases h
  | panic m => rw [hd] at h; cases h
  | hang => rw [hd] at h; cases h

theorem safe_le {d : D α} (h : Safe K M B E d) {s s' : St} {a : α} (hs : s.rest.length ≤ Facts.maxSlice)
    (hd : d s = .ok a s') : s'.rest.length ≤ s.rest.length := by
  have := h s hs
  rw [hd] at this
  exact this.1

theorem u8r_consumes {s s' : St} {t : UInt8} (h : u8r s = .ok t s') :
    s'.rest.length + 1 = s.rest.length := by
  rw [u8r_eq] at h
  unfold Spec.u8r at h
  cases hr : s.rest with
  | nil => rw [hr] at h; cases h
  | cons b r =>
    rw [hr] at h
    injection h with _ h2
    subst h2; simp

/-- a successful `Bytes()` / `StringVal()` consumes at least the tag byte -/
theorem bytesRaw_consumes (c : Bool) {s s' : St} {b : Bytes} (hs : s.rest.length ≤ Facts.maxSlice)
    (h : bytesRaw c s = .ok b s') : s'.rest.length < s.rest.length := by
  obtain ⟨o, s1, h1, h2⟩ := bind_ok h
  obtain ⟨t, s0, h3, h4⟩ := bind_ok h1
  have e0 := u8r_consumes h3
  have l1 := safe_le (K := 1) (safe_lenHdrK t) (by omega) h4
  have l2 := safe_le (K := 1) (safe_bytesRawK (Nat.le_refl 1) c o) (by omega) h2
  omega

theorem str_consumes (s : St) (v : Bytes) (s1 : St) (hs : s.rest.length ≤ Facts.maxSlice)
    (h : str s = .ok v s1) : s1.rest.length < s.rest.length := by
  obtain ⟨b, s', h1, h2⟩ := bind_ok h
  have := bytesRaw_consumes true hs h1
  obtain ⟨_, s'', h3, h4⟩ := bind_ok h2
  simp only [emit] at h3
  injection h3 with _ e3
  simp only [pure, D.pure] at h4
  injection h4 with _ e4
  subst e3 e4
  exact this

theorem safe_u8 : Safe K 0 0 0 u8 :=
  safe_bind0 safe_u8r (fun _ => safe_bind0 (safe_emit _) (fun _ => safe_pure _))
theorem safe_u16 : Safe K 0 0 0 u16 :=
  safe_bind0 safe_u16r (fun _ => safe_bind0 (safe_emit _) (fun _ => safe_pure _))
theorem safe_u32 : Safe K 0 0 0 u32 :=
  safe_bind0 safe_u32r (fun _ => safe_bind0 (safe_emit _) (fun _ => safe_pure _))
theorem safe_u64 : Safe K 0 0 0 u64 :=
  safe_bind0 safe_u64r (fun _ => safe_bind0 (safe_emit _) (fun _ => safe_pure _))
theorem safe_bool : Safe K 0 0 0 bool :=
  safe_bind0 safe_u8r (fun _ => safe_bind0 (safe_emit _) (fun _ => safe_pure _))
theorem safe_bytes (hK : 1 ≤ K) : Safe K 0 0 0 bytes :=
  safe_bind0 (safe_bytesRaw hK _) (fun _ => safe_bind0 (safe_emit _) (fun _ => safe_pure _))
theorem safe_str (hK : 1 ≤ K) : Safe K 0 0 0 str :=
  safe_bind0 (safe_bytesRaw hK _) (fun _ => safe_bind0 (safe_emit _) (fun _ => safe_pure _))

theorem u16_lt (s : St) (a : Nat) (s' : St) (h : u16 s = .ok a s') : a < 2 ^ 16 := by
  unfold u16 at h
  change D.bind u16r _ s = _ at h
  unfold D.bind at h
  cases hd : u16r s with
  | ok v s1 =>
    rw [hd] at h
    have := u16r_lt s v s1 hd
    simp only [] at h
    change D.bind (emit _) _ s1 = _ at h
    simp [D.bind, emit, pure, D.pure] at h
    omega
  | err e s1 => rw [hd] at h; cases h
  | panic m => rw [hd] at h; cases h
  | hang => rw [hd] at h; cases h


theorem safe_remaining : Safe K 0 0 0 remaining := by
  intro s _; exact Bound.of_shrink rfl (Nat.le_refl _)

theorem safe_guardResult (fl : Nat) : Safe K 0 0 0 (guardResult fl) := by
  intro s _
  by_cases h : (s.rest.isEmpty ∨ fl &&& flagError ≠ 0)
  · simp only [guardResult, h, if_true]; exact Bound.of_shrink rfl (Nat.le_refl _)
  · simp only [guardResult, h, if_false]; exact Bound.of_shrink rfl (Nat.le_refl _)

theorem safe_readFullC (k : Nat) : Safe K 0 0 0 (readFullC k) := by
  rw [readFullC_eq]
  intro s _
  unfold Spec.readFullC
  simp only []
  by_cases h : (List.take k s.rest).length < k
  · simp only [h, if_true]; exact Bound.of_shrink rfl (by simp)
  · simp only [h, if_false]; exact Bound.of_shrink rfl (by simp)

theorem safe_idRead : Safe K 0 0 0 idRead := by
  unfold idRead
  apply safe_bind0 (safe_readFullC _)
  intro b
  split
  · exact safe_fail _
  · exact safe_pure _

/-- `make` from a count that is bounded by a constant -/
theorem safe_mk_le {n N size : Nat} (site : String) (h : n ≤ N) (hN : N * size ≤ maxAlloc) :
    Safe K 0 (N * size) 0 (mk (n : Int) size site) := by
  intro s _
  have h1 : n * size ≤ N * size := Nat.mul_le_mul_right size h
  have hn : ¬ ((n : Int) < 0) := by omega
  have h2 : ¬ ((n : Int).toNat * size > maxAlloc) := by
    rw [Int.toNat_natCast]; omega
  simp only [mk, hn, h2, if_false]
  refine ⟨Nat.le_refl _, ?_⟩
  simp only [Int.toNat_natCast]
  omega

/-- the checked `make`: the count was compared with the bytes left, so the request is at most
`size` bytes per remaining byte -/
theorem safe_mkChecked {c size : Nat} (site : String) (hsz : Facts.maxSlice * size ≤ maxAlloc) :
    Safe K size 0 0 (mkChecked c size site) := by
  intro s hs
  unfold mkChecked
  rw [bind_apply]
  unfold D.bind checkCount
  by_cases hc : c > s.rest.length
  · simp only [hc, if_true]
    refine ⟨Nat.le_refl _, ?_⟩; omega
  · simp only [hc, if_false]
    have h1 : c * size ≤ s.rest.length * size := Nat.mul_le_mul_right size (by omega)
    have h3 : s.rest.length * size ≤ Facts.maxSlice * size := Nat.mul_le_mul_right size hs
    have hn : ¬ ((c : Int) < 0) := by omega
    have h2 : ¬ ((c : Int).toNat * size > maxAlloc) := by
      rw [Int.toNat_natCast]; omega
    simp only [mk, hn, h2, if_false]
    refine ⟨Nat.le_refl _, ?_⟩
    simp only [Int.toNat_natCast]
    rw [Nat.mul_comm size]
    omega

theorem safe_rep {d : D α} {b : Nat} (h : Safe K 0 b E d) (n : Nat) :
    Safe K 0 (n * b) E (rep n d) := by
  induction n with
  | zero =>
    unfold rep
    exact safe_mono (safe_pure _) (Nat.le_refl _) (by omega) (by omega)
  | succ n ih =>
    unfold rep
    have := safe_bind h (fun a => safe_bind_0 ih (fun r => safe_pure (a :: r)))
    refine safe_mono this (by omega) ?_ (by omega)
    rw [Nat.add_mul]; omega

theorem safe_rep0 {d : D α} (h : Safe K 0 0 E d) (n : Nat) : Safe K 0 0 E (rep n d) := by
  simpa using safe_rep h n

theorem safe_rep_le {d : D α} {b n N : Nat} (h : Safe K 0 b E d) (hn : n ≤ N) :
    Safe K 0 (N * b) E (rep n d) :=
  safe_mono (safe_rep h n) (Nat.le_refl _) (Nat.mul_le_mul_right b hn) (Nat.le_refl _)

/-! ### ReadStringList -/

theorem safe_lenHdrT : Safe K 0 0 0 lenHdrT := by
  unfold lenHdrT
  apply safe_bind0 safe_u8
  intro t
  split
  · exact safe_pure _
  · split
    · exact safe_bind0 safe_u8 (fun _ => safe_pure _)
    · split
      · exact safe_bind0 safe_u16 (fun _ => safe_pure _)
      · split
        · exact safe_bind0 safe_u32 (fun _ => safe_pure _)
        · split
          · exact safe_bind0 safe_u64 (fun _ => safe_pure _)
          · exact safe_fail _

theorem safe_strList (hK : 129 ≤ K) : Safe K 0 0 0 strList := by
  unfold strList
  apply safe_bind0 safe_lenHdrT
  intro o
  cases o with
  | none => exact safe_pure _
  | some n =>
    simp only []
    split
    · exact safe_pure _
    · apply safe_rep0
      -- one entry: the string body plus the amortised append, paid by the ≥ 1 byte consumed
      intro s hs
      have hstr := safe_str (K := K - appendCost) (by unfold appendCost; omega) s hs
      rw [bind_apply]
      unfold D.bind
      cases hd : str s with
      | ok v s1 =>
        rw [hd] at hstr
        simp only [bind_apply, D.bind, charge, pure, D.pure, Bound] at hstr ⊢
        -- str consumed at least one byte
        have hlt : s1.rest.length < s.rest.length := str_consumes s v s1 hs hd
        have e1 : K * s.rest.length = (K - appendCost) * s.rest.length + appendCost * s.rest.length := by
          rw [← Nat.add_mul]; congr 1; unfold appendCost; omega
        have e2 : K * s1.rest.length = (K - appendCost) * s1.rest.length + appendCost * s1.rest.length := by
          rw [← Nat.add_mul]; congr 1; unfold appendCost; omega
        have e3 : appendCost * s1.rest.length + appendCost ≤ appendCost * s.rest.length := by
          have : appendCost * (s1.rest.length + 1) ≤ appendCost * s.rest.length :=
            Nat.mul_le_mul_left _ hlt
          rw [Nat.mul_add] at this; omega
        omega
      | err e s1 =>
        rw [hd] at hstr
        simp only [Bound] at hstr ⊢
        have := Nat.mul_le_mul_right s1.rest.length (show K - appendCost ≤ K by omega)
        have e1 : K * s.rest.length = (K - appendCost) * s.rest.length + appendCost * s.rest.length := by
          rw [← Nat.add_mul]; congr 1; unfold appendCost; omega
        have e2 : K * s1.rest.length = (K - appendCost) * s1.rest.length + appendCost * s1.rest.length := by
          rw [← Nat.add_mul]; congr 1; unfold appendCost; omega
        have e3 : appendCost * s1.rest.length ≤ appendCost * s.rest.length :=
          Nat.mul_le_mul_left _ hstr.1
        omega
      | panic m => rw [hd] at hstr; exact hstr
      | hang => rw [hd] at hstr; exact hstr

end XMT.Decode
