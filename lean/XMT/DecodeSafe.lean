/-
  XMT.DecodeSafe — every decoder of XMT.Decode is `Safe` with explicit constants.
-/
import XMT.DecodeLemmas

namespace XMT.Decode
open XMT

variable {K : Nat}

/-- straight-line decoders: peel one free step after the other -/
macro "dstep" : tactic => `(tactic| first
  | exact safe_pure _
  | exact safe_fail _
  | exact safe_u8 | exact safe_u16 | exact safe_u32 | exact safe_u64 | exact safe_bool
  | exact safe_bytes (by omega) | exact safe_str (by omega) | exact safe_idRead
  | exact safe_readFullC _ | exact safe_guardResult _
  | (with_reducible apply safe_bind0 safe_u8; intro _) | (with_reducible apply safe_bind0 safe_u16; intro _)
  | (with_reducible apply safe_bind0 safe_u32; intro _)
  | (with_reducible apply safe_bind0 safe_u64; intro _) | (with_reducible apply safe_bind0 safe_bool; intro _)
  | (with_reducible apply safe_bind0 (safe_bytes (by omega)); intro _)
  | (with_reducible apply safe_bind0 (safe_str (by omega)); intro _)
  | (with_reducible apply safe_bind0 safe_idRead; intro _) | (with_reducible apply safe_bind0 (safe_readFullC _); intro _)
  | (with_reducible apply safe_bind0 (safe_guardResult _); intro _))

macro "dsafe" : tactic => `(tactic| repeat dstep)

theorem safe_readAddr : Safe K 0 0 0 readAddr := by unfold readAddr; dsafe
theorem safe_readWork : Safe K 0 0 0 readWork := by unfold readWork; dsafe
theorem safe_readKeys : Safe K 0 0 0 readKeys := by unfold readKeys; dsafe

theorem maxAlloc_val : maxAlloc = 281474976710656 := by decide

/-- constants of the device-info decoders -/
def bIface : Nat := 255 * Facts.c04_sizeofAddress
def bNetwork : Nat := 255 * Facts.c04_sizeofIface + 255 * bIface
def bProxy : Nat := 255 * Facts.c04_sizeofProxyData
def bDevInfo : Nat := bNetwork + bProxy + 8

theorem safe_readIface (hK : 1 ≤ K) : Safe K 0 bIface 0 readIface := by
  unfold readIface
  dsafe
  rename_i l
  have hl : l.toNat ≤ 255 := by have := UInt8.toNat_lt l; omega
  have h1 := safe_mk_le (K := K) "device.Address" hl
    (show 255 * Facts.c04_sizeofAddress ≤ maxAlloc by rw [maxAlloc_val]; decide)
  have h2 : Safe K 0 0 0 (do let _ ← rep l.toNat readAddr; pure ()) :=
    safe_bind_0 (safe_rep0 safe_readAddr _) (fun _ => safe_pure _)
  exact safe_bind_0 h1 (fun _ => h2)

theorem safe_readNetwork (hK : 1 ≤ K) : Safe K 0 bNetwork 0 readNetwork := by
  unfold readNetwork
  dsafe
  rename_i l
  have hl : l.toNat ≤ 255 := by have := UInt8.toNat_lt l; omega
  have h1 := safe_mk_le (K := K) "device.Network" hl
    (show 255 * Facts.c04_sizeofIface ≤ maxAlloc by rw [maxAlloc_val]; decide)
  have h2 : Safe K 0 (255 * bIface) 0 (do let _ ← rep l.toNat readIface; pure ()) :=
    safe_bind_0 (safe_rep_le (safe_readIface hK) hl) (fun _ => safe_pure _)
  have := safe_bind h1 (fun _ => h2)
  exact safe_mono this (by omega) (by show _ ≤ bNetwork; unfold bNetwork; omega) (by omega)

theorem safe_readMachine (hK : 1 ≤ K) : Safe K 0 bNetwork 0 readMachine := by
  unfold readMachine
  dsafe
  exact safe_readNetwork hK

theorem safe_readProxyData (hK : 1 ≤ K) (f : Bool) : Safe K 0 bProxy 0 (readProxyData f) := by
  unfold readProxyData
  dsafe
  rename_i n
  have hn : n.toNat ≤ 255 := by have := UInt8.toNat_lt n; omega
  have h1 := safe_mk_le (K := K) "proxyData" hn
    (show 255 * Facts.c04_sizeofProxyData ≤ maxAlloc by rw [maxAlloc_val]; decide)
  have hb : Safe K 0 0 0 (do
      let _ ← str
      let _ ← str
      if f then do let _ ← bytes; pure () else pure () : D Unit) := by
    dsafe
    split <;> dsafe
  have h2 : Safe K 0 0 0 (do let _ ← rep n.toNat (do
      let _ ← str
      let _ ← str
      if f then do let _ ← bytes; pure () else pure () : D Unit); pure ()) :=
    safe_bind_0 (safe_rep0 hb _) (fun _ => safe_pure _)
  exact safe_bind_0 h1 (fun _ => h2)

theorem safe_readInfoHead (hK : 1 ≤ K) (t : Nat) : Safe K 0 bNetwork 0 (readInfoHead t) := by
  unfold readInfoHead
  split
  · exact safe_readMachine hK
  · split
    · exact safe_mono (show Safe K 0 0 0 _ by dsafe) (by omega) (by omega) (by omega)
    · exact safe_mono (safe_pure _) (by omega) (by omega) (by omega)

theorem safe_readInfoTail (hK : 1 ≤ K) (t : Nat) : Safe K 0 bProxy 0 (readInfoTail t) := by
  unfold readInfoTail
  split
  · exact safe_mono (safe_pure _) (by omega) (by omega) (by omega)
  · apply safe_bind_0 (safe_readProxyData hK true)
    intro _
    split
    · exact safe_pure _
    · exact safe_readKeys

theorem safe_readDeviceInfo (hK : 1 ≤ K) (t : Nat) : Safe K 0 bDevInfo 0 (readDeviceInfo t) := by
  unfold readDeviceInfo
  split
  · exact safe_mono (safe_readProxyData hK false) (by omega) (by unfold bDevInfo; omega) (by omega)
  · have hmid : Safe K 0 (8 + bProxy) 0 (do
        let _ ← u8
        let _ ← u64
        let _ ← u64
        charge 8
        readWork
        readInfoTail t : D Unit) := by
      dsafe
      have := safe_bind (safe_charge (K := K) 8)
        (fun _ => safe_bind0 safe_readWork (fun _ => safe_readInfoTail hK t))
      exact safe_mono this (by omega) (by omega) (by omega)
    have := safe_bind (safe_readInfoHead hK t) (fun _ => hmid)
    refine safe_mono this ?_ ?_ ?_
    · omega
    · show _ ≤ bDevInfo; unfold bDevInfo; omega
    · omega


/-! ### Packet tags: the one allocation that is sized by the peer without a check (≤ 65535 × 4) -/

def bTags : Nat := 4 * 65535

theorem mk_nat_ok (n size : Nat) (site : String) (s : St) (h : n * size ≤ maxAlloc) :
    mk (n : Int) size site s = .ok () { s with alloc := s.alloc + n * size } := by
  have hn : ¬ ((n : Int) < 0) := by omega
  have h2 : ¬ (n * size > maxAlloc) := by omega
  simp only [mk, hn, if_false, Int.toNat_natCast, h2]

theorem u32_spec (s : St) :
    match u32 s with
    | .ok _ s' => s'.alloc = s.alloc ∧ s'.rest.length + 4 = s.rest.length
    | .err _ s' => s'.alloc = s.alloc ∧ s'.rest.length = s.rest.length
    | .panic _ => False
    | .hang => False := by
  obtain ⟨rest, al, out⟩ := s
  match rest with
  | [] => simp [u32, u32r_eq, Spec.u32r, bind_apply, D.bind]
  | [_] => simp [u32, u32r_eq, Spec.u32r, bind_apply, D.bind]
  | [_, _] => simp [u32, u32r_eq, Spec.u32r, bind_apply, D.bind]
  | [_, _, _] => simp [u32, u32r_eq, Spec.u32r, bind_apply, D.bind]
  | _ :: _ :: _ :: _ :: r => simp [u32, u32r_eq, Spec.u32r, bind_apply, D.bind, emit, pure, D.pure]

/-- the loop test `i < t` is the bound of `p.Tags[i]` (`len(p.Tags) = t`): `hi` -/
theorem readTagsN_spec (len i n : Nat) (s : St) (hi : i + n ≤ len) :
    match readTagsN len i n s with
    | .ok _ s' => s'.alloc = s.alloc ∧ s'.rest.length + 4 * n = s.rest.length
    | .err _ s' => s'.alloc = s.alloc ∧ s'.rest.length ≤ s.rest.length
    | .panic _ => False
    | .hang => False := by
  induction n generalizing s i with
  | zero => simp [readTagsN, pure, D.pure]
  | succ n ih =>
    unfold readTagsN
    rw [bind_apply]
    unfold D.bind
    have hlt : i < len := by omega
    simp only [tagIdx, hlt, if_true]
    rw [bind_apply]
    unfold D.bind
    have h := u32_spec s
    cases hd : u32 s with
    | ok t s1 =>
      rw [hd] at h
      simp only []
      by_cases ht : t = 0
      · simp only [ht, if_true, fail]; omega
      · simp only [ht, if_false]
        have := ih (i + 1) s1 (by omega)
        cases hr : readTagsN len (i + 1) n s1 with
        | ok _ s2 => rw [hr] at this; simp only [] at this ⊢; omega
        | err _ s2 => rw [hr] at this; simp only [] at this ⊢; omega
        | panic m => rw [hr] at this; exact this
        | hang => rw [hr] at this; exact this
    | err e s1 => rw [hd] at h; simp only [] at h ⊢; omega
    | panic m => rw [hd] at h; exact h
    | hang => rw [hd] at h; exact h

theorem safe_readTags (hK : 2 ≤ K) {t : Nat} (ht : t < 2 ^ 16) : Safe K 0 0 bTags (readTags t) := by
  intro s hs
  unfold readTags
  by_cases h0 : t = 0
  · simp only [h0, if_true, pure, D.pure]; exact Bound.of_shrink rfl (Nat.le_refl _)
  · simp only [h0, if_false]
    rw [bind_apply]
    unfold D.bind
    rw [mk_nat_ok t 4 _ s (by rw [maxAlloc_val]; omega)]
    simp only []
    have hm : Facts.packetMaxTags = 32768 := by decide
    have := readTagsN_spec t 0 (min t Facts.packetMaxTags) { s with alloc := s.alloc + t * 4 }
      (by have := Nat.min_le_left t Facts.packetMaxTags; omega)
    cases hr : readTagsN t 0 (min t Facts.packetMaxTags) { s with alloc := s.alloc + t * 4 } with
    | ok _ s2 =>
      rw [hr] at this
      simp only [Bound] at this ⊢
      obtain ⟨ha, hl⟩ := this
      refine ⟨by omega, ?_⟩
      have e : K * s.rest.length = K * s2.rest.length + K * (4 * min t Facts.packetMaxTags) := by
        rw [← Nat.mul_add, hl]
      have k2 : 2 * (4 * min t Facts.packetMaxTags) ≤ K * (4 * min t Facts.packetMaxTags) :=
        Nat.mul_le_mul_right _ hK
      rw [hm] at e k2
      omega
    | err _ s2 =>
      rw [hr] at this
      simp only [Bound] at this ⊢
      obtain ⟨ha, hl⟩ := this
      refine ⟨hl, ?_⟩
      have := Nat.mul_le_mul_left K hl
      unfold bTags
      omega
    | panic m => rw [hr] at this; exact this
    | hang => rw [hr] at this; exact this

theorem safe_unmarshalStream (hK : 2 ≤ K) : Safe K 0 0 bTags unmarshalStream := by
  unfold unmarshalStream
  apply safe_bind0 safe_u8; intro i
  apply safe_bind0 safe_u16; intro j
  apply safe_bind0_post (fun t => t < 2 ^ 16) safe_u16 u16_lt; intro t ht
  apply safe_bind0 safe_u64; intro f
  apply safe_bind0 safe_idRead; intro d
  have h := safe_bind (safe_readTags hK ht) (fun _ =>
    safe_bind0 (safe_bytes (K := K) (by omega)) (fun p => safe_pure (K := K)
      ({ id := i.toNat, job := j, flags := f, ntags := t, dev := d, payload := p } : Pkt)))
  exact safe_mono h (by omega) (by omega) (by omega)

/-! ### result.* -/

theorem szOK (n : Nat) (h : n ≤ 64) : Facts.maxSlice * n ≤ maxAlloc := by
  rw [maxAlloc_val]
  have : Facts.maxSlice = 4398046511104 := by decide
  have := Nat.mul_le_mul_left Facts.maxSlice h
  omega

theorem safe_rPwd (fl : Nat) : Safe 1 0 0 0 (rPwd fl) := by unfold rPwd; dsafe
theorem safe_rSpawn (fl : Nat) : Safe 1 0 0 0 (rSpawn fl) := by unfold rSpawn; dsafe
theorem safe_rBool (fl : Nat) : Safe 1 0 0 0 (rBool fl) := by unfold rBool; dsafe
theorem safe_rUpload (fl : Nat) : Safe 1 0 0 0 (rUpload fl) := by unfold rUpload; dsafe
theorem safe_rWhoami (fl : Nat) : Safe 1 0 0 0 (rWhoami fl) := by unfold rWhoami; dsafe
theorem safe_rPull (fl : Nat) : Safe 1 0 0 0 (rPull fl) := by unfold rPull; dsafe
theorem safe_rAssembly (fl : Nat) : Safe 1 0 0 0 (rAssembly fl) := by unfold rAssembly; dsafe
theorem safe_rProcess (fl : Nat) : Safe 1 0 0 0 (rProcess fl) := by unfold rProcess; dsafe
theorem safe_rDownload (fl : Nat) : Safe 1 0 0 0 (rDownload fl) := by unfold rDownload; dsafe

theorem safe_rMounts (fl : Nat) : Safe 129 0 0 0 (rMounts fl) := by
  unfold rMounts
  dsafe
  exact safe_bind_0 (safe_strList (by omega)) (fun _ => safe_pure _)

/-- a list decoder `checked make; rep c entry` -/
theorem safe_list {entry : D Unit} {c size b : Nat} (site : String) (hsz : size ≤ 64)
    (he : Safe K 0 0 0 entry) :
    Safe K size 0 0 (do mkChecked c size site; let _ ← rep c entry; pure () : D Unit) :=
  safe_bind_0 (safe_mkChecked site (szOK size hsz))
    (fun _ => safe_bind_0 (safe_rep0 he c) (fun _ => safe_pure _))

/-- `d` consumes at least one byte whenever it succeeds -/
def Consumes {α : Type} (d : D α) : Prop :=
  ∀ s a s', s.rest.length ≤ Facts.maxSlice → d s = .ok a s' → s'.rest.length < s.rest.length

theorem consumes_bind {α β : Type} {d : D α} {f : α → D β} {K M B E : Nat} (h1 : Consumes d)
    (h2 : ∀ a, Safe K M B E (f a)) : Consumes (d >>= f) := by
  intro s b s2 hs h
  obtain ⟨a, s1, e1, e2⟩ := bind_ok h
  have l1 := h1 s a s1 hs e1
  have l2 := safe_le (h2 a) (by omega) e2
  omega

theorem consumes_str : Consumes str := fun s a s' hs h => str_consumes s a s' hs h

/-- a fixed charge after a decoder that consumed at least one byte is paid by raising `K` -/
theorem safe_consume_charge {α : Type} {d : D α} {K0 : Nat} (c : Nat) (hd : Safe K0 0 0 0 d)
    (hc : Consumes d) : Safe (K0 + c) 0 0 0 (do let a ← d; charge c; pure a) := by
  intro s hs
  have h := hd s hs
  rw [bind_apply]
  unfold D.bind
  cases hr : d s with
  | ok v s1 =>
    rw [hr] at h
    have hlt := hc s v s1 hs hr
    simp only [bind_apply, D.bind, charge, pure, D.pure, Bound] at h ⊢
    have e1 : (K0 + c) * s.rest.length = K0 * s.rest.length + c * s.rest.length := Nat.add_mul ..
    have e2 : (K0 + c) * s1.rest.length = K0 * s1.rest.length + c * s1.rest.length := Nat.add_mul ..
    have e3 : c * s1.rest.length + c ≤ c * s.rest.length := by
      have : c * (s1.rest.length + 1) ≤ c * s.rest.length := Nat.mul_le_mul_left _ hlt
      rw [Nat.mul_add] at this; omega
    omega
  | err e s1 =>
    rw [hr] at h
    simp only [Bound] at h ⊢
    have e1 : (K0 + c) * s.rest.length = K0 * s.rest.length + c * s.rest.length := Nat.add_mul ..
    have e2 : (K0 + c) * s1.rest.length = K0 * s1.rest.length + c * s1.rest.length := Nat.add_mul ..
    have e3 : c * s1.rest.length ≤ c * s.rest.length := Nat.mul_le_mul_left _ h.1
    omega
  | panic m => rw [hr] at h; exact h
  | hang => rw [hr] at h; exact h

theorem safe_lsFields {K : Nat} (hK : 1 ≤ K) : Safe K 0 0 0 lsFields := by unfold lsFields; dsafe

theorem consumes_lsFields : Consumes lsFields := by
  unfold lsFields
  exact consumes_bind (K := 1) (M := 0) (B := 0) (E := 0) consumes_str
    (fun _ => by dsafe)

def kLs : Nat := 1 + Facts.c04_sizeofFileInfo

theorem safe_lsEntry : Safe kLs 0 0 0 lsEntry := by
  unfold lsEntry kLs
  exact safe_consume_charge _ (safe_lsFields (Nat.le_refl 1)) consumes_lsFields

theorem safe_rLs (fl : Nat) : Safe kLs Facts.c04_sizeofInterface 0 0 (rLs fl) := by
  unfold rLs
  dsafe
  split
  · exact safe_mono (safe_pure _) (Nat.zero_le _) (by omega) (by omega)
  · exact safe_list (b := 0) "result.Ls" (by decide) safe_lsEntry

theorem safe_rWindowList (fl : Nat) : Safe 1 Facts.c04_sizeofWindow 0 0 (rWindowList fl) := by
  unfold rWindowList
  dsafe
  exact safe_list (b := 0) "result.WindowList" (by decide) (by unfold windowEntry; dsafe)

theorem safe_rFuncRemapList (fl : Nat) : Safe 1 Facts.c04_sizeofFuncEntry 0 0 (rFuncRemapList fl) := by
  unfold rFuncRemapList
  dsafe
  exact safe_list (b := 0) "result.FuncRemapList" (by decide) (by unfold funcEntry; dsafe)

theorem safe_rProcessList (fl : Nat) : Safe 1 Facts.c04_sizeofProcessInfo 0 0 (rProcessList fl) := by
  unfold rProcessList
  dsafe
  exact safe_list (b := 0) "result.ProcessList" (by decide) (by unfold procEntry; dsafe)

def bLogins : Nat := 65535 * Facts.c04_sizeofLogin

theorem safe_loginEntry : Safe 1 0 0 0 loginEntry := by
  unfold loginEntry
  dsafe
  apply safe_bind0 safe_readAddr; intro _
  dsafe

theorem safe_rUserLogins (fl : Nat) : Safe 1 0 bLogins 0 (rUserLogins fl) := by
  unfold rUserLogins
  apply safe_bind0 (safe_guardResult _); intro _
  apply safe_bind0_post (fun c => c < 2 ^ 16) safe_u16 u16_lt; intro c hc
  have h1 := safe_mk_le (K := 1) (n := c) (N := 65535) (size := Facts.c04_sizeofLogin)
    "result.UserLogins" (by omega) (by rw [maxAlloc_val]; decide)
  exact safe_bind_0 h1 (fun _ => safe_bind_0 (safe_rep0 safe_loginEntry c) (fun _ => safe_pure _))

theorem safe_u8M {K : Nat} : Safe K 0 0 0 u8M := by
  intro s hs
  have := safe_u8 (K := K) s hs
  unfold u8M
  cases h : u8 s with
  | ok a s' => rw [h] at this; exact this
  | err e s' => rw [h] at this; exact this
  | panic m => rw [h] at this; exact this
  | hang => rw [h] at this; exact this

theorem safe_rSystemIO (fl : Nat) : Safe 1 0 0 0 (rSystemIO fl) := by
  unfold rSystemIO
  dsafe
  apply safe_bind0 safe_u8M; intro o
  split
  · exact safe_pure _
  · dsafe

theorem safe_rRegistry (fl : Nat) : Safe 1 Facts.c04_sizeofRegEntry 0 0 (rRegistry fl) := by
  unfold rRegistry
  dsafe
  apply safe_bind0 safe_u8M; intro o
  split
  · exact safe_mono (safe_pure _) (Nat.zero_le _) (by omega) (by omega)
  · have hc : Safe 1 0 0 0 (if o.toNat = 0 then u32 else pure 1 : D Nat) := by
      split
      · exact safe_u32
      · exact safe_pure _
    apply safe_bind0 hc; intro c
    split
    · exact safe_mono (safe_pure _) (Nat.zero_le _) (by omega) (by omega)
    · exact safe_list (b := 0) "result.Registry" (by decide) (by unfold regEntry; dsafe)

/-! ### result.Script -/

theorem bodyC_len (c : Bool) (l : Nat) {s s' : St} {b : Bytes} (h : bodyC c l s = .ok b s') :
    s'.rest.length + b.length = s.rest.length ∧ s'.alloc = s.alloc + (if c then l else 0) ∧ b.length = l := by
  rw [bodyC_eq] at h
  unfold Spec.bodyC at h
  by_cases hl : s.rest.length < l
  · simp only [hl, if_true] at h; cases h
  · simp only [hl, if_false] at h
    injection h with h1 h2
    subst h1 h2
    simp only [List.length_drop, List.length_take]
    refine ⟨by omega, trivial, by omega⟩

theorem pureD_ok {α : Type} {a b : α} {s s' : St} (h : (pure a : D α) s = .ok b s') : a = b ∧ s = s' := by
  simp only [pure, D.pure] at h
  injection h with h1 h2
  exact ⟨h1, h2⟩

/-- a successful `Bytes()`/`StringVal()` consumed its tag byte and its body, and allocated the copy -/
theorem bytesRaw_len (c : Bool) {s s' : St} {b : Bytes} (hs : s.rest.length ≤ Facts.maxSlice)
    (h : bytesRaw c s = .ok b s') :
    s'.rest.length + b.length + 1 ≤ s.rest.length ∧ s'.alloc ≤ s.alloc + b.length := by
  obtain ⟨o, s1, h1, h2⟩ := bind_ok h
  obtain ⟨t, s0, h3, h4⟩ := bind_ok h1
  have e0 := u8r_consumes h3
  have l1 := safe_le (K := 1) (safe_lenHdrK t) (by omega) h4
  have a0 : s0.alloc = s.alloc := by
    rw [u8r_eq] at h3
    unfold Spec.u8r at h3
    cases hr : s.rest with
    | nil => rw [hr] at h3; cases h3
    | cons x r => rw [hr] at h3; injection h3 with _ e; subst e; rfl
  have a1 : s1.alloc ≤ s0.alloc := by
    have := safe_lenHdrK (K := 0) t s0 (by omega)
    rw [h4] at this
    simp only [Bound] at this
    omega
  cases o with
  | none =>
    simp only [bytesRawK] at h2
    obtain ⟨e1, e2⟩ := pureD_ok h2
    subst e1 e2
    simp only [List.length_nil]
    omega
  | some l =>
    simp only [bytesRawK] at h2
    by_cases z : l = 0
    · simp only [z, if_true, fail] at h2; cases h2
    · simp only [z, if_false] at h2
      by_cases z2 : l > Facts.maxSlice
      · simp only [z2, if_true, fail] at h2; cases h2
      · simp only [z2, if_false] at h2
        have := bodyC_len c l h2
        have hc : (if c = true then l else 0) ≤ l := by split <;> omega
        omega

def kScript : Nat := 2 + Facts.c04_sizeofPacket + 256 + appendCost

theorem strOrBytes_len (c : Bool) (tk : Bytes → Tok) {s s' : St} {b : Bytes}
    (hs : s.rest.length ≤ Facts.maxSlice)
    (h : (do let b ← bytesRaw c; emit (tk b); pure b : D Bytes) s = .ok b s') :
    s'.rest.length + b.length + 1 ≤ s.rest.length ∧ s'.alloc ≤ s.alloc + b.length := by
  obtain ⟨b0, s1, h1, h2⟩ := bind_ok h
  obtain ⟨_, s2, h3, h4⟩ := bind_ok h2
  have := bytesRaw_len c hs h1
  simp only [emit] at h3
  injection h3 with _ e3
  obtain ⟨e4, e5⟩ := pureD_ok h4
  subst e3 e4 e5
  exact this

theorem scriptRound_spec (s : St) (hs : s.rest.length ≤ Facts.maxSlice) :
    match scriptRound s with
    | .ok _ s' => s'.rest.length < s.rest.length ∧
        s'.alloc + kScript * s'.rest.length ≤ s.alloc + kScript * s.rest.length
    | .err _ s' => s'.rest.length ≤ s.rest.length ∧
        s'.alloc + kScript * s'.rest.length ≤ s.alloc + kScript * s.rest.length + Facts.c04_sizeofPacket
    | .panic _ => False
    | .hang => False := by
  have hk : kScript = 506 := by decide
  have hp : Facts.c04_sizeofPacket = 120 := by decide
  have hac : appendCost = 128 := rfl
  obtain ⟨rest, al, out⟩ := s
  match rest with
  | [] =>
    simp [scriptRound, bind_apply, D.bind, charge, u8, u8r_eq, Spec.u8r]
  | [x] =>
    simp [scriptRound, bind_apply, D.bind, charge, u8, u8r_eq, Spec.u8r, bool, emit, pure, D.pure, hk, hp]
  | x :: y :: r2 =>
    simp only [scriptRound, bind_apply, D.bind, charge, u8, u8r_eq, Spec.u8r, bool, emit, pure, D.pure]
    simp only [List.length_cons] at hs ⊢
    generalize decide (y = 1) = e
    cases e with
    | true =>
      -- success flag: ReadBytes
      simp only [if_true, scriptBytes]
      have hsafe := safe_bytes (K := kScript) (by rw [hk]; omega)
        { rest := r2, alloc := al + Facts.c04_sizeofPacket, out := Tok.bool true :: Tok.u8 x.toNat :: out } (by simp only []; omega)
      cases hb : bytes { rest := r2, alloc := al + Facts.c04_sizeofPacket, out := Tok.bool true :: Tok.u8 x.toNat :: out } with
      | ok d s3 =>
        have := strOrBytes_len false Tok.by (by simp only []; omega) hb
        simp only [] at this ⊢
        rw [hk, hp, hac] at *
        have e5 : 506 * (r2.length + 1 + 1) = 506 * r2.length + 1012 := by omega
        have e2 : 506 * (s3.rest.length + d.length + 1) ≤ 506 * r2.length := Nat.mul_le_mul_left _ this.1
        omega
      | err e s3 =>
        rw [hb] at hsafe
        simp only [Bound] at hsafe
        rw [hk, hp, hac] at *
        have e5 : 506 * (r2.length + 1 + 1) = 506 * r2.length + 1012 := by omega
        cases e <;> (try simp only []) <;> omega
      | panic m => rw [hb] at hsafe; exact hsafe
      | hang => rw [hb] at hsafe; exact hsafe
    | false =>
      -- error flag: ReadString
      simp only [Bool.false_eq_true, if_false, scriptStr, bind_apply, D.bind]
      have hsafe := safe_str (K := kScript) (by rw [hk]; omega)
        { rest := r2, alloc := al + Facts.c04_sizeofPacket, out := Tok.bool false :: Tok.u8 x.toNat :: out } (by simp only []; omega)
      cases hb : str { rest := r2, alloc := al + Facts.c04_sizeofPacket, out := Tok.bool false :: Tok.u8 x.toNat :: out } with
      | ok d s3 =>
        have := strOrBytes_len true Tok.str (by simp only []; omega) hb
        simp only [charge] at this ⊢
        rw [hk, hp, hac] at *
        have e5 : 506 * (r2.length + 1 + 1) = 506 * r2.length + 1012 := by omega
        have e2 : 506 * (s3.rest.length + d.length + 1) ≤ 506 * r2.length := Nat.mul_le_mul_left _ this.1
        omega
      | err e s3 =>
        rw [hb] at hsafe
        simp only [Bound] at hsafe
        rw [hk, hp, hac] at *
        have e5 : 506 * (r2.length + 1 + 1) = 506 * r2.length + 1012 := by omega
        simp only []
        omega
      | panic m => rw [hb] at hsafe; exact hsafe
      | hang => rw [hb] at hsafe; exact hsafe

theorem scriptLoop_spec (fuel : Nat) (s : St) (hs : s.rest.length ≤ Facts.maxSlice)
    (hf : s.rest.length < fuel) :
    match scriptLoop fuel s with
    | .ok _ s' => Bound kScript 0 Facts.c04_sizeofPacket s s'
    | .err _ s' => Bound kScript 0 Facts.c04_sizeofPacket s s'
    | .panic _ => False
    | .hang => False := by
  induction fuel generalizing s with
  | zero => omega
  | succ n ih =>
    unfold scriptLoop
    have hr := scriptRound_spec s hs
    cases hd : scriptRound s with
    | ok u s1 =>
      rw [hd] at hr
      simp only []
      have := ih s1 (by omega) (by omega)
      cases hl : scriptLoop n s1 with
      | ok _ s2 => rw [hl] at this; simp only [Bound] at this ⊢; omega
      | err _ s2 => rw [hl] at this; simp only [Bound] at this ⊢; omega
      | panic m => rw [hl] at this; exact this
      | hang => rw [hl] at this; exact this
    | err e s1 =>
      rw [hd] at hr
      cases e <;> simp only [Bound] <;> omega
    | panic m => rw [hd] at hr; exact hr
    | hang => rw [hd] at hr; exact hr

theorem safe_rScript (fl : Nat) : Safe kScript 0 Facts.c04_sizeofPacket 0 (rScript fl) := by
  unfold rScript
  have h2 : Safe kScript 0 Facts.c04_sizeofPacket 0 scriptAll := by
    intro s hs
    have := scriptLoop_spec (s.rest.length + 1) s hs (by omega)
    unfold scriptAll
    cases hl : scriptLoop (s.rest.length + 1) s with
    | ok _ s2 => rw [hl] at this; exact this
    | err _ s2 => rw [hl] at this; exact this
    | panic m => rw [hl] at this; exact this
    | hang => rw [hl] at this; exact this
  have := safe_bind (safe_guardResult (K := kScript) fl) (fun _ => h2)
  exact safe_mono this (by omega) (by omega) (by omega)

end XMT.Decode
