/-
  XMT.DecodeSlice — the index / reslice expressions of the in-memory reader stay in range.

  XMT.Decode models `c.buf[c.rpos+i]`, `c.buf[c.rpos+lo : c.rpos+hi]`, `c.buf[c.rpos+lo:]` and
  `c.rpos += n` as operations that PANIC when out of range.  This file proves

  * pointwise rules for these operations that REQUIRE the bound (`idxP_ok`, `sliceP_ok`,
    `sliceFromP_ok`, `advanceP_ok`) — there is no unconditional rule, and there cannot be one
    (`idxP_panics`, `sliceP_panics`, `advanceP_panics`);
  * for every primitive read of chunk_reader.go / chunk_base.go (`u8r` … `u64r`, `bodyC`,
    `chunkRead`, `readFullC`) that, thanks to the guard the Go code puts in front of the expression
    (`checkBounds(n)`, `n < c.rpos+int(l)`, `c.Empty()`), the bound holds where the expression is
    evaluated: the read equals a total function on the unread bytes (`Spec.*`, no panic value in
    sight).  Every one of these proofs splits on the guard and discharges the bound from it.

  Everything downstream (XMT.DecodeLemmas, XMT.DecodeSafe) reasons about the `Spec.*` forms through
  these equations, so the no-panic theorems of XMT/Props/C04.lean now rest on the guards.  The
  same decoders with a guard removed panic: XMT/DecodeGuardsMatter.lean.
-/
import XMT.Decode

namespace XMT.Decode
open XMT

/-! ### the partial operations: rules that require the bound -/

theorem idxP_ok {i : Nat} {site : String} {s : St} {v : UInt8} (h : s.rest[i]? = some v) :
    idxP i site s = .ok v s := by
  simp only [idxP, h]

theorem idxP_ok_lt {i : Nat} (site : String) {s : St} (h : i < s.rest.length) :
    idxP i site s = .ok s.rest[i] s :=
  idxP_ok (List.getElem?_eq_getElem h)

theorem idxP_panics {i : Nat} (site : String) {s : St} (h : s.rest.length ≤ i) :
    (idxP i site s).isPanic = true := by
  simp only [idxP, List.getElem?_eq_none h, Out.isPanic]

theorem sliceP_ok {lo hi : Nat} (site : String) {s : St} (h1 : lo ≤ hi) (h2 : hi ≤ s.rest.length) :
    sliceP lo hi site s = .ok ((s.rest.drop lo).take (hi - lo)) s := by
  have : ¬ (hi > s.rest.length ∨ lo > hi) := by omega
  simp only [sliceP, this, if_false]

theorem sliceP_panics {lo hi : Nat} (site : String) {s : St} (h : s.rest.length < hi ∨ hi < lo) :
    (sliceP lo hi site s).isPanic = true := by
  have : hi > s.rest.length ∨ lo > hi := by omega
  simp only [sliceP, this, if_true, Out.isPanic]

theorem sliceFromP_ok {lo : Nat} (site : String) {s : St} (h : lo ≤ s.rest.length) :
    sliceFromP lo site s = .ok (s.rest.drop lo) s := by
  have : ¬ (lo > s.rest.length) := by omega
  simp only [sliceFromP, this, if_false]

theorem advanceP_ok {n : Nat} (site : String) {s : St} (h : n ≤ s.rest.length) :
    advanceP n site s = .ok () { s with rest := s.rest.drop n } := by
  have : ¬ (n > s.rest.length) := by omega
  simp only [advanceP, this, if_false]

theorem advanceP_panics {n : Nat} (site : String) {s : St} (h : s.rest.length < n) :
    (advanceP n site s).isPanic = true := by
  have : n > s.rest.length := h
  simp only [advanceP, this, if_true, Out.isPanic]

/-! ### what the guarded reads compute: total functions of the unread bytes -/

namespace Spec

def u8r : D UInt8 := fun s =>
  match s.rest with
  | [] => .err .eof s
  | b :: r => .ok b { s with rest := r }

def u16r : D Nat := fun s =>
  match s.rest with
  | b0 :: b1 :: r => .ok (ofBe16 b0 b1) { s with rest := r }
  | _ => .err .eof s

def u32r : D Nat := fun s =>
  match s.rest with
  | b0 :: b1 :: b2 :: b3 :: r => .ok (ofBe32 b0 b1 b2 b3) { s with rest := r }
  | _ => .err .eof s

def u64r : D Nat := fun s =>
  match s.rest with
  | b0 :: b1 :: b2 :: b3 :: b4 :: b5 :: b6 :: b7 :: r =>
    .ok (ofBe64 b0 b1 b2 b3 b4 b5 b6 b7) { s with rest := r }
  | _ => .err .eof s

def bodyC (copy : Bool) (l : Nat) : D Bytes := fun s =>
  if s.rest.length < l then .err .eof { s with rest := [] }
  else .ok (s.rest.take l) { s with rest := s.rest.drop l, alloc := s.alloc + (if copy then l else 0) }

def readFullC (k : Nat) : D Bytes := fun s =>
  let got := s.rest.take k
  let s' := { s with rest := s.rest.drop k, out := if got.isEmpty then s.out else .raw got :: s.out }
  if got.length < k then .err (if got.isEmpty then .eof else .ueof) s'
  else .ok got s'

end Spec

theorem bindA {α β : Type} (d : D α) (f : α → D β) (s : St) : (d >>= f) s = D.bind d f s := rfl

/-- the guard `checkBounds(n)` is what makes the `n` index reads and the cursor step that follow it
legal; the proof evaluates the guard on each shape of the unread bytes -/
theorem u8r_eq : u8r = Spec.u8r := by
  funext s
  obtain ⟨rest, al, out⟩ := s
  match rest with
  | [] => rfl
  | b :: r => rfl

theorem u16r_eq : u16r = Spec.u16r := by
  funext s
  obtain ⟨rest, al, out⟩ := s
  match rest with
  | [] => rfl
  | [_] => rfl
  | _ :: _ :: r => rfl

theorem u32r_eq : u32r = Spec.u32r := by
  funext s
  obtain ⟨rest, al, out⟩ := s
  match rest with
  | [] => rfl
  | [_] => rfl
  | [_, _] => rfl
  | [_, _, _] => rfl
  | _ :: _ :: _ :: _ :: r => rfl

theorem u64r_eq : u64r = Spec.u64r := by
  funext s
  obtain ⟨rest, al, out⟩ := s
  match rest with
  | [] => rfl
  | [_] => rfl
  | [_, _] => rfl
  | [_, _, _] => rfl
  | [_, _, _, _] => rfl
  | [_, _, _, _, _] => rfl
  | [_, _, _, _, _, _] => rfl
  | [_, _, _, _, _, _, _] => rfl
  | _ :: _ :: _ :: _ :: _ :: _ :: _ :: _ :: r => rfl

/-- `Bytes()`: the reslice `c.buf[c.rpos : c.rpos+l]` and the step `c.rpos += l` are legal because the
branch is only reached when `n < c.rpos+int(l)` is false -/
theorem bodyC_eq (copy : Bool) (l : Nat) : bodyC copy l = Spec.bodyC copy l := by
  funext s
  unfold bodyC Spec.bodyC
  rw [bindA]
  simp only [D.bind, remaining]
  by_cases hl : s.rest.length < l
  · -- short body: `c.buf[c.rpos:]` is always legal (`c.rpos ≤ len(c.buf)`)
    simp only [hl, if_true, bindA, D.bind, sliceFromP_ok _ (Nat.zero_le _), seekEnd, fail]
  · -- the guard failed, so `l ≤ len(c.buf) - c.rpos`: this is the bound of the reslice and of the step
    have hle : l ≤ s.rest.length := by omega
    simp only [hl, if_false, bindA, D.bind, sliceP_ok _ (Nat.zero_le l) hle,
      advanceP_ok _ hle, charge, pure, D.pure, List.drop_zero, Nat.sub_zero]

/-- `Chunk.Read` on a drained Chunk: the `Empty()` arm, no buffer access -/
theorem chunkRead_empty (k : Nat) {s : St} (h : s.rest = []) :
    chunkRead k s = .ok (if k = 0 then some [] else none) s := by
  unfold chunkRead
  rw [bindA]
  simp only [D.bind, remaining, h, List.length_nil, if_true]
  split <;> rfl

/-- `Chunk.Read` otherwise: `c.buf[c.rpos:]` is legal, and `c.rpos += n` stays inside the buffer
because `n = copy(b, c.buf[c.rpos:]) ≤ len(c.buf) - c.rpos` -/
theorem chunkRead_nonempty (k : Nat) {s : St} (h : s.rest ≠ []) :
    chunkRead k s = .ok (some (s.rest.take k)) { s with rest := s.rest.drop k } := by
  have hne : ¬ (s.rest.length = 0) := fun h0 => h (List.eq_nil_of_length_eq_zero h0)
  have hlen : (s.rest.take k).length ≤ s.rest.length := List.length_take_le' _ _
  have hdrop : s.rest.drop (s.rest.take k).length = s.rest.drop k := by
    rw [List.length_take]
    by_cases hk : k ≤ s.rest.length
    · rw [Nat.min_eq_left hk]
    · have h' : s.rest.length ≤ k := by omega
      rw [Nat.min_eq_right h', List.drop_of_length_le h', List.drop_of_length_le (Nat.le_refl _)]
  unfold chunkRead
  rw [bindA]
  simp only [D.bind, remaining, hne, if_false, bindA, sliceFromP_ok _ (Nat.zero_le _), List.drop_zero,
    advanceP_ok _ hlen, pure, D.pure, hdrop]

theorem readAtLeast_done (fuel k : Nat) (acc : Bytes) (h : ¬ (acc.length < k)) :
    readAtLeast (fuel + 1) k acc = pure (acc, none) := by
  simp only [readAtLeast, h, not_false_eq_true, if_true]

theorem readAtLeast_more (fuel k : Nat) (acc : Bytes) (h : acc.length < k) :
    readAtLeast (fuel + 1) k acc = (do
      match ← chunkRead (k - acc.length) with
      | none => pure (acc, some (if acc.isEmpty then .eof else .ueof))
      | some got => readAtLeast fuel k (acc ++ got)) := by
  simp only [readAtLeast, h, not_true_eq_false, if_false]
  rfl

/-- `io.ReadFull` on a Chunk: at most two rounds; the second one finds the Chunk drained -/
theorem readFullC_eq (k : Nat) : readFullC k = Spec.readFullC k := by
  funext s
  obtain ⟨rest, al, out⟩ := s
  unfold readFullC Spec.readFullC
  rw [bindA]
  unfold D.bind
  cases k with
  | zero =>
    rw [readAtLeast_done 0 0 [] (by simp)]
    simp [pure, D.pure]
  | succ k =>
    rw [readAtLeast_more (k + 1) (k + 1) [] (by simp), bindA]
    unfold D.bind
    simp only [List.length_nil, Nat.sub_zero]
    match rest with
    | [] =>
      rw [chunkRead_empty _ rfl]
      simp [pure, D.pure, fail]
    | b :: r =>
      rw [chunkRead_nonempty _ (by simp)]
      simp only [List.nil_append]
      by_cases hk : ((b :: r).take (k + 1)).length < k + 1
      · -- short: everything was handed out, the second `Read` reports `io.EOF`
        have hlen : (b :: r).length ≤ k + 1 := by
          rw [List.length_take] at hk; omega
        have e1 : (b :: r).take (k + 1) = b :: r := List.take_of_length_le hlen
        have e2 : (b :: r).drop (k + 1) = [] := List.drop_of_length_le hlen
        rw [e1] at hk
        rw [e1, e2, readAtLeast_more k (k + 1) (b :: r) hk, bindA]
        unfold D.bind
        rw [chunkRead_empty _ rfl]
        have hne : ¬ (k + 1 - (b :: r).length = 0) := by omega
        rw [if_neg hne, if_pos hk]
        simp [pure, D.pure, bindA, D.bind, fail, emit]
      · rw [readAtLeast_done _ _ _ hk, if_neg hk]
        simp [pure, D.pure, bindA, D.bind, emit]

end XMT.Decode
