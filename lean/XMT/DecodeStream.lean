/-
  XMT.DecodeStream — allocation of the stream reader (`data/data_reader.go`): `(*reader).Bytes()`
  requests the announced length from the allocator (`make([]byte, l)`, `l ≤ MaxSlice`) before a
  single body byte has been read.  Outcomes are those of XMT.Codec (`decBytes streamPrim`), the
  allocation is computed next to them.

  Index / reslice expressions.  Unlike the in-memory reader (XMT.Decode), the stream reader never
  indexes a buffer with a value taken from the wire: `r.buf[0:1]`, `r.buf[0:2]`, `r.buf[0:4]`,
  `r.buf[:]`, `_ = r.buf[7]`, `r.buf[k]` are constant expressions on the reader's own `[8]byte`
  array (checked by the compiler).  The one reslice with a run-time bound is `b[:n]` at the end of
  `(*reader).Bytes()`, `b = make([]byte, l)` and `n` the count `io.ReadFull(r.r, b)` returned; it is
  modelled below as a panicking operation (`bodyP`) and proved in range for every stream
  (`bodyP_eq`): `n ≤ l` because `ReadFull` hands out at most `len(b)` bytes (`readFull_fst`).
-/
import XMT.Codec
import XMT.CodecLemmas
import XMT.Decode

namespace XMT.Decode.Stream
open XMT XMT.Codec

/-- bytes requested by one `(*reader).Bytes()` call -/
def bytesAlloc (s : Stream) : Nat :=
  match decLen streamPrim s with
  | .ok (some l, _) => if l = 0 ∨ l > Facts.maxSlice then 0 else l
  | _ => 0

/-- bytes requested by the entry loop of `ReadStringList` (after the fix) over the stream reader:
per entry the body buffer, its `string` copy and the amortised `append` -/
def strsAllocN : Nat → Stream → Nat
  | 0, _ => 0
  | n + 1, s =>
    bytesAlloc s +
      (match decBytes streamPrim s with
       | .ok (b, s') => b.length + XMT.Decode.appendCost + strsAllocN n s'
       | .error _ => 0)

def strsAlloc (s : Stream) : Nat :=
  match decLen streamPrim s with
  | .ok (some l, s') => if l ≥ 2 ^ 63 then 0 else strsAllocN l s'
  | _ => 0

theorem bytesAlloc_le (s : Stream) : bytesAlloc s ≤ Facts.maxSlice := by
  unfold bytesAlloc
  split
  · split <;> omega
  · omega

/-! ### the reslice `b[:n]` of `(*reader).Bytes()` -/

/-- `b[:n]` for `b = make([]byte, l)` whose first `n` bytes are `got`; `none` = "slice bounds out
of range" -/
def prefixP (l : Nat) (got : Bytes) : Option Bytes :=
  if got.length > l then none else some got

/-- the tail of `(*reader).Bytes()` with the reslice evaluated as Go does (`none` = panic):
```
b := make([]byte, l)
if n, err = io.ReadFull(r.r, b); err != nil { switch { case err == io.EOF: case err == ErrLimit: default: return nil, err } }
if uint64(n) != l { return b[:n], io.EOF }
return b, nil
``` -/
def bodyP (l : Nat) (s : Stream) : Option (Except Codec.Err (Bytes × Stream)) :=
  let r := readFull l s
  if r.1.length = l then some (.ok r)
  else match prefixP l r.1 with
    | none => none
    | some _ => some (.error (shortErr r.1))

/-- a reslice rule that REQUIRES the bound -/
theorem prefixP_some {l : Nat} {got : Bytes} (h : got.length ≤ l) : prefixP l got = some got := by
  have : ¬ (got.length > l) := by omega
  simp only [prefixP, this, if_false]

/-- `io.ReadFull` never reports more bytes than the buffer holds -/
theorem readFull_len_le (l : Nat) (s : Stream) : (readFull l s).1.length ≤ l := by
  rw [readFull_fst]
  exact List.length_take_le _ _

/-- for EVERY stream the reslice is in range: the panicking form is the `body` of `streamPrim` -/
theorem bodyP_eq (l : Nat) (s : Stream) : bodyP l s = some (streamPrim.body l s) := by
  unfold bodyP
  simp only [prefixP_some (readFull_len_le l s), streamPrim]
  split <;> rfl

/-- and the bound is what it rests on: a count above `len(b)` would panic -/
example : prefixP 2 [1, 2, 3] = none := by decide

end XMT.Decode.Stream
