/-
  XMT.DecodeStream — allocation of the stream reader (`data/data_reader.go`): `(*reader).Bytes()`
  requests the announced length from the allocator (`make([]byte, l)`, `l ≤ MaxSlice`) before a
  single body byte has been read.  Outcomes are those of XMT.Codec (`decBytes streamPrim`), the
  allocation is computed next to them.
-/
import XMT.Codec
import XMT.Decode

namespace XMT.Decode.Stream
open XMT XMT.Codec

/-- bytes requested by one `(*reader).Bytes()` call -/
def bytesAlloc (s : Stream) : Nat :=
  match decLen streamPrim s with
  | .ok (some l, _) => if l = 0 ∨ l > Facts.maxSlice then 0 else l
  | _ => 0

/-- bytes requested by the entry loop of `ReadStringList` (after the fix) over the stream reader:
per entry the body buffer, its `string` copy and the amortised `append` -/
def strsAllocN : Nat → Stream → Nat
  | 0, _ => 0
  | n + 1, s =>
    bytesAlloc s +
      (match decBytes streamPrim s with
       | .ok (b, s') => b.length + XMT.Decode.appendCost + strsAllocN n s'
       | .error _ => 0)

def strsAlloc (s : Stream) : Nat :=
  match decLen streamPrim s with
  | .ok (some l, s') => if l ≥ 2 ^ 63 then 0 else strsAllocN l s'
  | _ => 0

theorem bytesAlloc_le (s : Stream) : bytesAlloc s ≤ Facts.maxSlice := by
  unfold bytesAlloc
  split
  · split <;> omega
  · omega

end XMT.Decode.Stream
