/-
  XMT.DecodeStreamStrs — the allocation of `data.ReadStringList` over the STREAM reader
  (`Stream.strsAllocN` / `Stream.strsAlloc` of XMT/DecodeStream.lean): per entry the body buffer
  `(*reader).Bytes()` makes from the announced length, its `string` copy and the amortised `append`.
-/
import XMT.DecodeStream
namespace XMT.Decode.Stream
open XMT XMT.Codec

/-- a successful `(*reader).Bytes()` returns at most `MaxSlice` bytes -/
theorem decBytes_stream_len {s s' : Stream} {b : Bytes} (h : decBytes streamPrim s = .ok (b, s')) :
    b.length ≤ Facts.maxSlice := by
  unfold decBytes at h
  cases hl : decLen streamPrim s with
  | error e => rw [hl] at h; cases h
  | ok r =>
    obtain ⟨l, s1⟩ := r
    rw [hl] at h
    cases l with
    | none =>
      simp only [bind, Except.bind, pure, Except.pure] at h
      cases h
      exact Nat.zero_le _
    | some l =>
      simp only [bind, Except.bind] at h
      split at h
      · cases h
      · split at h
        · cases h
        · rename_i h0 hm
          simp only [streamPrim] at h
          split at h
          · rename_i hlen
            have hb : b = (readFull l s1).1 := by
              have := congrArg (fun x => match x with | .ok r => r.1 | .error _ => []) h
              simpa using this.symm
            rw [hb, hlen]
            omega
          · cases h

/-- every round of the entry loop requests at most `2·MaxSlice + appendCost` bytes: the body buffer
(announced length, ≤ MaxSlice), its string copy (≤ MaxSlice) and the amortised `append` -/
theorem strsAllocN_le (n : Nat) (s : Stream) :
    strsAllocN n s ≤ n * (2 * Facts.maxSlice + XMT.Decode.appendCost) := by
  induction n generalizing s with
  | zero => simp [strsAllocN]
  | succ n ih =>
    unfold strsAllocN
    have h1 := bytesAlloc_le s
    cases hd : decBytes streamPrim s with
    | error e => simp only; rw [Nat.succ_mul]; omega
    | ok r =>
      obtain ⟨b, s'⟩ := r
      have h2 := decBytes_stream_len hd
      have h3 := ih s'
      simp only
      rw [Nat.succ_mul]
      omega

end XMT.Decode.Stream
