/-
  XMT.Dispatch — outcome-valued model of the DISPATCH ARMS the server runs on a decoded Packet
  (property C04): c2/channel.go `(*conn).process` / `processSingle` / `processMultiple` / `resolve`,
  the tail of `handle` (+ `conn.start`), c2/vars.go `writeUnpack` and `receive`.

  What a "decoded Packet" is here: its header (`ID`, `Job`, `Flags`, `Tags`, `Device`) and — for a
  batch container — the list of packets the successive `v.UnmarshalStream(n)` calls yield (bytes →
  that list is XMT.Decode.unmarshalStream, theorem `unpackLoop_total_alloc`; when the list is used
  up the next `UnmarshalStream` fails).  Payload CONTENTS are not looked at by these functions.

  Panics are outcome values.  Every expression of the Go functions that can panic at run time is a
  panicking primitive of the model:
    * a method call on a nil `connHost` interface value (`c.host.next(false)`, `c.host.clientID()`,
      `c.host.chanStop()`, `c.host.sender()`, `v.host.chanStart()` …)            → `hostP`
    * a field / embedded-method access through a nil `*com.Packet` (`z.KeyCrypt(…)`, `c.next.Clear()`,
      `c.next.Flags`, `r.Clear()`, `c.add[i].Device`, `v.next.KeyCrypt(…)`)      → `ptrP`
    * a nil `*Session` (`s.ID`, `s.log`, `s.frags[g]`, `s.state` in `receive`)  → `ptrP`
    * an assignment into a nil map (`c.subs[q] = true`)                          → `mset`
    * an index expression (`t[i]`, `c.add[i]`)                                   → `idxP`
  Reading a nil map, ranging over a nil map / slice and `delete` on a nil map do not panic in Go and
  do not panic here.  Arguments of the log calls (`c.host.name()`, evaluated because `cout.Enabled` is
  true in a server build) are modelled in the two arms where they are the FIRST dereference of `c.host`
  (the `x == 0` arm of processMultiple, the notify-error arm of processSingle); in every other arm the
  same host has already been dereferenced by a modelled call.

  The server side is the fake of the harness (go/hooks/c2/zz_verif_c04_s3.go): a client table
  (`clientGet`), a scripted `talkSub` answer per device, `notify` that records (or fails), hosts whose
  `next()` answer and `chanStart/chanStop/chanRunning` answers are given.  The theorems quantify over
  ALL such tables.
  Core-only (no Mathlib): the driver is a compiled lean_exe.
-/
import XMT.Base
import XMT.Flag
import XMT.Generated.Facts
namespace XMT.Dispatch
open XMT

/-! ### outcomes -/

inductive DErr
  | count            -- ErrInvalidPacketCount
  | tooMany          -- ErrTooManyPackets
  | malformedPacket  -- ErrMalformedPacket
  | malformedTag     -- com.ErrMalformedTag
  | unmarshal        -- an error of v.UnmarshalStream(n)
  | talk             -- an error returned by talkSub / talk
  | notify           -- an error returned by notify
  | mismatch         -- receive: packet for another device
deriving DecidableEq, Repr

inductive R (α : Type)
  | ok (a : α)
  | err (e : DErr)
  | panic (site : String)
deriving Repr

instance : Monad R where
  pure := .ok
  bind x f := match x with
    | .ok a => f a
    | .err e => .err e
    | .panic s => .panic s

def R.isPanic {α : Type} : R α → Bool
  | .panic _ => true
  | _ => false

/-- postcondition on success, nothing on an error, never a panic -/
def R.Post {α : Type} (Q : α → Prop) : R α → Prop
  | .ok a => Q a
  | .err _ => True
  | .panic _ => False

/-! ### constants (regenerated from the compiled packages on every run) -/

def fFrag := Facts.c04_flagFrag
def fMulti := Facts.c04_flagMulti
def fChannel := Facts.c04_flagChannel
def fOneshot := Facts.c04_flagOneshot
def fMultiDevice := Facts.c04_flagMultiDevice
def fCrypt := Facts.c04_flagCrypt
def fProxy := Facts.c04_flagProxy
def fChannelEnd := Facts.c04s3_flagChannelEnd
def fragMax := Facts.c04_fragMax
def packetMaxTags := Facts.c04s3_packetMaxTags
def svDrop := Facts.c04_svDrop
def svRegister := Facts.c04_svRegister
def svComplete := Facts.c04_svComplete

/-- `f & bit != 0` -/
def has (f bit : Nat) : Bool := f &&& bit != 0

/-! ### values -/

abbrev ID := Bytes

/-- `ID.Empty()`: `i[0] == 0` -/
def idEmpty : ID → Bool
  | [] => true
  | b :: _ => b == 0

/-- the header of a `com.Packet` -/
structure P where
  id : Nat := 0
  job : Nat := 0
  flags : Nat := 0
  tags : List Nat := []
  dev : ID := []
deriving DecidableEq, Repr, Inhabited

/-- a received packet: header + what the successive `UnmarshalStream` calls on its payload yield -/
structure In where
  hd : P
  subs : List P
deriving Repr, Inhabited

/-- a `connHost` (fake): device ID, the answer of `next(·)` (`none` = nil) and of the channel tests -/
structure Host where
  id : ID
  nxt : Option P := none
  chanStart : Bool := false
  chanStop : Bool := false
  chanRunning : Bool := false
deriving DecidableEq, Repr, Inhabited

/-- scripted answer of `talkSub` for one device: `(k != nil, q, r, err != nil)` -/
structure SubRes where
  k : Bool := false
  q : Nat := 0
  r : Option P := none
  err : Bool := false
deriving DecidableEq, Repr, Inhabited

/-- the `connServer` (fake) -/
structure Srv where
  clients : List (Nat × Host) := []
  subs : List (ID × SubRes) := []
  notifyErr : Bool := false
deriving Repr, Inhabited

def Srv.clientGet (h : Srv) (i : Nat) : Option Host := (h.clients.find? (·.1 == i)).map (·.2)

/-- `talkSub` for a device without a script entry answers `(nil, 0, nil, nil)` -/
def Srv.talkSub (h : Srv) (d : ID) : SubRes := ((h.subs.find? (·.1 == d)).map (·.2)).getD {}

abbrev SubMap := List (Nat × Bool)

/-- `*conn` -/
structure Conn where
  host : Option Host := none
  next : Option P := none
  /-- `c.subs`; `none` = nil map -/
  subs : Option SubMap := none
  /-- `c.add []*com.Packet` (an element may be a nil pointer) -/
  add : List (Option P) := []
  /-- calls made on the server / the hosts, newest first -/
  ev : List String := []
deriving Repr, Inhabited

def Conn.log (c : Conn) (e : String) : Conn := { c with ev := e :: c.ev }

/-! ### panicking primitives -/

/-- a method call on the interface value `c.host` -/
def hostP (h : Option Host) (site : String) : R Host :=
  match h with
  | some x => .ok x
  | none => .panic ("nil connHost: " ++ site)

/-- a field access / embedded method call through a pointer -/
def ptrP {α : Type} (p : Option α) (site : String) : R α :=
  match p with
  | some x => .ok x
  | none => .panic ("nil pointer: " ++ site)

/-- `m[k] = v` -/
def mset (m : Option SubMap) (k : Nat) (v : Bool) (site : String) : R SubMap :=
  match m with
  | none => .panic ("assignment to entry in nil map: " ++ site)
  | some l => if l.any (·.1 == k) then .ok (l.map fun e => if e.1 == k then (k, v) else e) else .ok (l ++ [(k, v)])

/-- `v, ok := m[k]` (a nil map reads as empty) -/
def mget (m : Option SubMap) (k : Nat) : Option Bool :=
  match m with
  | none => none
  | some l => (l.find? (·.1 == k)).map (·.2)

/-- `t[i]` -/
def idxP {α : Type} (t : List α) (i : Nat) (site : String) : R α :=
  match t[i]? with
  | some x => .ok x
  | none => .panic ("index out of range: " ++ site)

/-! ### writeUnpack (c2/vars.go) -/

/-- `writeUnpack(dst, src, true, true)`: the new `*dst` (`dst`, `src` are pointers: nil = `none`).
`x+dst.Flags.Len() > fragMax` compares a uint16 sum (which wraps) with 0xFFFF. -/
def writeUnpack (dst src : Option P) : R (Option P) :=
  match dst, src with
  | none, _ => .ok none
  | some d, none => .ok (some d)
  | some d, some s =>
    if has s.flags fMulti || has s.flags fMultiDevice then
      let x := Flag.len s.flags
      if x == 0 then .err .count
      else if (x + Flag.len d.flags) % 2 ^ 16 > fragMax then .err .tooMany
      else .ok (some { d with flags := Flag.setLen d.flags ((Flag.len d.flags + x) % 2 ^ 16) })
    else if (Flag.len d.flags + 1) % 2 ^ 16 > fragMax then .err .tooMany
    else
      let f := Flag.setLen d.flags ((Flag.len d.flags + 1) % 2 ^ 16)
      let f := if has s.flags fChannel then f ||| fChannel else f
      let f := if has s.flags fMultiDevice then f ||| fMultiDevice else f
      .ok (some { d with flags := f ||| fMulti, tags := d.tags ++ s.tags })

/-! ### (*conn).processSingle -/

def processSingle (h : Srv) (c : Conn) (n : P) (o : Bool) : R Conn :=
  -- h.notify(c.host, n): the host is passed on, not dereferenced
  let c := c.log s!"notify:{if c.host.isSome then 1 else 0}:{n.id}"
  if h.notifyErr then do
    -- l.Error("[%s:%s] %s: Error processing Packet: %s!", h.prefix(), c.host.name(), a, err.Error())
    let _ ← hostP c.host "processSingle: c.host.name() (log argument)"
    .err .notify
  else if o then .ok c
  else do
    let hst ← hostP c.host "processSingle: c.host.next(false)"
    let c := c.log "next"
    let v := hst.nxt
    if c.add.length > 0 then do
      let hs2 ← hostP c.host "processSingle: c.host.clientID()"
      let c := { c with next := some { flags := fMulti ||| fMultiDevice, dev := hs2.id } }
      match v with
      | some v => do
        let d ← writeUnpack c.next (some v)
        let _ ← hostP c.host "processSingle: c.host.keyCheckSync()"
        pure { c with next := d }
      | none => pure c
    else pure { c with next := v }

/-! ### (*conn).processMultiple -/

/-- `v.UnmarshalStream(n)`: the next nested packet; `ID.Read` refuses an empty device ID -/
def unmarshalNext : List P → R (P × List P)
  | [] => .err .unmarshal
  | v :: vs => if idEmpty v.dev then .err .unmarshal else .ok (v, vs)

/-- one round of the loop of `processMultiple` on the unpacked packet `v`; `zg = false` is the round
WITHOUT `if z == nil { continue }` (the code before fix 5ec5818) -/
def pmStep (zg : Bool) (h : Srv) (o : Bool) (c : Conn) (v : P) : R Conn :=
  if idEmpty v.dev then .err .malformedPacket
  else
    let v := if v.tags.length > 0 then { v with tags := [] } else v
    if has v.flags fMulti || has v.flags fMultiDevice then .ok c
    else if has v.flags fOneshot then .ok (c.log s!"notify:0:{v.id}")
    else do
      let hst ← hostP c.host "processMultiple: c.host.clientID()"
      if hst.id == v.dev then do
        let c := c.log s!"notify:1:{v.id}"
        if o then pure c
        else do
          let hs2 ← hostP c.host "processMultiple: c.host.next(false)"
          let c := c.log "next"
          match hs2.nxt with
          | none =>
            if zg then pure c
            else do
              let _ ← ptrP (none : Option P) "processMultiple: z.KeyCrypt(c.keys)"
              pure c
          | some z =>
            -- z.KeyCrypt(c.keys); err := writeUnpack(c.next, z, true, true)
            match writeUnpack c.next (some z) with
            | .ok nx => pure { c with next := nx }
            | .err _ => do
              let _ ← ptrP c.next "processMultiple: c.next.Clear()"
              pure c
            | .panic s => .panic s
      else
        let res := h.talkSub v.dev
        let c := c.log s!"sub:{v.id}"
        if res.err then do
          let _ ← ptrP c.next "processMultiple: c.next.Clear()"
          .err .talk
        else do
          let c ← (if res.k then do
              let m ← mset c.subs res.q true "processMultiple: c.subs[q] = true"
              pure { c with subs := some m }
            else pure c)
          if o || res.r.isNone then pure c
          else do
            let r ← ptrP res.r "processMultiple: r"
            match writeUnpack c.next (some r) with
            | .ok nx => pure { c with next := nx }
            | .err e => do
              let _ ← ptrP c.next "processMultiple: c.next.Clear()"
              .err e
            | .panic s => .panic s

/-- `for ; x > 0; x-- { var v com.Packet; v.UnmarshalStream(n) … }` -/
def pmLoop (h : Srv) (o : Bool) : Nat → List P → Conn → R Conn
  | 0, _, c => .ok c
  | x + 1, vs, c =>
    match unmarshalNext vs with
    | .err e => (match ptrP c.next "processMultiple: c.next.Clear()" with
        | .ok _ => .err e | .err e' => .err e' | .panic s => .panic s)
    | .panic s => .panic s
    | .ok (v, vs) =>
      match pmStep true h o c v with
      | .ok c => pmLoop h o x vs c
      | .err e => .err e
      | .panic s => .panic s

def processMultiple (h : Srv) (c : Conn) (n : In) (o : Bool) : R Conn :=
  let x := Flag.len n.hd.flags
  if x == 0 then do
    -- l.Error("[%s:%s/M] %s: Received an invalid Multi Packet!", h.prefix(), c.host.name(), a)
    let _ ← hostP c.host "processMultiple: c.host.name() (log argument)"
    .err .count
  else
    let c := if c.subs.isNone then { c with subs := some [] } else c
    do
      let hst ← hostP c.host "processMultiple: c.host.clientID()"
      let c := { c with next := some { flags := fMulti ||| fMultiDevice, dev := hst.id } }
      let c ← pmLoop h o x n.subs c
      let _ ← hostP c.host "processMultiple: c.host.keyCheckSync()"
      pure c

/-! ### (*conn).process -/

/-- `for i := range c.add { … writeUnpack(c.next, c.add[i], true, true) … }` from index `i` on -/
def addLoop (add : List (Option P)) : Nat → Nat → Option P → R (Option P)
  | 0, _, nx => .ok nx
  | k + 1, i, nx => do
    let ai ← idxP add i "process: c.add[i]"
    let a ← ptrP ai "process: c.add[i].Device"
    if idEmpty a.dev then do
      let _ ← ptrP nx "process: c.next.Clear()"
      .err .malformedPacket
    else
      match writeUnpack nx (some a) with
      | .ok nx' => addLoop add k (i + 1) nx'
      | .err e => do
        let _ ← ptrP nx "process: c.next.Clear()"
        .err e
      | .panic s => .panic s

def process (h : Srv) (c : Conn) (n : In) (o : Bool) : R Conn := do
  let c ← (if has n.hd.flags fMultiDevice then processMultiple h c n o else processSingle h c n.hd o)
  if o then do
    let hst ← hostP c.host "process: c.host.chanStop()"
    if hst.chanStop || has n.hd.flags fChannelEnd then pure (c.log "stateUnset") else pure c
  else do
    let c ← (if c.next.isNone then do
        let hst ← hostP c.host "process: c.host.clientID()"
        if c.add.length > 0 then pure { c with next := some { flags := fMulti ||| fMultiDevice, dev := hst.id } }
        else pure { c with next := some { dev := hst.id } }
      else pure c)
    let c ← (if c.add.length > 0 then do
        let nx ← addLoop c.add c.add.length 0 c.next
        pure { c with next := nx, add := [] }
      else pure c)
    let nx ← ptrP c.next "process: c.next.Flags"
    let nx := if (has nx.flags fMulti || has nx.flags fFrag) && Flag.len nx.flags == 0
      then { nx with id := 0, flags := 0 } else nx
    let hst ← hostP c.host "process: c.host.chanRunning()"
    let nx := if !hst.chanRunning && (hst.chanStart || has n.hd.flags fChannel)
      then { nx with flags := nx.flags ||| fChannel } else nx
    pure { c with next := some nx }

/-! ### (*conn).resolve -/

inductive Step | cont | brk
deriving DecidableEq, Repr

/-- one round of `for i := range t { … }`; `ng = false` is the round WITHOUT the test `n != nil` of
`if n := v.next(true); n != nil {` -/
def tagStep (ng : Bool) (h : Srv) (s : Host) (o : Bool) (t : List Nat) (i : Nat) (c : Conn) : R (Step × Conn) := do
  let ti ← idxP t i "resolve: t[i]"
  if ti == 0 then .err .malformedTag
  else if i > packetMaxTags then pure (.brk, c)
  else if mget c.subs ti == some true then pure (.cont, c)
  else
    match h.clientGet ti with
    | none => pure (.cont, c)
    | some v =>
      if v.id == s.id then pure (.cont, c)
      else do
        let c := c.log s!"update:{ti}"
        let m ← mset c.subs ti true "resolve: c.subs[t[i]] = true"
        let c := { c with subs := some m }
        if o then pure (.cont, c)
        else
          let c := c.log s!"next:{ti}"
          match v.nxt with
          | some n => pure (.cont, { c with add := c.add ++ [some n] })
          | none =>
            if ng then pure (.cont, c)
            else do
              let _ ← ptrP (none : Option P) "resolve: n.KeyCrypt(v.keyValue())"
              pure (.cont, c)

def tagLoop (h : Srv) (s : Host) (o : Bool) (t : List Nat) : Nat → Nat → Conn → R Conn
  | 0, _, c => .ok c
  | k + 1, i, c =>
    match tagStep true h s o t i c with
    | .ok (.cont, c) => tagLoop h s o t k (i + 1) c
    | .ok (.brk, c) => .ok c
    | .err e => .err e
    | .panic s => .panic s

def resolve (h : Srv) (c : Conn) (s : Host) (t : List Nat) (o : Bool) : R Conn := do
  let c := match c.subs with
    | none => { c with subs := some [] }
    | some m => { c with subs := some (m.map fun e => (e.1, false)) }
  let c ← tagLoop h s o t t.length 0 c
  if !o then pure c
  else
    -- for i := range c.subs { if !c.subs[i] { h.clientClear(i); delete(c.subs, i) } }
    let m := c.subs.getD []   -- ranging over a nil map: no iteration
    let gone := m.filter (fun e => !e.2)
    let keep := m.filter (fun e => e.2)
    let c := gone.foldl (fun c e => c.log s!"clear:{e.1}") c
    let c := { c with subs := c.subs.map (fun _ => keep) }
    -- for i := range c.subs { h.clientSet(i, c.host.sender()) }
    if keep.isEmpty then pure c
    else do
      let _ ← hostP c.host "resolve: c.host.sender()"
      pure (keep.foldl (fun c e => c.log s!"set:{e.1}") c)

/-! ### the tail of handle() after `v, e, err := h.talk(a, n)` returned `err == nil` -/

inductive HOut | start | close | writeErr
deriving DecidableEq, Repr

/-- `(*conn).start` up to the two channel threads: `for i := range c.subs { h.clientSet(i,
c.host.sender()) }; c.host.stateSet(stateChannel); c.host.chanWakeClear()` -/
def startP (v : Conn) : R (List String) := do
  let m := v.subs.getD []
  let _ ← (if m.isEmpty then pure () else do
    let _ ← hostP v.host "start: c.host.sender()"
    pure ())
  let v := m.foldl (fun (c : Conn) e => c.log s!"set:{e.1}") v
  let _ ← hostP v.host "start: c.host.stateSet(stateChannel)"
  pure (v.log "stateSet").ev

/-- `v` = the `*conn` talk returned, `e` its second result, `nChan` = `n.Flags&FlagChannel != 0`,
`wErr` = writePacket failed; `hostGuard = false` is the switch WITHOUT `case v.host == nil:` and
without `v.host != nil &&` (the code before fix 8cb7ac5) -/
def handleTail (hostGuard : Bool) (v : Option Conn) (e nChan wErr : Bool) : R (HOut × List String) := do
  let v ← ptrP v "handle: v.next"
  let _ ← (if e then do
    let _ ← ptrP v.next "handle: v.next.KeyCrypt(v.keys)"
    pure () else pure ())
  -- writePacket(c, h.wrapper(), h.transform(), v.next): n.Marshal(c) dereferences the reply
  let _ ← ptrP v.next "handle: writePacket(…, v.next)"
  if wErr then pure (.writeErr, v.ev)
  else do
    let nx ← ptrP v.next "handle: v.next.Clear()"
    if (hostGuard && v.host.isSome || !hostGuard) && (nChan || has nx.flags fChannel) then do
      let ev ← startP v
      pure (.start, ev)
    else if hostGuard && v.host.isNone then pure (.close, v.ev)
    else do
      let hst ← hostP v.host "handle: v.host.chanStart()"
      if !hst.chanStart then pure (.close, v.ev)
      else do
        let ev ← startP v
        pure (.start, ev)

/-! ### receive (c2/vars.go) over nested batch containers -/

/-- a packet with its nested content: `kids` = what the successive `UnmarshalStream` calls on its
payload yield (only looked at when `FlagMulti` is set); `empty` = `n.Empty()` -/
inductive Tree
  | node (hd : P) (empty : Bool) (kids : List Tree)
deriving Repr, Inhabited

def Tree.hd : Tree → P | .node h _ _ => h
def Tree.empty : Tree → Bool | .node _ e _ => e
def Tree.kids : Tree → List Tree | .node _ _ k => k

/-- a server-side `*Session` as far as `receive` looks at it (`s.proxy == nil`) -/
structure Sess where
  id : ID
deriving DecidableEq, Repr, Inhabited

/-- `isPacketNoP` -/
def nop (n : P) (empty : Bool) : Bool := n.id < 2 && empty && (n.flags == 0 || n.flags == fProxy)

/-- what `receive` did with one packet (in order) -/
inductive REv
  | oneshot (id : Nat)
  | leaf (id : Nat) (flags : Nat)          -- reached receiveSingle
  | setLast (group : Nat)
  | frag (id : Nat) (flags : Nat)          -- handed to the fragment dispatcher (XMT.FragHostile)
deriving DecidableEq, Repr

/-- the checks in front of the `switch` of `receive`; `some r` = returned -/
def recvPre (s : Option Sess) (l : Bool) (n : P) (empty : Bool) : Option (R (List REv)) :=
  if idEmpty n.dev || nop n empty || (!l && s.isNone) then some (.ok [])
  else if (match s with | some s => !(has n.flags fMultiDevice) && s.id != n.dev | none => false)
    then some (.err .mismatch)
  else if l && has n.flags fOneshot then some (.ok [.oneshot n.id])
  else if s.isNone || (n.id == svComplete && !(has n.flags fCrypt)) then some (.ok [])
  else none

/-- `receiveSingle(s, n)`: `if s == nil { return }`, else the system / job handlers (the leaf) -/
def recvSingle (s : Option Sess) (n : P) : R (List REv) :=
  match s with
  | none => .ok []
  | some _ => .ok [.leaf n.id n.flags]

mutual
/-- `receive(s, l, n)`; `noGuard = true` is the variant WITHOUT the guard
`if s == nil || (n.ID == SvComplete && n.Flags&FlagCrypt == 0)` (for the guard-needed theorem) -/
def receive (noGuard : Bool) (s : Option Sess) (l : Bool) : Tree → R (List REv)
  | .node n empty kids =>
    match (if noGuard then
        (if idEmpty n.dev || nop n empty || (!l && s.isNone) then some (.ok [])
         else if (match s with | some s => !(has n.flags fMultiDevice) && s.id != n.dev | none => false)
           then some (.err .mismatch)
         else if l && has n.flags fOneshot then some (.ok [.oneshot n.id]) else none)
      else recvPre s l n empty) with
    | some r => r
    | none =>
      if has n.flags fMulti then
        let x := Flag.len n.flags
        if x == 0 then .err .count
        else do
          -- s.log.Trace(…, s.ID, v) in the loop, s.frags / s.state below: through the pointer s
          let _ ← ptrP s "receive: s.log / s.ID"
          receiveAll noGuard s l x kids
      else if has n.flags fFrag then
        if n.id == svDrop || n.id == svRegister then do
          let _ ← ptrP s "receive: s.state.SetLast"
          if n.id != svRegister then pure [.setLast (Flag.group n.flags)]
          else do
            let r ← recvSingle s n
            pure (.setLast (Flag.group n.flags) :: r)
        else if Flag.len n.flags == 0 then .err .count
        else if Flag.len n.flags == 1 then
          -- n.Flags.Clear(); return receive(s, l, n): the cleared flags have neither FlagFrag nor
          -- FlagMulti, so the second call is the checks + receiveSingle
          let n' := { n with flags := Flag.clear n.flags }
          match recvPre s l n' empty with
          | some r => r
          | none => recvSingle s n'
        else do
          let _ ← ptrP s "receive: s.frags[g]"
          pure [.frag n.id n.flags]
      else recvSingle s n
/-- `for ; x > 0; x-- { var v com.Packet; v.UnmarshalStream(n); receive(s, l, &v) }` -/
def receiveAll (noGuard : Bool) (s : Option Sess) (l : Bool) : Nat → List Tree → R (List REv)
  | 0, _ => .ok []
  | _ + 1, [] => .err .unmarshal
  | x + 1, v :: vs =>
    if idEmpty v.hd.dev then .err .unmarshal
    else do
      let a ← receive noGuard s l v
      let b ← receiveAll noGuard s l x vs
      pure (a ++ b)
end

end XMT.Dispatch
