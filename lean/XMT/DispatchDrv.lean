/-
  XMT.DispatchDrv — line-protocol side of XMT.Dispatch (ops dsp-process, dsp-resolve, dsp-handle,
  dsp-recv of the C04 driver).  I/O only; nothing here is used by a theorem.

  tokens:  P     = id/job/flags/tags/dev      tags = t:t:… or _ ; dev = hex or -
           HOST  = nil | dev,nx,cs,cp,cr      nx = P or -
           CONN  = next;subs;add              next = P or - ; subs = nil | _ | k=v+k=v ; add = _ | (P|-)+…
           SRV   = clients;script;notifyErr   clients = _ | tag=HOST+… ; script = _ | dev=k,q,r,err+…
           IN    = P;subs                     subs = _ | P+P…
-/
import XMT.Dispatch
import XMT.Drv.Util
namespace XMT.Dispatch.Drv
open XMT XMT.Dispatch XMT.Drv

def parseList {α : Type} (f : String → Option α) (s : String) (sep : Char) : Option (List α) :=
  if s = "_" ∨ s = "" then some [] else (splitOn1 s sep).mapM f

def parseID (s : String) : Option ID := if s = "-" then some [] else ofHex s

def parseP (s : String) : Option P :=
  match splitOn1 s '/' with
  | [i, j, f, t, d] => do
    let i ← i.toNat?
    let j ← j.toNat?
    let f ← f.toNat?
    let t ← parseList String.toNat? t ':'
    let d ← parseID d
    pure { id := i, job := j, flags := f, tags := t, dev := d }
  | _ => none

def parseOptP (s : String) : Option (Option P) :=
  if s = "-" then some none else (parseP s).map some

def bit (s : String) : Option Bool := if s = "1" then some true else if s = "0" then some false else none

def parseHost (s : String) : Option (Option Host) :=
  if s = "nil" then some none else
  match splitOn1 s ',' with
  | [d, nx, cs, cp, cr] => do
    let d ← parseID d
    let nx ← parseOptP nx
    let cs ← bit cs
    let cp ← bit cp
    let cr ← bit cr
    pure (some { id := d, nxt := nx, chanStart := cs, chanStop := cp, chanRunning := cr })
  | _ => none

def parseKV (s : String) : Option (Nat × Bool) :=
  match splitOn1 s '=' with
  | [k, v] => do pure ((← k.toNat?), (← bit v))
  | _ => none

def parseConn (host : Option Host) (s : String) : Option Conn :=
  match splitOn1 s ';' with
  | [nx, subs, add] => do
    let nx ← parseOptP nx
    let subs ← (if subs = "nil" then some none else (parseList parseKV subs '+').map some)
    let add ← parseList parseOptP add '+'
    pure { host := host, next := nx, subs := subs, add := add }
  | _ => none

def parseClient (s : String) : Option (Nat × Host) :=
  match s.splitOn "=" with
  | k :: rest => do
    let k ← k.toNat?
    let h ← parseHost ("=".intercalate rest)
    let h ← h
    pure (k, h)
  | _ => none

def parseScript (s : String) : Option (ID × SubRes) :=
  match splitOn1 s '=' with
  | [d, r] =>
    match splitOn1 r ',' with
    | [k, q, p, e] => do
      pure ((← parseID d), { k := (← bit k), q := (← q.toNat?), r := (← parseOptP p), err := (← bit e) })
    | _ => none
  | _ => none

def parseSrv (s : String) : Option Srv :=
  match splitOn1 s ';' with
  | [cl, sc, ne] => do
    pure { clients := (← parseList parseClient cl '+'), subs := (← parseList parseScript sc '+'), notifyErr := (← bit ne) }
  | _ => none

def parseIn (s : String) : Option In :=
  match splitOn1 s ';' with
  | [p, subs] => do pure { hd := (← parseP p), subs := (← parseList parseP subs '+') }
  | _ => none

def showErr : DErr → String
  | .count => "count" | .tooMany => "toomany" | .malformedPacket => "malformedpacket"
  | .malformedTag => "malformedtag" | .unmarshal => "other" | .talk => "talk" | .notify => "notify"
  | .mismatch => "other"

def showID (d : ID) : String := hexOrDash d

def showP (p : P) : String :=
  s!"{p.id}/{p.job}/{p.flags}/{if p.tags.isEmpty then "_" else ":".intercalate (p.tags.map toString)}/{showID p.dev}"

def showOptP : Option P → String
  | none => "-"
  | some p => showP p

def sortNat (l : List Nat) : List Nat := l.mergeSort (· ≤ ·)

def showSubs : Option SubMap → String
  | none => "nil"
  | some [] => "_"
  | some m =>
    let m := m.mergeSort (fun a b => a.1 ≤ b.1)
    "+".intercalate (m.map fun e => s!"{e.1}={if e.2 then 1 else 0}")

def natAfter (pre : String) (e : String) : Option Nat :=
  if e.startsWith pre then (e.drop pre.length).toString.toNat? else none

/-- events in program order; the `set:` / `clear:` calls (made while ranging over a map) sorted apart -/
def showEv (ev : List String) : String :=
  let ev := ev.reverse
  let sets := sortNat (ev.filterMap (natAfter "set:"))
  let clears := sortNat (ev.filterMap (natAfter "clear:"))
  let rest := ev.filter (fun e => !(e.startsWith "set:") && !(e.startsWith "clear:"))
  let j (l : List String) := if l.isEmpty then "_" else ",".intercalate l
  s!"ev={j rest} set={j (sets.map toString)} clear={j (clears.map toString)}"

def showConn (r : R Conn) : String :=
  match r with
  | .ok c => s!"ok next={showOptP c.next} subs={showSubs c.subs} add={c.add.length} {showEv c.ev}"
  | .err e => s!"err {showErr e}"
  | .panic _ => "panic"

mutual
def parseTree : Nat → List String → Option (Tree × List String)
  | 0, _ => none
  | _, [] => none
  | fuel + 1, tok :: rest =>
    match splitOn1 tok '~' with
    | [p, e, k] => do
      let p ← parseP p
      let e ← bit e
      let k ← k.toNat?
      let (kids, r) ← parseKids fuel k rest
      pure (.node p e kids, r)
    | _ => none
def parseKids : Nat → Nat → List String → Option (List Tree × List String)
  | 0, _, _ => none
  | _ + 1, 0, r => some ([], r)
  | fuel + 1, n + 1, r => do
    let (t, r') ← parseTree fuel r
    let (ts, r'') ← parseKids fuel n r'
    pure (t :: ts, r'')
end

def showREv (l : List REv) : String :=
  let ls := l.filterMap fun e => match e with
    | .leaf i f => some s!"{i}:{f}"
    | _ => none
  if ls.isEmpty then "_" else ",".intercalate ls

def handle (args : List String) : String :=
  match args with
  | ["dsp-process", o, host, conn, srv, pkt] =>
    match bit o, parseHost host, parseSrv srv, parseIn pkt with
    | some o, some host, some srv, some pkt =>
      match parseConn host conn with
      | some c => showConn (process srv c pkt o)
      | none => "bad-op"
    | _, _, _, _ => "bad-op"
  | ["dsp-resolve", o, host, s, conn, srv, tags] =>
    match bit o, parseHost host, parseHost s, parseSrv srv, parseList String.toNat? tags ':' with
    | some o, some host, some (some s), some srv, some tags =>
      match parseConn host conn with
      | some c => showConn (resolve srv c s tags o)
      | none => "bad-op"
    | _, _, _, _, _ => "bad-op"
  | ["dsp-handle", g, host, conn, e, nChan, wErr] =>
    match bit g, parseHost host, bit e, bit nChan, bit wErr with
    | some g, some host, some e, some nChan, some wErr =>
      match (if conn = "nil" then some none else (parseConn host conn).map some) with
      | some v =>
        match handleTail g v e nChan wErr with
        | .ok (.start, ev) => s!"start {showEv ev}"
        | .ok (.close, ev) => s!"close {showEv ev}"
        | .ok (.writeErr, ev) => s!"writeerr {showEv ev}"
        | .err e => s!"err {showErr e}"
        | .panic _ => "panic"
      | none => "bad-op"
    | _, _, _, _, _ => "bad-op"
  | ["dsp-recv", g, s, l, tree] =>
    match bit g, parseID (if s = "nil" then "-" else s), bit l,
        parseTree (2 * (splitOn1 tree '+').length + 2) (splitOn1 tree '+') with
    | some g, some sid, some l, some (t, []) =>
      let s : Option Sess := if s = "nil" then none else some { id := sid }
      match receive (!g) s l t with
      | .ok evs => s!"ok leaves={showREv evs}"
      | .err e => s!"err {showErr e}"
      | .panic _ => "panic"
    | _, _, _, _ => "bad-op"
  | _ => "bad-op"

end XMT.Dispatch.Drv
