/-
  XMT.DispatchLemmas — no-panic / postcondition lemmas for XMT.Dispatch (conn.process side).
-/
import XMT.Dispatch
namespace XMT.Dispatch
open XMT

theorem R.bind_eq {α β : Type} (x : R α) (f : α → R β) :
    (x >>= f) = (match x with | .ok a => f a | .err e => .err e | .panic s => .panic s) := rfl

theorem Post.bind {α β : Type} {x : R α} {f : α → R β} {Q : α → Prop} {Q' : β → Prop}
    (hx : x.Post Q) (hf : ∀ a, Q a → (f a).Post Q') : (x >>= f).Post Q' := by
  cases x with
  | ok a => exact hf a hx
  | err e => trivial
  | panic s => exact hx.elim

theorem Post.mono {α : Type} {x : R α} {Q Q' : α → Prop} (hx : x.Post Q) (h : ∀ a, Q a → Q' a) : x.Post Q' := by
  cases x with
  | ok a => exact h a hx
  | err e => trivial
  | panic s => exact hx.elim

theorem Post.noPanic {α : Type} {x : R α} {Q : α → Prop} (hx : x.Post Q) : x.isPanic = false := by
  cases x with
  | ok a => rfl
  | err e => rfl
  | panic s => exact hx.elim

@[simp] theorem hostP_some (x : Host) (s : String) : hostP (some x) s = .ok x := rfl
@[simp] theorem ptrP_some {α : Type} (x : α) (s : String) : ptrP (some x) s = .ok x := rfl
@[simp] theorem pure_eq {α : Type} (a : α) : (pure a : R α) = .ok a := rfl
@[simp] theorem ok_bind {α β : Type} (a : α) (f : α → R β) : (R.ok a >>= f) = f a := rfl
@[simp] theorem err_bind {α β : Type} (e : DErr) (f : α → R β) : (R.err e >>= f) = .err e := rfl
@[simp] theorem panic_bind {α β : Type} (s : String) (f : α → R β) : (R.panic s >>= f) = .panic s := rfl
@[simp] theorem Post_ok {α : Type} (Q : α → Prop) (a : α) : (R.ok a).Post Q = Q a := rfl
@[simp] theorem Post_err {α : Type} (Q : α → Prop) (e : DErr) : (R.err e : R α).Post Q = True := rfl
@[simp] theorem Post_panic {α : Type} (Q : α → Prop) (s : String) : (R.panic s : R α).Post Q = False := rfl

/-- `writeUnpack` never panics and keeps a non-nil destination non-nil -/
theorem writeUnpack_post (d : P) (s : Option P) : (writeUnpack (some d) s).Post (fun r => r.isSome = true) := by
  unfold writeUnpack
  cases s with
  | none => simp
  | some s =>
    simp only
    repeat' split
    all_goals simp

theorem writeUnpack_none (s : Option P) : writeUnpack none s = .ok none := by
  unfold writeUnpack; rfl

theorem processSingle_post (h : Srv) (c : Conn) (n : P) (o : Bool) (x : Host) (hc : c.host = some x) :
    (processSingle h c n o).Post (fun c' => c'.host = c.host ∧ c'.add = c.add ∧ c'.subs = c.subs ∧
      (o = false → c.add.length > 0 → c'.next.isSome = true)) := by
  unfold processSingle
  simp only [Conn.log, hc]
  repeat' split
  all_goals (try simp_all)
  cases hx : x.nxt with
  | none => simp
  | some v =>
    simp only
    exact Post.bind (writeUnpack_post _ _) (by intro a ha; simp [ha])

/-- invariant of the loop of processMultiple -/
def PMInv (x : Host) (c : Conn) : Prop := c.host = some x ∧ c.next.isSome = true ∧ c.subs.isSome = true

def msetT (l : SubMap) (k : Nat) (v : Bool) : SubMap :=
  if l.any (·.1 == k) then (l.map fun e => if e.1 == k then (k, v) else e) else (l ++ [(k, v)])

@[simp] theorem mset_some (m : SubMap) (k : Nat) (v : Bool) (s : String) : mset (some m) k v s = .ok (msetT m k v) := by
  simp only [mset, msetT]
  split <;> rfl

theorem writeUnpack_ok_some {d : P} {s r : Option P} (h : writeUnpack (some d) s = .ok r) : r.isSome = true := by
  have := writeUnpack_post d s
  rw [h] at this
  exact this

theorem writeUnpack_ne_panic {d : P} {s : Option P} {t : String} (h : writeUnpack (some d) s = .panic t) : False := by
  have := writeUnpack_post d s
  rw [h] at this
  exact this

macro "wu_close" : tactic => `(tactic| first
  | done
  | (exact (writeUnpack_ne_panic (by assumption)).elim)
  | (have := writeUnpack_ok_some (by assumption); simp_all; done)
  | skip)

theorem pmStep_post (h : Srv) (o : Bool) (c : Conn) (v : P) (x : Host) (hc : PMInv x c) :
    (pmStep true h o c v).Post (fun c' => PMInv x c' ∧ c'.add = c.add) := by
  obtain ⟨h1, h2, h3⟩ := hc
  obtain ⟨nx, hnx⟩ := Option.isSome_iff_exists.mp h2
  obtain ⟨m, hm⟩ := Option.isSome_iff_exists.mp h3
  unfold pmStep
  simp only [Conn.log, h1, hnx, hm, hostP_some, ptrP_some, ok_bind, mset_some]
  cases hr : (h.talkSub v.dev).r <;> simp only [ptrP, Option.isNone_none, Option.isNone_some, Bool.or_true, Bool.or_false]
  all_goals repeat' split
  all_goals (try simp_all [PMInv])
  all_goals wu_close
  all_goals repeat' split
  all_goals (try simp_all [PMInv])
  all_goals wu_close

macro "dsp_auto" : tactic => `(tactic| (
  (all_goals repeat' split)
  (all_goals (try simp_all))
  (all_goals wu_close)
  (all_goals repeat' split)
  (all_goals (try simp_all))
  (all_goals wu_close)))

theorem pmLoop_post (h : Srv) (o : Bool) (x : Host) : ∀ (k : Nat) (vs : List P) (c : Conn), PMInv x c →
    (pmLoop h o k vs c).Post (fun c' => PMInv x c' ∧ c'.add = c.add) := by
  intro k
  induction k with
  | zero => intro vs c hc; simp [pmLoop, hc]
  | succ k ih =>
    intro vs c hc
    unfold pmLoop
    obtain ⟨nx, hnx⟩ := Option.isSome_iff_exists.mp hc.2.1
    cases hu : unmarshalNext vs with
    | err e => simp [hnx]
    | panic s =>
      unfold unmarshalNext at hu
      split at hu
      · cases hu
      · split at hu <;> cases hu
    | ok r =>
      obtain ⟨v, vs'⟩ := r
      simp only
      have hs := pmStep_post h o c v x hc
      cases hp : pmStep true h o c v with
      | err e => trivial
      | panic s => rw [hp] at hs; exact hs.elim
      | ok c' =>
        rw [hp] at hs
        simp only
        exact Post.mono (ih vs' c' hs.1) (by intro a ha; exact ⟨ha.1, by rw [ha.2, hs.2]⟩)

theorem processMultiple_post (h : Srv) (c : Conn) (n : In) (o : Bool) (x : Host) (hc : c.host = some x) :
    (processMultiple h c n o).Post (fun c' => c'.host = c.host ∧ c'.next.isSome = true ∧ c'.add = c.add) := by
  unfold processMultiple
  by_cases hx : (Flag.len n.hd.flags == 0) = true
  · simp [hx, hc]
  · have key : ∀ c0 : Conn, c0.host = some x → c0.subs.isSome = true → c0.add = c.add →
        (do
          let hst ← hostP c0.host "processMultiple: c.host.clientID()"
          let c1 : Conn := { c0 with next := some { flags := fMulti ||| fMultiDevice, dev := hst.id } }
          let c2 ← pmLoop h o (Flag.len n.hd.flags) n.subs c1
          let _ ← hostP c2.host "processMultiple: c.host.keyCheckSync()"
          pure c2 : R Conn).Post (fun c' => c'.host = c.host ∧ c'.next.isSome = true ∧ c'.add = c.add) := by
      intro c0 h0 h1 h2
      simp only [h0, hostP_some, ok_bind]
      refine Post.bind (pmLoop_post h o x _ _ _ ⟨rfl, rfl, h1⟩) ?_
      intro a ha
      simp [ha.1.1, hc, ha.1.2.1, ha.2, h2]
    simp only [hx]
    cases hs : c.subs with
    | none => exact key { c with subs := some [] } hc rfl rfl
    | some m => exact key c hc (by simp [hs]) rfl

theorem addLoop_post (add : List (Option P)) (hadd : ∀ a ∈ add, a.isSome = true) :
    ∀ (k i : Nat) (nx : P), i + k ≤ add.length → (addLoop add k i (some nx)).Post (fun r => r.isSome = true) := by
  intro k
  induction k with
  | zero => intro i nx _; simp [addLoop]
  | succ k ih =>
    intro i nx hik
    unfold addLoop
    have hi : i < add.length := by omega
    have hai : add[i]? = some add[i] := List.getElem?_eq_getElem hi
    have hsome := hadd add[i] (List.getElem_mem hi)
    obtain ⟨a, ha⟩ := Option.isSome_iff_exists.mp hsome
    simp only [idxP, hai, ha, ok_bind, ptrP_some]
    split
    · trivial
    · cases hw : writeUnpack (some nx) (some a) with
      | err e => trivial
      | panic s => exact (writeUnpack_ne_panic hw).elim
      | ok r =>
        obtain ⟨r', hr'⟩ := Option.isSome_iff_exists.mp (writeUnpack_ok_some hw)
        subst hr'
        exact ih (i + 1) r' (by omega)

theorem process_post (h : Srv) (c : Conn) (n : In) (o : Bool) (x : Host) (hc : c.host = some x)
    (hadd : ∀ a ∈ c.add, a.isSome = true) :
    (process h c n o).Post (fun c' => c'.host = c.host ∧ (o = false → c'.next.isSome = true)) := by
  unfold process
  have h1 : (if has n.hd.flags fMultiDevice = true then processMultiple h c n o else processSingle h c n.hd o).Post
      (fun c' => c'.host = c.host ∧ c'.add = c.add) := by
    split
    · exact Post.mono (processMultiple_post h c n o x hc) (by intro a ha; exact ⟨ha.1, ha.2.2⟩)
    · exact Post.mono (processSingle_post h c n.hd o x hc) (by intro a ha; exact ⟨ha.1, ha.2.1⟩)
  refine Post.bind h1 ?_
  intro c1 ⟨hh, ha⟩
  rw [hc] at hh
  split
  · simp only [hh, hostP_some, ok_bind]
    split <;> simp_all [Conn.log]
  · -- o = false
    have h2 : (if c1.next.isNone = true then do
          let hst ← hostP c1.host "process: c.host.clientID()"
          if c1.add.length > 0 then pure { c1 with next := some { flags := fMulti ||| fMultiDevice, dev := hst.id } }
          else pure { c1 with next := some { dev := hst.id } }
        else pure c1 : R Conn).Post (fun c2 => c2.host = some x ∧ c2.add = c1.add ∧ c2.next.isSome = true) := by
      split
      · simp only [hh, hostP_some, ok_bind]
        split <;> simp [hh]
      · cases hcn : c1.next <;> simp_all
    refine Post.bind h2 ?_
    intro c2 ⟨hh2, ha2, hn2⟩
    obtain ⟨nx2, hnx2⟩ := Option.isSome_iff_exists.mp hn2
    have h3 : (if c2.add.length > 0 then do
          let nx ← addLoop c2.add c2.add.length 0 c2.next
          pure { c2 with next := nx, add := [] }
        else pure c2 : R Conn).Post (fun c3 => c3.host = some x ∧ c3.next.isSome = true) := by
      split
      · rw [hnx2]
        refine Post.bind (addLoop_post c2.add (by rw [ha2, ha]; exact hadd) _ 0 nx2 (by omega)) ?_
        intro r hr
        simp [hh2, hr]
      · simp [hh2, hn2]
    refine Post.bind h3 ?_
    intro c3 ⟨hh3, hn3⟩
    obtain ⟨nx3, hnx3⟩ := Option.isSome_iff_exists.mp hn3
    simp [hnx3, hh3, hc]

end XMT.Dispatch
