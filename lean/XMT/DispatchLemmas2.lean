/-
  XMT.DispatchLemmas2 — resolve / handle tail / receive: no-panic lemmas for XMT.Dispatch.
-/
import XMT.DispatchLemmas
namespace XMT.Dispatch
open XMT

/-- invariant of the tag loop of resolve -/
def RInv (c0 c : Conn) : Prop :=
  c.host = c0.host ∧ c.next = c0.next ∧ c.subs.isSome = true ∧ (∀ a ∈ c.add, a.isSome = true)

theorem tagStep_post (h : Srv) (s : Host) (o : Bool) (t : List Nat) (i : Nat) (c0 c : Conn) (hi : i < t.length)
    (hc : RInv c0 c) : (tagStep true h s o t i c).Post (fun r => RInv c0 r.2) := by
  obtain ⟨h1, h2, h3, h4⟩ := hc
  obtain ⟨m, hm⟩ := Option.isSome_iff_exists.mp h3
  have hti : t[i]? = some t[i] := List.getElem?_eq_getElem hi
  unfold tagStep
  simp only [idxP, hti, ok_bind, hm, mset_some, Conn.log]
  repeat' split
  all_goals (try simp_all [RInv])
  all_goals (
    intro a ha
    rcases ha with ha | ha
    · exact h4 a ha
    · simp [ha])

theorem tagLoop_post (h : Srv) (s : Host) (o : Bool) (t : List Nat) (c0 : Conn) :
    ∀ (k i : Nat) (c : Conn), i + k ≤ t.length → RInv c0 c → (tagLoop h s o t k i c).Post (RInv c0) := by
  intro k
  induction k with
  | zero => intro i c _ hc; simpa [tagLoop] using hc
  | succ k ih =>
    intro i c hik hc
    unfold tagLoop
    have hs := tagStep_post h s o t i c0 c (by omega) hc
    cases hp : tagStep true h s o t i c with
    | err e => trivial
    | panic s => rw [hp] at hs; exact hs.elim
    | ok r =>
      rw [hp] at hs
      obtain ⟨st, c'⟩ := r
      cases st with
      | cont => exact ih (i + 1) c' (by omega) hs
      | brk => exact hs

theorem foldl_log_host (l : List (Nat × Bool)) (f : Nat × Bool → String) (c : Conn) :
    (l.foldl (fun c e => c.log (f e)) c).host = c.host ∧ (l.foldl (fun c e => c.log (f e)) c).next = c.next ∧
    (l.foldl (fun c e => c.log (f e)) c).add = c.add ∧ (l.foldl (fun c e => c.log (f e)) c).subs = c.subs := by
  induction l generalizing c with
  | nil => simp
  | cons e l ih =>
    rw [List.foldl_cons]
    have := ih (c.log (f e))
    simpa [Conn.log] using this

theorem resolve_post (h : Srv) (c : Conn) (s : Host) (t : List Nat) (o : Bool)
    (hh : o = true → c.host.isSome = true) (hadd : ∀ a ∈ c.add, a.isSome = true) :
    (resolve h c s t o).Post (fun c' => c'.host = c.host ∧ c'.next = c.next ∧ (∀ a ∈ c'.add, a.isSome = true)) := by
  unfold resolve
  have h0 : RInv c (match c.subs with
      | none => { c with subs := some [] }
      | some m => { c with subs := some (m.map fun e => (e.1, false)) }) := by
    cases c.subs <;> exact ⟨rfl, rfl, rfl, hadd⟩
  simp only [pure_eq, ok_bind]
  refine Post.bind (tagLoop_post h s o t c t.length 0 _ (by omega) h0) ?_
  intro c1 ⟨g1, g2, g3, g4⟩
  cases o with
  | false => simp [g1, g2]; exact g4
  | true =>
    simp only [Bool.not_true, Bool.false_eq_true, if_false]
    obtain ⟨x, hx⟩ := Option.isSome_iff_exists.mp (hh rfl)
    split
    · simp [foldl_log_host, g1, g2]; exact g4
    · simp only [foldl_log_host, g1, hx, hostP_some, ok_bind, Post_ok]
      simp [foldl_log_host, g1, g2, hx]; exact g4

theorem startP_post (v : Conn) (x : Host) (hv : v.host = some x) : (startP v).Post (fun _ => True) := by
  unfold startP
  simp only [hv, hostP_some, foldl_log_host]
  split <;> simp

theorem handleTail_post (v : Conn) (e nChan wErr : Bool) (hn : v.next.isSome = true) :
    (handleTail true (some v) e nChan wErr).Post (fun _ => True) := by
  obtain ⟨nx, hnx⟩ := Option.isSome_iff_exists.mp hn
  unfold handleTail
  simp only [ptrP_some, ok_bind, hnx]
  cases hh : v.host with
  | none =>
    simp only [Option.isSome_none, Option.isNone_none, Bool.and_false, Bool.false_or, Bool.not_true, Bool.false_and]
    repeat' split
    all_goals simp_all
  | some x =>
    have hs := startP_post v x hh
    simp only [Option.isSome_some, Option.isNone_some, Bool.and_true, Bool.true_or, Bool.true_and, hostP_some, ok_bind]
    repeat' split
    all_goals (try simp)
    all_goals (exact Post.bind hs (by intro a _; simp))


theorem isPanic_bind {α β : Type} (x : R α) (f : α → R β) (hx : x.isPanic = false)
    (hf : ∀ a, (f a).isPanic = false) : (x >>= f).isPanic = false := by
  cases x with
  | ok a => exact hf a
  | err e => rfl
  | panic s => cases hx

theorem recvPre_none_some {s : Option Sess} {l : Bool} {n : P} {e : Bool} (h : recvPre s l n e = none) :
    s.isSome = true := by
  unfold recvPre at h
  cases s with
  | some x => rfl
  | none =>
    repeat' split at h
    all_goals simp_all

theorem recvPre_np (s : Option Sess) (l : Bool) (n : P) (e : Bool) (r : R (List REv))
    (h : recvPre s l n e = some r) : r.isPanic = false := by
  unfold recvPre at h
  repeat' split at h
  all_goals (try cases h)
  all_goals rfl

theorem recvSingle_np (s : Option Sess) (n : P) : (recvSingle s n).isPanic = false := by
  unfold recvSingle; cases s <;> rfl

mutual
theorem receive_np (s : Option Sess) (l : Bool) : ∀ t : Tree, (receive false s l t).isPanic = false
  | .node n e kids => by
    unfold receive
    simp only [Bool.false_eq_true, if_false]
    cases hp : recvPre s l n e with
    | some r => exact recvPre_np s l n e r hp
    | none =>
      obtain ⟨x, hx⟩ := Option.isSome_iff_exists.mp (recvPre_none_some hp)
      subst hx
      simp only [ptrP_some, ok_bind]
      have hall := receiveAll_np (some x) l (Flag.len n.flags) kids
      repeat' split
      all_goals (try rfl)
      all_goals (try exact hall)
      all_goals (try (exact recvSingle_np _ _))
      all_goals (try (rename_i r hr; exact recvPre_np _ _ _ _ r hr))
      all_goals (try (simp [recvSingle]; done))
theorem receiveAll_np (s : Option Sess) (l : Bool) : ∀ (x : Nat) (ts : List Tree),
    (receiveAll false s l x ts).isPanic = false
  | 0, _ => by unfold receiveAll; rfl
  | _ + 1, [] => by unfold receiveAll; rfl
  | x + 1, v :: vs => by
    unfold receiveAll
    split
    · rfl
    · exact isPanic_bind _ _ (receive_np s l v) (fun a =>
        isPanic_bind _ _ (receiveAll_np s l x vs) (fun b => rfl))
end

end XMT.Dispatch
