/-
  XMT.Dns — executable model of the DNS transform framing (c2/transform/dns.go):
  encodePacket / encodePackets / decodePacket / decodePackets / DNSTransform.Read/Write.
  The random bytes (`util.FastRand`) are an input (`r : Nat → UInt8`, one per packet).  Panics (index out of range) are values.
-/
import XMT.Base
import XMT.Generated.Facts
namespace XMT.Dns
open XMT

def dnsMax : Nat := Facts.dnsMax
def dnsSeg : Nat := Facts.dnsSeg
/-- `len(dnsPacket.b)` -/
def pktCap : Nat := Facts.dnsPacketCap

/-- `strings.Split(s, ".")` on the bytes of the domain (never the empty list). -/
def splitDots : Bytes → List Bytes
  | [] => [[]]
  | c :: cs =>
    if c = 0x2E then [] :: splitDots cs
    else match splitDots cs with
      | l :: ls => (c :: l) :: ls
      | [] => [[c]]

/-- The label loop of `encodePacket` (after the repair): empty labels are skipped, a label is cut
to 63 bytes, each is written as length byte + bytes. -/
def encName : List Bytes → Bytes
  | [] => []
  | e :: es =>
    if e.length = 0 then encName es
    else
      let e := if e.length > 63 then e.take 63 else e
      byteOf e.length :: e ++ encName es

/-- The segment loop `for x, j := 0, 256; x < t && i < len(b) && i < c; x++`; returns the bytes
written and the final `i`. `fuel` counts `t - x`. -/
def encSegs (b : Bytes) (c : Nat) : Nat → Nat → Nat → Bytes × Nat
  | 0, i, _ => ([], i)
  | fuel+1, i, j =>
    if i < b.length ∧ i < c then
      let j := if b.length - i < 256 then b.length - i else j
      let hdr : Bytes := [192, 12, 0, 10, 0, 1, 0, 0, 0, 0, byteOf (j >>> 8), byteOf j]
      let r := encSegs b c fuel (i + ((b.drop i).take j).length) j
      (hdr ++ (b.drop i).take j ++ r.1, r.2)
    else ([], i)

/-- `encodePacket(w, u, b, s)`: the bytes written to the packet buffer and the count consumed. -/
def encodePacket (server : Bool) (r : Nat → UInt8) (b : Bytes) (dom : Bytes) : Bytes × Nat :=
  let c := if b.length > dnsMax then dnsMax else b.length
  let t := c / dnsSeg
  let t := if t * dnsSeg < c ∨ t = 0 then t + 1 else t
  let flags : Bytes := if server then [132, 128, 0, 1, 0, 1, 0, 0] else [1, 0, 0, 1, 0, 0, 0, 0]
  let hdr : Bytes := [r 0, r 1] ++ flags ++ [byteOf (t >>> 8), byteOf t]
  let ans : Bytes := if server then
    [192, 12, 0, 1, 0, 1, 0, 0, 3, r 2, 0, 4, r 3, r 4, r 5, r 6] else []
  let segs := encSegs b c t 0 256
  (hdr ++ encName (splitDots dom) ++ [0, 0, 1, 0, 1] ++ ans ++ segs.1, segs.2)

/-- `encodePackets`: one `Flush` (= one `Write` on the connection) per packet; `false` when a packet
does not fit the 4096-byte packet buffer (the short-write error path). `rs` = random bytes per packet. -/
def encodePackets (server : Bool) (dom : Bytes) : Nat → List (Nat → UInt8) → Bytes → List Bytes × Bool
  | 0, _, b => ([], b.isEmpty)
  | fuel+1, rs, b =>
    if b.isEmpty then ([], true)
    else
      let p := encodePacket server (rs.headD fun _ => 0) b dom
      if p.1.length > pktCap ∨ p.2 = 0 then ([], false)
      else
        let r := encodePackets server dom fuel rs.tail (b.drop p.2)
        (p.1 :: r.1, r.2)

/-- `DNSTransform.Write(b, w)`: the writes on `w`, or `none` = `io.ErrShortWrite`. -/
def write (server : Bool) (dom : Bytes) (rs : List (Nat → UInt8)) (b : Bytes) : Option (List Bytes) :=
  let r := encodePackets server dom b.length rs b
  if r.2 then some r.1 else none

/-! ### Decoder -/

inductive DErr | ueof | noProgress | panic
  deriving DecidableEq, Repr

def idx (b : Bytes) (i : Nat) : Except DErr UInt8 :=
  match b[i]? with | some v => .ok v | none => .error .panic

def be (hi lo : UInt8) : Nat := hi.toNat <<< 8 ||| lo.toNat

/-- The label loop `for i := 0; i < 64; {…}`: returns the new `s`. -/
def nameLoop (b : Bytes) : Nat → Nat → Nat → Except DErr Nat
  | 0, _, _ => .error .ueof
  | fuel+1, i, s =>
    if i < 64 then
      if i ≥ b.length ∨ s > b.length then .error .ueof
      else do
        let v ← idx b s
        if v = 0 then .ok (s + 1) else nameLoop b fuel v.toNat (s + v.toNat + 1)
    else .ok s

def questions (b : Bytes) : Nat → Nat → Except DErr Nat
  | 0, s => .ok s
  | q+1, s => do
    let s ← nameLoop b (b.length + 2) 0 s
    let s := s + 4
    if s ≥ b.length then .error .ueof else questions b q s

def answers (b : Bytes) : Nat → Nat → Except DErr Nat
  | 0, s => .ok s
  | c+1, s => do
    let s := s + 10
    if s > b.length then .error .ueof
    else do
      let hi ← idx b s
      let lo ← idx b (s + 1)
      answers b c (s + (be hi lo + 2))

/-- The data records; returns the `Write` calls on `w` and the final `s`. -/
def records (b : Bytes) : Nat → Nat → Except DErr (List Bytes × Nat)
  | 0, s => .ok ([], s)
  | t+1, s =>
    if s + 6 ≥ b.length then .error .ueof
    else do
      let b0 ← idx b s; let b1 ← idx b (s+1); let b2 ← idx b (s+2)
      let b3 ← idx b (s+3); let b4 ← idx b (s+4); let b5 ← idx b (s+5)
      if b0 ≠ 0xC0 ∨ b1 ≠ 0x0C ∨ b2 ≠ 0 ∨ b3 ≠ 0xA ∨ b4 ≠ 0 ∨ b5 ≠ 1 then .error .noProgress
      else do
        let s := s + 10
        let hi ← idx b s
        let lo ← idx b (s + 1)
        let i := be hi lo
        let s := s + 2
        if s + i > b.length then .error .panic      -- b[s : s+i]
        else do
          let r ← records b t (s + i)
          .ok ((b.drop s).take i :: r.1, r.2)

/-- `decodePacket(w, b)` -/
def decodePacket (b : Bytes) : Except DErr (List Bytes × Nat) := do
  let _ ← idx b 12
  let q := be (← idx b 4) (← idx b 5)
  let c := be (← idx b 6) (← idx b 7)
  let t := be (← idx b 10) (← idx b 11)
  let s ← questions b q 12
  let s ← answers b c s
  records b t s

/-- `decodePackets(w, b)`: `(writes, i, err)`. -/
def decodePackets (b : Bytes) : Nat → Nat → List Bytes × Nat × Option DErr
  | 0, i => ([], i, none)
  | fuel+1, i =>
    if i < b.length then
      match decodePacket (b.drop i) with
      | .error e => ([], i, some e)
      | .ok (ws, n) =>
        let r := decodePackets b fuel (i + n)
        (ws ++ r.1, r.2.1, r.2.2)
    else ([], i, none)

/-- `DNSTransform.Read(b, w)`: the `Write` calls made on `w` before returning and the error. -/
def read (b : Bytes) : List Bytes × Option DErr :=
  if b.length = 0 then ([], none)
  else
    let r := decodePackets b b.length 0
    match r.2.2 with
    | some e => (r.1, some e)
    | none => if b.length ≠ r.2.1 then (r.1, some .ueof) else (r.1, none)

end XMT.Dns
