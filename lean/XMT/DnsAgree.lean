/-
  XMT.DnsAgree — the two Lean models of the DNS reader (`DNSTransform.Read`, c2/transform/dns.go)
  agree on every successful run:
    (A) `XMT.Dns.read`         (C07 model, written before the reader was repaired; panics are values)
    (B) `XMT.Decode.Dns.read`  (C04 model of the REPAIRED reader, tied to the Go code by a differential run)
  `read_agrees` / `read_agrees_conv` / `read_agrees_iff`: B succeeds with payload `w` exactly when A returns
  no error and chunks whose concatenation is `w`.  Corollary `dns_roundtrip_c04`: the C07 round trip holds
  against model B, so that B is the one reader model the round trip rests on.
-/
import XMT.Dns
import XMT.DecodeDns
import XMT.DnsLemmas
import XMT.DnsRoundtrip

namespace XMT.DnsAgree
open XMT

/-! ### index helpers -/

theorem idxA_lt {b : Bytes} {i : Nat} (h : i < b.length) : Dns.idx b i = .ok b[i] := by
  simp [Dns.idx, List.getElem?_eq_getElem h]

theorem idxA_ge {b : Bytes} {i : Nat} (h : b.length ≤ i) : Dns.idx b i = .error .panic := by
  simp [Dns.idx, List.getElem?_eq_none h]

theorem idxB_lt {b : Bytes} {i : Nat} (h : i < b.length) : Decode.Dns.idx b i = some b[i].toNat := by
  simp [Decode.Dns.idx, List.getElem?_eq_getElem h]

/-- an index that succeeded in model A was in range -/
theorem idxA_ok {b : Bytes} {i : Nat} {v : UInt8} (h : Dns.idx b i = .ok v) : i < b.length := by
  by_cases hl : i < b.length
  · exact hl
  · rw [idxA_ge (by omega)] at h; cases h

theorem toNat_eq_zero (v : UInt8) : v.toNat = 0 ↔ v = 0 := by
  rw [← UInt8.toNat_inj]; simp

theorem hdr_iff (a0 a1 a2 a3 a4 a5 : UInt8) :
    (a0.toNat ≠ 0xC0 ∨ a1.toNat ≠ 0x0C ∨ a2.toNat ≠ 0 ∨ a3.toNat ≠ 0xA ∨ a4.toNat ≠ 0 ∨ a5.toNat ≠ 1) ↔
    (a0 ≠ 0xC0 ∨ a1 ≠ 0x0C ∨ a2 ≠ 0 ∨ a3 ≠ 0xA ∨ a4 ≠ 0 ∨ a5 ≠ 1) := by
  simp [← UInt8.toNat_inj]

/-! ### label walk -/

/-- B → A: a label walk that succeeds in B with fuel `f` succeeds in A with any fuel `f' ≥ f`. -/
theorem labelsBA (f : Nat) (b : Bytes) (s i s' f' : Nat) (hf : f ≤ f')
    (h : Decode.Dns.labels f b s i = .ok s') : Dns.nameLoop b f' i s = .ok s' := by
  induction f generalizing s i f' with
  | zero => simp [Decode.Dns.labels] at h
  | succ n ih =>
    obtain ⟨m, rfl⟩ : ∃ m, f' = m + 1 := ⟨f' - 1, by omega⟩
    unfold Decode.Dns.labels at h
    unfold Dns.nameLoop
    by_cases h1 : i < 64
    · simp only [h1, not_true_eq_false, if_false, if_true] at h ⊢
      by_cases h2 : i ≥ b.length ∨ s ≥ b.length
      · simp only [h2, if_true] at h; cases h
      · simp only [h2, if_false] at h
        have hs : s < b.length := by omega
        have h2' : ¬ (i ≥ b.length ∨ s > b.length) := by omega
        simp only [h2', if_false]
        rw [idxB_lt hs] at h
        rw [idxA_lt hs]
        simp only [bind, Except.bind] at h ⊢
        by_cases hv : b[s] = 0
        · simp only [hv, if_true] at h ⊢
          injection h with h; rw [h]
        · have hv' : ¬ b[s].toNat = 0 := fun e => hv ((toNat_eq_zero _).1 e)
          simp only [hv, hv', if_false] at h ⊢
          exact ih _ _ _ (by omega) h
    · simp only [h1, not_false_eq_true, if_true, if_false] at h ⊢
      injection h with h; rw [h]

/-- A → B: a label walk that succeeds in A either gives the same result in B or B runs out of fuel. -/
theorem labelsAB (f : Nat) (b : Bytes) (s i s' f' : Nat)
    (h : Dns.nameLoop b f i s = .ok s') :
    Decode.Dns.labels f' b s i = .ok s' ∨ Decode.Dns.labels f' b s i = .hang := by
  induction f generalizing s i f' with
  | zero => simp [Dns.nameLoop] at h
  | succ n ih =>
    cases f' with
    | zero => right; rfl
    | succ m =>
      unfold Dns.nameLoop at h
      unfold Decode.Dns.labels
      by_cases h1 : i < 64
      · simp only [h1, not_true_eq_false, if_false, if_true] at h ⊢
        by_cases h2 : i ≥ b.length ∨ s > b.length
        · simp only [h2, if_true] at h; cases h
        · simp only [h2, if_false] at h
          by_cases hs : s < b.length
          · have h2' : ¬ (i ≥ b.length ∨ s ≥ b.length) := by omega
            simp only [h2', if_false]
            rw [idxA_lt hs] at h
            rw [idxB_lt hs]
            simp only [bind, Except.bind] at h ⊢
            by_cases hv : b[s] = 0
            · simp only [hv, if_true] at h ⊢
              injection h with h; rw [h]; left; rfl
            · have hv' : ¬ b[s].toNat = 0 := fun e => hv ((toNat_eq_zero _).1 e)
              simp only [hv, hv', if_false] at h ⊢
              exact ih _ _ _ h
          · rw [idxA_ge (by omega)] at h
            simp only [bind, Except.bind] at h; cases h
      · simp only [h1, not_false_eq_true, if_true, if_false] at h ⊢
        injection h with h; rw [h]; left; rfl

/-! ### questions -/

theorem questionsBA (q : Nat) (b : Bytes) (s s' : Nat)
    (h : Decode.Dns.questions q b s = .ok s') : Dns.questions b q s = .ok s' := by
  induction q generalizing s with
  | zero => simp only [Decode.Dns.questions] at h; injection h with h; rw [h]; rfl
  | succ n ih =>
    unfold Decode.Dns.questions at h
    unfold Dns.questions
    cases hr : Decode.Dns.labels (b.length + 1) b s 0 with
    | ok s1 =>
      rw [hr] at h
      simp only [] at h
      rw [labelsBA _ b s 0 s1 (b.length + 2) (by omega) hr]
      simp only [bind, Except.bind]
      by_cases h1 : s1 + 4 ≥ b.length
      · simp only [h1, if_true] at h; cases h
      · simp only [h1, if_false] at h ⊢
        exact ih _ h
    | err e => rw [hr] at h; cases h
    | panic m => rw [hr] at h; cases h
    | hang => rw [hr] at h; cases h

theorem questionsAB (q : Nat) (b : Bytes) (s s' : Nat) (hs : 1 ≤ s)
    (h : Dns.questions b q s = .ok s') : Decode.Dns.questions q b s = .ok s' := by
  induction q generalizing s with
  | zero => simp only [Dns.questions] at h; injection h with h; rw [h]; rfl
  | succ n ih =>
    unfold Dns.questions at h
    unfold Decode.Dns.questions
    cases hr : Dns.nameLoop b (b.length + 2) 0 s with
    | error e => rw [hr] at h; simp only [bind, Except.bind] at h; cases h
    | ok s1 =>
      rw [hr] at h
      simp only [bind, Except.bind] at h
      have hl := Decode.Dns.labels_fine (b.length + 1) b s 0 (by omega) (by omega)
      have hB : Decode.Dns.labels (b.length + 1) b s 0 = .ok s1 := by
        rcases labelsAB _ b s 0 s1 (b.length + 1) hr with e | e
        · exact e
        · rw [e] at hl; exact absurd hl.1 (by simp [Decode.Dns.Fine])
      have hle := hl.2 s1 hB
      rw [hB]
      simp only []
      by_cases h1 : s1 + 4 ≥ b.length
      · simp only [h1, if_true] at h; cases h
      · simp only [h1, if_false] at h ⊢
        exact ih _ (by omega) h

/-! ### answers -/

theorem answersBA (c : Nat) (b : Bytes) (s s' : Nat)
    (h : Decode.Dns.answers c b s = .ok s') : Dns.answers b c s = .ok s' := by
  induction c generalizing s with
  | zero => simp only [Decode.Dns.answers] at h; injection h with h; rw [h]; rfl
  | succ n ih =>
    unfold Decode.Dns.answers at h
    unfold Dns.answers
    by_cases h1 : s + 10 + 2 > b.length
    · simp only [h1, if_true] at h; cases h
    · simp only [h1, if_false] at h
      have hx : s + 10 < b.length := by omega
      have hy : s + 10 + 1 < b.length := by omega
      rw [idxB_lt hx, idxB_lt hy] at h
      simp only [] at h
      have h1' : ¬ (s + 10 > b.length) := by omega
      simp only [h1', if_false, idxA_lt hx, idxA_lt hy, bind, Except.bind]
      exact ih _ h

theorem answersAB (c : Nat) (b : Bytes) (s s' : Nat)
    (h : Dns.answers b c s = .ok s') : Decode.Dns.answers c b s = .ok s' := by
  induction c generalizing s with
  | zero => simp only [Dns.answers] at h; injection h with h; rw [h]; rfl
  | succ n ih =>
    unfold Dns.answers at h
    unfold Decode.Dns.answers
    by_cases hy : s + 10 + 1 < b.length
    · have hx : s + 10 < b.length := by omega
      have h1' : ¬ (s + 10 > b.length) := by omega
      simp only [h1', if_false, idxA_lt hx, idxA_lt hy, bind, Except.bind] at h
      have h1 : ¬ (s + 10 + 2 > b.length) := by omega
      simp only [h1, if_false]
      rw [idxB_lt hx, idxB_lt hy]
      simp only []
      exact ih _ h
    · exfalso
      by_cases h1 : s + 10 > b.length
      · simp only [h1, if_true] at h; cases h
      · simp only [h1, if_false] at h
        by_cases hx : s + 10 < b.length
        · rw [idxA_lt hx, idxA_ge (show b.length ≤ s + 10 + 1 by omega)] at h
          simp only [bind, Except.bind] at h; cases h
        · rw [idxA_ge (show b.length ≤ s + 10 by omega)] at h
          simp only [bind, Except.bind] at h; cases h

/-! ### data records -/

/-- B → A, accumulator generalised: what B appends to `w` is the concatenation of A's chunks. -/
theorem additionalBA (t : Nat) (b : Bytes) (s : Nat) (w : Bytes) (n : Nat) (w' : Bytes)
    (h : Decode.Dns.additional t b s w = .ok (n, w')) :
    ∃ ws, Dns.records b t s = .ok (ws, n) ∧ w' = w ++ ws.flatten := by
  induction t generalizing s w with
  | zero =>
    simp only [Decode.Dns.additional] at h
    injection h with h; injection h with h1 h2
    exact ⟨[], by rw [h1]; rfl, by simp [h2]⟩
  | succ k ih =>
    unfold Decode.Dns.additional at h
    unfold Dns.records
    by_cases h1 : s + 12 > b.length
    · simp only [h1, if_true] at h; cases h
    · simp only [h1, if_false] at h
      have g0 : s < b.length := by omega
      have g1 : s + 1 < b.length := by omega
      have g2 : s + 2 < b.length := by omega
      have g3 : s + 3 < b.length := by omega
      have g4 : s + 4 < b.length := by omega
      have g5 : s + 5 < b.length := by omega
      have gx : s + 10 < b.length := by omega
      have gy : s + 10 + 1 < b.length := by omega
      rw [idxB_lt g0, idxB_lt g1, idxB_lt g2, idxB_lt g3, idxB_lt g4, idxB_lt g5] at h
      simp only [] at h
      have h1' : ¬ (s + 6 ≥ b.length) := by omega
      simp only [h1', if_false, idxA_lt g0, idxA_lt g1, idxA_lt g2, idxA_lt g3, idxA_lt g4, idxA_lt g5,
        bind, Except.bind]
      simp only [hdr_iff] at h
      split at h
      · cases h
      · rename_i hh
        simp only [hh, if_false]
        rw [idxB_lt gx, idxB_lt gy] at h
        simp only [] at h
        simp only [idxA_lt gx, idxA_lt gy]
        split at h
        · cases h
        · rename_i hg
          rw [Decode.Dns.sliceP_some (by omega) (by omega)] at h
          simp only [] at h
          have hg' : ¬ (s + 10 + 2 + Dns.be b[s + 10] b[s + 10 + 1] > b.length) := by
            unfold Dns.be; omega
          simp only [hg', if_false]
          obtain ⟨ws, e1, e2⟩ := ih _ _ h
          have e1' : Dns.records b k (s + 10 + 2 + Dns.be b[s + 10] b[s + 10 + 1]) = .ok (ws, n) := by
            rw [← e1]; rfl
          rw [e1']
          refine ⟨_, rfl, ?_⟩
          rw [e2]
          simp only [List.flatten_cons, List.append_assoc]
          congr 2
          unfold Dns.be
          congr 1
          omega

/-- A → B, for every accumulator `w`. -/
theorem recordsAB (t : Nat) (b : Bytes) (s : Nat) (ws : List Bytes) (n : Nat)
    (h : Dns.records b t s = .ok (ws, n)) (w : Bytes) :
    Decode.Dns.additional t b s w = .ok (n, w ++ ws.flatten) := by
  induction t generalizing s w ws with
  | zero =>
    simp only [Dns.records] at h
    injection h with h; injection h with h1 h2
    subst h1; subst h2
    simp [Decode.Dns.additional]
  | succ k ih =>
    unfold Dns.records at h
    unfold Decode.Dns.additional
    by_cases h1 : s + 6 ≥ b.length
    · simp only [h1, if_true] at h; cases h
    · simp only [h1, if_false] at h
      have g0 : s < b.length := by omega
      have g1 : s + 1 < b.length := by omega
      have g2 : s + 2 < b.length := by omega
      have g3 : s + 3 < b.length := by omega
      have g4 : s + 4 < b.length := by omega
      have g5 : s + 5 < b.length := by omega
      simp only [idxA_lt g0, idxA_lt g1, idxA_lt g2, idxA_lt g3, idxA_lt g4, idxA_lt g5,
        bind, Except.bind] at h
      split at h
      · cases h
      · rename_i hh
        by_cases gy : s + 10 + 1 < b.length
        · have gx : s + 10 < b.length := by omega
          simp only [idxA_lt gx, idxA_lt gy] at h
          split at h
          · cases h
          · rename_i hg
            cases hr : Dns.records b k (s + 10 + 2 + Dns.be b[s + 10] b[s + 10 + 1]) with
            | error e => rw [hr] at h; cases h
            | ok r =>
              rw [hr] at h
              obtain ⟨ws1, n1⟩ := r
              simp only [] at h
              injection h with h; injection h with e1 e2
              subst e1; subst e2
              have h12 : ¬ (s + 12 > b.length) := by omega
              simp only [h12, if_false]
              rw [idxB_lt g0, idxB_lt g1, idxB_lt g2, idxB_lt g3, idxB_lt g4, idxB_lt g5]
              simp only []
              simp only [hdr_iff]
              simp only [hh, if_false]
              rw [idxB_lt gx, idxB_lt gy]
              simp only []
              have hbe : Dns.be b[s + 10] b[s + 10 + 1] = (b[s + 10].toNat <<< 8 ||| b[s + 10 + 1].toNat) := rfl
              rw [hbe] at hg hr
              have hg' : ¬ (s + 12 + (b[s + 10].toNat <<< 8 ||| b[s + 10 + 1].toNat) > b.length) := by omega
              simp only [hg', if_false]
              rw [Decode.Dns.sliceP_some (by omega) (by omega)]
              simp only []
              have hr' : Dns.records b k (s + 12 + (b[s + 10].toNat <<< 8 ||| b[s + 10 + 1].toNat)) = .ok (ws1, n1) := by
                rw [← hr]
              rw [ih _ _ hr']
              simp only [List.flatten_cons, List.append_assoc]
              rw [hbe, Nat.add_sub_cancel_left]
        · exfalso
          by_cases gx : s + 10 < b.length
          · simp only [idxA_lt gx, idxA_ge (show b.length ≤ s + 10 + 1 by omega)] at h; cases h
          · simp only [idxA_ge (show b.length ≤ s + 10 by omega)] at h; cases h

/-! ### one message -/

/-- B → A for `decodePacket`: same count consumed, A's chunks concatenate to B's bytes. -/
theorem decodePacketBA (b : Bytes) (n : Nat) (w : Bytes)
    (h : Decode.Dns.decodePacket b = .ok (n, w)) :
    ∃ ws, Dns.decodePacket b = .ok (ws, n) ∧ ws.flatten = w := by
  unfold Decode.Dns.decodePacket at h
  unfold Dns.decodePacket
  by_cases h1 : b.length < 13
  · simp only [h1, if_true] at h; cases h
  · simp only [h1, if_false] at h
    have g4 : 4 < b.length := by omega
    have g5 : 5 < b.length := by omega
    have g6 : 6 < b.length := by omega
    have g7 : 7 < b.length := by omega
    have g10 : 10 < b.length := by omega
    have g11 : 11 < b.length := by omega
    have g12 : 12 < b.length := by omega
    rw [idxB_lt g4, idxB_lt g5, idxB_lt g6, idxB_lt g7, idxB_lt g10, idxB_lt g11, idxB_lt g12] at h
    simp only [] at h
    simp only [idxA_lt g4, idxA_lt g5, idxA_lt g6, idxA_lt g7, idxA_lt g10, idxA_lt g11, idxA_lt g12,
      bind, Except.bind, Dns.be]
    cases hq : Decode.Dns.questions (b[4].toNat <<< 8 ||| b[5].toNat) b 12 with
    | ok s =>
      rw [hq] at h
      simp only [] at h
      rw [questionsBA _ _ _ _ hq]
      simp only []
      cases ha : Decode.Dns.answers (b[6].toNat <<< 8 ||| b[7].toNat) b s with
      | ok s2 =>
        rw [ha] at h
        simp only [] at h
        rw [answersBA _ _ _ _ ha]
        simp only []
        obtain ⟨ws, e1, e2⟩ := additionalBA _ _ _ _ _ _ h
        exact ⟨ws, e1, by simp [e2]⟩
      | err e => rw [ha] at h; cases h
      | panic m => rw [ha] at h; cases h
      | hang => rw [ha] at h; cases h
    | err e => rw [hq] at h; cases h
    | panic m => rw [hq] at h; cases h
    | hang => rw [hq] at h; cases h

/-- A → B for `decodePacket`. -/
theorem decodePacketAB (b : Bytes) (ws : List Bytes) (n : Nat)
    (h : Dns.decodePacket b = .ok (ws, n)) :
    Decode.Dns.decodePacket b = .ok (n, ws.flatten) := by
  unfold Dns.decodePacket at h
  unfold Decode.Dns.decodePacket
  by_cases g12 : 12 < b.length
  · have h1 : ¬ (b.length < 13) := by omega
    have g4 : 4 < b.length := by omega
    have g5 : 5 < b.length := by omega
    have g6 : 6 < b.length := by omega
    have g7 : 7 < b.length := by omega
    have g10 : 10 < b.length := by omega
    have g11 : 11 < b.length := by omega
    simp only [h1, if_false]
    rw [idxB_lt g4, idxB_lt g5, idxB_lt g6, idxB_lt g7, idxB_lt g10, idxB_lt g11, idxB_lt g12]
    simp only []
    simp only [idxA_lt g4, idxA_lt g5, idxA_lt g6, idxA_lt g7, idxA_lt g10, idxA_lt g11, idxA_lt g12,
      bind, Except.bind, Dns.be] at h
    cases hq : Dns.questions b (b[4].toNat <<< 8 ||| b[5].toNat) 12 with
    | error e => rw [hq] at h; cases h
    | ok s =>
      rw [hq] at h
      simp only [] at h
      rw [questionsAB _ _ _ _ (by omega) hq]
      simp only []
      cases ha : Dns.answers b (b[6].toNat <<< 8 ||| b[7].toNat) s with
      | error e => rw [ha] at h; cases h
      | ok s2 =>
        rw [ha] at h
        simp only [] at h
        rw [answersAB _ _ _ _ ha]
        simp only []
        have := recordsAB _ _ _ _ _ h []
        simpa using this
  · rw [idxA_ge (show b.length ≤ 12 by omega)] at h
    simp only [bind, Except.bind] at h; cases h

/-! ### the message loop -/

/-- B → A for the loop over messages; A needs fuel `f'` with `len b ≤ f' + i` (each message consumes
at least 12 bytes, so A's own fuel `len b` suffices). -/
theorem packetsBA (f : Nat) (b : Bytes) (i : Nat) (w : Bytes) (n : Nat) (w' : Bytes) (f' : Nat)
    (hf : b.length ≤ f' + i) (h : Decode.Dns.packets f b i w = .ok (n, w')) :
    ∃ ws, Dns.decodePackets b f' i = (ws, n, none) ∧ w' = w ++ ws.flatten := by
  induction f generalizing i w f' with
  | zero => simp [Decode.Dns.packets] at h
  | succ m ih =>
    unfold Decode.Dns.packets at h
    by_cases h1 : i < b.length
    · simp only [h1, not_true_eq_false, if_false] at h
      rw [Decode.Dns.sliceFromP_some (by omega)] at h
      simp only [] at h
      obtain ⟨g, rfl⟩ : ∃ g, f' = g + 1 := ⟨f' - 1, by omega⟩
      unfold Dns.decodePackets
      simp only [h1, if_true]
      cases hr : Decode.Dns.decodePacket (b.drop i) with
      | ok r =>
        obtain ⟨k, wk⟩ := r
        rw [hr] at h
        simp only [] at h
        have hk := (Decode.Dns.decodePacket_fine (b.drop i)).2 _ hr
        simp only [] at hk
        obtain ⟨ws1, e1, e2⟩ := decodePacketBA _ _ _ hr
        rw [e1]
        simp only []
        obtain ⟨ws2, e3, e4⟩ := ih (i + k) (w ++ wk) g (by omega) h
        rw [e3]
        refine ⟨ws1 ++ ws2, rfl, ?_⟩
        rw [e4, ← e2]
        simp
      | err e => rw [hr] at h; cases h
      | panic m => rw [hr] at h; cases h
      | hang => rw [hr] at h; cases h
    · simp only [h1, not_false_eq_true, if_true] at h
      injection h with h; injection h with e1 e2
      subst e1; subst e2
      refine ⟨[], ?_, by simp⟩
      cases f' with
      | zero => rfl
      | succ g => unfold Dns.decodePackets; simp only [h1, if_false]

/-- A → B for the loop over messages (A's loop ended at or past the end of the input, which is what
`Read` then checks). -/
theorem packetsAB (f : Nat) (b : Bytes) (i : Nat) (ws : List Bytes) (n : Nat) (hn : b.length ≤ n)
    (h : Dns.decodePackets b f i = (ws, n, none)) (f' : Nat) (hf1 : 1 ≤ f')
    (hf : b.length + 1 ≤ f' + i) (w : Bytes) :
    Decode.Dns.packets f' b i w = .ok (n, w ++ ws.flatten) := by
  induction f generalizing i ws f' w with
  | zero =>
    simp only [Dns.decodePackets] at h
    injection h with e1 h; injection h with e2 _
    subst e1; subst e2
    obtain ⟨g, rfl⟩ : ∃ g, f' = g + 1 := ⟨f' - 1, by omega⟩
    unfold Decode.Dns.packets
    have h1 : ¬ (i < b.length) := by omega
    simp [h1]
  | succ m ih =>
    obtain ⟨g, rfl⟩ : ∃ g, f' = g + 1 := ⟨f' - 1, by omega⟩
    unfold Dns.decodePackets at h
    unfold Decode.Dns.packets
    by_cases h1 : i < b.length
    · simp only [h1, if_true] at h
      simp only [h1, not_true_eq_false, if_false]
      rw [Decode.Dns.sliceFromP_some (by omega)]
      simp only []
      cases hr : Dns.decodePacket (b.drop i) with
      | error e => rw [hr] at h; simp only [] at h; injection h with _ h; injection h with _ h; cases h
      | ok r =>
        obtain ⟨ws1, k⟩ := r
        rw [hr] at h
        simp only [] at h
        have hB := decodePacketAB _ _ _ hr
        have hk := (Decode.Dns.decodePacket_fine (b.drop i)).2 _ hB
        simp only [] at hk
        rw [hB]
        simp only []
        cases hrr : Dns.decodePackets b m (i + k) with
        | mk ws2 r2 =>
          obtain ⟨n2, e2⟩ := r2
          rw [hrr] at h
          simp only [] at h
          injection h with e1 h; injection h with e3 e4
          subst e1; subst e3; subst e4
          rw [ih (i + k) ws2 hrr g (by omega) (by omega) (w ++ ws1.flatten)]
          simp
    · simp only [h1, if_false] at h
      injection h with e1 h; injection h with e2 _
      subst e1; subst e2
      simp [h1]

/-! ### `DNSTransform.Read` -/

/-- **Agreement, C04 model ⇒ C07 model.**  On EVERY input on which the C04 reader model (the one tied to
the repaired Go reader) succeeds with payload `w`, the C07 model returns no error and `Write` chunks whose
concatenation is `w`. -/
theorem read_agrees (b : Bytes) (w : Bytes) (h : Decode.Dns.read b = .ok w) :
    ∃ ws, Dns.read b = (ws, none) ∧ ws.flatten = w := by
  unfold Decode.Dns.read at h
  unfold Dns.read
  by_cases h0 : b.length = 0
  · simp only [h0, if_true] at h ⊢
    injection h with h
    exact ⟨[], rfl, by simp [h]⟩
  · simp only [h0, if_false] at h ⊢
    cases hr : Decode.Dns.packets (b.length + 1) b 0 [] with
    | ok r =>
      obtain ⟨n, w'⟩ := r
      rw [hr] at h
      simp only [] at h
      by_cases hn : b.length ≠ n
      · rw [if_pos hn] at h; cases h
      · rw [if_neg hn] at h
        injection h with h; subst h
        obtain ⟨ws, e1, e2⟩ := packetsBA _ _ _ _ _ _ b.length (by omega) hr
        rw [e1]
        simp only []
        rw [if_neg hn]
        exact ⟨ws, rfl, by simp [e2]⟩
    | err e => rw [hr] at h; cases h
    | panic m => rw [hr] at h; cases h
    | hang => rw [hr] at h; cases h

/-- **Agreement, C07 model ⇒ C04 model** (the direction the round trip needs): whenever the C07 model
returns chunks `ws` and no error, the C04 model of the repaired reader returns `.ok ws.flatten` — in
particular it neither fails, panics nor hangs. -/
theorem read_agrees_conv (b : Bytes) (ws : List Bytes) (h : Dns.read b = (ws, none)) :
    Decode.Dns.read b = .ok ws.flatten := by
  unfold Dns.read at h
  unfold Decode.Dns.read
  by_cases h0 : b.length = 0
  · simp only [h0, if_true] at h ⊢
    injection h with h _; subst h; rfl
  · simp only [h0, if_false] at h ⊢
    cases hr : Dns.decodePackets b b.length 0 with
    | mk ws' r2 =>
      obtain ⟨n, e⟩ := r2
      rw [hr] at h
      simp only [] at h
      cases e with
      | some e => simp only [] at h; injection h with _ h; cases h
      | none =>
        simp only [] at h
        by_cases hn : b.length ≠ n
        · rw [if_pos hn] at h; injection h with _ h; cases h
        · rw [if_neg hn] at h
          injection h with h _; subst h
          have hn' : b.length = n := by omega
          rw [packetsAB _ _ _ _ _ (by omega) hr (b.length + 1) (by omega) (by omega) []]
          simp only []
          rw [if_neg hn]
          simp

/-- The two reader models succeed on exactly the same inputs, with the same payload. -/
theorem read_agrees_iff (b w : Bytes) :
    Decode.Dns.read b = .ok w ↔ ∃ ws, Dns.read b = (ws, none) ∧ ws.flatten = w := by
  constructor
  · exact read_agrees b w
  · rintro ⟨ws, h1, h2⟩
    rw [← h2]; exact read_agrees_conv b ws h1

/-- The C04 reader model fails (returns an error; by `read_fine` it never panics or hangs) exactly where
the C07 model reports an error value (`ueof`, `noProgress` or one of its pre-repair `panic`s). -/
theorem read_err_iff (b : Bytes) :
    (∃ e, Decode.Dns.read b = .err e) ↔ ∃ ws e, Dns.read b = (ws, some e) := by
  constructor
  · rintro ⟨e, he⟩
    cases hA : Dns.read b with
    | mk ws oe =>
      cases oe with
      | some e' => exact ⟨ws, e', rfl⟩
      | none => rw [read_agrees_conv b ws hA] at he; cases he
  · rintro ⟨ws, e, hA⟩
    have hf := Decode.Dns.read_fine b
    cases hB : Decode.Dns.read b with
    | ok w =>
      obtain ⟨ws', h1, _⟩ := read_agrees b w hB
      rw [hA] at h1; injection h1 with _ h1; cases h1
    | err e' => exact ⟨e', rfl⟩
    | panic m => rw [hB] at hf; exact absurd hf (by simp [Decode.Dns.Fine])
    | hang => rw [hB] at hf; exact absurd hf (by simp [Decode.Dns.Fine])

/-! ### the round trip against the C04 reader model -/

/-- **DNS round trip against the C04 (repaired-reader) model**, under the name-length condition of
`Dns.dns_roundtrip_name`. -/
theorem dns_roundtrip_name_c04 (server : Bool) (dom : Bytes) (rs : List (Nat → UInt8)) (b : Bytes)
    (hname : (Dns.encName (Dns.splitDots dom)).length ≤ 1919) :
    ∃ pkts, Dns.write server dom rs b = some pkts ∧ Decode.Dns.read pkts.flatten = .ok b := by
  obtain ⟨pkts, ws, h1, h2, h3⟩ := Dns.dns_roundtrip_name server dom rs b hname
  refine ⟨pkts, h1, ?_⟩
  rw [← h3]
  exact read_agrees_conv _ _ h2

/-- **DNS round trip against the C04 (repaired-reader) model**: both modes, every domain of at most 255
bytes, every random filler, every payload (the empty one included): what `DNSTransform.Write` emits is
read back by the model of the repaired `DNSTransform.Read` as exactly the payload. -/
theorem dns_roundtrip_c04 (server : Bool) (dom : Bytes) (rs : List (Nat → UInt8)) (b : Bytes)
    (hdom : dom.length ≤ 255) :
    ∃ pkts, Dns.write server dom rs b = some pkts ∧ Decode.Dns.read pkts.flatten = .ok b :=
  dns_roundtrip_name_c04 server dom rs b (by
    have := Dns.encName_splitDots_length dom
    omega)

/-! ### where the two models still differ: only in the VALUE of the error on malformed input

By `read_agrees_iff` / `read_err_iff` the models succeed on the same inputs with the same payload and fail
on the same inputs; the error value may differ (A keeps the pre-repair outcomes). Two witnesses: -/

/-- A message shorter than 13 bytes: the C07 model shows the pre-repair index panic (`_ = b[12]`), the
C04 model the repaired reader's `io.ErrUnexpectedEOF`. -/
theorem differ_short :
    Dns.read [0] = ([], some .panic) ∧ Decode.Dns.read [0] = .err .ueof := ⟨rfl, rfl⟩

/-- One announced record (`t = 1`) of which only 7 bytes are present, with a wrong record header: the
pre-repair guard `s+6 >= len(b)` lets the C07 model reach the header test (`ErrNoProgress`), the repaired
guard `s+12 > len(b)` makes the C04 model return `ErrUnexpectedEOF`. -/
theorem differ_errvalue :
    Dns.read [0,0,0,0,0,0,0,0,0,0,0,1, 0,0,0,0,0,0,0] = ([], some .noProgress) ∧
    Decode.Dns.read [0,0,0,0,0,0,0,0,0,0,0,1, 0,0,0,0,0,0,0] = .err .ueof := ⟨rfl, rfl⟩

end XMT.DnsAgree
