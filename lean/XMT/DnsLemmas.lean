/- Lemmas about the DNS framing model (XMT.Dns): the question name the encoder writes for ANY domain
is one the decoder's label loop walks to its end (the part of the framing the two repairs concern). -/
import XMT.Dns
namespace XMT.Dns
open XMT

/-- wire form of a list of labels -/
def encLabels (ls : List Bytes) : Bytes := ls.flatMap fun l => byteOf l.length :: l

/-- labels the decoder's `for i := 0; i < 64` loop accepts: 1..63 bytes -/
def LabelsOK (ls : List Bytes) : Prop := ∀ l ∈ ls, 0 < l.length ∧ l.length < 64

/-- Whatever the domain string is (empty labels, over-long labels, any bytes), the encoder emits a
sequence of labels of 1..63 bytes. -/
theorem encName_labels (es : List Bytes) : ∃ ls, encName es = encLabels ls ∧ LabelsOK ls := by
  induction es with
  | nil => exact ⟨[], rfl, by simp [LabelsOK]⟩
  | cons e es ih =>
    obtain ⟨ls, h1, h2⟩ := ih
    unfold encName
    by_cases h0 : e.length = 0
    · simp only [h0, if_true]; exact ⟨ls, h1, h2⟩
    · simp only [h0, if_false]
      refine ⟨(if e.length > 63 then e.take 63 else e) :: ls, ?_, ?_⟩
      · rw [h1]; simp [encLabels, List.flatMap_cons]
      · intro l hl
        simp only [List.mem_cons] at hl
        rcases hl with rfl | hl
        · split
          · simp; omega
          · omega
        · exact h2 l hl

theorem encLabels_cons (l : Bytes) (ls : List Bytes) :
    encLabels (l :: ls) = byteOf l.length :: l ++ encLabels ls := by
  simp [encLabels, List.flatMap_cons]

/-- The decoder's label loop, started at the first length byte of a well-formed name that is
followed by the terminating zero, stops right behind that zero. -/
theorem nameLoop_labels (ls : List Bytes) (hls : LabelsOK ls) (pre post : Bytes) (i fuel : Nat)
    (hi : i < 64) (hlen : i < (pre ++ encLabels ls ++ 0 :: post).length) (hf : ls.length < fuel) :
    nameLoop (pre ++ encLabels ls ++ 0 :: post) fuel i pre.length
      = .ok (pre.length + (encLabels ls).length + 1) := by
  induction ls generalizing pre i fuel with
  | nil =>
    cases fuel with
    | zero => omega
    | succ fuel =>
      have hidx : idx (pre ++ encLabels [] ++ 0 :: post) pre.length = .ok 0 := by
        simp [idx, encLabels]
      unfold nameLoop
      have h2 : ¬ (i ≥ (pre ++ encLabels [] ++ 0 :: post).length ∨
          pre.length > (pre ++ encLabels [] ++ 0 :: post).length) := by
        simp [encLabels] at hlen ⊢; omega
      simp only [hi, if_true, h2, if_false, hidx]
      simp [encLabels, bind, Except.bind]
  | cons l ls ih =>
    cases fuel with
    | zero => omega
    | succ fuel =>
      obtain ⟨hl0, hl1⟩ := hls l (by simp)
      have hb : (byteOf l.length).toNat = l.length := by rw [byteOf_toNat]; omega
      have hne : byteOf l.length ≠ 0 := by
        intro e; have := congrArg UInt8.toNat e; rw [hb] at this; change l.length = 0 at this; omega
      have hidx : idx (pre ++ encLabels (l :: ls) ++ 0 :: post) pre.length = .ok (byteOf l.length) := by
        simp [idx, encLabels_cons]
      have h2 : ¬ (i ≥ (pre ++ encLabels (l :: ls) ++ 0 :: post).length ∨
          pre.length > (pre ++ encLabels (l :: ls) ++ 0 :: post).length) := by
        simp at hlen ⊢; omega
      have hP : pre ++ encLabels (l :: ls) ++ 0 :: post =
          (pre ++ byteOf l.length :: l) ++ encLabels ls ++ 0 :: post := by
        simp [encLabels_cons]
      have hrec := ih (fun x hx => hls x (by simp [hx])) (pre ++ byteOf l.length :: l) l.length fuel hl1
        (by simp; omega) (by simp at hf; omega)
      unfold nameLoop
      simp only [hi, if_true, h2, if_false, hidx]
      simp only [bind, Except.bind, hne, if_false, hb]
      rw [hP]
      have e1 : pre.length + l.length + 1 = (pre ++ byteOf l.length :: l).length := by simp; omega
      rw [e1, hrec]
      simp [encLabels_cons]; omega

/-- The name written for any domain, followed by the encoder's terminating zero, is walked to the
end by the decoder (no early stop at an empty label, no overrun at a long one). -/
theorem nameLoop_encName (dom : Bytes) (pre post : Bytes) :
    nameLoop (pre ++ encName (splitDots dom) ++ 0 :: post)
      ((pre ++ encName (splitDots dom) ++ 0 :: post).length + 2) 0 pre.length
      = .ok (pre.length + (encName (splitDots dom)).length + 1) := by
  obtain ⟨ls, h1, h2⟩ := encName_labels (splitDots dom)
  rw [h1]
  apply nameLoop_labels ls h2 pre post 0 _ (by omega) (by simp; omega)
  -- every label occupies at least two bytes, so the fuel `len(b)+2` suffices
  have hl : ls.length ≤ (encLabels ls).length := by
    clear h1
    induction ls with
    | nil => simp
    | cons l ls ih =>
      rw [encLabels_cons]
      have := ih (fun x hx => h2 x (by simp [hx]))
      simp; omega
  simp; omega

end XMT.Dns
