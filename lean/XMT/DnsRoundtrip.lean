/- Round trip of the DNS transform framing model (XMT.Dns): for every mode, every domain of at most
255 bytes, every random filler and every non-empty payload, `read` applied to the concatenation of
the packets `write` produced returns exactly the payload and no error. -/
import XMT.DnsLemmas
namespace XMT.Dns
open XMT

/-! ### Small facts -/

theorem be_byteOf (n : Nat) (h : n < 2^16) : be (byteOf (n >>> 8)) (byteOf n) = n := by
  have := ofBe16_be16 n h
  unfold ofBe16 at this
  unfold be; rw [Nat.or_comm]; exact this

theorem idx_append_right (pre l : Bytes) (k : Nat) : idx (pre ++ l) (pre.length + k) = idx l k := by
  simp [idx, List.getElem?_append_right]

theorem idx_append_right' (pre l : Bytes) (s k : Nat) (hs : s = pre.length) :
    idx (pre ++ l) (s + k) = idx l k := by
  subst hs; exact idx_append_right pre l k

theorem idx_mid (pre l : Bytes) (k : Nat) (v : UInt8) (h : l[k]? = some v) :
    idx (pre ++ l) (pre.length + k) = .ok v := by
  rw [idx_append_right, idx, h]

/-- the 12 fixed bytes of a data record whose data has `j` bytes -/
def recHdr (j : Nat) : Bytes := [192, 12, 0, 10, 0, 1, 0, 0, 0, 0, byteOf (j >>> 8), byteOf j]

/-- wire form of a list of data records -/
def encRecs (ps : List Bytes) : Bytes := ps.flatMap fun p => recHdr p.length ++ p

theorem encRecs_cons (p : Bytes) (ps : List Bytes) :
    encRecs (p :: ps) = recHdr p.length ++ p ++ encRecs ps := by
  simp [encRecs, List.flatMap_cons]

theorem recHdr_length (j : Nat) : (recHdr j).length = 12 := rfl

/-! ### (a) the segment loop of the encoder -/

theorem encSegs_spec (b : Bytes) (c : Nat) (hc : c = b.length ∨ (256 ∣ c ∧ c < b.length)) :
    ∀ fuel i, 256 ∣ i → i ≤ c → c ≤ i + 256 * fuel → 256 * fuel < c - i + 256 →
      ∃ ps, encSegs b c fuel i 256 = (encRecs ps, c) ∧ ps.length = fuel ∧
        ps.flatten = (b.drop i).take (c - i) ∧ ∀ p ∈ ps, 0 < p.length ∧ p.length ≤ 256 := by
  intro fuel
  induction fuel with
  | zero =>
    intro i _ h1 h2 _
    have : i = c := by omega
    subst this
    exact ⟨[], by simp [encSegs, encRecs], rfl, by simp, by simp⟩
  | succ fuel ih =>
    intro i hd h1 h2 h3
    have hi : i < c := by omega
    have hib : i < b.length := by omega
    by_cases hlt : b.length - i < 256
    · -- the last, short record
      have hcb : c = b.length := by omega
      have hf : fuel = 0 := by omega
      subst hf
      refine ⟨[(b.drop i).take (b.length - i)], ?_, rfl, ?_, ?_⟩
      · have hl : ((b.drop i).take (b.length - i)).length = b.length - i := by simp
        simp only [encSegs, hi, hib, and_self, if_true, hlt, hl, encRecs_cons]
        simp [encRecs, recHdr]; omega
      · simp [hcb]
      · intro p hp; simp at hp; subst hp; simp; omega
    · -- a full record
      have h256 : i + 256 ≤ c := by omega
      obtain ⟨ps, e1, e2, e3, e4⟩ := ih (i + 256) (by omega) h256 (by omega) (by omega)
      have hl : ((b.drop i).take 256).length = 256 := by simp; omega
      refine ⟨(b.drop i).take 256 :: ps, ?_, by simp [e2], ?_, ?_⟩
      · simp only [encSegs, hi, hib, and_self, if_true, hlt, if_false, hl, e1, encRecs_cons]
        simp [recHdr]
      · rw [List.flatten_cons, e3]
        have : c - i = 256 + (c - (i + 256)) := by omega
        rw [this, List.take_add, List.drop_drop]
      · intro p hp
        simp only [List.mem_cons] at hp
        rcases hp with rfl | hp
        · rw [hl]; omega
        · exact e4 p hp

/-! ### (b) the record loop of the decoder -/

theorem records_spec (post : Bytes) (ps : List Bytes) (hps : ∀ p ∈ ps, p.length < 65536) :
    ∀ pre : Bytes, records (pre ++ encRecs ps ++ post) ps.length pre.length
      = .ok (ps, pre.length + (encRecs ps).length) := by
  induction ps with
  | nil => intro pre; simp [records, encRecs]
  | cons p ps ih =>
    intro pre
    have hp : p.length < 2 ^ 16 := hps p (by simp)
    have hB : pre ++ encRecs (p :: ps) ++ post =
        pre ++ (192 :: 12 :: 0 :: 10 :: 0 :: 1 :: 0 :: 0 :: 0 :: 0 :: byteOf (p.length >>> 8) ::
          byteOf p.length :: (p ++ encRecs ps ++ post)) := by
      simp [encRecs_cons, recHdr]
    have hB2 : pre ++ encRecs (p :: ps) ++ post =
        (pre ++ recHdr p.length ++ p) ++ encRecs ps ++ post := by
      simp [encRecs_cons]
    have hB3 : pre ++ encRecs (p :: ps) ++ post =
        (pre ++ recHdr p.length) ++ (p ++ (encRecs ps ++ post)) := by
      simp [encRecs_cons]
    have hrec := ih (fun x hx => hps x (by simp [hx])) (pre ++ recHdr p.length ++ p)
    rw [← hB2] at hrec
    have hlen : ¬ (pre.length + 6 ≥ (pre ++ encRecs (p :: ps) ++ post).length) := by
      simp [encRecs_cons, recHdr_length]; omega
    have hlen2 : ¬ (pre.length + 12 + p.length > (pre ++ encRecs (p :: ps) ++ post).length) := by
      simp [encRecs_cons, recHdr_length]; omega
    have hdt : ((pre ++ encRecs (p :: ps) ++ post).drop (pre.length + 12)).take p.length = p := by
      rw [hB3]
      have : pre.length + 12 = (pre ++ recHdr p.length).length := by simp [recHdr_length]
      rw [this, List.drop_left, List.take_left]
    have i0 : ∀ k v, (192 :: 12 :: 0 :: 10 :: 0 :: 1 :: 0 :: 0 :: 0 :: 0 :: byteOf (p.length >>> 8) ::
          byteOf p.length :: (p ++ encRecs ps ++ post))[k]? = some v →
        idx (pre ++ encRecs (p :: ps) ++ post) (pre.length + k) = .ok v := fun k v h => by
      rw [hB]; exact idx_mid pre _ k v h
    have k0 := i0 0 _ rfl; have k1 := i0 1 _ rfl; have k2 := i0 2 _ rfl; have k3 := i0 3 _ rfl
    have k4 := i0 4 _ rfl; have k5 := i0 5 _ rfl; have k10 := i0 10 _ rfl; have k11 := i0 11 _ rfl
    have e : (pre ++ recHdr p.length ++ p).length = pre.length + 12 + p.length := by
      simp [recHdr_length]; omega
    rw [e] at hrec
    rw [Nat.add_zero] at k0
    clear i0
    generalize pre ++ encRecs (p :: ps) ++ post = B at *
    unfold records
    simp only [List.length_cons, hlen, if_false, Nat.add_assoc, Nat.reduceAdd, k0, k1, k2, k3, k4, k5,
      k10, k11, bind, Except.bind, be_byteOf _ hp]
    simp only [← Nat.add_assoc, hlen2, hrec, hdt]
    simp [encRecs_cons, recHdr_length]; omega

/-! ### (c) questions and answers -/

theorem idx_left (pre l : Bytes) (k : Nat) (v : UInt8) (h : pre[k]? = some v) :
    idx (pre ++ l) k = .ok v := by
  have hk : k < pre.length := by
    rcases Nat.lt_or_ge k pre.length with h' | h'
    · exact h'
    · rw [List.getElem?_eq_none h'] at h; cases h
  simp [idx, List.getElem?_append_left hk, h]

theorem idx_ok_of_lt (b : Bytes) (k : Nat) (h : k < b.length) : ∃ v, idx b k = .ok v := by
  refine ⟨b[k], ?_⟩
  simp [idx, List.getElem?_eq_getElem h]

/-- One question whose name is the encoder's name for `dom`, followed by at least 5 more bytes. -/
theorem questions_spec (dom pre post : Bytes) (hpost : 4 < post.length) :
    questions (pre ++ encName (splitDots dom) ++ 0 :: post) 1 pre.length
      = .ok (pre.length + (encName (splitDots dom)).length + 5) := by
  have h := nameLoop_encName dom pre post
  have hl : ¬ (pre.length + (encName (splitDots dom)).length + 1 + 4 ≥
      (pre ++ encName (splitDots dom) ++ 0 :: post).length) := by
    simp; omega
  generalize pre ++ encName (splitDots dom) ++ 0 :: post = B at *
  show questions B (0 + 1) pre.length = _
  unfold questions
  simp only [h, bind, Except.bind, hl, if_false]
  rfl

theorem answers_zero (b : Bytes) (s : Nat) : answers b 0 s = .ok s := rfl

/-- The single answer record of a server packet. -/
theorem answers_server (pre post : Bytes) (a0 a1 a2 a3 a4 a5 a6 a7 a8 a9 a12 a13 a14 a15 : UInt8) :
    answers (pre ++ (a0 :: a1 :: a2 :: a3 :: a4 :: a5 :: a6 :: a7 :: a8 :: a9 :: 0 :: 4 ::
      a12 :: a13 :: a14 :: a15 :: post)) 1 pre.length = .ok (pre.length + 16) := by
  have k10 := idx_mid pre (a0 :: a1 :: a2 :: a3 :: a4 :: a5 :: a6 :: a7 :: a8 :: a9 :: 0 :: 4 ::
      a12 :: a13 :: a14 :: a15 :: post) 10 _ rfl
  have k11 := idx_mid pre (a0 :: a1 :: a2 :: a3 :: a4 :: a5 :: a6 :: a7 :: a8 :: a9 :: 0 :: 4 ::
      a12 :: a13 :: a14 :: a15 :: post) 11 _ rfl
  have hl : ¬ (pre.length + 10 > (pre ++ (a0 :: a1 :: a2 :: a3 :: a4 :: a5 :: a6 :: a7 :: a8 :: a9 ::
      0 :: 4 :: a12 :: a13 :: a14 :: a15 :: post)).length) := by
    simp
  generalize pre ++ (a0 :: a1 :: a2 :: a3 :: a4 :: a5 :: a6 :: a7 :: a8 :: a9 :: 0 :: 4 ::
      a12 :: a13 :: a14 :: a15 :: post) = B at *
  show answers B (0 + 1) pre.length = _
  unfold answers
  have hbe : be 0 4 = 4 := by decide
  simp only [hl, if_false, bind, Except.bind, k10, Nat.add_assoc, Nat.reduceAdd, k11, hbe]
  rfl

/-! ### (d) one packet -/

theorem decodePacket_of_parts (B : Bytes) (h0 h1 h2 h3 h8 h9 : UInt8) (cN t s1 s2 : Nat) (R : List Bytes × Nat)
    (tl : Bytes) (hB : B = h0 :: h1 :: h2 :: h3 :: 0 :: 1 :: 0 :: byteOf cN :: h8 :: h9 ::
      byteOf (t >>> 8) :: byteOf t :: tl)
    (hc : cN < 256) (ht : t < 65536) (htl : tl ≠ [])
    (hq : questions B 1 12 = .ok s1) (ha : answers B cN s1 = .ok s2)
    (hr : records B t s2 = .ok R) : decodePacket B = .ok R := by
  have i12 : ∃ v, idx B 12 = .ok v := by
    apply idx_ok_of_lt
    cases tl with
    | nil => exact absurd rfl htl
    | cons x xs => rw [hB]; simp
  obtain ⟨v12, i12⟩ := i12
  have i4 : idx B 4 = .ok 0 := by rw [hB]; rfl
  have i5 : idx B 5 = .ok 1 := by rw [hB]; rfl
  have i6 : idx B 6 = .ok 0 := by rw [hB]; rfl
  have i7 : idx B 7 = .ok (byteOf cN) := by rw [hB]; rfl
  have i10 : idx B 10 = .ok (byteOf (t >>> 8)) := by rw [hB]; rfl
  have i11 : idx B 11 = .ok (byteOf t) := by rw [hB]; rfl
  have b1 : be 0 1 = 1 := by decide
  have b2 : be 0 (byteOf cN) = cN := by
    have := be_byteOf cN (by omega)
    have z : cN >>> 8 = 0 := by rw [Nat.shiftRight_eq_div_pow]; omega
    rw [z] at this; exact this
  unfold decodePacket
  simp only [bind, Except.bind, i12, i4, i5, i6, i7, i10, i11, b1, b2, be_byteOf t ht, hq, ha, hr]

def pktFlags (server : Bool) : Bytes :=
  if server then [132, 128, 0, 1, 0, 1, 0, 0] else [1, 0, 0, 1, 0, 0, 0, 0]

def pktAns (server : Bool) (r : Nat → UInt8) : Bytes :=
  if server then [192, 12, 0, 1, 0, 1, 0, 0, 3, r 2, 0, 4, r 3, r 4, r 5, r 6] else []

/-- the packet the encoder writes for the records `ps` -/
def mkPkt (server : Bool) (r : Nat → UInt8) (name : Bytes) (ps : List Bytes) : Bytes :=
  [r 0, r 1] ++ pktFlags server ++ [byteOf (ps.length >>> 8), byteOf ps.length] ++ name ++
    [0, 0, 1, 0, 1] ++ pktAns server r ++ encRecs ps

theorem encRecs_ne_nil (ps : List Bytes) (h : ps ≠ []) : encRecs ps ≠ [] := by
  cases ps with
  | nil => exact absurd rfl h
  | cons p ps => simp [encRecs_cons, recHdr]

theorem encRecs_length_ge (ps : List Bytes) (h : ps ≠ []) : 12 ≤ (encRecs ps).length := by
  cases ps with
  | nil => exact absurd rfl h
  | cons p ps => simp [encRecs_cons, recHdr_length]

theorem decodePacket_client (r : Nat → UInt8) (dom : Bytes) (ps : List Bytes) (rest : Bytes)
    (hne : ps ≠ []) (hl : ps.length < 65536) (hps : ∀ p ∈ ps, p.length < 65536) :
    decodePacket (mkPkt false r (encName (splitDots dom)) ps ++ rest)
      = .ok (ps, (mkPkt false r (encName (splitDots dom)) ps).length) := by
  have h12 := encRecs_length_ge ps hne
  have hq := questions_spec dom [r 0, r 1, 1, 0, 0, 1, 0, 0, 0, 0, byteOf (ps.length >>> 8), byteOf ps.length]
    ([0, 1, 0, 1] ++ encRecs ps ++ rest) (by simp; omega)
  have hr := records_spec rest ps hps ([r 0, r 1, 1, 0, 0, 1, 0, 0, 0, 0, byteOf (ps.length >>> 8),
    byteOf ps.length] ++ encName (splitDots dom) ++ [0, 0, 1, 0, 1])
  have e1 : mkPkt false r (encName (splitDots dom)) ps ++ rest =
      [r 0, r 1, 1, 0, 0, 1, 0, 0, 0, 0, byteOf (ps.length >>> 8), byteOf ps.length] ++
        encName (splitDots dom) ++ 0 :: ([0, 1, 0, 1] ++ encRecs ps ++ rest) := by
    simp [mkPkt, pktFlags, pktAns]
  have e2 : mkPkt false r (encName (splitDots dom)) ps ++ rest =
      [r 0, r 1, 1, 0, 0, 1, 0, 0, 0, 0, byteOf (ps.length >>> 8), byteOf ps.length] ++
        encName (splitDots dom) ++ [0, 0, 1, 0, 1] ++ encRecs ps ++ rest := by
    simp [mkPkt, pktFlags, pktAns]
  have e3 : (mkPkt false r (encName (splitDots dom)) ps).length =
      12 + (encName (splitDots dom)).length + 5 + (encRecs ps).length := by
    simp [mkPkt, pktFlags, pktAns]; omega
  have e4 : ([r 0, r 1, 1, 0, 0, 1, 0, 0, 0, 0, byteOf (ps.length >>> 8), byteOf ps.length] ++
      encName (splitDots dom) ++ [0, 0, 1, 0, 1]).length = 12 + (encName (splitDots dom)).length + 5 := by
    simp; omega
  rw [← e1] at hq; rw [← e2, e4] at hr
  rw [e3]
  refine decodePacket_of_parts _ (r 0) (r 1) 1 0 0 0 0 ps.length _ _ _
    (encName (splitDots dom) ++ 0 :: ([0, 1, 0, 1] ++ encRecs ps ++ rest)) ?_ (by omega) hl (by simp)
    hq (answers_zero _ _) ?_
  · rw [e1]; rfl
  · exact hr

theorem decodePacket_server (r : Nat → UInt8) (dom : Bytes) (ps : List Bytes) (rest : Bytes)
    (hl : ps.length < 65536) (hps : ∀ p ∈ ps, p.length < 65536) :
    decodePacket (mkPkt true r (encName (splitDots dom)) ps ++ rest)
      = .ok (ps, (mkPkt true r (encName (splitDots dom)) ps).length) := by
  have hq := questions_spec dom [r 0, r 1, 132, 128, 0, 1, 0, 1, 0, 0, byteOf (ps.length >>> 8), byteOf ps.length]
    ([0, 1, 0, 1] ++ pktAns true r ++ encRecs ps ++ rest) (by simp [pktAns])
  have ha := answers_server ([r 0, r 1, 132, 128, 0, 1, 0, 1, 0, 0, byteOf (ps.length >>> 8),
    byteOf ps.length] ++ encName (splitDots dom) ++ [0, 0, 1, 0, 1]) (encRecs ps ++ rest)
    192 12 0 1 0 1 0 0 3 (r 2) (r 3) (r 4) (r 5) (r 6)
  have hr := records_spec rest ps hps ([r 0, r 1, 132, 128, 0, 1, 0, 1, 0, 0, byteOf (ps.length >>> 8),
    byteOf ps.length] ++ encName (splitDots dom) ++ [0, 0, 1, 0, 1] ++ pktAns true r)
  have e1 : mkPkt true r (encName (splitDots dom)) ps ++ rest =
      [r 0, r 1, 132, 128, 0, 1, 0, 1, 0, 0, byteOf (ps.length >>> 8), byteOf ps.length] ++
        encName (splitDots dom) ++ 0 :: ([0, 1, 0, 1] ++ pktAns true r ++ encRecs ps ++ rest) := by
    simp [mkPkt, pktFlags, pktAns]
  have e2 : mkPkt true r (encName (splitDots dom)) ps ++ rest =
      [r 0, r 1, 132, 128, 0, 1, 0, 1, 0, 0, byteOf (ps.length >>> 8), byteOf ps.length] ++
        encName (splitDots dom) ++ [0, 0, 1, 0, 1] ++ pktAns true r ++ encRecs ps ++ rest := by
    simp [mkPkt, pktFlags, pktAns]
  have e2' : mkPkt true r (encName (splitDots dom)) ps ++ rest =
      [r 0, r 1, 132, 128, 0, 1, 0, 1, 0, 0, byteOf (ps.length >>> 8), byteOf ps.length] ++
        encName (splitDots dom) ++ [0, 0, 1, 0, 1] ++ (192 :: 12 :: 0 :: 1 :: 0 :: 1 :: 0 :: 0 :: 3 ::
          r 2 :: 0 :: 4 :: r 3 :: r 4 :: r 5 :: r 6 :: (encRecs ps ++ rest)) := by
    simp [mkPkt, pktFlags, pktAns]
  have e3 : (mkPkt true r (encName (splitDots dom)) ps).length =
      12 + (encName (splitDots dom)).length + 5 + 16 + (encRecs ps).length := by
    simp [mkPkt, pktFlags, pktAns]; omega
  have e4 : ([r 0, r 1, 132, 128, 0, 1, 0, 1, 0, 0, byteOf (ps.length >>> 8), byteOf ps.length] ++
      encName (splitDots dom) ++ [0, 0, 1, 0, 1]).length = 12 + (encName (splitDots dom)).length + 5 := by
    simp; omega
  have e5 : ([r 0, r 1, 132, 128, 0, 1, 0, 1, 0, 0, byteOf (ps.length >>> 8), byteOf ps.length] ++
      encName (splitDots dom) ++ [0, 0, 1, 0, 1] ++ pktAns true r).length
        = 12 + (encName (splitDots dom)).length + 5 + 16 := by
    simp [pktAns]; omega
  rw [← e1] at hq; rw [← e2, e5] at hr; rw [← e2', e4] at ha
  rw [e3]
  refine decodePacket_of_parts _ (r 0) (r 1) 132 128 0 0 1 ps.length _ _ _
    (encName (splitDots dom) ++ 0 :: ([0, 1, 0, 1] ++ pktAns true r ++ encRecs ps ++ rest)) ?_ (by omega) hl
    (by simp) hq ha hr
  rw [e1]; rfl

theorem decodePacket_spec (server : Bool) (r : Nat → UInt8) (dom : Bytes) (ps : List Bytes) (rest : Bytes)
    (hne : ps ≠ []) (hl : ps.length < 65536) (hps : ∀ p ∈ ps, p.length < 65536) :
    decodePacket (mkPkt server r (encName (splitDots dom)) ps ++ rest)
      = .ok (ps, (mkPkt server r (encName (splitDots dom)) ps).length) := by
  cases server
  · exact decodePacket_client r dom ps rest hne hl hps
  · exact decodePacket_server r dom ps rest hl hps

/-! ### the encoder of one packet -/

theorem encodePacket_spec (server : Bool) (r : Nat → UInt8) (b dom : Bytes) (hb : b ≠ []) :
    ∃ ps, encodePacket server r b dom
        = (mkPkt server r (encName (splitDots dom)) ps, min b.length 2048) ∧
      ps.flatten = b.take (min b.length 2048) ∧ ps ≠ [] ∧ ps.length ≤ 8 ∧
      ∀ p ∈ ps, 0 < p.length ∧ p.length ≤ 256 := by
  have hlen : 0 < b.length := List.length_pos_iff.mpr hb
  obtain ⟨c, hcdef⟩ : ∃ c, c = (if b.length > 2048 then 2048 else b.length) := ⟨_, rfl⟩
  obtain ⟨t, htdef⟩ : ∃ t, t = (if c / 256 * 256 < c ∨ c / 256 = 0 then c / 256 + 1 else c / 256) :=
    ⟨_, rfl⟩
  have hcm : c = min b.length 2048 := by subst hcdef; split <;> omega
  have ht1 : c ≤ 256 * t ∧ 256 * t < c + 256 ∧ t ≤ 8 ∧ 0 < t := by
    subst htdef; split <;> omega
  have hcc : c = b.length ∨ (256 ∣ c ∧ c < b.length) := by omega
  obtain ⟨ps, e1, e2, e3, e4⟩ := encSegs_spec b c hcc t 0 (by omega) (by omega) (by omega) (by omega)
  have hE : encodePacket server r b dom =
      ([r 0, r 1] ++ pktFlags server ++ [byteOf (t >>> 8), byteOf t] ++ encName (splitDots dom) ++
        [0, 0, 1, 0, 1] ++ pktAns server r ++ (encSegs b c t 0 256).1, (encSegs b c t 0 256).2) := by
    subst htdef; subst hcdef; rfl
  refine ⟨ps, ?_, ?_, ?_, by omega, e4⟩
  · rw [hE, e1, ← hcm, mkPkt, e2]
  · rw [e3, ← hcm]; simp
  · intro h; rw [h] at e2; simp at e2; omega

/-! ### (f) the size of a packet -/

theorem encRecs_length_le (ps : List Bytes) (h : ∀ p ∈ ps, p.length ≤ 256) :
    (encRecs ps).length ≤ 268 * ps.length := by
  induction ps with
  | nil => simp [encRecs]
  | cons p ps ih =>
    have h1 := h p (by simp)
    have h2 := ih (fun x hx => h x (by simp [hx]))
    simp only [encRecs_cons, List.length_append, recHdr_length, List.length_cons]
    omega

theorem mkPkt_length_le (server : Bool) (r : Nat → UInt8) (name : Bytes) (ps : List Bytes) :
    (mkPkt server r name ps).length ≤ name.length + 33 + (encRecs ps).length := by
  cases server <;> simp [mkPkt, pktFlags, pktAns] <;> omega

theorem mkPkt_length_pos (server : Bool) (r : Nat → UInt8) (name : Bytes) (ps : List Bytes) :
    0 < (mkPkt server r name ps).length := by
  cases server <;> simp [mkPkt, pktFlags, pktAns] <;> omega

theorem encName_length_le (es : List Bytes) :
    (encName es).length ≤ (es.map fun e => e.length + 1).sum := by
  induction es with
  | nil => simp [encName]
  | cons e es ih =>
    unfold encName
    simp only [List.map_cons, List.sum_cons]
    split
    · omega
    · split
      · simp; omega
      · simp; omega

theorem splitDots_sum (dom : Bytes) :
    ((splitDots dom).map fun e => e.length + 1).sum = dom.length + 1 := by
  induction dom with
  | nil => simp [splitDots]
  | cons c cs ih =>
    unfold splitDots
    split
    · simp [ih]; omega
    · split
      · rename_i l ls heq
        rw [heq] at ih
        simp at ih ⊢; omega
      · rename_i heq
        rw [heq] at ih
        simp at ih

/-- The question name of a domain of `n` bytes has at most `n + 1` bytes. -/
theorem encName_splitDots_length (dom : Bytes) : (encName (splitDots dom)).length ≤ dom.length + 1 := by
  have := encName_length_le (splitDots dom)
  rw [splitDots_sum] at this
  exact this

/-! ### (e) all packets of a `Write` -/

theorem decodePackets_end (pre : Bytes) (fuel : Nat) :
    decodePackets (pre ++ []) fuel pre.length = ([], (pre ++ []).length, none) := by
  cases fuel <;> simp [decodePackets]

theorem packets_spec (server : Bool) (dom : Bytes) (hname : (encName (splitDots dom)).length ≤ 1919) :
    ∀ fuel rs b, b.length ≤ fuel →
      ∃ pkts ws, encodePackets server dom fuel rs b = (pkts, true) ∧ ws.flatten = b ∧
        pkts.length ≤ pkts.flatten.length ∧ (b ≠ [] → pkts ≠ []) ∧
        ∀ pre fuel2, pkts.length ≤ fuel2 →
          decodePackets (pre ++ pkts.flatten) fuel2 pre.length
            = (ws, (pre ++ pkts.flatten).length, none) := by
  intro fuel
  induction fuel with
  | zero =>
    intro rs b hb
    have : b = [] := List.eq_nil_of_length_eq_zero (by omega)
    subst this
    exact ⟨[], [], by simp [encodePackets], rfl, by simp, by simp,
      fun pre fuel2 _ => decodePackets_end pre fuel2⟩
  | succ fuel ih =>
    intro rs b hb
    by_cases hbe : b = []
    · subst hbe
      exact ⟨[], [], by simp [encodePackets], rfl, by simp, by simp,
        fun pre fuel2 _ => decodePackets_end pre fuel2⟩
    · obtain ⟨ps, e1, e2, e3, e4, e5⟩ := encodePacket_spec server (rs.headD fun _ => 0) b dom hbe
      have hlen : 0 < b.length := List.length_pos_iff.mpr hbe
      have hc : 0 < min b.length 2048 := by omega
      have hsz : (mkPkt server (rs.headD fun _ => 0) (encName (splitDots dom)) ps).length ≤ 4096 := by
        have h1 := mkPkt_length_le server (rs.headD fun _ => 0) (encName (splitDots dom)) ps
        have h2 := encRecs_length_le ps (fun p hp => (e5 p hp).2)
        omega
      have hpos := mkPkt_length_pos server (rs.headD fun _ => 0) (encName (splitDots dom)) ps
      obtain ⟨pkts', ws', f1, f2, f3, f4, f5⟩ := ih rs.tail (b.drop (min b.length 2048))
        (by simp; omega)
      have hdec := decodePacket_spec server (rs.headD fun _ => 0) dom ps pkts'.flatten e3 (by omega)
        (fun p hp => by have := (e5 p hp).2; omega)
      generalize mkPkt server (rs.headD fun _ => 0) (encName (splitDots dom)) ps = pkt at *
      refine ⟨pkt :: pkts', ps ++ ws', ?_, ?_, ?_, by simp, ?_⟩
      · have hie : b.isEmpty = false := by cases b <;> simp_all
        have hcond : ¬ (pkt.length > pktCap ∨ min b.length 2048 = 0) := by
          simp only [pktCap, Facts.dnsPacketCap]; omega
        simp only [encodePackets, hie, e1, hcond, if_false, f1]
        simp
      · simp [e2, f2]
      · simp only [List.length_cons, List.flatten_cons, List.length_append]; omega
      · intro pre fuel2 hf
        cases fuel2 with
        | zero => simp at hf
        | succ fuel2 =>
          have hlt : pre.length < (pre ++ (pkt :: pkts').flatten).length := by simp; omega
          have hdrop : (pre ++ (pkt :: pkts').flatten).drop pre.length = pkt ++ pkts'.flatten := by
            simp
          have hrec := f5 (pre ++ pkt) fuel2 (by simp at hf; omega)
          have e6 : pre ++ pkt ++ pkts'.flatten = pre ++ (pkt :: pkts').flatten := by simp
          rw [e6] at hrec
          unfold decodePackets
          simp only [hlt, if_true, hdrop, hdec]
          have e7 : pre.length + pkt.length = (pre ++ pkt).length := by simp
          rw [e7, hrec]

/-! ### `Write` then `Read` -/

/-- General form: the only thing needed of the domain is that its question name (the label bytes the
encoder writes, without the terminating zero) has at most 1919 bytes, so that the largest packet
(server mode, eight full records: `12 + name + 5 + 16 + 8·(12+256) = name + 2177`) fits the
4096-byte packet buffer.  The bound is tight: for the 1919-byte domain of 30 labels of 63 bytes (name of
1920 bytes), server mode and a payload of 2048 bytes the packet has 4097 bytes and `write` is `none`
(checked with `#eval`); a bound on the domain is therefore necessary, `≤ 255` (DNS) is far inside. -/
theorem dns_roundtrip_name (server : Bool) (dom : Bytes) (rs : List (Nat → UInt8)) (b : Bytes)
    (hname : (encName (splitDots dom)).length ≤ 1919) :
    ∃ pkts ws, write server dom rs b = some pkts ∧ read pkts.flatten = (ws, none) ∧ ws.flatten = b := by
  obtain ⟨pkts, ws, h1, h2, h3, h4, h5⟩ := packets_spec server dom hname b.length rs b (Nat.le_refl _)
  refine ⟨pkts, ws, ?_, ?_, h2⟩
  · simp [write, h1]
  · have hd := h5 [] pkts.flatten.length h3
    simp only [List.nil_append, List.length_nil] at hd
    by_cases hl : pkts.flatten.length = 0
    · -- nothing was written (only for the empty payload): `Read` of nothing returns nothing
      have hws : ws = [] := by
        cases hfl : pkts.flatten with
        | nil => rw [hfl] at hd; simp [decodePackets] at hd; exact hd
        | cons x xs => rw [hfl] at hl; simp at hl
      simp [read, hl, hws]
    · simp only [read, hl, if_false, hd]
      simp

/-- The open statement, exactly as posed: both modes, every domain of at most 255 bytes, every random
filler, every non-empty payload of any length. -/
theorem dns_roundtrip (server : Bool) (dom : Bytes) (rs : List (Nat → UInt8)) (b : Bytes)
    (_hb : b ≠ []) (hdom : dom.length ≤ 255) :
    ∃ pkts ws, write server dom rs b = some pkts ∧ read pkts.flatten = (ws, none) ∧ ws.flatten = b :=
  dns_roundtrip_name server dom rs b (by
    have := encName_splitDots_length dom
    omega)

/-- Any domain of at most 1918 bytes works as well, and so does the empty payload (no packet is written
and `Read` of nothing returns nothing). -/
theorem dns_roundtrip_1918 (server : Bool) (dom : Bytes) (rs : List (Nat → UInt8)) (b : Bytes)
    (hdom : dom.length ≤ 1918) :
    ∃ pkts ws, write server dom rs b = some pkts ∧ read pkts.flatten = (ws, none) ∧ ws.flatten = b :=
  dns_roundtrip_name server dom rs b (by
    have := encName_splitDots_length dom
    omega)

end XMT.Dns
