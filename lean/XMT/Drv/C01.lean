import XMT.Drv.Util
import XMT.Drv.C11
import XMT.Flag
import XMT.Packet
namespace XMT.Drv.C01
open XMT XMT.Drv XMT.Packet XMT.Codec

def showPErr : PErr → String
  | .eof => "eof" | .ueof => "ueof" | .noProgress => "noprogress" | .invalidType => "badtype"
  | .malformedTag => "badtag" | .tooLarge => "toolarge" | .tooManyTags => "toomanytags"

def showPkt (p : Packet.Packet) : String :=
  let tg := if p.tags.isEmpty then "." else ";".intercalate (p.tags.map toString)
  s!"{p.id.toNat},{p.job},{p.flags},{tg},{hexOrDash p.dev},{hexOrDash p.payload}"

def parsePkt (s : String) : Option Packet.Packet :=
  match splitOn1 s ',' with
  | [i, j, f, tg, d, pl] => do
    let i ← natOf i; let j ← natOf j; let f ← natOf f
    let tags ← if tg = "." then some [] else (splitOn1 tg ';').mapM natOf
    let d ← ofHex d; let pl ← ofHex pl
    pure { id := UInt8.ofNat i, job := j, flags := f, tags := tags, dev := d, payload := pl }
  | _ => none

def cfGo := XMT.Drv.C11.cfGo

partial def unmarshalN (k : Nat) (s : Stream) (acc : List String) : List String × Stream :=
  if k = 0 then (acc, s) else
  match Packet.unmarshal cfGo s with
  | .ok (p, s') => unmarshalN (k - 1) s' (acc ++ ["ok " ++ showPkt p])
  | .error e =>
    -- the real reader has consumed what it read before failing; report what is left after the
    -- failed attempt the same way: everything the failing reads touched is gone
    (acc ++ ["err " ++ showPErr e], s)

def unmarshalStreamN {S : Type} (P : Prim S) (dr : S → Except PErr (Bytes × S)) :
    Nat → S → List String → List String × S
  | 0, s, acc => (acc, s)
  | k + 1, s, acc =>
    match Packet.unmarshalStream P dr s with
    | .ok (p, s') => unmarshalStreamN P dr k s' (acc ++ ["ok " ++ showPkt p])
    | .error e => (acc ++ ["err " ++ showPErr e], s)

def handle (args : List String) : String :=
  match args with
  | ["flag", op, f, a] =>
    match natOf f, natOf a with
    | some f, some a =>
      let g := match op with
        | "len" => Flag.setLen f a | "pos" => Flag.setPosition f a | "group" => Flag.setGroup f a
        | "clear" => Flag.clear f | "set" => Flag.set f a | "unset" => Flag.unset f a | _ => f
      s!"{g} len={Flag.len g} pos={Flag.position g} group={Flag.group g} bits={Flag.bits g}"
    | _, _ => "bad-op"
  | ["marshal", p] =>
    match parsePkt p with
    | none => "bad-op"
    | some p =>
      match Packet.marshalWrites p with
      | .ok ws => "ok " ++ hexOrDash ws.flatten
      | .error e => "err " ++ showPErr e
  | ["marshalstream", p] =>
    match parsePkt p with
    | none => "bad-op"
    | some p => "ok " ++ hexOrDash (Packet.marshalStream p)
  | ["unmarshal", k, chunks] =>
    match natOf k, parseChunks chunks with
    | some k, some cs =>
      let (outs, r) := unmarshalN k cs []
      " ".intercalate outs ++ (if outs.any (·.startsWith "err") then " rem=?" else s!" rem={r.flatten.length}")
    | _, _ => "bad-op"
  | ["unmarshalstream", rd, k, chunks] =>
    match natOf k, parseChunks chunks with
    | some k, some cs =>
      if rd = "chunk" then
        let (outs, r) := unmarshalStreamN chunkPrim devReadChunk k cs.flatten []
        " ".intercalate outs ++ (if outs.any (·.startsWith "err") then " rem=?" else s!" rem={r.length}")
      else
        let (outs, r) := unmarshalStreamN streamPrim devReadStream k cs []
        " ".intercalate outs ++ (if outs.any (·.startsWith "err") then " rem=?" else s!" rem={r.flatten.length}")
    | _, _ => "bad-op"
  | _ => "bad-op"

end XMT.Drv.C01
