import XMT.Drv.Util
import XMT.Drv.C01
import XMT.Frag
import XMT.FragSend
namespace XMT.Drv.C02
open XMT XMT.Drv XMT.Frag

def showOut : Out → String
  | .deliver p => "deliver:" ++ XMT.Drv.C01.showPkt p
  | .stored => "stored"
  | .dropReply => "drop"
  | .errCount => "err:count"
  | .errMismatch => "err:mismatch"
  | .control => "control"

def showGroups (fs : Frags) : String :=
  if fs.isEmpty then "-" else
  let sorted := fs.toArray.qsort (fun a b => a.1 < b.1) |>.toList
  ",".intercalate (sorted.map fun kv => s!"{kv.1}:{kv.2.data.length}/{kv.2.max}/{kv.2.e}/{kv.2.c}")

/-- arrivals interleaved with wake-ups of the receiver (`sweep` = one `markSweepFrags`) -/
def recvSeq (fs : Frags) : List String → Option (Frags × List String)
  | [] => some (fs, [])
  | t :: ts =>
    if t = "sweep" then do
      let r ← recvSeq (sweep fs) ts
      some (r.1, "swept" :: r.2)
    else do
      let p ← XMT.Drv.C01.parsePkt t
      let r := recvFrag fs p
      let rs ← recvSeq r.1 ts
      some (rs.1, showOut r.2 :: rs.2)

/-- round s3: as `recvSeq`, every answer followed by `@` and the reassembly state after the event
(arrivals with repetitions, wake-ups in any number) -/
def recvSeqS (fs : Frags) : List String → Option (List String)
  | [] => some []
  | t :: ts =>
    if t = "sweep" then do
      let rs ← recvSeqS (sweep fs) ts
      some (("swept@" ++ showGroups (sweep fs)) :: rs)
    else do
      let p ← XMT.Drv.C01.parsePkt t
      let r := recvFrag fs p
      let rs ← recvSeqS r.1 ts
      some ((showOut r.2 ++ "@" ++ showGroups r.1) :: rs)

/-- round s3: fill a send channel of capacity `cap` — a plain token is a packet handed to `queue`,
`W w g j pkt` a packet larger than the fragment limit handed to `write(w, pkt)` (g, j: the group and
Job numbers the implementation drew) -/
def buildQ (cap : Nat) (uuid : Bytes) (F : Nat) : List Pkt → List String → Option (List Pkt × List String)
  | q, [] => some (q, [])
  | q, "W" :: w :: g :: j :: p :: rest => do
    let w ← natOf w
    let g ← natOf g
    let j ← natOf j
    let p ← XMT.Drv.C01.parsePkt p
    match writeBig (w != 0) cap uuid F q p g j with
    | none => do
      let r ← buildQ cap uuid F q rest
      some (r.1, "full" :: r.2)
    | some q' => do
      let r ← buildQ cap uuid F q' rest
      some (r.1, s!"queued{q'.length - q.length}" :: r.2)
  | q, t :: rest => do
    let p ← XMT.Drv.C01.parsePkt t
    buildQ cap uuid F (enqueue cap uuid q p) rest

def showLeaves (o : Pkt) : String :=
  match XMT.Batch.unpack 8 o with
  | .ok ps => if ps.isEmpty then "." else " ".intercalate (ps.map XMT.Drv.C01.showPkt)
  | .error _ => "unpack-error"

def handle (args : List String) : String :=
  match args with
  | ["split", f, g, j, p] =>
    -- j: the Job number the implementation drew for a packet without one
    match natOf f, natOf g, natOf j, XMT.Drv.C01.parsePkt p with
    | some f, some g, some j, some p => " ".intercalate ((split f (withJob p j) g).map XMT.Drv.C01.showPkt)
    | _, _, _, _ => "bad-op"
  | "recv" :: toks =>
    match recvSeq [] toks with
    | none => "bad-op"
    | some (fs, outs) => " ".intercalate outs ++ " groups=" ++ showGroups fs
  | "recvs" :: toks =>
    match recvSeqS [] toks with
    | none => "bad-op"
    | some outs => " ".intercalate outs
  | "sendorder" :: pk :: f :: cap :: dev :: uuid :: toks =>
    match natOf pk, natOf f, natOf cap, ofHex dev, ofHex uuid with
    | some pk, some f, some cap, some dev, some uuid =>
      match buildQ cap uuid f [] toks with
      | none => "bad-op"
      | some (q, ws) =>
        let txs := XMT.Batch.drain pk f dev (q.length + 5) { q := q, peek := none, last := 0 }
        " ".intercalate ws ++ " => " ++ " | ".intercalate (txs.map showLeaves)
    | _, _, _, _, _ => "bad-op"
  | _ => "bad-op"

end XMT.Drv.C02
