import XMT.Drv.Util
import XMT.Drv.C01
import XMT.Frag
namespace XMT.Drv.C02
open XMT XMT.Drv XMT.Frag

def showOut : Out → String
  | .deliver p => "deliver:" ++ XMT.Drv.C01.showPkt p
  | .stored => "stored"
  | .dropReply => "drop"
  | .errCount => "err:count"
  | .errMismatch => "err:mismatch"
  | .control => "control"

def showGroups (fs : Frags) : String :=
  if fs.isEmpty then "-" else
  let sorted := fs.toArray.qsort (fun a b => a.1 < b.1) |>.toList
  ",".intercalate (sorted.map fun kv => s!"{kv.1}:{kv.2.data.length}/{kv.2.max}/{kv.2.e}/{kv.2.c}")

/-- arrivals interleaved with wake-ups of the receiver (`sweep` = one `markSweepFrags`) -/
def recvSeq (fs : Frags) : List String → Option (Frags × List String)
  | [] => some (fs, [])
  | t :: ts =>
    if t = "sweep" then do
      let r ← recvSeq (sweep fs) ts
      some (r.1, "swept" :: r.2)
    else do
      let p ← XMT.Drv.C01.parsePkt t
      let r := recvFrag fs p
      let rs ← recvSeq r.1 ts
      some (rs.1, showOut r.2 :: rs.2)

def handle (args : List String) : String :=
  match args with
  | ["split", f, g, j, p] =>
    -- j: the Job number the implementation drew for a packet without one
    match natOf f, natOf g, natOf j, XMT.Drv.C01.parsePkt p with
    | some f, some g, some j, some p => " ".intercalate ((split f (withJob p j) g).map XMT.Drv.C01.showPkt)
    | _, _, _, _ => "bad-op"
  | "recv" :: toks =>
    match recvSeq [] toks with
    | none => "bad-op"
    | some (fs, outs) => " ".intercalate outs ++ " groups=" ++ showGroups fs
  | _ => "bad-op"

end XMT.Drv.C02
