import XMT.Drv.Util
import XMT.Drv.C01
import XMT.Batch
import XMT.Drv.C15
import XMT.BatchS3Drv
namespace XMT.Drv.C03
open XMT XMT.Drv XMT.Batch

def sortTags (p : Pkt) : Pkt := { p with tags := (p.tags.toArray.qsort (· < ·)).toList }

def drain (P F : Nat) (i : Bytes) : Nat → St → List String → List String
  | 0, _, acc => acc ++ ["fuel"]
  | fuel + 1, st, acc =>
    match next P F st i with
    | (none, _) => acc
    | (some o, st') => drain P F i fuel st' (acc ++ [XMT.Drv.C01.showPkt (sortTags o)])

def handle (args : List String) : String :=
  match args with
  | "drain" :: p :: f :: last :: dev :: toks =>
    match natOf p, natOf f, natOf last, ofHex dev, toks.mapM XMT.Drv.C01.parsePkt with
    | some p, some f, some last, some dev, some ps =>
      let outs := drain p f dev (ps.length + 5) { q := ps, peek := none, last := last } []
      if outs.isEmpty then "." else " ".intercalate outs
    | _, _, _, _, _ => "bad-op"
  | ["unpack", tok] =>
    match XMT.Drv.C01.parsePkt tok with
    | none => "bad-op"
    | some n =>
      match unpack 8 n with
      | .ok ps => if ps.isEmpty then "." else " ".intercalate (ps.map XMT.Drv.C01.showPkt)
      | .error e => "err " ++ XMT.Drv.C01.showPErr e
  -- the server's reply path when proxying: the routing model of C15 (XMT/Route.lean)
  | "srv" :: rest => XMT.Drv.C15.handle ("srv" :: rest)
  -- s3: tag-heavy queues; tokens with tag runs, one summary per transmission (tags: count, sum, Marshal)
  | "drainT" :: p :: f :: last :: dev :: toks =>
    match natOf p, natOf f, natOf last, ofHex dev, toks.mapM XMT.BatchS3Drv.parsePktR with
    | some p, some f, some last, some dev, some ps =>
      let outs := XMT.BatchS3Drv.drainT p f dev (ps.length + 5) { q := ps, peek := none, last := last } []
      if outs.isEmpty then "." else " | ".intercalate outs
    | _, _, _, _, _ => "bad-op"
  -- s3: Session.next with the PRNG words of verifyPacket scripted (`words` = comma separated, cycled)
  | "drainJ" :: p :: f :: last :: dev :: words :: toks =>
    match natOf p, natOf f, natOf last, ofHex dev, (splitOn1 words ',').mapM natOf, toks.mapM XMT.Drv.C01.parsePkt with
    | some p, some f, some last, some dev, some ws, some ps =>
      " ".intercalate (XMT.BatchS3Drv.drainJ (XMT.BatchS3Drv.wordsOf ws.toArray) p f dev (ps.length + 5)
        { q := ps, peek := none, last := last } 0 [])
    | _, _, _, _, _, _ => "bad-op"
  -- s3: histories of queue / next(true) / next(false) events in every session mode (all arms of pick)
  | "histB" :: p :: f :: dev :: cl :: pn :: evs =>
    match natOf p, natOf f, ofHex dev, natOf cl, natOf pn with
    | some p, some f, some dev, some cl, some pn =>
      match XMT.BatchS3Drv.histB p f dev (cl = 1) (pn = 1) evs { q := [], peek := none, last := 0 } [] with
      | some outs => if outs.isEmpty then "." else " ".intercalate outs
      | none => "bad-op"
    | _, _, _, _, _ => "bad-op"
  | _ => "bad-op"

end XMT.Drv.C03
