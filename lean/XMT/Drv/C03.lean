import XMT.Drv.Util
import XMT.Drv.C01
import XMT.Batch
import XMT.Drv.C15
namespace XMT.Drv.C03
open XMT XMT.Drv XMT.Batch

def sortTags (p : Pkt) : Pkt := { p with tags := (p.tags.toArray.qsort (· < ·)).toList }

def drain (P F : Nat) (i : Bytes) : Nat → St → List String → List String
  | 0, _, acc => acc ++ ["fuel"]
  | fuel + 1, st, acc =>
    match next P F st i with
    | (none, _) => acc
    | (some o, st') => drain P F i fuel st' (acc ++ [XMT.Drv.C01.showPkt (sortTags o)])

def handle (args : List String) : String :=
  match args with
  | "drain" :: p :: f :: last :: dev :: toks =>
    match natOf p, natOf f, natOf last, ofHex dev, toks.mapM XMT.Drv.C01.parsePkt with
    | some p, some f, some last, some dev, some ps =>
      let outs := drain p f dev (ps.length + 5) { q := ps, peek := none, last := last } []
      if outs.isEmpty then "." else " ".intercalate outs
    | _, _, _, _, _ => "bad-op"
  | ["unpack", tok] =>
    match XMT.Drv.C01.parsePkt tok with
    | none => "bad-op"
    | some n =>
      match unpack 8 n with
      | .ok ps => if ps.isEmpty then "." else " ".intercalate (ps.map XMT.Drv.C01.showPkt)
      | .error e => "err " ++ XMT.Drv.C01.showPErr e
  -- the server's reply path when proxying: the routing model of C15 (XMT/Route.lean)
  | "srv" :: rest => XMT.Drv.C15.handle ("srv" :: rest)
  | _ => "bad-op"

end XMT.Drv.C03
