import XMT.Drv.Util
import XMT.Decode
import XMT.DecodeDns
import XMT.DecodeStream
import XMT.DecodeSafe
import XMT.FragHostile
import XMT.Drv.C01
import XMT.DispatchDrv
namespace XMT.Drv.C04
open XMT XMT.Decode XMT.Drv

def showErr : Err → String
  | .eof => "eof" | .ueof => "ueof" | .badType => "badtype" | .tooLarge => "toolarge"
  | .noProgress => "noprogress" | .malformedTag => "malformedtag" | .malformedPacket => "malformedpacket"
  | .invalidCount => "invalidcount" | .shortBuffer => "shortbuffer" | .closedPipe => "closedpipe"
  | .mismatch => "mismatch"

def showTok : Tok → String
  | .u8 n => s!"u8:{n}" | .u16 n => s!"u16:{n}" | .u32 n => s!"u32:{n}" | .u64 n => s!"u64:{n}"
  | .bool b => if b then "b:1" else "b:0"
  | .by b => s!"by:{hexOrDash b}" | .str b => s!"s:{hexOrDash b}" | .raw b => s!"r:{hexOrDash b}"

def showTrace (l : List Tok) : String :=
  if l.isEmpty then "-" else ",".intercalate (l.reverse.map showTok)

/-- the constants `(K, B)` of the theorems in XMT/Props/C04.lean, per decoder name -/
def boundOf (name : String) : Option (Nat × Nat) :=
  match name with
  | "bytes" | "str" => some (1, 0)
  | "strlist" => some (129, 0)
  | "devinfo" => some (1, bDevInfo)
  | "proxydata" => some (1, bProxy)
  | "upkt" => some (2, bTags)
  | "r.pwd" | "r.spawn" | "r.bool" | "r.upload" | "r.whoami" | "r.pull" | "r.assembly" | "r.process"
  | "r.download" | "r.systemio" => some (1, 0)
  | "r.mounts" => some (129, 0)
  | "r.ls" => some (kLs + Facts.c04_sizeofInterface, 0)
  | "r.windows" => some (1 + Facts.c04_sizeofWindow, 0)
  | "r.funcs" => some (1 + Facts.c04_sizeofFuncEntry, 0)
  | "r.procs" => some (1 + Facts.c04_sizeofProcessInfo, 0)
  | "r.registry" => some (1 + Facts.c04_sizeofRegEntry, 0)
  | "r.logins" => some (1, bLogins)
  | "r.script" => some (kScript, Facts.c04_sizeofPacket)
  | "s.bytes" => some (1, 0)
  | "s.strlist" => some (130, 0)
  | _ => none

def decoderOf (name : String) (arg : Nat) : Option (D Unit) :=
  let u {α : Type} (d : D α) : D Unit := do let _ ← d; pure ()
  match name with
  | "bytes" => some (u bytes)
  | "str" => some (u str)
  | "strlist" => some (u strList)
  | "devinfo" => some (readDeviceInfo arg)
  | "proxydata" => some (readProxyData (arg = 1))
  | "upkt" => some (u unmarshalStream)
  | "r.pwd" => some (rPwd arg) | "r.spawn" => some (rSpawn arg) | "r.bool" => some (rBool arg)
  | "r.mounts" => some (rMounts arg) | "r.ls" => some (rLs arg) | "r.windows" => some (rWindowList arg)
  | "r.funcs" => some (rFuncRemapList arg) | "r.procs" => some (rProcessList arg)
  | "r.logins" => some (rUserLogins arg) | "r.registry" => some (rRegistry arg)
  | "r.upload" => some (rUpload arg) | "r.whoami" => some (rWhoami arg) | "r.pull" => some (rPull arg)
  | "r.assembly" => some (rAssembly arg) | "r.process" => some (rProcess arg)
  | "r.download" => some (rDownload arg) | "r.systemio" => some (rSystemIO arg)
  | "r.script" => some (rScript arg)
  | _ => none

/-- memory cap of the sandboxed child the implementation runs in: a request above it is `oom` -/
def memCap : Nat := 2 ^ 30

def acOf (name : String) (len alloc : Nat) : String :=
  match boundOf name with
  | some (k, b) =>
    -- same allowance as the harness applies to the measured bytes: size-class rounding (≤ 25 %)
    -- and a few small runtime objects per call
    let limit := k * len + b
    if alloc ≤ limit + limit / 4 + 4096 then "prop" else "over"
  | none => "?"

def showOut (name : String) (len : Nat) (o : Out Unit) : String :=
  let tr (s : St) := if name.startsWith "r." then "-" else showTrace s.out
  match o with
  | .ok _ s => s!"ok rem={s.rest.length} ac={acOf name len s.alloc} tr={tr s}"
  | .err e s => s!"err {showErr e} rem={s.rest.length} ac={acOf name len s.alloc} tr={tr s}"
  | .panic _ => "panic"
  | .hang => "hang"

def showCodecErr : Codec.Err → String
  | .eof => "eof" | .unexpectedEOF => "ueof" | .invalidType => "badtype" | .tooLarge => "toolarge"

def showFragOut : Frag.Out → String
  | .deliver p => s!"deliver:{p.id.toNat}:{p.job}:{p.flags}:{p.payload.length}"
  | .stored => "stored"
  | .dropReply => "drop"
  | .errCount => "err:count"
  | .errMismatch => "err:mismatch"
  | .control => "control"

def handle (args : List String) : String :=
  match args with
  | ["bound", name] =>
    match boundOf name with
    | some (k, b) => s!"{k} {b}"
    | none => "bad-op"
  | ["dec", name, arg, hex] =>
    match decoderOf name (arg.toNat?.getD 0), arg.toNat?, ofHex hex with
    | some d, some _, some bs => showOut name bs.length (run d bs)
    | _, _, _ => "bad-op"
  | ["sdec", "bytes", chunks] =>
    match parseChunks chunks with
    | some cs =>
      let a := Stream.bytesAlloc cs
      if a > memCap then "oom"
      else
        match Codec.decBytes Codec.streamPrim cs with
        | .ok (b, r) => s!"ok len={b.length} rem={r.flatten.length}"
        | .error e => s!"err {showCodecErr e}"
    | none => "bad-op"
  | ["sdec", "strlist", chunks] =>
    match parseChunks chunks with
    | some cs =>
      let a := Stream.strsAlloc cs
      if a > memCap then "oom"
      else
        match Codec.decStrs Codec.streamPrim cs with
        | .ok (l, r) => s!"ok n={l.length} rem={r.flatten.length}"
        | .error e => s!"err {showCodecErr e}"
    | none => "bad-op"
  | ["hsw", host, nc, xc] =>
    let h : Option Bool := if host = "nil" then none else some (host = "1")
    match handleSwitch h (nc = "1") (xc = "1") with
    | .start => "start" | .close => "close" | .panic => "panic"
  | ["dns", hex] =>
    match ofHex hex with
    | some b =>
      match Dns.read b with
      | .ok w => s!"ok {hexOrDash w}"
      | .err e => s!"err {showErr e}"
      | .panic _ => "panic"
      | .hang => "hang"
    | none => "bad-op"
  | "fragseq" :: toks =>
    match toks.mapM XMT.Drv.C01.parsePkt with
    | none => "bad-op"
    | some ps =>
      match FragHostile.recvAllP [] ps with
      | .panic => "panic"
      | .ok (fs, outs) =>
        " ".intercalate (outs.map showFragOut) ++ s!" groups={fs.length} held={FragHostile.held fs}"
  | "dsp-process" :: _ | "dsp-resolve" :: _ | "dsp-handle" :: _ | "dsp-recv" :: _ =>
    XMT.Dispatch.Drv.handle args
  | _ => "bad-op"

end XMT.Drv.C04
