import XMT.Drv.Util
import XMT.Proto
namespace XMT.Drv.C05
open XMT XMT.Proto XMT.Drv

def boolOf (s : String) : Option Bool :=
  if s = "1" then some true else if s = "0" then some false else none

def parsePkt (tok : String) : Option Pkt :=
  match splitOn1 tok ',' with
  | ["t", k, j, p] => do some (.task (← natOf k) (← natOf j) (← natOf p))
  | ["r", j, r] => do some (.result (← natOf j) (← natOf r))
  | ["k"] => some .rekey
  | ["c"] => some .ctrl
  | _ => none

def parsePkts (tok : String) : Option (List Pkt) :=
  if tok = "-" then some [] else (splitOn1 tok ';').mapM parsePkt

def parseEv (tok : String) : Option Ev :=
  match splitOn1 tok '.' with
  | ["T", c, k, j, p] => do some ⟨← natOf c, .task (← natOf k) (← natOf j) (← natOf p)⟩
  | ["F", c] => do some ⟨← natOf c, .taskFull⟩
  | ["SN", c, ps] => do some ⟨← natOf c, .snext (← parsePkts ps)⟩
  | ["CR", c, p] => do some ⟨← natOf c, .crecv (← parsePkt p)⟩
  | ["X", c, k, j, p] => do some ⟨← natOf c, .exec (← natOf k) (← natOf j) (← natOf p)⟩
  | ["RS", c, j, r, d] => do some ⟨← natOf c, .result (← natOf j) (← natOf r) (← boolOf d)⟩
  | ["CN", c, ps] => do some ⟨← natOf c, .cnext (← parsePkts ps)⟩
  | ["SR", c, p] => do some ⟨← natOf c, .srecv (← parsePkt p)⟩
  | ["H", c, j, r, t] => do some ⟨← natOf c, .handle (← natOf j) (← natOf r) (← boolOf t)⟩
  | ["SQ", c, d] => do some ⟨← natOf c, .sctrl (← boolOf d)⟩
  | ["CQ", c, d] => do some ⟨← natOf c, .cctrl (← boolOf d)⟩
  | ["G", c] => do some ⟨← natOf c, .regen⟩
  | ["K", c] => do some ⟨← natOf c, .sync⟩
  | ["V", c] => do some ⟨← natOf c, .revert⟩
  | ["SC", c, b] => do some ⟨← natOf c, .setChan true (← boolOf b)⟩
  | ["CC", c, b] => do some ⟨← natOf c, .setChan false (← boolOf b)⟩
  | ["W", c] => do some ⟨← natOf c, .wake⟩
  | _ => none

/-- number of dispatched jobs of kind 0 (echo Tasker) -/
def echoExecs (s : Sess) : Nat :=
  (s.execd.filter fun j => s.pay.any fun (i, k, _) => i == j && k == 0).length

def summary (st : State) : String :=
  let one (s : Sess) : String :=
    s!"e={echoExecs s},c={s.completed.length},p={s.jobs.length},d={s.dropped.length},u={s.untracked}"
  "accept " ++ " ".intercalate (st.map one)

def handle : List String → String
  | "trace" :: n :: evs =>
    match natOf n, evs.mapM parseEv with
    | some n, some tr =>
      if n = 0 ∨ n > 16 then "bad-op" else
      match run? echoF (init n) tr with
      | some st => summary st
      | none => "reject"
    | _, _ => "bad-op"
  | "diag" :: n :: evs =>
    match natOf n, evs.mapM parseEv with
    | some n, some tr =>
      match firstReject echoF (init n) tr 0 with
      | none => "accept"
      | some i => s!"reject@{i} {evs.getD i "?"}"
    | _, _ => "bad-op"
  /- result function of the echo Tasker / MvTime: `f kind client job payload` -/
  | ["f", k, c, j, p] =>
    match natOf k, natOf c, natOf j, natOf p with
    | some k, some c, some j, some p => toString (echoF k c j p)
    | _, _, _, _ => "bad-op"
  | _ => "bad-op"

end XMT.Drv.C05
