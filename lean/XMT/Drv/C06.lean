import XMT.Drv.Util
import XMT.Keys
import XMT.KeysPickWait
import XMT.KeysConnDrv
namespace XMT.Drv.C06
open XMT XMT.Keys XMT.Drv

/-- `priv:pub,priv:pub,…` -/
def parsePubTable (s : String) : Option (List (Bytes × Bytes)) :=
  if s = "" then some [] else
  (splitOn1 s ',').mapM fun e =>
    match splitOn1 e ':' with
    | [a, p] => do pure (← ofHex a, ← ofHex p)
    | _ => none

/-- `priv:pub:secret,…` with `!` = the operation fails -/
def parseDhTable (s : String) : Option (List (Bytes × Bytes × Option Bytes)) :=
  if s = "" then some [] else
  (splitOn1 s ',').mapM fun e =>
    match splitOn1 e ':' with
    | [a, p, v] => do
      let a ← ofHex a
      let p ← ofHex p
      if v = "!" then pure (a, p, none) else pure (a, p, some (← ofHex v))
    | _ => none

/-- The curve given by the tables: an absent `dh` entry is a public key that does not parse. -/
def tableCurve (pt : List (Bytes × Bytes)) (dt : List (Bytes × Bytes × Option Bytes)) : Curve where
  pubOf a := match pt.find? (·.1 = a) with | some e => e.2 | none => []
  dh m n := match dt.find? (fun e => e.1 = m ∧ e.2.1 = n) with | some e => e.2.2 | none => none

def parseFault : String → Option Fault
  | "o" => some .ok | "w" => some .writeFail | "l" => some .replyLost | _ => none

def parseEv (t : String) : Option Ev :=
  match splitOn1 t ':' with
  | ["drop"] => some .drop
  | ["con", a, info, f] => do pure (.connect (← ofHex a) (← ofHex info) (← parseFault f))
  | ["x", k, d, reply, fresh, f] => do
    let d ← ofHex d
    let snd ← if k = "D" then some (Send.data d) else if k = "R" then some (Send.rekey d) else none
    pure (.xchg snd (← ofHex reply) (← ofHex fresh) (← parseFault f))
  | _ => none

/-- every scalar a history draws must be in the pubOf table -/
def evKeys : Ev → List Bytes
  | .connect a _ _ => [a]
  | .xchg (.rekey a) _ fresh _ => if fresh.isEmpty then [a] else [a, fresh]
  | .xchg _ _ fresh _ => if fresh.isEmpty then [] else [fresh]
  | .drop => []

def showState (s : State) : String :=
  let c := match s.client with
    | none => "none"
    | some cl => toHex cl.keys.share ++ "/" ++ (if cl.next.isSome then "1" else "0")
  let sv := match s.server.sess with
    | none => "none"
    | some sk => toHex sk.share
  s!"c={c} s={sv}"

def showObs (o : Obs) : String := (if o.toServer then " S:" else " C:") ++ hexOrDash o.got

def kv (pre : String) (t : String) : Option String :=
  if t.startsWith pre then some (t.drop pre.length).toString else none

def runHist (cv : Curve) (obs : Bool) : State → List Ev → List String → List String
  | _, [], acc => acc.reverse
  | s, e :: es, acc =>
    let s' := step cv { s with obs := [] } e
    let line := showState s' ++ (if obs then String.join (s'.obs.map showObs) else "")
    runHist cv obs s' es (line :: acc)

def parseTid : String → Option Tid
  | "S" => some .loop | "L" => some .lis | _ => none

def handle (args : List String) : String :=
  match args with
  | ["xor", v, k] =>
    match ofHex v, ofHex k with
    | some v, some k => hexOrDash (xorOp v k)
    | _, _ => "bad-op"
  | ["fill", prev, sec] =>
    match ofHex prev, (if sec = "!" then some none else (ofHex sec).map some) with
    | some prev, some sec =>
      let cv : Curve := { pubOf := fun _ => [], dh := fun _ _ => sec }
      let k : KeyPair := { pub := [], priv := [], share := prev }
      let (k', ok) := k.fillShared cv [] []
      (if ok then "ok " else "err ") ++ hexOrDash k'.share
    | _, _ => "bad-op"
  | ["pickwait", ab, rk, pend] =>
    -- the Channel-mode helper: abandoned 0|1, re-key rolled 0|1, a KeyPair already pending 0|1
    let cv : Curve := { pubOf := fun a => a, dh := fun _ _ => some [1] }
    let cl : Client := { keys := KeyPair.zero, next := if pend = "1" then some KeyPair.zero else none }
    let r := pickWait cv cl (ab = "1") (if rk = "1" then some [7] else none)
    s!"pending={if r.2.next.isSome then 1 else 0} queued={if r.1.isSome then 1 else 0} crypt={match r.1 with | some p => (if p.crypt then 1 else 0) | none => 0}"
  | "hist" :: o :: srv :: pt :: dt :: evs =>
    match kv "obs=" o, (kv "srv=" srv).bind ofHex, (kv "pub=" pt).bind parsePubTable,
          (kv "dh=" dt).bind parseDhTable, evs.mapM parseEv with
    | some o, some b, some pt, some dt, some evs =>
      if (b :: evs.flatMap evKeys).all (fun a => pt.any (·.1 = a)) then
        let cv := tableCurve pt dt
        " | ".intercalate (runHist cv (o = "1") (init cv b) evs [])
      else "bad-op"
    | _, _, _, _, _ => "bad-op"
  | "boot" :: pre :: srv :: a :: pt :: dt :: sched =>
    match kv "prefill=" pre, (kv "srv=" srv).bind ofHex, (kv "a=" a).bind ofHex,
          (kv "pub=" pt).bind parsePubTable, (kv "dh=" dt).bind parseDhTable, sched.mapM parseTid with
    | some pre, some b, some a, some pt, some dt, some sched =>
      if [a, b].all (fun x => pt.any (·.1 = x)) then
        match bootRun (tableCurve pt dt) (pre = "1") b a sched with
        | none => "failed"
        | some (c, s) => s!"c={toHex c} s={toHex s}"
      else "bad-op"
    | _, _, _, _, _, _ => "bad-op"
  -- per-connection key handling (XMT/KeysConn.lean; ops in XMT/KeysConnDrv.lean)
  | "resolve" :: rest => KeysConnDrv.resolveOp rest
  | "polls" :: rest => KeysConnDrv.pollsOp rest
  | "chan" :: rest => KeysConnDrv.chanOp rest
  | "fill2" :: rest => KeysConnDrv.fill2Op rest
  | _ => "bad-op"

end XMT.Drv.C06
