import XMT.Drv.Util
import XMT.Cbk
import XMT.Dns
import XMT.Wrap
import XMT.HexCodec
import XMT.B64Codec
namespace XMT.Drv.C07
open XMT XMT.Drv

def u8Of (s : String) : Option UInt8 := do
  let n ← natOf s
  if n < 256 then some (UInt8.ofNat n) else none

def showRErr : Option Cbk.RErr → String
  | none => "nil" | some .eof => "eof" | some .unexpectedEOF => "ueof" | some .shortBuffer => "short"

def cbkState (a b c d sz : String) : Option (Option Cbk.St) := do
  some (Cbk.newSource (← u8Of a) (← u8Of b) (← u8Of c) (← u8Of d) (← u8Of sz))

/-! base64.StdEncoding / hex (stdlib parameters of the model, executable here for the driver only) -/
def b64Alphabet : Array Char :=
  "ABCDEFGHIJKLMNOPQRSTUVWXYZabcdefghijklmnopqrstuvwxyz0123456789+/".toList.toArray

def b64c (n : Nat) : UInt8 := UInt8.ofNat (b64Alphabet[n % 64]!).toNat

def enc64 : Bytes → Bytes
  | [] => []
  | [a] => [b64c (a.toNat / 4), b64c (a.toNat % 4 * 16), 61, 61]
  | [a, b] => [b64c (a.toNat / 4), b64c (a.toNat % 4 * 16 + b.toNat / 16), b64c (b.toNat % 16 * 4), 61]
  | a :: b :: c :: r =>
    b64c (a.toNat / 4) :: b64c (a.toNat % 4 * 16 + b.toNat / 16) ::
      b64c (b.toNat % 16 * 4 + c.toNat / 64) :: b64c (c.toNat % 64) :: enc64 r

def b64v (x : UInt8) : Option Nat :=
  let n := x.toNat
  if 65 ≤ n ∧ n ≤ 90 then some (n - 65) else if 97 ≤ n ∧ n ≤ 122 then some (n - 71)
  else if 48 ≤ n ∧ n ≤ 57 then some (n + 4) else if n = 43 then some 62 else if n = 47 then some 63 else none

def dec64 : Bytes → Option Bytes
  | [] => some []
  | [a, b, 61, 61] => do
    let a ← b64v a; let b ← b64v b
    some [UInt8.ofNat (a * 4 + b / 16)]
  | [a, b, c, 61] => do
    let a ← b64v a; let b ← b64v b; let c ← b64v c
    some [UInt8.ofNat (a * 4 + b / 16), UInt8.ofNat (b % 16 * 16 + c / 4)]
  | a :: b :: c :: d :: r => do
    let a ← b64v a; let b ← b64v b; let c ← b64v c; let d ← b64v d
    let r ← dec64 r
    some (UInt8.ofNat (a * 4 + b / 16) :: UInt8.ofNat (b % 16 * 16 + c / 4) :: UInt8.ofNat (c % 4 * 64 + d) :: r)
  | _ => none

/-- layer spec: `xor:<keyhex>` | `cbk:a.b.c.d.sz` -/
def parseLayer (s : String) : Option Wrap.Layer :=
  match splitOn1 s ':' with
  | ["xor", k] =>
    match ofHex k with
    | some k => if k.isEmpty then none else some (Wrap.xorLayer k)
    | none => none
  | ["cbk", k] =>
    match splitOn1 k '.' with
    | [a, b, c, d, sz] =>
      match cbkState a b c d sz with
      | some (some st) => some (Cbk.cbkLayer st)
      | _ => none
    | _ => none
  | _ => none

def parseLayersAux : List String → Option (List Wrap.Layer)
  | [] => some []
  | x :: xs =>
    match parseLayer x, parseLayersAux xs with
    | some l, some ls => some (l :: ls)
    | _, _ => none

def parseLayers (s : String) : Option (List Wrap.Layer) :=
  if s = "." then some [] else parseLayersAux (splitOn1 s ',')

/-- equal up to the positions where the random bytes go -/
def eqMasked (impl lo hi : Bytes) : Bool :=
  impl.length = lo.length ∧ (List.zip impl (List.zip lo hi)).all fun (x, l, h) => l ≠ h ∨ x = l

/-! extension round 3: concrete hex / base64 codecs (XMT/HexCodec.lean, XMT/B64Codec.lean) -/
def showHErr : Option HexCodec.HErr → String
  | none => "nil" | some .eof => "eof" | some .ueof => "ueof" | some .length => "length"
  | some (.invalidByte b) => s!"invalid:{b.toNat}"

def showBErr : Option B64Codec.BErr → String
  | none => "nil" | some .eof => "eof" | some .ueof => "ueof" | some .corrupt => "corrupt"

/-- layer spec of round 3: `hex` | `b64` | the specs of `parseLayer` -/
def parseLayer3 (s : String) : Option Wrap.Layer :=
  if s = "hex" then some HexCodec.hexLayer
  else if s = "b64" then some B64Codec.b64Layer
  else parseLayer s

def parseLayers3 (s : String) : Option (List Wrap.Layer) :=
  if s = "." then some [] else (splitOn1 s ',').mapM parseLayer3

def handle (args : List String) : String :=
  match args with
  | ["cbkw", a, b, c, d, sz, chunks] =>
    match cbkState a b c d sz, parseChunks chunks with
    | some st, some ws =>
      match st with
      | none => "err"
      | some st =>
        match Cbk.writeAll st ws with
        | none => "panic"
        | some out => s!"ok {showChunks out}"
    | _, _ => "bad-op"
  | ["cbkr", a, b, c, d, sz, chunks, reqs] =>
    match cbkState a b c d sz, parseChunks chunks, (splitOn1 reqs ',').mapM natOf with
    | some st, some cs, some ks =>
      match st with
      | none => "err"
      | some st =>
        match Cbk.readSeq st cs ks with
        | none => "panic"
        | some (got, e) => s!"ok {showChunks got} {showRErr e}"
    | _, _, _ => "bad-op"
  | ["dnsenc", srv, dom, payload, impl] =>
    match ofHex dom, ofHex payload, parseChunks impl with
    | some dom, some p, some impl =>
      let server := srv = "1"
      let n := impl.length
      match Dns.write server dom (List.replicate n fun _ => 0) p, Dns.write server dom (List.replicate n fun _ => 255) p with
      | some lo, some hi =>
        if lo.length = n ∧ (List.zip impl (List.zip lo hi)).all (fun (x, l, h) => eqMasked x l h) then s!"ok n={n}"
        else s!"diff {showChunks lo}"
      | _, _ => "short"
    | _, _, _ => "bad-op"
  | ["dnsdec", mode, wire] =>
    match ofHex wire with
    | some w =>
      match Dns.read w with
      | (ws, none) => s!"ok {showChunks ws}"
      | (_, some e) =>
        if mode = "m" then "fail"
        else match e with
          | .ueof => "err ueof" | .noProgress => "err noprogress" | .panic => "panic"
    | none => "bad-op"
  | ["xorw", key, chunks] =>
    match ofHex key, parseChunks chunks with
    | some k, some ws => if k.isEmpty then "bad-op" else s!"ok {showChunks ((Wrap.xorLayer k).run ws)}"
    | _, _ => "bad-op"
  | ["xorr", key, wire] =>
    match ofHex key, ofHex wire with
    | some k, some w =>
      if k.isEmpty then "bad-op" else
      match (Wrap.xorLayer k).dec w with
      | some b => s!"ok {hexOrDash b}"
      | none => "fail"
    | _, _ => "bad-op"
  | ["b64w", shift, payload] =>
    match u8Of shift, ofHex payload with
    | some s, some p => s!"ok {hexOrDash (Wrap.b64Write enc64 s p)}"
    | _, _ => "bad-op"
  | ["b64r", shift, text] =>
    match u8Of shift, ofHex text with
    | some s, some p =>
      match Wrap.b64Read dec64 s p with
      | some b => s!"ok {hexOrDash b}"
      | none => "fail"
    | _, _ => "bad-op"
  | ["stackw", layers, chunks] =>
    match parseLayers layers, parseChunks chunks with
    | some ls, some ws => s!"ok {hexOrDash ((Wrap.multiWrap ls Wrap.sink).run ws)}"
    | _, _ => "bad-op"
  | ["stackr", layers, wire] =>
    match parseLayers layers, ofHex wire with
    | some ls, some w =>
      match Wrap.multiUnwrap ls w with
      | some b => s!"ok {hexOrDash b}"
      | none => "fail"
    | _, _ => "bad-op"
  | ["hexw", chunks] =>
    match parseChunks chunks with
    | some ws => s!"ok {showChunks (HexCodec.hexLayer.run ws)}"
    | none => "bad-op"
  | ["hexr", eof, wire, ks] =>
    match parseChunks wire, (splitOn1 ks ',').mapM natOf with
    | some cs, some ks =>
      let r := HexCodec.readSeq HexCodec.Dec.init { pieces := cs, withEOF := eof = "1" } ks
      s!"ok {showChunks r.1} {showHErr r.2}"
    | _, _ => "bad-op"
  | ["b64ew", chunks] =>
    match parseChunks chunks with
    | some ws => s!"ok {showChunks (B64Codec.b64Layer.run ws)}"
    | none => "bad-op"
  | ["b64er", eof, wire, ks] =>
    match parseChunks wire, (splitOn1 ks ',').mapM natOf with
    | some cs, some ks =>
      let r := B64Codec.readSeq B64Codec.Dec.init { pieces := cs, withEOF := eof = "1" } ks
      s!"ok {showChunks r.1} {showBErr r.2}"
    | _, _ => "bad-op"
  | ["b64tw", shift, payload] =>
    match u8Of shift, ofHex payload with
    | some s, some p => s!"ok {hexOrDash (B64Codec.transformWrite s p)}"
    | _, _ => "bad-op"
  | ["b64td", shift, text] =>
    match u8Of shift, ofHex text with
    | some s, some p =>
      match B64Codec.transformRead s p with
      | some b => s!"ok {hexOrDash b}"
      | none => s!"err {showBErr (B64Codec.decode p).2}"
    | _, _ => "bad-op"
  | ["stackw3", layers, chunks] =>
    match parseLayers3 layers, parseChunks chunks with
    | some ls, some ws => s!"ok {hexOrDash ((Wrap.multiWrap ls Wrap.sink).run ws)}"
    | _, _ => "bad-op"
  | ["stackr3", layers, wire] =>
    match parseLayers3 layers, ofHex wire with
    | some ls, some w =>
      match Wrap.multiUnwrap ls w with
      | some b => s!"ok {hexOrDash b}"
      | none => "fail"
    | _, _ => "bad-op"
  | _ => "bad-op"

end XMT.Drv.C07
