import XMT.CfgShow
namespace XMT.Drv.C08
/-- Line protocol of C08: `pack`/`meaning` over settings tokens, `build`/`validate`/`groups`/`group`/`next` over config bytes. -/
def handle (args : List String) : String := XMT.Cfg.Show.handle args
end XMT.Drv.C08
