import XMT.CfgShow
import XMT.Generated.Facts
namespace XMT.Drv.C09
/-- Line protocol of C09: every parsing entry point over arbitrary config bytes.
`xnext <hex> <i>` (session 3): the definition of `Config.next` REGENERATED from the source by the
Go→Lean translator (`Facts.x_cfg_Config_next_run`: the definition applied, `panic` = index out of range; when the source
leaves the translated fragment the answer is `unsupported` and the driver still builds). -/
def handle (args : List String) : String :=
  match args with
  | ["xnext", c, i] =>
    match ofHex c, XMT.Drv.intOf i with
    | some c, some i => Facts.x_cfg_Config_next_run c i
    | _, _ => "bad-op"
  | _ => XMT.Cfg.Show.handle args
end XMT.Drv.C09
