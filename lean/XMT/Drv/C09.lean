import XMT.CfgShow
namespace XMT.Drv.C09
/-- Line protocol of C09: every parsing entry point over arbitrary config bytes. -/
def handle (args : List String) : String := XMT.Cfg.Show.handle args
end XMT.Drv.C09
