import XMT.Drv.Util
import XMT.Codec
namespace XMT.Drv.C10
open XMT XMT.Codec XMT.Drv

/-- token → (type alias, value).  Aliases (i8 … f64, str, int, uint) are casts on the Go side. -/
def baseTy (t : String) : Option Ty :=
  match t with
  | "b" => some .bool
  | "u8" | "i8" => some .u8
  | "u16" | "i16" => some .u16
  | "u32" | "i32" | "f32" => some .u32
  | "u64" | "i64" | "f64" | "int" | "uint" => some .u64
  | "by" | "str" => some .bytes
  | "sl" => some .strs
  | _ => none

def parseVal (tok : String) : Option Val :=
  match splitOn1 tok ':' with
  | [t, v] => do
    let ty ← baseTy t
    match ty with
    | .bool => if v = "1" then some (.bool true) else if v = "0" then some (.bool false) else none
    | .u8 => do let n ← natOf v; if n < 256 then some (.u8 (UInt8.ofNat n)) else none
    | .u16 => do let n ← natOf v; some (.u16 n)
    | .u32 => do let n ← natOf v; some (.u32 n)
    | .u64 => do let n ← natOf v; some (.u64 n)
    | .bytes => do let b ← ofHex v; some (.bytes b)
    | .strs => if v = "" then some (.strs []) else do
        let l ← (splitOn1 v ',').mapM ofHex; some (.strs l)
  | _ => none

def showVal : Val → String
  | .bool b => if b then "b:1" else "b:0"
  | .u8 n => s!"u8:{n.toNat}"
  | .u16 n => s!"u16:{n}"
  | .u32 n => s!"u32:{n}"
  | .u64 n => s!"u64:{n}"
  | .bytes b => s!"by:{hexOrDash b}"
  | .strs l => "sl:" ++ ",".intercalate (l.map hexOrDash)

def showVals (vs : List Val) : String :=
  if vs.isEmpty then "." else " ".intercalate (vs.map showVal)

def showErr : Err → String
  | .eof => "eof" | .unexpectedEOF => "ueof" | .invalidType => "badtype" | .tooLarge => "toolarge"

def handle (args : List String) : String :=
  match args with
  | "enc" :: toks =>
    match toks.mapM parseVal with
    | none => "bad-op"
    | some vs => s!"{hexOrDash (encAllChunk vs)} {showChunks (encAllStream vs)}"
  | ["dec", rd, tys, chunks] =>
    match (splitOn1 tys ',').mapM baseTy, parseChunks chunks with
    | some ts, some cs =>
      if rd = "chunk" then
        match decAll chunkPrim ts cs.flatten with
        | .ok (vs, r) => s!"ok rem={r.length} {showVals vs}"
        | .error (e, vs) => s!"err {showErr e} {showVals vs}"
      else if rd = "stream" then
        match decAll streamPrim ts cs with
        | .ok (vs, r) => s!"ok rem={r.flatten.length} {showVals vs}"
        | .error (e, vs) => s!"err {showErr e} {showVals vs}"
      else "bad-op"
    | _, _ => "bad-op"
  | _ => "bad-op"

end XMT.Drv.C10
