import XMT.Drv.Util
import XMT.Codec
import XMT.CodecTyped
import XMT.CodecIO
namespace XMT.Drv.C10
open XMT XMT.Codec XMT.Drv

/-- token → (type alias, value).  Aliases (i8 … f64, str, int, uint) are casts on the Go side. -/
def baseTy (t : String) : Option Ty :=
  match t with
  | "b" => some .bool
  | "u8" | "i8" => some .u8
  | "u16" | "i16" => some .u16
  | "u32" | "i32" | "f32" => some .u32
  | "u64" | "i64" | "f64" | "int" | "uint" => some .u64
  | "by" | "str" => some .bytes
  | "sl" => some .strs
  | _ => none

def parseVal (tok : String) : Option Val :=
  match splitOn1 tok ':' with
  | [t, v] => do
    let ty ← baseTy t
    match ty with
    | .bool => if v = "1" then some (.bool true) else if v = "0" then some (.bool false) else none
    | .u8 => do let n ← natOf v; if n < 256 then some (.u8 (UInt8.ofNat n)) else none
    | .u16 => do let n ← natOf v; some (.u16 n)
    | .u32 => do let n ← natOf v; some (.u32 n)
    | .u64 => do let n ← natOf v; some (.u64 n)
    | .bytes => do let b ← ofHex v; some (.bytes b)
    | .strs => if v = "" then some (.strs []) else do
        let l ← (splitOn1 v ',').mapM ofHex; some (.strs l)
  | _ => none

def showVal : Val → String
  | .bool b => if b then "b:1" else "b:0"
  | .u8 n => s!"u8:{n.toNat}"
  | .u16 n => s!"u16:{n}"
  | .u32 n => s!"u32:{n}"
  | .u64 n => s!"u64:{n}"
  | .bytes b => s!"by:{hexOrDash b}"
  | .strs l => "sl:" ++ ",".intercalate (l.map hexOrDash)

def showVals (vs : List Val) : String :=
  if vs.isEmpty then "." else " ".intercalate (vs.map showVal)

def showErr : Err → String
  | .eof => "eof" | .unexpectedEOF => "ueof" | .invalidType => "badtype" | .tooLarge => "toolarge"


/-! ### extension round 3: Go-level values, io scripts -/

def gKind (t : String) : Option GKind :=
  match t with
  | "b" => some .bool | "i8" => some .i8 | "u8" => some .u8 | "i16" => some .i16
  | "u16" => some .u16 | "i32" => some .i32 | "u32" => some .u32 | "i64" => some .i64
  | "u64" => some .u64 | "int" => some .int | "uint" => some .uint | "f32" => some .f32
  | "f64" => some .f64 | "by" => some .bytes | "str" => some .str | "sl" => some .strs
  | _ => none

def parseSl (v : String) : Option (List Bytes) :=
  if v = "" then some [] else (splitOn1 v ',').mapM ofHex

def parseGVal (tok : String) : Option GVal :=
  match splitOn1 tok ':' with
  | [t, v] => do
    let k ← gKind t
    match k with
    | .bool => if v = "1" then some (.bool true) else if v = "0" then some (.bool false) else none
    | .i8 => do let n ← intOf v; some (.i8 n)
    | .u8 => do let n ← natOf v; some (.u8 n)
    | .i16 => do let n ← intOf v; some (.i16 n)
    | .u16 => do let n ← natOf v; some (.u16 n)
    | .i32 => do let n ← intOf v; some (.i32 n)
    | .u32 => do let n ← natOf v; some (.u32 n)
    | .i64 => do let n ← intOf v; some (.i64 n)
    | .u64 => do let n ← natOf v; some (.u64 n)
    | .int => do let n ← intOf v; some (.int n)
    | .uint => do let n ← natOf v; some (.uint n)
    | .f32 => do let n ← natOf v; some (.f32 n)
    | .f64 => do let n ← natOf v; some (.f64 n)
    | .bytes => do let b ← ofHex v; some (.bytes b)
    | .str => do let b ← ofHex v; some (.str b)
    | .strs => do let l ← parseSl v; some (.strs l)
  | _ => none

def showSl (l : List Bytes) : String := "sl:" ++ ",".intercalate (l.map hexOrDash)

def showGVal : GVal → String
  | .bool b => if b then "b:1" else "b:0"
  | .i8 n => s!"i8:{n}" | .u8 n => s!"u8:{n}" | .i16 n => s!"i16:{n}" | .u16 n => s!"u16:{n}"
  | .i32 n => s!"i32:{n}" | .u32 n => s!"u32:{n}" | .i64 n => s!"i64:{n}" | .u64 n => s!"u64:{n}"
  | .int n => s!"int:{n}" | .uint n => s!"uint:{n}" | .f32 n => s!"f32:{n}" | .f64 n => s!"f64:{n}"
  | .bytes b => s!"by:{hexOrDash b}" | .str b => s!"str:{hexOrDash b}"
  | .strs l => showSl l

def showGVals (vs : List GVal) : String :=
  if vs.isEmpty then "." else " ".intercalate (vs.map showGVal)

/-- `hex` / `-` with an optional trailing `!` (io.EOF returned together with it); `.` = no piece. -/
def parsePiece (s : String) : Option Piece :=
  if s.endsWith "!" then (ofHex (String.ofList s.toList.dropLast)).map (⟨·, true⟩) else (ofHex s).map (⟨·, false⟩)

def parseIO (s : String) : Option IOStream :=
  if s = "" ∨ s = "." then some [] else (splitOn1 s '|').mapM parsePiece

def showIO (cs : IOStream) : String :=
  if cs.isEmpty then "." else
    "|".intercalate (cs.map fun p => hexOrDash p.data ++ (if p.eof then "!" else ""))

def showOutG {S : Type} (rem : S → Nat) : Except (Err × List GVal) (List GVal × S) → String
  | .ok (vs, r) => s!"ok rem={rem r} {showGVals vs}"
  | .error (e, vs) => s!"err {showErr e} {showGVals vs}"

def showInto {S : Type} (rem : S → Nat) (shw : String) : Except Err S → String
  | .ok r => s!"dst={shw} nil rem={rem r}"
  | .error e => s!"dst={shw} err {showErr e}"

def handle (args : List String) : String :=
  match args with
  | "enc" :: toks =>
    match toks.mapM parseVal with
    | none => "bad-op"
    | some vs => s!"{hexOrDash (encAllChunk vs)} {showChunks (encAllStream vs)}"
  | ["dec", rd, tys, chunks] =>
    match (splitOn1 tys ',').mapM baseTy, parseChunks chunks with
    | some ts, some cs =>
      if rd = "chunk" then
        match decAll chunkPrim ts cs.flatten with
        | .ok (vs, r) => s!"ok rem={r.length} {showVals vs}"
        | .error (e, vs) => s!"err {showErr e} {showVals vs}"
      else if rd = "stream" then
        match decAll streamPrim ts cs with
        | .ok (vs, r) => s!"ok rem={r.flatten.length} {showVals vs}"
        | .error (e, vs) => s!"err {showErr e} {showVals vs}"
      else "bad-op"
    | _, _ => "bad-op"
  | "encg" :: toks =>
    match toks.mapM parseGVal with
    | none => "bad-op"
    | some vs => s!"{hexOrDash (encAllGChunk vs)} {showChunks (encAllGStream vs)}"
  | ["decg", rd, kinds, src] =>
    match (splitOn1 kinds ',').mapM gKind with
    | none => "bad-op"
    | some ks =>
      if rd = "chunk" then
        match ofHex src with
        | some b => showOutG List.length (decAllG chunkPrim ks b)
        | none => "bad-op"
      else if rd = "io" then
        match parseIO src with
        | some cs => showOutG (fun r => (absIO r).length) (decAllG ioPrim ks cs)
        | none => "bad-op"
      else "bad-op"
  | ["decp", rd, old, src] =>
    match parseGVal old with
    | none => "bad-op"
    | some o =>
      if rd = "chunk" then
        match ofHex src with
        | some b => let r := readInto chunkPrim o.kind o b; showInto List.length (showGVal r.1) r.2
        | none => "bad-op"
      else if rd = "io" then
        match parseIO src with
        | some cs =>
          let r := readInto ioPrim o.kind o cs; showInto (fun r => (absIO r).length) (showGVal r.1) r.2
        | none => "bad-op"
      else "bad-op"
  | ["sli", rd, old, src] =>
    match parseGVal old with
    | some (.strs o) =>
      if rd = "chunk" then
        match ofHex src with
        | some b => let r := decStrsInto chunkPrim o b; showInto List.length (showSl r.1) r.2
        | none => "bad-op"
      else if rd = "io" then
        match parseIO src with
        | some cs =>
          let r := decStrsInto ioPrim o cs; showInto (fun r => (absIO r).length) (showSl r.1) r.2
        | none => "bad-op"
      else "bad-op"
    | _ => "bad-op"
  | ["cls", l] =>
    match natOf l with
    | some n => hexOrDash (lenPrefix n)
    | none => "bad-op"
  | ["rf", k, src] =>
    match natOf k, parseIO src with
    | some k, some cs =>
      let r := readFullIO cs k
      let e := if r.1.length = k then "nil" else showErr (shortErr r.1)
      s!"got={hexOrDash r.1} {e} rest={showIO r.2}"
    | _, _ => "bad-op"
  | _ => "bad-op"

end XMT.Drv.C10
