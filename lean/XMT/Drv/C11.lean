import XMT.Drv.Util
import XMT.Chunk
import XMT.ChunkRoom
import XMT.ChunkExact
import XMT.ChunkPanic
namespace XMT.Drv.C11
open XMT XMT.Drv XMT.Chunk

/-- capacity function of the running Go toolchain, from the probed size-class table -/
def cfGo (n : Nat) : Nat :=
  match Facts.sizeClasses.find? (· ≥ n) with
  | some c => c
  | none => (n + Facts.allocPage - 1) / Facts.allocPage * Facts.allocPage

def showErr : Option Chunk.Err → String
  | none => "nil"
  | some .limit => "limit" | some .tooLarge => "toolarge" | some .invalidIndex => "badindex"
  | some .invalidType => "badtype" | some .eof => "eof" | some .unexpectedEOF => "ueof"
  | some .shortWrite => "shortwrite" | some .whence => "whence"

def hashBytes (b : Bytes) : Nat := b.foldl (fun h x => (h * 31 + x.toNat + 1) % 4294967296) 7

def summary (c : Chunk) : String :=
  s!";s={c.size},m={c.remaining},sp={c.space},c={c.cap},h={hashBytes c.unread},e={if c.isEmpty then 1 else 0},a={if c.available 3 then 1 else 0}"

def beN (k n : Nat) : Bytes :=
  match k with
  | 1 => [byteOf n] | 2 => be16 n | 4 => be32 n | _ => be64 n

def ofBe (b : Bytes) : Nat := b.foldl (fun a x => a * 256 + x.toNat) 0

def step (c : Chunk) (tok : String) : Option (Chunk × String) :=
  match splitOn1 tok ':' with
  | ["w", h] => do
    let b ← ofHex h
    let (c', n, e) := c.write cfGo b
    pure (c', s!"w={n},{showErr e}")
  | ["r", k] => do
    let k ← natOf k
    let (c', got, e) := c.read k
    pure (c', s!"r={hexOrDash got},{showErr e}")
  | ["u8", n] => do let n ← natOf n; let (c', e) := c.writeFixed cfGo (beN 1 n); pure (c', s!"e={showErr e}")
  | ["u16", n] => do let n ← natOf n; let (c', e) := c.writeFixed cfGo (beN 2 n); pure (c', s!"e={showErr e}")
  | ["u32", n] => do let n ← natOf n; let (c', e) := c.writeFixed cfGo (beN 4 n); pure (c', s!"e={showErr e}")
  | ["u64", n] => do let n ← natOf n; let (c', e) := c.writeFixed cfGo (beN 8 n); pure (c', s!"e={showErr e}")
  | ["by", h] => do
    let b ← ofHex h
    let (c', e) := c.writeBytes cfGo b
    pure (c', s!"e={showErr e}")
  | ["p8", p, n] => do let p ← intOf p; let n ← natOf n; let (c', e) := c.writePos p (beN 1 n); pure (c', s!"e={showErr e}")
  | ["p16", p, n] => do let p ← intOf p; let n ← natOf n; let (c', e) := c.writePos p (beN 2 n); pure (c', s!"e={showErr e}")
  | ["p32", p, n] => do let p ← intOf p; let n ← natOf n; let (c', e) := c.writePos p (beN 4 n); pure (c', s!"e={showErr e}")
  | ["p64", p, n] => do let p ← intOf p; let n ← natOf n; let (c', e) := c.writePos p (beN 8 n); pure (c', s!"e={showErr e}")
  | ["ru8"] => let (c', r) := c.readFixed 1
    pure (c', match r with | .ok b => s!"v={ofBe b},nil" | .error e => s!"v=0,{showErr (some e)}")
  | ["ru16"] => let (c', r) := c.readFixed 2
    pure (c', match r with | .ok b => s!"v={ofBe b},nil" | .error e => s!"v=0,{showErr (some e)}")
  | ["ru32"] => let (c', r) := c.readFixed 4
    pure (c', match r with | .ok b => s!"v={ofBe b},nil" | .error e => s!"v=0,{showErr (some e)}")
  | ["ru64"] => let (c', r) := c.readFixed 8
    pure (c', match r with | .ok b => s!"v={ofBe b},nil" | .error e => s!"v=0,{showErr (some e)}")
  | ["rby"] => let (c', r) := c.readBytes
    pure (c', match r with | .ok b => s!"v={hexOrDash b},nil" | .error e => s!"v=-,{showErr (some e)}")
  | ["sk", o, w] => do
    let o ← intOf o; let w ← natOf w
    let (c', r, e) := c.seek o w
    pure (c', s!"sk={r},{showErr e}")
  | ["tr", n] => do let n ← intOf n; let (c', e) := c.truncate n; pure (c', s!"e={showErr e}")
  | ["gr", n] => do let n ← intOf n; let (c', e) := c.growOp cfGo n; pure (c', s!"e={showErr e}")
  | ["rs"] => pure (c.reset, "e=nil")
  | ["cl"] => pure (c.clear, "e=nil")
  | ["lim", n] => do let n ← intOf n; pure ({ c with limit := n }, "e=nil")
  | ["rf", chunks] => do
    let cs ← parseChunks chunks
    let (c', t, rest) := c.readFrom cfGo cs
    pure (c', s!"rf={t},rest={rest.flatten.length}")
  | ["wt"] => let (c', out) := c.writeTo; pure (c', s!"wt={hexOrDash out}")
  | ["wl", k] => do
    let k ← natOf k
    let (c', out, e) := c.writeToLim k
    pure (c', s!"wl={out.length},{hexOrDash out}{if e then ",err" else ""}")
  | _ => none

def runSeq (c : Chunk) : List String → Option (List String)
  | [] => some []
  | t :: ts => do
    let (c', out) ← step c t
    let rest ← runSeq c' ts
    pure ((out ++ summary c') :: rest)

/-! ### extension round s3: op language `seqx` (exact Seek / positional writes through the
panic-outcome model, `room` / `refused` printed with every Write, typed wrappers, String, MarshalStream),
compared at full state granularity incl. cursor and a hash of ALL retained bytes -/

def summaryX (c : Chunk) : String := summary c ++ s!",r={c.rpos},vh={hashBytes c.view}"

def showPos (r : PRes (Chunk × Option Chunk.Err)) (c : Chunk) : Chunk × String :=
  match r with
  | .ok (c', e) => (c', s!"e={showErr e}")
  | .panic _ => (c, "panic")

def stepX (c : Chunk) (tok : String) : Option (Chunk × String) :=
  match splitOn1 tok ':' with
  | ["w", h] => do
    let b ← ofHex h
    let (c', n, e) := c.write cfGo b
    let rm : Int := if c.limit > 0 then (Chunk.room c b.length : Int) else -1
    let rf : Nat := if decide (Chunk.refused c b.length) then 1 else 0
    pure (c', s!"w={n},{showErr e},room={rm},ref={rf}")
  | ["pb", p, v] => do
    let p ← intOf p; let v ← natOf v
    pure (showPos (Chunk.writePosP true c p [if v = 1 then 1 else 0]) c)
  | ["p8", p, n] => do let p ← intOf p; let n ← natOf n; pure (showPos (Chunk.writePosP true c p (beN 1 n)) c)
  | ["p16", p, n] => do let p ← intOf p; let n ← natOf n; pure (showPos (Chunk.writePosP true c p (beN 2 n)) c)
  | ["p32", p, n] => do let p ← intOf p; let n ← natOf n; pure (showPos (Chunk.writePosP true c p (beN 4 n)) c)
  | ["p64", p, n] => do let p ← intOf p; let n ← natOf n; pure (showPos (Chunk.writePosP true c p (beN 8 n)) c)
  | ["wx", k, v, _] => do
    let k ← natOf k; let v ← natOf v
    if k = 1 ∨ k = 2 ∨ k = 4 ∨ k = 8 then
      let (c', e) := c.writeFixed cfGo (beN k v)
      pure (c', s!"e={showErr e}")
    else none
  | ["rx", k, _] => do
    let k ← natOf k
    if k = 1 ∨ k = 2 ∨ k = 4 ∨ k = 8 then
      let (c', r) := c.readFixed k
      pure (c', match r with | .ok b => s!"v={ofBe b},nil" | .error e => s!"v=0,{showErr (some e)}")
    else none
  | ["ws", h] => do
    let b ← ofHex h
    let (c', e) := c.writeBytes cfGo b
    pure (c', s!"e={showErr e}")
  | ["str"] => pure (c, if c.isEmpty then "str=nil" else s!"str={hexOrDash c.unread}")
  | ["ms"] =>
    let (d, e) := (Chunk.empty 0).writeBytes cfGo c.unread
    pure (c, s!"ms={hexOrDash d.unread},{showErr e}")
  | _ => step c tok

def runSeqX (c : Chunk) : List String → Option (List String)
  | [] => some []
  | t :: ts => do
    let (c', out) ← stepX c t
    if out == "panic" then pure ["panic"] else
    let rest ← runSeqX c' ts
    pure ((out ++ summaryX c') :: rest)

def handle (args : List String) : String :=
  match args with
  | "seq" :: lim :: toks =>
    match intOf lim with
    | none => "bad-op"
    | some l =>
      match runSeq (Chunk.empty l) toks with
      | some outs => if outs.isEmpty then "." else " ".intercalate outs
      | none => "bad-op"
  | "seqx" :: lim :: toks =>
    match intOf lim with
    | none => "bad-op"
    | some l =>
      match runSeqX (Chunk.empty l) toks with
      | some outs => if outs.isEmpty then "." else " ".intercalate outs
      | none => "bad-op"
  | _ => "bad-op"

end XMT.Drv.C11
