/- Line-protocol driver for C12 (I/O side only; nothing here is used by a theorem). -/
import XMT.Drv.Util
import XMT.Info
namespace XMT.Drv.C12
open XMT XMT.Codec XMT.Info XMT.Drv

def u8Of (s : String) : Option UInt8 := do
  let n ← natOf s
  if n < 256 then some (UInt8.ofNat n) else none

/-- drop the one-character tag in front of a token -/
def untag (c : Char) (s : String) : Option String :=
  match s.toList with
  | x :: r => if x = c then some (String.ofList r) else none
  | [] => none

def parseWork (s : String) : Option (Option WorkHours) :=
  if s = "-" then some none else
  match splitOn1 s '.' with
  | [a, b, c, d, e] => do
    let a ← u8Of a; let b ← u8Of b; let c ← u8Of c; let d ← u8Of d; let e ← u8Of e
    some (some ⟨a, b, c, d, e⟩)
  | _ => none

def parseProxy (s : String) : Option (Option Proxy) :=
  if s = "-" then some none else
  match splitOn1 s '.' with
  | [a, n, b, p] => do
    let act ← if a = "1" then some true else if a = "0" then some false else none
    let n ← ofHex n
    let b ← ofHex b
    let p ← if p = "x" then some none else (ofHex p).map some
    some (some ⟨n, b, p, act⟩)
  | _ => none

def parseKeys (s : String) : Option Keys :=
  match splitOn1 s '.' with
  | [a, b, c] => do
    let a ← ofHex a; let b ← ofHex b; let c ← ofHex c
    some ⟨a, b, c⟩
  | _ => none

def parseAddr (s : String) : Option Address :=
  match splitOn1 s '_' with
  | [a, b] => do let a ← natOf a; let b ← natOf b; some ⟨a, b⟩
  | _ => none

def parseIface (s : String) : Option Iface :=
  match splitOn1 s ',' with
  | [n, m, a] => do
    let n ← ofHex n
    let m ← natOf m
    let a ← if a = "" then some [] else (splitOn1 a '/').mapM parseAddr
    some ⟨n, m, a⟩
  | _ => none

def parseNet (s : String) : Option (List Iface) :=
  if s = "-" then some [] else (splitOn1 s ';').mapM parseIface

def parseMachine (s net : String) : Option Machine :=
  match splitOn1 s '.' with
  | [id, sys, pid, ppid, u, v, h, el, caps] => do
    let id ← ofHex id
    let sys ← u8Of sys
    let pid ← natOf pid
    let ppid ← natOf ppid
    let u ← ofHex u; let v ← ofHex v; let h ← ofHex h
    let el ← u8Of el
    let caps ← natOf caps
    let n ← parseNet net
    some ⟨id, sys, pid, ppid, u, v, h, el, caps, n⟩
  | _ => none

def parseKill (s : String) : Option Time :=
  match splitOn1 s '.' with
  | [a, b] => do let a ← intOf a; let b ← natOf b; some ⟨a, b⟩
  | _ => none

/-- a Session is ten tokens: c j s k w p i K m n -/
def parseSession (toks : List String) : Option Session :=
  match toks with
  | [c, j, s, k, w, p, i, ks, m, n] => do
    let c ← untag 'c' c
    let client ← if c = "1" then some true else if c = "0" then some false else none
    let j ← (untag 'j' j).bind u8Of
    let s ← (untag 's' s).bind intOf
    let k ← (untag 'k' k).bind parseKill
    let w ← (untag 'w' w).bind parseWork
    let p ← (untag 'p' p).bind parseProxy
    let i ← (untag 'i' i).bind ofHex
    let ks ← (untag 'K' ks).bind parseKeys
    let n ← untag 'n' n
    let m ← (untag 'm' m).bind (parseMachine · n)
    some ⟨m, i, j, s, k, w, client, p, ks⟩
  | _ => none

def showWork : Option WorkHours → String
  | none => "-"
  | some w => s!"{w.days.toNat}.{w.startHour.toNat}.{w.startMin.toNat}.{w.endHour.toNat}.{w.endMin.toNat}"

def showProxy : Option Proxy → String
  | none => "-"
  | some p =>
    let pr := match p.profile with | none => "x" | some b => hexOrDash b
    s!"{if p.active then "1" else "0"}.{hexOrDash p.name}.{hexOrDash p.addr}.{pr}"

def showIface (d : Iface) : String :=
  s!"{hexOrDash d.name},{d.mac}," ++ "/".intercalate (d.addrs.map fun a => s!"{a.hi}_{a.low}")

def showNet (n : List Iface) : String :=
  if n.isEmpty then "-" else ";".intercalate (n.map showIface)

def showSession (s : Session) : String :=
  let m := s.device
  " ".intercalate [
    s!"c{if s.client then "1" else "0"}", s!"j{s.jitter.toNat}", s!"s{s.sleep}",
    s!"k{s.kill.sec}.{s.kill.nsec}", "w" ++ showWork s.work, "p" ++ showProxy s.proxy,
    "i" ++ hexOrDash s.id,
    s!"K{hexOrDash s.keys.pub}.{hexOrDash s.keys.priv}.{hexOrDash s.keys.share}",
    s!"m{hexOrDash m.id}.{m.system.toNat}.{m.pid}.{m.ppid}.{hexOrDash m.user}.{hexOrDash m.version}.{hexOrDash m.hostname}.{m.elevated.toNat}.{m.caps}",
    "n" ++ showNet m.network]

def showProxies (l : List ProxyData) : String :=
  if l.isEmpty then "P-"
  else "P" ++ ";".intercalate (l.map fun p => s!"{hexOrDash p.n}.{hexOrDash p.b}.{hexOrDash p.p}")

def showRErr : RErr → String
  | .codec .eof => "eof" | .codec .unexpectedEOF => "ueof" | .codec .invalidType => "badtype"
  | .codec .tooLarge => "toolarge" | .noProgress => "noprogress" | .parseProfile => "parse"

def showRead {S : Type} (rem : S → Nat) (r : Except RErr ((Session × List ProxyData) × S)) : String :=
  match r with
  | .ok ((s, p), st) => s!"ok rem={rem st} {showSession s} {showProxies p}"
  | .error e => s!"err {showRErr e}"

def runRead (rd : String) (old : Bool) (t : Nat) (rcv : Session) (cs : List Bytes) : String :=
  if rd = "chunk" then
    showRead List.length
      ((if old then readInfoOld chunkX t rcv else readInfo chunkX t rcv).run cs.flatten)
  else if rd = "stream" then
    showRead (fun st => st.flatten.length)
      ((if old then readInfoOld streamX t rcv else readInfo streamX t rcv).run cs)
  else "bad-op"

def showOrder (r : Except OErr (Session × Session)) (payload : Bytes) : String :=
  match r with
  | .ok (srv, cli) => s!"ok {hexOrDash payload} {showSession srv} {showSession cli}"
  | .error (.client e) => s!"err client {showRErr e}"
  | .error (.server e) => s!"err server {showRErr e}"

def handle (args : List String) : String :=
  match args with
  | "w" :: t :: sess =>
    match natOf t, parseSession sess with
    | some t, some s =>
      match writeItems t s with
      | .ok its => s!"ok {hexOrDash (encItems its)} {showChunks (callsOf its)}"
      | .error .proxyMarshal => "err proxymarshal"
    | _, _ => "bad-op"
  | "r" :: rd :: t :: rest =>
    match natOf t, parseSession (rest.take 10), rest.drop 10 with
    | some t, some rcv, [chunks] =>
      match parseChunks chunks with
      | some cs => runRead rd false t rcv cs
      | none => "bad-op"
    | _, _, _ => "bad-op"
  | "rold" :: rd :: t :: rest =>
    match natOf t, parseSession (rest.take 10), rest.drop 10 with
    | some t, some rcv, [chunks] =>
      match parseChunks chunks with
      | some cs => runRead rd true t rcv cs
      | none => "bad-op"
    | _, _, _ => "bad-op"
  | "rs" :: rd :: rest =>
    match parseSession (rest.take 10), rest.drop 10 with
    | some rcv, [chunks] =>
      match parseChunks chunks with
      | some cs =>
        if rd = "chunk" then
          match (readResync chunkX rcv).run cs.flatten with
          | .ok (s, st) => s!"ok rem={st.length} {showSession s}"
          | .error e => s!"err {showRErr e}"
        else "bad-op"
      | none => "bad-op"
    | _, _ => "bad-op"
  | "od" :: rest =>
    match parseSession (rest.take 10), parseSession ((rest.drop 10).take 10), rest.drop 20 with
    | some srv, some cli, [t, j] =>
      match intOf t, intOf j with
      | some t, some j =>
        let (srv1, pl) := setDuration srv t j
        showOrder (order srv1 pl cli) pl
      | _, _ => "bad-op"
    | _, _, _ => "bad-op"
  | "ok" :: rest =>
    match parseSession (rest.take 10), parseSession ((rest.drop 10).take 10), rest.drop 20 with
    | some srv, some cli, [k] =>
      match parseKill k with
      | some k =>
        let (srv1, pl) := setKillDate srv k
        showOrder (order srv1 pl cli) pl
      | none => "bad-op"
    | _, _, _ => "bad-op"
  | "op" :: rest =>
    match parseSession (rest.take 10), parseSession ((rest.drop 10).take 10), rest.drop 20 with
    | some srv, some cli, [b] =>
      match ofHex b with
      | some b => showOrder (orderProfile (fun _ => true) srv b cli) (setProfilePayload b)
      | none => "bad-op"
    | _, _, _ => "bad-op"
  | "ow" :: rest =>
    match parseSession (rest.take 10), parseSession ((rest.drop 10).take 10), rest.drop 20 with
    | some srv, some cli, [w] =>
      match parseWork w with
      | some w =>
        match setWorkHours srv w with
        | none => "verify-error"
        | some (srv1, pl) => showOrder (order srv1 pl cli) pl
      | none => "bad-op"
    | _, _, _ => "bad-op"
  | _ => "bad-op"

end XMT.Drv.C12
