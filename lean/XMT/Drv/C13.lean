import XMT.Drv.Util
import XMT.StateConc
import XMT.StateAcc
import XMT.StateAccLin
import XMT.StateRT
namespace XMT.Drv.C13
open XMT XMT.State XMT.StateConc XMT.StateAcc XMT.Drv

def hexNat? (s : String) : Option Nat :=
  if s.isEmpty then none else
  s.toList.foldlM (fun acc c => do let d ← hexVal c; pure (acc * 16 + d)) 0

def hexDigits : Nat → Nat → List Char
  | 0, _ => []
  | fuel + 1, n => if n < 16 then [hexDigit n] else hexDigits fuel (n / 16) ++ [hexDigit (n % 16)]

def hx (n : Nat) : String := String.ofList (hexDigits 64 n)

def b01 (b : Bool) : String := if b then "1" else "0"

def pr (p : Nat × Bool) : String := s!"{hx p.1}:{b01 p.2}"

def showAll (full : Bool) (w m1 m2 l1 l2 : Nat) : String :=
  let p := String.join ((predicates w).map b01)
  let sets := String.join (allFlags.map fun f => hx (set w f) ++ ",")
  let unsets := String.join (allFlags.map fun f => hx (unset w f) ++ ",")
  let base := s!"p={p} set={sets} unset={unsets} m={hx (set w m1)},{hx (unset w m1)},{hx (set w m2)},{hx (unset w m2)} last={hx (last w)} sl={hx (setLast w l1)},{hx (setLast w l2)} sc={pr (setChannel w true)},{pr (setChannel w false)} stop={pr (channelCanStop w)} tag={pr (tag w)}"
  if full then
    base ++ s!" tu={pr (tryUnset w m2)},{pr (tryUnset w stChannelUpdated)} ts={pr (trySet w m2)},{pr (trySet w stClosing)}"
  else base

def parseOp (s : String) : Option Op :=
  match splitOn1 s ':' with
  | [k, v] => do
    let n ← hexNat? v
    match k with
    | "s" => some (.set n) | "u" => some (.unset n) | "l" => some (.setLast n)
    | "tu" => some (.tryUnset n) | "ts" => some (.trySet n) | _ => none
  | _ => none

def parseProgs (s : String) : Option (List (List Op)) :=
  (splitOn1 s '|').mapM fun p => if p = "-" then some [] else (splitOn1 p ',').mapM parseOp

def parseSched (s : String) : Option (List Nat) :=
  if s = "-" then some [] else
  s.toList.mapM fun c => if '0' ≤ c ∧ c ≤ '9' then some (c.toNat - 48) else none

def showRets (ts : List Thread) : String :=
  "|".intercalate (ts.map fun th => if th.rets.isEmpty then "-" else String.join (th.rets.map b01))

def parseCall (s : String) : Option Call :=
  match s with
  | "last" => some .last | "ready" => some .ready | "canrecv" => some .canRecv | "start" => some .canStart
  | "stop" => some .canStop | "tag" => some .tag | "sc:1" => some (.setChannel true) | "sc:0" => some (.setChannel false)
  | _ =>
    match splitOn1 s ':' with
    | ["f", v] => (hexNat? v).map .simple
    | ["d", v] => (hexNat? v).map .dom
    | _ => (parseOp s).map .prim

def parseCalls (s : String) : Option (List (List Call)) :=
  (splitOn1 s '|').mapM fun p => if p = "-" then some [] else (splitOn1 p ',').mapM parseCall

def showRetsA (ts : List AThread) : String :=
  "|".intercalate (ts.map fun th => if th.rets.isEmpty then "-" else ",".intercalate (th.rets.map hx))

def handle (args : List String) : String :=
  match args with
  | [k, w, m1, m2, l1, l2] =>
    if k = "all" ∨ k = "allb" then
      match hexNat? w, hexNat? m1, hexNat? m2, hexNat? l1, hexNat? l2 with
      | some w, some m1, some m2, some l1, some l2 =>
        if w < 2 ^ 32 ∧ m1 < 2 ^ 32 ∧ m2 < 2 ^ 16 ∧ l1 < 2 ^ 16 ∧ l2 < 2 ^ 16 then showAll (k = "all") w m1 m2 l1 l2
        else "bad-op"
      | _, _, _, _, _ => "bad-op"
    else "bad-op"
  | ["conc", w, progs, sched] =>
    match hexNat? w, parseProgs progs, parseSched sched with
    | some w, some ps, some sc =>
      let s := run (Sys.init w ps) sc
      if s.completed then s!"mem={hx s.mem} rets={showRets s.thr} casfail={s.casFail}"
      else s!"incomplete mem={hx s.mem}"
    | _, _, _ => "bad-op"
  | ["acc", w, progs, sched] =>
    match hexNat? w, parseCalls progs, parseSched sched with
    | some w, some ps, some sc =>
      let s := runA (ASys.init w ps) sc
      if s.completed then s!"mem={hx s.mem} rets={showRetsA s.thr} casfail={s.casFail}"
      else s!"incomplete mem={hx s.mem}"
    | _, _, _ => "bad-op"
  | ["concls", w, progs, sched] =>
    match hexNat? w, parseProgs progs, parseSched sched with
    | some w, some ps, some sc =>
      let s := runLS (Sys.init w ps) sc
      if s.completed then s!"mem={hx s.mem} rets={showRets s.thr} casfail=0"
      else s!"incomplete mem={hx s.mem}"
    | _, _, _ => "bad-op"
  -- round s3: verdict of call-level linearizability of an interleaved run over ALL methods
  | ["lin", w, progs, sched] =>
    match hexNat? w, parseCalls progs, parseSched sched with
    | some w, some ps, some sc =>
      let outs := (XMT.StateAccLin.seqOutcomes w ps).eraseDups
      s!"lin={b01 (XMT.StateAccLin.linearizableA w ps sc)} outcomes={outs.length}"
    | _, _, _ => "bad-op"
  -- round s3: the mutator machine with ghost clocks: (thread : schedule position of the call's last access) in order of effect
  | ["rt", w, progs, sched] =>
    match hexNat? w, parseProgs progs, parseSched sched with
    | some w, some ps, some sc =>
      let ts := XMT.StateRT.runT (XMT.StateRT.TSys.init w ps) sc
      let lg := ",".intercalate (ts.thist.map fun te => s!"{te.ev.tid}:{te.fin}")
      if ts.sys.completed then s!"mem={hx ts.sys.mem} fin={if lg.isEmpty then "-" else lg}"
      else s!"incomplete mem={hx ts.sys.mem}"
    | _, _, _ => "bad-op"
  | _ => "bad-op"

end XMT.Drv.C13
