import XMT.Drv.Util
import XMT.Job
import XMT.JobSub
namespace XMT.Drv.C14
open XMT XMT.Job XMT.Drv

def boolOf (s : String) : Option Bool :=
  if s = "1" then some true else if s = "0" then some false else none

def natsOf (s : String) : Option (List Nat) :=
  if s = "-" ∨ s = "" then some [] else (splitOn1 s '.').mapM natOf

def parseKind (tok : String) : Option Kind :=
  match splitOn1 tok ':' with
  | ["T", id, wf, draws] => do
    let i ← natOf id; let w ← boolOf wf; let d ← natsOf draws
    if i < 65536 then some (.task i d w) else none
  | ["R", id, ef, tag] => do
    let i ← natOf id; let e ← boolOf ef; let g ← natOf tag
    if i < 65536 then some (.result i e g) else none
  | ["C", k] => do some (.cancel (← natOf k))
  | ["W", k] => do some (.wait (← natOf k))
  | ["D", k] => do some (.isDone (← natOf k))
  | ["A", id] => do
    let i ← natOf id
    if i < 65536 then some (.accept i) else none
  | ["F", id, mx, cur] => do
    let i ← natOf id; let m ← natOf mx; let c ← natOf cur
    if i < 65536 ∧ m < 65536 ∧ c < 65536 then some (.frag i m c) else none
  | _ => none

/-- schedule entry: `t` (one action) or `t@LABEL` (run t until it is parked at LABEL / finished / stuck) -/
inductive Entry | one (t : Nat) | till (t : Nat) (lbl : String)

def parseEntry (tok : String) : Option Entry :=
  match splitOn1 tok '@' with
  | [t] => do some (.one (← natOf t))
  | [t, l] => do some (.till (← natOf t) l)
  | _ => none

def parseScript (s : String) : Option (List Entry) :=
  if s = "-" ∨ s = "" then some [] else (splitOn1 s ',').mapM parseEntry

def labelAt (prog : List Kind) (s : St) (t : Nat) : String :=
  match prog[t]? with
  | none => "end"
  | some k => labelF k (s.loc t).pc

def runTill (step : St → Nat → St) (prog : List Kind) (t : Nat) (lbl : String) : Nat → St → St
  | 0, s => s
  | fuel + 1, s =>
    if labelAt prog s t = lbl ∨ (s.loc t).pc = fin then s else
    let s' := step s t
    if (s'.loc t).pc = (s.loc t).pc then s' else runTill step prog t lbl fuel s'

def runEntry (step : St → Nat → St) (prog : List Kind) (s : St) : Entry → St
  | .one t => step s t
  | .till t lbl => runTill step prog t lbl 16 s

/-- after the schedule: round-robin until no thread moves (every thread has at most 8 actions) -/
def drain (step : St → Nat → St) (n : Nat) : Nat → St → St
  | 0, s => s
  | fuel + 1, s =>
    let s' := (List.range n).foldl step s
    if (List.range n).all (fun t => (s'.loc t).pc == (s.loc t).pc) then s' else drain step n fuel s'

def showOut (prog : List Kind) (s : St) (t : Nat) : String :=
  let l := s.loc t
  if l.pc ≠ fin then s!"blk@{labelAt prog s t}" else
  match l.out with
  | .none => "-"
  | .job r => s!"job{r}"
  | .errNoId => "enoid"
  | .errDup => "edup"
  | .errWrite => "ewrite"
  | .handled => "h1"
  | .ignored => "h0"
  | .ret => "ret"
  | .bool b => if b then "d1" else "d0"
  | .panicClosed => "panic:closed"
  | .panicNil => "panic:nil"

def b01 (b : Bool) : String := if b then "1" else "0"

def showJob (j : JobSt) : String :=
  let res := match j.result with | none => "-" | some g => toString g
  s!"{j.id}/{j.status}/{b01 j.closed}/{b01 j.doneNil}/{res}/{b01 j.err}/{j.frags}/{j.current}"

def insertSorted (x : Nat) : List Nat → List Nat
  | [] => [x]
  | y :: ys => if x < y then x :: y :: ys else if x = y then y :: ys else y :: insertSorted x ys

def showState (prog : List Kind) (s : St) : String :=
  let thr := ",".intercalate ((List.range prog.length).map (showOut prog s))
  let jobs := ";".intercalate ((List.range s.nJobs).map (fun r => showJob (s.jobs r)))
  let ids := ((List.range s.nJobs).map (fun r => (s.jobs r).id)).foldl (fun acc x => insertSorted x acc) []
  let tab := ",".intercalate (ids.filterMap (fun i => (s.table i).map (fun r => s!"{i}>{r}")))
  let pub := ".".intercalate (s.pub.map toString)
  let d (x : String) := if x = "" then "-" else x
  s!"thr={d thr} jobs={d jobs} tab={d tab} n={s.count} pub={d pub} lock={b01 s.lockHeld}"

def stepOf (variant : String) (prog : List Kind) : Option (St → Nat → St) :=
  if variant = "F" then some (stepF prog)
  else if variant = "O0" then some (stepO false prog)
  else if variant = "O1" then some (stepO true prog)
  else none

/-! ### sub-step model (XMT/JobSub.lean), op `runS` -/

def parseKindS (tok : String) : Option JobSub.KindS :=
  match splitOn1 tok ':' with
  | ["w", k] => do some (.waitRd (← natOf k))
  | ["d", k] => do some (.doneRd (← natOf k))
  | ["e", k] => do some (.isError (← natOf k))
  | _ =>
    match parseKind tok with
    | some (.task i d w) => some (.task i d w)
    | some (.result i e g) => some (.result i e g)
    | some (.cancel k) => some (.cancel k)
    | some (.accept i) => some (.accept i)
    | some (.frag i m c) => some (.frag i m c)
    | _ => none

def actsOf (variant : String) : Option (List JobSub.CAct) :=
  if variant = "F" then some JobSub.cancelActs
  else if variant = "O" then some JobSub.cancelActsO
  else none

def labelAtS (acts : List JobSub.CAct) (prog : List JobSub.KindS) (s : JobSub.StS) (t : Nat) : String :=
  match prog[t]? with
  | none => "end"
  | some k => JobSub.labelS acts k (s.loc t).pc

def runTillS (acts : List JobSub.CAct) (step : JobSub.StS → Nat → JobSub.StS) (prog : List JobSub.KindS) (t : Nat)
    (lbl : String) : Nat → JobSub.StS → JobSub.StS
  | 0, s => s
  | fuel + 1, s =>
    if labelAtS acts prog s t = lbl ∨ (s.loc t).pc = fin then s else
    let s' := step s t
    if (s'.loc t).pc = (s.loc t).pc then s' else runTillS acts step prog t lbl fuel s'

def runEntryS (acts : List JobSub.CAct) (step : JobSub.StS → Nat → JobSub.StS) (prog : List JobSub.KindS)
    (s : JobSub.StS) : Entry → JobSub.StS
  | .one t => step s t
  | .till t lbl => runTillS acts step prog t lbl 16 s

def drainS (step : JobSub.StS → Nat → JobSub.StS) (n : Nat) : Nat → JobSub.StS → JobSub.StS
  | 0, s => s
  | fuel + 1, s =>
    let s' := (List.range n).foldl step s
    if (List.range n).all (fun t => (s'.loc t).pc == (s.loc t).pc) then s' else drainS step n fuel s'

def showOutS (acts : List JobSub.CAct) (prog : List JobSub.KindS) (s : JobSub.StS) (t : Nat) : String :=
  let l := s.loc t
  if l.pc ≠ fin then s!"blk@{labelAtS acts prog s t}" else
  let base := match l.out with
    | .none => "-"
    | .job r => s!"job{r}"
    | .errNoId => "enoid"
    | .errDup => "edup"
    | .errWrite => "ewrite"
    | .handled => "h1"
    | .ignored => "h0"
    | .ret => "ret"
    | .bool b => if b then "d1" else "d0"
    | .panicClosed => "panic:closed"
    | .panicNil => "panic:nil"
  let isRd := match prog[t]? with
    | some (.waitRd _) => true
    | some (.doneRd _) => true
    | _ => false
  if isRd then
    let a := match l.oSt with | none => "_" | some v => toString v
    let b := match l.oRes with | none => "_" | some none => "-" | some (some g) => toString g
    let c := match l.oErr with | none => "_" | some v => b01 v
    s!"{base}[{a}/{b}/{c}]"
  else base

def showStateS (acts : List JobSub.CAct) (prog : List JobSub.KindS) (s : JobSub.StS) : String :=
  let thr := ",".intercalate ((List.range prog.length).map (showOutS acts prog s))
  let jobs := ";".intercalate ((List.range s.nJobs).map (fun r => showJob (s.jobs r)))
  let ids := ((List.range s.nJobs).map (fun r => (s.jobs r).id)).foldl (fun acc x => insertSorted x acc) []
  let tab := ",".intercalate (ids.filterMap (fun i => (s.table i).map (fun r => s!"{i}>{r}")))
  let pub := ".".intercalate (s.pub.map toString)
  let d (x : String) := if x = "" then "-" else x
  s!"thr={d thr} jobs={d jobs} tab={d tab} n={s.count} pub={d pub} lock={b01 s.lock.isSome}"

def handle (args : List String) : String :=
  match args with
  | ["run", variant, threads, script] =>
    match (splitOn1 threads ',').mapM parseKind, parseScript script, (splitOn1 threads ',').mapM parseKind >>= stepOf variant with
    | some prog, some sc, some step =>
      let s := sc.foldl (runEntry step prog) ({} : St)
      let s := drain step prog.length (10 * prog.length + 10) s
      showState prog s
    | _, _, _ => "bad-op"
  | ["newid", tab, draws] =>
    match natsOf tab, natsOf draws with
    | some ts, some ds =>
      let table : Nat → Option Nat := fun i => if ts.contains i then some 0 else none
      toString (newJobID table ds)
    | _, _ => "bad-op"
  | ["resync", tab, id] =>
    match natsOf tab, natOf id with
    | some ts, some i =>
      let table : Nat → Option Nat := fun k => if ts.contains k then some 0 else none
      if resyncApplied table i then "applied" else "ignored"
    | _, _ => "bad-op"
  | ["runS", variant, threads, script] =>
    match (splitOn1 threads ',').mapM parseKindS, parseScript script, actsOf variant with
    | some prog, some sc, some acts =>
      let step := JobSub.stepG acts prog
      let s := sc.foldl (runEntryS acts step prog) ({} : JobSub.StS)
      let s := drainS step prog.length (12 * prog.length + 12) s
      showStateS acts prog s
    | _, _, _ => "bad-op"
  | _ => "bad-op"

end XMT.Drv.C14
