import XMT.Drv.Util
import XMT.Route
import XMT.RouteProxy
import XMT.RouteChan
import XMT.RouteProxyRegister
namespace XMT.Drv.C15
open XMT XMT.Route XMT.Drv

/-! Line protocol of C15 (see go/cmd/xmth/c15.go for the other side).

    hash <id> <id>                        → "<hash> <hash>"
    srv <id,id,…> <step> <step> …         → "<answer> | <answer> | … | tbl=…"
    prx <id,id,…> <step> <step> …         → same for a proxy (XMT/RouteProxy.lean)
-/

def idxOf (ids : List ID) (i : ID) : String :=
  match ids.findIdx? (· == i) with
  | some k => toString k
  | none => "?"

def listOr (l : List String) : String := if l.isEmpty then "-" else ",".intercalate l

def leafStr (ids : List ID) (l : List Leaf) : String :=
  listOr (l.map fun x => s!"{idxOf ids x.dev}.{x.pid}.{x.job}")

def errStr : Err → String
  | .closed => "closed" | .short => "short" | .malformed => "malformed" | .info => "unmarshal"
  | .badtag => "badtag" | .count => "count" | .unmarshal => "unmarshal" | .mismatch => "mismatch"
  | .unmodelled => "unmodelled"

def sortStr (l : List String) : List String := (l.toArray.qsort (· < ·)).toList.eraseDups
def sortNat (l : List Nat) : List Nat := (l.toArray.qsort (· < ·)).toList.eraseDups

/-- `dev:pid:job:flags:pay` (sep given) -/
def parseSub (ids : List ID) (sep : Char) (s : String) : Option Sub :=
  match splitOn1 s sep with
  | [d, p, j, f, pay] => do
    let d ← natOf d; let dev ← ids[d]?
    let pid ← natOf p; let job ← natOf j; let flags ← natOf f
    if pay = "e" ∨ pay = "d" ∨ pay = "h" ∨ pay = "x" then
      some { dev := dev, pid := pid, job := job, flags := flags, empty := pay = "e", info := pay = "h" }
    else none
  | _ => none

def parsePkt (ids : List ID) (s : String) : Option Pkt :=
  match splitOn1 s ':' with
  | [d, p, j, f, pay, tags, subs] => do
    let hd ← parseSub ids ':' (":".intercalate [d, p, j, f, pay])
    let tags ← if tags = "-" then some [] else (splitOn1 tags '+').mapM natOf
    let subs ← if subs = "-" then some [] else (splitOn1 subs '/').mapM (parseSub ids ',')
    some { hd := { hd with empty := hd.empty && subs.isEmpty }, tags := tags, subs := subs }
  | _ => none

def evLine (ids : List ID) (before : Tbl) (ev : List Ev) : String :=
  let touched := sortStr (ev.filterMap fun e => match e with
    | .touch s _ => some (idxOf ids s) | .tagTouch s _ => some (idxOf ids s) | _ => none)
  let keyed := sortStr (ev.filterMap fun e => match e with
    | .key s _ => if before.any (fun x => x.2.id == s) then some (idxOf ids s) else none
    | _ => none)
  let recv := ev.filterMap fun e => match e with
    | .recv s d p j => if p ≥ mvRefresh then some s!"{idxOf ids s}>{idxOf ids d}.{p}.{j}" else none
    | _ => none
  let one := ev.filterMap fun e => match e with | .oneshot d => some (idxOf ids d) | _ => none
  let new := ev.filterMap fun e => match e with | .reg s _ => some (idxOf ids s) | _ => none
  s!"t={listOr touched} k={listOr keyed} r={listOr recv} o={listOr one} n={listOr new}"

def tblLine (ids : List ID) (t : Tbl) : String :=
  let ks := sortNat (t.map (·.1))
  "tbl=" ++ listOr (ks.filterMap fun k => (t.get k).map fun s => s!"{k}:{idxOf ids s.id}:{s.q.length}")

def srvStep (ids : List ID) (t : Tbl) (tok : String) : Option (Tbl × String) :=
  let rest := (tok.drop 1).toString
  match tok.front with
  | 'T' => do
    let n ← parsePkt ids rest
    let (t', ev, r) := talk idHash false t n
    let res := match r with
      | .error e => "err:" ++ errStr e
      | .ok o =>
        let h := match o.host with | some i => idxOf ids i | none => "-"
        s!"ok{if o.ok then 1 else 0}:h{h}:{leafStr ids o.next}:s{listOr ((sortNat o.subs).map toString)}"
    some (t', s!"T:{res} {evLine ids t ev}")
  | 'S' => do
    let o := rest.front == '1'
    let n ← parseSub ids ':' (rest.drop 1).toString
    let (t', ev, r) := talkSub idHash false t n o
    let res := match r with
      | .error e => "err:" ++ errStr e
      | .ok so =>
        let h := match so.host with | some i => idxOf ids i | none => "-"
        s!"ok:h{h}:q{so.key}:{leafStr ids so.reply}"
    some (t', s!"S:{res} {evLine ids t ev}")
  | 'L' => do
    let k ← natOf rest; let i ← ids[k]?
    some (t, match lookup idHash t i with | some s => "L:" ++ idxOf ids s.id | none => "L:-")
  | 'R' => do
    let k ← natOf rest; let i ← ids[k]?
    some (remove idHash t i, "R")
  | 'Q' =>
    match splitOn1 rest '.' with
    | [k, p, j] => do
      let k ← natOf k; let i ← ids[k]?; let p ← natOf p; let j ← natOf j
      some (enqueue idHash t i { dev := i, pid := p, job := j }, "Q")
    | _ => none
  | _ => none

def srvRun (ids : List ID) : Tbl → List String → List String → Option String
  | t, [], acc => some (" | ".intercalate (acc.reverse ++ [tblLine ids t]))
  | t, tok :: toks, acc => do
    let (t', s) ← srvStep ids t tok
    srvRun ids t' toks (s :: acc)

/-! proxy side -/

def pLeafStr (ids : List ID) (l : List Leaf) : String := leafStr ids l

def prxStep (ids : List ID) (parent : ID) (p : Proxy.PTbl) (tok : String) : Option (Proxy.PTbl × String) :=
  let rest := (tok.drop 1).toString
  match tok.front with
  | 'A' => do
    -- accept: a packet coming down from the server through receive() of the parent
    let n ← parseSub ids ':' rest
    let (p', ev, r) := Proxy.receiveDown idHash parent p n
    some (p', s!"A:{match r with | .ok () => "ok" | .error e => "err:" ++ errStr e} {Proxy.evLine (idxOf ids) ev}")
  | 'T' => do
    let n ← parsePkt ids rest
    let (p', ev, r) := Proxy.talk idHash false p n
    let res := match r with
      | .error e => "err:" ++ errStr e
      | .ok o =>
        let h := match o.host with | some i => idxOf ids i | none => "-"
        s!"ok{if o.ok then 1 else 0}:h{h}:{leafStr ids o.next}"
    some (Proxy.applyClose idHash p' ev, s!"T:{res} {Proxy.evLine (idxOf ids) ev}")
  | 'S' => do
    let o := rest.front == '1'
    let n ← parseSub ids ':' (rest.drop 1).toString
    let (p', ev, r) := Proxy.talkSub idHash false p n o
    let res := match r with
      | .error e => "err:" ++ errStr e
      | .ok so =>
        let h := match so.host with | some i => idxOf ids i | none => "-"
        s!"ok:h{h}:q{so.key}:{leafStr ids so.reply}"
    some (Proxy.applyClose idHash p' ev, s!"S:{res} {Proxy.evLine (idxOf ids) ev}")
  | _ => none

def prxRun (ids : List ID) (parent : ID) : Proxy.PTbl → List String → List String → Option String
  | p, [], acc =>
    let ks := sortNat (p.map (·.1))
    let tb := ks.filterMap fun k => (Proxy.PTbl.get p k).map fun c => s!"{k}:{idxOf ids c.id}:{leafStr ids c.q}"
    some (" | ".intercalate (acc.reverse ++ ["cl=" ++ (if tb.isEmpty then "-" else ";".intercalate tb)]))
  | p, tok :: toks, acc => do
    let (p', s) ← prxStep ids parent p tok
    prxRun ids parent p' toks (s :: acc)

def parseIds (s : String) : Option (List ID) := do
  let l ← (splitOn1 s ',').mapM ofHex
  if l.all (fun i => i.length == Facts.c15IDSize) then some l else none


/-! channel-mode tag handling (XMT/RouteChan.lean): `chan <id,id,…> <step> …`; ids[0] is the host of
the connection. Steps: `H<i>` registration of ids[i]; `C<tag>+<tag>…` one packet read from the channel
(`-` = no tags; a tag is `i<k>` = hash of ids[k] or `n<value>`); answers list the Sessions whose queue
is redirected to the connection afterwards. -/

def chanRedirected (ids : List ID) (t : RouteChan.CTbl) : String :=
  listOr (sortStr ((t.filter (fun e => e.2.chn == some 1)).map (fun e => idxOf ids e.2.id)))

def parseTag (ids : List ID) (s : String) : Option Nat :=
  match s.front with
  | 'i' => do let k ← natOf (s.drop 1).toString; let d ← ids[k]?; some (idHash d)
  | 'n' => natOf (s.drop 1).toString
  | _ => none

def chanRun (ids : List ID) : RouteChan.CTbl → RouteChan.Conn → List String → List String → Option String
  | _, _, [], acc => some (" | ".intercalate acc.reverse)
  | t, c, tok :: toks, acc =>
    let rest := (tok.drop 1).toString
    match tok.front with
    | 'H' => do
      let k ← natOf rest
      let d ← ids[k]?
      let t' := if idEmpty d then t else match t.get (idHash d) with
        | some _ => t
        | none => t ++ [(idHash d, { id := d, chn := none })]
      chanRun ids t' c toks ("H" :: acc)
    | 'C' => do
      let tags ← if rest = "-" then some [] else (splitOn1 rest '+').mapM (parseTag ids)
      match RouteChan.resolve c tags t with
      | none => chanRun ids t c toks (s!"C:err r={chanRedirected ids t}" :: acc)
      | some (t', c') => chanRun ids t' c' toks (s!"C:ok r={chanRedirected ids t'}" :: acc)
    | _ => none

def handle (args : List String) : String :=
  match args with
  | ["hash", a, b] =>
    match ofHex a, ofHex b with
    | some a, some b => s!"{idHash a} {idHash b}"
    | _, _ => "bad-op"
  | "srv" :: ids :: toks =>
    match parseIds ids with
    | some ids => (srvRun ids [] toks []).getD "bad-op"
    | none => "bad-op"
  | "chan" :: ids :: toks =>
    match parseIds ids with
    | some (host :: rest) => (chanRun (host :: rest) [] { cid := 1, host := host, subs := [] } toks []).getD "bad-op"
    | _ => "bad-op"
  | ["prxreg", ids] =>
    -- the clients of a proxy (in the order given) after one `subsRegister`: for each the device its new
    -- request names, as an index into the list
    match parseIds ids with
    | some cl =>
      let t : Proxy.PTbl := (List.range cl.length).zip (cl.map fun i => ({ id := i, q := [] } : Proxy.Client))
      let t' := (Proxy.subsRegister t (fun _ => 0)).1
      " ".intercalate (t'.map fun e =>
        let nw := e.2.q.map fun l => match cl.findIdx? (· == l.dev) with | some k => toString k | none => "?"
        s!"{e.1}>{",".intercalate nw}")
    | none => "bad-op"
  | "prx" :: ids :: toks =>
    match parseIds ids with
    | some (parent :: rest) => (prxRun (parent :: rest) parent [] toks []).getD "bad-op"
    | _ => "bad-op"
  | _ => "bad-op"

end XMT.Drv.C15
