import XMT.Drv.Util
import XMT.Close
import XMT.TeardownShow
namespace XMT.Drv.C16
open XMT XMT.Close XMT.Drv

def boolOf (s : String) : Option Bool :=
  if s = "1" then some true else if s = "0" then some false else none

def parseScript (s : String) : Option (List Bool) :=
  if s = "-" ∨ s = "" then some [] else s.toList.mapM (fun c => if c = 'o' then some true else if c = 'f' then some false else none)

/-- thread tokens: `C1`/`C0` close(w), `R` recvShutdown, `L:<script>` listen, `W` Wait, `S` queue,
`K` Wake, `H` chanWake, `X` cancel, `D` server loop, `E` event thread, `N` next -/
def parseKind (tok : String) : Option Kind :=
  match splitOn1 tok ':' with
  | ["C1"] => some (.close true)
  | ["C0"] => some (.close false)
  | ["R"] => some .recvShutdown
  | ["L", sc] => (parseScript sc).map .listen
  | ["W"] => some .waitCh
  | ["S"] => some .send
  | ["K"] => some .wake
  | ["H"] => some .chanWake
  | ["X"] => some .cancel
  | ["D"] => some .srvLoop
  | ["E"] => some .evLoop
  | ["N"] => some .serve
  | _ => none

def natsOf (s : String) : Option (List Nat) :=
  if s = "-" ∨ s = "" then some [] else (splitOn1 s '.').mapM natOf

/-- variant: `F` = the current tree (flags from the regenerated facts); otherwise six 0/1 digits
trySet, wakeLocked, evReturns, errShutdown, ackLocked, fuse -/
def cfgOf (variant : String) (client : Bool) : Option Cfg :=
  if variant = "F" then some (cfgF client)
  else match variant.toList.map (fun c => boolOf (String.singleton c)) with
    | [some a, some b, some c, some d, some e, some f] =>
      some { client := client, trySet := a, wakeLocked := b, evReturns := c, errShutdown := d, ackLocked := e, fuse := f }
    | _ => none

/-- after the schedule: round-robin until no thread moves -/
def drain (cfg : Cfg) (n : Nat) : Nat → St → St
  | 0, s => s
  | fuel + 1, s =>
    let s' := (List.range n).foldl (step cfg n) s
    if (List.range n).all (fun t => (s'.loc t).pc == (s.loc t).pc && (s'.loc t).script.length == (s.loc t).script.length)
        && s'.delReq == s.delReq && s'.errors == s.errors
    then s' else drain cfg n fuel s'

def b01 (b : Bool) : String := if b then "1" else "0"

def showChan : Chan → String
  | .send => "send" | .wake => "wake" | .recv => "recv" | .ch => "ch" | .ev => "ev"

def showOut (s : St) (t : Nat) : String :=
  let l := s.loc t
  if l.pc ≠ fin then s!"blk@{l.pc}" else
  match l.out with
  | .none => "-"
  | .ret => "ret"
  | .panicClose c => s!"panic:close:{showChan c}"
  | .panicSend c => s!"panic:send:{showChan c}"

def showState (n : Nat) (s : St) : String :=
  let thr := ",".intercalate ((List.range n).map (showOut s))
  let d (x : String) := if x = "" then "-" else x
  let c (k : Nat) := if k > 0 then "1" else "0"
  s!"thr={d thr} st={b01 s.closing}{b01 s.shutdown}{b01 s.closed}{b01 s.sendClose}{b01 s.wakeClose}{b01 s.recvClose}{b01 s.shutdownWait} ch={c s.sendC}{c s.wakeC}{c s.recvC}{c s.chC}{c s.evC} peek={b01 s.peek} q={s.sendLen} del={s.delReq} lock={b01 s.lock.isSome}"

def handle (args : List String) : String :=
  match args with
  | ["run", variant, client, hasRecv, canRecv, q, threads, sched] =>
    match boolOf client, boolOf hasRecv, boolOf canRecv, natOf q, (splitOn1 threads ',').mapM parseKind, natsOf sched with
    | some cl, some hr, some cr, some q, some prog, some sc =>
      match cfgOf variant cl with
      | some cfg =>
        let n := prog.length
        let s := run cfg n (init cfg prog hr cr q) sc
        let s := drain cfg n (64 * n + 64) s
        showState n s
      | none => "bad-op"
    | _, _, _, _, _, _ => "bad-op"
  | "tdn" :: rest => XMT.Teardown.handleT rest   -- Server / Listener teardown (XMT/Teardown.lean)
  | _ => "bad-op"

end XMT.Drv.C16
