import XMT.Drv.Util
import XMT.Group
import XMT.Drv.C19
import XMT.HostBox
import XMT.GroupLoop
namespace XMT.Drv.C17
open XMT XMT.Group XMT.Drv

/-- `.` = empty list, otherwise `+`-separated items -/
def plusList (s : String) (f : String → Option α) : Option (List α) :=
  if s = "." then some [] else (splitOn1 s '+').mapM f

def boolOf (s : String) : Option Bool :=
  if s = "1" then some true else if s = "0" then some false else none

/-- `wraw/sel/hosts/w/t/sleep/jitter/kill/kds/work/keys/conn` → entry (weight clamped as Build does)
with the selector byte its group carries; `ptr` = position in the config. -/
def parseEntry (ptr : Nat) (s : String) : Option (Entry × Nat) :=
  match splitOn1 s '/' with
  | [wr, sl, hs, w, t, slp, ji, kl, kds, wk, ks, cn] => do
    let wr ← natOf wr
    let sl ← natOf sl
    let hs ← plusList hs ofHex
    let w ← natOf w
    let t ← natOf t
    let slp ← intOf slp
    let ji ← intOf ji
    let kl ← intOf kl
    let kds ← boolOf kds
    let wk ← natOf wk
    let ks ← plusList ks natOf
    let cn ← natOf cn
    if wr ≥ 256 ∨ sl ≥ 256 then none
    else if hs.any (·.isEmpty) then none
    else some ({ ptr := ptr, weight := clampWeight wr, hosts := hs, w := w, t := t, sleep := slp,
                 jitter := ji, kill := kl, kds := kds, work := wk, keys := ks, conn := cn }, sl)
  | _ => none

def parseEntries (s : String) : Option (List (Entry × Nat)) :=
  let toks := splitOn1 s ';'
  (toks.zipIdx).mapM fun (tok, i) => parseEntry i tok

/-- which rendering an op's observation gets (`co` and `li` both observe the connection hint: tag = 2 * connector class + accepter flag) -/
structure POp where
  code : String
  op : Op
  draws : List Nat

def parseOp (s : String) : Option POp :=
  match splitOn1 s ':' with
  | [] => none
  | code :: rest =>
    let mk (op : Op) (ds : List String) : Option POp := do
      let ds ← ds.mapM natOf
      if ds.any (· ≥ 2^32) then none else some ⟨code, op, ds⟩
    match code, rest with
    | "s0", ds => mk (.switch false) ds
    | "s1", ds => mk (.switch true) ds
    | "nx", ds => mk .next ds
    | "sl", ds => mk .sleep ds
    | "ji", ds => mk .jitter ds
    | "kd", ds => mk .kill ds
    | "wh", ds => mk .work ds
    | "co", ds => mk .conn ds
    | "li", ds => mk .conn ds
    | "tk", e :: h :: ds => do
      let e ← boolOf e
      let h ← natOf h
      mk (.trusted e h) ds
    | _, _ => none

def showObs (code : String) : Obs → String
  | .switched b => if b then "T" else "F"
  | .next h w t => s!"n:{hexOrDash h}:{w}:{t}"
  | .sleep d => s!"sl:{d}"
  | .jitter j => s!"ji:{j}"
  | .kill k set => s!"kd:{k}:{if set then 1 else 0}"
  | .work w => s!"wh:{w}"
  | .trusted b => s!"tk:{if b then 1 else 0}"
  | .conn c => if code = "li" then s!"li:{c % 2}" else s!"co:{c / 2}"

def showCur (g : Group) : String :=
  match g.cur with
  | none => "-"
  | some c => toString c.ptr

/-- run the history on a group, printing `obs@cur` per op; stops with `panic` -/
def runGroup (g : Group) : List POp → List String
  | [] => []
  | o :: rest =>
    match step g o.op o.draws with
    | .panic _ => ["panic"]
    | .ok (g', obs, _) => (showObs o.code obs ++ "@" ++ showCur g') :: runGroup g' rest

def runSingle (p : Entry) : List POp → List String
  | [] => []
  | o :: rest =>
    match singleStep p o.op o.draws with
    | .panic _ => ["panic"]
    | .ok (obs, _) => showObs o.code obs :: runSingle p rest

/-- a given order (the implementation's, for more entries than the insertion-sort threshold) is
accepted iff it is a permutation of the configured groups in descending weight order -/
def applyOrder (es : List Entry) (order : List Nat) : Option (List Entry) :=
  let picked := order.filterMap fun i => es[i]?
  if picked.length = es.length ∧ order.length = es.length ∧ order.eraseDups.length = order.length ∧
     (picked.zip picked.tail).all (fun (a, b) => a.weight ≥ b.weight) then some picked else none

/-! ### s3: the connection loop composed with a multi-group profile (XMT/GroupLoop.lean) -/

def resOf (c : Char) : Option Client.Res :=
  if c = 'o' then some .ok else if c = 'e' then some .sessErr else if c = 'f' then some .fail else none

def showRes : Client.Res → String
  | .ok => "o"
  | .sessErr => "e"
  | .fail => "f"

def showConn (c : GroupLoop.Conn) : String :=
  let cur := match c.cur with
    | none => "-"
    | some p => toString p
  s!"{if c.swArg then 1 else 0}{if c.swRes then "T" else "F"}@{cur}:{hexOrDash c.host}:{c.w}:{c.t}:{c.errs}:{showRes c.res}"

def handleGloop (order ents draws script : String) : String :=
  let ds? : Option (List Nat) := if draws = "-" then some [] else (splitOn1 draws ',').mapM natOf
  let sc? : Option (List Client.Res) := if script = "-" then some [] else script.toList.mapM resOf
  match parseEntries ents, ds?, sc? with
  | some es, some ds, some sc =>
    if ds.any (· ≥ 2^32) then "bad-op" else
    match buildTail es with
    | .nil => "nil"
    | .single _ => "single"
    | .group g =>
      let g? : Option Group :=
        if order = "auto" then some g
        else match (splitOn1 order ',').mapM natOf with
          | none => none
          | some o => (applyOrder (es.map (·.1)) o).map fun l => { g with entries := l }
      match g? with
      | none => "order-bad"
      | some g =>
        match GroupLoop.session g ds sc with
        | .panic _ => "panic"
        | .ok (st, cont) =>
          " ".intercalate (["gloop", ",".intercalate (g.entries.map (toString ·.ptr)), s!"sel={g.sel}", "|"]
            ++ st.trace.map showConn
            ++ ["|", s!"cont={if cont then 1 else 0}", s!"errors={st.errors}", s!"e={if st.e then 1 else 0}",
                s!"left={st.ds.length}"])
  | _, _, _ => "bad-op"

def handle (args : List String) : String :=
  match args with
  | ["run", order, ents, ops] =>
    match parseEntries ents, (splitOn1 ops ',').mapM parseOp with
    | some es, some ops =>
      match buildTail es with
      | .nil => "nil"
      | .single p => " ".intercalate (["single", "|"] ++ runSingle p ops)
      | .group g =>
        let g? : Option Group :=
          if order = "auto" then some g
          else match (splitOn1 order ',').mapM natOf with
            | none => none
            | some o => (applyOrder (es.map (·.1)) o).map fun l => { g with entries := l }
        match g? with
        | none => "order-bad"
        | some g =>
          " ".intercalate (["group", ",".intercalate (g.entries.map (toString ·.ptr)), s!"sel={g.sel}", "|"]
            ++ runGroup g ops)
    | _, _ => "bad-op"
  -- the consumer (Session.listen): the client-loop model of C19 (XMT/ClientLoop.lean)
  | "loop" :: rest => XMT.Drv.C19.handle ("loop" :: rest)
  -- s3: the real connection loop on a real multi-group profile, scripted connector and ONE PRNG stream
  | ["gloop", order, ents, draws, script] => handleGloop order ents draws script
  -- s3: the zero-value Group (`new(cfg.Group)`: no entries, selector byte `sel`)
  | ["gempty", sel, ops] =>
    match natOf sel, (splitOn1 ops ',').mapM parseOp with
    | some sel, some ops => " ".intercalate (["gempty", "|"] ++ runGroup { cur := none, entries := [], sel := sel } ops)
    | _, _ => "bad-op"
  -- the host container of the `ews && implant` build (XMT/HostBox.lean): `hb <op>…` with ops
  -- `s:<hex>` Set, `w:<hex16>` Wrap with the given PRNG bytes, `u` Unwrap, `g` String()
  | "hb" :: ops =>
    let rec go (c : XMT.HostBox.Box) (ops : List String) (acc : List String) : Option (List String) :=
      match ops with
      | [] => some acc.reverse
      | o :: rest =>
        if o = "u" then go (XMT.HostBox.unwrap c) rest acc
        else if o = "g" then go c rest (hexOrDash (XMT.HostBox.string c) :: acc)
        else match splitOn1 o ':' with
          | ["s", h] => match ofHex h with
            | some b => go (XMT.HostBox.set c b) rest acc
            | none => none
          | ["w", h] => match ofHex h with
            | some b => if b.length = XMT.HostBox.keyLen then go (XMT.HostBox.wrap c b) rest acc else none
            | none => none
          | _ => none
    match go XMT.HostBox.empty ops [] with
    | some outs => if outs.isEmpty then "." else " ".intercalate outs
    | none => "bad-op"
  | _ => "bad-op"

end XMT.Drv.C17
