/-
  Line-protocol driver for C18 (I/O side only; nothing here is used by a theorem).

    enc  <Type> name=tok …                 → hex of the writer-schema encoding
    dec  <Type> chunk|stream <chunks>      → ok rem=N name=tok … (sorted by name) | err <class>
    fenc <F:…>                             → hex of (*Filter).MarshalStream
    fdec ptr|val chunk|stream <chunks>     → ok rem=N F:… | err <class>
    senc <F:…> <P:…|R:n:P:…>…              → hex of Sentinel.MarshalStream
    sdec chunk|stream <chunks>             → ok rem=N F:… P:… (run-length compressed) | err <class>
    sfile <bs> <iv> <ks> <F:…> <P:…>…      → hex of the file Sentinel.Write produces
    sread <bs> <ks> <chunks>               → as sdec, through Sentinel.Read

  value tokens: C10's (`b:1 u32:7 u64:… by:hex sl:hex,hex`), filters `F:~` (nil) or
  `F:pid/fallback/session/elevated/excl/incl`, paths `P:t/path/extra`, `R:n:P:…` = n copies.
-/
import XMT.Drv.Util
import XMT.Drv.C10
import XMT.Task
namespace XMT.Drv.C18
open XMT XMT.Codec XMT.Task XMT.Drv

def parseList (v : String) : Option (List Bytes) :=
  if v = "" then some [] else (splitOn1 v ',').mapM ofHex

def showList (l : List Bytes) : String := ",".intercalate (l.map hexOrDash)

def parseFilter (tok : String) : Option (Option Filter) :=
  if tok = "F:~" then some none
  else if tok.startsWith "F:" then
    match splitOn1 (tok.drop 2).toString '/' with
    | [pid, fb, se, el, ex, inc] => do
      let pid ← natOf pid
      let fb ← if fb = "1" then some true else if fb = "0" then some false else none
      let se ← natOf se
      let el ← natOf el
      let ex ← parseList ex
      let inc ← parseList inc
      if se < 256 ∧ el < 256 then
        some (some ⟨ex, inc, pid, fb, UInt8.ofNat se, UInt8.ofNat el⟩)
      else none
    | _ => none
  else none

def showFilter : Option Filter → String
  | none => "F:~"
  | some f =>
    s!"F:{f.pid}/{if f.fallback then 1 else 0}/{f.session.toNat}/{f.elevated.toNat}/{showList f.exclude}/{showList f.incl}"

def parseFVal (tok : String) : Option FVal :=
  if tok.startsWith "F:" then (parseFilter tok).map .filter
  else (C10.parseVal tok).map .prim

def showFVal : FVal → String
  | .prim v => C10.showVal v
  | .filter f => showFilter f

def parseField (tok : String) : Option (String × FVal) :=
  match splitOn1 tok '=' with
  | [n, v] => (parseFVal v).map fun x => (n, x)
  | _ => none

def schemas (ty : String) : Option (Schema × Schema) :=
  let pick : Option (List (String × String) × List (String × String)) :=
    match ty with
    | "Process" => some (Facts.c18_schema_Process_marshal, Facts.c18_schema_Process_unmarshal)
    | "DLL" => some (Facts.c18_schema_DLL_marshal, Facts.c18_schema_DLL_unmarshal)
    | "Zombie" => some (Facts.c18_schema_Zombie_marshal, Facts.c18_schema_Zombie_unmarshal)
    | "Assembly" => some (Facts.c18_schema_Assembly_marshal, Facts.c18_schema_Assembly_unmarshal)
    | _ => none
  match pick with
  | some (m, u) =>
    match schemaOf m, schemaOf u with
    | some a, some b => some (a, b)
    | _, _ => none
  | none => none

/-- the description given on the op line covers the writer schema with the right types -/
def recOf (W : Schema) (fs : List (String × FVal)) : Option Rec :=
  if W.all fun e => (fs.lookup e.1).any fun v => v.ty == e.2 then
    some fun n => (fs.lookup n).getD (.prim (.bool false))
  else none

def showRec (l : List (String × FVal)) : String :=
  let l := l.mergeSort fun a b => decide (a.1 < b.1) || a.1 == b.1
  if l.isEmpty then "." else " ".intercalate (l.map fun e => s!"{e.1}={showFVal e.2}")

def showErr := C10.showErr

/-! sentinel tokens -/

def parsePath (tok : String) : Option SPath :=
  if tok.startsWith "P:" then
    match splitOn1 (tok.drop 2).toString '/' with
    | [t, p, ex] => do
      let t ← natOf t
      let p ← ofHex p
      let ex ← parseList ex
      if t < 256 then some ⟨UInt8.ofNat t, p, ex⟩ else none
    | _ => none
  else none

def showPath (p : SPath) : String := s!"P:{p.t.toNat}/{hexOrDash p.path}/{showList p.extra}"

def parsePathTok (tok : String) : Option (List SPath) :=
  if tok.startsWith "R:" then
    match splitOn1 (tok.drop 2).toString ':' with
    | n :: rest => do
      let n ← natOf n
      let p ← parsePath (":".intercalate rest)
      some (List.replicate n p)
    | _ => none
  else (parsePath tok).map fun p => [p]

def parseSentinel (toks : List String) : Option Sentinel :=
  match toks with
  | f :: ps =>
    match parseFilter f, ps.mapM parsePathTok with
    | some (some f), some pss => some ⟨pss.flatten, f⟩
    | _, _ => none
  | [] => none

/-- run-length compression of equal neighbours -/
def rle : List String → List (String × Nat)
  | [] => []
  | s :: r =>
    match rle r with
    | (t, n) :: q => if s = t then (t, n + 1) :: q else (s, 1) :: (t, n) :: q
    | [] => [(s, 1)]

def showSentinel (x : Sentinel) : String :=
  let ps := (rle (x.paths.map showPath)).map fun e => if e.2 = 1 then e.1 else s!"R:{e.2}:{e.1}"
  " ".intercalate (showFilter (some x.filter) :: ps)

def cipherOf (bs : Nat) (ks : Bytes) : Option Cipher :=
  if bs = 0 then none else
    let a := ks.toArray
    some ⟨bs, fun _ i => a.getD i 0⟩

def showSentRes {S : Type} (rem : S → Nat) : Except Err (Sentinel × S) → String
  | .ok (x, r) => s!"ok rem={rem r} {showSentinel x}"
  | .error e => s!"err {showErr e}"

def handle (args : List String) : String :=
  match args with
  | "enc" :: ty :: toks =>
    match schemas ty, toks.mapM parseField with
    | some (W, _), some fs =>
      match recOf W fs with
      | some ρ => hexOrDash (encS W ρ)
      | none => "bad-op"
    | _, _ => "bad-op"
  | ["dec", ty, rd, chunks] =>
    match schemas ty, parseChunks chunks with
    | some (_, U), some cs =>
      if rd = "chunk" then
        match decS chunkPrim U cs.flatten with
        | .ok (l, r) => s!"ok rem={r.length} {showRec l}"
        | .error e => s!"err {showErr e}"
      else if rd = "stream" then
        match decS streamPrim U cs with
        | .ok (l, r) => s!"ok rem={r.flatten.length} {showRec l}"
        | .error e => s!"err {showErr e}"
      else "bad-op"
    | _, _ => "bad-op"
  | ["fenc", f] =>
    match parseFilter f with
    | some f => hexOrDash (encFilter f)
    | none => "bad-op"
  | ["fdec", form, rd, chunks] =>
    match parseChunks chunks with
    | some cs =>
      let out {S : Type} (P : Prim S) (s : S) (rem : S → Nat) : String :=
        if form = "ptr" then
          match decFilterPtr P s with
          | .ok (f, r) => s!"ok rem={rem r} {showFilter f}"
          | .error e => s!"err {showErr e}"
        else
          match decFilterVal P s with
          | .ok (f, r) => s!"ok rem={rem r} {showFilter (some f)}"
          | .error e => s!"err {showErr e}"
      if form ≠ "ptr" ∧ form ≠ "val" then "bad-op"
      else if rd = "chunk" then out chunkPrim cs.flatten List.length
      else if rd = "stream" then out streamPrim cs (fun r => r.flatten.length)
      else "bad-op"
    | none => "bad-op"
  | "senc" :: toks =>
    match parseSentinel toks with
    | some x => hexOrDash (encSentinel x)
    | none => "bad-op"
  | ["sdec", rd, chunks] =>
    match parseChunks chunks with
    | some cs =>
      if rd = "chunk" then showSentRes List.length (decSentinel chunkPrim cs.flatten)
      else if rd = "stream" then showSentRes (fun r => r.flatten.length) (decSentinel streamPrim cs)
      else "bad-op"
    | none => "bad-op"
  | "sfile" :: bs :: iv :: ks :: toks =>
    match natOf bs, ofHex iv, ofHex ks, parseSentinel toks with
    | some bs, some iv, some ks, some x =>
      if bs ≠ 0 ∧ iv.length ≠ bs then "bad-op"
      else hexOrDash (sentinelWrite (cipherOf bs ks) iv x)
    | _, _, _, _ => "bad-op"
  | ["sread", bs, ks, chunks] =>
    match natOf bs, ofHex ks, parseChunks chunks with
    | some bs, some ks, some cs =>
      showSentRes (fun r => r.flatten.length) (sentinelRead (cipherOf bs ks) cs)
    | _, _, _ => "bad-op"
  | _ => "bad-op"

end XMT.Drv.C18
