import XMT.Drv.Util
import XMT.ClientLoop
namespace XMT.Drv.C19
open XMT XMT.Drv

def parseRule : List String → Option Work.Rule
  | [d, sh, sm, eh, em] => do
    let d ← natOf d; let sh ← natOf sh; let sm ← natOf sm; let eh ← natOf eh; let em ← natOf em
    if d < 256 ∧ sh < 256 ∧ sm < 256 ∧ eh < 256 ∧ em < 256 then some ⟨d, sh, sm, eh, em⟩ else none
  | _ => none

/-- `-` = no rule, else `d,sh,sm,eh,em` -/
def parseRuleOpt (s : String) : Option (Option Work.Rule) :=
  if s = "-" then some none else (parseRule (splitOn1 s ',')).map some

def parseIntOpt (s : String) : Option (Option Int) :=
  if s = "-" then some none else (intOf s).map some

/-- `a,b,c` raw PRNG words; the source cycles through them -/
def parseDraws (s : String) : Option (Nat → Nat) := do
  let l ← (splitOn1 s ',').mapM natOf
  if l.isEmpty then none else some (fun i => l.getD (i % l.length) 0)

def parseScript (s : String) : Option (Nat → Client.Res) :=
  let cs := if s = "-" then [] else s.toList
  if cs.all (fun c => c = 'f' ∨ c = 'e' ∨ c = 'o') then
    some (fun i => match cs[i]? with
      | some 'e' => .sessErr
      | some 'o' => .ok
      | _ => .fail)
  else none

def showVerify : Option Work.VerifyErr → String
  | none => "ok" | some .endMin => "EndMin" | some .endHour => "EndHour"
  | some .startMin => "StartMin" | some .startHour => "StartHour"

def showDelay : Jitter.Delay × Nat → String
  | (.none, k) => s!"none {k}"
  | (.sleep w, k) => s!"sleep {w} {k}"
  | (.panic _, k) => s!"panic {k}"

def showRes : Client.Res → String
  | .fail => "f" | .sessErr => "e" | .ok => "o"

def showEv : Client.Ev → String
  | .workWait d => s!"w{d}"
  | .sleep d => s!"s{d}"
  | .connect t sh r => s!"c{t}:{showRes r}{if sh then "S" else ""}"
  | .panic _ => "panic"
  | .stuck => "stuck"

def b01 (b : Bool) : String := if b then "1" else "0"

def showSt (st : Client.St) : String :=
  let tr := if st.trace.isEmpty then "." else " ".intercalate (st.trace.map showEv)
  s!"{tr} | closing={b01 st.closing} shutdown={b01 st.shutdown} errors={st.errors} draws={st.di} now={st.now} sw={"".intercalate (st.sw.map b01)}"

def handle (args : List String) : String :=
  match args with
  | ["work", d, sh, sm, eh, em, wd, ns] =>
    match parseRule [d, sh, sm, eh, em], natOf wd, intOf ns with
    | some r, some wd, some ns => s!"{Work.work r ⟨wd, ns⟩}"
    | _, _, _ => "bad-op"
  | ["verify", d, sh, sm, eh, em] =>
    match parseRule [d, sh, sm, eh, em] with
    | some r => s!"{showVerify (Work.verify r)} empty={b01 (Work.empty r)}"
    | none => "bad-op"
  | ["inst", off, now] =>
    match intOf off, intOf now with
    | some off, some now => let t := Client.instOf off now; s!"{t.wd} {t.ns}"
    | _, _ => "bad-op"
  | ["delay", sleep, jit, draws] =>
    match intOf sleep, natOf jit, parseDraws draws with
    | some s, some j, some q => showDelay (Jitter.delay s j q)
    | _, _, _ => "bad-op"
  | ["wait", sleep, jit, kill, rule, off, now, draws] =>
    match intOf sleep, natOf jit, parseIntOpt kill, parseRuleOpt rule, intOf off, intOf now, parseDraws draws with
    | some s, some j, some k, some r, some off, some now, some q =>
      showSt (Client.wait ⟨s, j, k, r, off⟩ q { now := now })
    | _, _, _, _, _, _, _ => "bad-op"
  | ["loop", sleep, jit, kill, rule, off, now, draws, script, fuel] =>
    match intOf sleep, natOf jit, parseIntOpt kill, parseRuleOpt rule, intOf off, intOf now, parseDraws draws,
          parseScript script, natOf fuel with
    | some s, some j, some k, some r, some off, some now, some q, some sc, some fuel =>
      showSt (Client.run ⟨s, j, k, r, off⟩ q sc fuel { now := now })
    | _, _, _, _, _, _, _, _, _ => "bad-op"
  | ["first", kill, rule, off, now] =>
    match parseIntOpt kill, parseRuleOpt rule, intOf off, intOf now with
    | some k, some r, some off, some now =>
      match Client.firstConnect ⟨1, 0, k, r, off⟩ now with
      | some t => s!"connect {t}"
      | none => "killed"
    | _, _, _, _ => "bad-op"
  | _ => "bad-op"

end XMT.Drv.C19
