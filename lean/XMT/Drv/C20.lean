import XMT.Drv.Util
import XMT.Utf16
import XMT.RegDisplay
namespace XMT.Drv.C20
open XMT XMT.Utf16 XMT.Drv

/-- `-` is the empty list; otherwise comma separated decimal integers. -/
def parseInts (s : String) : Option (List Int) :=
  if s = "-" then some [] else (splitOn1 s ',').mapM intOf

def parseU16s (s : String) : Option U16s :=
  if s = "-" then some [] else
    (splitOn1 s ',').mapM fun t => do
      let n ← natOf t
      if n < 65536 then some (UInt16.ofNat n) else none

def showInts (l : List Int) : String :=
  if l.isEmpty then "-" else ",".intercalate (l.map toString)

def showU16s (l : U16s) : String :=
  if l.isEmpty then "-" else ",".intercalate (l.map fun u => toString u.toNat)

def showErr : Err → String
  | .einval => "einval" | .unexpectedType => "type" | .unexpectedSize => "size"

def showOut {α : Type} (f : α → String) : Outcome α → String
  | .ok a => "ok " ++ f a
  | .err e => "err " ++ showErr e
  | .panic p => "panic " ++ p

def showSegs (l : List (List Int)) : String :=
  s!"{l.length} " ++ (if l.isEmpty then "." else "|".intercalate (l.map showInts))

def handle (args : List String) : String :=
  match args with
  | ["fs", r] => match parseInts r with
    | some rs => showOut showU16s (utf16FromString rs) | none => "bad-op"
  | ["fsb", h] => match ofHex h with
    | some bs => showOut showU16s (utf16FromStringB bs) | none => "bad-op"
  | ["r8", h] => match ofHex h with
    | some bs => showInts (utf8Decode bs) | none => "bad-op"
  | ["es", r] => match parseInts r with
    | some rs => showOut showU16s (utf16EncodeStd rs) | none => "bad-op"
  | ["enc", r] => match parseInts r with
    | some rs => showOut showU16s (utf16Encode rs) | none => "bad-op"
  | ["er", r] => match intOf r with
    | some x => let p := utf16EncodeRune x; s!"{p.1.toNat},{p.2.toNat}" | none => "bad-op"
  | ["dr", a, b] => match intOf a, intOf b with
    | some x, some y => toString (utf16DecodeRune x y) | _, _ => "bad-op"
  | ["dec", u] => match parseU16s u with
    | some us => showOut showInts (utf16Decode us) | none => "bad-op"
  | ["fnv", h] => match ofHex h with
    | some bs => toString (fnvHash bs).toNat | none => "bad-op"
  | ["rs", t, h] => match natOf t, ofHex h with
    | some ty, some d => showOut showInts (entryToString ty d) | _, _ => "bad-op"
  | ["rl", t, h] => match natOf t, ofHex h with
    | some ty, some d => showOut showSegs (entryToStringList ty d) | _, _ => "bad-op"
  | ["ri", t, h] => match natOf t, ofHex h with
    | some ty, some d => showOut toString (entryToInteger ty d) | _, _ => "bad-op"
  | ["rb", t, h] => match natOf t, ofHex h with
    | some ty, some d => showOut hexOrDash (entryToBinary ty d) | _, _ => "bad-op"
  -- the reference definitions themselves (compared with Go's unicode/utf16 and hash/fnv)
  | ["refenc", r] => match parseInts r with
    | some rs => showU16s (refEncode rs) | none => "bad-op"
  | ["refdec", u] => match parseU16s u with
    | some us => showInts (refDecode us) | none => "bad-op"
  | ["reffnv", h] => match ofHex h with
    | some bs => toString (fnv1Ref bs) | none => "bad-op"
  -- session-3 extension: display form of a registry value (Entry.String / TypeName), util.Uitoa
  | ["rstr", t, nl, h] => match natOf t, natOf nl, ofHex h with
    | some ty, some n, some d => showOut showInts (entryString ty n d) | _, _, _ => "bad-op"
  | ["rtn", t] => match natOf t with
    | some ty => "ok " ++ (["KEY", "DWORD", "QWORD", "BINARY", "MULTI_STRING", "STRING", "-"].getD (entryTypeName ty) "?")
    | none => "bad-op"
  | ["uitoa", v] => match natOf v with
    | some n => if n < 18446744073709551616 then showOut hexOrDash (uitoa n) else "bad-op"
    | none => "bad-op"
  | _ => "bad-op"

end XMT.Drv.C20
