/- Driver utilities (I/O side only; nothing here is used by a theorem). -/
import XMT.Base
namespace XMT.Drv
open XMT

def splitOn1 (s : String) (c : Char) : List String := s.splitOn (String.singleton c)

/-- `a|b|c` → list of byte strings; `-` is empty; the empty token is the empty list. -/
def parseChunks (s : String) : Option (List Bytes) :=
  if s = "" ∨ s = "." then some [] else (splitOn1 s '|').mapM ofHex

def showChunks (cs : List Bytes) : String :=
  if cs.isEmpty then "." else "|".intercalate (cs.map hexOrDash)

def natOf (s : String) : Option Nat := s.toNat?

def intOf (s : String) : Option Int := s.toInt?

end XMT.Drv
