/-
  XMT.Flag — model of `com.Flag` (com/flag.go): a 64-bit word |len:16|pos:16|group:16|bits:16|,
  written with Go's own operators on `Nat` plus the explicit `uint64`/`uint32`/`uint16` truncations.
-/
import XMT.Base
namespace XMT.Flag
open XMT

def flagFrag : Nat := 1

def u16 (x : Nat) : Nat := x % 2^16
def u32 (x : Nat) : Nat := x % 2^32
def u64 (x : Nat) : Nat := x % 2^64

/-- `uint16(f >> 48)` -/
def len (f : Nat) : Nat := u16 (f >>> 48)
/-- `uint16(f >> 16)` -/
def group (f : Nat) : Nat := u16 (f >>> 16)
/-- `uint16(f >> 32)` -/
def position (f : Nat) : Nat := u16 (f >>> 32)
/-- the 16 flag bits `uint16(f)` -/
def bits (f : Nat) : Nat := u16 f

/-- `*f = Flag(n)<<48 | Flag(f.Position())<<32 | Flag(uint32(*f)) | FlagFrag` -/
def setLen (f n : Nat) : Nat := u64 ((n <<< 48) ||| (position f <<< 32) ||| u32 f ||| flagFrag)
/-- `*f = ((*f >> 32) << 32) | Flag(n)<<16 | Flag(uint16(*f)) | FlagFrag` -/
def setGroup (f n : Nat) : Nat := u64 (((f >>> 32) <<< 32) ||| (n <<< 16) ||| u16 f ||| flagFrag)
/-- `*f = Flag(f.Len())<<48 | Flag(n)<<32 | Flag(uint32(*f)) | FlagFrag` -/
def setPosition (f n : Nat) : Nat := u64 ((len f <<< 48) ||| (n <<< 32) ||| u32 f ||| flagFrag)
/-- `*f = Flag(uint16(*f)) ^ FlagFrag` -/
def clear (f : Nat) : Nat := u16 f ^^^ flagFrag
/-- `*f = *f | n` -/
def set (f n : Nat) : Nat := f ||| n
/-- `*f = *f &^ n` -/
def unset (f n : Nat) : Nat := f - (f &&& n)

/-! ### bridging lemmas -/

theorem or_eq_add (a b k : Nat) (ha : a % 2^k = 0) (hb : b < 2^k) : a ||| b = a + b := by
  have h := Nat.shiftLeft_add_eq_or_of_lt hb (a / 2^k)
  rw [Nat.shiftLeft_eq] at h
  have : a / 2^k * 2^k = a := by
    have := Nat.div_add_mod a (2^k)
    rw [ha] at this
    rw [Nat.mul_comm]; omega
  rw [this] at h
  exact h.symm

theorem or_one_eq (x : Nat) : x ||| 1 = x + 1 - x % 2 := by
  have hx := Nat.div_add_mod x 2
  rcases Nat.mod_two_eq_zero_or_one x with h | h
  · rw [or_eq_add x 1 1 (by simpa using h) (by decide)]; omega
  · have e : x = (x - 1) ||| 1 := by
      rw [or_eq_add (x - 1) 1 1 (by simp; omega) (by decide)]; omega
    have : x ||| 1 = x := by
      conv => lhs; rw [e]
      rw [Nat.or_assoc, Nat.or_self, ← e]
    omega

theorem or_one_bounds (x : Nat) : x ≤ (x ||| 1) ∧ (x ||| 1) ≤ x + 1 ∧ (x ||| 1) / 2 = x / 2 ∧ (x ||| 1) % 2 = 1 := by
  rw [or_one_eq]; omega

end XMT.Flag
