import XMT.Flag
namespace XMT.Flag
open XMT

/-- arithmetic normal form of `setLen` -/
theorem setLen_eq (f n : Nat) (hn : n < 2^16) :
    ∃ r, setLen f n = r ∧ r / 2 = (n * 2^48 + position f * 2^32 + f % 2^32) / 2 ∧ r % 2 = 1 := by
  have hp : position f < 2^16 := Nat.mod_lt _ (by decide)
  have hf : f % 2^32 < 2^32 := Nat.mod_lt _ (by decide)
  unfold setLen flagFrag u32 u64
  simp only [Nat.shiftLeft_eq]
  rw [or_eq_add (n * 2^48) (position f * 2^32) 48 (by omega) (by omega)]
  rw [or_eq_add (n * 2^48 + position f * 2^32) (f % 2^32) 32 (by omega) hf]
  obtain ⟨_, _, h3, h4⟩ := or_one_bounds (n * 2^48 + position f * 2^32 + f % 2^32)
  refine ⟨_, rfl, ?_, ?_⟩ <;> omega

theorem setPosition_eq (f n : Nat) (hn : n < 2^16) :
    ∃ r, setPosition f n = r ∧ r / 2 = (len f * 2^48 + n * 2^32 + f % 2^32) / 2 ∧ r % 2 = 1 := by
  have hp : len f < 2^16 := Nat.mod_lt _ (by decide)
  have hf : f % 2^32 < 2^32 := Nat.mod_lt _ (by decide)
  unfold setPosition flagFrag u32 u64
  simp only [Nat.shiftLeft_eq]
  rw [or_eq_add (len f * 2^48) (n * 2^32) 48 (by omega) (by omega)]
  rw [or_eq_add (len f * 2^48 + n * 2^32) (f % 2^32) 32 (by omega) hf]
  obtain ⟨_, _, h3, h4⟩ := or_one_bounds (len f * 2^48 + n * 2^32 + f % 2^32)
  refine ⟨_, rfl, ?_, ?_⟩ <;> omega

theorem setGroup_eq (f n : Nat) (hn : n < 2^16) (hf64 : f < 2^64) :
    ∃ r, setGroup f n = r ∧ r / 2 = (f / 2^32 * 2^32 + n * 2^16 + f % 2^16) / 2 ∧ r % 2 = 1 := by
  have hf : f % 2^16 < 2^16 := Nat.mod_lt _ (by decide)
  unfold setGroup flagFrag u16 u64
  simp only [Nat.shiftLeft_eq, Nat.shiftRight_eq_div_pow]
  rw [or_eq_add (f / 2^32 * 2^32) (n * 2^16) 32 (by omega) (by omega)]
  rw [or_eq_add (f / 2^32 * 2^32 + n * 2^16) (f % 2^16) 16 (by omega) hf]
  obtain ⟨_, _, h3, h4⟩ := or_one_bounds (f / 2^32 * 2^32 + n * 2^16 + f % 2^16)
  refine ⟨_, rfl, ?_, ?_⟩ <;> omega

/-- the flag bits after any setter: the old bits with `FlagFrag` set -/
theorem bits_or_one (f : Nat) : ∃ d, (bits f ||| 1) = d ∧ d / 2 = f % 2^16 / 2 ∧ d % 2 = 1 := by
  obtain ⟨_, _, h3, h4⟩ := or_one_bounds (bits f)
  exact ⟨_, rfl, by unfold bits u16 at h3; exact h3, h4⟩

end XMT.Flag

namespace XMT.Flag

theorem xor_one_of_odd (x : Nat) (h : x % 2 = 1) : x ^^^ 1 = x - 1 := by
  apply Nat.eq_of_testBit_eq
  intro i
  rw [Nat.testBit_xor]
  cases i with
  | zero =>
    simp [Nat.testBit_zero, h]
    omega
  | succ i =>
    have h1 : Nat.testBit 1 (i + 1) = false := by
      simp [Nat.testBit_succ]
    rw [h1, Bool.xor_false]
    simp only [Nat.testBit_succ]
    congr 1
    omega

theorem xor_one_of_even (x : Nat) (h : x % 2 = 0) : x ^^^ 1 = x + 1 := by
  apply Nat.eq_of_testBit_eq
  intro i
  rw [Nat.testBit_xor]
  cases i with
  | zero =>
    simp [Nat.testBit_zero, h]
    omega
  | succ i =>
    have h1 : Nat.testBit 1 (i + 1) = false := by
      simp [Nat.testBit_succ]
    rw [h1, Bool.xor_false]
    simp only [Nat.testBit_succ]
    congr 1
    omega

end XMT.Flag
