/-
  XMT.Frag — model of packet fragmentation and reassembly:
    sender   c2/session.go (*Session).write   (count from the whole-packet Size(), payload carved by
                                               a fresh Chunk with Limit = F)
    receiver c2/types.go cluster.add / cluster.done, c2/vars.go receive (FlagFrag arm),
             c2/session.go markSweepFrags
  `F` (= limits.Frag) is a parameter: the theorems hold for every build-tag limit at once.
-/
import XMT.Packet
import XMT.Flag
import XMT.Generated.Facts

namespace XMT.Frag
open XMT XMT.Packet

abbrev Pkt := Packet.Packet

/-- the fragment count `write` computes from `Size()` -/
def fragCount (F size : Nat) : Nat :=
  let m := size / F
  let m := if (m + 1) * F < size then m + 1 else m
  m + 1

/-- fragment `i` of `m` for group `g` carrying `pay`:
`&com.Packet{ID: n.ID, Job: n.Job, Flags: n.Flags, Device: n.Device, Chunk: data.Chunk{Limit: F}}` then
`SetGroup(g)`, `SetLen(uint16(m))`, `SetPosition(uint16(i))` -/
def mkFrag (p : Pkt) (g m i : Nat) (pay : Bytes) : Pkt :=
  { id := p.id, job := p.job,
    flags := Flag.setPosition (Flag.setLen (Flag.setGroup p.flags g) (m % 2^16)) (i % 2^16),
    tags := [], dev := p.dev, payload := pay }

/-- the loop `for i := 0; i < m && t < x; i++` of `write`: `rest` is the unread payload, `t` the
bytes carved so far, `x = Size()`; each fragment takes what a fresh chunk with limit `F` accepts:
`min F rest.length` bytes. -/
def splitLoop (F : Nat) (p : Pkt) (g m x : Nat) : Nat → Nat → Nat → Bytes → List Pkt
  | 0, _, _, _ => []
  | fuel + 1, i, t, rest =>
    if i < m ∧ t < x then
      mkFrag p g m i (rest.take F) :: splitLoop F p g m x fuel (i + 1) (t + (rest.take F).length) (rest.drop F)
    else []

/-- `Session.write`, fragment path, first step: a packet without a Job number gets one (`j`, drawn
at random from 2..65534) unless it is a proxied or a system packet — every fragment must carry the
same Job number to be put back together (`Belongs`), and `verifyPacket` would otherwise draw a
different one per fragment. -/
def withJob (p : Pkt) (j : Nat) : Pkt :=
  if p.job = 0 ∧ p.flags &&& Facts.flagProxy = 0 ∧ p.id.toNat > 1 then { p with job := j } else p

/-- `Session.write` for a packet larger than `F`: the fragments queued, in order. -/
def split (F : Nat) (p : Pkt) (g : Nat) : List Pkt :=
  let x := Packet.size p
  let m := fragCount F x
  splitLoop F p g m x m 0 0 p.payload

/-! ### receiver -/

/-- `Belongs`: both are fragments with the same ID, Job and group -/
def belongs (a b : Pkt) : Bool :=
  a.flags ≥ Flag.flagFrag && b.flags ≥ Flag.flagFrag && a.id = b.id && a.job = b.job &&
    Flag.group a.flags = Flag.group b.flags

structure Cluster where
  data : List Pkt      -- non-empty fragments in arrival order
  max : Nat            -- `Len - 1` of the latest fragment (uint16)
  e : Nat              -- empty fragments seen (uint16)
  c : Nat              -- sweep counter
  deriving Repr, DecidableEq

def Cluster.new : Cluster := { data := [], max := 0, e := 0, c := 0 }

/-- `cluster.add(p)`; `none` = the "packet ID does not match" error -/
def Cluster.add (c : Cluster) (p : Pkt) : Option Cluster :=
  match c.data with
  | d0 :: _ => if ¬ belongs d0 p then none else
      let mx := (Flag.len p.flags + 2^16 - 1) % 2^16
      if p.payload.isEmpty then some { c with c := Facts.fragMaxMisses, max := mx, e := (c.e + 1) % 2^16 }
      else some { c with c := Facts.fragMaxMisses, max := mx, data := c.data ++ [p] }
  | [] =>
      let mx := (Flag.len p.flags + 2^16 - 1) % 2^16
      if p.payload.isEmpty then some { c with c := Facts.fragMaxMisses, max := mx, e := (c.e + 1) % 2^16 }
      else some { c with c := Facts.fragMaxMisses, max := mx, data := c.data ++ [p] }

/-- insertion sort by position — stands for `sort.Sort(c)` (any sorting algorithm yields the same
list when the positions are pairwise distinct; see `Props.C02`) -/
def insertByPos (p : Pkt) : List Pkt → List Pkt
  | [] => [p]
  | q :: qs => if Flag.position p.flags ≤ Flag.position q.flags then p :: q :: qs else q :: insertByPos p qs
def sortByPos : List Pkt → List Pkt
  | [] => []
  | p :: ps => insertByPos p (sortByPos ps)

/-- `n.Add(x)`: append the payload, OR in the 16 flag bits -/
def addTo (n x : Pkt) : Pkt :=
  if x.payload.isEmpty then n
  else { n with payload := n.payload ++ x.payload, flags := n.flags ||| Flag.bits x.flags }

/-- `cluster.done()` (with the repaired completion test `len(data) + e > max`) -/
def Cluster.done (c : Cluster) : Option Pkt :=
  match c.data with
  | [] => none
  | _ =>
    if (c.data.length % 2^16 + c.e) % 2^16 > c.max then
      match sortByPos c.data with
      | [] => none
      | n :: rest =>
        let n := rest.foldl addTo n
        some { n with flags := Flag.clear n.flags }
    else none

abbrev Frags := List (Nat × Cluster)

def Frags.find (fs : Frags) (g : Nat) : Option Cluster := (fs.find? (·.1 = g)).map (·.2)
def Frags.set (fs : Frags) (g : Nat) (c : Cluster) : Frags :=
  if fs.any (·.1 = g) then fs.map (fun kv => if kv.1 = g then (g, c) else kv) else fs ++ [(g, c)]
def Frags.erase (fs : Frags) (g : Nat) : Frags := fs.filter (·.1 ≠ g)

inductive Out
  | deliver (p : Pkt)     -- handed on to `receive` again (→ handler)
  | stored                -- kept in the cluster
  | dropReply             -- unknown group with position > 0: `SvDrop` sent, fragment discarded
  | errCount              -- `ErrInvalidPacketCount`
  | errMismatch           -- `cluster.add` error
  | control               -- `SvDrop` / `SvRegister` carrying FlagFrag (sets the last-dropped group)
  deriving Repr, DecidableEq

/-- what the `FlagFrag` arm of `receive` does with the reassembly state of the fragment's own
group (`none` = no cluster for that group) -/
def recvGroup (c : Option Cluster) (n : Pkt) : Option Cluster × Out :=
  match c with
  | none =>
    if Flag.position n.flags > 0 then (none, .dropReply)
    else
      match Cluster.new.add n with
      | none => (some Cluster.new, .errMismatch)
      | some c =>
        match c.done with
        | some v => (none, .deliver v)
        | none => (some c, .stored)
  | some c0 =>
    match c0.add n with
    | none => (some c0, .errMismatch)
    | some c =>
      match c.done with
      | some v => (none, .deliver v)
      | none => (some c, .stored)

def Frags.put (fs : Frags) (g : Nat) : Option Cluster → Frags
  | none => fs.erase g
  | some c => fs.set g c

/-- the `FlagFrag` arm of `receive` -/
def recvFrag (fs : Frags) (n : Pkt) : Frags × Out :=
  if n.id.toNat = Facts.svDrop ∨ n.id.toNat = Facts.svRegister then (fs, .control)
  else if Flag.len n.flags = 0 then (fs, .errCount)
  else if Flag.len n.flags = 1 then (fs, .deliver { n with flags := Flag.clear n.flags })
  else
    let r := recvGroup (fs.find (Flag.group n.flags)) n
    (fs.put (Flag.group n.flags) r.1, r.2)

def recvAll (fs : Frags) : List Pkt → Frags × List Out
  | [] => (fs, [])
  | n :: ns =>
    let r := recvFrag fs n
    let rs := recvAll r.1 ns
    (rs.1, r.2 :: rs.2)

/-- `markSweepFrags` -/
def sweep (fs : Frags) : Frags :=
  (fs.map (fun kv => (kv.1, { kv.2 with c := (kv.2.c + 255) % 256 }))).filter (·.2.c ≠ 0)

end XMT.Frag
