import XMT.FragRecv
namespace XMT.Frag
open XMT XMT.Packet XMT.Flag

def posLe (a b : Pkt) : Prop := position a.flags ≤ position b.flags

theorem insertByPos_perm (q : Pkt) (l : List Pkt) : (insertByPos q l).Perm (q :: l) := by
  induction l with
  | nil => simp [insertByPos]
  | cons a l ih =>
    unfold insertByPos
    split
    · exact List.Perm.refl _
    · exact (List.Perm.cons a ih).trans (List.Perm.swap q a l)

theorem sortByPos_perm (l : List Pkt) : (sortByPos l).Perm l := by
  induction l with
  | nil => exact List.Perm.refl _
  | cons a l ih => exact (insertByPos_perm a _).trans (List.Perm.cons a ih)

theorem insertByPos_sorted (q : Pkt) (l : List Pkt) (h : l.Pairwise posLe) :
    (insertByPos q l).Pairwise posLe := by
  induction l with
  | nil => simp [insertByPos]
  | cons a l ih =>
    unfold insertByPos
    split
    · rename_i hle
      refine List.Pairwise.cons ?_ h
      intro b hb
      rcases List.mem_cons.mp hb with rfl | hb
      · exact hle
      · exact Nat.le_trans hle (List.rel_of_pairwise_cons h hb)
    · rename_i hle
      have h' := List.pairwise_cons.mp h
      refine List.Pairwise.cons ?_ (ih h'.2)
      intro b hb
      have := (insertByPos_perm q l).subset hb
      rcases List.mem_cons.mp this with rfl | hb'
      · show position a.flags ≤ position b.flags; omega
      · exact h'.1 b hb'

theorem sortByPos_sorted (l : List Pkt) : (sortByPos l).Pairwise posLe := by
  induction l with
  | nil => exact List.Pairwise.nil
  | cons a l ih => exact insertByPos_sorted a _ ih

theorem or_bits_self (x : Nat) : x ||| (x % 2^16) = x := by
  apply Nat.eq_of_testBit_eq
  intro i
  rw [Nat.testBit_or, Nat.testBit_mod_two_pow]
  cases x.testBit i <;> simp

theorem flatten_filter_ne (l : List Bytes) : (l.filter (fun b => !b.isEmpty)).flatten = l.flatten := by
  induction l with
  | nil => rfl
  | cons a l ih =>
    cases a with
    | nil => simp [List.filter_cons, ih]
    | cons x xs => simp [List.filter_cons, ih]

/-- folding `Add` over non-empty fragments that all carry the flag bits of `n` -/
theorem foldl_addTo (xs : List Pkt) (n : Pkt) (hne : ∀ x ∈ xs, x.payload.isEmpty = false)
    (hb : ∀ x ∈ xs, n.flags ||| bits x.flags = n.flags) :
    (xs.foldl addTo n).payload = n.payload ++ (xs.map (·.payload)).flatten ∧
    (xs.foldl addTo n).flags = n.flags ∧ (xs.foldl addTo n).id = n.id ∧
    (xs.foldl addTo n).job = n.job ∧ (xs.foldl addTo n).dev = n.dev ∧
    (xs.foldl addTo n).tags = n.tags := by
  induction xs generalizing n with
  | nil => simp
  | cons x xs ih =>
    have hx := hne x List.mem_cons_self
    have hbx := hb x List.mem_cons_self
    have hstep : addTo n x = { n with payload := n.payload ++ x.payload, flags := n.flags } := by
      unfold addTo; rw [hx]; simp only [Bool.false_eq_true, if_false]; rw [hbx]
    simp only [List.foldl_cons, hstep]
    obtain ⟨h1, h2, h3, h4, h5, h6⟩ := ih { n with payload := n.payload ++ x.payload, flags := n.flags }
      (fun y hy => hne y (List.mem_cons_of_mem _ hy)) (fun y hy => hb y (List.mem_cons_of_mem _ hy))
    refine ⟨?_, h2, h3, h4, h5, h6⟩
    rw [h1]; simp [List.append_assoc]

end XMT.Frag
