import XMT.FragRecv
namespace XMT.Frag
open XMT XMT.Packet XMT.Flag

def posLe (a b : Pkt) : Prop := position a.flags ≤ position b.flags

theorem insertByPos_perm (q : Pkt) (l : List Pkt) : (insertByPos q l).Perm (q :: l) := by
  induction l with
  | nil => simp [insertByPos]
  | cons a l ih =>
    unfold insertByPos
    split
    · exact List.Perm.refl _
    · exact (List.Perm.cons a ih).trans (List.Perm.swap q a l)

theorem sortByPos_perm (l : List Pkt) : (sortByPos l).Perm l := by
  induction l with
  | nil => exact List.Perm.refl _
  | cons a l ih => exact (insertByPos_perm a _).trans (List.Perm.cons a ih)

theorem insertByPos_sorted (q : Pkt) (l : List Pkt) (h : l.Pairwise posLe) :
    (insertByPos q l).Pairwise posLe := by
  induction l with
  | nil => simp [insertByPos]
  | cons a l ih =>
    unfold insertByPos
    split
    · rename_i hle
      refine List.Pairwise.cons ?_ h
      intro b hb
      rcases List.mem_cons.mp hb with rfl | hb
      · exact hle
      · exact Nat.le_trans hle (List.rel_of_pairwise_cons h hb)
    · rename_i hle
      have h' := List.pairwise_cons.mp h
      refine List.Pairwise.cons ?_ (ih h'.2)
      intro b hb
      have := (insertByPos_perm q l).subset hb
      rcases List.mem_cons.mp this with rfl | hb'
      · show position a.flags ≤ position b.flags; omega
      · exact h'.1 b hb'

theorem sortByPos_sorted (l : List Pkt) : (sortByPos l).Pairwise posLe := by
  induction l with
  | nil => exact List.Pairwise.nil
  | cons a l ih => exact insertByPos_sorted a _ ih

theorem or_bits_self (x : Nat) : x ||| (x % 2^16) = x := by
  apply Nat.eq_of_testBit_eq
  intro i
  rw [Nat.testBit_or, Nat.testBit_mod_two_pow]
  cases x.testBit i <;> simp

theorem flatten_filter_ne (l : List Bytes) : (l.filter (fun b => !b.isEmpty)).flatten = l.flatten := by
  induction l with
  | nil => rfl
  | cons a l ih =>
    cases a with
    | nil => simp [List.filter_cons, ih]
    | cons x xs => simp [List.filter_cons, ih]

/-- folding `Add` over non-empty fragments that all carry the flag bits of `n` -/
theorem foldl_addTo (xs : List Pkt) (n : Pkt) (hne : ∀ x ∈ xs, x.payload.isEmpty = false)
    (hb : ∀ x ∈ xs, n.flags ||| bits x.flags = n.flags) :
    (xs.foldl addTo n).payload = n.payload ++ (xs.map (·.payload)).flatten ∧
    (xs.foldl addTo n).flags = n.flags ∧ (xs.foldl addTo n).id = n.id ∧
    (xs.foldl addTo n).job = n.job ∧ (xs.foldl addTo n).dev = n.dev ∧
    (xs.foldl addTo n).tags = n.tags := by
  induction xs generalizing n with
  | nil => simp
  | cons x xs ih =>
    have hx := hne x List.mem_cons_self
    have hbx := hb x List.mem_cons_self
    have hstep : addTo n x = { n with payload := n.payload ++ x.payload, flags := n.flags } := by
      unfold addTo; rw [hx]; simp only [Bool.false_eq_true, if_false]; rw [hbx]
    simp only [List.foldl_cons, hstep]
    obtain ⟨h1, h2, h3, h4, h5, h6⟩ := ih { n with payload := n.payload ++ x.payload, flags := n.flags }
      (fun y hy => hne y (List.mem_cons_of_mem _ hy)) (fun y hy => hb y (List.mem_cons_of_mem _ hy))
    refine ⟨?_, h2, h3, h4, h5, h6⟩
    rw [h1]; simp [List.append_assoc]

end XMT.Frag

namespace XMT.Frag
open XMT XMT.Packet XMT.Flag

section
variable {F : Nat} {p : Pkt} {g m : Nat} (C : Ctx F p g m)
include C

/-- indices whose fragment carries payload -/
def neIdx (F : Nat) (p : Pkt) (i : Nat) : Bool := !(win F p i).isEmpty

omit C in
theorem nonEmpty_fr (i : Nat) : nonEmpty (fr F p g m i) = neIdx F p i := rfl

omit C in
theorem filter_map_fr (I : List Nat) :
    (I.map (fr F p g m)).filter nonEmpty = (I.filter (neIdx F p)).map (fr F p g m) := by
  rw [List.filter_map]; rfl

theorem range_filter_head : ∃ K', (List.range m).filter (neIdx F p) = 0 :: K' := by
  have hm2 := C.m2
  have h0 : neIdx F p 0 = true := by
    have := win0_ne C
    unfold neIdx
    cases h : win F p 0 with
    | nil => exact absurd h this
    | cons _ _ => rfl
  obtain ⟨k, hk⟩ : ∃ k, m = k + 1 := ⟨m - 1, by omega⟩
  rw [hk, List.range_succ_eq_map, List.filter_cons_of_pos h0]
  exact ⟨_, rfl⟩

/-- the stored (non-empty) fragments, sorted, are the non-empty fragments in position order —
whatever the arrival order was -/
theorem sort_arrivals (I : List Nat) (hI : I.Perm (List.range m)) :
    sortByPos ((I.map (fr F p g m)).filter nonEmpty) =
      ((List.range m).filter (neIdx F p)).map (fr F p g m) := by
  rw [filter_map_fr]
  have hperm : ((I.filter (neIdx F p)).map (fr F p g m)).Perm
      (((List.range m).filter (neIdx F p)).map (fr F p g m)) := (hI.filter _).map _
  have hmem : ∀ q ∈ ((List.range m).filter (neIdx F p)).map (fr F p g m),
      ∃ i, i < m ∧ q = fr F p g m i := by
    intro q hq
    obtain ⟨i, hi, rfl⟩ := List.mem_map.mp hq
    exact ⟨i, List.mem_range.mp (List.mem_filter.mp hi).1, rfl⟩
  apply List.Perm.eq_of_pairwise (le := posLe)
  · -- antisymmetry on the elements: fragments with equal positions are equal
    intro a b ha hb hab hba
    have ha' := ((sortByPos_perm _).trans hperm).subset ha
    obtain ⟨i, hi, rfl⟩ := hmem a ha'
    obtain ⟨j, hj, rfl⟩ := hmem b hb
    obtain ⟨_, _, pi, _, _⟩ := fr_flags C i hi
    obtain ⟨_, _, pj, _, _⟩ := fr_flags C j hj
    unfold posLe at hab hba
    rw [pi, pj] at hab hba
    have : i = j := by omega
    rw [this]
  · exact sortByPos_sorted _
  · -- the target list is sorted: `range m` is, and position (fr i) = i
    rw [List.pairwise_map]
    have hr : (List.range m).Pairwise (· < ·) := List.pairwise_lt_range
    have hf := hr.filter (neIdx F p)
    have hmemf : ∀ i ∈ (List.range m).filter (neIdx F p), i < m := fun i hi =>
      List.mem_range.mp (List.mem_filter.mp hi).1
    refine List.Pairwise.imp_of_mem ?_ hf
    intro i j hi hj hij
    obtain ⟨_, _, pi, _, _⟩ := fr_flags C i (hmemf i hi)
    obtain ⟨_, _, pj, _, _⟩ := fr_flags C j (hmemf j hj)
    unfold posLe
    rw [pi, pj]; omega
  · exact (sortByPos_perm _).trans hperm

/-- **the reassembled packet is the original** (tags are not carried by fragments) -/
theorem assemble_perm (I : List Nat) (hI : I.Perm (List.range m)) :
    assemble (I.map (fr F p g m)) = some { p with tags := [] } := by
  have hsort := sort_arrivals C I hI
  obtain ⟨K', hK⟩ := range_filter_head C
  have hm2 := C.m2
  unfold assemble
  rw [hsort, hK, List.map_cons]
  simp only
  -- facts about the sorted non-empty fragments
  have hK'mem : ∀ i ∈ K', i < m ∧ neIdx F p i = true := by
    intro i hi
    have : i ∈ (List.range m).filter (neIdx F p) := by rw [hK]; exact List.mem_cons_of_mem _ hi
    exact ⟨List.mem_range.mp (List.mem_filter.mp this).1, (List.mem_filter.mp this).2⟩
  obtain ⟨_, _, _, b0, _⟩ := fr_flags C 0 (by omega)
  have hfold := foldl_addTo (K'.map (fr F p g m)) (fr F p g m 0)
    (by
      intro x hx
      obtain ⟨i, hi, rfl⟩ := List.mem_map.mp hx
      have := (hK'mem i hi).2
      simpa [neIdx, fr, mkFrag] using this)
    (by
      intro x hx
      obtain ⟨i, hi, rfl⟩ := List.mem_map.mp hx
      obtain ⟨_, _, _, bi, _⟩ := fr_flags C i (hK'mem i hi).1
      rw [bi, ← b0]
      exact or_bits_self _)
  obtain ⟨h1, h2, h3, h4, h5, h6⟩ := hfold
  -- payload: the windows of the non-empty fragments concatenate to the payload
  have hpay : (fr F p g m 0).payload ++ ((K'.map (fr F p g m)).map (·.payload)).flatten = p.payload := by
    have e1 : (fr F p g m 0).payload ++ ((K'.map (fr F p g m)).map (·.payload)).flatten
        = (((0 :: K').map (win F p))).flatten := by
      simp [List.map_map, Function.comp_def, fr, mkFrag]
    rw [e1, ← hK]
    have e2 : ((List.range m).filter (neIdx F p)).map (win F p)
        = ((List.range m).map (win F p)).filter (fun b => !b.isEmpty) := by
      rw [List.filter_map]; rfl
    rw [e2, flatten_filter_ne]
    have := windows_flatten F p.payload m
    unfold win
    rw [this, List.take_of_length_le]
    rw [C.hm]; exact fragCount_covers F C.hF p
  -- flags: FlagFrag set by the setters, cleared again
  have hflags : Flag.clear (fr F p g m 0).flags = p.flags := by
    unfold Flag.clear
    show bits (fr F p g m 0).flags ^^^ flagFrag = p.flags
    rw [b0]
    have := C.flEven
    rw [show flagFrag = 1 from rfl, xor_one_of_odd _ (by omega)]
    omega
  congr 1
  cases p with
  | mk id job flags tags dev payload =>
    simp only [Packet.Packet.mk.injEq]
    simp only at h1 h2 h3 h4 h5 h6 hpay hflags
    refine ⟨h3, h4, ?_, h6, h5, ?_⟩
    · rw [h2]; exact hflags
    · rw [h1]; exact hpay

end
end XMT.Frag
