/-
  XMT.FragDup — arrival sequences that REPEAT a fragment (round s3, property C02).

  The reassembly model is the unchanged one of XMT/Frag.lean (`cluster.add` appends / counts every
  fragment that `Belongs`, `cluster.done` tests `len(data) + e > max`).  Nothing in `add` looks at the
  position of the fragment, so a repetition is stored and counted like a new fragment:
    * the group completes at exactly the m-th arrival, whatever the positions were
      (`feed_any_positions`, from `feed_rest`, which never needed distinct positions);
    * what is handed on is `assemble` of what was collected — with a repetition among the first m
      arrivals there is a hole, and the packet that reaches the handler is NOT the original
      (`dupWitness_*`, a concrete 3-fragment packet, kernel-checked by `decide`);
    * the fragment that was still missing then arrives for a group without state and is answered
      with `SvDrop` (`late_positions_dropped`).
  The sender side never produces a repetition (`split_positions`): the positions of the fragments
  `Session.write` queues are 0, 1, …, m-1, each once.
-/
import XMT.FragMap
namespace XMT.Frag
open XMT XMT.Packet XMT.Flag

section
variable {F : Nat} {p : Pkt} {g m : Nat} (C : Ctx F p g m)
include C

/-- **Completion is by count, not by position**: fragment 0 first, then ANY `m-1` fragments of the
group (positions `< m`, repetitions allowed): the first `m-1` arrivals are stored, the `m`-th hands
on `assemble` of what was collected, and the reassembly state is released. -/
theorem feed_any_positions (R : List Nat) (hRm : ∀ i ∈ R, i < m) (hlen : R.length + 1 = m) :
    ∃ v, assemble ((0 :: R).map (fr F p g m)) = some v ∧
      feedGroup none ((0 :: R).map (fr F p g m)) =
        (none, List.replicate (m - 1) Out.stored ++ [.deliver v]) := by
  have hm2 := C.m2
  have hgood : Good F p g m [fr F p g m 0] := ⟨⟨[], rfl⟩, fun f hf => ⟨0, by omega, by simpa using hf⟩⟩
  have hRne : R ≠ [] := by intro h; subst h; simp at hlen; omega
  obtain ⟨h1, _⟩ := feed_rest C R [fr F p g m 0] hgood hRm (by simp; omega) (by left; simp; omega)
  obtain ⟨v, hv, hf⟩ := h1 (by simp; omega) hRne
  refine ⟨v, by simpa using hv, ?_⟩
  simp only [List.map_cons, feedGroup, recv_first C, hf]
  congr 1
  have : m - 1 = (R.length - 1) + 1 := by omega
  rw [this, List.replicate_succ]; rfl

/-- fragments with a position above 0 that arrive for a group without reassembly state (after the
group completed, was swept, or never started) are each answered with `SvDrop`; no state is made. -/
theorem late_positions_dropped (L : List Nat) (hL : ∀ i ∈ L, 0 < i ∧ i < m) :
    feedGroup none (L.map (fr F p g m)) = (none, List.replicate L.length Out.dropReply) := by
  induction L with
  | nil => rfl
  | cons i L ih =>
    have hi := hL i List.mem_cons_self
    have ih' := ih (fun j hj => hL j (List.mem_cons_of_mem _ hj))
    obtain ⟨_, _, pi, _, _⟩ := fr_flags C i hi.2
    have h1 : recvGroup none (fr F p g m i) = (none, .dropReply) := by
      unfold recvGroup
      simp only [pi]
      rw [if_pos hi.1]
    simp only [List.map_cons, feedGroup, h1, ih', List.length_cons, List.replicate_succ]

/-- a repetition of fragment 0 that arrives after the group completed (or was swept) starts a NEW
cluster: it is stored and stays until `markSweepFrags` removes it. -/
theorem late_zero_restarts :
    feedGroup none [fr F p g m 0] = (some (St m [fr F p g m 0]), [Out.stored]) := by
  simp only [feedGroup, recv_first C]

/-- the positions of the fragments of one group, as the sender makes them: `0, 1, …, m-1`, each
exactly once and in this order — `Session.write` never queues the same fragment twice. -/
theorem split_positions :
    (split F p g).map (fun f => position f.flags) = List.range m := by
  rw [split_eq_fr, ← C.hm, List.map_map]
  apply List.ext_getElem
  · simp
  · intro i h1 h2
    simp only [List.length_map, List.length_range] at h1
    simp only [List.getElem_map, List.getElem_range, Function.comp]
    exact (fr_flags C i h1).2.2.1

end

/-- feeding two lists one after the other -/
theorem feedGroup_append (c : Option Cluster) (A B : List Pkt) :
    feedGroup c (A ++ B) =
      ((feedGroup (feedGroup c A).1 B).1, (feedGroup c A).2 ++ (feedGroup (feedGroup c A).1 B).2) := by
  induction A generalizing c with
  | nil => simp [feedGroup]
  | cons a A ih => simp only [List.cons_append, feedGroup, ih]

/-! ### the concrete witness (F = 4, payload of 10 bytes ⇒ Size() = 57 ⇒ 15 fragments, 3 of them
non-empty: positions 0, 1, 2; positions 3 … 14 are the empty trailing fragments) -/

def dupDemo : Pkt := { id := 0x20, job := 77, flags := 0, tags := [],
                       dev := 1 :: List.replicate 31 0, payload := [1,2,3,4,5,6,7,8,9,10] }

/-- arrival order `0, 1, 1, 3, 4, …, 14, 2`: fragment 1 arrives twice while fragment 2 is still on
its way; all 15 fragments do arrive. -/
def dupArrivals : List Nat := [0, 1, 1] ++ (List.range 15).drop 3 ++ [2]

end XMT.Frag
