/-
  XMT.FragHostile — the fragment dispatcher (c2/vars.go receive, FlagFrag arm; c2/types.go
  cluster.add / cluster.done) as a hostile peer drives it: ANY sequence of fragment packets, not
  only those a sender's `write` produces.  The index expressions of the Go code (`c.data[0]` in
  `add`, `c.data[0]` after the sort in `done`) are evaluated as Go does: on an empty slice they are
  a run-time panic, a value of the result type here.  `XMT.Frag` (validated against the code for
  C02) is the panic-free reading of the same functions; the theorems of this file show the two
  coincide, i.e. that no reachable index expression is out of range, and bound the state kept.
-/
import XMT.Frag
import XMT.FragRecv

namespace XMT.FragHostile
open XMT XMT.Frag

inductive R (α : Type)
  | ok (a : α)
  | panic
  deriving Repr, DecidableEq

/-- Go `c.data[0]` -/
def idx0 (l : List Pkt) : R Pkt :=
  match l with
  | [] => .panic
  | x :: _ => .ok x

/-- the part of `cluster.add` after the `Belongs` test -/
def store (c : Cluster) (p : Pkt) : Cluster :=
  let mx := (Flag.len p.flags + 2^16 - 1) % 2^16
  if p.payload.isEmpty then { c with c := Facts.fragMaxMisses, max := mx, e := (c.e + 1) % 2^16 }
  else { c with c := Facts.fragMaxMisses, max := mx, data := c.data ++ [p] }

/-- `cluster.add(p)`: `if len(c.data) > 0 && !c.data[0].Belongs(p) { return err }` -/
def addP (c : Cluster) (p : Pkt) : R (Option Cluster) :=
  if c.data.length > 0 then
    match idx0 c.data with
    | .panic => .panic
    | .ok d0 => if ¬ belongs d0 p then .ok none else .ok (some (store c p))
  else .ok (some (store c p))

/-- `cluster.done()`: `if len(c.data) == 0 { return nil }`, then the completion test, then
`sort.Sort(c); n := c.data[0]; for x := 1; x < len(c.data); x++ { n.Add(c.data[x]) }` -/
def doneP (c : Cluster) : R (Option Pkt) :=
  if c.data.length = 0 then .ok none
  else if (c.data.length % 2^16 + c.e) % 2^16 > c.max then
    match idx0 (sortByPos c.data) with
    | .panic => .panic
    | .ok n =>
      let n := ((sortByPos c.data).drop 1).foldl addTo n
      .ok (some { n with flags := Flag.clear n.flags })
  else .ok none

/-- the per-group part of the `FlagFrag` arm of `receive` -/
def recvGroupP (c : Option Cluster) (n : Pkt) : R (Option Cluster × Out) :=
  match c with
  | none =>
    if Flag.position n.flags > 0 then .ok (none, .dropReply)
    else
      match addP Cluster.new n with
      | .panic => .panic
      | .ok none => .ok (some Cluster.new, .errMismatch)
      | .ok (some c) =>
        match doneP c with
        | .panic => .panic
        | .ok (some v) => .ok (none, .deliver v)
        | .ok none => .ok (some c, .stored)
  | some c0 =>
    match addP c0 n with
    | .panic => .panic
    | .ok none => .ok (some c0, .errMismatch)
    | .ok (some c) =>
      match doneP c with
      | .panic => .panic
      | .ok (some v) => .ok (none, .deliver v)
      | .ok none => .ok (some c, .stored)

def recvFragP (fs : Frags) (n : Pkt) : R (Frags × Out) :=
  if n.id.toNat = Facts.svDrop ∨ n.id.toNat = Facts.svRegister then .ok (fs, .control)
  else if Flag.len n.flags = 0 then .ok (fs, .errCount)
  else if Flag.len n.flags = 1 then .ok (fs, .deliver { n with flags := Flag.clear n.flags })
  else
    match recvGroupP (fs.find (Flag.group n.flags)) n with
    | .panic => .panic
    | .ok r => .ok (fs.put (Flag.group n.flags) r.1, r.2)

/-- a whole connection history: the fragments a peer sends, one after the other -/
def recvAllP (fs : Frags) : List Pkt → R (Frags × List Out)
  | [] => .ok (fs, [])
  | n :: ns =>
    match recvFragP fs n with
    | .panic => .panic
    | .ok r =>
      match recvAllP r.1 ns with
      | .panic => .panic
      | .ok rs => .ok (rs.1, r.2 :: rs.2)

/-! ### the code as seeded change C04-1 had it (kept as the witness that the panic value is reachable
in this model when the emptiness guard is folded into the count test) -/

def doneFolded (c : Cluster) : R (Option Pkt) :=
  let t := (c.data.length % 2^16 + c.e) % 2^16
  if t = 0 ∨ t ≤ c.max then .ok none
  else
    match idx0 (sortByPos c.data) with
    | .panic => .panic
    | .ok n =>
      let n := ((sortByPos c.data).drop 1).foldl addTo n
      .ok (some { n with flags := Flag.clear n.flags })

/-! ### no index expression is out of range -/

theorem store_eq_add_nil (c : Cluster) (p : Pkt) (h : c.data = []) : c.add p = some (store c p) := by
  unfold Cluster.add store
  rw [h]
  by_cases he : p.payload.isEmpty = true <;> simp [he]

theorem addP_ok (c : Cluster) (p : Pkt) : addP c p = .ok (c.add p) := by
  unfold addP
  cases hd : c.data with
  | nil =>
    simp only [List.length_nil, Nat.lt_irrefl, if_false]
    rw [store_eq_add_nil c p hd]
  | cons d0 ds =>
    simp only [List.length_cons, Nat.zero_lt_succ, if_true, idx0]
    unfold Cluster.add store
    rw [hd]
    by_cases hb : belongs d0 p = true
    · by_cases he : p.payload.isEmpty = true <;> simp [hb, he]
    · simp [hb]

theorem doneP_ok (c : Cluster) : doneP c = .ok c.done := by
  unfold doneP
  cases hd : c.data with
  | nil => simp [Cluster.done, hd]
  | cons d0 ds =>
    have hne : c.data ≠ [] := by rw [hd]; exact List.cons_ne_nil _ _
    have hs := sortByPos_ne c.data hne
    rw [hd] at hs
    unfold Cluster.done
    rw [hd]
    simp only [List.length_cons, Nat.succ_ne_zero, if_false]
    cases hsort : sortByPos (d0 :: ds) with
    | nil => exact absurd hsort hs
    | cons n rest =>
      simp only [idx0, List.drop_succ_cons, List.drop_zero]
      split <;> rfl

theorem recvGroupP_ok (c : Option Cluster) (n : Pkt) : recvGroupP c n = .ok (recvGroup c n) := by
  unfold recvGroupP recvGroup
  cases c with
  | none =>
    simp only
    split
    · rfl
    · rw [addP_ok]
      cases ha : Cluster.new.add n with
      | none => rfl
      | some c1 =>
        simp only
        rw [doneP_ok]
        cases c1.done <;> rfl
  | some c0 =>
    simp only
    rw [addP_ok]
    cases ha : c0.add n with
    | none => rfl
    | some c1 =>
      simp only
      rw [doneP_ok]
      cases c1.done <;> rfl

theorem recvFragP_ok (fs : Frags) (n : Pkt) : recvFragP fs n = .ok (recvFrag fs n) := by
  unfold recvFragP recvFrag
  split
  · rfl
  · split
    · rfl
    · split
      · rfl
      · rw [recvGroupP_ok]

theorem recvAllP_ok : ∀ (ns : List Pkt) (fs : Frags), recvAllP fs ns = .ok (recvAll fs ns)
  | [], fs => rfl
  | n :: ns, fs => by
    unfold recvAllP recvAll
    rw [recvFragP_ok]
    simp only
    rw [recvAllP_ok ns]

/-! ### the state kept is bounded by what was received -/

/-- fragments held in reassembly state -/
def held (fs : Frags) : Nat := (fs.map (fun kv => kv.2.data.length)).sum

theorem held_erase_le (fs : Frags) (g : Nat) : held (fs.erase g) ≤ held fs := by
  unfold held Frags.erase
  induction fs with
  | nil => simp
  | cons kv fs ih =>
    simp only [List.filter_cons]
    split
    · simp only [List.map_cons, List.sum_cons]; omega
    · simp only [List.map_cons, List.sum_cons]; omega


def keys (fs : Frags) : List Nat := fs.map (·.1)

/-- fragments held for group `g` -/
def heldAt (fs : Frags) (g : Nat) : Nat := ((fs.find g).map (·.data.length)).getD 0

theorem find_none_of_noKey (fs : Frags) (g : Nat) (h : ∀ kv ∈ fs, kv.1 ≠ g) : fs.find g = none := by
  unfold Frags.find
  induction fs with
  | nil => rfl
  | cons kv fs ih =>
    have h0 := h kv List.mem_cons_self
    simp only [List.find?_cons, h0, decide_false]
    exact ih (fun kv' hm => h kv' (List.mem_cons_of_mem _ hm))

theorem map_noKey (fs : Frags) (g : Nat) (c : Cluster) (h : ∀ kv ∈ fs, kv.1 ≠ g) :
    fs.map (fun kv => if kv.1 = g then (g, c) else kv) = fs := by
  induction fs with
  | nil => rfl
  | cons kv fs ih =>
    have h0 := h kv List.mem_cons_self
    simp only [List.map_cons, h0, if_false]
    rw [ih (fun kv' hm => h kv' (List.mem_cons_of_mem _ hm))]

theorem any_false_noKey (fs : Frags) (g : Nat) (h : fs.any (·.1 = g) = false) : ∀ kv ∈ fs, kv.1 ≠ g := by
  intro kv hm hk
  have : fs.any (·.1 = g) = true := List.any_eq_true.mpr ⟨kv, hm, by simpa using hk⟩
  rw [h] at this
  exact Bool.noConfusion this

theorem held_append (a b : Frags) : held (a ++ b) = held a + held b := by
  unfold held; simp [List.sum_append]

/-- replacing the entry of `g` changes the count by exactly the difference for that group -/
theorem held_set (fs : Frags) (g : Nat) (c : Cluster) (hn : (keys fs).Nodup) :
    held (fs.set g c) + heldAt fs g = held fs + c.data.length := by
  unfold Frags.set
  cases ha : fs.any (·.1 = g) with
  | false =>
    have hk := any_false_noKey fs g ha
    simp only [Bool.false_eq_true, if_false]
    rw [held_append]
    unfold heldAt
    rw [find_none_of_noKey fs g hk]
    simp [held]
  | true =>
    simp only [if_true]
    have hex : ∃ kv ∈ fs, kv.1 = g := by
      obtain ⟨kv, hm, hk⟩ := List.any_eq_true.mp ha
      exact ⟨kv, hm, by simpa using hk⟩
    clear ha
    induction fs with
    | nil => obtain ⟨kv, hm, _⟩ := hex; cases hm
    | cons kv fs ih =>
      have hn' : (keys fs).Nodup := by
        unfold keys at hn ⊢; exact (List.nodup_cons.mp hn).2
      by_cases hk : kv.1 = g
      · have hno : ∀ kv' ∈ fs, kv'.1 ≠ g := by
          intro kv' hm he
          have : kv.1 ∈ keys fs := by
            unfold keys; rw [hk, ← he]; exact List.mem_map_of_mem hm
          unfold keys at hn
          exact (List.nodup_cons.mp hn).1 this
        simp only [List.map_cons, hk, if_true]
        rw [map_noKey fs g c hno]
        unfold heldAt Frags.find
        simp only [List.find?_cons, hk, decide_true, Option.map_some, Option.getD_some]
        unfold held
        simp only [List.map_cons, List.sum_cons]
        omega
      · simp only [List.map_cons, hk, if_false]
        have hex' : ∃ kv' ∈ fs, kv'.1 = g := by
          obtain ⟨kv', hm, he⟩ := hex
          cases hm with
          | head => exact absurd he hk
          | tail _ hm => exact ⟨kv', hm, he⟩
        have ih' := ih hn' hex'
        have hf : heldAt (kv :: fs) g = heldAt fs g := by
          unfold heldAt Frags.find
          simp only [List.find?_cons, hk, decide_false]
        rw [hf]
        unfold held at ih' ⊢
        simp only [List.map_cons, List.sum_cons]
        omega

theorem heldAt_le (fs : Frags) (g : Nat) : heldAt fs g ≤ held fs := by
  unfold heldAt Frags.find held
  induction fs with
  | nil => simp
  | cons kv fs ih =>
    simp only [List.find?_cons]
    by_cases hk : kv.1 = g
    · simp only [hk, decide_true, Option.map_some, Option.getD_some, List.map_cons, List.sum_cons]; omega
    · simp only [hk, decide_false, List.map_cons, List.sum_cons]; omega

theorem keys_set_nodup (fs : Frags) (g : Nat) (c : Cluster) (hn : (keys fs).Nodup) : (keys (fs.set g c)).Nodup := by
  unfold Frags.set
  cases ha : fs.any (·.1 = g) with
  | false =>
    have hk := any_false_noKey fs g ha
    simp only [Bool.false_eq_true, if_false]
    unfold keys at hn ⊢
    rw [List.map_append]
    refine List.nodup_append.mpr ⟨hn, by simp, ?_⟩
    intro a ha' b hb
    simp only [List.map_cons, List.map_nil, List.mem_singleton] at hb
    obtain ⟨kv, hm, rfl⟩ := List.mem_map.mp ha'
    rw [hb]
    exact hk kv hm
  | true =>
    simp only [if_true]
    have : keys (fs.map (fun kv => if kv.1 = g then (g, c) else kv)) = keys fs := by
      unfold keys
      rw [List.map_map]
      apply List.map_congr_left
      intro kv _
      simp only [Function.comp]
      split
      · rename_i h; exact h.symm
      · rfl
    rw [this]; exact hn

theorem keys_erase_nodup (fs : Frags) (g : Nat) (hn : (keys fs).Nodup) : (keys (fs.erase g)).Nodup := by
  unfold keys Frags.erase at *
  exact (List.filter_sublist.map _).nodup hn

theorem keys_put_nodup (fs : Frags) (g : Nat) (c : Option Cluster) (hn : (keys fs).Nodup) :
    (keys (fs.put g c)).Nodup := by
  cases c with
  | none => exact keys_erase_nodup fs g hn
  | some c => exact keys_set_nodup fs g c hn

theorem store_len (c : Cluster) (p : Pkt) : (store c p).data.length ≤ c.data.length + 1 := by
  unfold store
  by_cases he : p.payload.isEmpty = true <;> simp [he]

theorem add_len (c c' : Cluster) (p : Pkt) (h : c.add p = some c') : c'.data.length ≤ c.data.length + 1 := by
  have h1 := addP_ok c p
  unfold addP at h1
  rw [h] at h1
  split at h1
  · split at h1
    · cases h1
    · split at h1
      · injection h1 with h1; cases h1
      · injection h1 with h1; injection h1 with h1; rw [← h1]; exact store_len c p
  · injection h1 with h1; injection h1 with h1; rw [← h1]; exact store_len c p

/-- the cluster a fragment leaves behind holds at most one fragment more than before -/
theorem recvGroup_len (c : Option Cluster) (n : Pkt) :
    (((recvGroup c n).1).map (·.data.length)).getD 0 ≤ ((c.map (·.data.length)).getD 0) + 1 := by
  unfold recvGroup
  cases c with
  | none =>
    simp only
    split
    · simp
    · cases ha : Cluster.new.add n with
      | none => simp [Cluster.new]
      | some c1 =>
        have := add_len _ _ _ ha
        simp only
        cases c1.done with
        | some v => simp
        | none => simpa [Cluster.new] using this
  | some c0 =>
    simp only
    cases ha : c0.add n with
    | none => simp
    | some c1 =>
      have := add_len _ _ _ ha
      simp only
      cases c1.done with
      | some v => simp
      | none => simpa using this

theorem held_put (fs : Frags) (g : Nat) (c : Option Cluster) (hn : (keys fs).Nodup) :
    held (fs.put g c) + heldAt fs g ≤ held fs + (c.map (·.data.length)).getD 0 := by
  cases c with
  | none =>
    -- erase: removing the group's entry
    have h1 := held_erase_le fs g
    simp only [Frags.put, Option.map_none, Option.getD_none, Nat.add_zero]
    -- sharper: held (erase) + heldAt = held
    have : held (fs.erase g) + heldAt fs g = held fs := by
      clear h1
      induction fs with
      | nil => simp [held, heldAt, Frags.find, Frags.erase]
      | cons kv fs ih =>
        have hn' : (keys fs).Nodup := by unfold keys at hn ⊢; exact (List.nodup_cons.mp hn).2
        by_cases hk : kv.1 = g
        · have hno : ∀ kv' ∈ fs, kv'.1 ≠ g := by
            intro kv' hm he
            have : kv.1 ∈ keys fs := by unfold keys; rw [hk, ← he]; exact List.mem_map_of_mem hm
            unfold keys at hn
            exact (List.nodup_cons.mp hn).1 this
          have hfe : Frags.erase (kv :: fs) g = fs := by
            unfold Frags.erase
            simp only [List.filter_cons, hk, ne_eq, not_true_eq_false, decide_false, Bool.false_eq_true, if_false]
            exact List.filter_eq_self.mpr (fun kv' hm => by simpa using hno kv' hm)
          rw [hfe]
          unfold heldAt Frags.find held
          simp only [List.find?_cons, hk, decide_true, Option.map_some, Option.getD_some, List.map_cons, List.sum_cons]
          omega
        · have hfe : Frags.erase (kv :: fs) g = kv :: Frags.erase fs g := by
            unfold Frags.erase
            simp only [List.filter_cons, ne_eq, hk, not_false_eq_true, decide_true, if_true]
          rw [hfe]
          have hf : heldAt (kv :: fs) g = heldAt fs g := by
            unfold heldAt Frags.find
            simp only [List.find?_cons, hk, decide_false]
          rw [hf]
          have := ih hn'
          unfold held at this ⊢
          simp only [List.map_cons, List.sum_cons]
          omega
    omega
  | some c =>
    have := held_set fs g c hn
    simp only [Frags.put, Option.map_some, Option.getD_some]
    omega

/-- one fragment: at most one more fragment held, keys stay distinct -/
theorem recvFrag_held (fs : Frags) (n : Pkt) (hn : (keys fs).Nodup) :
    held (recvFrag fs n).1 ≤ held fs + 1 ∧ (keys (recvFrag fs n).1).Nodup := by
  unfold recvFrag
  split
  · exact ⟨Nat.le_succ _, hn⟩
  · split
    · exact ⟨Nat.le_succ _, hn⟩
    · split
      · exact ⟨Nat.le_succ _, hn⟩
      · simp only
        refine ⟨?_, keys_put_nodup _ _ _ hn⟩
        have h1 := held_put fs (Flag.group n.flags) (recvGroup (fs.find (Flag.group n.flags)) n).1 hn
        have h2 := recvGroup_len (fs.find (Flag.group n.flags)) n
        have h3 : heldAt fs (Flag.group n.flags) = ((fs.find (Flag.group n.flags)).map (·.data.length)).getD 0 := rfl
        omega

theorem recvAll_held : ∀ (ns : List Pkt) (fs : Frags), (keys fs).Nodup →
    held (recvAll fs ns).1 ≤ held fs + ns.length
  | [], fs, _ => by simp [recvAll]
  | n :: ns, fs, hn => by
    unfold recvAll
    have h1 := recvFrag_held fs n hn
    have h2 := recvAll_held ns (recvFrag fs n).1 h1.2
    simp only [List.length_cons]
    omega

end XMT.FragHostile
