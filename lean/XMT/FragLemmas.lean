import XMT.Frag
import XMT.FlagLemmas
namespace XMT.Frag
open XMT XMT.Packet

/-- closed form of the carving loop: fragment `i + k` carries bytes `[k·F, (k+1)·F)` of what was
unread when the loop was at index `i` -/
theorem splitLoop_eq (F : Nat) (p : Pkt) (g m x : Nat) (hx : p.payload.length < x) :
    ∀ (fuel i : Nat) (rest : Bytes) (t : Nat), i + fuel = m → t + rest.length = p.payload.length →
      splitLoop F p g m x fuel i t rest =
        (List.range fuel).map (fun k => mkFrag p g m (i + k) ((rest.drop (k * F)).take F)) := by
  intro fuel
  induction fuel with
  | zero => intro i rest t _ _; simp [splitLoop]
  | succ fuel ih =>
    intro i rest t him ht
    have h1 : i < m := by omega
    have h2 : t < x := by omega
    have h3 : i + 1 + fuel = m := by omega
    have h4 : t + (rest.take F).length + (rest.drop F).length = p.payload.length := by
      rw [List.length_take, List.length_drop]; omega
    have hih := ih (i + 1) (rest.drop F) (t + (rest.take F).length) h3 h4
    have hstep : splitLoop F p g m x (fuel + 1) i t rest =
        mkFrag p g m i (rest.take F) ::
          splitLoop F p g m x fuel (i + 1) (t + (rest.take F).length) (rest.drop F) := by
      conv => lhs; unfold splitLoop
      exact if_pos ⟨h1, h2⟩
    rw [hstep, hih]
    rw [List.range_succ_eq_map, List.map_cons, List.map_map]
    refine List.cons_eq_cons.mpr ⟨?_, ?_⟩
    · rw [Nat.add_zero, Nat.zero_mul, List.drop_zero]
    · apply List.map_congr_left
      intro k _
      simp only [Function.comp]
      have e1 : i + 1 + k = i + (k + 1) := by omega
      have e2 : (rest.drop F).drop (k * F) = rest.drop ((k + 1) * F) := by
        rw [List.drop_drop, Nat.succ_mul, Nat.add_comm]
      rw [e1, e2]

/-- `Size()` always exceeds the payload length (there is a header) -/
theorem size_gt_payload (p : Pkt) (h : 0 < Facts.packetHeaderSize := by decide) :
    p.payload.length < Packet.size p := by
  unfold Packet.size
  split
  · rename_i he
    have : p.payload = [] := by simpa using he
    rw [this]; exact h
  · simp only; repeat' split
    all_goals omega

theorem split_eq (F : Nat) (p : Pkt) (g : Nat) :
    split F p g = (List.range (fragCount F (Packet.size p))).map
      (fun k => mkFrag p g (fragCount F (Packet.size p)) k ((p.payload.drop (k * F)).take F)) := by
  unfold split
  simp only
  rw [splitLoop_eq F p g _ _ (size_gt_payload p) _ 0 p.payload 0 (by omega) (by omega)]
  simp

/-- concatenating consecutive `F`-byte windows gives back the prefix they cover -/
theorem windows_flatten (F : Nat) (b : Bytes) (n : Nat) :
    ((List.range n).map (fun k => (b.drop (k * F)).take F)).flatten = b.take (n * F) := by
  induction n with
  | zero => simp
  | succ n ih =>
    rw [List.range_succ, List.map_append, List.flatten_append, ih]
    simp only [List.map_cons, List.map_nil, List.flatten_cons, List.flatten_nil, List.append_nil]
    rw [Nat.succ_mul, ← List.take_add]

/-- the count computed from `Size()` covers the whole payload -/
theorem fragCount_covers (F : Nat) (hF : 0 < F) (p : Pkt) :
    p.payload.length ≤ fragCount F (Packet.size p) * F := by
  have h := size_gt_payload p
  unfold fragCount
  simp only
  have h1 := Nat.div_add_mod (Packet.size p) F
  have h2 := Nat.mod_lt (Packet.size p) hF
  have h3 : Packet.size p < (Packet.size p / F + 1) * F := by
    rw [Nat.add_mul, Nat.one_mul, Nat.mul_comm]; omega
  split
  · rename_i hc; omega
  · have : (Packet.size p / F + 1) * F = Packet.size p / F * F + F := by rw [Nat.add_mul, Nat.one_mul]
    omega

end XMT.Frag
