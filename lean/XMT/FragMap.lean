import XMT.FragAssemble
namespace XMT.Frag
open XMT XMT.Packet XMT.Flag

/-! ### the `frags` map as an association list: lookups after an update -/

theorem find_set_same (fs : Frags) (g : Nat) (c : Cluster) : (fs.set g c).find g = some c := by
  unfold Frags.set Frags.find
  split
  · rename_i h
    induction fs with
    | nil => simp at h
    | cons kv fs ih =>
      simp only [List.map_cons, List.find?_cons]
      by_cases hk : kv.1 = g
      · simp [hk]
      · have : fs.any (fun x => decide (x.1 = g)) = true := by
          simp only [List.any_cons, Bool.or_eq_true, decide_eq_true_eq] at h
          rcases h with h | h
          · exact absurd h hk
          · exact h
        simp only [hk, if_false, decide_false]
        exact ih this
  · rename_i h
    have hnone : fs.find? (fun x => decide (x.1 = g)) = none := by
      rw [List.find?_eq_none]
      intro x hx
      have := h
      simp only [List.any_eq_true, not_exists, not_and, Bool.not_eq_true] at this
      simpa using this x hx
    rw [List.find?_append, hnone]
    simp

theorem find_map_other (fs : Frags) (g g' : Nat) (c : Cluster) (h : g' ≠ g) :
    ((fs.map (fun kv => if kv.1 = g then (g, c) else kv)).find? (fun x => decide (x.1 = g'))).map (·.2)
      = (fs.find? (fun x => decide (x.1 = g'))).map (·.2) := by
  induction fs with
  | nil => rfl
  | cons kv fs ih =>
    rw [List.map_cons]
    by_cases hk : kv.1 = g
    · have hk' : ¬ kv.1 = g' := by rw [hk]; exact fun e => h e.symm
      have hg : ¬ g = g' := fun e => h e.symm
      rw [if_pos hk, List.find?_cons_of_neg (by simpa using hg), List.find?_cons_of_neg (by simpa using hk')]
      exact ih
    · rw [if_neg hk]
      by_cases hk2 : kv.1 = g'
      · rw [List.find?_cons_of_pos (by simpa using hk2), List.find?_cons_of_pos (by simpa using hk2)]
      · rw [List.find?_cons_of_neg (by simpa using hk2), List.find?_cons_of_neg (by simpa using hk2)]
        exact ih

theorem find_set_other (fs : Frags) (g g' : Nat) (c : Cluster) (h : g' ≠ g) :
    (fs.set g c).find g' = fs.find g' := by
  unfold Frags.set Frags.find
  split
  · exact find_map_other fs g g' c h
  · rw [List.find?_append]
    have : ¬ (g = g') := fun e => h e.symm
    cases fs.find? (fun x => decide (x.1 = g')) <;> simp [this]

theorem find_erase_same (fs : Frags) (g : Nat) : (fs.erase g).find g = none := by
  unfold Frags.erase Frags.find
  have : (fs.filter (fun x => decide (x.1 ≠ g))).find? (fun x => decide (x.1 = g)) = none := by
    rw [List.find?_eq_none]
    intro x hx
    have := (List.mem_filter.mp hx).2
    simpa using this
  rw [this]; rfl

theorem find_erase_other (fs : Frags) (g g' : Nat) (h : g' ≠ g) :
    (fs.erase g).find g' = fs.find g' := by
  unfold Frags.erase Frags.find
  congr 1
  induction fs with
  | nil => rfl
  | cons kv fs ih =>
    by_cases hk : kv.1 = g
    · have hk' : ¬ kv.1 = g' := by rw [hk]; exact fun e => h e.symm
      rw [List.filter_cons_of_neg (by simp [hk]), List.find?_cons_of_neg (by simpa using hk')]
      exact ih
    · rw [List.filter_cons_of_pos (by simp [hk])]
      by_cases hk2 : kv.1 = g'
      · rw [List.find?_cons_of_pos (by simpa using hk2), List.find?_cons_of_pos (by simpa using hk2)]
      · rw [List.find?_cons_of_neg (by simpa using hk2), List.find?_cons_of_neg (by simpa using hk2)]
        exact ih

theorem find_put_same (fs : Frags) (g : Nat) (c : Option Cluster) : (fs.put g c).find g = c := by
  cases c with
  | none => exact find_erase_same fs g
  | some c => exact find_set_same fs g c

theorem find_put_other (fs : Frags) (g g' : Nat) (c : Option Cluster) (h : g' ≠ g) :
    (fs.put g c).find g' = fs.find g' := by
  cases c with
  | none => exact find_erase_other fs g g' h
  | some c => exact find_set_other fs g g' c h

/-- a fragment that goes through the reassembly path of `receive` -/
def Proper (n : Pkt) : Prop :=
  ¬ (n.id.toNat = Facts.svDrop ∨ n.id.toNat = Facts.svRegister) ∧ 2 ≤ len n.flags

theorem recvFrag_proper (fs : Frags) (n : Pkt) (h : Proper n) :
    recvFrag fs n = (fs.put (group n.flags) (recvGroup (fs.find (group n.flags)) n).1,
                     (recvGroup (fs.find (group n.flags)) n).2) := by
  unfold recvFrag
  rw [if_neg h.1, if_neg (by have := h.2; omega), if_neg (by have := h.2; omega)]

/-- the outputs of the arrivals that belong to group `g` -/
def outsOf (g : Nat) : List Pkt → List Out → List Out
  | n :: ns, o :: os => if group n.flags = g then o :: outsOf g ns os else outsOf g ns os
  | _, _ => []

/-- **Frame / projection**: in any interleaving of fragments of any number of groups, what happens
to group `g` — its reassembly state and the outcome of each of its fragments — is exactly what
happens when its own fragments arrive alone in the same relative order; fragments of other groups
do not affect it. -/
theorem recvAll_project (g : Nat) : ∀ (arr : List Pkt) (fs : Frags), (∀ n ∈ arr, Proper n) →
    ((recvAll fs arr).1.find g = (feedGroup (fs.find g) (arr.filter (fun n => group n.flags = g))).1) ∧
    (outsOf g arr (recvAll fs arr).2 = (feedGroup (fs.find g) (arr.filter (fun n => group n.flags = g))).2)
  | [], fs, _ => by simp [recvAll, feedGroup, outsOf]
  | n :: ns, fs, h => by
    have hn := h n List.mem_cons_self
    have hrest : ∀ x ∈ ns, Proper x := fun x hx => h x (List.mem_cons_of_mem _ hx)
    have hstep := recvFrag_proper fs n hn
    by_cases hg : group n.flags = g
    · have ih := recvAll_project g ns (recvFrag fs n).1 hrest
      rw [List.filter_cons_of_pos (by simpa using hg)]
      simp only [recvAll, feedGroup, outsOf, hg, if_true]
      rw [hstep] at ih ⊢
      simp only at ih ⊢
      rw [hg, find_put_same] at ih
      rw [hg]
      exact ⟨ih.1, by rw [ih.2]⟩
    · have ih := recvAll_project g ns (recvFrag fs n).1 hrest
      rw [List.filter_cons_of_neg (by simpa using hg)]
      simp only [recvAll, outsOf, hg, if_false]
      rw [hstep] at ih ⊢
      simp only at ih ⊢
      rw [find_put_other _ _ _ _ (fun e => hg e.symm)] at ih
      exact ih

end XMT.Frag
