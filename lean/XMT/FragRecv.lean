import XMT.FragLemmas
namespace XMT.Frag
open XMT XMT.Packet XMT.Flag

/-- the flag word of fragment `i` of `m` in group `g` -/
def fragFlags (f g m i : Nat) : Nat := setPosition (setLen (setGroup f g) m) i

theorem or_one_or_one (x : Nat) : (x ||| 1) ||| 1 = x ||| 1 := by
  rw [Nat.or_assoc, Nat.or_self]

/-- the four fields of a fragment's flag word -/
theorem fragFlags_fields (f g m i : Nat) (hf : f < 2^64) (hg : g < 2^16) (hm : m < 2^16) (hi : i < 2^16) :
    len (fragFlags f g m i) = m ∧ group (fragFlags f g m i) = g ∧ position (fragFlags f g m i) = i ∧
    bits (fragFlags f g m i) = bits f ||| 1 ∧ 1 ≤ fragFlags f g m i := by
  -- by the field-independence laws of the three setters (C01)
  have hG : group (setGroup f g) = g ∧ bits (setGroup f g) = bits f ||| 1 ∧ setGroup f g < 2^64 := by
    obtain ⟨r, hr, h1, h2⟩ := setGroup_eq f g hg hf
    obtain ⟨d, hd, h3, h4⟩ := bits_or_one f
    have hlt : setGroup f g < 2^64 := Nat.mod_lt _ (by decide)
    refine ⟨?_, ?_, hlt⟩
    · rw [hr]; unfold group u16; simp only [Nat.shiftRight_eq_div_pow]; omega
    · rw [hr, hd]; unfold bits u16; omega
  have hL : len (setLen (setGroup f g) m) = m ∧ group (setLen (setGroup f g) m) = g ∧
      bits (setLen (setGroup f g) m) = bits f ||| 1 := by
    obtain ⟨r, hr, h1, h2⟩ := setLen_eq (setGroup f g) m hm
    obtain ⟨d, hd, h3, h4⟩ := bits_or_one (setGroup f g)
    have hp : position (setGroup f g) < 2^16 := Nat.mod_lt _ (by decide)
    refine ⟨?_, ?_, ?_⟩
    · rw [hr]; unfold len u16; simp only [Nat.shiftRight_eq_div_pow]; omega
    · refine Eq.trans ?_ hG.1
      rw [hr]; unfold group u16; simp only [Nat.shiftRight_eq_div_pow]
      unfold position u16 at hp h1; simp only [Nat.shiftRight_eq_div_pow] at hp h1; omega
    · have : bits (setLen (setGroup f g) m) = bits (setGroup f g) ||| 1 := by
        rw [hr, hd]; unfold bits u16; omega
      rw [this, hG.2.1, or_one_or_one]
  obtain ⟨r, hr, h1, h2⟩ := setPosition_eq (setLen (setGroup f g) m) i hi
  obtain ⟨d, hd, h3, h4⟩ := bits_or_one (setLen (setGroup f g) m)
  have hp : len (setLen (setGroup f g) m) < 2^16 := Nat.mod_lt _ (by decide)
  unfold fragFlags
  refine ⟨?_, ?_, ?_, ?_, ?_⟩
  · refine Eq.trans ?_ hL.1
    rw [hr]; unfold len u16; simp only [Nat.shiftRight_eq_div_pow]
    unfold len u16 at hp h1; simp only [Nat.shiftRight_eq_div_pow] at hp h1; omega
  · refine Eq.trans ?_ hL.2.1
    rw [hr]; unfold group u16; simp only [Nat.shiftRight_eq_div_pow]
    unfold len u16 at hp h1; simp only [Nat.shiftRight_eq_div_pow] at hp h1; omega
  · rw [hr]; unfold position u16; simp only [Nat.shiftRight_eq_div_pow]; omega
  · have : bits (setPosition (setLen (setGroup f g) m) i) = bits (setLen (setGroup f g) m) ||| 1 := by
      rw [hr, hd]; unfold bits u16; omega
    rw [this, hL.2.2, or_one_or_one]
  · rw [hr]; omega

end XMT.Frag

namespace XMT.Frag
open XMT XMT.Packet XMT.Flag

/-- hypotheses under which a packet is fragmented and reassembled (what `Session.write` sends
through the fragment path, for any fragment limit `F`) -/
structure Ctx (F : Nat) (p : Pkt) (g m : Nat) : Prop where
  hF : 0 < F
  hm : m = fragCount F (Packet.size p)
  m2 : 2 ≤ m
  m16 : m < 2^16
  g16 : g < 2^16
  fl16 : p.flags < 2^16
  flEven : p.flags % 2 = 0
  notCtl : ¬ (p.id.toNat = Facts.svDrop ∨ p.id.toNat = Facts.svRegister)
  pay : p.payload ≠ []

/-- payload window of fragment `i` -/
def win (F : Nat) (p : Pkt) (i : Nat) : Bytes := (p.payload.drop (i * F)).take F

/-- fragment `i` as `split` produces it -/
def fr (F : Nat) (p : Pkt) (g m i : Nat) : Pkt := mkFrag p g m i (win F p i)

theorem split_eq_fr (F : Nat) (p : Pkt) (g : Nat) :
    split F p g = (List.range (fragCount F (Packet.size p))).map
      (fr F p g (fragCount F (Packet.size p))) := split_eq F p g

section
variable {F : Nat} {p : Pkt} {g m : Nat} (C : Ctx F p g m)
include C

theorem bits_p : bits p.flags ||| 1 = p.flags + 1 := by
  have h1 := C.fl16; have h2 := C.flEven
  have : bits p.flags = p.flags := Nat.mod_eq_of_lt h1
  rw [this, or_one_eq]; omega

theorem fr_flags (i : Nat) (hi : i < m) :
    len (fr F p g m i).flags = m ∧ group (fr F p g m i).flags = g ∧
    position (fr F p g m i).flags = i ∧ bits (fr F p g m i).flags = p.flags + 1 ∧
    1 ≤ (fr F p g m i).flags := by
  have h16 := C.m16
  have hmm : m % 2^16 = m := Nat.mod_eq_of_lt h16
  have him : i % 2^16 = i := Nat.mod_eq_of_lt (by omega)
  have := fragFlags_fields p.flags g m i (by have := C.fl16; omega) C.g16 h16 (by omega)
  rw [bits_p C] at this
  have e : (fr F p g m i).flags = fragFlags p.flags g (m % 2^16) (i % 2^16) := rfl
  rw [e, hmm, him]
  exact this

omit C in
theorem fr_id (i : Nat) : (fr F p g m i).id = p.id ∧ (fr F p g m i).job = p.job ∧
    (fr F p g m i).dev = p.dev ∧ (fr F p g m i).payload = win F p i ∧ (fr F p g m i).tags = [] :=
  ⟨rfl, rfl, rfl, rfl, rfl⟩

theorem win0_ne : win F p 0 ≠ [] := by
  have := C.pay; have := C.hF
  unfold win
  simp only [Nat.zero_mul, List.drop_zero]
  intro h
  have hl := congrArg List.length h
  simp only [List.length_take, List.length_nil] at hl
  have : 0 < p.payload.length := List.length_pos_iff.mpr C.pay
  omega

theorem belongs_fr (i j : Nat) (hi : i < m) (hj : j < m) :
    belongs (fr F p g m i) (fr F p g m j) = true := by
  obtain ⟨_, g1, _, _, f1⟩ := fr_flags C i hi
  obtain ⟨_, g2, _, _, f2⟩ := fr_flags C j hj
  unfold belongs
  simp only [Bool.and_eq_true, decide_eq_true_eq]
  exact ⟨⟨⟨⟨f1, f2⟩, rfl⟩, rfl⟩, by rw [g1, g2]⟩

end
end XMT.Frag

namespace XMT.Frag
open XMT XMT.Packet XMT.Flag

def nonEmpty (f : Pkt) : Bool := !f.payload.isEmpty

/-- the cluster after the fragments `A` of one group have arrived (in that order) -/
def St (m : Nat) (A : List Pkt) : Cluster :=
  { data := A.filter nonEmpty, max := m - 1, e := (A.filter (fun f => f.payload.isEmpty)).length,
    c := Facts.fragMaxMisses }

/-- what `done` hands on once every fragment is there -/
def assemble (L : List Pkt) : Option Pkt :=
  match sortByPos (L.filter nonEmpty) with
  | [] => none
  | n :: rest => some { (rest.foldl addTo n) with flags := Flag.clear (rest.foldl addTo n).flags }

/-- feed the fragments of one group to its reassembly state -/
def feedGroup (c : Option Cluster) : List Pkt → Option Cluster × List Out
  | [] => (c, [])
  | n :: ns =>
    let r := recvGroup c n
    let rs := feedGroup r.1 ns
    (rs.1, r.2 :: rs.2)

theorem filter_partition_length (A : List Pkt) :
    (A.filter nonEmpty).length + (A.filter (fun f => f.payload.isEmpty)).length = A.length := by
  induction A with
  | nil => rfl
  | cons a A ih =>
    by_cases h : a.payload.isEmpty = true
    · have h1 : nonEmpty a = false := by simp [nonEmpty, h]
      rw [List.filter_cons_of_neg (by simp [h1]), List.filter_cons_of_pos (by simpa using h)]
      simp only [List.length_cons]; omega
    · have h1 : nonEmpty a = true := by simp [nonEmpty, h]
      rw [List.filter_cons_of_pos h1, List.filter_cons_of_neg (by simpa using h)]
      simp only [List.length_cons]; omega

/-- `cluster.add` on a cluster whose first stored fragment belongs with `q` -/
theorem Cluster.add_of_head (c : Cluster) (d0 : Pkt) (ds : List Pkt) (h : c.data = d0 :: ds) (q : Pkt)
    (hb : belongs d0 q = true) :
    c.add q = some (if q.payload.isEmpty
      then { c with c := Facts.fragMaxMisses, max := (Flag.len q.flags + 2^16 - 1) % 2^16, e := (c.e + 1) % 2^16 }
      else { c with c := Facts.fragMaxMisses, max := (Flag.len q.flags + 2^16 - 1) % 2^16, data := c.data ++ [q] }) := by
  unfold Cluster.add
  split
  · rename_i d0' ds' heq
    rw [h] at heq
    simp only [List.cons.injEq] at heq
    obtain ⟨rfl, _⟩ := heq
    simp only [hb, not_true_eq_false, if_false]
    split <;> rfl
  · rename_i heq; rw [h] at heq; simp at heq

theorem Cluster.done_of_ne (c : Cluster) (h : c.data ≠ []) :
    c.done = if (c.data.length % 2^16 + c.e) % 2^16 > c.max then
        (match sortByPos c.data with
         | [] => none
         | n :: rest => some { (rest.foldl addTo n) with flags := Flag.clear (rest.foldl addTo n).flags })
      else none := by
  unfold Cluster.done
  split
  · rename_i heq; exact absurd heq h
  · rfl

/-- `A` is a list of fragments of the group that starts with fragment 0 -/
def Good (F : Nat) (p : Pkt) (g m : Nat) (A : List Pkt) : Prop :=
  (∃ A', A = fr F p g m 0 :: A') ∧ ∀ f ∈ A, ∃ i, i < m ∧ f = fr F p g m i

section
variable {F : Nat} {p : Pkt} {g m : Nat} (C : Ctx F p g m)
include C

theorem good_head (A : List Pkt) (hA : Good F p g m A) :
    ∃ d, (St m A).data = fr F p g m 0 :: d := by
  obtain ⟨⟨A', rfl⟩, _⟩ := hA
  have h0 : nonEmpty (fr F p g m 0) = true := by
    have := win0_ne C
    simp only [nonEmpty, fr, mkFrag]
    cases h : (win F p 0) with
    | nil => exact absurd h this
    | cons _ _ => rfl
  exact ⟨A'.filter nonEmpty, by simp [St, List.filter_cons, h0]⟩

theorem add_good (A : List Pkt) (hA : Good F p g m A) (hlen : A.length < m) (i : Nat) (hi : i < m) :
    (St m A).add (fr F p g m i) = some (St m (A ++ [fr F p g m i])) := by
  obtain ⟨d, hd⟩ := good_head C A hA
  have hm16 := C.m16; have hm2 := C.m2
  obtain ⟨l1, _, _, _, _⟩ := fr_flags C i hi
  have hb := belongs_fr C 0 i (by omega) hi
  have hpart := filter_partition_length A
  have hmax : (m + 2 ^ 16 - 1) % 2 ^ 16 = m - 1 := by omega
  rw [Cluster.add_of_head (St m A) _ d hd _ hb, l1, hmax]
  apply congrArg some
  by_cases he : (fr F p g m i).payload.isEmpty = true
  · rw [if_pos he]
    have hne : nonEmpty (fr F p g m i) = false := by simp [nonEmpty, he]
    have hmod : ((St m A).e + 1) % 2^16 = (St m A).e + 1 := by
      have : (St m A).e ≤ A.length := by simp only [St]; omega
      omega
    rw [hmod]
    have hf1 : List.filter (fun f : Pkt => f.payload.isEmpty) [fr F p g m i] = [fr F p g m i] := by
      rw [List.filter_cons_of_pos (by simpa using he)]; rfl
    have hf2 : List.filter nonEmpty [fr F p g m i] = [] := by
      rw [List.filter_cons_of_neg (by simp [hne])]; rfl
    simp only [St, List.filter_append, hf1, hf2, List.append_nil, List.length_append, List.length_singleton]
  · rw [if_neg he]
    have hne : nonEmpty (fr F p g m i) = true := by simp [nonEmpty, he]
    have hf1 : List.filter (fun f : Pkt => f.payload.isEmpty) [fr F p g m i] = [] := by
      rw [List.filter_cons_of_neg (by simpa using he)]; rfl
    have hf2 : List.filter nonEmpty [fr F p g m i] = [fr F p g m i] := by
      rw [List.filter_cons_of_pos hne]; rfl
    simp only [St, List.filter_append, hf1, hf2, List.append_nil]

theorem done_good (L : List Pkt) (hL : Good F p g m L) (hlen : L.length ≤ m) :
    (St m L).done = if L.length = m then assemble L else none := by
  obtain ⟨d, hd⟩ := good_head C L hL
  have hm16 := C.m16; have hm2 := C.m2
  have hpart := filter_partition_length L
  rw [Cluster.done_of_ne (St m L) (by rw [hd]; simp)]
  have hcond : (((St m L).data.length % 2^16 + (St m L).e) % 2^16 > (St m L).max) ↔ L.length = m := by
    simp only [St]
    have h1 : (L.filter nonEmpty).length % 2^16 = (L.filter nonEmpty).length := by omega
    rw [h1]
    have h2 : ((L.filter nonEmpty).length + (L.filter fun f => f.payload.isEmpty).length) % 2^16
        = L.length := by omega
    rw [h2]; omega
  by_cases hc : L.length = m
  · rw [if_pos hc, if_pos (hcond.mpr hc)]
    rfl
  · rw [if_neg hc, if_neg (fun h => hc (hcond.mp h))]

theorem recv_first :
    recvGroup none (fr F p g m 0) = (some (St m [fr F p g m 0]), .stored) := by
  have hm2 := C.m2; have hm16 := C.m16
  obtain ⟨l1, _, p1, _, _⟩ := fr_flags C 0 (by omega)
  have hmax : (m + 2 ^ 16 - 1) % 2 ^ 16 = m - 1 := by omega
  have h0 : (fr F p g m 0).payload.isEmpty = false := by
    have := win0_ne C
    simp only [fr, mkFrag]
    cases h : (win F p 0) with
    | nil => exact absurd h this
    | cons _ _ => rfl
  have hne : nonEmpty (fr F p g m 0) = true := by simp [nonEmpty, h0]
  have hfe : List.filter (fun f : Pkt => f.payload.isEmpty) [fr F p g m 0] = [] := by
    rw [List.filter_cons_of_neg (by simp [h0])]; rfl
  have hadd : Cluster.new.add (fr F p g m 0) = some (St m [fr F p g m 0]) := by
    unfold Cluster.add Cluster.new
    simp only [l1, hmax, h0, Bool.false_eq_true, if_false]
    simp only [St, List.filter_cons_of_pos hne, List.filter_nil, List.nil_append, hfe, List.length_nil]
  have hgood : Good F p g m [fr F p g m 0] := ⟨⟨[], rfl⟩, fun f hf => ⟨0, by omega, by simpa using hf⟩⟩
  have hdone := done_good C [fr F p g m 0] hgood (by simp; omega)
  rw [if_neg (by simp; omega)] at hdone
  unfold recvGroup
  simp only [p1, Nat.lt_irrefl, if_false, hadd, hdone]

theorem good_snoc (A : List Pkt) (hA : Good F p g m A) (i : Nat) (hi : i < m) :
    Good F p g m (A ++ [fr F p g m i]) := by
  obtain ⟨⟨A', rfl⟩, h2⟩ := hA
  refine ⟨⟨A' ++ [fr F p g m i], rfl⟩, ?_⟩
  intro f hf
  rw [List.mem_append] at hf
  rcases hf with hf | hf
  · exact h2 f hf
  · exact ⟨i, hi, by simpa using hf⟩

omit C in
theorem insertByPos_ne (q : Pkt) (l : List Pkt) : insertByPos q l ≠ [] := by
  cases l with
  | nil => simp [insertByPos]
  | cons a l => unfold insertByPos; split <;> simp

omit C in
theorem sortByPos_ne (l : List Pkt) (h : l ≠ []) : sortByPos l ≠ [] := by
  cases l with
  | nil => exact absurd rfl h
  | cons a l => exact insertByPos_ne _ _

theorem assemble_some (L : List Pkt) (hL : Good F p g m L) : ∃ v, assemble L = some v := by
  obtain ⟨d, hd⟩ := good_head C L hL
  have hne : L.filter nonEmpty ≠ [] := by
    have : (St m L).data = L.filter nonEmpty := rfl
    rw [← this, hd]; simp
  unfold assemble
  cases h : sortByPos (L.filter nonEmpty) with
  | nil => exact absurd h (sortByPos_ne _ hne)
  | cons n rest => exact ⟨_, rfl⟩

theorem recv_next (A : List Pkt) (hA : Good F p g m A) (hlen : A.length < m) (i : Nat) (hi : i < m) :
    (A.length + 1 = m → ∃ v, assemble (A ++ [fr F p g m i]) = some v ∧
        recvGroup (some (St m A)) (fr F p g m i) = (none, .deliver v)) ∧
    (A.length + 1 ≠ m →
        recvGroup (some (St m A)) (fr F p g m i) = (some (St m (A ++ [fr F p g m i])), .stored)) := by
  have hadd := add_good C A hA hlen i hi
  have hg' := good_snoc C A hA i hi
  have hdone := done_good C (A ++ [fr F p g m i]) hg' (by simp; omega)
  simp only [List.length_append, List.length_singleton] at hdone
  constructor
  · intro hc
    obtain ⟨v, hv⟩ := assemble_some C _ hg'
    rw [if_pos hc, hv] at hdone
    refine ⟨v, hv, ?_⟩
    unfold recvGroup
    simp only [hadd, hdone]
  · intro hc
    rw [if_neg hc] at hdone
    unfold recvGroup
    simp only [hadd, hdone]

/-- feeding the remaining fragments `R` (any order, any subset, repetitions allowed as long as the
count is not exceeded) after `A` -/
theorem feed_rest (R : List Nat) : ∀ (A : List Pkt), Good F p g m A → (∀ i ∈ R, i < m) →
    A.length + R.length ≤ m → A.length < m ∨ R = [] →
    (A.length + R.length = m → R ≠ [] → ∃ v, assemble (A ++ R.map (fr F p g m)) = some v ∧
      feedGroup (some (St m A)) (R.map (fr F p g m)) =
        (none, List.replicate (R.length - 1) Out.stored ++ [.deliver v])) ∧
    (A.length + R.length < m →
      feedGroup (some (St m A)) (R.map (fr F p g m)) =
        (some (St m (A ++ R.map (fr F p g m))), List.replicate R.length Out.stored)) := by
  induction R with
  | nil =>
    intro A _ _ _ _
    exact ⟨fun _ h => absurd rfl h, fun _ => by simp [feedGroup]⟩
  | cons i R ih =>
    intro A hA hR hlen hlt
    have hi : i < m := hR i List.mem_cons_self
    have hRest : ∀ j ∈ R, j < m := fun j hj => hR j (List.mem_cons_of_mem _ hj)
    have hAlt : A.length < m := by
      rcases hlt with h | h
      · exact h
      · simp at h
    obtain ⟨hlast, hmid⟩ := recv_next C A hA hAlt i hi
    have hg' := good_snoc C A hA i hi
    simp only [List.length_cons] at hlen ⊢
    by_cases hc : A.length + 1 = m
    · -- this is the last fragment
      have hR0 : R = [] := by
        cases R with
        | nil => rfl
        | cons _ _ => simp at hlen; omega
      subst hR0
      obtain ⟨v, hv, hrec⟩ := hlast hc
      refine ⟨fun _ _ => ⟨v, by simpa using hv, ?_⟩, fun h => by simp at h; omega⟩
      simp [feedGroup, hrec]
    · have hrec := hmid hc
      have hlen' : (A ++ [fr F p g m i]).length + R.length ≤ m := by simp; omega
      obtain ⟨ih1, ih2⟩ := ih (A ++ [fr F p g m i]) hg' hRest hlen' (by left; simp; omega)
      constructor
      · intro htot _
        have hRne : R ≠ [] := by
          intro h; subst h; simp at htot; omega
        obtain ⟨v, hv, hf⟩ := ih1 (by simp; omega) hRne
        refine ⟨v, by simpa [List.append_assoc] using hv, ?_⟩
        simp only [List.map_cons, feedGroup, hrec, hf]
        congr 1
        have : R.length - 1 + 1 = R.length := by
          have := List.length_pos_iff.mpr hRne; omega
        rw [Nat.add_sub_cancel]
        conv => rhs; rw [← this, List.replicate_succ]
        rfl
      · intro htot
        have hf := ih2 (by simp; omega)
        simp only [List.map_cons, feedGroup, hrec, hf, List.append_assoc, List.singleton_append,
          List.replicate_succ]

end
end XMT.Frag
