/-
  XMT.FragSend — the ORDER in which the fragments of one group leave the sender (round s3, C02).

    enqueue     c2/session.go (*Session).queue   (no channel override): an empty Device is stamped,
                the send on the buffered channel is non-blocking — a packet is dropped silently when
                the channel is full
    writeBig    c2/session.go (*Session).write, fragment path: the `ErrFullBuffer` guard (only when
                `w` is false), the Job number, then one `queue` per fragment in position order
    Batch.next  c2/session.go (*Session).next / nextPacket (model of C03, unchanged) — `drain` are the
                successive transmissions, `observe` what the peer unpacks from them, in order

  Results: what `write` leaves in the channel is the old content followed by a PREFIX of the
  fragments (`writeBig_prefix`: once the channel is full it stays full for the rest of the call —
  `write` and the channel are taken as one step, no concurrent consumer); the subsequence of the
  packets of one group that the peer observes is the subsequence that was queued, in the same order
  (`group_order_preserved`, from C03's drain theorem).
-/
import XMT.BatchLast
import XMT.FragDup
namespace XMT.Frag
open XMT XMT.Packet XMT.Flag

/-- `(*Session).queue(n)` on a send channel of capacity `cap` -/
def enqueue (cap : Nat) (uuid : Bytes) (q : List Pkt) (n : Pkt) : List Pkt :=
  if q.length < cap then q ++ [if Batch.devEmpty n.dev then { n with dev := uuid } else n] else q

/-- the stamp `queue` puts on a packet without a Device -/
def stamp (uuid : Bytes) (n : Pkt) : Pkt := if Batch.devEmpty n.dev then { n with dev := uuid } else n

/-- `(*Session).write(w, n)` for `Size() > F`; `none` = `ErrFullBuffer` (nothing is queued) -/
def writeBig (w : Bool) (cap : Nat) (uuid : Bytes) (F : Nat) (q : List Pkt) (p : Pkt) (g j : Nat) :
    Option (List Pkt) :=
  if !w && q.length + (fragCount F (Packet.size p) - 1) ≥ cap then none
  else some ((split F (withJob p j) g).foldl (enqueue cap uuid) q)

theorem enqueue_foldl (cap : Nat) (uuid : Bytes) : ∀ (L : List Pkt) (q : List Pkt),
    L.foldl (enqueue cap uuid) q = q ++ (L.map (stamp uuid)).take (cap - q.length)
  | [], q => by simp
  | n :: L, q => by
    rw [List.foldl_cons, enqueue_foldl cap uuid L]
    unfold enqueue
    by_cases h : q.length < cap
    · rw [if_pos h]
      have : cap - q.length = (cap - (q ++ [stamp uuid n]).length) + 1 := by
        simp only [List.length_append, List.length_singleton]; omega
      rw [this, List.map_cons, List.take_succ_cons]
      simp only [List.append_assoc, List.singleton_append]
      rfl
    · rw [if_neg h]
      have : cap - q.length = 0 := by omega
      rw [this]; simp

/-- **What `write` queues is a prefix of the fragments**, in position order, after what was queued
before: the first `cap - len(queue)` fragments; the others are dropped by `queue`. -/
theorem writeBig_prefix (w : Bool) (cap : Nat) (uuid : Bytes) (F : Nat) (q q' : List Pkt) (p : Pkt)
    (g j : Nat) (h : writeBig w cap uuid F q p g j = some q') :
    q' = q ++ ((split F (withJob p j) g).map (stamp uuid)).take (cap - q.length) := by
  unfold writeBig at h
  split at h
  · cases h
  · cases h
    exact enqueue_foldl cap uuid _ q

/-- a fragment (`FlagFrag`) of group `g` -/
def isFragOf (g : Nat) (n : Pkt) : Bool := n.flags % 2 = 1 && group n.flags = g

theorem isFragOf_core (g : Nat) (n : Pkt) : isFragOf g (Batch.core n) = isFragOf g n := rfl

theorem isFragOf_stamp (g : Nat) (uuid : Bytes) (n : Pkt) : isFragOf g (stamp uuid n) = isFragOf g n := by
  unfold stamp; split <;> rfl

theorem not_nop_of_frag (g : Nat) (n : Pkt) (h : isFragOf g n = true) : Batch.isNoP n = false := by
  unfold isFragOf at h
  simp only [Bool.and_eq_true, decide_eq_true_eq] at h
  have hp : Facts.flagProxy % 2 = 0 := by decide
  unfold Batch.isNoP
  have h1 : ¬ n.flags = 0 := by omega
  have h2 : ¬ n.flags = Facts.flagProxy := by intro e; rw [e] at h; omega
  simp [h1, h2]

theorem filter_keepF (g : Nat) (l : List Pkt) : (Batch.keepF l).filter (isFragOf g) = l.filter (isFragOf g) := by
  unfold Batch.keepF
  rw [List.filter_filter]
  apply List.filter_congr
  intro n _
  by_cases h : isFragOf g n = true
  · simp [h, not_nop_of_frag g n h]
  · simp [h]

theorem filter_map_core (g : Nat) (l : List Pkt) :
    (l.map Batch.core).filter (isFragOf g) = (l.filter (isFragOf g)).map Batch.core := by
  rw [List.filter_map]
  rfl

/-- every fragment `write` makes is a fragment of its group -/
theorem split_all_fragOf {F : Nat} {p : Pkt} {g m : Nat} (C : Ctx F p g m) :
    ∀ n ∈ split F p g, isFragOf g n = true := by
  intro n hn
  rw [split_eq_fr, ← C.hm] at hn
  obtain ⟨i, hi, rfl⟩ := List.mem_map.mp hn
  obtain ⟨_, hg, _, hb, _⟩ := fr_flags C i (List.mem_range.mp hi)
  have he := C.flEven
  unfold isFragOf
  simp only [Bool.and_eq_true, decide_eq_true_eq]
  refine ⟨?_, hg⟩
  unfold bits u16 at hb
  omega

/-- **The order of one group's fragments survives batching**: over all successive transmissions
until the queue drains (any budgets, any other packets queued, keep-alives, carry-over, a group
other than `g` the peer asked to abandon), the fragments of group `g` that the peer observes are —
tag lists aside — exactly the ones that were queued, each once, in the order they were queued. -/
theorem group_order_preserved (P Fb : Nat) (hP : P < Facts.fragMax) (hP2 : 2 ≤ P) (i : Bytes)
    (st : Batch.St) (hq : ∀ a ∈ Batch.content st, Batch.QWF a) (g : Nat)
    (hlast : st.last = 0 ∨ st.last ≠ g) :
    ∃ obs, Batch.observe (Batch.drain P Fb i ((Batch.content st).length + 1) st) = .ok obs ∧
      (obs.filter (isFragOf g)).map Batch.core = ((Batch.content st).filter (isFragOf g)).map Batch.core := by
  obtain ⟨dropped, rest, hc, hd, obs, ho, hk⟩ := Batch.drain_spec_last P Fb hP hP2 i st hq
  refine ⟨obs, ho, ?_⟩
  have hdrop : dropped.filter (isFragOf g) = [] := by
    rw [List.filter_eq_nil_iff]
    intro d hdm hf
    obtain ⟨h0, hg⟩ := hd d hdm
    unfold isFragOf at hf
    simp only [Bool.and_eq_true, decide_eq_true_eq] at hf
    rcases hlast with h | h
    · omega
    · exact h (by rw [← hg, hf.2])
  have h1 := congrArg (List.filter (isFragOf g)) hk
  rw [filter_map_core, filter_map_core, filter_keepF, filter_keepF] at h1
  rw [h1, hc, List.filter_append, hdrop, List.nil_append]

/-! ### the fragments `write` makes are in the domain of the batching model -/

theorem and_low (x b : Nat) (hb : (2^16 - 1) &&& b = b) : x &&& b = (x % 2^16) &&& b := by
  rw [← Nat.and_two_pow_sub_one_eq_mod, Nat.and_assoc, hb]

theorem and_succ_even (x b : Nat) (hx : x % 2 = 0) (hb : 1 &&& b = 0) : (x + 1) &&& b = x &&& b := by
  have : x + 1 = x ||| 1 := by rw [or_one_eq]; omega
  rw [this, Nat.and_or_distrib_right, hb, Nat.or_zero]

theorem hasFlag_false {f b : Nat} (h : Batch.hasFlag f b = false) : f &&& b = 0 := by
  unfold Batch.hasFlag at h; simpa using h

/-- a fragment of a well-formed plain packet is a well-formed plain packet: the Multi and
MultiDevice bits are those of the original (the fragment fields only add `FlagFrag`) -/
theorem fr_qwf {F : Nat} {p : Pkt} {g m : Nat} (C : Ctx F p g m) (hp : Batch.QWF p) (i : Nat) (hi : i < m) :
    Batch.QWF (fr F p g m i) := by
  obtain ⟨_, _, _, hb, _⟩ := fr_flags C i hi
  have he := C.flEven
  have hfl : (fr F p g m i).flags < 2^64 := by
    show setPosition _ _ < 2^64
    unfold setPosition u64; exact Nat.mod_lt _ (by decide)
  have hbits : (fr F p g m i).flags % 2^16 = p.flags + 1 := hb
  refine ⟨⟨hp.wf.job, hfl, by simp [fr, mkFrag], by intro t ht; simp [fr, mkFrag] at ht, hp.wf.devLen, hp.wf.devNZ, ?_⟩, ?_, ?_⟩
  · show (win F p i).length ≤ Facts.maxSlice
    have := hp.wf.pay
    unfold win; rw [List.length_take, List.length_drop]; omega
  · have h0 := hasFlag_false hp.plain.1
    unfold Batch.hasFlag
    rw [and_low _ _ (by decide), hbits, and_succ_even _ _ he (by decide), h0]; simp
  · have h0 := hasFlag_false hp.plain.2
    unfold Batch.hasFlag
    rw [and_low _ _ (by decide), hbits, and_succ_even _ _ he (by decide), h0]; simp

/-- `queue` leaves a packet that names a device as it is -/
theorem stamp_qwf (uuid : Bytes) (n : Pkt) (h : Batch.QWF n) : stamp uuid n = n := by
  have h1 := h.wf.devNZ
  have h2 := h.wf.devLen
  unfold stamp Batch.devEmpty
  have : n.dev.isEmpty = false := by
    cases hd : n.dev with
    | nil => rw [hd] at h2; simp at h2; exact absurd h2 (by decide)
    | cons _ _ => rfl
  simp [h1, this]

theorem split_qwf {F : Nat} {p : Pkt} {g m : Nat} (C : Ctx F p g m) (hp : Batch.QWF p) (uuid : Bytes) :
    ∀ a ∈ (split F p g).map (stamp uuid), Batch.QWF a := by
  intro a ha
  obtain ⟨n, hn, rfl⟩ := List.mem_map.mp ha
  rw [split_eq_fr, ← C.hm] at hn
  obtain ⟨i, hi, rfl⟩ := List.mem_map.mp hn
  have := fr_qwf C hp i (List.mem_range.mp hi)
  rw [stamp_qwf uuid _ this]; exact this

/-- executable form of `Batch.QWF` (for the non-vacuity examples) -/
def qwfB (n : Pkt) : Bool :=
  decide (n.job < 2^16) && decide (n.flags < 2^64) && decide (n.tags.length ≤ Facts.packetMaxTags) &&
  n.tags.all (fun t => decide (0 < t) && decide (t < 2^32)) && decide (n.dev.length = Facts.idSize) &&
  decide (n.dev.head? ≠ some 0) && decide (n.payload.length ≤ Facts.maxSlice) &&
  !Batch.hasFlag n.flags Facts.flagMulti && !Batch.hasFlag n.flags Facts.flagMultiDevice

theorem qwfB_sound (n : Pkt) (h : qwfB n = true) : Batch.QWF n := by
  unfold qwfB at h
  simp only [Bool.and_eq_true, decide_eq_true_eq, List.all_eq_true, Bool.not_eq_true'] at h
  obtain ⟨⟨⟨⟨⟨⟨⟨⟨h1, h2⟩, h3⟩, h4⟩, h5⟩, h6⟩, h7⟩, h8⟩, h9⟩ := h
  exact ⟨⟨h1, h2, h3, fun t ht => h4 t ht, h5, h6, h7⟩, ⟨h8, h9⟩⟩

theorem qwfB_all (l : List Pkt) (h : l.all qwfB = true) : ∀ a ∈ l, Batch.QWF a := by
  intro a ha
  exact qwfB_sound a (List.all_eq_true.mp h a ha)

end XMT.Frag
