/-
  XMT.FragSweep — wake-ups of the receiver (`markSweepFrags`) interleaved with arrivals, over whole
  histories (round s3, property C02).  Model = the unchanged `Frag.sweep` / `Frag.recvFrag`.

    Ev            one event of the receiving Session: a fragment arrives / the Session wakes up
    runEv         the fragment map over a history of events
    feedEv        the same for the reassembly state of ONE group (`sweepOne` = what a wake-up does
                  to one entry: counter - 1 in uint8, entry removed when it reaches 0)
    runEv_project frame theorem: what happens to group g in any history is what happens to its own
                  state under its own arrivals and all the wake-ups
    paced         no `lim` wake-ups in a row between two arrivals of the group
    feedEv_paced  simulation: a paced history gives, arrival by arrival, the answers of the history
                  without wake-ups; the state differs only in the miss counter
    feedEv_wakes  n wake-ups without an arrival: counter - n, released when it runs out
-/
import XMT.FragDup
import XMT.FragHostile
namespace XMT.Frag
open XMT XMT.Packet XMT.Flag XMT.FragHostile

inductive Ev
  | arrive (n : Pkt)
  | wake
  deriving Repr

/-- `receive` (FlagFrag arm) and `markSweepFrags` over a history; a wake-up answers nothing -/
def runEv (fs : Frags) : List Ev → Frags × List Out
  | [] => (fs, [])
  | .wake :: es => runEv (sweep fs) es
  | .arrive n :: es =>
    let r := recvFrag fs n
    let rs := runEv r.1 es
    (rs.1, r.2 :: rs.2)

def arrivals : List Ev → List Pkt
  | [] => []
  | .wake :: es => arrivals es
  | .arrive n :: es => n :: arrivals es

def wakes : List Ev → Nat
  | [] => 0
  | .wake :: es => wakes es + 1
  | .arrive _ :: es => wakes es

/-- what one `markSweepFrags` does to one entry: `v.c--` on a uint8, removed when it reaches 0 -/
def sweepOne : Option Cluster → Option Cluster
  | none => none
  | some c => if (c.c + 255) % 256 = 0 then none else some { c with c := (c.c + 255) % 256 }

theorem sweepOne_some (c : Cluster) : sweepOne (some c) =
    if (c.c + 255) % 256 = 0 then none else some { c with c := (c.c + 255) % 256 } := rfl

def feedEv (c : Option Cluster) : List Ev → Option Cluster × List Out
  | [] => (c, [])
  | .wake :: es => feedEv (sweepOne c) es
  | .arrive n :: es =>
    let r := recvGroup c n
    let rs := feedEv r.1 es
    (rs.1, r.2 :: rs.2)

/-- a history in two parts -/
theorem runEv_append : ∀ (a b : List Ev) (fs : Frags),
    runEv fs (a ++ b) = ((runEv (runEv fs a).1 b).1, (runEv fs a).2 ++ (runEv (runEv fs a).1 b).2)
  | [], b, fs => by simp [runEv]
  | .wake :: a, b, fs => by simp only [List.cons_append, runEv]; exact runEv_append a b (sweep fs)
  | .arrive n :: a, b, fs => by
    simp only [List.cons_append, runEv, runEv_append a b (recvFrag fs n).1, List.cons_append]

theorem arrivals_append : ∀ (a b : List Ev), arrivals (a ++ b) = arrivals a ++ arrivals b
  | [], b => rfl
  | .wake :: a, b => by simp only [List.cons_append, arrivals]; exact arrivals_append a b
  | .arrive n :: a, b => by simp only [List.cons_append, arrivals, arrivals_append a b]

/-- the events that concern group `g`: its own arrivals and every wake-up -/
def projEv (g : Nat) : List Ev → List Ev
  | [] => []
  | .wake :: es => .wake :: projEv g es
  | .arrive n :: es => if group n.flags = g then .arrive n :: projEv g es else projEv g es

/-! ### the map under a wake-up -/

theorem mem_sweep_key (fs : Frags) (kv : Nat × Cluster) (h : kv ∈ sweep fs) : ∃ kv0 ∈ fs, kv0.1 = kv.1 := by
  unfold sweep at h
  obtain ⟨hmap, _⟩ := List.mem_filter.mp h
  obtain ⟨kv0, h0, rfl⟩ := List.mem_map.mp hmap
  exact ⟨kv0, h0, rfl⟩

theorem sweep_cons (kv : Nat × Cluster) (fs : Frags) :
    sweep (kv :: fs) = if (kv.2.c + 255) % 256 = 0 then sweep fs
      else (kv.1, { kv.2 with c := (kv.2.c + 255) % 256 }) :: sweep fs := by
  unfold sweep
  rw [List.map_cons]
  by_cases h : (kv.2.c + 255) % 256 = 0
  · rw [if_pos h, List.filter_cons_of_neg (by simp [h])]
  · rw [if_neg h, List.filter_cons_of_pos (by simp [h])]

theorem keys_sweep_nodup (fs : Frags) (hn : (keys fs).Nodup) : (keys (sweep fs)).Nodup := by
  have hs : (keys (sweep fs)).Sublist (keys fs) := by
    unfold keys sweep
    have h1 := (List.filter_sublist (p := fun x : Nat × Cluster => decide (x.2.c ≠ 0))
      (l := fs.map (fun kv => (kv.1, { kv.2 with c := (kv.2.c + 255) % 256 })))).map (·.1)
    have h2 : (fs.map (fun kv => (kv.1, { kv.2 with c := (kv.2.c + 255) % 256 }))).map (·.1) = fs.map (·.1) := by
      rw [List.map_map]; rfl
    rw [h2] at h1
    exact h1
  exact hs.nodup hn

/-- a wake-up acts on every group on its own -/
theorem find_sweep (g : Nat) : ∀ (fs : Frags), (keys fs).Nodup → (sweep fs).find g = sweepOne (fs.find g)
  | [], _ => rfl
  | kv :: fs, hn => by
    have hn' : (keys fs).Nodup := (List.nodup_cons.mp hn).2
    have hnot : kv.1 ∉ keys fs := (List.nodup_cons.mp hn).1
    have ih := find_sweep g fs hn'
    rw [sweep_cons]
    by_cases hk : kv.1 = g
    · have hfind : Frags.find (kv :: fs) g = some kv.2 := by
        unfold Frags.find
        rw [List.find?_cons_of_pos (by simpa using hk)]; rfl
      rw [hfind, sweepOne_some]
      by_cases hz : (kv.2.c + 255) % 256 = 0
      · rw [if_pos hz, if_pos hz]
        apply find_none_of_noKey
        intro kv' hkv' he
        obtain ⟨kv0, h0, h1⟩ := mem_sweep_key fs kv' hkv'
        apply hnot
        rw [hk, ← he, ← h1]
        exact List.mem_map.mpr ⟨kv0, h0, rfl⟩
      · rw [if_neg hz, if_neg hz]
        unfold Frags.find
        rw [List.find?_cons_of_pos (by simpa using hk)]; rfl
    · have hfind : Frags.find (kv :: fs) g = Frags.find fs g := by
        unfold Frags.find
        rw [List.find?_cons_of_neg (by simpa using hk)]
      rw [hfind, ← ih]
      by_cases hz : (kv.2.c + 255) % 256 = 0
      · rw [if_pos hz]
      · rw [if_neg hz]
        unfold Frags.find
        rw [List.find?_cons_of_neg (by simpa using hk)]

theorem keys_recvFrag_nodup (fs : Frags) (n : Pkt) (hn : (keys fs).Nodup) : (keys (recvFrag fs n).1).Nodup := by
  unfold recvFrag
  split
  · exact hn
  · split
    · exact hn
    · split
      · exact hn
      · exact keys_put_nodup _ _ _ hn

theorem keys_runEv_nodup : ∀ (es : List Ev) (fs : Frags), (keys fs).Nodup → (keys (runEv fs es).1).Nodup
  | [], _, hn => hn
  | .wake :: es, fs, hn => by
    simp only [runEv]
    exact keys_runEv_nodup es _ (keys_sweep_nodup fs hn)
  | .arrive n :: es, fs, hn => by
    simp only [runEv]
    exact keys_runEv_nodup es _ (keys_recvFrag_nodup fs n hn)

/-- **Frame / projection with wake-ups**: in any history of arrivals of any number of groups and
wake-ups, the reassembly state of group `g` and the answer to each of its fragments are those of its
own state under its own arrivals and the wake-ups. -/
theorem runEv_project (g : Nat) : ∀ (es : List Ev) (fs : Frags), (keys fs).Nodup →
    (∀ n ∈ arrivals es, Proper n) →
    ((runEv fs es).1.find g = (feedEv (fs.find g) (projEv g es)).1) ∧
    (outsOf g (arrivals es) (runEv fs es).2 = (feedEv (fs.find g) (projEv g es)).2)
  | [], fs, _, _ => by simp [runEv, feedEv, projEv, arrivals, outsOf]
  | .wake :: es, fs, hn, h => by
    have ih := runEv_project g es (sweep fs) (keys_sweep_nodup fs hn) (by simpa [arrivals] using h)
    simp only [runEv, projEv, feedEv, arrivals]
    rw [find_sweep g fs hn] at ih
    exact ih
  | .arrive n :: es, fs, hn, h => by
    have hnP : Proper n := h n (by simp [arrivals])
    have hrest : ∀ x ∈ arrivals es, Proper x := fun x hx => h x (by simp [arrivals, hx])
    have hstep := recvFrag_proper fs n hnP
    have ih := runEv_project g es (recvFrag fs n).1 (keys_recvFrag_nodup fs n hn) hrest
    by_cases hg : group n.flags = g
    · simp only [runEv, projEv, hg, if_true, feedEv, arrivals, outsOf]
      rw [hstep] at ih ⊢
      simp only at ih ⊢
      rw [hg, find_put_same] at ih
      rw [hg]
      exact ⟨ih.1, by rw [ih.2]⟩
    · simp only [runEv, projEv, hg, if_false, arrivals, outsOf]
      rw [hstep] at ih ⊢
      simp only at ih ⊢
      rw [find_put_other _ _ _ _ (fun e => hg e.symm)] at ih
      exact ih

/-! ### one group: the miss counter is the only thing a wake-up touches -/

theorem add_withC (x : Cluster) (k : Nat) (n : Pkt) : ({ x with c := k } : Cluster).add n = x.add n := by
  unfold Cluster.add
  cases hx : x.data with
  | nil => simp only []
  | cons d ds => simp only []

theorem add_c (x y : Cluster) (n : Pkt) (h : x.add n = some y) : y.c = Facts.fragMaxMisses := by
  unfold Cluster.add at h
  split at h
  · split at h
    · exact absurd h (by simp)
    · split at h <;> (cases h; rfl)
  · split at h <;> (cases h; rfl)

theorem done_withC (x : Cluster) (k : Nat) : ({ x with c := k } : Cluster).done = x.done := by
  unfold Cluster.done
  rfl

/-- `receive` on a cluster whose miss counter was lowered by wake-ups: the same answer and the same
new state, unless `cluster.add` refuses the fragment (then the state — counter included — stays) -/
theorem recvGroup_withC (x : Cluster) (k : Nat) (n : Pkt) :
    recvGroup (some { x with c := k }) n =
      if x.add n = none then (some { x with c := k }, Out.errMismatch) else recvGroup (some x) n := by
  unfold recvGroup
  simp only [add_withC]
  cases h : x.add n with
  | none => simp
  | some y => simp

/-- a state that `receive` leaves behind after storing a fragment has a full miss counter -/
theorem recvGroup_c (c : Option Cluster) (n : Pkt) (y : Cluster) (o : Out)
    (h : recvGroup c n = (some y, o)) (ho : o ≠ .errMismatch) : y.c = Facts.fragMaxMisses := by
  unfold recvGroup at h
  cases c with
  | none =>
    simp only at h
    split at h
    · cases h
    · cases ha : Cluster.new.add n with
      | none => rw [ha] at h; simp only at h; cases h; exact absurd rfl ho
      | some c1 =>
        rw [ha] at h
        simp only at h
        cases hd : c1.done with
        | some v => rw [hd] at h; simp only at h; cases h
        | none =>
          rw [hd] at h; simp only at h
          cases h
          exact add_c _ _ _ ha
  | some c0 =>
    simp only at h
    cases ha : c0.add n with
    | none => rw [ha] at h; simp only at h; cases h; exact absurd rfl ho
    | some c1 =>
      rw [ha] at h
      simp only at h
      cases hd : c1.done with
      | some v => rw [hd] at h; simp only at h; cases h
      | none =>
        rw [hd] at h; simp only at h
        cases h
        exact add_c _ _ _ ha

/-- no `lim` wake-ups in a row between two arrivals (state: wake-ups since the last arrival, `none`
before the first one); wake-ups before the first and after the last arrival are unconstrained -/
def paced (lim : Nat) : Option Nat → List Ev → Bool
  | _, [] => true
  | none, .wake :: es => paced lim none es
  | some k, .wake :: es => paced lim (some (k + 1)) es
  | none, .arrive _ :: es => paced lim (some 0) es
  | some k, .arrive _ :: es => decide (k < lim) && paced lim (some 0) es

/-- wake-ups since the last arrival, at the end of the history -/
def gapEnd : Option Nat → List Ev → Option Nat
  | st, [] => st
  | none, .wake :: es => gapEnd none es
  | some k, .wake :: es => gapEnd (some (k + 1)) es
  | _, .arrive _ :: es => gapEnd (some 0) es

/-- how the state `c'` of a history with wake-ups relates to the state `c` of the same history
without them, `st` = wake-ups since the last arrival -/
def SimInv (c c' : Option Cluster) (st : Option Nat) : Prop :=
  (c = none ∧ c' = none) ∨
  ∃ k, st = some k ∧
    ((∃ x, k < Facts.fragMaxMisses ∧ c = some x ∧ c' = some { x with c := Facts.fragMaxMisses - k }) ∨
     (Facts.fragMaxMisses ≤ k ∧ c' = none))

theorem simInv_after_recv (r : Option Cluster × Out) (c : Option Cluster) (n : Pkt)
    (hr : recvGroup c n = r) (ho : r.2 ≠ .errMismatch) : SimInv r.1 r.1 (some 0) := by
  cases h1 : r.1 with
  | none => exact Or.inl ⟨rfl, rfl⟩
  | some y =>
    have hc : y.c = Facts.fragMaxMisses := recvGroup_c c n y r.2 (by rw [hr, ← h1]) ho
    refine Or.inr ⟨0, rfl, Or.inl ⟨y, by decide, rfl, ?_⟩⟩
    congr 1
    cases y
    simp only at hc
    simp [hc]

/-- **Simulation**: a paced history answers every arrival exactly as the history without wake-ups
does (provided that one never meets a `cluster.add` refusal), and at the end the two states differ
only in the miss counter. -/
theorem feedEv_paced : ∀ (es : List Ev) (c c' : Option Cluster) (st : Option Nat),
    SimInv c c' st → paced Facts.fragMaxMisses st es = true →
    (∀ o ∈ (feedGroup c (arrivals es)).2, o ≠ Out.errMismatch) →
    (feedEv c' es).2 = (feedGroup c (arrivals es)).2 ∧
    SimInv (feedGroup c (arrivals es)).1 (feedEv c' es).1 (gapEnd st es)
  | [], c, c', st, hi, _, _ => by simp [feedEv, arrivals, feedGroup, gapEnd]; exact hi
  | .wake :: es, c, c', st, hi, hp, hno => by
    simp only [feedEv, arrivals]
    rcases hi with ⟨h1, h2⟩ | ⟨k, hst, hk⟩
    · subst h1; subst h2
      cases st with
      | none =>
        simp only [paced] at hp
        simp only [gapEnd]
        exact feedEv_paced es none none none (Or.inl ⟨rfl, rfl⟩) hp hno
      | some k =>
        simp only [paced] at hp
        simp only [gapEnd]
        exact feedEv_paced es none none (some (k + 1)) (Or.inl ⟨rfl, rfl⟩) hp hno
    · subst hst
      simp only [paced] at hp
      simp only [gapEnd]
      rcases hk with ⟨x, hkl, hc, hc'⟩ | ⟨hkl, hc'⟩
      · subst hc; subst hc'
        have hF : Facts.fragMaxMisses < 256 := by decide
        have hstep : (Facts.fragMaxMisses - k + 255) % 256 = Facts.fragMaxMisses - (k + 1) := by omega
        by_cases hlast : k + 1 = Facts.fragMaxMisses
        · have hz : (Facts.fragMaxMisses - k + 255) % 256 = 0 := by omega
          have hsw : sweepOne (some { x with c := Facts.fragMaxMisses - k }) = none := by
            rw [sweepOne_some]; exact if_pos hz
          rw [hsw]
          exact feedEv_paced es (some x) none (some (k + 1)) (Or.inr ⟨k + 1, rfl, Or.inr ⟨by omega, rfl⟩⟩) hp hno
        · have hz : ¬ (Facts.fragMaxMisses - k + 255) % 256 = 0 := by omega
          have hsw : sweepOne (some { x with c := Facts.fragMaxMisses - k }) =
              some { x with c := Facts.fragMaxMisses - (k + 1) } := by
            rw [sweepOne_some]
            show (if (Facts.fragMaxMisses - k + 255) % 256 = 0 then none else
              some { x with c := (Facts.fragMaxMisses - k + 255) % 256 }) = _
            rw [if_neg hz, hstep]
          rw [hsw]
          exact feedEv_paced es (some x) _ (some (k + 1))
            (Or.inr ⟨k + 1, rfl, Or.inl ⟨x, by omega, rfl, rfl⟩⟩) hp hno
      · subst hc'
        have hsw : sweepOne none = none := rfl
        rw [hsw]
        exact feedEv_paced es c none (some (k + 1)) (Or.inr ⟨k + 1, rfl, Or.inr ⟨by omega, rfl⟩⟩) hp hno
  | .arrive n :: es, c, c', st, hi, hp, hno => by
    simp only [feedEv, arrivals, feedGroup] at hno ⊢
    have ho : (recvGroup c n).2 ≠ .errMismatch := hno _ (by simp)
    have hno' : ∀ o ∈ (feedGroup (recvGroup c n).1 (arrivals es)).2, o ≠ Out.errMismatch :=
      fun o h => hno o (by simp [h])
    have hp' : paced Facts.fragMaxMisses (some 0) es = true := by
      cases st with
      | none => simpa [paced] using hp
      | some k => simp only [paced, Bool.and_eq_true] at hp; exact hp.2
    have hge : gapEnd st (.arrive n :: es) = gapEnd (some 0) es := by
      cases st <;> rfl
    rw [hge]
    have hsame : recvGroup c' n = recvGroup c n := by
      rcases hi with ⟨h1, h2⟩ | ⟨k, hst, hk⟩
      · rw [h1, h2]
      · subst hst
        simp only [paced, Bool.and_eq_true, decide_eq_true_eq] at hp
        rcases hk with ⟨x, hkl, hc, hc'⟩ | ⟨hkl, _⟩
        · subst hc; subst hc'
          rw [recvGroup_withC]
          by_cases ha : x.add n = none
          · exfalso
            apply ho
            unfold recvGroup
            simp only [ha]
          · rw [if_neg ha]
        · omega
    rw [hsame]
    have hinv := simInv_after_recv (recvGroup c n) c n rfl ho
    obtain ⟨ih1, ih2⟩ := feedEv_paced es (recvGroup c n).1 (recvGroup c n).1 (some 0) hinv hp' hno'
    exact ⟨by rw [ih1], ih2⟩

theorem feedEv_none_wakes : ∀ (k : Nat), feedEv none (List.replicate k Ev.wake) = (none, [])
  | 0 => rfl
  | k + 1 => by simp only [List.replicate_succ, feedEv, sweepOne]; exact feedEv_none_wakes k

/-- **n wake-ups without an arrival**: the miss counter goes down by n and everything else stays;
the entry is released by the wake-up on which the counter runs out (and stays released). The
counter of a state left by `receive` is `fragMaxMisses` (`recvGroup_c`), never 0. -/
theorem feedEv_wakes : ∀ (n : Nat) (x : Cluster), 1 ≤ x.c → x.c < 256 →
    feedEv (some x) (List.replicate n Ev.wake) =
      (if n < x.c then some { x with c := x.c - n } else none, [])
  | 0, x, h1, _ => by
    simp only [List.replicate_zero, feedEv]
    rw [if_pos (by omega)]
    cases x; rfl
  | n + 1, x, h1, h2 => by
    simp only [List.replicate_succ, feedEv]
    rw [sweepOne_some]
    have e1 : (x.c + 255) % 256 = x.c - 1 := by omega
    rw [e1]
    by_cases hz : x.c - 1 = 0
    · rw [if_pos hz, feedEv_none_wakes, if_neg (by omega)]
    · rw [if_neg hz, feedEv_wakes n { x with c := x.c - 1 } (by simp only; omega) (by simp only; omega)]
      simp only
      by_cases hn : n + 1 < x.c
      · rw [if_pos (by omega), if_pos hn]
        have : x.c - 1 - n = x.c - (n + 1) := by omega
        rw [this]
      · rw [if_neg (by omega), if_neg hn]

/-- the history of one group that gets no arrival is a row of wake-ups -/
theorem projEv_no_arrival (g : Nat) : ∀ (es : List Ev), (∀ n ∈ arrivals es, group n.flags ≠ g) →
    projEv g es = List.replicate (wakes es) Ev.wake
  | [], _ => rfl
  | .wake :: es, h => by
    simp only [projEv, wakes, List.replicate_succ]
    rw [projEv_no_arrival g es (by simpa [arrivals] using h)]
  | .arrive n :: es, h => by
    have hn : group n.flags ≠ g := h n (by simp [arrivals])
    simp only [projEv, hn, if_false, wakes]
    exact projEv_no_arrival g es (fun x hx => h x (by simp [arrivals, hx]))

theorem arrivals_projEv (g : Nat) : ∀ (es : List Ev),
    arrivals (projEv g es) = (arrivals es).filter (fun n => group n.flags = g)
  | [] => rfl
  | .wake :: es => by simp only [projEv, arrivals]; exact arrivals_projEv g es
  | .arrive n :: es => by
    by_cases hg : group n.flags = g
    · simp only [projEv, hg, if_true, arrivals]
      rw [List.filter_cons_of_pos (by simpa using hg), arrivals_projEv g es]
    · simp only [projEv, hg, if_false, arrivals]
      rw [List.filter_cons_of_neg (by simpa using hg), arrivals_projEv g es]

/-- a group without state stays without state under wake-ups and late fragments (position > 0),
each of which is answered with `SvDrop` -/
theorem feedEv_none_late {F : Nat} {p : Pkt} {g m : Nat} (C : Ctx F p g m) : ∀ (es : List Ev),
    (∀ n ∈ arrivals es, ∃ i, 0 < i ∧ i < m ∧ n = fr F p g m i) →
    feedEv none es = (none, List.replicate (arrivals es).length Out.dropReply)
  | [], _ => rfl
  | .wake :: es, h => by
    simp only [feedEv, sweepOne, arrivals]
    exact feedEv_none_late C es (by simpa [arrivals] using h)
  | .arrive n :: es, h => by
    obtain ⟨i, h0, hi, rfl⟩ := h n (by simp [arrivals])
    obtain ⟨_, _, pi, _, _⟩ := fr_flags C i hi
    have h1 : recvGroup none (fr F p g m i) = (none, .dropReply) := by
      unfold recvGroup
      simp only [pi]
      rw [if_pos h0]
    simp only [feedEv, h1, arrivals, List.length_cons, List.replicate_succ]
    rw [feedEv_none_late C es (fun x hx => h x (by simp [arrivals, hx]))]

end XMT.Frag
