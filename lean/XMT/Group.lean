/-
  XMT.Group — executable model of c2/cfg/group.go (multi-group profiles: selector logic, lazily
  initialised cursor, accessors through the cursor) and of the tail of `Config.Build`
  (c2/cfg/convert.go: global selector = last non-zero one, weight clamp, `sort.Sort`).
  Core-only.  Go pointers `*profile` are modelled as the pair (address, pointee): `Entry.ptr` is
  the address, the other fields the (immutable after Build) pointee; pointer comparison is
  comparison of `ptr`.  The PRNG (`runtime.fastrand` behind `util.FastRandN`) is an input: a list
  of raw 32-bit words, one consumed per `FastRandN` call (an exhausted list keeps yielding 0).
-/
import XMT.Base
import XMT.Generated.Facts
namespace XMT.Group
open XMT

/-- Result of running code that may panic (index out of range). -/
inductive Outcome (α : Type) where
  | ok (a : α)
  | panic (site : String)
  deriving Repr

/-- One built `*profile` (c2/cfg/group.go `type profile struct`). Wrapper / Transform / connection
hint / work hours are opaque tags (0 = nil); `kill` is the kill date in Unix seconds. -/
structure Entry where
  ptr : Nat
  weight : Nat
  hosts : List Bytes
  w : Nat
  t : Nat
  sleep : Int
  jitter : Int
  kill : Int
  kds : Bool
  work : Nat
  keys : List Nat
  conn : Nat
  deriving DecidableEq, Repr

/-- `type Group struct { cur *profile; entries []*profile; sel uint8 }` (src/lock omitted). -/
structure Group where
  cur : Option Entry
  entries : List Entry
  sel : Nat
  deriving DecidableEq, Repr

/-! ### Selector ids (regenerated from the source) -/
def selLastValid := Facts.c17SelLastValid
def selRoundRobin := Facts.c17SelRoundRobin
def selRandom := Facts.c17SelRandom
def selSemiRoundRobin := Facts.c17SelSemiRoundRobin
def selSemiRandom := Facts.c17SelSemiRandom
def selSemiLastValid := Facts.c17SelSemiLastValid
/-- the literal `4` of `util.FastRandN(4) != 0` in `Switch` -/
def semiN := Facts.c17SemiN

/-! ### PRNG -/

/-- next raw word of the PRNG stream -/
def pop : List Nat → Nat × List Nat
  | [] => (0, [])
  | r :: rs => (r, rs)

/-- `util.FastRandN(n)`: `uint32(uint64(fastRand()) * uint64(n) >> 32)` on the raw word `r`. -/
def fastRandN (r n : Nat) : Nat := ((((r % 2^32) * (n % 2^64)) % 2^64) >>> 32) % 2^32

/-! ### Switch -/

/-- Go `a == b` on two `*profile` where `b` may be nil. -/
def ptrEq (a : Entry) (b : Option Entry) : Bool :=
  match b with
  | none => false
  | some c => a.ptr == c.ptr

/-- The `for i := range g.entries` loop of `Switch`: `f` is the flag, the result is
`(some e, _)` when the loop returned by selecting `e`, `(none, f)` when it ran to the end. -/
def rotLoop (cur : Entry) : List Entry → Bool → Option Entry × Bool
  | [], f => (none, f)
  | x :: xs, f =>
    if x.ptr == cur.ptr then rotLoop cur xs true
    else if f then (some x, f)
    else rotLoop cur xs f

/-- The early-return guards of `Switch` (only evaluated when `g.cur != nil`).
Returns `(true, ds')` when `Switch` returns false there. Go's `&&` short-circuits: a word is
drawn only when the conjuncts to the left hold. -/
def guards (g : Group) (e : Bool) (ds : List Nat) : Bool × List Nat :=
  if g.cur.isSome then
    if !e && g.sel == selLastValid then (true, ds)
    else
      let (stop1, ds1) :=
        if !e && g.sel == selSemiLastValid then
          let (r, ds1) := pop ds
          (fastRandN r semiN != 0, ds1)
        else (false, ds)
      if stop1 then (true, ds1)
      else
        if g.sel == selSemiRandom || g.sel == selSemiRoundRobin then
          let (r, ds2) := pop ds1
          (fastRandN r semiN != 0, ds2)
        else (false, ds1)
  else (false, ds)

/-- The part of `Switch` after the guards (from `switch g.lock.Lock(); {`). -/
def select (g : Group) (ds : List Nat) : Outcome (Group × Bool × List Nat) :=
  if g.sel == selRandom || g.sel == selSemiRandom then
    let (r, ds1) := pop ds
    match g.entries[fastRandN r g.entries.length]? with
    | none => .panic "Switch: g.entries[FastRandN(len)]"
    | some n =>
      if !ptrEq n g.cur then .ok ({ g with cur := some n }, true, ds1)
      else .ok (g, false, ds1)
  else
    match g.cur with
    | none =>
      match g.entries with
      | [] => .panic "Switch: g.entries[0]"
      | e0 :: _ => .ok ({ g with cur := some e0 }, true, ds)
    | some c =>
      match rotLoop c g.entries false with
      | (some x, _) => .ok ({ g with cur := some x }, true, ds)
      | (none, f) =>
        match g.entries with
        | [] => .panic "Switch: g.entries[0]"
        | e0 :: _ =>
          if f && c.ptr == e0.ptr then .ok (g, false, ds)
          else .ok ({ g with cur := some e0 }, true, ds)

/-- `func (g *Group) Switch(e bool) bool` -/
def switch (g : Group) (e : Bool) (ds : List Nat) : Outcome (Group × Bool × List Nat) :=
  if g.entries.length == 0 then .ok (g, false, ds)
  else
    match guards g e ds with
    | (true, ds1) => .ok (g, false, ds1)
    | (false, ds1) => select g ds1

/-- `func (g *Group) init()` -/
def init (g : Group) (ds : List Nat) : Outcome (Group × List Nat) :=
  match g.cur with
  | some _ => .ok (g, ds)
  | none =>
    match switch g false ds with
    | .ok (g', _, ds') => .ok (g', ds')
    | .panic s => .panic s

/-! ### Accessors -/

/-- `func (p *profile) Next()`: host (`[]` = the empty string), wrapper, transform. -/
def Entry.next (p : Entry) (ds : List Nat) : Outcome ((Bytes × Nat × Nat) × List Nat) :=
  match p.hosts with
  | [] => .ok (([], p.w, p.t), ds)
  | [h] => .ok ((h, p.w, p.t), ds)
  | hs =>
    let (r, ds1) := pop ds
    match hs[fastRandN r hs.length]? with
    | none => .panic "profile.Next: p.hosts[FastRandN(len)]"
    | some h => .ok ((h, p.w, p.t), ds1)

/-- `func (p *profile) TrustedKey(k)`: `empty` = `k.Empty()`, `h` = `k.Hash()`. -/
def Entry.trustedKey (p : Entry) (empty : Bool) (h : Nat) : Bool :=
  if empty then false
  else if p.keys.length == 0 then true
  else p.keys.contains h

/-- What an accessor observes. -/
inductive Obs where
  | switched (b : Bool)
  | next (h : Bytes) (w t : Nat)
  | sleep (d : Int)
  | jitter (j : Int)
  | kill (k : Int) (set : Bool)
  | work (w : Nat)
  | trusted (b : Bool)
  | conn (c : Nat)      -- connection hint used by Connect / Listen (0 = ErrNotAConnector/Listener)
  deriving DecidableEq, Repr

inductive Op where
  | switch (e : Bool)
  | next
  | sleep
  | jitter
  | kill
  | work
  | trusted (empty : Bool) (h : Nat)
  | conn
  deriving DecidableEq, Repr

/-- What an accessor returns when the cursor is still nil after `init` (no entries):
`if g.init(); g.cur == nil { return <default> }`. -/
def obsNil : Op → Obs
  | .switch _ => .switched false
  | .next => .next [] 0 0
  | .sleep => .sleep (-1)
  | .jitter => .jitter (-1)
  | .kill => .kill 0 false
  | .work => .work 0
  | .trusted empty _ => .trusted (!empty)
  | .conn => .conn 0

/-- The `*profile` method behind every accessor (`return g.cur.<field>` / `g.cur.Next()` …). -/
def obsOf (c : Entry) (op : Op) (ds : List Nat) : Outcome (Obs × List Nat) :=
  match op with
  | .switch _ => .ok (.switched false, ds)       -- `func (profile) Switch(_ bool) bool { return false }`
  | .next =>
    match c.next ds with
    | .ok ((h, w, t), ds') => .ok (.next h w t, ds')
    | .panic s => .panic s
  | .sleep => .ok (.sleep c.sleep, ds)
  | .jitter => .ok (.jitter c.jitter, ds)
  | .kill => .ok (.kill c.kill c.kds, ds)
  | .work => .ok (.work c.work, ds)
  | .trusted empty h => .ok (.trusted (c.trustedKey empty h), ds)
  | .conn => .ok (.conn c.conn, ds)

/-- Group methods: `Switch`, and the accessors
`if g.init(); g.cur == nil { return <default> }; return g.cur.<method>()`. -/
def step (g : Group) (op : Op) (ds : List Nat) : Outcome (Group × Obs × List Nat) :=
  match op with
  | .switch e =>
    match switch g e ds with
    | .ok (g', b, ds') => .ok (g', .switched b, ds')
    | .panic s => .panic s
  | op =>
    match init g ds with
    | .panic s => .panic s
    | .ok (g', ds') =>
      match g'.cur with
      | none => .ok (g', obsNil op, ds')
      | some c =>
        match obsOf c op ds' with
        | .ok (o, ds'') => .ok (g', o, ds'')
        | .panic s => .panic s

/-- A call history: every op carries the PRNG words available to it (unused ones are dropped, as
the harness re-arms the scripted PRNG before every call). -/
def run (g : Group) : List (Op × List Nat) → Outcome (Group × List Obs)
  | [] => .ok (g, [])
  | (op, ds) :: rest =>
    match step g op ds with
    | .panic s => .panic s
    | .ok (g', o, _) =>
      match run g' rest with
      | .panic s => .panic s
      | .ok (g'', os) => .ok (g'', o :: os)

/-! ### Tail of `Config.Build` -/

/-- `if p.weight = c[i+1]; p.weight > 100 { p.weight = 100 }` -/
def clampWeight (b : Nat) : Nat := if b > Facts.c17WeightCap then Facts.c17WeightCap else b

/-- One step of Go's `insertionSort` inner loop on the reversed prefix (head = element `j-1`):
`for j := i; j > a && data.Less(j, j-1); j-- { data.Swap(j, j-1) }` with
`Less(i, j) = entries[i].weight > entries[j].weight`. -/
def insRev (x : Entry) : List Entry → List Entry
  | [] => [x]
  | y :: ys => if x.weight > y.weight then y :: insRev x ys else x :: y :: ys

/-- `sort.Sort(r)` for `len ≤ 12` (pdqsort's `maxInsertion`): plain insertion sort. -/
def sortDesc (l : List Entry) : List Entry := (l.foldl (fun acc x => insRev x acc) []).reverse

/-- The selector kept by `Build`: `if e = append(e, v); s > 0 { g = uint8(s) }` over the groups. -/
def globalSel (ss : List Nat) : Nat := ss.foldl (fun g s => if s > 0 then s % 256 else g) 0

inductive Profile where
  | nil
  | single (p : Entry)
  | group (g : Group)
  deriving DecidableEq, Repr

/-- Tail of `Config.Build`: `es` are the built entries in config order with the selector byte each
group's `build` returned. -/
def buildTail (es : List (Entry × Nat)) : Profile :=
  match es with
  | [] => .nil
  | [(p, _)] => .single p
  | _ => .group { cur := none, entries := sortDesc (es.map (·.1)), sel := globalSel (es.map (·.2)) }

/-- A single (non-group) profile answers every call with its own methods. -/
def singleStep (p : Entry) (op : Op) (ds : List Nat) : Outcome (Obs × List Nat) := obsOf p op ds

end XMT.Group
