/-
  XMT.GroupLemmas — helper lemmas about the model in XMT/Group.lean (used by Props/C17.lean).
-/
import XMT.Group
namespace XMT.Group
open XMT

theorem fastRandN_lt (r n : Nat) (hn : 0 < n) : fastRandN r n < n := by
  unfold fastRandN
  have h1 : (r % 2^32) * (n % 2^64) % 2^64 ≤ (r % 2^32) * n := by
    calc (r % 2^32) * (n % 2^64) % 2^64 ≤ (r % 2^32) * (n % 2^64) := Nat.mod_le _ _
      _ ≤ (r % 2^32) * n := Nat.mul_le_mul_left _ (Nat.mod_le _ _)
  have h2 : (r % 2^32) * n < 2^32 * n := Nat.mul_lt_mul_of_pos_right (Nat.mod_lt _ (by decide)) hn
  have h3 : ((r % 2^32) * (n % 2^64) % 2^64) >>> 32 < n := by
    rw [Nat.shiftRight_eq_div_pow]
    apply Nat.div_lt_of_lt_mul
    omega
  exact Nat.lt_of_le_of_lt (Nat.mod_le _ _) h3

theorem rotLoop_true (cur : Entry) (l : List Entry) (h : ∀ x ∈ l, x.ptr ≠ cur.ptr) :
    rotLoop cur l true = (l.head?, true) := by
  cases l with
  | nil => rfl
  | cons x xs =>
    have hx := h x (by simp)
    simp [rotLoop, hx]

theorem rotLoop_false_notin (cur : Entry) (l : List Entry) (h : ∀ x ∈ l, x.ptr ≠ cur.ptr) :
    rotLoop cur l false = (none, false) := by
  induction l with
  | nil => rfl
  | cons x xs ih =>
    have hx := h x (by simp)
    simp [rotLoop, hx]
    exact ih (fun y hy => h y (by simp [hy]))

theorem rotLoop_split (cur : Entry) (pre post : List Entry) (c : Entry) (hc : c.ptr = cur.ptr)
    (hpre : ∀ x ∈ pre, x.ptr ≠ cur.ptr) (hpost : ∀ x ∈ post, x.ptr ≠ cur.ptr) :
    rotLoop cur (pre ++ c :: post) false = (post.head?, true) := by
  induction pre with
  | nil => simp [rotLoop, hc]; exact rotLoop_true cur post hpost
  | cons x xs ih =>
    have hx := hpre x (by simp)
    simp [rotLoop, hx]
    exact ih (fun y hy => hpre y (by simp [hy]))
/-- well-formedness: entries are distinct allocations, the cursor (if set) is one of them -/
def Group.WF (g : Group) : Prop :=
  (g.entries.map (·.ptr)).Nodup ∧ ∀ c, g.cur = some c → c ∈ g.entries

/-- distinct pointers: an entry is determined by its position -/
theorem nodup_split (l : List Entry) (hnd : (l.map (·.ptr)).Nodup) (k : Nat) (c : Entry)
    (hk : l[k]? = some c) :
    l = l.take k ++ c :: l.drop (k+1) ∧ (∀ x ∈ l.take k, x.ptr ≠ c.ptr) ∧ (∀ x ∈ l.drop (k+1), x.ptr ≠ c.ptr) := by
  have hlt : k < l.length := by
    rcases Nat.lt_or_ge k l.length with h | h
    · exact h
    · rw [List.getElem?_eq_none h] at hk; cases hk
  have hget : l[k] = c := by
    rw [List.getElem?_eq_getElem hlt] at hk; exact Option.some.inj hk
  have hsplit : l = l.take k ++ c :: l.drop (k+1) := by
    rw [← hget]; simp
  refine ⟨hsplit, ?_, ?_⟩
  · intro x hx heq
    rw [hsplit, List.map_append, List.map_cons] at hnd
    have := (List.nodup_append.mp hnd).2.2 x.ptr (List.mem_map_of_mem hx) c.ptr (by simp)
    exact this heq
  · intro x hx heq
    rw [hsplit, List.map_append, List.map_cons] at hnd
    have h2 := (List.nodup_append.mp hnd).2.1
    have := (List.nodup_cons.mp h2).1
    apply this
    rw [← heq]; exact List.mem_map_of_mem hx

theorem select_rot (g : Group) (ds : List Nat) (k : Nat) (c : Entry)
    (hnd : (g.entries.map (·.ptr)).Nodup) (hk : g.entries[k]? = some c) (hcur : g.cur = some c)
    (hsel : (g.sel == selRandom || g.sel == selSemiRandom) = false) :
    select g ds = .ok ({ g with cur := g.entries[(k+1) % g.entries.length]? },
                        decide (g.entries.length ≠ 1), ds) := by
  obtain ⟨hsplit, hpre, hpost⟩ := nodup_split g.entries hnd k c hk
  have hlt : k < g.entries.length := by
    rcases Nat.lt_or_ge k g.entries.length with h | h
    · exact h
    · rw [List.getElem?_eq_none h] at hk; cases hk
  have hrot : rotLoop c g.entries false = ((g.entries.drop (k+1)).head?, true) := by
    conv => lhs; rw [hsplit]
    exact rotLoop_split c _ _ c rfl hpre hpost
  have hhead : (g.entries.drop (k+1)).head? = g.entries[k+1]? := by
    simp [List.head?_drop]
  unfold select
  rw [hsel, hcur]
  simp only [Bool.false_eq_true, if_false, hrot, hhead]
  rcases Nat.lt_or_ge (k+1) g.entries.length with h1 | h1
  · -- there is a next entry
    have hmod : (k+1) % g.entries.length = k+1 := Nat.mod_eq_of_lt h1
    have hne : g.entries.length ≠ 1 := by omega
    rw [hmod, List.getElem?_eq_getElem h1]
    simp [hne]
  · -- wrap around
    have hkn : k + 1 = g.entries.length := by omega
    rw [List.getElem?_eq_none h1]
    have hmod : (k+1) % g.entries.length = 0 := by rw [hkn]; exact Nat.mod_self _
    rw [hmod]
    cases hent : g.entries with
    | nil => rw [hent] at hlt; simp at hlt
    | cons e0 rest =>
      simp only [List.getElem?_cons_zero, Bool.true_and]
      by_cases hk0 : k = 0
      · -- single entry
        subst hk0
        have hlen : g.entries.length = 1 := by omega
        rw [hent] at hk hlen
        simp at hk
        subst hk
        obtain ⟨gc, ge, gs⟩ := g
        simp only at hcur hent
        subst hcur hent
        simp
        simpa using hlen
      · -- more than one entry: the last one differs from the first
        have hlen : (e0 :: rest).length ≠ 1 := by rw [← hent]; omega
        have he0 : e0 ∈ g.entries.take k := by
          rw [hent]
          cases k with
          | zero => exact absurd rfl hk0
          | succ k' => simp
        have := hpre e0 he0
        have hne : (c.ptr == e0.ptr) = false := by
          simp; exact fun h => this h.symm
        simp [hne]
        intro h; subst h; simp at hlen


/-- pointer of the cursor (`none` = nil) -/
def Group.curPtr (g : Group) : Option Nat := g.cur.map (·.ptr)

theorem nodup_ptr_ne (l : List Entry) (hnd : (l.map (·.ptr)).Nodup) (i j : Nat) (a b : Entry)
    (hi : l[i]? = some a) (hj : l[j]? = some b) (hij : i ≠ j) : a.ptr ≠ b.ptr := by
  obtain ⟨_, hpre, hpost⟩ := nodup_split l hnd j b hj
  have hilt : i < l.length := by
    rcases Nat.lt_or_ge i l.length with h | h
    · exact h
    · rw [List.getElem?_eq_none h] at hi; cases hi
  rcases Nat.lt_or_ge i j with h | h
  · apply hpre
    rw [List.mem_iff_getElem?]
    exact ⟨i, by rw [List.getElem?_take_of_lt h]; exact hi⟩
  · apply hpost
    rw [List.mem_iff_getElem?]
    refine ⟨i - (j+1), ?_⟩
    rw [List.getElem?_drop]
    have : j + 1 + (i - (j+1)) = i := by omega
    rw [this]; exact hi

theorem mem_getElem? (l : List Entry) (c : Entry) (h : c ∈ l) : ∃ k : Nat, l[k]? = some c :=
  List.mem_iff_getElem?.mp h

/-- The result of `select` on a well-formed group with at least one entry. -/
theorem select_spec (g : Group) (ds : List Nat) (hwf : g.WF) (hne : g.entries ≠ []) :
    ∃ g' b ds', select g ds = .ok (g', b, ds') ∧ g'.entries = g.entries ∧ g'.sel = g.sel ∧
      (∃ c ∈ g.entries, g'.cur = some c) ∧ (b = true ↔ g'.curPtr ≠ g.curPtr) ∧ (b = false → g' = g) := by
  obtain ⟨hnd, hcur⟩ := hwf
  have hlen : 0 < g.entries.length := List.length_pos_iff.mpr hne
  by_cases hsel : (g.sel == selRandom || g.sel == selSemiRandom) = true
  · -- random pick
    unfold select
    simp only [hsel, if_true]
    have hidx := fastRandN_lt (pop ds).1 g.entries.length hlen
    rw [List.getElem?_eq_getElem hidx]
    simp only
    generalize hn : g.entries[fastRandN (pop ds).1 g.entries.length] = n
    have hmem : n ∈ g.entries := by rw [← hn]; exact List.getElem_mem hidx
    cases hpe : ptrEq n g.cur with
    | false =>
      refine ⟨_, _, _, rfl, rfl, rfl, ⟨n, hmem, rfl⟩, ?_, ?_⟩
      · simp [Group.curPtr]
        cases hc : g.cur with
        | none => simp
        | some c => rw [hc] at hpe; simp [ptrEq] at hpe; simpa using hpe
      · simp
    | true =>
      refine ⟨_, _, _, rfl, rfl, rfl, ?_, ?_, ?_⟩
      · cases hc : g.cur with
        | none => rw [hc] at hpe; simp [ptrEq] at hpe
        | some c => exact ⟨c, hcur c hc, rfl⟩
      · simp
      · simp
  · have hsel' : (g.sel == selRandom || g.sel == selSemiRandom) = false := by
      simpa using hsel
    cases hc : g.cur with
    | none =>
      unfold select
      simp only [hsel', hc]
      cases hent : g.entries with
      | nil => exact absurd hent hne
      | cons e0 rest =>
        refine ⟨_, _, _, rfl, by simp, rfl, ⟨e0, by simp, rfl⟩, ?_, ?_⟩
        · simp [Group.curPtr, hc]
        · simp
    | some c =>
      obtain ⟨k, hk⟩ := mem_getElem? g.entries c (hcur c hc)
      rw [select_rot g ds k c hnd hk hc hsel']
      have hklt : k < g.entries.length := by
        rcases Nat.lt_or_ge k g.entries.length with h | h
        · exact h
        · rw [List.getElem?_eq_none h] at hk; cases hk
      have hidx : (k+1) % g.entries.length < g.entries.length := Nat.mod_lt _ hlen
      refine ⟨_, _, _, rfl, rfl, rfl, ⟨g.entries[(k+1) % g.entries.length], List.getElem_mem hidx, ?_⟩, ?_, ?_⟩
      · simp [List.getElem?_eq_getElem hidx]
      · simp only [decide_eq_true_eq, Group.curPtr, hc, List.getElem?_eq_getElem hidx, Option.map_some]
        constructor
        · intro h1
          have hne' : (k+1) % g.entries.length ≠ k := by
            intro heq
            rcases Nat.lt_or_ge (k+1) g.entries.length with h | h
            · rw [Nat.mod_eq_of_lt h] at heq; omega
            · have : k + 1 = g.entries.length := by omega
              rw [this, Nat.mod_self] at heq; omega
          have := nodup_ptr_ne g.entries hnd _ _ _ _ (List.getElem?_eq_getElem hidx) hk hne'
          simpa using this
        · intro h1 hl
          apply h1
          have hk0 : k = 0 := by omega
          subst hk0
          simp [hl]
          rw [List.getElem?_eq_getElem hklt] at hk
          have hk' : g.entries[0] = c := by simpa using hk
          rw [hk']
      · intro hb
        simp only [decide_eq_false_iff_not, Decidable.not_not] at hb
        have hk0 : k = 0 := by omega
        subst hk0
        obtain ⟨gc, ge, gs⟩ := g
        simp only at hc hk hb ⊢
        subst hc
        simp [hb]
        have hl : 0 < ge.length := by omega
        rw [List.getElem?_eq_getElem hl] at hk
        simpa using hk



theorem guards_nil (g : Group) (e : Bool) (ds : List Nat) (h : g.cur = none) :
    guards g e ds = (false, ds) := by
  simp [guards, h]

theorem WF_of_cur (g g' : Group) (hwf : g.WF) (he : g'.entries = g.entries)
    (hc : ∃ c ∈ g.entries, g'.cur = some c) : g'.WF := by
  obtain ⟨c, hm, hc⟩ := hc
  refine ⟨by rw [he]; exact hwf.1, ?_⟩
  intro c' hc'
  rw [hc] at hc'
  cases hc'
  rw [he]; exact hm

/-- Everything the property theorems need about one `Switch` call. -/
theorem switch_spec (g : Group) (e : Bool) (ds : List Nat) (hwf : g.WF) :
    ∃ g' b ds', switch g e ds = .ok (g', b, ds') ∧ g'.entries = g.entries ∧ g'.sel = g.sel ∧ g'.WF ∧
      (b = true ↔ g'.curPtr ≠ g.curPtr) ∧ (b = false → g' = g) ∧
      (g.entries ≠ [] → g.cur = none → g'.cur ≠ none) ∧
      (g' = g ∨ ∃ c ∈ g.entries, g'.cur = some c) := by
  unfold switch
  by_cases hlen : (g.entries.length == 0) = true
  · simp only [hlen, if_true]
    refine ⟨g, false, ds, rfl, rfl, rfl, hwf, by simp, by simp, ?_, Or.inl rfl⟩
    intro hne; exfalso; apply hne
    exact List.length_eq_zero_iff.mp (by simpa using hlen)
  · simp only [hlen]
    have hne : g.entries ≠ [] := by
      intro h; apply hlen; simp [h]
    cases hg : guards g e ds with
    | mk stop ds1 =>
      cases stop with
      | true =>
        refine ⟨g, false, ds1, rfl, rfl, rfl, hwf, by simp, by simp, ?_, Or.inl rfl⟩
        intro _ hc
        rw [guards_nil g e ds hc] at hg
        cases hg
      | false =>
        obtain ⟨g', b, ds', hs, he, hsl, hc, hb, hf⟩ := select_spec g ds1 hwf hne
        refine ⟨g', b, ds', by simpa using hs, he, hsl, WF_of_cur g g' hwf he hc, hb, hf, ?_, Or.inr hc⟩
        intro _ _
        obtain ⟨c, _, hc⟩ := hc
        rw [hc]; simp



theorem init_spec (g : Group) (ds : List Nat) (hwf : g.WF) :
    ∃ g' ds', init g ds = .ok (g', ds') ∧ g'.entries = g.entries ∧ g'.sel = g.sel ∧ g'.WF ∧
      (∀ c, g.cur = some c → g' = g ∧ ds' = ds) ∧ (g.entries ≠ [] → g'.cur ≠ none) := by
  unfold init
  cases hc : g.cur with
  | some c =>
    refine ⟨g, ds, rfl, rfl, rfl, hwf, fun _ _ => ⟨rfl, rfl⟩, ?_⟩
    intro _; rw [hc]; simp
  | none =>
    obtain ⟨g', b, ds', hs, he, hsl, hwf', _, _, hset, _⟩ := switch_spec g false ds hwf
    simp only [hs]
    refine ⟨g', ds', rfl, he, hsl, hwf', ?_, fun hne => hset hne hc⟩
    intro c h; cases h

/-- what "the active entry's own value" means for every accessor -/
def Own (c : Entry) : Op → Obs → Prop
  | .next, .next h w t => w = c.w ∧ t = c.t ∧ (h ∈ c.hosts ∨ (c.hosts = [] ∧ h = []))
  | .sleep, .sleep d => d = c.sleep
  | .jitter, .jitter j => j = c.jitter
  | .kill, .kill k s => k = c.kill ∧ s = c.kds
  | .work, .work w => w = c.work
  | .trusted e h, .trusted b => b = c.trustedKey e h
  | .conn, .conn x => x = c.conn
  | .switch _, .switched b => b = false
  | _, _ => False

theorem Entry.next_spec (c : Entry) (ds : List Nat) :
    ∃ h ds', c.next ds = .ok ((h, c.w, c.t), ds') ∧ (h ∈ c.hosts ∨ (c.hosts = [] ∧ h = [])) := by
  unfold Entry.next
  cases hh : c.hosts with
  | nil => exact ⟨[], ds, rfl, Or.inr ⟨rfl, rfl⟩⟩
  | cons h1 t1 =>
    cases t1 with
    | nil => exact ⟨h1, ds, rfl, Or.inl (by simp)⟩
    | cons h2 t2 =>
      simp only
      have hidx := fastRandN_lt (pop ds).1 (h1 :: h2 :: t2).length (by simp)
      rw [List.getElem?_eq_getElem hidx]
      exact ⟨_, _, rfl, Or.inl (List.getElem_mem hidx)⟩

theorem obsOf_spec (c : Entry) (op : Op) (ds : List Nat) :
    ∃ o ds', obsOf c op ds = .ok (o, ds') ∧ Own c op o := by
  cases op with
  | next =>
    obtain ⟨h, ds', hn, hh⟩ := Entry.next_spec c ds
    exact ⟨.next h c.w c.t, ds', by simp [obsOf, hn], ⟨rfl, rfl, hh⟩⟩
  | switch e => exact ⟨_, _, rfl, rfl⟩
  | sleep => exact ⟨_, _, rfl, rfl⟩
  | jitter => exact ⟨_, _, rfl, rfl⟩
  | kill => exact ⟨_, _, rfl, ⟨rfl, rfl⟩⟩
  | work => exact ⟨_, _, rfl, rfl⟩
  | trusted e h => exact ⟨_, _, rfl, rfl⟩
  | conn => exact ⟨_, _, rfl, rfl⟩

def Op.isSwitch : Op → Bool
  | .switch _ => true
  | _ => false

theorem step_switch (g : Group) (e : Bool) (ds : List Nat) :
    step g (.switch e) ds = match switch g e ds with
      | .ok (g', b, ds') => .ok (g', .switched b, ds')
      | .panic s => .panic s := rfl

theorem step_acc (g : Group) (op : Op) (ds : List Nat) (h : op.isSwitch = false) :
    step g op ds = match init g ds with
      | .panic s => .panic s
      | .ok (g', ds') =>
        match g'.cur with
        | none => .ok (g', obsNil op, ds')
        | some c =>
          match obsOf c op ds' with
          | .ok (o, ds'') => .ok (g', o, ds'')
          | .panic s => .panic s := by
  cases op <;> first | rfl | (simp [Op.isSwitch] at h)

/-- One accessor call: the cursor is initialised if needed, never moved once set, and the value
returned is the active entry's own. -/
theorem step_acc_spec (g : Group) (op : Op) (ds : List Nat) (hwf : g.WF) (hop : op.isSwitch = false) :
    ∃ g' o ds', step g op ds = .ok (g', o, ds') ∧ g'.entries = g.entries ∧ g'.sel = g.sel ∧ g'.WF ∧
      (∀ c, g.cur = some c → g' = g) ∧
      (g.entries ≠ [] → ∃ c ∈ g.entries, g'.cur = some c ∧ Own c op o) := by
  rw [step_acc g op ds hop]
  obtain ⟨g', ds', hi, he, hs, hwf', hsame, hset⟩ := init_spec g ds hwf
  simp only [hi]
  cases hc : g'.cur with
  | none =>
    refine ⟨g', obsNil op, ds', rfl, he, hs, hwf', fun c h => (hsame c h).1, ?_⟩
    intro hne; exact absurd hc (hset hne)
  | some c =>
    obtain ⟨o, ds'', ho, hown⟩ := obsOf_spec c op ds'
    simp only [ho]
    refine ⟨g', o, ds'', rfl, he, hs, hwf', fun c h => (hsame c h).1, ?_⟩
    intro _
    exact ⟨c, by rw [← he]; exact hwf'.2 c hc, hc, hown⟩



/-- the six selector ids are pairwise distinct (obligation on the regenerated facts) -/
theorem sel_distinct :
    [selLastValid, selRoundRobin, selRandom, selSemiRoundRobin, selSemiRandom, selSemiLastValid].Nodup := by
  decide

theorem guards_plain (g : Group) (e : Bool) (ds : List Nat)
    (h1 : g.sel ≠ selLastValid) (h2 : g.sel ≠ selSemiLastValid) (h3 : g.sel ≠ selSemiRandom)
    (h4 : g.sel ≠ selSemiRoundRobin) : guards g e ds = (false, ds) := by
  unfold guards
  split
  · simp [h1, h2, h3, h4]
  · rfl

theorem guards_lastValid (g : Group) (e : Bool) (ds : List Nat) (c : Entry) (hc : g.cur = some c)
    (hs : g.sel = selLastValid) : guards g e ds = (!e, ds) := by
  have h2 : (selLastValid == selSemiLastValid) = false := by decide
  have h3 : (selLastValid == selSemiRandom) = false := by decide
  have h4 : (selLastValid == selSemiRoundRobin) = false := by decide
  unfold guards
  cases e <;> simp [hc, hs, h2, h3, h4]

theorem guards_semi (g : Group) (e : Bool) (ds : List Nat) (c : Entry) (hc : g.cur = some c)
    (hs : g.sel = selSemiRoundRobin ∨ g.sel = selSemiRandom) :
    guards g e ds = (fastRandN (pop ds).1 semiN != 0, (pop ds).2) := by
  have a1 : (selSemiRoundRobin == selLastValid) = false := by decide
  have a2 : (selSemiRoundRobin == selSemiLastValid) = false := by decide
  have b1 : (selSemiRandom == selLastValid) = false := by decide
  have b2 : (selSemiRandom == selSemiLastValid) = false := by decide
  unfold guards
  rcases hs with hs | hs <;> cases e <;> simp [hc, hs, a1, a2, b1, b2]

theorem guards_semiLastValid (g : Group) (e : Bool) (ds : List Nat) (c : Entry) (hc : g.cur = some c)
    (hs : g.sel = selSemiLastValid) :
    guards g e ds = if e then (false, ds) else (fastRandN (pop ds).1 semiN != 0, (pop ds).2) := by
  have a1 : (selSemiLastValid == selLastValid) = false := by decide
  have a2 : (selSemiLastValid == selSemiRandom) = false := by decide
  have a3 : (selSemiLastValid == selSemiRoundRobin) = false := by decide
  unfold guards
  cases e <;> simp [hc, hs, a1, a2, a3]
  by_cases h : fastRandN (pop ds).1 semiN = 0 <;> simp [h]



/-- the round-robin step from position `k`: next entry in order, wrapping to the first; reports a
change unless there is only one entry -/
def rotStep (g : Group) (k : Nat) : Group × Bool :=
  ({ g with cur := g.entries[(k+1) % g.entries.length]? }, decide (g.entries.length ≠ 1))

/-- the random selection with the next PRNG word -/
def pick (g : Group) (ds : List Nat) : Outcome (Group × Bool × List Nat) :=
  match g.entries[fastRandN (pop ds).1 g.entries.length]? with
  | none => .panic "Switch: g.entries[FastRandN(len)]"
  | some n =>
    if !ptrEq n g.cur then .ok ({ g with cur := some n }, true, (pop ds).2)
    else .ok (g, false, (pop ds).2)

theorem select_random (g : Group) (ds : List Nat)
    (hs : g.sel = selRandom ∨ g.sel = selSemiRandom) : select g ds = pick g ds := by
  have h : (g.sel == selRandom || g.sel == selSemiRandom) = true := by
    rcases hs with hs | hs <;> simp [hs]
  unfold select pick
  simp only [h, if_true]
  cases g.entries[fastRandN (pop ds).1 g.entries.length]? <;> rfl

theorem pick_spec (g : Group) (ds : List Nat) (hne : g.entries ≠ []) :
    ∃ n ∈ g.entries, pick g ds =
      .ok (if ptrEq n g.cur then g else { g with cur := some n }, !ptrEq n g.cur, (pop ds).2) := by
  have hlen : 0 < g.entries.length := List.length_pos_iff.mpr hne
  have hidx := fastRandN_lt (pop ds).1 g.entries.length hlen
  refine ⟨g.entries[fastRandN (pop ds).1 g.entries.length], List.getElem_mem hidx, ?_⟩
  unfold pick
  rw [List.getElem?_eq_getElem hidx]
  simp only
  cases ptrEq g.entries[fastRandN (pop ds).1 g.entries.length] g.cur <;> simp

theorem not_random_of (g : Group) (h1 : g.sel ≠ selRandom) (h2 : g.sel ≠ selSemiRandom) :
    (g.sel == selRandom || g.sel == selSemiRandom) = false := by simp [h1, h2]

theorem length_ne_zero (g : Group) (k : Nat) (c : Entry) (hk : g.entries[k]? = some c) :
    (g.entries.length == 0) = false := by
  cases h : g.entries with
  | nil => rw [h] at hk; simp at hk
  | cons a b => simp

/-- `Switch` when the guards let it through and the selector is not a random one: the rotation -/
theorem switch_rot (g : Group) (e : Bool) (ds ds1 : List Nat) (k : Nat) (c : Entry)
    (hnd : (g.entries.map (·.ptr)).Nodup) (hk : g.entries[k]? = some c) (hcur : g.cur = some c)
    (hsel : (g.sel == selRandom || g.sel == selSemiRandom) = false)
    (hg : guards g e ds = (false, ds1)) :
    switch g e ds = .ok ((rotStep g k).1, (rotStep g k).2, ds1) := by
  unfold switch
  simp only [length_ne_zero g k c hk, hg]
  exact select_rot g ds1 k c hnd hk hcur hsel

theorem switch_stop (g : Group) (e : Bool) (ds ds1 : List Nat) (k : Nat) (c : Entry)
    (hk : g.entries[k]? = some c) (hg : guards g e ds = (true, ds1)) :
    switch g e ds = .ok (g, false, ds1) := by
  unfold switch
  simp only [length_ne_zero g k c hk, hg]
  rfl

/-- first use (cursor nil), non-random selector: the first (highest weight) entry -/
theorem switch_first (g : Group) (e : Bool) (ds : List Nat) (hcur : g.cur = none) (hne : g.entries ≠ [])
    (hsel : (g.sel == selRandom || g.sel == selSemiRandom) = false) :
    switch g e ds = .ok ({ g with cur := g.entries[0]? }, true, ds) := by
  unfold switch
  have hl : (g.entries.length == 0) = false := by
    cases h : g.entries with
    | nil => exact absurd h hne
    | cons a b => simp
  simp only [hl, guards_nil g e ds hcur]
  unfold select
  simp only [hsel, hcur]
  cases h : g.entries with
  | nil => exact absurd h hne
  | cons a b => simp

theorem switch_first_random (g : Group) (e : Bool) (ds : List Nat) (hcur : g.cur = none) (hne : g.entries ≠ [])
    (hs : g.sel = selRandom ∨ g.sel = selSemiRandom) : switch g e ds = pick g ds := by
  unfold switch
  have hl : (g.entries.length == 0) = false := by
    cases h : g.entries with
    | nil => exact absurd h hne
    | cons a b => simp
  simp only [hl, guards_nil g e ds hcur]
  exact select_random g ds hs



theorem insRev_perm (x : Entry) (l : List Entry) : (insRev x l).Perm (x :: l) := by
  induction l with
  | nil => exact List.Perm.refl _
  | cons y ys ih =>
    unfold insRev
    split
    · exact ((List.Perm.cons y ih).trans (List.Perm.swap x y ys))
    · exact List.Perm.refl _

theorem insRev_sorted (x : Entry) (l : List Entry) (h : l.Pairwise (fun a b => a.weight ≤ b.weight)) :
    (insRev x l).Pairwise (fun a b => a.weight ≤ b.weight) := by
  induction l with
  | nil => simp [insRev]
  | cons y ys ih =>
    rw [List.pairwise_cons] at h
    unfold insRev
    split
    · rename_i hlt
      rw [List.pairwise_cons]
      refine ⟨?_, ih h.2⟩
      intro z hz
      have := (insRev_perm x ys).mem_iff.mp hz
      rcases List.mem_cons.mp this with rfl | hz'
      · omega
      · exact h.1 z hz'
    · rename_i hge
      rw [List.pairwise_cons]
      refine ⟨?_, List.pairwise_cons.mpr h⟩
      intro z hz
      rcases List.mem_cons.mp hz with rfl | hz'
      · omega
      · have := h.1 z hz'; omega

theorem foldl_insRev (l acc : List Entry) (h : acc.Pairwise (fun a b => a.weight ≤ b.weight)) :
    (l.foldl (fun acc x => insRev x acc) acc).Pairwise (fun a b => a.weight ≤ b.weight) ∧
    (l.foldl (fun acc x => insRev x acc) acc).Perm (acc ++ l) := by
  induction l generalizing acc with
  | nil => simp [h]
  | cons x xs ih =>
    simp only [List.foldl_cons]
    obtain ⟨h1, h2⟩ := ih (insRev x acc) (insRev_sorted x acc h)
    refine ⟨h1, h2.trans ?_⟩
    have : (insRev x acc ++ xs).Perm ((x :: acc) ++ xs) := List.Perm.append_right xs (insRev_perm x acc)
    refine this.trans ?_
    exact (List.perm_middle (a := x) (l₁ := acc) (l₂ := xs)).symm

theorem sortDesc_sorted (l : List Entry) : (sortDesc l).Pairwise (fun a b => a.weight ≥ b.weight) := by
  unfold sortDesc
  rw [List.pairwise_reverse]
  exact (foldl_insRev l [] List.Pairwise.nil).1

theorem sortDesc_perm (l : List Entry) : (sortDesc l).Perm l := by
  unfold sortDesc
  exact (List.reverse_perm _).trans (by simpa using (foldl_insRev l [] List.Pairwise.nil).2)



/-- Any single call (Switch or accessor) on a well-formed group. -/
theorem step_spec (g : Group) (op : Op) (ds : List Nat) (hwf : g.WF) :
    ∃ g' o ds', step g op ds = .ok (g', o, ds') ∧ g'.entries = g.entries ∧ g'.sel = g.sel ∧ g'.WF ∧
      (g.entries ≠ [] → ∃ c ∈ g.entries, g'.cur = some c) := by
  cases hop : op.isSwitch with
  | false =>
    obtain ⟨g', o, ds', hs, he, hsl, hwf', _, hown⟩ := step_acc_spec g op ds hwf hop
    refine ⟨g', o, ds', hs, he, hsl, hwf', ?_⟩
    intro hne
    obtain ⟨c, hm, hc, _⟩ := hown hne
    exact ⟨c, hm, hc⟩
  | true =>
    cases op with
    | switch e =>
      obtain ⟨g', b, ds', hs, he, hsl, hwf', _, _, hset, hor⟩ := switch_spec g e ds hwf
      refine ⟨g', .switched b, ds', by rw [step_switch, hs], he, hsl, hwf', ?_⟩
      intro hne
      rcases hor with rfl | h
      · cases hc : g'.cur with
        | none => exact absurd hc (hset hne hc)
        | some c => exact ⟨c, hwf.2 c hc, rfl⟩
      · exact h
    | _ => simp [Op.isSwitch] at hop

/-- Every call history runs without panic, keeps the entries and the selector, and leaves the
cursor on one of the entries. -/
theorem run_spec (g : Group) (ops : List (Op × List Nat)) (hwf : g.WF) :
    ∃ g' os, run g ops = .ok (g', os) ∧ g'.entries = g.entries ∧ g'.sel = g.sel ∧ g'.WF ∧
      os.length = ops.length ∧
      (ops ≠ [] → g.entries ≠ [] → ∃ c ∈ g.entries, g'.cur = some c) := by
  induction ops generalizing g with
  | nil => exact ⟨g, [], rfl, rfl, rfl, hwf, rfl, fun h => absurd rfl h⟩
  | cons od rest ih =>
    obtain ⟨op, ds⟩ := od
    obtain ⟨g1, o, ds', hs, he, hsl, hwf1, hc1⟩ := step_spec g op ds hwf
    obtain ⟨g2, os, hr, he2, hsl2, hwf2, hlen, hc2⟩ := ih g1 hwf1
    refine ⟨g2, o :: os, ?_, he2.trans he, hsl2.trans hsl, hwf2, by simp [hlen], ?_⟩
    · simp only [run, hs, hr]
    · intro _ hne
      cases rest with
      | nil =>
        simp only [run] at hr
        cases hr
        exact hc1 hne
      | cons a b =>
        obtain ⟨c, hm, hc⟩ := hc2 (by simp) (by rw [he]; exact hne)
        exact ⟨c, by rw [← he]; exact hm, hc⟩

/-- number of Switch calls in a history -/
def countSw (ops : List (Op × List Nat)) : Nat := (ops.filter (·.1.isSwitch)).length

/-- last-valid: with the cursor set, a history without a failure report leaves the group untouched -/
theorem lastValid_run (g : Group) (c : Entry) (hwf : g.WF) (hs : g.sel = selLastValid) (hc : g.cur = some c)
    (ops : List (Op × List Nat)) (hno : ∀ od ∈ ops, od.1 ≠ .switch true) :
    ∃ os, run g ops = .ok (g, os) := by
  induction ops with
  | nil => exact ⟨[], rfl⟩
  | cons od rest ih =>
    obtain ⟨op, ds⟩ := od
    obtain ⟨os, hr⟩ := ih (fun od h => hno od (by simp [h]))
    have hop := hno (op, ds) (by simp)
    obtain ⟨k, hk⟩ := mem_getElem? g.entries c (hwf.2 c hc)
    cases hsw : op.isSwitch with
    | false =>
      obtain ⟨g', o, ds', hst, _, _, _, hsame, _⟩ := step_acc_spec g op ds hwf hsw
      have := hsame c hc
      subst this
      exact ⟨o :: os, by simp only [run, hst, hr]⟩
    | true =>
      cases op with
      | switch e =>
        cases e with
        | true => exact absurd rfl hop
        | false =>
          have hg := guards_lastValid g false ds c hc hs
          have := switch_stop g false ds ds k c hk (by simpa using hg)
          exact ⟨.switched false :: os, by simp only [run, step_switch, this, hr]⟩
      | _ => simp [Op.isSwitch] at hsw



/-- a selector value for which `Switch` has no early-return guard and no random pick: round-robin
(and every value that is none of the six ids, e.g. 0 = no selector configured) -/
def Plain (s : Nat) : Prop :=
  s ≠ selLastValid ∧ s ≠ selSemiLastValid ∧ s ≠ selSemiRandom ∧ s ≠ selSemiRoundRobin ∧ s ≠ selRandom

instance (s : Nat) : Decidable (Plain s) := by unfold Plain; infer_instance

theorem plain_step (g : Group) (hwf : g.WF) (hp : Plain g.sel) (k : Nat) (c : Entry)
    (hk : g.entries[k]? = some c) (hc : g.cur = some c) (e : Bool) (ds : List Nat) :
    switch g e ds = .ok ((rotStep g k).1, (rotStep g k).2, ds) :=
  switch_rot g e ds ds k c hwf.1 hk hc (not_random_of g hp.2.2.2.2 hp.2.2.1)
    (guards_plain g e ds hp.1 hp.2.1 hp.2.2.1 hp.2.2.2.1)

theorem getElem?_lt {l : List Entry} {k : Nat} {c : Entry} (hk : l[k]? = some c) : k < l.length := by
  rcases Nat.lt_or_ge k l.length with h | h
  · exact h
  · rw [List.getElem?_eq_none h] at hk; cases hk

theorem plain_run (ops : List (Op × List Nat)) (g : Group) (hwf : g.WF) (hp : Plain g.sel) (k : Nat) (c : Entry)
    (hk : g.entries[k]? = some c) (hc : g.cur = some c) :
    ∃ os, run g ops = .ok ({ g with cur := g.entries[(k + countSw ops) % g.entries.length]? }, os) := by
  induction ops generalizing g k c with
  | nil =>
    refine ⟨[], ?_⟩
    have hlt := getElem?_lt hk
    simp only [run, countSw, List.filter_nil, List.length_nil, Nat.add_zero, Nat.mod_eq_of_lt hlt, hk]
    obtain ⟨gc, ge, gs⟩ := g
    simp only at hc
    subst hc; rfl
  | cons od rest ih =>
    obtain ⟨op, ds⟩ := od
    cases hsw : op.isSwitch with
    | false =>
      obtain ⟨g', o, ds', hst, _, _, _, hsame, _⟩ := step_acc_spec g op ds hwf hsw
      have := hsame c hc
      subst this
      obtain ⟨os, hr⟩ := ih g' hwf hp k c hk hc
      refine ⟨o :: os, ?_⟩
      have hcnt : countSw ((op, ds) :: rest) = countSw rest := by simp [countSw, hsw]
      simp only [run, hst, hr, hcnt]
    | true =>
      cases op with
      | switch e =>
        have hstep := plain_step g hwf hp k c hk hc e ds
        have hlen : 0 < g.entries.length := Nat.lt_of_le_of_lt (Nat.zero_le _) (getElem?_lt hk)
        have hidx : (k+1) % g.entries.length < g.entries.length := Nat.mod_lt _ hlen
        let g1 : Group := (rotStep g k).1
        have hg1e : g1.entries = g.entries := rfl
        have hg1c : g1.cur = some g.entries[(k+1) % g.entries.length] := by
          show g.entries[(k+1) % g.entries.length]? = _
          exact List.getElem?_eq_getElem hidx
        have hwf1 : g1.WF := WF_of_cur g g1 hwf hg1e ⟨_, List.getElem_mem hidx, hg1c⟩
        obtain ⟨os, hr⟩ := ih g1 hwf1 hp ((k+1) % g.entries.length) _ (List.getElem?_eq_getElem hidx) hg1c
        refine ⟨.switched (rotStep g k).2 :: os, ?_⟩
        have hcnt : countSw ((Op.switch e, ds) :: rest) = countSw rest + 1 := by simp [countSw, Op.isSwitch]
        have harith : ((k+1) % g.entries.length + countSw rest) % g.entries.length
            = (k + (countSw rest + 1)) % g.entries.length := by
          rw [Nat.mod_add_mod]; congr 1; omega
        simp only [run, step_switch, hstep, hcnt]
        rw [hr]
        simp only [hg1e, harith]
        rfl
      | _ => simp [Op.isSwitch] at hsw



theorem init_first (g : Group) (ds : List Nat) (hcur : g.cur = none) (hne : g.entries ≠ [])
    (hsel : (g.sel == selRandom || g.sel == selSemiRandom) = false) :
    init g ds = .ok ({ g with cur := g.entries[0]? }, ds) := by
  unfold init
  simp only [hcur, switch_first g false ds hcur hne hsel]

/-- first call of any kind on a fresh group with a non-random selector activates the first entry -/
theorem step_first (g : Group) (op : Op) (ds : List Nat) (hcur : g.cur = none) (hne : g.entries ≠ [])
    (hsel : (g.sel == selRandom || g.sel == selSemiRandom) = false) :
    ∃ o ds', step g op ds = .ok ({ g with cur := g.entries[0]? }, o, ds') := by
  cases hsw : op.isSwitch with
  | true =>
    cases op with
    | switch e => exact ⟨.switched true, ds, by rw [step_switch, switch_first g e ds hcur hne hsel]⟩
    | _ => simp [Op.isSwitch] at hsw
  | false =>
    rw [step_acc g op ds hsw, init_first g ds hcur hne hsel]
    cases hent : g.entries with
    | nil => exact absurd hent hne
    | cons e0 rest =>
      simp only [List.getElem?_cons_zero]
      obtain ⟨o, ds', ho, _⟩ := obsOf_spec e0 op ds
      exact ⟨o, ds', by simp only [ho]⟩

theorem globalSel_append (a b : List Nat) :
    globalSel (a ++ b) = b.foldl (fun g s => if s > 0 then s % 256 else g) (globalSel a) := by
  simp [globalSel, List.foldl_append]

theorem foldl_zero (post : List Nat) (g0 : Nat) (h : ∀ x ∈ post, x = 0) :
    post.foldl (fun g s => if s > 0 then s % 256 else g) g0 = g0 := by
  induction post generalizing g0 with
  | nil => rfl
  | cons x xs ih =>
    have hx := h x (by simp)
    subst hx
    simp only [List.foldl_cons]
    exact ih _ (fun y hy => h y (by simp [hy]))

/-- the selector `Build` keeps is the last one configured -/
theorem globalSel_last (pre post : List Nat) (s : Nat) (hs : 0 < s) (hb : s < 256)
    (hpost : ∀ x ∈ post, x = 0) : globalSel (pre ++ s :: post) = s := by
  rw [globalSel_append]
  simp only [List.foldl_cons, hs, if_true, gt_iff_lt]
  rw [foldl_zero post _ hpost]
  exact Nat.mod_eq_of_lt hb


end XMT.Group
