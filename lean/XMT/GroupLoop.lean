/-
  XMT.GroupLoop — executable model of the connection loop `(*Session).listen` (c2/session.go)
  COMPOSED with the real Profile it drives: a multi-group `*cfg.Group` (model XMT/Group.lean).
  Core-only.

  What is modelled, literally, per turn of `for s.wait(); ; s.wait() { … }`:

      if s.p.Switch(e) {
          var h string
          if h, s.w, s.t = s.p.Next(); len(h) > 0 { s.host.Set(h) }
          if s.errors > 0 { s.errors-- }            // (repaired: was `s.errors--` on a uint8)
      }
      c, err := s.p.Connect(s.ctx, s.host.String())
      if e = false; err != nil {
          if e = true; s.errors <= maxErrors { s.errors++; continue }
          break
      }
      if e = !s.session(c); e { s.errors++ } else { s.errors = 0 }
      if c.Close(); s.errors > maxErrors { break }

  with `s.p` a `*Group`: `Switch` = `Group.switch`, `Next` = `Group.Next` (init, then the active
  entry's `Next`), `Connect` = `Group.Connect` (init, then the active entry's connector, or
  ErrNotAConnector).  The PRNG words drawn inside group.go form ONE stream that is consumed in call
  order (Switch's stay/go word, the random pick, the host pick of `Next`).

  Not modelled (does not happen in the scripted world the harness runs the real loop in): time
  (`wait`: no kill date, no work hours, jitter off, so no PRNG word is drawn there), Close /
  context cancellation / shutdown flag, profile swap, migration.  These are the subject of
  XMT/ClientLoop.lean (C19), whose `Res` and `maxErrors` are reused here.
-/
import XMT.Group
import XMT.ClientLoop
namespace XMT.GroupLoop
open XMT XMT.Group

abbrev Res := Client.Res

/-- what is observed at one call of `s.p.Connect` -/
structure Conn where
  swArg : Bool          -- the argument `e` of `s.p.Switch(e)` in this turn
  swRes : Bool          -- what `Switch` reported
  cur : Option Nat      -- address of the Group's active entry when the connector is called
  host : Bytes          -- `s.host.String()` handed to Connect
  w : Nat               -- s.w
  t : Nat               -- s.t
  errs : Nat            -- s.errors when Connect is called
  res : Res             -- outcome of the attempt
  deriving DecidableEq, Repr

structure St where
  g : Group
  host : Bytes := []
  w : Nat := 0
  t : Nat := 0
  errors : Nat := 0     -- uint8
  e : Bool := false
  ds : List Nat := []   -- PRNG words not yet consumed
  trace : List Conn := []
  deriving Repr

/-- `func (g *Group) Next()`: `if g.init(); g.cur == nil { return "", nil, nil }; return g.cur.Next()` -/
def gNext (g : Group) (ds : List Nat) : Outcome (Group × (Bytes × Nat × Nat) × List Nat) :=
  match init g ds with
  | .panic s => .panic s
  | .ok (g', ds') =>
    match g'.cur with
    | none => .ok (g', ([], 0, 0), ds')
    | some c =>
      match c.next ds' with
      | .ok (x, ds'') => .ok (g', x, ds'')
      | .panic s => .panic s

/-- `func (g *Group) Connect`: `if g.init(); g.cur == nil { return nil, ErrNotAConnector }`, then
`p.conn.(Connector)` (connection hint tag: `2 * connector class + accepter flag`, class 0 = not a
Connector → ErrNotAConnector), else the connector decides (`r`). -/
def gConnect (g : Group) (ds : List Nat) (r : Res) : Outcome (Group × Res × List Nat) :=
  match init g ds with
  | .panic s => .panic s
  | .ok (g', ds') =>
    match g'.cur with
    | none => .ok (g', .fail, ds')
    | some c => .ok (g', if c.conn / 2 == 0 then .fail else r, ds')

/-- `if s.errors > 0 { s.errors-- }` -/
def errDec (n : Nat) : Nat := if n > 0 then n - 1 else n

/-- the `if s.p.Switch(e) { … }` block -/
def doSwitch (st : St) : Outcome (St × Bool) :=
  match switch st.g st.e st.ds with
  | .panic s => .panic s
  | .ok (g1, false, ds1) => .ok ({ st with g := g1, ds := ds1 }, false)
  | .ok (g1, true, ds1) =>
    match gNext g1 ds1 with
    | .panic s => .panic s
    | .ok (g2, (h, w, t), ds2) =>
      .ok ({ st with g := g2, ds := ds2, host := if h.length > 0 then h else st.host, w := w, t := t,
                     errors := errDec st.errors }, true)

def maxErrors : Nat := Client.maxErrors

/-- the part of a turn after `Connect` returned `r`: `(state, loop goes on)` -/
def account (st : St) (r : Res) : St × Bool :=
  match r with
  | .fail =>
    if st.errors ≤ maxErrors then ({ st with errors := (st.errors + 1) % 256, e := true }, true)
    else ({ st with e := true }, false)
  | .sessErr =>
    let st := { st with errors := (st.errors + 1) % 256, e := true }
    (st, !decide (st.errors > maxErrors))
  | .ok =>
    let st := { st with errors := 0, e := false }
    (st, !decide (st.errors > maxErrors))

/-- one turn of the loop; `r` is what the scripted connector does with this attempt -/
def turn (st : St) (r : Res) : Outcome (St × Bool) :=
  match doSwitch st with
  | .panic s => .panic s
  | .ok (st1, b) =>
    match gConnect st1.g st1.ds r with
    | .panic s => .panic s
    | .ok (g2, r', ds2) =>
      let cn : Conn := { swArg := st.e, swRes := b, cur := g2.cur.map (·.ptr), host := st1.host,
                         w := st1.w, t := st1.t, errs := st1.errors, res := r' }
      .ok (account { st1 with g := g2, ds := ds2, trace := st1.trace ++ [cn] } r')

/-- the loop over a script of connector outcomes: `(state, true)` = the script ran out with the loop
still going, `(state, false)` = the loop gave up ("Too many errors") -/
def run : List Res → St → Outcome (St × Bool)
  | [], st => .ok (st, true)
  | r :: rs, st =>
    match turn st r with
    | .panic s => .panic s
    | .ok (st', true) => run rs st'
    | .ok (st', false) => .ok (st', false)

/-- what `connectContextInner` did before the loop starts: `h, s.w, s.t = p.Next(); s.host.Set(h)` -/
def start (g : Group) (ds : List Nat) : Outcome St :=
  match gNext g ds with
  | .panic s => .panic s
  | .ok (g', (h, w, t), ds') => .ok { g := g', host := h, w := w, t := t, ds := ds' }

/-- start, then the loop -/
def session (g : Group) (ds : List Nat) (script : List Res) : Outcome (St × Bool) :=
  match start g ds with
  | .panic s => .panic s
  | .ok st => run script st

end XMT.GroupLoop
