/-
  Lemmas about XMT/GroupLoop.lean (the connection loop composed with a multi-group profile).
-/
import XMT.GroupLoop
import XMT.GroupLemmas
namespace XMT.GroupLoop
open XMT XMT.Group

/-- every group names at least one host and no host is the empty string (`len(h) > 0` in listen) -/
def HostsNE (g : Group) : Prop := ∀ c ∈ g.entries, c.hosts ≠ [] ∧ [] ∉ c.hosts

instance (g : Group) : Decidable (HostsNE g) := by unfold HostsNE; infer_instance

/-- errors after an attempt that was entered with `errs` -/
def errsAfter (a : Conn) : Nat := if a.res = .ok then 0 else a.errs + 1

/-- the loop invariant: s.host / s.w / s.t are the active entry's own, the error counter is small -/
def Inv (st : St) : Prop :=
  st.g.WF ∧ st.errors ≤ maxErrors + 1 ∧
  ∃ c ∈ st.g.entries, st.g.cur = some c ∧ st.w = c.w ∧ st.t = c.t ∧ st.host ∈ c.hosts

theorem maxErrors_small : maxErrors + 2 < 256 := by decide

theorem init_cur (g : Group) (ds : List Nat) (c : Entry) (h : g.cur = some c) : init g ds = .ok (g, ds) := by
  unfold init; simp only [h]

theorem group_eta (g g0 : Group) (he : g.entries = g0.entries) (hs : g.sel = g0.sel) (c : Entry)
    (hc : g.cur = some c) : g = { g0 with cur := some c } := by
  cases g; cases g0; simp_all

theorem gNext_spec (g : Group) (ds : List Nat) (hwf : g.WF) (hne : g.entries ≠ []) :
    ∃ g' h w t ds', gNext g ds = .ok (g', (h, w, t), ds') ∧ g'.entries = g.entries ∧ g'.sel = g.sel ∧ g'.WF ∧
      (∀ c, g.cur = some c → g' = g) ∧
      ∃ c ∈ g.entries, g'.cur = some c ∧ w = c.w ∧ t = c.t ∧ (h ∈ c.hosts ∨ (c.hosts = [] ∧ h = [])) := by
  obtain ⟨g', ds', hi, he, hs, hwf', hsame, hcur⟩ := init_spec g ds hwf
  have hc := hcur hne
  cases hcc : g'.cur with
  | none => exact absurd hcc hc
  | some c =>
    obtain ⟨h, ds'', hn, hh⟩ := Entry.next_spec c ds'
    refine ⟨g', h, c.w, c.t, ds'', ?_, he, hs, hwf', fun c0 h0 => (hsame c0 h0).1, c, ?_, hcc, rfl, rfl, hh⟩
    · unfold gNext; simp only [hi, hcc, hn]
    · rw [← he]; exact hwf'.2 c hcc

theorem gConnect_cur (g : Group) (ds : List Nat) (r : Res) (c : Entry) (h : g.cur = some c) :
    gConnect g ds r = .ok (g, if c.conn / 2 == 0 then .fail else r, ds) := by
  unfold gConnect; simp only [init_cur g ds c h, h]

/-- the `if s.p.Switch(e) { … }` block is exactly one call of `Group.switch`, and `Next` is consulted
iff it reported a change -/
theorem doSwitch_spec (st : St) (hinv : Inv st) (hh : HostsNE st.g) :
    ∃ g1 b ds1 st1, switch st.g st.e st.ds = .ok (g1, b, ds1) ∧ doSwitch st = .ok (st1, b) ∧
      st1.g = g1 ∧ Inv st1 ∧ st1.g.entries = st.g.entries ∧ st1.g.sel = st.g.sel ∧
      st1.trace = st.trace ∧ st1.e = st.e ∧
      (b = false → st1.g = st.g ∧ st1.host = st.host ∧ st1.w = st.w ∧ st1.t = st.t ∧
        st1.errors = st.errors ∧ st1.ds = ds1) ∧
      (b = true → st1.errors = errDec st.errors ∧ st1.g.curPtr ≠ st.g.curPtr) := by
  obtain ⟨hwf, herr, c, hm, hc, hw, ht, hho⟩ := hinv
  obtain ⟨g1, b, ds1, hs, he, hsel, hwf1, hb, hf, _, hor⟩ := switch_spec st.g st.e st.ds hwf
  cases b with
  | false =>
    have hg := hf rfl
    refine ⟨g1, false, ds1, { st with g := g1, ds := ds1 }, hs, ?_, rfl, ?_, he, hsel, rfl, rfl, ?_, ?_⟩
    · unfold doSwitch; simp only [hs]
    · refine ⟨hwf1, herr, c, ?_, ?_, hw, ht, hho⟩
      · show c ∈ g1.entries; rw [he]; exact hm
      · show g1.cur = some c; rw [hg]; exact hc
    · intro _; exact ⟨hg, rfl, rfl, rfl, rfl, rfl⟩
    · intro h; cases h
  | true =>
    have hne : g1.entries ≠ [] := by rw [he]; intro h; rw [h] at hm; cases hm
    have hcur1 : ∃ c1, g1.cur = some c1 := by
      rcases hor with h | ⟨c1, _, h⟩
      · exact ⟨c, by rw [h]; exact hc⟩
      · exact ⟨c1, h⟩
    obtain ⟨c1, hc1⟩ := hcur1
    obtain ⟨g2, h, w, t, ds2, hn, he2, hs2, hwf2, hsame, c2, hm2, hc2, hw2, ht2, hh2⟩ :=
      gNext_spec g1 ds1 hwf1 hne
    have hg2 : g2 = g1 := hsame c1 hc1
    have hc2s : c2 ∈ st.g.entries := by rw [← he]; exact hm2
    have hhne := hh c2 hc2s
    have hmem : h ∈ c2.hosts := by
      rcases hh2 with h1 | ⟨h1, _⟩
      · exact h1
      · exact absurd h1 hhne.1
    have hlen : h.length > 0 := by
      cases h with
      | nil => exact absurd hmem hhne.2
      | cons a b => simp
    refine ⟨g1, true, ds1,
      ({ g := g2, host := (if h.length > 0 then h else st.host), w := w, t := t, errors := errDec st.errors,
         e := st.e, ds := ds2, trace := st.trace } : St), hs, ?_, hg2, ?_, ?_, ?_, rfl, rfl, ?_, ?_⟩
    · unfold doSwitch; simp only [hs, hn]
    · refine ⟨hwf2, ?_, c2, ?_, hc2, hw2, ht2, ?_⟩
      · show errDec st.errors ≤ maxErrors + 1
        unfold errDec; split <;> omega
      · show c2 ∈ g2.entries; rw [he2]; exact hm2
      · show (if h.length > 0 then h else st.host) ∈ c2.hosts
        rw [if_pos hlen]; exact hmem
    · show g2.entries = st.g.entries; rw [he2, he]
    · show g2.sel = st.g.sel; rw [hs2, hsel]
    · intro h; cases h
    · intro _; refine ⟨rfl, ?_⟩
      show g2.curPtr ≠ st.g.curPtr
      rw [hg2]; exact hb.mp rfl

theorem account_fields (s : St) (r : Res) :
    (account s r).1.g = s.g ∧ (account s r).1.host = s.host ∧ (account s r).1.w = s.w ∧
    (account s r).1.t = s.t ∧ (account s r).1.ds = s.ds ∧ (account s r).1.trace = s.trace ∧
    (account s r).1.e = (r != .ok) := by
  cases r with
  | fail =>
    simp only [account]
    by_cases hle : s.errors ≤ maxErrors
    · rw [if_pos hle]; exact ⟨rfl, rfl, rfl, rfl, rfl, rfl, rfl⟩
    · rw [if_neg hle]; exact ⟨rfl, rfl, rfl, rfl, rfl, rfl, rfl⟩
  | sessErr => exact ⟨rfl, rfl, rfl, rfl, rfl, rfl, rfl⟩
  | ok => exact ⟨rfl, rfl, rfl, rfl, rfl, rfl, rfl⟩

/-- error bookkeeping of one attempt: when the loop goes on the counter is 0 after a success and one
more after a failure; it stops exactly on a connect failure with more than `maxErrors` on the counter
or on a failed exchange that takes it above `maxErrors` -/
theorem account_errors (s : St) (r : Res) (h : s.errors ≤ maxErrors + 1) :
    ((account s r).2 = false ↔
      (r = .fail ∧ s.errors > maxErrors) ∨ (r = .sessErr ∧ s.errors + 1 > maxErrors)) ∧
    ((account s r).2 = true → (account s r).1.errors = (if r = .ok then 0 else s.errors + 1) ∧
      (account s r).1.errors ≤ maxErrors + 1) := by
  have hm := maxErrors_small
  have e1 : s.errors ≤ maxErrors + 1 → (s.errors + 1) % 256 = s.errors + 1 :=
    fun _ => Nat.mod_eq_of_lt (by omega)
  cases r with
  | fail =>
    simp only [account]
    by_cases hle : s.errors ≤ maxErrors
    · rw [if_pos hle, e1 h]
      refine ⟨⟨fun h => by simp at h, fun h => ?_⟩, fun _ => ⟨by simp, ?_⟩⟩
      · rcases h with ⟨_, h⟩ | ⟨h, _⟩
        · omega
        · cases h
      · show s.errors + 1 ≤ maxErrors + 1; omega
    · rw [if_neg hle]
      exact ⟨⟨fun _ => Or.inl ⟨by trivial, by omega⟩, fun _ => rfl⟩, fun h => by simp at h⟩
  | sessErr =>
    simp only [account, e1 h]
    by_cases hgt : s.errors + 1 > maxErrors
    · refine ⟨⟨fun _ => Or.inr ⟨by trivial, hgt⟩, fun _ => by simp [hgt]⟩, fun h => by simp [hgt] at h⟩
    · refine ⟨⟨fun h => by simp [hgt] at h, fun h => ?_⟩, fun _ => ⟨by simp, ?_⟩⟩
      · rcases h with ⟨h, _⟩ | ⟨_, h⟩
        · cases h
        · exact absurd h hgt
      · show s.errors + 1 ≤ maxErrors + 1; omega
  | ok =>
    simp only [account]
    refine ⟨⟨fun h => ?_, fun h => ?_⟩, fun _ => ⟨by simp, by simp⟩⟩
    · rw [show maxErrors = 5 by decide] at h; simp at h
    · rcases h with ⟨h, _⟩ | ⟨h, _⟩ <;> cases h

/-- One turn of the loop on a state that satisfies the invariant. -/
theorem turn_spec (st : St) (r : Res) (hinv : Inv st) (hh : HostsNE st.g) :
    ∃ g1 b ds1 st' cont cn, switch st.g st.e st.ds = .ok (g1, b, ds1) ∧ turn st r = .ok (st', cont) ∧
      st'.g = g1 ∧ st'.g.entries = st.g.entries ∧ st'.g.sel = st.g.sel ∧
      st'.trace = st.trace ++ [cn] ∧ cn.swArg = st.e ∧ cn.swRes = b ∧ cn.cur = g1.curPtr ∧
      cn.host = st'.host ∧ cn.w = st'.w ∧ cn.t = st'.t ∧ st'.e = (cn.res != .ok) ∧
      (b = false → st'.host = st.host ∧ st'.w = st.w ∧ st'.t = st.t ∧ cn.errs = st.errors ∧ g1 = st.g) ∧
      (b = true → cn.errs = errDec st.errors ∧ g1.curPtr ≠ st.g.curPtr) ∧
      (∃ c ∈ st.g.entries, g1.cur = some c ∧ cn.res = (if c.conn / 2 == 0 then .fail else r) ∧
        cn.host ∈ c.hosts ∧ cn.w = c.w ∧ cn.t = c.t) ∧
      (cont = false ↔ (cn.res = .fail ∧ cn.errs > maxErrors) ∨ (cn.res = .sessErr ∧ cn.errs + 1 > maxErrors)) ∧
      (cont = true → st'.errors = errsAfter cn ∧ Inv st') := by
  obtain ⟨g1, b, ds1, st1, hs, hd, hg1, hinv1, he1, hsel1, htr1, hee1, hbf, hbt⟩ := doSwitch_spec st hinv hh
  obtain ⟨hwf1, herr1, c, hm, hc, hw, ht, hho⟩ := hinv1
  have hcon := gConnect_cur st1.g st1.ds r c hc
  let r' : Res := if c.conn / 2 == 0 then .fail else r
  let cn : Conn := { swArg := st.e, swRes := b, cur := st1.g.cur.map (·.ptr), host := st1.host,
                     w := st1.w, t := st1.t, errs := st1.errors, res := r' }
  let s2 : St := { st1 with g := st1.g, ds := st1.ds, trace := st1.trace ++ [cn] }
  have hturn : turn st r = .ok (account s2 r') := by
    unfold turn; simp only [hd, hcon]; rfl
  obtain ⟨ag, ah, aw, at', _, atr, ae⟩ := account_fields s2 r'
  obtain ⟨hstop, hgo⟩ := account_errors s2 r' herr1
  refine ⟨g1, b, ds1, (account s2 r').1, (account s2 r').2, cn, hs, hturn, ?_, ?_, ?_, ?_, rfl, rfl, ?_,
    ?_, ?_, ?_, ?_, ?_, ?_, ⟨c, ?_, ?_, rfl, ?_, ?_, ?_⟩, hstop, ?_⟩
  · rw [ag]; exact hg1
  · rw [ag]; exact he1
  · rw [ag]; exact hsel1
  · rw [atr]; show st1.trace ++ [cn] = st.trace ++ [cn]; rw [htr1]
  · show st1.g.cur.map (·.ptr) = g1.curPtr; rw [hg1]; rfl
  · rw [ah]
  · rw [aw]
  · rw [at']
  · rw [ae]
  · intro hb
    obtain ⟨h1, h2, h3, h4, h5, _⟩ := hbf hb
    refine ⟨by rw [ah]; exact h2, by rw [aw]; exact h3, by rw [at']; exact h4, h5, ?_⟩
    rw [← hg1]; exact h1
  · intro hb
    obtain ⟨h1, h2⟩ := hbt hb
    exact ⟨h1, by rw [← hg1]; exact h2⟩
  · rw [← he1]; exact hm
  · rw [← hg1]; exact hc
  · exact hho
  · exact hw
  · exact ht
  · intro hcont
    obtain ⟨h1, h2⟩ := hgo hcont
    refine ⟨?_, ?_, ?_, c, ?_, ?_, ?_, ?_, ?_⟩
    · rw [h1]; rfl
    · rw [ag]; exact hwf1
    · exact h2
    · rw [ag]; exact hm
    · rw [ag]; exact hc
    · rw [aw]; exact hw
    · rw [at']; exact ht
    · rw [ah]; exact hho

/-! ### adjacent connection attempts -/

/-- `R` holds between every two consecutive elements -/
def Adj (R : Conn → Conn → Prop) : List Conn → Prop
  | [] => True
  | [_] => True
  | a :: b :: rest => R a b ∧ Adj R (b :: rest)

theorem Adj_snoc (R : Conn → Conn → Prop) (l : List Conn) (x : Conn) (h : Adj R l)
    (hl : ∀ a, l.getLast? = some a → R a x) : Adj R (l ++ [x]) := by
  induction l with
  | nil => trivial
  | cons a t ih =>
    cases t with
    | nil => exact ⟨hl a rfl, trivial⟩
    | cons b t' =>
      refine ⟨h.1, ih h.2 ?_⟩
      intro y hy
      exact hl y (by rw [List.getLast?_cons_cons]; exact hy)

/-- What links two consecutive connection attempts `a`, `b` of a run on the group `g0`: the argument
of the Switch call between them is "`a` failed"; the two active entries are entries of `g0` related by
ONE call of the real selector function `Group.switch` with that argument (on some PRNG words); host,
wrapper and transform are kept iff Switch reported no change; a reported change forgives one error. -/
def Link (g0 : Group) (a b : Conn) : Prop :=
  b.swArg = (a.res != .ok) ∧
  (∃ ca cb ds ds', ca ∈ g0.entries ∧ cb ∈ g0.entries ∧ a.cur = some ca.ptr ∧ b.cur = some cb.ptr ∧
    switch { g0 with cur := some ca } b.swArg ds = .ok ({ g0 with cur := some cb }, b.swRes, ds')) ∧
  (b.swRes = false → b.cur = a.cur ∧ b.host = a.host ∧ b.w = a.w ∧ b.t = a.t ∧ b.errs = errsAfter a) ∧
  (b.swRes = true → b.cur ≠ a.cur ∧ b.errs = errDec (errsAfter a))

/-- the last attempt recorded so far agrees with the loop's variables -/
def LastOK (st : St) : Prop :=
  ∀ a, st.trace.getLast? = some a →
    a.cur = st.g.curPtr ∧ a.host = st.host ∧ a.w = st.w ∧ a.t = st.t ∧ st.e = (a.res != .ok) ∧
    st.errors = errsAfter a

/-- every recorded attempt was made with the own host / wrapper / transform of an entry of `g0` that
was the active one -/
def OwnConn (g0 : Group) (cn : Conn) : Prop :=
  ∃ c ∈ g0.entries, cn.cur = some c.ptr ∧ cn.host ∈ c.hosts ∧ cn.w = c.w ∧ cn.t = c.t

/-- the loop stops ("Too many errors") exactly in these two situations -/
def GiveUp (cn : Conn) : Prop :=
  (cn.res = .fail ∧ cn.errs > maxErrors) ∨ (cn.res = .sessErr ∧ cn.errs + 1 > maxErrors)

theorem run_spec (g0 : Group) (script : List Res) (st : St) (hinv : Inv st) (hh : HostsNE st.g)
    (he : st.g.entries = g0.entries) (hs : st.g.sel = g0.sel)
    (hadj : Adj (Link g0) st.trace) (hlast : LastOK st) (hown : ∀ cn ∈ st.trace, OwnConn g0 cn)
    (hng : ∀ cn ∈ st.trace, ¬ GiveUp cn) :
    ∃ st' cont, run script st = .ok (st', cont) ∧ st'.g.entries = g0.entries ∧ st'.g.sel = g0.sel ∧
      Adj (Link g0) st'.trace ∧ (∀ cn ∈ st'.trace, OwnConn g0 cn) ∧
      (∃ more, st'.trace = st.trace ++ more ∧ more.length ≤ script.length ∧
        (cont = true → more.length = script.length)) ∧
      (cont = true → ∀ cn ∈ st'.trace, ¬ GiveUp cn) ∧
      (cont = false → ∃ init last, st'.trace = init ++ [last] ∧ GiveUp last ∧ ∀ cn ∈ init, ¬ GiveUp cn) ∧
      (st.trace = [] → ∀ cn, st'.trace.head? = some cn → cn.swArg = st.e ∧
        cn.errs = (if cn.swRes then errDec st.errors else st.errors)) := by
  induction script generalizing st with
  | nil =>
    refine ⟨st, true, rfl, he, hs, hadj, hown, ⟨[], by simp, by simp, fun _ => rfl⟩, fun _ => hng, ?_, ?_⟩
    · intro h; cases h
    · intro ht cn hcn; rw [ht] at hcn; cases hcn
  | cons r rs ih =>
    obtain ⟨g1, b, ds1, st', cont, cn, hsw, hturn, hg1, he', hs', htr, harg, hres, hcur, hhost, hw, ht, hee,
      hbf, hbt, ⟨c, hcm, hcc, hcres, hchost, hcw, hct⟩, hstop, hgo⟩ := turn_spec st r hinv hh
    -- the new attempt is an own connection of g0
    have hownc : OwnConn g0 cn := by
      refine ⟨c, by rw [← he]; exact hcm, ?_, hchost, hcw, hct⟩
      rw [hcur]; unfold Group.curPtr; rw [hcc]; rfl
    -- and is linked to the previous one
    have hlink : ∀ a, st.trace.getLast? = some a → Link g0 a cn := by
      intro a ha
      obtain ⟨la, lh, lw, lt, le, lerr⟩ := hlast a ha
      obtain ⟨_, _, ca, hcam, hcac, _, _, _⟩ := hinv
      have hge : st.g = { g0 with cur := some ca } := group_eta st.g g0 he hs ca hcac
      have hg1e : g1 = { g0 with cur := some c } :=
        group_eta g1 g0 (by rw [← hg1, he', he]) (by rw [← hg1, hs', hs]) c hcc
      have hacur : a.cur = some ca.ptr := by rw [la]; unfold Group.curPtr; rw [hcac]; rfl
      have hccur : cn.cur = some c.ptr := by rw [hcur]; unfold Group.curPtr; rw [hcc]; rfl
      refine ⟨by rw [harg, le], ⟨ca, c, st.ds, ds1, by rw [← he]; exact hcam, by rw [← he]; exact hcm,
        hacur, hccur, ?_⟩, ?_, ?_⟩
      · rw [harg, hres, ← hge, ← hg1e]; exact hsw
      · intro hb
        rw [hres] at hb
        obtain ⟨h1, h2, h3, h4, h5⟩ := hbf hb
        refine ⟨?_, by rw [hhost, h1, lh], by rw [hw, h2, lw], by rw [ht, h3, lt], by rw [h4, lerr]⟩
        rw [hcur, h5, la]
      · intro hb
        rw [hres] at hb
        obtain ⟨h1, h2⟩ := hbt hb
        exact ⟨by rw [hcur, la]; exact h2, by rw [h1, lerr]⟩
    have hadj' : Adj (Link g0) st'.trace := by rw [htr]; exact Adj_snoc _ _ _ hadj hlink
    have hfirst : cn.swArg = st.e ∧ cn.errs = (if cn.swRes then errDec st.errors else st.errors) := by
      refine ⟨harg, ?_⟩
      rw [hres]
      cases b with
      | false => simpa using (hbf rfl).2.2.2.1
      | true => simpa using (hbt rfl).1
    have hown' : ∀ x ∈ st'.trace, OwnConn g0 x := by
      intro x hx
      rw [htr] at hx
      rcases List.mem_append.mp hx with h | h
      · exact hown x h
      · rw [List.mem_singleton.mp h]; exact hownc
    cases hcont : cont with
    | false =>
      refine ⟨st', false, ?_, by rw [he', he], by rw [hs', hs], hadj', hown',
        ⟨[cn], htr, by simp, fun h => by cases h⟩, (fun h => by cases h), ?_, ?_⟩
      · simp only [run, hturn, hcont]
      · intro _
        exact ⟨st.trace, cn, htr, hstop.mp hcont, hng⟩
      · intro ht x hx
        rw [htr, ht] at hx
        simp only [List.nil_append, List.head?_cons, Option.some.injEq] at hx
        subst hx; exact hfirst
    | true =>
      obtain ⟨herrs, hinv'⟩ := hgo hcont
      have hngc : ¬ GiveUp cn := by
        intro hgu
        have := hstop.mpr hgu
        rw [hcont] at this; cases this
      have hlast' : LastOK st' := by
        intro a ha
        rw [htr, List.getLast?_concat] at ha
        simp only [Option.some.injEq] at ha
        subst ha
        exact ⟨by rw [hcur, hg1], hhost, hw, ht, hee, herrs⟩
      have hng' : ∀ x ∈ st'.trace, ¬ GiveUp x := by
        intro x hx
        rw [htr] at hx
        rcases List.mem_append.mp hx with h | h
        · exact hng x h
        · rw [List.mem_singleton.mp h]; exact hngc
      have hh' : HostsNE st'.g := by unfold HostsNE; rw [he']; exact hh
      obtain ⟨st'', cont', hrun, he'', hs'', hadj'', hown'', ⟨more, hmore, hlen, hfull⟩, hgo'', hstop'', _⟩ :=
        ih st' hinv' hh' (by rw [he', he]) (by rw [hs', hs]) hadj' hlast' hown' hng'
      refine ⟨st'', cont', ?_, he'', hs'', hadj'', hown'',
        ⟨cn :: more, by rw [hmore, htr]; simp, by simp; omega, fun h => by simp [hfull h]⟩, hgo'', hstop'', ?_⟩
      · simp only [run, hturn, hcont]; exact hrun
      · intro ht x hx
        rw [hmore, htr, ht] at hx
        simp only [List.nil_append, List.cons_append, List.head?_cons, Option.some.injEq] at hx
        subst hx; exact hfirst

/-- the state the loop starts from satisfies the invariant -/
theorem start_spec (g : Group) (ds : List Nat) (hwf : g.WF) (hne : g.entries ≠ []) (hh : HostsNE g) :
    ∃ st, start g ds = .ok st ∧ Inv st ∧ st.g.entries = g.entries ∧ st.g.sel = g.sel ∧ st.trace = [] ∧
      st.e = false ∧ st.errors = 0 ∧ (∀ c, g.cur = some c → st.g = g) := by
  obtain ⟨g', h, w, t, ds', hn, he, hs, hwf', hsame, c, hm, hc, hw, ht, hhs⟩ := gNext_spec g ds hwf hne
  refine ⟨{ g := g', host := h, w := w, t := t, ds := ds' }, ?_, ⟨hwf', by simp, c, ?_, hc, hw, ht, ?_⟩,
    he, hs, rfl, rfl, rfl, hsame⟩
  · unfold start; simp only [hn]
  · show c ∈ g'.entries; rw [he]; exact hm
  · rcases hhs with h1 | ⟨h1, _⟩
    · exact h1
    · exact absurd h1 (hh c hm).1


/-! ### selector contracts seen from the loop -/

/-- when the selector function did the round-robin step from position `k`, the entry a Link names as
the next active one is the entry at position `(k+1) mod n` -/
theorem link_rot (g0 : Group) (ca cb : Entry) (k : Nat) (e bres : Bool) (ds ds1 ds' : List Nat)
    (h : switch { g0 with cur := some ca } e ds = .ok ({ g0 with cur := some cb }, bres, ds'))
    (hr : switch { g0 with cur := some ca } e ds =
      .ok ((rotStep { g0 with cur := some ca } k).1, (rotStep { g0 with cur := some ca } k).2, ds1)) :
    g0.entries[(k+1) % g0.entries.length]? = some cb ∧ bres = decide (g0.entries.length ≠ 1) := by
  rw [hr] at h
  simp only [rotStep, Outcome.ok.injEq, Prod.mk.injEq, Group.mk.injEq] at h
  exact ⟨h.1.1, h.2.1.symm⟩

/-- when the selector function stayed, a Link names the same entry again and reports no change -/
theorem link_stay (g0 : Group) (ca cb : Entry) (e bres : Bool) (ds ds1 ds' : List Nat)
    (h : switch { g0 with cur := some ca } e ds = .ok ({ g0 with cur := some cb }, bres, ds'))
    (hr : switch { g0 with cur := some ca } e ds = .ok ({ g0 with cur := some ca }, false, ds1)) :
    cb = ca ∧ bres = false := by
  rw [hr] at h
  simp only [Outcome.ok.injEq, Prod.mk.injEq, Group.mk.injEq, Option.some.injEq] at h
  exact ⟨h.1.1.symm, h.2.1.symm⟩

/-- round-robin (and every selector value that is none of the other five): attempt `i` of the rest
of the run goes to the entry at position `(k + 1 + i) mod n`, `k` being the position of the active
entry before; Switch reports a change in every turn unless there is one entry only. -/
theorem run_plain (g0 : Group) (hp : Plain g0.sel) (script : List Res) (st : St) (hinv : Inv st)
    (hh : HostsNE st.g) (he : st.g.entries = g0.entries) (hs : st.g.sel = g0.sel) (k : Nat) (c : Entry)
    (hk : g0.entries[k]? = some c) (hc : st.g.cur = some c) :
    ∃ st' cont more, run script st = .ok (st', cont) ∧ st'.trace = st.trace ++ more ∧
      ∀ i cn, more[i]? = some cn →
        cn.cur = (g0.entries[(k + 1 + i) % g0.entries.length]?).map (·.ptr) ∧
        cn.swRes = decide (g0.entries.length ≠ 1) := by
  induction script generalizing st k c with
  | nil => exact ⟨st, true, [], rfl, by simp, fun i cn h => by simp at h⟩
  | cons r rs ih =>
    obtain ⟨g1, b, ds1, st', cont, cn, hsw, hturn, hg1, he', hs', htr, _, hres, hcur, _, _, _, _,
      _, _, _, _, hgo⟩ := turn_spec st r hinv hh
    have hstep := plain_step st.g hinv.1 (by rw [hs]; exact hp) k c (by rw [he]; exact hk) hc st.e st.ds
    rw [hstep] at hsw
    simp only [rotStep, Outcome.ok.injEq, Prod.mk.injEq] at hsw
    obtain ⟨hg1', hb', _⟩ := hsw
    have hlt : (k + 1) % g0.entries.length < g0.entries.length :=
      Nat.mod_lt _ (Nat.lt_of_le_of_lt (Nat.zero_le _) (getElem?_lt hk))
    have hcn : cn.cur = (g0.entries[(k + 1) % g0.entries.length]?).map (·.ptr) ∧
        cn.swRes = decide (g0.entries.length ≠ 1) := by
      refine ⟨?_, ?_⟩
      · rw [hcur, ← hg1']; unfold Group.curPtr; simp only [he]
      · rw [hres, ← hb', he]
    cases hcont : cont with
    | false =>
      refine ⟨st', false, [cn], by simp only [run, hturn, hcont], htr, ?_⟩
      intro i x hx
      cases i with
      | zero => simp at hx; subst hx; simpa using hcn
      | succ j => simp at hx
    | true =>
      obtain ⟨_, hinv'⟩ := hgo hcont
      obtain ⟨c', hc'⟩ : ∃ c', g0.entries[(k + 1) % g0.entries.length]? = some c' :=
        ⟨g0.entries[(k + 1) % g0.entries.length], List.getElem?_eq_getElem hlt⟩
      have hcur' : st'.g.cur = some c' := by
        rw [hg1, ← hg1']; show st.g.entries[(k + 1) % st.g.entries.length]? = some c'
        rw [he]; exact hc'
      have hh' : HostsNE st'.g := by unfold HostsNE; rw [he']; exact hh
      obtain ⟨st'', cont', more, hrun, hmore, hall⟩ :=
        ih st' hinv' hh' (by rw [he', he]) (by rw [hs', hs]) ((k + 1) % g0.entries.length) c' hc' hcur'
      refine ⟨st'', cont', cn :: more, ?_, by rw [hmore, htr]; simp, ?_⟩
      · simp only [run, hturn, hcont]; exact hrun
      · intro i x hx
        cases i with
        | zero => simp at hx; subst hx; simpa using hcn
        | succ j =>
          simp only [List.getElem?_cons_succ] at hx
          have := hall j x hx
          rw [show (k + 1) % g0.entries.length + 1 + j = (k + 1) % g0.entries.length + (1 + j) by omega,
            Nat.mod_add_mod, show k + 1 + (1 + j) = k + 1 + (j + 1) by omega] at this
          exact this


/-! ### the error counter on a stretch of failures without a reported switch -/

theorem Adj_tail (R : Conn → Conn → Prop) (x : Conn) (l : List Conn) (h : Adj R (x :: l)) : Adj R l := by
  cases l with
  | nil => trivial
  | cons y t => exact h.2

theorem Adj_suffix (R : Conn → Conn → Prop) (pre s : List Conn) (h : Adj R (pre ++ s)) : Adj R s := by
  induction pre with
  | nil => exact h
  | cons x p ih => exact ih (Adj_tail R x (p ++ s) h)

/-- consecutive failed attempts `a :: l` with no change reported inside: the counter grows by one per
attempt -/
theorem chain_errs (g0 : Group) (l : List Conn) (a : Conn) (hadj : Adj (Link g0) (a :: l))
    (hns : ∀ c ∈ l, c.swRes = false) (hfail : ∀ c ∈ a :: l, c.res ≠ .ok) :
    ∀ i c, l[i]? = some c → c.errs = a.errs + i + 1 := by
  induction l generalizing a with
  | nil => intro i c h; simp at h
  | cons b t ih =>
    intro i c h
    have hlink : Link g0 a b := hadj.1
    have hb : b.errs = a.errs + 1 := by
      have := (hlink.2.2.1 (hns b (by simp))).2.2.2.2
      rw [this]; unfold errsAfter; rw [if_neg (hfail a (by simp))]
    cases i with
    | zero => simp at h; subst h; omega
    | succ j =>
      simp only [List.getElem?_cons_succ] at h
      have := ih b hadj.2 (fun c hc => hns c (List.mem_cons_of_mem _ hc))
        (fun c hc => hfail c (List.mem_cons_of_mem _ hc)) j c h
      omega

end XMT.GroupLoop
