/-
  XMT.HexCodec — model of encoding/hex as used by c2/wrapper/simple.go (the `Hex` wrapper):

      Wrap(w)   = data.WriteCloser(hex.NewEncoder(w))     -- Close is a no-op (nopWriteCloser)
      Unwrap(r) = hex.NewDecoder(r)

  Modelled from the Go standard library source (encoding/hex/hex.go): `Encode`, `Decode`,
  `fromHexChar`/`reverseHexTable`, `(*encoder).Write` (chunks of bufferSize/2 input bytes, one
  `Write` below per chunk), `(*decoder).Read` (refill of the 1024-byte window when fewer than two
  characters are buffered, odd tail at EOF, errors only exposed when the window is consumed).
  `bufferSize` is the regenerated fact `Facts.hexBufferSize` (parsed from the toolchain's source).

  The reader below is a `Src`: a list of pieces (one `Read` hands out at most one piece, or the part
  of it that fits; an empty piece is a `(0, nil)` Read) that reports `io.EOF` either with its last
  bytes (`withEOF`) or on the Read after them — both allowed by the `io.Reader` contract.
-/
import XMT.Base
import XMT.Wrap
import XMT.Generated.Facts
namespace XMT.HexCodec
open XMT

/-! ### The reader below -/

structure Src where
  pieces : List Bytes
  withEOF : Bool

/-- one `Read(buf)` with `len(buf) = cap`: bytes, rest, `err == io.EOF` -/
def Src.read (cap : Nat) (s : Src) : Bytes × Src × Bool :=
  match s.pieces with
  | [] => ([], s, true)
  | p :: rest =>
    if p.length ≤ cap then (p, { s with pieces := rest }, s.withEOF && rest.isEmpty)
    else (p.take cap, { s with pieces := p.drop cap :: rest }, false)

/-! ### Encode / Decode -/

/-- `hextable[n]` for `n < 16` (`"0123456789abcdef"`) -/
def hextable (n : UInt8) : UInt8 := if n < 10 then 48 + n else 87 + n

/-- `hex.Encode(dst, src)` -/
def encode (src : Bytes) : Bytes := src.flatMap fun (v : UInt8) => [hextable (v >>> 4), hextable (v &&& 0x0f)]

/-- `reverseHexTable[c]` when it is `≤ 0x0f` (digits, `a`–`f`, `A`–`F`); `none` = `0xff` -/
def fromHex (c : UInt8) : Option UInt8 :=
  if 48 ≤ c ∧ c ≤ 57 then some (c - 48)
  else if 97 ≤ c ∧ c ≤ 102 then some (c - 87)
  else if 65 ≤ c ∧ c ≤ 70 then some (c - 55)
  else none

inductive HErr
  | invalidByte (b : UInt8)   -- hex.InvalidByteError
  | length                    -- hex.ErrLength
  | ueof                      -- io.ErrUnexpectedEOF
  | eof                       -- io.EOF
  deriving DecidableEq, Repr

/-- `hex.Decode(dst, src)`: the bytes decoded before the first error, and the error. -/
def decode : Bytes → Bytes × Option HErr
  | [] => ([], none)
  | [p] => if (fromHex p).isNone then ([], some (.invalidByte p)) else ([], some .length)
  | p :: q :: r =>
    match fromHex p with
    | none => ([], some (.invalidByte p))
    | some a =>
      match fromHex q with
      | none => ([], some (.invalidByte q))
      | some b =>
        let t := decode r
        (((a <<< 4) ||| b) :: t.1, t.2)

/-! ### Streaming encoder (`hex.NewEncoder`) -/

/-- `bufferSize` of encoding/hex -/
def bufferSize : Nat := Facts.hexBufferSize

/-- `(*encoder).Write(p)`: `for len(p) > 0 { chunk := p[:min(len(p), bufferSize/2)]; w.Write(Encode(chunk)); p = p[chunk:] }`
— the `Write` calls made below (fuel = `len(p)` iterations suffice, each takes at least one byte). -/
def encWriteAux : Nat → Bytes → List Bytes
  | 0, _ => []
  | f + 1, p =>
    if p.length > 0 then encode (p.take (bufferSize / 2)) :: encWriteAux f (p.drop (bufferSize / 2)) else []

def encWrite (p : Bytes) : List Bytes := encWriteAux p.length p

/-! ### Streaming decoder (`hex.NewDecoder`) -/

/-- `decoder{in, err}` (`arr` is the backing array of `in`) -/
structure Dec where
  inb : Bytes
  err : Option HErr

def Dec.init : Dec := { inb := [], err := none }

/-- first half of `(*decoder).Read`: "Fill internal buffer with sufficient bytes to decode" -/
def Dec.fill (d : Dec) (r : Src) : Dec × Src :=
  if d.inb.length < 2 ∧ d.err = none then
    -- numCopy = copy(d.arr[:], d.in); numRead, d.err = d.r.Read(d.arr[numCopy:])
    let x := r.read (bufferSize - d.inb.length)
    let inb := d.inb ++ x.1
    let err : Option HErr :=
      if x.2.2 then
        -- d.err == io.EOF && len(d.in)%2 != 0
        if inb.length % 2 ≠ 0 then
          match inb.getLast? with
          | some c => if (fromHex c).isNone then some (.invalidByte c) else some .ueof
          | none => some .ueof
        else some .eof
      else none
    ({ inb := inb, err := err }, x.2.1)
  else (d, r)

/-- second half: "Decode internal buffer into output buffer" (`len(p) = k`) -/
def Dec.deliver (d : Dec) (k : Nat) : Dec × Bytes × Option HErr :=
  -- if numAvail := len(d.in) / 2; len(p) > numAvail { p = p[:numAvail] }
  let m := if k > d.inb.length / 2 then d.inb.length / 2 else k
  let t := decode (d.inb.take (m * 2))
  -- d.in = d.in[2*numDec:]; on a Decode error: d.in, d.err = nil, err
  let d' : Dec :=
    match t.2 with
    | some e => { inb := [], err := some e }
    | none => { d with inb := d.inb.drop (2 * t.1.length) }
  -- Only expose errors when buffer fully consumed
  if d'.inb.length < 2 then (d', t.1, d'.err) else (d', t.1, none)

/-- `(*decoder).Read(p)` with `len(p) = k`: new state, rest of the reader below, bytes delivered, error returned. -/
def Dec.read (d : Dec) (r : Src) (k : Nat) : Dec × Src × Bytes × Option HErr :=
  let f := d.fill r
  let x := f.1.deliver k
  (x.1, f.2, x.2.1, x.2.2)

/-- A consumer issuing `Read`s with the given buffer sizes until an error (EOF included) or the
requests run out: what each Read delivered, and the terminating error. -/
def readSeq (d : Dec) (r : Src) : List Nat → List Bytes × Option HErr
  | [] => ([], none)
  | k :: ks =>
    let x := d.read r k
    match x.2.2.2 with
    | some e => ([x.2.2.1], some e)
    | none =>
      let t := readSeq x.1 x.2.1 ks
      (x.2.2.1 :: t.1, t.2)

/-- `io.ReadAll`-style consumer: `k`-byte Reads until an error; everything delivered and the error. -/
def readAll (k : Nat) : Nat → Dec → Src → Bytes × Option HErr
  | 0, _, _ => ([], none)
  | fuel + 1, d, r =>
    let x := d.read r k
    match x.2.2.2 with
    | some e => (x.2.2.1, some e)
    | none =>
      let t := readAll k fuel x.1 x.2.1
      (x.2.2.1 ++ t.1, t.2)

/-- The `Hex` wrapper as a layer of the stack model. `Close` writes nothing and does not close the
writer below (`data.WriteCloser` wraps the encoder, which is not an `io.Closer`, in a no-op closer). -/
def hexLayer : Wrap.Layer where
  σ := Unit
  init := ()
  write := fun _ b => ((), encWrite b)
  close := fun _ => ((), [])
  closesUnder := false
  dec := fun wire =>
    match readAll 512 (wire.length + 3) Dec.init { pieces := [wire], withEOF := false } with
    | (b, some .eof) => some b
    | _ => none

end XMT.HexCodec
