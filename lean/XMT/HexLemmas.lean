/-
  XMT.HexLemmas — round trip of the encoding/hex model (XMT/HexCodec.lean): `Decode ∘ Encode = id`,
  the streaming encoder's output is the encoding of the concatenation for every write chunking, the
  streaming decoder returns the payload and then EOF for every chunking of the wire (empty pieces,
  EOF with or after the last bytes) and every sequence of Read sizes; the `Hex` wrapper is a good layer.
-/
import XMT.HexCodec
import XMT.WrapLemmas
namespace XMT.HexCodec
open XMT XMT.Wrap

/-! ### Encode / Decode -/

set_option maxRecDepth 100000 in
theorem nibbles_all : ∀ k : Fin 256,
    fromHex (hextable (UInt8.ofNat k.val >>> 4)) = some (UInt8.ofNat k.val >>> 4) ∧
    fromHex (hextable (UInt8.ofNat k.val &&& 0x0f)) = some (UInt8.ofNat k.val &&& 0x0f) ∧
    ((UInt8.ofNat k.val >>> 4) <<< 4) ||| (UInt8.ofNat k.val &&& 0x0f) = UInt8.ofNat k.val := by
  decide

theorem nibbles (v : UInt8) :
    fromHex (hextable (v >>> 4)) = some (v >>> 4) ∧ fromHex (hextable (v &&& 0x0f)) = some (v &&& 0x0f) ∧
    ((v >>> 4) <<< 4) ||| (v &&& 0x0f) = v := by
  have h := nibbles_all ⟨v.toNat, UInt8.toNat_lt v⟩
  simpa using h

theorem encode_nil : encode [] = [] := rfl

theorem encode_cons (v : UInt8) (x : Bytes) :
    encode (v :: x) = hextable (v >>> 4) :: hextable (v &&& 0x0f) :: encode x := by
  simp [encode]

theorem encode_append (a b : Bytes) : encode (a ++ b) = encode a ++ encode b := by
  simp [encode]

theorem encode_length (x : Bytes) : (encode x).length = 2 * x.length := by
  induction x with
  | nil => rfl
  | cons v x ih => rw [encode_cons]; simp [ih]; omega

theorem decode_encode (x : Bytes) : decode (encode x) = (x, none) := by
  induction x with
  | nil => rfl
  | cons v x ih =>
    obtain ⟨h1, h2, h3⟩ := nibbles v
    rw [encode_cons]
    simp only [decode, h1, h2, ih, h3]

theorem encode_take (x : Bytes) (m : Nat) : (encode x).take (2 * m) = encode (x.take m) := by
  induction x generalizing m with
  | nil => simp [encode_nil]
  | cons v x ih =>
    cases m with
    | zero => simp [encode_nil]
    | succ m =>
      rw [encode_cons, show 2 * (m + 1) = (2 * m) + 1 + 1 by omega]
      simp only [List.take_succ_cons, ih, encode_cons]

theorem encode_drop (x : Bytes) (m : Nat) : (encode x).drop (2 * m) = encode (x.drop m) := by
  induction x generalizing m with
  | nil => simp [encode_nil]
  | cons v x ih =>
    cases m with
    | zero => simp
    | succ m =>
      rw [encode_cons, show 2 * (m + 1) = (2 * m) + 1 + 1 by omega]
      simp only [List.drop_succ_cons, ih]

/-! ### Streaming encoder -/

theorem half_buffer : bufferSize / 2 = 512 := by decide

theorem encWriteAux_flatten (f : Nat) (p : Bytes) (h : p.length ≤ f) :
    (encWriteAux f p).flatten = encode p := by
  induction f generalizing p with
  | zero =>
    have : p = [] := List.eq_nil_of_length_eq_zero (by omega)
    subst this; rfl
  | succ f ih =>
    unfold encWriteAux
    split
    · rename_i hp
      rw [List.flatten_cons, ih]
      · rw [← encode_append, List.take_append_drop]
      · rw [half_buffer, List.length_drop]; omega
    · have : p = [] := List.eq_nil_of_length_eq_zero (by omega)
      subst this; rfl

theorem encWrite_flatten (p : Bytes) : (encWrite p).flatten = encode p :=
  encWriteAux_flatten p.length p (Nat.le_refl _)

theorem hexLayer_writes (ws : List Bytes) :
    ((hexLayer.writes () ws).2).flatten = encode ws.flatten := by
  induction ws with
  | nil => rfl
  | cons c cs ih =>
    show ((encWrite c) ++ (hexLayer.writes () cs).2).flatten = _
    rw [List.flatten_append, encWrite_flatten, ih, List.flatten_cons, encode_append]

theorem hexLayer_run (ws : List Bytes) : (hexLayer.run ws).flatten = encode ws.flatten := by
  show ((hexLayer.writes () ws).2 ++ []).flatten = _
  rw [List.append_nil, hexLayer_writes]

/-! ### Streaming decoder -/

/-- what is buffered plus what the reader below still holds is the encoding of the bytes not yet
delivered; an error is latched only as EOF of an exhausted reader -/
def Inv (d : Dec) (r : Src) (rest : Bytes) : Prop :=
  d.inb ++ r.pieces.flatten = encode rest ∧ (d.err = none ∨ (d.err = some .eof ∧ r.pieces = []))

theorem even_of_encode {a : Bytes} {rest : Bytes} (h : a = encode rest) : a.length % 2 = 0 := by
  rw [h, encode_length]; omega

theorem fill_spec (d : Dec) (r : Src) (rest : Bytes) (h : Inv d r rest) :
    Inv (d.fill r).1 (d.fill r).2 rest ∧ (d.fill r).2.pieces.length ≤ r.pieces.length ∧
    ((d.fill r).1.inb.length < 2 → (d.fill r).1.err = none → (d.fill r).2.pieces.length < r.pieces.length) := by
  obtain ⟨h1, h2⟩ := h
  unfold Dec.fill
  split
  · rename_i hc
    obtain ⟨hlen, herr⟩ := hc
    have hcap : bufferSize - d.inb.length ≥ 1023 := by
      have : bufferSize = 1024 := by decide
      omega
    cases hp : r.pieces with
    | nil =>
      rw [hp] at h1
      simp only [List.flatten_nil, List.append_nil] at h1
      have hev := even_of_encode h1
      simp only [Src.read, hp, List.append_nil]
      refine ⟨⟨by simpa [hp] using h1, ?_⟩, by simp [hp], ?_⟩
      · right; simp [hev, hp]
      · intro _ he; simp [hev] at he
    | cons p ps =>
      rw [hp] at h1
      simp only [Src.read, hp]
      split
      · rename_i hle
        cases hps : ps with
        | nil =>
          subst hps
          simp only [List.flatten_cons, List.flatten_nil, List.append_nil] at h1
          have hev := even_of_encode h1
          have hev' : (d.inb.length + p.length) % 2 = 0 := by simpa using hev
          cases hw : r.withEOF with
          | true =>
            simp only [Bool.true_and, List.isEmpty_nil, if_true]
            refine ⟨⟨by simpa using h1, ?_⟩, by simp, ?_⟩
            · right; simp [hev']
            · intro _ he; simp [hev'] at he
          | false =>
            simp only [Bool.false_and]
            refine ⟨⟨by simpa using h1, Or.inl (by simp)⟩, by simp, ?_⟩
            intro _ _; simp
        | cons q qs =>
          subst hps
          simp only [List.isEmpty_cons, Bool.and_false]
          refine ⟨⟨by simpa [List.append_assoc] using h1, Or.inl (by simp)⟩, by simp, ?_⟩
          intro _ _; simp
      · rename_i hgt
        simp only []
        refine ⟨⟨?_, Or.inl (by simp)⟩, by simp, ?_⟩
        · simp only [List.flatten_cons] at h1 ⊢
          rw [List.append_assoc, ← List.append_assoc (List.take _ p), List.take_append_drop]
          exact h1
        · intro hl _
          simp only [List.length_append, List.length_take] at hl
          omega
  · rename_i hc
    refine ⟨⟨h1, h2⟩, Nat.le_refl _, ?_⟩
    intro hl he
    exact absurd ⟨hl, he⟩ hc

theorem prefix_take {a tail : Bytes} {rest : Bytes} (h : a ++ tail = encode rest) (m : Nat)
    (hm : 2 * m ≤ a.length) :
    a.take (m * 2) = encode (rest.take m) ∧ a.drop (2 * m) ++ tail = encode (rest.drop m) := by
  constructor
  · rw [← encode_take, ← h, Nat.mul_comm, List.take_append_of_le_length hm]
  · rw [← encode_drop, ← h, List.drop_append_of_le_length hm]

theorem deliver_spec (d : Dec) (r : Src) (rest : Bytes) (k : Nat) (h : Inv d r rest) :
    ∃ rest', rest = (d.deliver k).2.1 ++ rest' ∧ Inv (d.deliver k).1 r rest' ∧
      ((d.deliver k).2.2 = none ∨ ((d.deliver k).2.2 = some .eof ∧ rest' = [])) ∧
      (0 < k → (d.deliver k).2.2 = none →
        rest'.length < rest.length ∨ (d.inb.length < 2 ∧ d.err = none ∧ rest' = rest)) := by
  obtain ⟨h1, h2⟩ := h
  have hrl : d.inb.length ≤ 2 * rest.length := by
    have := congrArg List.length h1
    rw [List.length_append, encode_length] at this; omega
  -- the number of bytes delivered
  let m := if k > d.inb.length / 2 then d.inb.length / 2 else k
  have hm : 2 * m ≤ d.inb.length := by
    show 2 * (if k > d.inb.length / 2 then d.inb.length / 2 else k) ≤ _
    split <;> omega
  have hmr : m ≤ rest.length := by omega
  obtain ⟨ht, hd⟩ := prefix_take h1 m hm
  have hdec : decode (d.inb.take (m * 2)) = (rest.take m, none) := by rw [ht, decode_encode]
  have htl : (rest.take m).length = m := by rw [List.length_take]; omega
  have hdel : d.deliver k =
      (if (d.inb.drop (2 * m)).length < 2 then
        (({ d with inb := d.inb.drop (2 * m) } : Dec), rest.take m, d.err)
       else (({ d with inb := d.inb.drop (2 * m) } : Dec), rest.take m, none)) := by
    show Dec.deliver d k = _
    unfold Dec.deliver
    simp only [show (if k > d.inb.length / 2 then d.inb.length / 2 else k) = m from rfl, hdec, htl]
  refine ⟨rest.drop m, ?_, ?_, ?_, ?_⟩
  · rw [hdel]; split <;> simp
  · rw [hdel]; split <;> exact ⟨hd, h2⟩
  · rw [hdel]
    split
    · rename_i hlt
      rcases h2 with h2 | ⟨h2, hp⟩
      · left; exact h2
      · right
        refine ⟨h2, ?_⟩
        rw [hp] at hd
        simp only [List.flatten_nil, List.append_nil] at hd
        have hev := even_of_encode hd
        have hz : (encode (rest.drop m)).length = 0 := by rw [← hd]; omega
        rw [encode_length] at hz
        exact List.eq_nil_of_length_eq_zero (by omega)
    · left; rfl
  · intro hk he
    by_cases hm0 : m = 0
    · right
      have hl2 : d.inb.length < 2 := by
        have : (if k > d.inb.length / 2 then d.inb.length / 2 else k) = 0 := hm0
        split at this <;> omega
      rw [hdel, hm0] at he
      simp only [Nat.mul_zero, List.drop_zero, hl2, if_true] at he
      exact ⟨hl2, he, by rw [hm0]; simp⟩
    · left
      rw [List.length_drop]; omega

theorem read_spec (d : Dec) (r : Src) (rest : Bytes) (k : Nat) (h : Inv d r rest) :
    ∃ rest', rest = (d.read r k).2.2.1 ++ rest' ∧ Inv (d.read r k).1 (d.read r k).2.1 rest' ∧
      ((d.read r k).2.2.2 = none ∨ ((d.read r k).2.2.2 = some .eof ∧ rest' = [])) ∧
      (0 < k → (d.read r k).2.2.2 = none →
        rest'.length + (d.read r k).2.1.pieces.length < rest.length + r.pieces.length) := by
  obtain ⟨hi, hle, hlt⟩ := fill_spec d r rest h
  obtain ⟨rest', e1, i1, e2, e3⟩ := deliver_spec (d.fill r).1 (d.fill r).2 rest k hi
  refine ⟨rest', e1, i1, e2, ?_⟩
  intro hk he
  show rest'.length + (d.fill r).2.pieces.length < _
  rcases e3 hk he with hlt' | ⟨a, b, c⟩
  · omega
  · have := hlt a b
    rw [c]; omega

/-- Whatever sizes the Reads ask for: what they deliver is a prefix of the payload, the only error
ever returned is `io.EOF`, and it is returned exactly when the whole payload has been delivered. -/
theorem readSeq_spec (ks : List Nat) (d : Dec) (r : Src) (rest : Bytes) (h : Inv d r rest) :
    ∃ rest', rest = (readSeq d r ks).1.flatten ++ rest' ∧
      ((readSeq d r ks).2 = none ∨ ((readSeq d r ks).2 = some .eof ∧ rest' = [])) := by
  induction ks generalizing d r rest with
  | nil => exact ⟨rest, by simp [readSeq], Or.inl rfl⟩
  | cons k ks ih =>
    obtain ⟨rest', e1, i1, e2, _⟩ := read_spec d r rest k h
    unfold readSeq
    rcases e2 with e2 | ⟨e2, e3⟩
    · simp only [e2]
      obtain ⟨rest'', f1, f2⟩ := ih _ _ rest' i1
      refine ⟨rest'', ?_, f2⟩
      rw [List.flatten_cons, List.append_assoc, ← f1]; exact e1
    · simp only [e2]
      exact ⟨rest', by simpa using e1, by simp [e3]⟩

/-- With Reads of any positive size and enough of them the consumer gets the whole payload and EOF. -/
theorem readAll_spec (k : Nat) (hk : 0 < k) (fuel : Nat) (d : Dec) (r : Src) (rest : Bytes) (h : Inv d r rest)
    (hf : rest.length + r.pieces.length + 1 < fuel) : readAll k fuel d r = (rest, some .eof) := by
  induction fuel generalizing d r rest with
  | zero => omega
  | succ fuel ih =>
    obtain ⟨rest', e1, i1, e2, e3⟩ := read_spec d r rest k h
    unfold readAll
    rcases e2 with e2 | ⟨e2, e4⟩
    · simp only [e2]
      have hlt := e3 hk e2
      rw [ih _ _ rest' i1 (by omega)]
      simp [← e1]
    · simp only [e2]
      rw [e4, List.append_nil] at e1
      rw [← e1]

theorem inv_init (wire : List Bytes) (we : Bool) (x : Bytes) (h : wire.flatten = encode x) :
    Inv Dec.init { pieces := wire, withEOF := we } x := ⟨by simpa [Dec.init] using h, Or.inl rfl⟩

/-- The `Hex` wrapper is a lossless layer. -/
theorem hexLayer_good : LGood hexLayer := by
  refine ⟨fun _ => True, fun _ _ => ⟨rfl, trivial⟩, fun ws => ⟨trivial, ?_⟩⟩
  have hr := hexLayer_run ws
  have hi := inv_init [(hexLayer.run ws).flatten] false ws.flatten (by simpa using hr)
  have hl : ((hexLayer.run ws).flatten).length = 2 * ws.flatten.length := by rw [hr, encode_length]
  have := readAll_spec 512 (by decide) ((hexLayer.run ws).flatten.length + 3) Dec.init
    { pieces := [(hexLayer.run ws).flatten], withEOF := false } ws.flatten hi (by simp only [List.length_singleton]; omega)
  show (match readAll 512 ((hexLayer.run ws).flatten.length + 3) Dec.init
      { pieces := [(hexLayer.run ws).flatten], withEOF := false } with
    | (b, some .eof) => some b
    | _ => none) = some ws.flatten
  rw [this]

end XMT.HexCodec
