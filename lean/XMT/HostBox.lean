/-
  XMT.HostBox — model of the `container` that holds a client Session's current host
  (c2/x_ews.go, build tags `ews && implant`: an in-memory XOR-wrapped byte buffer; the default
  build's c2/x_no_ews.go is a plain string whose Set/String are the identity).

      func (c *container) Set(s string) {
          if c.k[0] = 0; len(c.v) == 0 { c.v = []byte(s); return }
          if i := len(s) - len(c.v); i > 0 { c.v = append(c.v, make([]byte, i)...) }
          n := copy(c.v, s)
          c.v = c.v[:n]
      }
      func (c *container) Wrap()   { k[i] = byte(FastRand()) (16 draws); if k[0]==0 {k[0]=1}; XorOp(c.v, c.k[:]) }
      func (c *container) Unwrap() { if c.k[0] == 0 { return }; XorOp(c.v, c.k[:]) }
      func (c container) String() string { the bytes of c.v }

  `Set` is modelled with Go's slice semantics spelled out: `append` extends by `i` zero bytes, `copy`
  overwrites the first `min(len dst, len src)` bytes and returns that count, the reslice keeps `n`
  bytes.  The capacity of the backing array does not influence any of these values.
-/
import XMT.KeysXor
namespace XMT.HostBox
open XMT XMT.Keys

structure Box where
  v : Bytes
  k : Bytes          -- the 16 byte key
  deriving Repr, DecidableEq

def keyLen : Nat := 16

def empty : Box := { v := [], k := List.replicate keyLen 0 }

/-- `k[0] = 0` -/
def clearK0 (k : Bytes) : Bytes :=
  match k with
  | [] => []
  | _ :: t => 0 :: t

/-- Go's `copy(dst, src)`: new contents of `dst` and the count. -/
def goCopy (dst src : Bytes) : Bytes × Nat :=
  let n := min dst.length src.length
  (src.take n ++ dst.drop n, n)

def set (c : Box) (s : Bytes) : Box :=
  let k := clearK0 c.k
  if c.v.length = 0 then { v := s, k := k }
  else
    let v1 := if s.length > c.v.length then c.v ++ List.replicate (s.length - c.v.length) 0 else c.v
    let (v2, n) := goCopy v1 s
    { v := v2.take n, k := k }

/-- `draws` are the 16 PRNG bytes (`byte(util.FastRand())`). -/
def wrap (c : Box) (draws : Bytes) : Box :=
  let k := match draws with
    | [] => []
    | d :: t => (if d = 0 then 1 else d) :: t
  { v := xorOp c.v k, k := k }

def unwrap (c : Box) : Box :=
  match c.k with
  | [] => c
  | k0 :: _ => if k0 = 0 then c else { c with v := xorOp c.v c.k }

def string (c : Box) : Bytes := c.v

inductive Op where
  | set (s : Bytes)
  | wrap (draws : Bytes)
  | unwrap
  deriving Repr

def step (c : Box) : Op → Box
  | .set s => set c s
  | .wrap d => wrap c d
  | .unwrap => unwrap c

/-! ### lemmas -/

theorem set_string (c : Box) (s : Bytes) : string (set c s) = s := by
  unfold string set
  by_cases h0 : c.v.length = 0
  · simp [h0]
  · simp only [h0, if_false, goCopy]
    by_cases hl : s.length > c.v.length
    · simp only [hl, if_true]
      have : min (c.v ++ List.replicate (s.length - c.v.length) 0).length s.length = s.length := by
        simp; omega
      rw [this]
      simp
    · simp only [hl, if_false]
      have : min c.v.length s.length = s.length := by omega
      rw [this]
      simp

theorem set_k0 (c : Box) (s : Bytes) : (set c s).k = clearK0 c.k := by
  unfold set
  by_cases h0 : c.v.length = 0 <;> simp [h0]

theorem unwrap_after_set (c : Box) (s : Bytes) (hk : c.k ≠ []) : unwrap (set c s) = set c s := by
  unfold unwrap
  rw [set_k0]
  cases hkk : c.k with
  | nil => exact absurd hkk hk
  | cons a t => simp [clearK0]

theorem unwrap_wrap (c : Box) (d : Bytes) (hd : d ≠ []) : string (unwrap (wrap c d)) = string c := by
  cases d with
  | nil => exact absurd rfl hd
  | cons a t =>
    unfold unwrap wrap string
    by_cases ha : a = 0
    · simp [ha, xorOp_involutive]
    · simp [ha, xorOp_involutive]

end XMT.HostBox

namespace XMT.HostBox
open XMT XMT.Keys

/-! ### the connection loop's use of the container (c2/session.go `listen`): every turn does
`s.host.Unwrap()`, possibly `s.host.Set(h)` (the profile switched), `Connect(ctx, s.host.String())`,
`s.host.Wrap()` -/

structure Turn where
  newHost : Option Bytes
  draws : Bytes
  deriving Repr

/-- one turn: the new container and the host string the connector was given -/
def turn (c : Box) (t : Turn) : Box × Bytes :=
  let c1 := unwrap c
  let c2 := match t.newHost with
    | some h => set c1 h
    | none => c1
  (wrap c2 t.draws, string c2)

def observed (c : Box) : List Turn → List Bytes
  | [] => []
  | t :: ts => (turn c t).2 :: observed (turn c t).1 ts

/-- what the selector promised: the host of the last switch (or the one before the loop) -/
def expected (cur : Bytes) : List Turn → List Bytes
  | [] => []
  | t :: ts => (t.newHost.getD cur) :: expected (t.newHost.getD cur) ts

theorem clearK0_ne (k : Bytes) (h : k ≠ []) : clearK0 k ≠ [] := by
  cases k with
  | nil => exact absurd rfl h
  | cons a t => simp [clearK0]

theorem unwrap_k (c : Box) : (unwrap c).k = c.k := by
  unfold unwrap
  cases hk : c.k with
  | nil => simp [hk]
  | cons a t =>
    by_cases ha : a = 0
    · simp [ha, hk]
    · simp [ha, hk]

theorem wrap_k_ne (c : Box) (d : Bytes) (hd : d ≠ []) : (wrap c d).k ≠ [] := by
  cases d with
  | nil => exact absurd rfl hd
  | cons a t => simp [wrap]

theorem observed_eq (c : Box) (cur : Bytes) (ts : List Turn)
    (hinv : string (unwrap c) = cur) (hk : c.k ≠ []) (hd : ∀ t ∈ ts, t.draws ≠ []) :
    observed c ts = expected cur ts := by
  induction ts generalizing c cur with
  | nil => rfl
  | cons t ts ih =>
    have hdt : t.draws ≠ [] := hd t (List.mem_cons_self)
    have hdr : ∀ t' ∈ ts, t'.draws ≠ [] := fun t' h => hd t' (List.mem_cons_of_mem _ h)
    simp only [observed, expected]
    cases hn : t.newHost with
    | none =>
      have h2 : (turn c t).2 = cur := by simp [turn, hn, hinv]
      have h1 : string (unwrap (turn c t).1) = cur := by
        simp only [turn, hn]
        rw [unwrap_wrap _ _ hdt]; exact hinv
      have hk1 : (turn c t).1.k ≠ [] := by
        simp only [turn, hn]; exact wrap_k_ne _ _ hdt
      rw [h2]
      simp only [Option.getD_none]
      rw [ih _ _ h1 hk1 hdr]
    | some h =>
      have h2 : (turn c t).2 = h := by simp [turn, hn, set_string]
      have h1 : string (unwrap (turn c t).1) = h := by
        simp only [turn, hn]
        rw [unwrap_wrap _ _ hdt]; exact set_string _ _
      have hk1 : (turn c t).1.k ≠ [] := by
        simp only [turn, hn]; exact wrap_k_ne _ _ hdt
      rw [h2]
      simp only [Option.getD_some]
      rw [ih _ _ h1 hk1 hdr]

end XMT.HostBox
