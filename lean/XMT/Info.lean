/-
  XMT.Info — model of the session-information synchronisation of package `c2`
  (session.go writeDeviceInfo / readDeviceInfo, u_proxy_single.go writeProxyData, proxy.go
  readProxyData, device/{machine,network,address,id}.go, c2/cfg/workhours.go, data/crypto.go
  KeyPair.Marshal/Unmarshal, session_no_implant.go SetDuration/SetKillDate/SetWorkHours/
  handleInfoResult, mux.go muxHandleInternal MvTime/MvProfile, vars.go SvResync).

  Built on XMT.Codec: writers produce lists of typed `Val`s (plus raw byte runs written with
  `w.Write`), readers are written over the primitive reads `Prim` of one reader implementation
  (in-memory Chunk = packet body, stream reader over an io.Reader with short reads = local pipe).
-/
import XMT.Codec

namespace XMT.Info
open XMT XMT.Codec

/-! ### Go integer conversions -/

/-- `uint64(i)` for an `int64` (two's complement). -/
def toU64 (i : Int) : Nat := (i % 18446744073709551616).toNat
/-- `int64(n)` for a `uint64`. -/
def ofU64 (n : Nat) : Int := if n < 9223372036854775808 then (n : Int) else (n : Int) - 18446744073709551616
/-- `int8(b)`. -/
def int8Of (b : UInt8) : Int := if b.toNat < 128 then (b.toNat : Int) else (b.toNat : Int) - 256
/-- value fits Go's `int64` / `int` / `time.Duration`. -/
def I64 (i : Int) : Prop := -9223372036854775808 ≤ i ∧ i < 9223372036854775808

instance (i : Int) : Decidable (I64 i) := by unfold I64; infer_instance

/-! ### Data -/

/-- `time.Time` as far as the code looks at it: Unix seconds (wrapping `int64`) and nanoseconds.
`IsZero` is "year 1, 00:00:00 UTC", i.e. Unix second `-c12_zeroUnixNeg` with no nanoseconds. -/
structure Time where
  sec : Int
  nsec : Nat
  deriving DecidableEq, Repr

def zeroUnix : Int := -(Facts.c12_zeroUnixNeg : Int)
def Time.zero : Time := ⟨zeroUnix, 0⟩
def Time.isZero (t : Time) : Bool := t.sec = zeroUnix ∧ t.nsec = 0
/-- `time.Unix(v, 0)` -/
def Time.unix (v : Int) : Time := ⟨v, 0⟩

structure WorkHours where
  days : UInt8
  startHour : UInt8
  startMin : UInt8
  endHour : UInt8
  endMin : UInt8
  deriving DecidableEq, Repr

/-- `WorkHours.Empty` -/
def WorkHours.empty (w : WorkHours) : Bool :=
  w.startHour = 0 ∧ w.startMin = 0 ∧ w.endHour = 0 ∧ w.endMin = 0 ∧ (w.days = 0 ∨ w.days > 126)

/-- `WorkHours.Verify` (true = no error) -/
def WorkHours.verify (w : WorkHours) : Bool :=
  ¬ (w.endMin > 59) ∧ ¬ (w.endHour > 23) ∧ ¬ (w.startMin > 59) ∧ ¬ (w.startHour > 23)

structure Address where
  hi : Nat
  low : Nat
  deriving DecidableEq, Repr

/-- `device.device` (one network interface) -/
structure Iface where
  name : Bytes
  mac : Nat
  addrs : List Address
  deriving DecidableEq, Repr

structure Machine where
  id : Bytes
  system : UInt8
  pid : Nat
  ppid : Nat
  user : Bytes
  version : Bytes
  hostname : Bytes
  elevated : UInt8
  caps : Nat
  network : List Iface
  deriving DecidableEq, Repr

/-- The single Proxy attached to a client Session (`s.proxy`): name, bind address, its Profile's
`MarshalBinary` output (`none`: the Profile is not a marshaler) and `IsActive()`. -/
structure Proxy where
  name : Bytes
  addr : Bytes
  profile : Option Bytes
  active : Bool
  deriving DecidableEq, Repr

/-- `proxyData` as kept by the receiving side. -/
structure ProxyData where
  n : Bytes
  b : Bytes
  p : Bytes
  deriving DecidableEq, Repr

structure Keys where
  pub : Bytes
  priv : Bytes
  share : Bytes
  deriving DecidableEq, Repr

structure Session where
  device : Machine
  id : Bytes
  jitter : UInt8
  sleep : Int
  kill : Time
  work : Option WorkHours
  /-- `IsClient() && IsActive()` -/
  client : Bool
  proxy : Option Proxy
  keys : Keys
  deriving DecidableEq, Repr

/-! ### Writers -/

/-- One write made on the `data.Writer`: a typed value or a raw `w.Write(b)`. -/
inductive Item
  | v (x : Val)
  | raw (b : Bytes)
  deriving DecidableEq, Repr

/-- bytes appended to a Chunk (packet body) -/
def Item.enc : Item → Bytes
  | .v x => encChunk x
  | .raw b => b
/-- `Write` calls made on the underlying `io.Writer` by the stream writer -/
def Item.calls : Item → List Bytes
  | .v x => encStream x
  | .raw b => [b]

def encItems (l : List Item) : Bytes := l.flatMap Item.enc
def callsOf (l : List Item) : List Bytes := l.flatMap Item.calls

def iU8 (b : UInt8) : Item := .v (.u8 b)
def iU32 (n : Nat) : Item := .v (.u32 n)
def iU64 (n : Nat) : Item := .v (.u64 n)
def iI64 (i : Int) : Item := .v (.u64 (toU64 i))
def iStr (b : Bytes) : Item := .v (.bytes b)

/-- `Address.MarshalStream` -/
def addrItems (a : Address) : List Item := [iU64 a.hi, iU64 a.low]

/-- `device.MarshalStream`: `l := uint8(len(d.Address))`, then the first `l` addresses. -/
def ifaceItems (d : Iface) : List Item :=
  [iStr d.name, iU64 d.mac, iU8 (byteOf d.addrs.length)] ++
    (d.addrs.take (d.addrs.length % 256)).flatMap addrItems

/-- `Network.MarshalStream` -/
def networkItems (n : List Iface) : List Item :=
  iU8 (byteOf n.length) :: (n.take (n.length % 256)).flatMap ifaceItems

/-- `Machine.MarshalStream` -/
def machineItems (m : Machine) : List Item :=
  [.raw m.id, iU8 m.system, iU32 m.pid, iU32 m.ppid, iStr m.user, iStr m.version, iStr m.hostname,
   iU8 m.elevated, iU32 m.caps] ++ networkItems m.network

/-- `WorkHours.MarshalStream` -/
def workItems (w : WorkHours) : List Item :=
  [iU8 w.days, iU8 w.startHour, iU8 w.startMin, iU8 w.endHour, iU8 w.endMin]

/-- the kill date as written: `0` when `IsZero`, else `Unix()` -/
def killWire (t : Time) : Int := if t.isZero then 0 else t.sec

/-- jitter, sleep, kill date, work hours — the part every kind except `infoProxy` carries -/
def settingsItems (s : Session) : List Item :=
  [iU8 s.jitter, iI64 s.sleep, iI64 (killWire s.kill)] ++
    (match s.work with
     | some w => workItems w
     | none => [iU32 0, iU8 0])

inductive WErr | proxyMarshal
  deriving DecidableEq, Repr

/-- `writeProxyData(f, w)` (single-proxy build). Writes NOTHING unless the Session is an active
client. -/
def proxyItems (f : Bool) (s : Session) : Except WErr (List Item) :=
  if !s.client then pure []
  else match s.proxy with
    | none => pure [iU8 0]
    | some p =>
      if !p.active then pure [iU8 0]
      else
        let h := [iU8 1, iStr p.name, iStr p.addr]
        if !f then pure h
        else match p.profile with
          | none => throw .proxyMarshal
          | some b => pure (h ++ [iStr b])

/-- the `switch t` head of `writeDeviceInfo` (for kinds other than `infoProxy`) -/
def headItems (t : Nat) (s : Session) : List Item :=
  if t = Facts.c12_infoHello ∨ t = Facts.c12_infoRefresh ∨ t = Facts.c12_infoSyncMigrate then
    machineItems s.device
  else if t = Facts.c12_infoMigrate then [.raw s.id]
  else []

def keyItems (k : Keys) : List Item := [.raw k.pub, .raw k.priv, .raw k.share]

/-- `(*Session).writeDeviceInfo(t, w)` -/
def writeItems (t : Nat) (s : Session) : Except WErr (List Item) :=
  if t = Facts.c12_infoProxy then proxyItems false s
  else
    let b := headItems t s ++ settingsItems s
    if t > Facts.c12_infoRefresh then pure b
    else do
      let p ← proxyItems true s
      if t ≠ Facts.c12_infoMigrate then pure (b ++ p)
      else pure (b ++ p ++ keyItems s.keys)

/-- bytes a packet body (Chunk) holds after `writeDeviceInfo` -/
def writeInfo (t : Nat) (s : Session) : Except WErr Bytes := (writeItems t s).map encItems

/-! ### Readers -/

/-- Primitive reads of one reader implementation, extended by the two ways the code reads raw
byte runs directly from the `data.Reader`. -/
structure PrimX (S : Type) where
  prim : Prim S
  /-- `io.ReadFull(r, buf)`, `len(buf) = n` (ID.Read; KeyPair.Unmarshal after the fix) -/
  full : Nat → S → Except Err (Bytes × S)
  /-- one `r.Read(buf)`, `len(buf) = n`, demanding all `n` bytes from it (KeyPair.Unmarshal
  before the fix) -/
  once : Nat → S → Except Err (Bytes × S)

/-- Chunk: `Read` copies what is there; `io.ReadFull` turns a partial copy into
`ErrUnexpectedEOF` and nothing at all into `EOF`. -/
def chunkX : PrimX Bytes where
  prim := chunkPrim
  full n s := if s.length < n then .error (shortErr s) else .ok (s.take n, s.drop n)
  once n s := if s.length < n then .error (shortErr s) else .ok (s.take n, s.drop n)

/-- stream reader: `reader.Read` is the underlying reader's `Read` (one piece at most). -/
def streamX : PrimX Stream where
  prim := streamPrim
  full n s :=
    let r := readFull n s
    if r.1.length = n then .ok r else .error (shortErr r.1)
  once n s :=
    match s with
    | [] => .error .eof
    | c :: cs =>
      if c.length < n then .error .unexpectedEOF
      else .ok (c.take n, if c.length = n then cs else c.drop n :: cs)

inductive RErr
  | codec (e : Err)
  | noProgress
  /-- `parseProfile` rejected the bytes (MvProfile handler only) -/
  | parseProfile
  deriving DecidableEq, Repr

abbrev M (S : Type) := StateT S (Except RErr)

def lift {S α : Type} (f : S → Except Err (α × S)) : M S α := fun s =>
  match f s with
  | .ok r => .ok r
  | .error e => .error (.codec e)

section Readers
variable {S : Type} (X : PrimX S)

def u8 : M S UInt8 := lift X.prim.u8
def u32 : M S Nat := lift X.prim.u32
def u64 : M S Nat := lift X.prim.u64
def i64 : M S Int := do let n ← u64 X; pure (ofU64 n)
/-- `ReadString` / `ReadBytes` -/
def str : M S Bytes := lift (decBytes X.prim)
def full (n : Nat) : M S Bytes := lift (X.full n)
def once (n : Nat) : M S Bytes := lift (X.once n)

/-- `ID.Read`: `io.ReadFull`, and an ID whose first byte is zero is a read error. -/
def readID : M S Bytes := do
  let b ← full X Facts.c12_idSize
  match b with
  | 0 :: _ => throw .noProgress
  | _ => pure b

/-- a counted loop `for x := uint8(0); x < l; x++ { elem.UnmarshalStream(r) }` -/
def readN {α : Type} (rd : M S α) : Nat → M S (List α)
  | 0 => pure []
  | n + 1 => do
    let a ← rd
    let r ← readN rd n
    pure (a :: r)

/-- `Address.UnmarshalStream` -/
def readAddr : M S Address := do
  let hi ← u64 X
  let low ← u64 X
  pure ⟨hi, low⟩

/-- `device.UnmarshalStream` -/
def readIface : M S Iface := do
  let name ← str X
  let mac ← u64 X
  let l ← u8 X
  let a ← readN (readAddr X) l.toNat
  pure ⟨name, mac, a⟩

/-- `Network.UnmarshalStream` -/
def readNetwork : M S (List Iface) := do
  let l ← u8 X
  readN (readIface X) l.toNat

/-- `Machine.UnmarshalStream` -/
def readMachine : M S Machine := do
  let id ← readID X
  let system ← u8 X
  let pid ← u32 X
  let ppid ← u32 X
  let user ← str X
  let version ← str X
  let hostname ← str X
  let elevated ← u8 X
  let caps ← u32 X
  let network ← readNetwork X
  pure ⟨id, system, pid, ppid, user, version, hostname, elevated, caps, network⟩

/-- `WorkHours.UnmarshalStream` -/
def readWork : M S WorkHours := do
  let d ← u8 X
  let sh ← u8 X
  let sm ← u8 X
  let eh ← u8 X
  let em ← u8 X
  pure ⟨d, sh, sm, eh, em⟩

/-- one element of `readProxyData(f, r)` -/
def readProxyElem (f : Bool) : M S ProxyData := do
  let n ← str X
  let b ← str X
  if !f then pure ⟨n, b, []⟩
  else do
    let p ← str X
    pure ⟨n, b, p⟩

/-- `readProxyData(f, r)` -/
def readProxy (f : Bool) : M S (List ProxyData) := do
  let n ← u8 X
  readN (readProxyElem X f) n.toNat

/-- `KeyPair.Unmarshal` (repaired: `io.ReadFull` per key) -/
def readKeys : M S Keys := do
  let a ← full X Facts.c12_publicKeySize
  let b ← full X Facts.c12_privateKeySize
  let c ← full X Facts.c12_sharedKeySize
  pure ⟨a, b, c⟩

/-- `KeyPair.Unmarshal` as it was before the fix: one `Read` per key. -/
def readKeysOld : M S Keys := do
  let a ← once X Facts.c12_publicKeySize
  let b ← once X Facts.c12_privateKeySize
  let c ← once X Facts.c12_sharedKeySize
  pure ⟨a, b, c⟩

/-- the `switch t` head of `readDeviceInfo` (kinds other than `infoProxy`) -/
def readHead (t : Nat) (s : Session) : M S Session :=
  if t = Facts.c12_infoHello ∨ t = Facts.c12_infoRefresh ∨ t = Facts.c12_infoSyncMigrate then do
    let d ← readMachine X
    pure { s with device := d }
  else if t = Facts.c12_infoMigrate then do
    let i ← readID X
    pure { s with id := i }
  else pure s

/-- kill date as stored by the reader: `0` means none, anything else `time.Unix(v, 0)` -/
def killOfWire (v : Int) : Time := if v = 0 then Time.zero else Time.unix v
/-- work hours as stored by the reader: an `Empty()` value becomes nil -/
def workOfWire (w : WorkHours) : Option WorkHours := if w.empty then none else some w

def readSettings (s : Session) : M S Session := do
  let j ← u8 X
  let sl ← i64 X
  let v ← i64 X
  let w ← readWork X
  pure { s with jitter := j, sleep := sl, kill := killOfWire v, work := workOfWire w }

/-- `(*Session).readDeviceInfo(t, r)` applied to the receiving Session `s`: the updated Session
and the returned proxy list. `keys` selects the KeyPair reader (repaired / original). -/
def readInfoWith (keys : M S Keys) (t : Nat) (s : Session) : M S (Session × List ProxyData) :=
  if t = Facts.c12_infoProxy then do
    let p ← readProxy X false
    pure (s, p)
  else do
    let s ← readHead X t s
    let s ← readSettings X s
    if t > Facts.c12_infoRefresh then pure (s, [])
    else do
      let p ← readProxy X true
      if t ≠ Facts.c12_infoMigrate then pure (s, p)
      else do
        let k ← keys
        pure ({ s with keys := k }, p)

def readInfo (t : Nat) (s : Session) : M S (Session × List ProxyData) :=
  readInfoWith X (readKeys X) t s

def readInfoOld (t : Nat) (s : Session) : M S (Session × List ProxyData) :=
  readInfoWith X (readKeysOld X) t s

end Readers

/-! ### Expected result of a synchronisation -/

/-- what the receiver's kill date is after reading the sender's -/
def normKill (t : Time) : Time := killOfWire (killWire t)
/-- what the receiver's work hours are after reading the sender's -/
def normWork (w : Option WorkHours) : Option WorkHours :=
  match w with
  | none => none
  | some w => workOfWire w

/-- the proxy list the receiver obtains -/
def proxyView (f : Bool) (s : Session) : List ProxyData :=
  match s.proxy with
  | none => []
  | some p =>
    if !p.active then []
    else [⟨p.name, p.addr, if f then p.profile.getD [] else []⟩]

def absorbHead (t : Nat) (snd rcv : Session) : Session :=
  if t = Facts.c12_infoHello ∨ t = Facts.c12_infoRefresh ∨ t = Facts.c12_infoSyncMigrate then
    { rcv with device := snd.device }
  else if t = Facts.c12_infoMigrate then { rcv with id := snd.id }
  else rcv

def absorbSettings (snd rcv : Session) : Session :=
  { rcv with jitter := snd.jitter, sleep := snd.sleep, kill := normKill snd.kill,
             work := normWork snd.work }

/-- The receiving Session `rcv` after a message of kind `t` from `snd` (fields the kind does not
carry keep the receiver's values) and the proxy list it is handed. -/
def absorb (t : Nat) (snd rcv : Session) : Session × List ProxyData :=
  if t = Facts.c12_infoProxy then (rcv, proxyView false snd)
  else
    let s := absorbSettings snd (absorbHead t snd rcv)
    if t > Facts.c12_infoRefresh then (s, [])
    else if t ≠ Facts.c12_infoMigrate then (s, proxyView true snd)
    else ({ s with keys := snd.keys }, proxyView true snd)

/-! ### Order → effect → echo (server setters, client MvTime / MvProfile handler, absorption) -/

/-- `SetDuration(t, j)` on a server-side Session: new server state and the MvTime payload
(`WriteUint16(uint16(jitter))` — the high byte is the implied `timeSleepJitter` —, then
`WriteUint64(uint64(sleep))`). -/
def setDuration (srv : Session) (t j : Int) : Session × Bytes :=
  let jit : UInt8 :=
    if j = -1 then srv.jitter
    else if j < 0 then 0
    else if j > 100 then 100
    else byteOf j.toNat
  let sl := if t > 0 then t else srv.sleep
  ({ srv with jitter := jit, sleep := sl }, be16 jit.toNat ++ be64 (toU64 sl))

/-- `SetKillDate(t)` -/
def setKillDate (srv : Session) (t : Time) : Session × Bytes :=
  ({ srv with kill := t },
   byteOf Facts.c12_timeKillDate :: (if t.isZero then be64 0 else be64 (toU64 t.sec)))

/-- `SetWorkHours(w)`; `none` result = `Verify` error (nothing changes, nothing is sent). -/
def setWorkHours (srv : Session) (w : Option WorkHours) : Option (Session × Bytes) :=
  match w with
  | none => some ({ srv with work := none }, byteOf Facts.c12_timeWorkHours :: (be32 0 ++ [0]))
  | some w =>
    if w.empty then
      some ({ srv with work := none }, byteOf Facts.c12_timeWorkHours :: (be32 0 ++ [0]))
    else if !w.verify then none
    else some ({ srv with work := some w },
               byteOf Facts.c12_timeWorkHours :: encItems (workItems w))

/-- the `task.MvTime` arm of `muxHandleInternal` up to the echo: the client Session after the
order. -/
def muxTime (cli : Session) : M Bytes Session := do
  let t ← u8 chunkX
  if t.toNat = Facts.c12_timeSleepJitter then do
    let jb ← u8 chunkX
    let d ← i64 chunkX
    let j := int8Of jb
    let jit : UInt8 :=
      if j = -1 then cli.jitter
      else if j > 100 then 100
      else if j < 0 then 0
      else jb
    pure { cli with jitter := jit, sleep := if d > 0 then d else cli.sleep }
  else if t.toNat = Facts.c12_timeKillDate then do
    let u ← i64 chunkX
    pure { cli with kill := killOfWire u }
  else if t.toNat = Facts.c12_timeWorkHours then do
    let w ← readWork chunkX
    pure { cli with work := workOfWire w }
  else pure cli

/-- echo written by the client after MvTime / MvProfile: `writeDeviceInfo(infoSync, w)` (its
error is ignored by the code; `infoSync` cannot fail). -/
def echoSync (cli : Session) : Bytes :=
  match writeInfo Facts.c12_infoSync cli with
  | .ok b => b
  | .error _ => []

inductive OErr
  | client (e : RErr)
  | server (e : RErr)
  deriving DecidableEq, Repr

/-- `SetProfile` / `SetProfileBytes` → `setProfile(b)`: the MvProfile payload is `WriteBytes(b)`
(the server's own settings are not touched). -/
def setProfilePayload (b : Bytes) : Bytes := encBytesChunk b

/-- the `task.MvProfile` arm of `muxHandleInternal` up to the echo; `parseOK` stands for
`parseProfile` accepting the bytes (the new profile goes to `s.swap`; no setting changes). -/
def muxProfile (parseOK : Bytes → Bool) (cli : Session) : M Bytes Session := do
  let b ← str chunkX
  if parseOK b then pure cli else throw .parseProfile

/-- One complete order: the payload built by a server setter is handled by the client (`handler`),
whose echo is absorbed by the server (`handleInfoResult` → `readDeviceInfo(infoSync, n)`). Returns
(server after, client after). -/
def orderVia (handler : M Bytes Session) (srv1 : Session) (payload : Bytes) :
    Except OErr (Session × Session) :=
  match handler.run payload with
  | .error e => .error (.client e)
  | .ok (cli', _) =>
    match (readInfo chunkX Facts.c12_infoSync srv1).run (echoSync cli') with
    | .error e => .error (.server e)
    | .ok ((srv2, _), _) => .ok (srv2, cli')

/-- an MvTime order -/
def order (srv1 : Session) (payload : Bytes) (cli : Session) : Except OErr (Session × Session) :=
  orderVia (muxTime cli) srv1 payload

/-- an MvProfile order -/
def orderProfile (parseOK : Bytes → Bool) (srv : Session) (b : Bytes) (cli : Session) :
    Except OErr (Session × Session) :=
  orderVia (muxProfile parseOK cli) srv (setProfilePayload b)

/-- the settings at the resolution they travel with (kill date in whole seconds, nil ↔ `Empty()`
work hours): what two sessions must agree on to "have the same view" -/
def view (s : Session) : UInt8 × Int × Time × Option WorkHours :=
  (s.jitter, s.sleep, normKill s.kill, normWork s.work)

/-- `SvResync` packet body written by the script handler: kind byte, then the info of that kind;
the server reads the kind byte and calls `readDeviceInfo(kind, n)` (the returned proxy list is
dropped). -/
def readResync {S : Type} (X : PrimX S) (s : Session) : M S Session := do
  let t ← u8 X
  let r ← readInfo X t.toNat s
  pure r.1

/-! ### Field order of the straight-line codecs as modelled above (compared with the order extracted
from the source, `XMT.Facts.c12_fields_*`) -/

def expectMachine : List String :=
  ["Stream:ID", "Uint8:System", "Uint32:PID", "Uint32:PPID", "String:User", "String:Version",
   "String:Hostname", "Uint8:Elevated", "Uint32:Capabilities", "Stream:Network"]
def expectWorkHours : List String :=
  ["Uint8:Days", "Uint8:StartHour", "Uint8:StartMin", "Uint8:EndHour", "Uint8:EndMin"]
def expectAddress : List String := ["Uint64:hi", "Uint64:low"]
def expectMac : List String := ["Uint64:h"]

end XMT.Info
