/-
  XMT.InfoLemmas — the "reads back" calculus for the readers of XMT.Info and the lawfulness of the
  two extended primitive sets (Chunk / stream with short reads).
-/
import XMT.Info
import XMT.CodecRoundtrip

namespace XMT.Info
open XMT XMT.Codec

/-! ### integer conversions -/

theorem ofU64_toU64 (i : Int) (h : I64 i) : ofU64 (toU64 i) = i := by
  unfold I64 at h
  unfold ofU64 toU64
  split <;> omega

theorem toU64_lt (i : Int) : toU64 i < 2 ^ 64 := by
  unfold toU64; omega

theorem int8Of_small (b : UInt8) (h : b.toNat ≤ 100) : int8Of b = b.toNat := by
  unfold int8Of; split <;> omega

/-! ### lawfulness of the extended primitives -/

/-- `Lawful` for the typed reads plus: `io.ReadFull` of `l` available bytes returns exactly them. -/
structure LawfulX {S : Type} (X : PrimX S) (abs : S → Bytes) (inv : S → Prop) : Prop where
  base : Lawful X.prim abs inv
  full_ok : ∀ s l, inv s → l ≤ (abs s).length →
    ∃ s', X.full l s = .ok ((abs s).take l, s') ∧ abs s' = (abs s).drop l ∧ inv s'

theorem chunkX_lawful : LawfulX chunkX id (fun _ => True) where
  base := chunk_lawful
  full_ok := by
    intro s l _ h
    refine ⟨s.drop l, ?_, rfl, trivial⟩
    simp only [chunkX, id]
    rw [if_neg (by simp at h; omega)]

theorem streamX_lawful : LawfulX streamX List.flatten NoEmpty where
  base := stream_lawful
  full_ok := by
    intro s l hi h
    exact stream_lawful.body_ok s l hi h

/-! ### the calculus -/

section
variable {S : Type} {X : PrimX S} {abs : S → Bytes} {inv : S → Prop}

/-- `rd` run on any state whose unread bytes start with `bs` returns `x` and consumes exactly
`bs`. -/
def Reads (abs : S → Bytes) (inv : S → Prop) {α : Type} (rd : M S α) (bs : Bytes) (x : α) : Prop :=
  ∀ s r, inv s → abs s = bs ++ r → ∃ s', rd s = .ok (x, s') ∧ abs s' = r ∧ inv s'

theorem Reads.pure {α : Type} (x : α) : Reads abs inv (Pure.pure x : M S α) [] x := by
  intro s r hi h
  exact ⟨s, rfl, by simpa using h, hi⟩

theorem Reads.bind {α β : Type} {rd : M S α} {f : α → M S β} {b1 b2 : Bytes} {x : α} {y : β}
    (h1 : Reads abs inv rd b1 x) (h2 : Reads abs inv (f x) b2 y) :
    Reads abs inv (rd >>= f) (b1 ++ b2) y := by
  intro s r hi h
  rw [List.append_assoc] at h
  obtain ⟨s1, e1, a1, i1⟩ := h1 s _ hi h
  obtain ⟨s2, e2, a2, i2⟩ := h2 s1 _ i1 a1
  refine ⟨s2, ?_, a2, i2⟩
  show (rd >>= f) s = _
  simp only [Bind.bind, StateT.bind, e1, Except.bind, e2]

theorem Reads.of_eq {α : Type} {rd : M S α} {b b' : Bytes} {x x' : α}
    (h : Reads abs inv rd b x) (hb : b' = b) (hx : x' = x) : Reads abs inv rd b' x' := by
  subst hb; subst hx; exact h

theorem Reads.map {α β : Type} {rd : M S α} {b : Bytes} {x : α} (g : α → β)
    (h : Reads abs inv rd b x) : Reads abs inv (rd >>= fun a => Pure.pure (g a)) b (g x) := by
  have := Reads.bind (f := fun a => (Pure.pure (g a) : M S β)) h
    (Reads.pure (abs := abs) (inv := inv) (g x))
  simpa using this

theorem reads_lift {α : Type} {f : S → Except Err (α × S)} {bs : Bytes} {x : α}
    (h : ∀ s r, inv s → abs s = bs ++ r → ∃ s', f s = .ok (x, s') ∧ abs s' = r ∧ inv s') :
    Reads abs inv (lift f) bs x := by
  intro s r hi ha
  obtain ⟨s', e, a, i⟩ := h s r hi ha
  exact ⟨s', by simp [lift, e], a, i⟩

/-- a counted loop reads back a list element by element -/
theorem reads_readN {α : Type} (rd : M S α) (enc : α → Bytes) (xs : List α)
    (h : ∀ x ∈ xs, Reads abs inv rd (enc x) x) :
    Reads abs inv (readN rd xs.length) (xs.flatMap enc) xs := by
  induction xs with
  | nil => exact Reads.pure []
  | cons x xs ih =>
    simp only [List.length_cons, readN, List.flatMap_cons]
    refine Reads.bind (h x List.mem_cons_self) ?_
    have := Reads.map (abs := abs) (inv := inv) (fun r => x :: r)
      (ih fun y hy => h y (List.mem_cons_of_mem _ hy))
    exact this

variable (L : LawfulX X abs inv)
include L

theorem reads_u8 (b : UInt8) : Reads abs inv (u8 X) [b] b :=
  reads_lift fun s r hi h => L.base.u8_ok s b r hi (by simpa using h)

theorem reads_u32 (n : Nat) (hn : n < 2 ^ 32) : Reads abs inv (u32 X) (be32 n) n :=
  reads_lift fun s r hi h => by
    obtain ⟨s', e, a, i⟩ := L.base.u32_ok s _ _ _ _ r hi (by simpa [be32] using h)
    rw [ofBe32_be32 n hn] at e
    exact ⟨s', e, a, i⟩

theorem reads_u64 (n : Nat) (hn : n < 2 ^ 64) : Reads abs inv (u64 X) (be64 n) n :=
  reads_lift fun s r hi h => by
    obtain ⟨s', e, a, i⟩ := L.base.u64_ok s _ _ _ _ _ _ _ _ r hi (by simpa [be64] using h)
    rw [ofBe64_be64 n hn] at e
    exact ⟨s', e, a, i⟩

theorem reads_i64 (i : Int) (hi : I64 i) : Reads abs inv (i64 X) (be64 (toU64 i)) i := by
  have h := Reads.map (abs := abs) (inv := inv) ofU64 (reads_u64 L (toU64 i) (toU64_lt i))
  rw [ofU64_toU64 i hi] at h
  exact h

theorem reads_str (b : Bytes) (hb : b.length ≤ Facts.maxSlice) :
    Reads abs inv (str X) (encBytesChunk b) b :=
  reads_lift fun s r hi h => decBytes_ok L.base b hb s r hi h

theorem reads_full (b : Bytes) : Reads abs inv (full X b.length) b b :=
  reads_lift fun s r hi h => by
    obtain ⟨s', e, a, i⟩ := L.full_ok s b.length hi (by rw [h]; simp)
    rw [h] at e a
    simp only [List.take_left'] at e
    simp only [List.drop_left'] at a
    exact ⟨s', e, a, i⟩

end
end XMT.Info
