/-
  XMT.InfoOrder — lemmas for the order → effect → echo path (server setter, client MvTime handler,
  absorption of the echo), the witness for the repaired KeyPair reader, and the example sessions
  used as non-vacuity instances.
-/
import XMT.InfoRoundtrip
import XMT.InfoPinned

namespace XMT.Info
open XMT XMT.Codec

/-- "The server's view equals the client's": jitter and sleep exactly, the kill date at the
resolution it travels with (whole seconds, epoch 0 = none), work hours up to nil ↔ `Empty()`. -/
def Synced (srv cli : Session) : Prop :=
  srv.jitter = cli.jitter ∧ srv.sleep = cli.sleep ∧ srv.kill = normKill cli.kill ∧
  srv.work = normWork cli.work

theorem normKill_idem (k : Time) : normKill (normKill k) = normKill k := by
  unfold normKill
  generalize killWire k = v
  unfold killOfWire
  by_cases h0 : v = 0
  · simp only [h0, if_true]
    decide
  · simp only [h0, if_false]
    unfold killWire
    by_cases hz : (Time.unix v).isZero = true
    · simp only [hz, if_true]
      simp only [Time.isZero, Time.unix, decide_eq_true_eq] at hz
      simp [Time.zero, Time.unix, hz.1]
    · simp only [hz]
      simp [Time.unix, h0]

theorem normWork_idem (w : Option WorkHours) : normWork (normWork w) = normWork w := by
  cases w with
  | none => rfl
  | some x =>
    by_cases h : x.empty = true
    · simp [normWork, workOfWire, h]
    · simp [normWork, workOfWire, h]

theorem view_eq_of_synced (srv cli : Session) (h : Synced srv cli) : view srv = view cli := by
  obtain ⟨h1, h2, h3, h4⟩ := h
  simp [view, h1, h2, h3, h4, normKill_idem, normWork_idem]

theorem I64_killOfWire (u : Int) (h : I64 u) : I64 (killOfWire u).sec := by
  unfold killOfWire
  split
  · decide
  · exact h

/-- the facts about the kind constants that the order path needs -/
theorem sync_kind_facts :
    Facts.c12_infoSync ≠ Facts.c12_infoProxy ∧ ¬ hasDevice Facts.c12_infoSync ∧
    Facts.c12_infoSync ≠ Facts.c12_infoMigrate ∧ Facts.c12_infoSync > Facts.c12_infoRefresh := by
  unfold hasDevice; decide

/-- The echo of a client whose settings are well-formed is absorbed by the server into a synced
state. -/
theorem echo_absorbed (srv1 cli' : Session) (hw : SettingsWF cli') :
    ∃ srv2, (readInfo chunkX Facts.c12_infoSync srv1).run (echoSync cli') = .ok ((srv2, []), []) ∧
      Synced srv2 cli' := by
  obtain ⟨k1, k2, k3, k4⟩ := sync_kind_facts
  have hwf : WF Facts.c12_infoSync cli' := by
    unfold WF
    simp only [k1, if_false]
    exact ⟨fun h => absurd h k2, fun _ h => absurd h k3, hw, fun h => absurd k4 h⟩
  obtain ⟨bs, hwr, hr⟩ := reads_info chunkX_lawful Facts.c12_infoSync cli' srv1 hwf
  obtain ⟨s', e, a, _⟩ := hr (bs ++ []) [] trivial rfl
  simp only [id] at a
  subst a
  have he : echoSync cli' = bs := by simp [echoSync, hwr]
  have ha : absorb Facts.c12_infoSync cli' srv1 =
      (absorbSettings cli' (absorbHead Facts.c12_infoSync cli' srv1), []) := by
    unfold absorb
    simp only [k1, if_false, k4, if_true]
  rw [ha] at e
  refine ⟨_, by rw [he]; simpa [StateT.run] using e, ?_⟩
  simp [Synced, absorbSettings]

/-- generic completion of an order once the client handler is known to read the payload -/
theorem orderVia_ok (handler : M Bytes Session) (srv1 cli' : Session) (payload : Bytes)
    (hm : Reads id (fun _ => True) handler payload cli') (hw : SettingsWF cli') :
    ∃ srv2, orderVia handler srv1 payload = .ok (srv2, cli') ∧ Synced srv2 cli' := by
  obtain ⟨s', e, _, _⟩ := hm (payload ++ []) [] trivial rfl
  obtain ⟨srv2, e2, hs⟩ := echo_absorbed srv1 cli' hw
  refine ⟨srv2, ?_, hs⟩
  unfold orderVia
  simp only [List.append_nil] at e
  simp only [StateT.run] at e e2 ⊢
  rw [e]
  simp only [e2]

theorem order_ok (srv1 cli cli' : Session) (payload : Bytes)
    (hm : Reads id (fun _ => True) (muxTime cli) payload cli') (hw : SettingsWF cli') :
    ∃ srv2, order srv1 payload cli = .ok (srv2, cli') ∧ Synced srv2 cli' :=
  orderVia_ok (muxTime cli) srv1 cli' payload hm hw

theorem order_profile_ok (parseOK : Bytes → Bool) (srv cli : Session) (b : Bytes)
    (hc : SettingsWF cli) (hb : b.length ≤ Facts.maxSlice) (hp : parseOK b = true) :
    ∃ srv2, orderProfile parseOK srv b cli = .ok (srv2, cli) ∧ Synced srv2 cli := by
  refine orderVia_ok _ srv cli _ ?_ hc
  unfold muxProfile setProfilePayload
  have := Reads.bind (b2 := []) (reads_str chunkX_lawful b hb)
    (f := fun b => (if parseOK b then Pure.pure cli else throw RErr.parseProfile : M Bytes Session))
    (by simp only [hp, if_true]; exact Reads.pure _)
  simpa using this

theorem time_kind_facts :
    (0 : UInt8).toNat = Facts.c12_timeSleepJitter ∧
    (byteOf Facts.c12_timeKillDate).toNat ≠ Facts.c12_timeSleepJitter ∧
    (byteOf Facts.c12_timeKillDate).toNat = Facts.c12_timeKillDate ∧
    (byteOf Facts.c12_timeWorkHours).toNat ≠ Facts.c12_timeSleepJitter ∧
    (byteOf Facts.c12_timeWorkHours).toNat ≠ Facts.c12_timeKillDate ∧
    (byteOf Facts.c12_timeWorkHours).toNat = Facts.c12_timeWorkHours := by
  decide

/-- client handler, `timeSleepJitter` arm -/
theorem muxTime_duration (cli : Session) (jb : UInt8) (d : Int) (hd : I64 d) :
    Reads id (fun _ => True) (muxTime cli) ([0] ++ ([jb] ++ be64 (toU64 d)))
      { cli with
        jitter := (if int8Of jb = -1 then cli.jitter else if int8Of jb > 100 then 100
                   else if int8Of jb < 0 then 0 else jb),
        sleep := if d > 0 then d else cli.sleep } := by
  unfold muxTime
  refine Reads.bind (reads_u8 chunkX_lawful 0) ?_
  rw [if_pos time_kind_facts.1]
  refine Reads.bind (reads_u8 chunkX_lawful jb) ?_
  have := Reads.bind (b2 := []) (reads_i64 chunkX_lawful d hd)
    (f := fun d => (Pure.pure { cli with
        jitter := (if int8Of jb = -1 then cli.jitter else if int8Of jb > 100 then 100
                   else if int8Of jb < 0 then 0 else jb),
        sleep := if d > 0 then d else cli.sleep } : M Bytes Session)) (Reads.pure _)
  simpa using this

/-- client handler, `timeKillDate` arm -/
theorem muxTime_kill (cli : Session) (u : Int) (hu : I64 u) :
    Reads id (fun _ => True) (muxTime cli) ([byteOf Facts.c12_timeKillDate] ++ be64 (toU64 u))
      { cli with kill := killOfWire u } := by
  unfold muxTime
  refine Reads.bind (reads_u8 chunkX_lawful _) ?_
  rw [if_neg time_kind_facts.2.1, if_pos time_kind_facts.2.2.1]
  have := Reads.bind (b2 := []) (reads_i64 chunkX_lawful u hu)
    (f := fun u => (Pure.pure { cli with kill := killOfWire u } : M Bytes Session)) (Reads.pure _)
  simpa using this

/-- client handler, `timeWorkHours` arm -/
theorem muxTime_work (cli : Session) (w : WorkHours) :
    Reads id (fun _ => True) (muxTime cli)
      ([byteOf Facts.c12_timeWorkHours] ++ encItems (workItems w))
      { cli with work := workOfWire w } := by
  unfold muxTime
  refine Reads.bind (reads_u8 chunkX_lawful _) ?_
  rw [if_neg time_kind_facts.2.2.2.1, if_neg time_kind_facts.2.2.2.2.1,
    if_pos time_kind_facts.2.2.2.2.2]
  have := Reads.bind (b2 := []) (reads_work chunkX_lawful w)
    (f := fun w => (Pure.pure { cli with work := workOfWire w } : M Bytes Session)) (Reads.pure _)
  simpa using this

theorem int8Of_byteOf_small (n : Nat) (h : n ≤ 100) : int8Of (byteOf n) = n := by
  unfold int8Of
  simp only [byteOf_toNat]
  split <;> omega

theorem order_duration_ok (srv cli : Session) (t j : Int)
    (hs : SettingsWF srv) (hc : SettingsWF cli) (ht : I64 t) :
    ∃ srv2 cli2, order (setDuration srv t j).1 (setDuration srv t j).2 cli = .ok (srv2, cli2) ∧
      (j ≠ -1 → cli2.jitter = (if j < 0 then 0 else if j > 100 then 100 else byteOf j.toNat)) ∧
      (t > 0 → cli2.sleep = t) ∧
      (j = -1 → srv.jitter.toNat ≤ 100 → cli2.jitter = srv.jitter) ∧
      cli2.kill = cli.kill ∧ cli2.work = cli.work ∧
      Synced srv2 cli2 := by
  -- the values the server sends
  generalize hjit : (if j = -1 then srv.jitter else if j < 0 then (0 : UInt8) else if j > 100 then 100
      else byteOf j.toNat) = jit
  generalize hsl : (if t > 0 then t else srv.sleep) = sl
  have hsl64 : I64 sl := by rw [← hsl]; split; exact ht; exact hs.1
  have hpay : (setDuration srv t j).2 = [0] ++ ([jit] ++ be64 (toU64 sl)) := by
    simp only [setDuration, hjit, hsl, be16]
    have h1 : jit.toNat >>> 8 = 0 := by
      have := UInt8.toNat_lt jit
      rw [Nat.shiftRight_eq_div_pow]; omega
    rw [h1, byteOf_toNat_eq]
    rfl
  have hm := muxTime_duration cli jit sl hsl64
  have hw : SettingsWF { cli with
        jitter := (if int8Of jit = -1 then cli.jitter else if int8Of jit > 100 then 100
                   else if int8Of jit < 0 then 0 else jit),
        sleep := if sl > 0 then sl else cli.sleep } := by
    refine ⟨?_, hc.2⟩
    show I64 (if sl > 0 then sl else cli.sleep)
    split; exact hsl64; exact hc.1
  obtain ⟨srv2, e, hsync⟩ := order_ok (setDuration srv t j).1 cli _ _ hm hw
  rw [← hpay] at e
  refine ⟨srv2, _, e, ?_, ?_, ?_, rfl, rfl, hsync⟩
  rotate_left 2
  · intro hj hle
    show (if int8Of jit = -1 then cli.jitter else if int8Of jit > 100 then 100
                   else if int8Of jit < 0 then 0 else jit) = _
    rw [← hjit]
    simp only [hj, if_true]
    have h8 : int8Of srv.jitter = srv.jitter.toNat := int8Of_small _ hle
    rw [h8]
    have h4 : ¬ ((srv.jitter.toNat : Int) = -1) := by omega
    have h5 : ¬ ((srv.jitter.toNat : Int) > 100) := by omega
    have h6 : ¬ ((srv.jitter.toNat : Int) < 0) := by omega
    simp only [h4, h5, h6, if_false]
  · intro hj
    show (if int8Of jit = -1 then cli.jitter else if int8Of jit > 100 then 100
                   else if int8Of jit < 0 then 0 else jit) = _
    rw [← hjit]
    simp only [hj, if_false]
    by_cases h1 : j < 0
    · simp only [h1, if_true]
      have : int8Of 0 = 0 := by decide
      simp [this]
    · simp only [h1, if_false]
      by_cases h2 : j > 100
      · simp only [h2, if_true]
        have : int8Of 100 = 100 := by decide
        simp [this]
      · simp only [h2, if_false]
        have h3 : j.toNat ≤ 100 := by omega
        rw [int8Of_byteOf_small _ h3]
        have : ¬ ((j.toNat : Int) = -1) := by omega
        have h5 : ¬ ((j.toNat : Int) > 100) := by omega
        have h6 : ¬ ((j.toNat : Int) < 0) := by omega
        simp only [this, h5, h6, if_false]
  · intro htp
    show (if sl > 0 then sl else cli.sleep) = t
    rw [← hsl]
    simp [htp]

theorem order_killdate_ok (srv cli : Session) (k : Time)
    (_hs : SettingsWF srv) (hc : SettingsWF cli) (hk : I64 k.sec) :
    ∃ srv2 cli2, order (setKillDate srv k).1 (setKillDate srv k).2 cli = .ok (srv2, cli2) ∧
      cli2.kill = normKill k ∧
      cli2.jitter = cli.jitter ∧ cli2.sleep = cli.sleep ∧ cli2.work = cli.work ∧
      Synced srv2 cli2 := by
  have hkw : I64 (killWire k) := by
    unfold killWire; split
    · decide
    · exact hk
  have hpay : (setKillDate srv k).2 = [byteOf Facts.c12_timeKillDate] ++ be64 (toU64 (killWire k)) := by
    simp only [setKillDate, killWire]
    split <;> rfl
  have hm := muxTime_kill cli (killWire k) hkw
  have hw : SettingsWF { cli with kill := killOfWire (killWire k) } :=
    ⟨hc.1, I64_killOfWire _ hkw⟩
  obtain ⟨srv2, e, hsync⟩ := order_ok (setKillDate srv k).1 cli _ _ hm hw
  rw [← hpay] at e
  exact ⟨srv2, _, e, rfl, rfl, rfl, rfl, hsync⟩

theorem order_workhours_ok (srv cli : Session) (w : Option WorkHours)
    (_hs : SettingsWF srv) (hc : SettingsWF cli) :
    match setWorkHours srv w with
    | none => ∃ x, w = some x ∧ x.empty = false ∧ x.verify = false
    | some (srv1, payload) =>
      ∃ srv2 cli2, order srv1 payload cli = .ok (srv2, cli2) ∧
        cli2.work = normWork w ∧
        cli2.jitter = cli.jitter ∧ cli2.sleep = cli.sleep ∧ cli2.kill = cli.kill ∧
        Synced srv2 cli2 := by
  have hzero : (be32 0 ++ [0] : Bytes) = encItems (workItems ⟨0, 0, 0, 0, 0⟩) := by decide
  have hnone : ∀ srv1 : Session,
      ∃ srv2 cli2, order srv1 (byteOf Facts.c12_timeWorkHours :: (be32 0 ++ [0])) cli = .ok (srv2, cli2) ∧
        cli2.work = none ∧
        cli2.jitter = cli.jitter ∧ cli2.sleep = cli.sleep ∧ cli2.kill = cli.kill ∧
        Synced srv2 cli2 := by
    intro srv1
    have hm := muxTime_work cli ⟨0, 0, 0, 0, 0⟩
    have hw : SettingsWF { cli with work := workOfWire ⟨0, 0, 0, 0, 0⟩ } := hc
    obtain ⟨srv2, e, hsync⟩ := order_ok srv1 cli _ _ hm hw
    rw [← hzero] at e
    exact ⟨srv2, _, e, workOfWire_zero, rfl, rfl, rfl, hsync⟩
  cases w with
  | none => exact hnone _
  | some x =>
    simp only [setWorkHours]
    by_cases he : x.empty = true
    · simp only [he, if_true]
      obtain ⟨srv2, cli2, e, h1, h2⟩ := hnone { srv with work := none }
      exact ⟨srv2, cli2, e, by simp [h1, normWork, workOfWire, he], h2⟩
    · simp only [he]
      by_cases hv : x.verify = true
      · simp only [hv, Bool.not_true, Bool.false_eq_true, if_false]
        have hm := muxTime_work cli x
        have hw : SettingsWF { cli with work := workOfWire x } := hc
        obtain ⟨srv2, e, hsync⟩ := order_ok { srv with work := some x } cli _ _ hm hw
        exact ⟨srv2, _, e, by simp [normWork], rfl, rfl, rfl, hsync⟩
      · simp only [hv]
        simp only [Bool.not_false, if_true]
        exact ⟨x, rfl, by simpa using he, by simpa using hv⟩

theorem resync_ok (t : UInt8) (snd rcv : Session) (h : WF t.toNat snd) (rest : Bytes) :
    ∃ bs, writeInfo t.toNat snd = .ok bs ∧
      (readResync chunkX rcv).run (t :: bs ++ rest) = .ok ((absorb t.toNat snd rcv).1, rest) := by
  obtain ⟨bs, hw, hr⟩ := reads_info chunkX_lawful t.toNat snd rcv h
  refine ⟨bs, hw, ?_⟩
  have h1 : Reads id (fun _ => True) (readResync chunkX rcv) ([t] ++ bs) (absorb t.toNat snd rcv).1 := by
    unfold readResync
    refine Reads.bind (reads_u8 chunkX_lawful t) ?_
    exact Reads.map (abs := id) (inv := fun _ => True) (fun r => r.1) hr
  obtain ⟨s', e, a, _⟩ := h1 (t :: bs ++ rest) rest trivial (by simp)
  simp only [id] at a
  subst a
  exact e

/-! ### example sessions (non-vacuity) and the witness for the repaired key reader -/

instance {ε α : Type} [DecidableEq ε] [DecidableEq α] : DecidableEq (Except ε α) := fun a b =>
  match a, b with
  | .ok x, .ok y => if h : x = y then isTrue (by rw [h]) else isFalse (by intro h2; cases h2; exact h rfl)
  | .error x, .error y =>
    if h : x = y then isTrue (by rw [h]) else isFalse (by intro h2; cases h2; exact h rfl)
  | .ok _, .error _ => isFalse (by intro h; cases h)
  | .error _, .ok _ => isFalse (by intro h; cases h)

def exampleSession : Session where
  device := { id := List.replicate 32 7, system := 0x21, pid := 4000000000, ppid := 1, user := [114, 111, 111, 116],
              version := [49, 46, 48], hostname := [], elevated := 0x81, caps := 65536,
              network := [⟨[101, 116, 104, 48], 0x0242ac110002, [⟨0, 0xffffac110002⟩, ⟨0xfe80000000000000, 1⟩]⟩,
                          ⟨[], 0, []⟩] }
  id := List.replicate 32 9
  jitter := 100
  sleep := 1000000000
  kill := ⟨1700000000, 0⟩
  work := some ⟨62, 9, 0, 17, 30⟩
  client := true
  proxy := some ⟨[112], [58, 56, 48], some [1, 2, 3], true⟩
  keys := ⟨List.replicate 133 4, List.replicate 66 5, List.replicate 65 6⟩

def exampleReceiver : Session where
  device := { id := List.replicate 32 1, system := 0, pid := 0, ppid := 0, user := [], version := [],
              hostname := [], elevated := 0, caps := 0, network := [] }
  id := List.replicate 32 2
  jitter := 5
  sleep := -1
  kill := Time.zero
  work := none
  client := false
  proxy := none
  keys := ⟨List.replicate 133 0, List.replicate 66 0, List.replicate 65 0⟩

theorem exampleSession_WF :
    WF Facts.c12_infoHello exampleSession ∧ WF Facts.c12_infoMigrate exampleSession ∧
    WF Facts.c12_infoProxy exampleSession ∧ WF Facts.c12_infoSync exampleSession := by
  refine ⟨?_, ?_, ?_, ?_⟩ <;> decide +kernel

def exampleMigrateBytes : Bytes :=
  match writeInfo Facts.c12_infoMigrate exampleSession with
  | .ok b => b
  | .error _ => []

/-- split a byte string after its first `n` bytes into two pieces (dropping an empty piece) -/
def splitAt2 (n : Nat) (b : Bytes) : Stream := [b.take n, b.drop n].filter (· ≠ [])

theorem splitAt2_noEmpty (n : Nat) (b : Bytes) : NoEmpty (splitAt2 n b) := by
  intro c hc
  simp only [splitAt2, List.mem_filter, decide_eq_true_eq] at hc
  exact hc.2

theorem splitAt2_flatten (n : Nat) (b : Bytes) : (splitAt2 n b).flatten = b := by
  have h := List.take_append_drop n b
  unfold splitAt2
  by_cases h1 : b.take n = [] <;> by_cases h2 : b.drop n = [] <;> simp_all [List.filter]

theorem old_keys_witness :
    ∃ (snd rcv : Session) (bs : Bytes) (cs : Stream),
      WF Facts.c12_infoMigrate snd ∧ writeInfo Facts.c12_infoMigrate snd = .ok bs ∧
      NoEmpty cs ∧ cs.flatten = bs ∧
      (readInfoOld streamX Facts.c12_infoMigrate rcv).run cs = .error (.codec .unexpectedEOF) ∧
      (∃ cs', (readInfo streamX Facts.c12_infoMigrate rcv).run cs =
        .ok (absorb Facts.c12_infoMigrate snd rcv, cs')) := by
  -- the pipe delivers everything up to the middle of the public key, then the rest
  have hw : writeInfo Facts.c12_infoMigrate exampleSession = .ok exampleMigrateBytes := by
    decide +kernel
  refine ⟨exampleSession, exampleReceiver, exampleMigrateBytes, splitAt2 100 exampleMigrateBytes,
    exampleSession_WF.2.1, hw, splitAt2_noEmpty _ _, splitAt2_flatten _ _, by decide +kernel, ?_⟩
  obtain ⟨bs, hw', hr⟩ := reads_info streamX_lawful Facts.c12_infoMigrate exampleSession
    exampleReceiver exampleSession_WF.2.1
  rw [hw] at hw'
  cases hw'
  obtain ⟨s', e, _, _⟩ := hr (splitAt2 100 exampleMigrateBytes) [] (splitAt2_noEmpty _ _)
    (by rw [splitAt2_flatten]; simp)
  exact ⟨s', e⟩

end XMT.Info
