/-
  XMT.InfoPinned — the codec-call shape of the guarded functions modelled in XMT.Info, as it was
  when the model was written and validated (produced by `xmth facts`, c12_trace_*: the calls on the
  reader / writer / sub-codecs in source order with the guards, loops, switch arms and early exits
  around them; local bookkeeping is not part of the trace).
  `XMT.Props.C12.source_traces_as_modelled` compares the traces regenerated from the current source
  with these; a difference means "the wire-relevant shape of this function changed — the model must
  be re-validated".
-/
namespace XMT.Info.Pinned

def writeDeviceInfo : List String :=
  ["switch t {",
   "case infoProxy:",
   "return s.writeProxyData(false,w)",
   "case infoHello,infoRefresh,infoSyncMigrate:",
   "s.Device.MarshalStream(w)",
   "case infoMigrate:",
   "s.ID.Write(w)",
   "}",
   "w.WriteUint8(s.jitter)",
   "w.WriteInt64(int64(s.sleep))",
   "if !s.kill.IsZero() {",
   "w.WriteInt64(s.kill.Unix())",
   "} else {",
   "w.WriteInt64(0)",
   "}",
   "if (s.work!=nil) {",
   "s.work.MarshalStream(w)",
   "} else {",
   "w.WriteUint32(0)",
   "w.WriteUint8(0)",
   "}",
   "if (t>infoRefresh) {",
   "return nil",
   "}",
   "s.writeProxyData(true,w)",
   "if (t!=infoMigrate) {",
   "return nil",
   "}",
   "return s.keys.Marshal(w)"]

def readDeviceInfo : List String :=
  ["switch t {",
   "case infoProxy:",
   "return readProxyData(false,r)",
   "case infoHello,infoRefresh,infoSyncMigrate:",
   "s.Device.UnmarshalStream(r)",
   "case infoMigrate:",
   "s.ID.Read(r)",
   "}",
   "r.ReadUint8(&s.jitter)",
   "r.ReadInt64(*int64(unsafePointer(&s.sleep)))",
   "r.Int64()",
   "w.UnmarshalStream(r)",
   "if (t>infoRefresh) {",
   "return nil,nil",
   "}",
   "readProxyData(true,r)",
   "if (t!=infoMigrate) {",
   "return p,nil",
   "}",
   "return p,s.keys.Unmarshal(r)"]

def writeProxyData : List String :=
  ["if (!s.IsClient()||!s.IsActive()) {",
   "return nil",
   "}",
   "if (s.proxy==nil) {",
   "return w.WriteUint8(0)",
   "}",
   "if !s.proxy.IsActive() {",
   "return w.WriteUint8(0)",
   "}",
   "w.WriteUint8(1)",
   "w.WriteString(s.proxy.name)",
   "w.WriteString(s.proxy.addr)",
   "if !f {",
   "return nil",
   "}",
   "if !ok {",
   "return xerr.Sub(\"cannot marshal Proxy Profile\",0x54)",
   "}",
   "p.MarshalBinary()",
   "return w.WriteBytes(b)"]

def readProxyData : List String :=
  ["r.Uint8()",
   "range o {",
   "r.ReadString(&o[i].n)",
   "r.ReadString(&o[i].b)",
   "if !f {",
   "continue",
   "}",
   "r.ReadBytes(&o[i].p)",
   "}"]

def ifaceW : List String :=
  ["w.WriteString(d.Name)",
   "d.Mac.MarshalStream(w)",
   "w.WriteUint8(l)",
   "for (x<l) {",
   "d.Address[x].MarshalStream(w)",
   "}"]

def ifaceR : List String :=
  ["r.ReadString(&d.Name)",
   "d.Mac.UnmarshalStream(r)",
   "r.Uint8()",
   "for (x<l) {",
   "d.Address[x].UnmarshalStream(r)",
   "}"]

def networkW : List String :=
  ["w.WriteUint8(l)",
   "for (x<l) {",
   "n[x].MarshalStream(w)",
   "}"]

def networkR : List String :=
  ["r.Uint8()",
   "for (x<l) {",
   "*n[x].UnmarshalStream(r)",
   "}"]

def idRead : List String :=
  ["io.ReadFull(r,i[:])",
   "if ((n!=IDSize)||(i[0]==0)) {",
   "return io.ErrNoProgress",
   "}"]

def idWrite : List String :=
  ["w.Write(i[:])",
   "if ((err==nil)&&(n!=IDSize)) {",
   "return io.ErrShortWrite",
   "}"]

def idW : List String :=
  ["w.Write(i[:])"]

def idR : List String :=
  ["return i.Read(r)"]

def keysW : List String :=
  ["w.Write(k.Public[:])",
   "switch  {",
   "case (err!=nil):",
   "return err",
   "case (n!=publicKeySize):",
   "return io.ErrShortWrite",
   "}",
   "w.Write(k.Private[:])",
   "switch  {",
   "case (err!=nil):",
   "return err",
   "case (n!=privateKeySize):",
   "return io.ErrShortWrite",
   "}",
   "w.Write(k.share[:])",
   "switch  {",
   "case (err!=nil):",
   "return err",
   "case (n!=sharedKeySize):",
   "return io.ErrShortWrite",
   "}"]

def keysR : List String :=
  ["io.ReadFull(r,k.Public[:])",
   "switch  {",
   "case (err!=nil):",
   "return err",
   "case (n!=publicKeySize):",
   "return io.ErrUnexpectedEOF",
   "}",
   "io.ReadFull(r,k.Private[:])",
   "switch  {",
   "case (err!=nil):",
   "return err",
   "case (n!=privateKeySize):",
   "return io.ErrUnexpectedEOF",
   "}",
   "io.ReadFull(r,k.share[:])",
   "switch  {",
   "case (err!=nil):",
   "return err",
   "case (n!=sharedKeySize):",
   "return io.ErrUnexpectedEOF",
   "}"]

def setDuration : List String :=
  ["if (s.parent==nil) {",
   "return nil,ErrNoTask",
   "}",
   "n.WriteUint16(uint16(s.jitter))",
   "n.WriteUint64(uint64(s.sleep))",
   "return s.Task(n)"]

def setKillDate : List String :=
  ["if (s.parent==nil) {",
   "return nil,ErrNoTask",
   "}",
   "n.WriteUint8(timeKillDate)",
   "if s.kill.IsZero() {",
   "n.WriteInt64(0)",
   "} else {",
   "n.WriteInt64(t.Unix())",
   "}",
   "return s.Task(n)"]

def setWorkHours : List String :=
  ["if ((w==nil)||w.Empty()) {",
   "if (s.parent==nil) {",
   "return nil,ErrNoTask",
   "}",
   "n.WriteUint8(timeWorkHours)",
   "n.WriteUint32(0)",
   "n.WriteUint8(0)",
   "return s.Task(n)",
   "}",
   "w.Verify()",
   "if (s.parent==nil) {",
   "return nil,ErrNoTask",
   "}",
   "n.WriteUint8(timeWorkHours)",
   "w.MarshalStream(n)",
   "return s.Task(n)"]

def setProfile : List String :=
  ["if (s.parent==nil) {",
   "return nil,ErrNoTask",
   "}",
   "n.WriteBytes(b)",
   "return s.Task(n)"]

def muxMvTime : List String :=
  ["n.Uint8()",
   "switch t {",
   "case timeSleepJitter:",
   "n.Int8()",
   "n.Int64()",
   "case timeKillDate:",
   "n.Int64()",
   "case timeWorkHours:",
   "w.UnmarshalStream(n)",
   "}",
   "s.writeDeviceInfo(infoSync,w)"]

def muxMvProfile : List String :=
  ["n.Bytes()",
   "parseProfile(b)",
   "s.writeDeviceInfo(infoSync,w)"]

def handleInfoResult : List String :=
  ["switch t {",
   "case task.MvProxy:",
   "s.readDeviceInfo(infoProxy,n)",
   "case task.MvMigrate:",
   "s.readDeviceInfo(infoSyncMigrate,n)",
   "case task.MvRefresh:",
   "s.readDeviceInfo(infoRefresh,n)",
   "case task.MvTime,task.MvProfile:",
   "s.readDeviceInfo(infoSync,n)",
   "case :",
   "return ",
   "}"]

end XMT.Info.Pinned
