/-
  XMT.InfoRoundtrip — every reader of XMT.Info reads back what the matching writer wrote
  (generic in the reader implementation), and the stream writer's calls concatenate to the
  Chunk writer's bytes.
-/
import XMT.InfoLemmas

namespace XMT.Info
open XMT XMT.Codec

/-! ### well-formedness (what the Go types can hold, plus the stated domain conditions) -/

def Address.WF (a : Address) : Prop := a.hi < 2 ^ 64 ∧ a.low < 2 ^ 64

/-- at most 255 addresses (the count travels as one byte) -/
def Iface.WF (d : Iface) : Prop :=
  d.name.length ≤ Facts.maxSlice ∧ d.mac < 2 ^ 64 ∧ d.addrs.length ≤ 255 ∧ ∀ a ∈ d.addrs, a.WF

/-- a device ID is `IDSize` bytes and not "empty" (`ID.Empty` = first byte zero; `ID.Read` treats
such an ID as a read error) -/
def IDOK (id : Bytes) : Prop := id.length = Facts.c12_idSize ∧ id.head? ≠ some 0

/-- at most 255 interfaces -/
def Machine.WF (m : Machine) : Prop :=
  IDOK m.id ∧ m.pid < 2 ^ 32 ∧ m.ppid < 2 ^ 32 ∧ m.caps < 2 ^ 32 ∧
  m.user.length ≤ Facts.maxSlice ∧ m.version.length ≤ Facts.maxSlice ∧
  m.hostname.length ≤ Facts.maxSlice ∧ m.network.length ≤ 255 ∧ ∀ d ∈ m.network, d.WF

def Keys.WF (k : Keys) : Prop :=
  k.pub.length = Facts.c12_publicKeySize ∧ k.priv.length = Facts.c12_privateKeySize ∧
  k.share.length = Facts.c12_sharedKeySize

/-- sleep and kill date are `int64` -/
def SettingsWF (s : Session) : Prop := I64 s.sleep ∧ I64 s.kill.sec

def Proxy.WF (f : Bool) (p : Proxy) : Prop :=
  p.name.length ≤ Facts.maxSlice ∧ p.addr.length ≤ Facts.maxSlice ∧
  (f = true → match p.profile with
    | none => False                     -- the Proxy's Profile must be marshalable
    | some b => b.length ≤ Facts.maxSlice)

/-- The writing Session is an active client (otherwise `writeProxyData` writes nothing at all), and
an attached, active Proxy is well-formed. -/
def ProxyWF (f : Bool) (s : Session) : Prop :=
  s.client = true ∧ match s.proxy with
    | none => True
    | some p => p.active = true → p.WF f

def hasDevice (t : Nat) : Prop :=
  t = Facts.c12_infoHello ∨ t = Facts.c12_infoRefresh ∨ t = Facts.c12_infoSyncMigrate

/-- Well-formedness of the sending Session for message kind `t`: only what the kind carries is
constrained. -/
def WF (t : Nat) (s : Session) : Prop :=
  if t = Facts.c12_infoProxy then ProxyWF false s
  else
    (hasDevice t → s.device.WF) ∧
    (¬ hasDevice t → t = Facts.c12_infoMigrate → IDOK s.id) ∧
    SettingsWF s ∧
    (¬ t > Facts.c12_infoRefresh → ProxyWF true s ∧ (¬ t ≠ Facts.c12_infoMigrate → s.keys.WF))

instance (a : Address) : Decidable a.WF := by unfold Address.WF; infer_instance
instance (d : Iface) : Decidable d.WF := by unfold Iface.WF; infer_instance
instance (b : Bytes) : Decidable (IDOK b) := by unfold IDOK; infer_instance
instance (m : Machine) : Decidable m.WF := by unfold Machine.WF; infer_instance
instance (k : Keys) : Decidable k.WF := by unfold Keys.WF; infer_instance
instance (s : Session) : Decidable (SettingsWF s) := by unfold SettingsWF; infer_instance
instance (f : Bool) (p : Proxy) : Decidable (p.WF f) := by
  unfold Proxy.WF; cases p.profile <;> infer_instance
instance (f : Bool) (s : Session) : Decidable (ProxyWF f s) := by
  unfold ProxyWF; cases s.proxy <;> infer_instance
instance (t : Nat) : Decidable (hasDevice t) := by unfold hasDevice; infer_instance
instance (t : Nat) (s : Session) : Decidable (WF t s) := by unfold WF; infer_instance

/-! ### item encodings -/

@[simp] theorem encItems_nil : encItems [] = [] := rfl
theorem encItems_cons (a : Item) (l : List Item) : encItems (a :: l) = a.enc ++ encItems l := by
  simp [encItems]
theorem encItems_append (a b : List Item) : encItems (a ++ b) = encItems a ++ encItems b := by
  simp [encItems]
theorem encItems_flatMap {α : Type} (xs : List α) (f : α → List Item) :
    encItems (xs.flatMap f) = xs.flatMap (fun x => encItems (f x)) := by
  induction xs with
  | nil => rfl
  | cons x xs ih => simp [List.flatMap_cons, encItems_append, ih]

@[simp] theorem enc_iU8 (b : UInt8) : (iU8 b).enc = [b] := rfl
@[simp] theorem enc_iU32 (n : Nat) : (iU32 n).enc = be32 n := rfl
@[simp] theorem enc_iU64 (n : Nat) : (iU64 n).enc = be64 n := rfl
@[simp] theorem enc_iI64 (i : Int) : (iI64 i).enc = be64 (toU64 i) := rfl
@[simp] theorem enc_iStr (b : Bytes) : (iStr b).enc = encBytesChunk b := rfl
@[simp] theorem enc_raw (b : Bytes) : (Item.raw b).enc = b := rfl

/-- Stream writer and Chunk writer agree byte for byte (C10 `writers_agree`, item by item). -/
theorem calls_flatten (l : List Item) : (callsOf l).flatten = encItems l := by
  have hb : ∀ b : Bytes, (encBytesStream b).flatten = encBytesChunk b := by
    intro b
    unfold encBytesStream encBytesChunk
    split
    · rename_i h
      have : b = [] := List.length_eq_zero_iff.mp h
      subst this; simp [lenPrefix]
    · simp
  have hv : ∀ v : Val, (encStream v).flatten = encChunk v := by
    intro v
    cases v with
    | strs l =>
      simp only [encStream, encChunk, List.flatten_append, List.flatten_cons, List.flatten_nil,
        List.append_nil]
      congr 1
      induction l with
      | nil => rfl
      | cons b l ih => simp [List.flatMap_cons, hb, ih]
    | bytes b => exact hb b
    | _ => simp [encStream, encChunk]
  induction l with
  | nil => rfl
  | cons a l ih =>
    simp only [callsOf, encItems, List.flatMap_cons, List.flatten_append] at ih ⊢
    rw [ih]
    cases a with
    | v x => simp [Item.calls, Item.enc, hv]
    | raw b => simp [Item.calls, Item.enc]

/-! ### readers read back -/

theorem byteOf_toNat_le (n : Nat) (h : n ≤ 255) : (byteOf n).toNat = n := by
  simp; omega

theorem workOfWire_zero : workOfWire ⟨0, 0, 0, 0, 0⟩ = none := by decide

section
variable {S : Type} {X : PrimX S} {abs : S → Bytes} {inv : S → Prop}
variable (L : LawfulX X abs inv)
include L

theorem reads_addr (a : Address) (h : a.WF) : Reads abs inv (readAddr X) (encItems (addrItems a)) a := by
  obtain ⟨hi, low⟩ := a
  simp only [addrItems, encItems_cons, encItems_nil, enc_iU64]
  exact Reads.bind (reads_u64 L _ h.1) (Reads.bind (reads_u64 L _ h.2) (Reads.pure _))

theorem reads_iface (d : Iface) (h : d.WF) :
    Reads abs inv (readIface X) (encItems (ifaceItems d)) d := by
  obtain ⟨name, mac, addrs⟩ := d
  obtain ⟨h1, h2, h3, h4⟩ := h
  simp only at h1 h2 h3 h4
  simp only [ifaceItems, List.cons_append, List.nil_append, encItems_cons, enc_iStr, enc_iU64,
    enc_iU8]
  refine Reads.bind (reads_str L _ h1) (Reads.bind (reads_u64 L _ h2) (Reads.bind (reads_u8 L _) ?_))
  rw [byteOf_toNat_le _ h3, Nat.mod_eq_of_lt (by omega), List.take_length]
  show Reads abs inv _ (encItems (List.flatMap addrItems addrs)) _
  rw [encItems_flatMap]
  have := Reads.map (abs := abs) (inv := inv) (fun a => Iface.mk name mac a)
    (reads_readN (readAddr X) (fun a => encItems (addrItems a)) addrs
      (fun a ha => reads_addr L a (h4 a ha)))
  exact this

theorem reads_network (n : List Iface) (hl : n.length ≤ 255) (h : ∀ d ∈ n, d.WF) :
    Reads abs inv (readNetwork X) (encItems (networkItems n)) n := by
  simp only [networkItems, encItems_cons, enc_iU8]
  refine Reads.bind (reads_u8 L _) ?_
  rw [byteOf_toNat_le _ hl, Nat.mod_eq_of_lt (by omega), List.take_length, encItems_flatMap]
  exact reads_readN (readIface X) (fun d => encItems (ifaceItems d)) n
    (fun d hd => reads_iface L d (h d hd))

theorem reads_id (id : Bytes) (h : IDOK id) : Reads abs inv (readID X) id id := by
  obtain ⟨h1, h2⟩ := h
  intro s r hi ha
  obtain ⟨s', e, a, i⟩ := reads_full L id s r hi ha
  refine ⟨s', ?_, a, i⟩
  unfold readID
  rw [← h1]
  simp only [Bind.bind, StateT.bind, e, Except.bind]
  split
  · simp at h2
  · rfl

theorem reads_machine (m : Machine) (h : m.WF) :
    Reads abs inv (readMachine X) (encItems (machineItems m)) m := by
  obtain ⟨id, system, pid, ppid, user, version, hostname, elevated, caps, network⟩ := m
  obtain ⟨h1, h2, h3, h4, h5, h6, h7, h8, h9⟩ := h
  simp only at h1 h2 h3 h4 h5 h6 h7 h8 h9
  simp only [machineItems, List.cons_append, List.nil_append, encItems_cons, enc_iStr, enc_iU32,
    enc_iU8, enc_raw]
  refine Reads.bind (reads_id L _ h1) (Reads.bind (reads_u8 L _) (Reads.bind (reads_u32 L _ h2)
    (Reads.bind (reads_u32 L _ h3) (Reads.bind (reads_str L _ h5) (Reads.bind (reads_str L _ h6)
    (Reads.bind (reads_str L _ h7) (Reads.bind (reads_u8 L _) (Reads.bind (reads_u32 L _ h4) ?_))))))))
  exact Reads.map (abs := abs) (inv := inv)
    (fun n => Machine.mk id system pid ppid user version hostname elevated caps n)
    (reads_network L network h8 h9)

theorem reads_work (w : WorkHours) : Reads abs inv (readWork X) (encItems (workItems w)) w := by
  obtain ⟨d, sh, sm, eh, em⟩ := w
  simp only [workItems, encItems_cons, encItems_nil, enc_iU8]
  exact Reads.bind (reads_u8 L _) (Reads.bind (reads_u8 L _) (Reads.bind (reads_u8 L _)
    (Reads.bind (reads_u8 L _) (Reads.bind (reads_u8 L _) (Reads.pure _)))))

/-- the five zero bytes written for "no work hours" read back as the all-zero tuple -/
theorem reads_work_none :
    Reads abs inv (readWork X) (encItems [iU32 0, iU8 0]) ⟨0, 0, 0, 0, 0⟩ := by
  have h := reads_work L ⟨0, 0, 0, 0, 0⟩
  refine h.of_eq ?_ rfl
  decide

theorem reads_keys (k : Keys) (h : k.WF) :
    Reads abs inv (readKeys X) (encItems (keyItems k)) k := by
  obtain ⟨a, b, c⟩ := k
  obtain ⟨h1, h2, h3⟩ := h
  simp only at h1 h2 h3
  simp only [keyItems, encItems_cons, encItems_nil, enc_raw]
  unfold readKeys
  rw [← h1, ← h2, ← h3]
  exact Reads.bind (reads_full L a) (Reads.bind (reads_full L b) (Reads.bind (reads_full L c)
    (Reads.pure _)))

theorem reads_settings (snd rcv : Session) (h : SettingsWF snd) :
    Reads abs inv (readSettings X rcv) (encItems (settingsItems snd)) (absorbSettings snd rcv) := by
  obtain ⟨h1, h2⟩ := h
  have hk : I64 (killWire snd.kill) := by
    unfold killWire; split
    · unfold I64; omega
    · exact h2
  simp only [settingsItems, List.cons_append, List.nil_append, encItems_cons, enc_iU8, enc_iI64]
  unfold readSettings
  refine Reads.bind (reads_u8 L _) (Reads.bind (reads_i64 L _ h1) (Reads.bind (reads_i64 L _ hk) ?_))
  cases hw : snd.work with
  | none =>
    have := Reads.map (abs := abs) (inv := inv)
      (fun w => ({ rcv with jitter := snd.jitter, sleep := snd.sleep,
                            kill := killOfWire (killWire snd.kill), work := workOfWire w } : Session))
      (reads_work_none L)
    refine this.of_eq rfl ?_
    simp [absorbSettings, normKill, normWork, hw, workOfWire_zero]
  | some w =>
    have := Reads.map (abs := abs) (inv := inv)
      (fun w => ({ rcv with jitter := snd.jitter, sleep := snd.sleep,
                            kill := killOfWire (killWire snd.kill), work := workOfWire w } : Session))
      (reads_work L w)
    refine this.of_eq rfl ?_
    simp [absorbSettings, normKill, normWork, hw]

theorem reads_proxy (f : Bool) (s : Session) (h : ProxyWF f s) :
    ∃ its, proxyItems f s = .ok its ∧
      Reads abs inv (readProxy X f) (encItems its) (proxyView f s) := by
  obtain ⟨hc, hp⟩ := h
  unfold proxyItems proxyView
  simp only [hc, Bool.not_true, Bool.false_eq_true, if_false]
  cases hpx : s.proxy with
  | none =>
    refine ⟨_, rfl, ?_⟩
    simp only [encItems_cons, encItems_nil, enc_iU8]
    exact Reads.bind (reads_u8 L _) (Reads.pure _)
  | some p =>
    rw [hpx] at hp
    simp only at hp ⊢
    cases hact : p.active with
    | false =>
      refine ⟨_, rfl, ?_⟩
      simp only [encItems_cons, encItems_nil, enc_iU8]
      exact Reads.bind (reads_u8 L _) (Reads.pure _)
    | true =>
      obtain ⟨hn, ha, hpf⟩ := hp hact
      simp only [Bool.not_true, Bool.false_eq_true, if_false]
      cases f with
      | false =>
        refine ⟨_, rfl, ?_⟩
        simp only [encItems_cons, encItems_nil, enc_iU8, enc_iStr]
        refine Reads.bind (reads_u8 L _) ?_
        have h1 := reads_readN (abs := abs) (inv := inv) (readProxyElem X false)
          (fun _ => encBytesChunk p.name ++ (encBytesChunk p.addr ++ []))
          [(⟨p.name, p.addr, []⟩ : ProxyData)] (by
            intro x hx
            simp only [List.mem_singleton] at hx
            subst hx
            unfold readProxyElem
            exact Reads.bind (reads_str L _ hn) (Reads.bind (reads_str L _ ha) (Reads.pure _)))
        exact h1.of_eq (by simp) (by simp)
      | true =>
        cases hprof : p.profile with
        | none => simp [hprof] at hpf
        | some b =>
          have hb : b.length ≤ Facts.maxSlice := by simpa [hprof] using hpf
          refine ⟨_, rfl, ?_⟩
          simp only [List.cons_append, List.nil_append, encItems_cons, encItems_nil, enc_iU8,
            enc_iStr]
          refine Reads.bind (reads_u8 L _) ?_
          have h1 := reads_readN (abs := abs) (inv := inv) (readProxyElem X true)
            (fun _ => encBytesChunk p.name ++ (encBytesChunk p.addr ++ (encBytesChunk b ++ [])))
            [(⟨p.name, p.addr, b⟩ : ProxyData)] (by
              intro x hx
              simp only [List.mem_singleton] at hx
              subst hx
              unfold readProxyElem
              exact Reads.bind (reads_str L _ hn) (Reads.bind (reads_str L _ ha)
                (Reads.bind (reads_str L _ hb) (Reads.pure _))))
          exact h1.of_eq (by simp) (by simp)

theorem reads_head (t : Nat) (snd rcv : Session)
    (hd : hasDevice t → snd.device.WF)
    (hi : ¬ hasDevice t → t = Facts.c12_infoMigrate → IDOK snd.id) :
    Reads abs inv (readHead X t rcv) (encItems (headItems t snd)) (absorbHead t snd rcv) := by
  unfold readHead headItems absorbHead
  by_cases h1 : t = Facts.c12_infoHello ∨ t = Facts.c12_infoRefresh ∨ t = Facts.c12_infoSyncMigrate
  · simp only [h1, if_true]
    exact Reads.map (abs := abs) (inv := inv) (fun d => ({ rcv with device := d } : Session))
      (reads_machine L snd.device (hd h1))
  · simp only [h1, if_false]
    by_cases h2 : t = Facts.c12_infoMigrate
    · simp only [h2, if_true, encItems_cons, encItems_nil, enc_raw, List.append_nil]
      exact Reads.map (abs := abs) (inv := inv) (fun i => ({ rcv with id := i } : Session))
        (reads_id L snd.id (hi h1 h2))
    · simp only [h2, if_false]
      exact Reads.pure _

/-- **Round trip of every message kind through any lawful reader**: the writer succeeds and the
reader, started on the receiving Session `rcv`, returns exactly `absorb t snd rcv`. -/
theorem reads_info (t : Nat) (snd rcv : Session) (h : WF t snd) :
    ∃ bs, writeInfo t snd = .ok bs ∧
      Reads abs inv (readInfo X t rcv) bs (absorb t snd rcv) := by
  unfold WF at h
  unfold writeInfo writeItems readInfo readInfoWith absorb
  by_cases hp : t = Facts.c12_infoProxy
  · simp only [hp, if_true] at h ⊢
    obtain ⟨its, e, r⟩ := reads_proxy L false snd h
    refine ⟨encItems its, by simp [e, Except.map], ?_⟩
    exact Reads.map (abs := abs) (inv := inv) (fun p => (rcv, p)) r
  · simp only [hp, if_false] at h ⊢
    obtain ⟨hd, hi, hs, ht⟩ := h
    have hhead := reads_head L t snd rcv hd hi
    have hset := reads_settings L snd (absorbHead t snd rcv) hs
    by_cases hr : t > Facts.c12_infoRefresh
    · simp only [hr, if_true]
      refine ⟨_, rfl, ?_⟩
      rw [encItems_append]
      refine Reads.bind hhead ?_
      have := Reads.bind (b2 := []) hset
        (f := fun s => (Pure.pure (s, []) : M S (Session × List ProxyData))) (Reads.pure _)
      simpa using this
    · simp only [hr, if_false]
      obtain ⟨hpx, hk⟩ := ht hr
      obtain ⟨its, e, r⟩ := reads_proxy L true snd hpx
      by_cases hm : t ≠ Facts.c12_infoMigrate
      · simp only [if_pos hm]
        refine ⟨encItems (headItems t snd ++ settingsItems snd ++ its), by
          simp [e, bind, Except.bind, Except.map, pure, Except.pure], ?_⟩
        rw [encItems_append, encItems_append, List.append_assoc]
        refine Reads.bind hhead (Reads.bind hset ?_)
        exact Reads.map (abs := abs) (inv := inv)
          (fun p => (absorbSettings snd (absorbHead t snd rcv), p)) r
      · simp only [if_neg hm]
        refine ⟨encItems (headItems t snd ++ settingsItems snd ++ its ++ keyItems snd.keys), by
          simp [e, bind, Except.bind, Except.map, pure, Except.pure], ?_⟩
        rw [encItems_append, encItems_append, encItems_append, List.append_assoc,
          List.append_assoc]
        refine Reads.bind hhead (Reads.bind hset (Reads.bind r ?_))
        exact Reads.map (abs := abs) (inv := inv)
          (fun k => (({ absorbSettings snd (absorbHead t snd rcv) with keys := k } : Session),
            proxyView true snd))
          (reads_keys L snd.keys (hk hm))

end
end XMT.Info
