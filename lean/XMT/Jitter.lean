/-
  XMT.Jitter — executable model of the jittered delay computed by (*Session).wait (c2/session.go)
  together with the PRNG helpers of util/rand.go / util/rand_fast.go it calls.  Core-only.

  Go → Lean:
    * `time.Duration` / `int64` values are `Int`; every arithmetic result goes through `i64`
      (two's-complement wrap-around), because the property is about what happens when
      `sleep + jitter` leaves the int64 range;
    * `uint32`/`uint64` values are `Nat` reduced with `% 2^32` / `% 2^64` where Go truncates;
    * the PRNG is a parameter: `q i` is the i-th raw word `runtime.fastrand()` returns during the
      call (only its low 32 bits are used, it is a `uint32`); the model reports how many words it
      consumed, so the order of the draws (Go evaluates operands left to right, `||` short-circuits)
      is part of the correspondence;
    * a runtime panic is the value `Delay.panic site`.
-/
import XMT.Generated.Facts
namespace XMT.Jitter

/-- `int64(x)`: two's-complement wrap of an integer result -/
def i64 (x : Int) : Int := (x + 2^63) % 2^64 - 2^63

def u32 (x : Nat) : Nat := x % 2^32
def u64 (x : Nat) : Nat := x % 2^64

/-- the i-th raw PRNG word as a `uint32` -/
def raw (q : Nat → Nat) (i : Nat) : Nat := u32 (q i)

/-- `util.FastRandN(n)` on the raw word `x`: `uint32(uint64(x) * uint64(n) >> 32)`
(`*` and `>>` have the same precedence in Go and associate to the left) -/
def fastRandN (x n : Nat) : Nat := u32 (u64 (u64 x * u64 n) >>> 32)

/-- `random.Uint64`: `uint64(FastRand())<<32 | uint64(FastRand())`, first call = high word -/
def uint64Of (hi lo : Nat) : Nat := u64 (u64 hi <<< 32) ||| u64 lo

/-- `abs64(v) = v &^ (1 << 63)` on a `uint64` -/
def abs64 (v : Nat) : Nat := v &&& (2^63 - 1)

def ms : Int := Facts.c19Millisecond

inductive Delay
  | none                      -- `s.sleep < 1`: wait returns without sleeping
  | sleep (w : Int)           -- the ticker is armed with `w` ("Sleeping for w")
  | panic (site : String)
deriving Repr, DecidableEq

/-- `newSleeper(w)` / `s.tick.Reset(w)`: time.NewTicker and Ticker.Reset panic on `w <= 0` -/
def tick (w : Int) : Delay := if w ≤ 0 then .panic "non-positive interval for Ticker" else .sleep w

/-- the arithmetic of the jitter arm once the draws are known: `d0` is the result of
`Int63n(int64(w / time.Millisecond))`, `neg` is `FastRandN(2) == 1`.

    if neg { d = d * -1 }
    if w += time.Duration(d) * time.Millisecond; w < 0 { w = w * -1 }
    if w <= 0 { w = s.sleep }          -- `w == 0` before the fix; the operator is read from the source
-/
def applyJitter (sleep d0 : Int) (neg : Bool) : Int :=
  let d : Int := if neg then i64 (d0 * -1) else d0
  let w1 : Int := i64 (sleep + i64 (i64 d * ms))
  let w2 : Int := if w1 < 0 then i64 (w1 * -1) else w1
  if (if Facts.c19JitterFallbackLe = 1 then decide (w2 ≤ 0) else decide (w2 = 0)) then sleep else w2

/-- The delay part of `(*Session).wait` (everything after the kill-date test): returns what the
ticker is armed with and the number of PRNG words consumed. -/
def delay (sleep : Int) (jitter : Nat) (q : Nat → Nat) : Delay × Nat :=
  if sleep < Facts.c19SleepBelow then (.none, 0)
  else if decide (jitter > 0) && decide (jitter < Facts.c19JitterBelow) then
    -- `s.jitter == 100 || uint8(util.FastRandN(100)) < s.jitter`
    let hit : Bool × Nat :=
      if jitter = Facts.c19JitterAlways then (true, 0)
      else (decide (fastRandN (raw q 0) Facts.c19JitterRandN % 256 < jitter), 1)
    if hit.1 && decide (sleep > ms) then
      let k := hit.2
      -- int64(w / time.Millisecond); both operands are positive here, so Go's truncated division
      -- and remainder coincide with Lean's `/` and `%` on `Int`
      let n : Int := i64 (sleep / ms)
      if n = 0 then (.panic "integer divide by zero", k + 2)
      else
        let d0 : Int := i64 ((abs64 (uint64Of (raw q k) (raw q (k + 1))) : Nat) : Int) % n
        let neg : Bool := fastRandN (raw q (k + 2)) Facts.c19SignRandN = 1
        (tick (applyJitter sleep d0 neg), k + 3)
    else (tick sleep, hit.2)
  else (tick sleep, 0)

end XMT.Jitter
