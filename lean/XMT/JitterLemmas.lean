/- Helper lemmas for the jitter model (XMT.Jitter); the property theorems are in Props/C19. -/
import XMT.Jitter
namespace XMT.Jitter

/-- what the proofs need from the literals read from session.go / the time package -/
def FactsOK : Prop :=
  Facts.c19JitterFallbackLe = 1 ∧ Facts.c19Millisecond = 1000000 ∧ Facts.c19SleepBelow = 1 ∧
  Facts.c19JitterBelow = 101 ∧ Facts.c19JitterAlways = 100

instance : Decidable FactsOK := by unfold FactsOK; infer_instance

theorem i64_id (x : Int) (h1 : -2^63 ≤ x) (h2 : x < 2^63) : i64 x = x := by
  unfold i64; omega

theorem i64_wrap_hi (x : Int) (h1 : 2^63 ≤ x) (h2 : x < 2^64 + 2^63) : i64 x = x - 2^64 := by
  unfold i64; omega

/-- closed form of `applyJitter` (repaired code) in terms of `X = d0 · 1ms` -/
theorem applyJitter_eq (hf : FactsOK) (S d0 : Int) (neg : Bool)
    (hS : 0 < S) (hS2 : S < 2^63) (hd : 0 ≤ d0) (hd2 : d0 < S / 1000000) :
    applyJitter S d0 neg =
      if neg then S - d0 * 1000000
      else if S + d0 * 1000000 < 2^63 then S + d0 * 1000000
      else if S + d0 * 1000000 = 2^63 then S
      else 2^64 - (S + d0 * 1000000) := by
  obtain ⟨hF, hM, _⟩ := hf
  have hX0 : 0 ≤ d0 * 1000000 := by omega
  have hX1 : d0 * 1000000 + 1000000 ≤ S := by omega
  unfold applyJitter ms
  rw [hF, hM, show ((1000000 : Nat) : Int) = 1000000 from rfl]
  simp only [if_true]
  cases neg
  · simp only [Bool.false_eq_true, if_false]
    rw [i64_id d0 (by omega) (by omega), i64_id (d0 * 1000000) (by omega) (by omega)]
    generalize d0 * 1000000 = X at *
    by_cases h1 : S + X < 2^63
    · rw [i64_id (S + X) (by omega) h1]
      have a1 : ¬ S + X < 0 := by omega
      have a2 : ¬ S + X ≤ 0 := by omega
      simp only [a1, a2, if_false, decide_false, Bool.false_eq_true]
      rw [if_pos h1]
    · rw [i64_wrap_hi (S + X) (by omega) (by omega)]
      have a1 : S + X - 2^64 < 0 := by omega
      simp only [a1, if_true, h1, if_false]
      by_cases h2 : S + X = 2^63
      · have : (S + X - 2^64) * -1 = 2^63 := by omega
        rw [this]
        have : i64 (2^63) = -2^63 := by unfold i64; omega
        rw [this]
        simp [h2]
      · rw [i64_id ((S + X - 2^64) * -1) (by omega) (by omega)]
        have a2 : ¬ (S + X - 2^64) * -1 ≤ 0 := by omega
        simp only [a2, decide_false, Bool.false_eq_true, if_false, h2]
        omega
  · simp only [if_true]
    rw [i64_id (d0 * -1) (by omega) (by omega), i64_id (d0 * -1) (by omega) (by omega)]
    have : d0 * -1 * 1000000 = -(d0 * 1000000) := by omega
    rw [this]
    generalize d0 * 1000000 = X at *
    rw [i64_id (-X) (by omega) (by omega), i64_id (S + -X) (by omega) (by omega)]
    have a1 : ¬ S + -X < 0 := by omega
    have a2 : ¬ S + -X ≤ 0 := by omega
    simp only [a1, a2, if_false, decide_false, Bool.false_eq_true]
    omega

/-- The arithmetic of the jitter arm, for every sleep an int64 can hold: the result is positive and
at most one sleep away from the sleep — including when `sleep + d·ms` leaves the int64 range. -/
theorem applyJitter_bounds (hf : FactsOK) (S d0 : Int) (neg : Bool)
    (hS : 0 < S) (hS2 : S < 2^63) (hd : 0 ≤ d0) (hd2 : d0 < S / 1000000) :
    0 < applyJitter S d0 neg ∧ applyJitter S d0 neg ≤ 2 * S := by
  rw [applyJitter_eq hf S d0 neg hS hS2 hd hd2]
  have hX0 : 0 ≤ d0 * 1000000 := by omega
  have hX1 : d0 * 1000000 + 1000000 ≤ S := by omega
  generalize d0 * 1000000 = X at *
  cases neg
  · simp only [Bool.false_eq_true, if_false]
    split
    · omega
    · split <;> omega
  · simp only [if_true]; omega

/-- without overflow (sleep ≤ 2^62) the delay is exactly `sleep ± d·1ms` -/
theorem applyJitter_exact (hf : FactsOK) (S d0 : Int) (neg : Bool)
    (hS : 0 < S) (hS2 : S ≤ 2^62) (hd : 0 ≤ d0) (hd2 : d0 < S / 1000000) :
    applyJitter S d0 neg = if neg then S - d0 * 1000000 else S + d0 * 1000000 := by
  rw [applyJitter_eq hf S d0 neg hS (by omega) hd hd2]
  have hX1 : d0 * 1000000 + 1000000 ≤ S := by omega
  cases neg
  · have : S + d0 * 1000000 < 2^63 := by omega
    simp only [Bool.false_eq_true, if_false]
    rw [if_pos this]
  · rfl

theorem tick_pos (w : Int) (h : 0 < w) : tick w = .sleep w := by
  unfold tick; simp; omega

/-- Shape of `delay`: the ticker is armed either with the plain sleep or with `applyJitter` of an
in-range draw; at most 4 PRNG words are consumed. -/
theorem delay_shape (hf : FactsOK) (S : Int) (jitter : Nat) (q : Nat → Nat)
    (hS : 0 < S) (hS2 : S < 2^63) :
    ∃ k, k ≤ 4 ∧
      (delay S jitter q = (tick S, k) ∨
       ∃ d0 neg, 0 ≤ d0 ∧ d0 < S / 1000000 ∧ 1000000 < S ∧ 0 < jitter ∧ jitter ≤ 100 ∧
         delay S jitter q = (tick (applyJitter S d0 neg), k)) := by
  obtain ⟨hF, hM, hSB, hJB, hJA⟩ := hf
  unfold delay ms
  rw [hSB, hJB, hJA, hM]
  have hlt : ¬ S < ((1 : Nat) : Int) := by
    rw [show ((1 : Nat) : Int) = 1 from rfl]; omega
  simp only [hlt, if_false]
  by_cases hj : (decide (jitter > 0) && decide (jitter < 101)) = true
  · simp only [hj, if_true]
    simp only [Bool.and_eq_true, decide_eq_true_eq] at hj
    rw [show ((1000000 : Nat) : Int) = 1000000 from rfl]
    by_cases h100 : jitter = 100
    · simp only [h100, if_true]
      by_cases hms : S > 1000000
      · have hn : i64 (S / 1000000) = S / 1000000 := i64_id _ (by omega) (by omega)
        have hn0 : ¬ S / 1000000 = 0 := by omega
        have hms' : decide (S > 1000000) = true := by simpa using hms
        simp only [hms', Bool.and_self, if_true, hn, hn0, if_false]
        refine ⟨3, by omega, Or.inr ⟨_, _, ?_, ?_, hms, by omega, by omega, rfl⟩⟩
        · exact Int.emod_nonneg _ (by omega)
        · exact Int.emod_lt_of_pos _ (by omega)
      · have hms' : decide (S > 1000000) = false := by simpa using hms
        simp only [hms', Bool.and_false, Bool.false_eq_true, if_false]
        exact ⟨0, by omega, Or.inl rfl⟩
    · simp only [h100, if_false]
      by_cases hit : (decide (fastRandN (raw q 0) Facts.c19JitterRandN % 256 < jitter) && decide (S > 1000000)) = true
      · simp only [hit, if_true]
        simp only [Bool.and_eq_true, decide_eq_true_eq] at hit
        have hms := hit.2
        have hn : i64 (S / 1000000) = S / 1000000 := i64_id _ (by omega) (by omega)
        have hn0 : ¬ S / 1000000 = 0 := by omega
        simp only [hn, hn0, if_false]
        refine ⟨4, by omega, Or.inr ⟨_, _, ?_, ?_, hms, by omega, by omega, rfl⟩⟩
        · exact Int.emod_nonneg _ (by omega)
        · exact Int.emod_lt_of_pos _ (by omega)
      · simp only [hit, if_false]
        exact ⟨1, by omega, Or.inl rfl⟩
  · simp only [hj, if_false]
    exact ⟨0, by omega, Or.inl rfl⟩

/-- For every positive int64 sleep, every jitter value and every PRNG stream the ticker is armed
(no panic, no skipped sleep) with a positive delay at most one sleep away from the sleep. -/
theorem delay_sleep (hf : FactsOK) (S : Int) (jitter : Nat) (q : Nat → Nat)
    (hS : 0 < S) (hS2 : S < 2^63) :
    ∃ w k, delay S jitter q = (.sleep w, k) ∧ 0 < w ∧ w ≤ 2 * S ∧ k ≤ 4 := by
  obtain ⟨k, hk, h | ⟨d0, neg, h1, h2, _, _, _, h⟩⟩ := delay_shape hf S jitter q hS hS2
  · exact ⟨S, k, by rw [h, tick_pos S hS], hS, by omega, hk⟩
  · have hb := applyJitter_bounds hf S d0 neg hS hS2 h1 h2
    exact ⟨_, k, by rw [h, tick_pos _ hb.1], hb.1, hb.2, hk⟩

end XMT.Jitter
