/-
  XMT.Job — executable interleaving model of the Job life cycle of one server-side Session
  (c2/job.go: Cancel, Wait, IsDone;  c2/session_no_implant.go: Task, newJobID, handle, accept, frag).

  Granularity (DESIGN §4 "Concurrency"): a thread is a sequence of atomic actions; a region under
  `s.lock` is ONE action, every unsynchronised access to `j.done` / `j.Status` outside the lock is
  its own action (load and store separately).  The program counter `pc` names the action a thread
  executes next; the yield labels of the instrumented real code (lib/props/C14.json "rewrites")
  delimit exactly these actions (`labelF`).

  Two step functions:
    `stepF`  — the code as repaired by the `fix:` commits (what the theorems are about);
    `stepO`  — the code before the repairs (only used for the machine-checked witnesses of the
               defects, `XMT/Props/C14.lean` section "negations").
  Core only (the driver is a compiled lean_exe).
-/
import XMT.Generated.Facts
namespace XMT.Job

/-! ### constants (regenerated from the source on every run) -/
def stWaiting   : Nat := Facts.c14StatusWaiting
def stAccepted  : Nat := Facts.c14StatusAccepted
def stReceiving : Nat := Facts.c14StatusReceiving
def stCompleted : Nat := Facts.c14StatusCompleted
def stError     : Nat := Facts.c14StatusError
def stCanceled  : Nat := Facts.c14StatusCanceled
def idTries     : Nat := Facts.c14JobIdTries
def idMinExcl   : Nat := Facts.c14JobIdMinExcl
def handleMin   : Nat := Facts.c14HandleMinJob
def acceptMin   : Nat := Facts.c14AcceptMinJob
def fragMin     : Nat := Facts.c14FragMinJob

/-- point update of a function (Go map / heap / thread-local store) -/
def upd {α : Type} (f : Nat → α) (i : Nat) (v : α) : Nat → α := fun k => if k = i then v else f k

@[simp] theorem upd_same {α : Type} (f : Nat → α) (i : Nat) (v : α) : upd f i v i = v := by simp [upd]
theorem upd_apply {α : Type} (f : Nat → α) (i : Nat) (v : α) (k : Nat) :
    upd f i v k = if k = i then v else f k := rfl
theorem upd_other {α : Type} (f : Nat → α) (i : Nat) (v : α) (k : Nat) (h : k ≠ i) :
    upd f i v k = f k := by simp [upd, h]

/-- A finishing event. -/
inductive Ev | completed | error | canceled
deriving DecidableEq, Repr, Inhabited

def Ev.status : Ev → Nat
  | .completed => stCompleted
  | .error => stError
  | .canceled => stCanceled

/-- finishing event of a result packet (`p.Flags & FlagError`) -/
def evOf (ef : Bool) : Ev := if ef then .error else .completed

/-- One `Job` object. `closes`, `first`, `owner` are ghost fields (not in the Go struct):
`closes` counts successful `close(j.done)`, `first` is the event whose `close` released the
waiters, `owner` the handle-thread that took the Job out of the pending table. -/
structure JobSt where
  id : Nat := 0
  status : Nat := 0
  doneNil : Bool := false      -- the field `j.done` is nil
  closed : Bool := false       -- the channel made by Task is closed
  closes : Nat := 0
  first : Option Ev := none
  owner : Option Nat := none
  result : Option Nat := none  -- tag of the packet stored in `j.Result`
  err : Bool := false          -- `len(j.Error) > 0`
  frags : Nat := 0
  current : Nat := 0
deriving Inhabited

/-- What a thread returned (or how it died). -/
inductive Out
  | none
  | job (r : Nat)   -- Task returned Job object r
  | errNoId         -- Task: "cannot assign a Job ID"
  | errDup          -- Task: "job already registered"
  | errWrite        -- Task: write failed (ErrFullBuffer)
  | handled         -- handle returned true
  | ignored         -- handle returned false
  | ret             -- Cancel / Wait / accept / frag returned
  | bool (b : Bool) -- IsDone
  | panicClosed     -- close of closed channel
  | panicNil        -- close of nil channel
deriving DecidableEq, Repr, Inhabited

def Out.isPanic : Out → Bool
  | .panicClosed => true
  | .panicNil => true
  | _ => false

/-- thread-local state -/
structure Loc where
  pc : Nat := 0
  n : Nat := 0                 -- Task: n.Job
  ref : Option Nat := none     -- handle / accept / frag: the local `j`
  out : Out := .none
deriving Inhabited

/-- pc of a finished thread -/
def fin : Nat := 99

/-- Thread programs. `task 0 draws wf` asks newJobID (PRNG draws scripted); `wf` = the send queue
is full (s.write fails). `cancel k` / `wait k` / `isDone k` act on the Job returned by thread k. -/
inductive Kind
  | task (id : Nat) (draws : List Nat) (wf : Bool)
  | result (id : Nat) (ef : Bool) (tag : Nat)
  | cancel (k : Nat)
  | wait (k : Nat)
  | isDone (k : Nat)
  | accept (id : Nat)
  | frag (id mx cur : Nat)
deriving Repr, Inhabited

structure St where
  jobs : Nat → JobSt := fun _ => {}
  nJobs : Nat := 0
  table : Nat → Option Nat := fun _ => none   -- s.jobs : job number ↦ Job object
  count : Nat := 0                            -- len(s.jobs)
  loc : Nat → Loc := fun _ => {}
  lockHeld : Bool := false                    -- a thread died inside a locked region
  pub : List Nat := []                        -- job numbers of the packets queued by s.write

instance : Inhabited St := ⟨{}⟩

/-! ### id allocation (newJobID) -/

/-- `for ; c < 512; c++ { i = uint16(FastRand()); if _, ok = s.jobs[i]; !ok && i > 1 { return i } }; return 0` -/
def newJobIDGo (table : Nat → Option Nat) : List Nat → Nat
  | [] => 0
  | d :: ds =>
    let i := d % 65536
    if table i = none ∧ i > idMinExcl then i else newJobIDGo table ds

def newJobID (table : Nat → Option Nat) (draws : List Nat) : Nat :=
  newJobIDGo table (draws.take idTries)

/-! ### helpers -/

def setLoc (s : St) (t : Nat) (l : Loc) : St := { s with loc := upd s.loc t l }
def setJob (s : St) (r : Nat) (j : JobSt) : St := { s with jobs := upd s.jobs r j }
def finish (s : St) (t : Nat) (o : Out) : St := setLoc s t { s.loc t with pc := fin, out := o }
def goto (s : St) (t : Nat) (pc : Nat) : St := setLoc s t { s.loc t with pc := pc }

/-- The Job a `cancel k`/`wait k`/`isDone k` thread acts on: `none` = thread k has not returned yet
(the thread cannot start), `some none` = k returned no Job (nil receiver), `some (some r)`. -/
def jobOf (s : St) (k : Nat) : Option (Option Nat) :=
  if (s.loc k).pc = fin then
    match (s.loc k).out with
    | .job r => some (some r)
    | _ => some none
  else none

/-- Go `close(j.done)` reading the field: nil → panic, closed → panic. -/
def closeDone (j : JobSt) (e : Ev) : Except Out JobSt :=
  if j.doneNil then .error .panicNil
  else if j.closed then .error .panicClosed
  else .ok { j with closed := true, closes := j.closes + 1,
                    first := match j.first with | none => some e | some x => some x }

/-! ### repaired code -/

/-- Task: pc0 = newJobID (own RLock region) when n.Job = 0; pc1 = Lock { dup check; s.write; insert }. -/
def taskF (s : St) (t : Nat) (id : Nat) (draws : List Nat) (wf : Bool) : St :=
  let l := s.loc t
  match l.pc with
  | 0 =>
    if id = 0 then
      if s.lockHeld then s else
      let i := newJobID s.table draws
      if i = 0 then finish s t .errNoId else setLoc s t { l with pc := 1, n := i }
    else setLoc s t { l with pc := 1, n := id }
  | 1 =>
    if s.lockHeld then s else
    match s.table l.n with
    | some _ => finish s t .errDup
    | none =>
      if wf then finish s t .errWrite else
      let r := s.nJobs
      finish { s with jobs := upd s.jobs r { id := l.n }, nJobs := r + 1,
                      table := upd s.table l.n (some r), count := s.count + 1,
                      pub := s.pub ++ [l.n] } t (.job r)
  | _ => s

/-- handle: pc0 guards (unlocked `len(s.jobs)`); pc1 Lock { lookup; delete }; pc2 stores
Result/Status=Completed; pc3 Status=Error (flagged packets); pc4 load j.done; pc5 close; pc6 j.done=nil. -/
def resultF (s : St) (t : Nat) (id : Nat) (ef : Bool) (tag : Nat) : St :=
  let l := s.loc t
  match l.pc with
  | 0 => if id < handleMin ∨ s.count = 0 then finish s t .ignored else goto s t 1
  | 1 =>
    if s.lockHeld then s else
    match s.table id with
    | none => finish s t .ignored
    | some r =>
      setLoc { s with table := upd s.table id none, count := s.count - 1,
                      jobs := upd s.jobs r { s.jobs r with owner := some t } }
        t { l with pc := 2, ref := some r }
  | 2 =>
    match l.ref with
    | none => s
    | some r =>
      goto (setJob s r { s.jobs r with result := some tag, status := stCompleted }) t (if ef then 3 else 4)
  | 3 =>
    match l.ref with
    | none => s
    | some r => goto (setJob s r { s.jobs r with status := stError, err := true }) t 4
  | 4 =>
    match l.ref with
    | none => s
    | some r => if (s.jobs r).doneNil then finish s t .handled else goto s t 5
  | 5 =>
    match l.ref with
    | none => s
    | some r =>
      match closeDone (s.jobs r) (evOf ef) with
      | .error o => finish s t o
      | .ok j => goto (setJob s r j) t 6
  | 6 =>
    match l.ref with
    | none => s
    | some r => finish (setJob s r { s.jobs r with doneNil := true }) t .handled
  | _ => s

/-- Cancel: pc0 load j.done; pc1 Lock { if s.jobs[j.ID] == j { delete; close; Status=Canceled; done=nil } }. -/
def cancelF (s : St) (t : Nat) (k : Nat) : St :=
  let l := s.loc t
  match jobOf s k with
  | none => s
  | some none => if l.pc = 0 then finish s t .ret else s
  | some (some r) =>
    match l.pc with
    | 0 => if (s.jobs r).doneNil then finish s t .ret else goto s t 1
    | 1 =>
      if s.lockHeld then s else
      if s.table (s.jobs r).id = some r then
        match closeDone (s.jobs r) .canceled with
        | .error o => finish { s with lockHeld := true } t o
        | .ok j =>
          finish { s with table := upd s.table (s.jobs r).id none, count := s.count - 1,
                          jobs := upd s.jobs r { j with status := stCanceled, doneNil := true } } t .ret
      else finish s t .ret
    | _ => s

/-- Wait: pc0 `d := j.done` (nil → return); pc1 `<-d` (enabled only when the channel is closed). -/
def waitF (s : St) (t : Nat) (k : Nat) : St :=
  let l := s.loc t
  match jobOf s k with
  | none => s
  | some none => if l.pc = 0 then finish s t .ret else s
  | some (some r) =>
    match l.pc with
    | 0 => if (s.jobs r).doneNil then finish s t .ret else goto s t 1
    | 1 => if (s.jobs r).closed then finish s t .ret else s
    | _ => s

/-- IsDone: pc0 `d := j.done` (nil → true); pc1 `select { case <-d: true; default: false }`. -/
def isDoneF (s : St) (t : Nat) (k : Nat) : St :=
  let l := s.loc t
  match jobOf s k with
  | none => s
  | some none => if l.pc = 0 then finish s t (.bool true) else s
  | some (some r) =>
    match l.pc with
    | 0 => if (s.jobs r).doneNil then finish s t (.bool true) else goto s t 1
    | 1 => finish s t (.bool (s.jobs r).closed)
    | _ => s

/-- accept: pc0 guards; pc1 Lock { lookup; if ok { Status = Accepted } }. -/
def acceptF (s : St) (t : Nat) (id : Nat) : St :=
  let l := s.loc t
  match l.pc with
  | 0 => if id < acceptMin ∨ s.count = 0 then finish s t .ret else goto s t 1
  | 1 =>
    if s.lockHeld then s else
    match s.table id with
    | none => finish s t .ret
    | some r => finish (setJob s r { s.jobs r with status := stAccepted }) t .ret
  | _ => s

/-- frag: pc0 guards; pc1 Lock { lookup; if ok { if Frags == 0 { Status = Receiving }; Frags, Current = max, cur } }. -/
def fragF (s : St) (t : Nat) (id mx cur : Nat) : St :=
  let l := s.loc t
  match l.pc with
  | 0 => if id < fragMin ∨ s.count = 0 then finish s t .ret else goto s t 1
  | 1 =>
    if s.lockHeld then s else
    match s.table id with
    | none => finish s t .ret
    | some r =>
      let j := s.jobs r
      finish (setJob s r { j with status := if j.frags = 0 then stReceiving else j.status,
                                  frags := mx, current := cur }) t .ret
  | _ => s

def stepK (s : St) (t : Nat) : Kind → St
  | .task id draws wf => taskF s t id draws wf
  | .result id ef tag => resultF s t id ef tag
  | .cancel k => cancelF s t k
  | .wait k => waitF s t k
  | .isDone k => isDoneF s t k
  | .accept id => acceptF s t id
  | .frag id mx cur => fragF s t id mx cur

/-- One schedule entry: thread `t` executes its next atomic action (no-op when it is finished,
not yet startable, blocked, or `t` names no thread). -/
def stepF (prog : List Kind) (s : St) (t : Nat) : St :=
  match prog[t]? with
  | none => s
  | some k => stepK s t k

def runF (prog : List Kind) (s : St) (sched : List Nat) : St := sched.foldl (stepF prog) s

/-! ### the code before the repairs (for the witnesses of the defects) -/

def taskO (s : St) (t : Nat) (id : Nat) (draws : List Nat) (wf : Bool) : St :=
  let l := s.loc t
  match l.pc with
  | 0 =>
    if id = 0 then
      if s.lockHeld then s else
      let i := newJobID s.table draws
      if i = 0 then finish s t .errNoId else setLoc s t { l with pc := 1, n := i }
    else setLoc s t { l with pc := 1, n := id }
  | 1 => -- RLock { _, ok := s.jobs[n.Job] }
    if s.lockHeld then s else
    match s.table l.n with
    | some _ => finish s t .errDup
    | none => goto s t 2
  | 2 => -- s.write(false, n)
    if wf then finish s t .errWrite else goto { s with pub := s.pub ++ [l.n] } t 3
  | 3 => -- Lock { s.jobs[n.Job] = j }
    if s.lockHeld then s else
    let r := s.nJobs
    finish { s with jobs := upd s.jobs r { id := l.n }, nJobs := r + 1,
                    table := upd s.table l.n (some r),
                    count := if (s.table l.n).isSome then s.count else s.count + 1 } t (.job r)
  | _ => s

def resultO (s : St) (t : Nat) (id : Nat) (ef : Bool) (tag : Nat) : St :=
  let l := s.loc t
  match l.pc with
  | 0 => if id < handleMin ∨ s.count = 0 then finish s t .ignored else goto s t 1
  | 1 => -- RLock { j, ok := s.jobs[p.Job] }
    if s.lockHeld then s else
    match s.table id with
    | none => finish s t .ignored
    | some r => setLoc s t { l with pc := 2, ref := some r }
  | 2 =>
    match l.ref with
    | none => s
    | some r =>
      goto (setJob s r { s.jobs r with result := some tag, status := stCompleted }) t (if ef then 3 else 7)
  | 3 =>
    match l.ref with
    | none => s
    | some r => goto (setJob s r { s.jobs r with status := stError, err := true }) t 7
  | 7 => -- Lock { delete(s.jobs, j.ID) }
    if s.lockHeld then s else
    match l.ref with
    | none => s
    | some r =>
      let i := (s.jobs r).id
      goto { s with table := upd s.table i none,
                    count := if (s.table i).isSome then s.count - 1 else s.count } t 4
  | 4 =>
    match l.ref with
    | none => s
    | some r => if (s.jobs r).doneNil then finish s t .handled else goto s t 5
  | 5 =>
    match l.ref with
    | none => s
    | some r =>
      match closeDone (s.jobs r) (evOf ef) with
      | .error o => finish s t o
      | .ok j => goto (setJob s r j) t 6
  | 6 =>
    match l.ref with
    | none => s
    | some r => finish (setJob s r { s.jobs r with doneNil := true }) t .handled
  | _ => s

/-- `cancelSets` = the pending branch assigns StatusCanceled (first repair applied). -/
def cancelO (cancelSets : Bool) (s : St) (t : Nat) (k : Nat) : St :=
  let l := s.loc t
  match jobOf s k with
  | none => s
  | some none => if l.pc = 0 then finish s t .ret else s
  | some (some r) =>
    match l.pc with
    | 0 => if (s.jobs r).doneNil then finish s t .ret else goto s t 1
    | 1 => if (s.jobs r).status ≥ stCompleted then goto s t 2 else goto s t 4   -- unlocked load of Status
    | 2 => if (s.jobs r).doneNil then finish s t .ret else goto s t 3
    | 3 =>
      match closeDone (s.jobs r) .canceled with
      | .error o => finish s t o
      | .ok j => finish (setJob s r j) t .ret
    | 4 =>
      if s.lockHeld then s else
      let i := (s.jobs r).id
      if s.count = 0 ∨ s.table i = none then
        match closeDone (s.jobs r) .canceled with
        | .error o => finish { s with lockHeld := true } t o
        | .ok j => finish (setJob s r { j with status := stCanceled, doneNil := true }) t .ret
      else
        match closeDone (s.jobs r) .canceled with
        | .error o => finish { s with lockHeld := true, table := upd s.table i none, count := s.count - 1 } t o
        | .ok j =>
          let j' : JobSt := { j with doneNil := true, status := if cancelSets then stCanceled else j.status }
          finish { s with table := upd s.table i none, count := s.count - 1, jobs := upd s.jobs r j' } t .ret
    | _ => s

def waitO (s : St) (t : Nat) (k : Nat) : St :=
  let l := s.loc t
  match jobOf s k with
  | none => s
  | some none => if l.pc = 0 then finish s t .ret else s
  | some (some r) =>
    match l.pc with
    | 0 => if (s.jobs r).doneNil then finish s t .ret else goto s t 1
    | 1 => -- `<-j.done` reads the field again: nil blocks forever
      if (s.jobs r).doneNil then s else if (s.jobs r).closed then finish s t .ret else s
    | _ => s

def isDoneO (s : St) (t : Nat) (k : Nat) : St :=
  let l := s.loc t
  match jobOf s k with
  | none => s
  | some none => if l.pc = 0 then finish s t (.bool true) else s
  | some (some r) =>
    match l.pc with
    | 0 => if (s.jobs r).doneNil then finish s t (.bool true) else goto s t 1
    | 1 => -- `case <-j.done` reads the field again: nil is never ready
      finish s t (.bool (!(s.jobs r).doneNil && (s.jobs r).closed))
    | _ => s

def acceptO (s : St) (t : Nat) (id : Nat) : St :=
  let l := s.loc t
  match l.pc with
  | 0 => if id < acceptMin ∨ s.count = 0 then finish s t .ret else goto s t 1
  | 1 =>
    if s.lockHeld then s else
    match s.table id with
    | none => finish s t .ret
    | some r => setLoc s t { l with pc := 2, ref := some r }
  | 2 =>
    match l.ref with
    | none => s
    | some r => finish (setJob s r { s.jobs r with status := stAccepted }) t .ret
  | _ => s

def fragO (s : St) (t : Nat) (id mx cur : Nat) : St :=
  let l := s.loc t
  match l.pc with
  | 0 => if id < fragMin ∨ s.count = 0 then finish s t .ret else goto s t 1
  | 1 =>
    if s.lockHeld then s else
    match s.table id with
    | none => finish s t .ret
    | some r => setLoc s t { l with pc := 2, ref := some r }
  | 2 =>
    match l.ref with
    | none => s
    | some r =>
      let j := s.jobs r
      finish (setJob s r { j with status := if j.frags = 0 then stReceiving else j.status,
                                  frags := mx, current := cur }) t .ret
  | _ => s

def stepKO (cancelSets : Bool) (s : St) (t : Nat) : Kind → St
  | .task id draws wf => taskO s t id draws wf
  | .result id ef tag => resultO s t id ef tag
  | .cancel k => cancelO cancelSets s t k
  | .wait k => waitO s t k
  | .isDone k => isDoneO s t k
  | .accept id => acceptO s t id
  | .frag id mx cur => fragO s t id mx cur

def stepO (cancelSets : Bool) (prog : List Kind) (s : St) (t : Nat) : St :=
  match prog[t]? with
  | none => s
  | some k => stepKO cancelSets s t k

def runO (cancelSets : Bool) (prog : List Kind) (s : St) (sched : List Nat) : St :=
  sched.foldl (stepO cancelSets prog) s

/-! ### observations -/

/-- thread t is blocked in `Wait` on a Job whose channel is closed (must never happen) -/
def blockedAfterFinish (step : St → Nat → St) (prog : List Kind) (s : St) (t : Nat) : Bool :=
  match prog[t]? with
  | some (.wait k) =>
    match jobOf s k with
    | some (some r) => (s.jobs r).closed && (s.loc t).pc != fin && ((step s t).loc t).pc == (s.loc t).pc
    | _ => false
  | _ => false

/-- label of the yield point thread t is parked at (repaired code), as in the instrumented source -/
def labelF (k : Kind) (pc : Nat) : String :=
  if pc = fin then "end" else
  match k, pc with
  | _, 0 => "start"
  | .task .., 1 => "T2"
  | .result .., 1 => "H1"
  | .result .., 2 => "H2"
  | .result .., 3 => "H2e"
  | .result .., 4 => "H3"
  | .result .., 5 => "H4"
  | .result .., 6 => "H5"
  | .cancel _, 1 => "C2"
  | .wait _, 1 => "W2"
  | .isDone _, 1 => "I2"
  | .accept _, 1 => "AF1"
  | .frag .., 1 => "AF1"
  | _, _ => "?"

/-! ### the SvResync gate (c2/vars.go receiveSingle, `case SvResync: if !s.hasJob(n.Job) { return }`) -/

/-- `hasJob`: a read of the pending table under the lock -/
def hasJob (table : Nat → Option Nat) (id : Nat) : Bool := (table id).isSome

/-- whether the settings an SvResync packet carries are applied to the Session: only while the Job it
names is pending — there is no other condition (no shortcut for low numbers) -/
def resyncApplied (table : Nat → Option Nat) (id : Nat) : Bool := hasJob table id

end XMT.Job
