/-
  XMT.JobCount — `count` (the model of `len(s.jobs)`, read WITHOUT the lock by the guards of handle /
  accept / frag) is the number of keys of the pending table in every reachable state, for the coarse
  model (XMT/Job.lean, `stepF`) and for the sub-step model (XMT/JobSub.lean, `stepS`).
  (Review note "`count` outside the invariant".)
-/
import XMT.Job
import XMT.JobSub
namespace XMT.Job

/-- `n` is the number of keys of `tb`: there is a duplicate-free list of exactly the keys, of length n -/
def CountIs (tb : Nat → Option Nat) (n : Nat) : Prop :=
  ∃ keys : List Nat, keys.Nodup ∧ (∀ i, i ∈ keys ↔ (tb i).isSome = true) ∧ keys.length = n

theorem countIs_empty : CountIs (fun _ => none) 0 := ⟨[], by simp⟩

theorem countIs_insert {tb : Nat → Option Nat} {n i r : Nat} (h : CountIs tb n) (hi : tb i = none) :
    CountIs (upd tb i (some r)) (n + 1) := by
  obtain ⟨keys, hn, hm, hl⟩ := h
  refine ⟨i :: keys, ?_, ?_, by simp [hl]⟩
  · refine List.nodup_cons.mpr ⟨?_, hn⟩
    intro hin
    have := (hm i).mp hin
    rw [hi] at this; cases this
  · intro j
    by_cases e : j = i
    · subst e; simp [upd]
    · simp [upd, e, hm j]

theorem countIs_delete {tb : Nat → Option Nat} {n i r : Nat} (h : CountIs tb n) (hi : tb i = some r) :
    CountIs (upd tb i none) (n - 1) := by
  obtain ⟨keys, hn, hm, hl⟩ := h
  have hin : i ∈ keys := (hm i).mpr (by rw [hi]; rfl)
  refine ⟨keys.erase i, hn.erase i, ?_, by rw [List.length_erase_of_mem hin, hl]⟩
  intro j
  rw [hn.mem_erase_iff]
  by_cases e : j = i
  · subst e; simp [upd]
  · simp [upd, e, hm j]

theorem countIs_zero_iff {tb : Nat → Option Nat} {n : Nat} (h : CountIs tb n) : n = 0 ↔ ∀ i, tb i = none := by
  obtain ⟨keys, hn, hm, hl⟩ := h
  constructor
  · intro h0 i
    have : keys = [] := List.eq_nil_of_length_eq_zero (hl.trans h0)
    cases e : tb i with
    | none => rfl
    | some r =>
      have := (hm i).mpr (by rw [e]; rfl)
      rw [‹keys = []›] at this; cases this
  · intro hall
    cases keys with
    | nil => exact hl.symm
    | cons k ks =>
      have := (hm k).mp (List.mem_cons_self)
      rw [hall k] at this; cases this

/-- what one action may do to the table and to `count` -/
def TabStep (tb : Nat → Option Nat) (n : Nat) (tb' : Nat → Option Nat) (n' : Nat) : Prop :=
  (tb' = tb ∧ n' = n) ∨
  (∃ i r, tb i = none ∧ tb' = upd tb i (some r) ∧ n' = n + 1) ∨
  (∃ i r, tb i = some r ∧ tb' = upd tb i none ∧ n' = n - 1)

theorem countIs_tabStep {tb tb' : Nat → Option Nat} {n n' : Nat} (h : CountIs tb n) (st : TabStep tb n tb' n') :
    CountIs tb' n' := by
  rcases st with ⟨a, b⟩ | ⟨i, r, a, b, c⟩ | ⟨i, r, a, b, c⟩
  · rw [a, b]; exact h
  · rw [b, c]; exact countIs_insert h a
  · rw [b, c]; exact countIs_delete h a

macro "ts_same" : tactic => `(tactic| exact Or.inl ⟨rfl, rfl⟩)

theorem tabStep_stepF (prog : List Kind) (s : St) (t : Nat) :
    TabStep s.table s.count (stepF prog s t).table (stepF prog s t).count := by
  unfold stepF
  split
  · ts_same
  · rename_i k _
    cases k with
    | task id draws wf =>
      simp only [stepK, taskF]
      repeat' split
      all_goals first
        | ts_same
        | (rename_i hn _; exact Or.inr (Or.inl ⟨_, _, hn, rfl, rfl⟩))
    | result id ef tag =>
      simp only [stepK, resultF]
      repeat' split
      all_goals first
        | ts_same
        | (rename_i hn; exact Or.inr (Or.inr ⟨_, _, hn, rfl, rfl⟩))
    | cancel k =>
      simp only [stepK, cancelF]
      repeat' split
      all_goals first
        | ts_same
        | (rename_i hn _ _ _; exact Or.inr (Or.inr ⟨_, _, hn, rfl, rfl⟩))
    | wait k =>
      simp only [stepK, waitF]
      repeat' split
      all_goals ts_same
    | isDone k =>
      simp only [stepK, isDoneF]
      repeat' split
      all_goals ts_same
    | accept id =>
      simp only [stepK, acceptF]
      repeat' split
      all_goals ts_same
    | frag id mx cur =>
      simp only [stepK, fragF]
      repeat' split
      all_goals ts_same

theorem countIs_runF (prog : List Kind) (sched : List Nat) (s : St) (h : CountIs s.table s.count) :
    CountIs (runF prog s sched).table (runF prog s sched).count := by
  induction sched generalizing s with
  | nil => exact h
  | cons t ts ih => exact ih _ (countIs_tabStep h (tabStep_stepF prog s t))

end XMT.Job

namespace XMT.JobSub
open XMT XMT.Job

theorem tabStep_applyC (s s' : StS) (t r : Nat) (a : CAct) (h : applyC s t r a = .ok s')
    (hin : s.table (s.jobs r).id = some r) (ha : a ≠ .delete → True) :
    (a = .delete → TabStep s.table s.count s'.table s'.count) ∧
    (a ≠ .delete → s'.table = s.table ∧ s'.count = s.count) := by
  cases a <;> simp only [applyC] at h
  · cases h; simp
  · cases h
    refine ⟨fun _ => Or.inr (Or.inr ⟨_, _, hin, rfl, rfl⟩), fun hne => absurd rfl hne⟩
  · cases h; simp [setJob]
  · split at h
    · cases h
    · cases h; simp [setJob]
  · cases h; simp [setJob]
  · cases h; simp [setJob]

end XMT.JobSub
