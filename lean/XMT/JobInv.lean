/-
  XMT.JobInv — the invariant of the repaired Job life cycle (`stepF`) and its preservation by every
  atomic action of every thread. Helper lemmas for XMT/Props/C14.lean.
-/
import XMT.Job
namespace XMT.Job
set_option linter.unusedSimpArgs false
set_option linter.unusedVariables false

/-- Consistency of one Job object with its ghost fields. -/
def JobOK (j : JobSt) : Prop :=
  (j.closed = false → j.closes = 0 ∧ j.first = none) ∧
  (j.closed = true → j.closes = 1 ∧ ∃ e, j.first = some e ∧ j.status = e.status)

/-- What a handle-thread `t` between its removal of the Job (pc 2) and its last store (pc 6)
knows about the Job in its local `j`. -/
def OwnsJ (j : JobSt) (t pc id : Nat) (ef : Bool) : Prop :=
  j.owner = some t ∧ j.id = id ∧
  (pc ≤ 5 → j.closed = false ∧ j.doneNil = false) ∧
  (pc = 3 → ef = true) ∧
  (pc = 4 ∨ pc = 5 → j.status = (evOf ef).status) ∧
  (pc = 6 → j.closed = true)

/-- entry `i ↦ r` of the pending table is sound -/
def TabOK (s : St) (i r : Nat) : Prop :=
  r < s.nJobs ∧ (s.jobs r).id = i ∧ (s.jobs r).closed = false ∧ (s.jobs r).doneNil = false ∧
  (s.jobs r).owner = none

/-- thread-local knowledge of a handle-thread with local state `l` -/
def OwnOK (s : St) (t id : Nat) (ef : Bool) (l : Loc) : Prop :=
  2 ≤ l.pc → l.pc ≤ 6 → l.ref ≠ none ∧ ∀ r, l.ref = some r → r < s.nJobs ∧ OwnsJ (s.jobs r) t l.pc id ef

/-- thread t is a handle-thread -/
def isResult (prog : List Kind) (t : Nat) : Bool :=
  match prog[t]? with
  | some (.result ..) => true
  | _ => false

/-- Liveness bookkeeping of Job r: it is pending under its own number, or finished, or a
handle-thread that has taken it out of the table is on its way to close it. -/
def Kjob (prog : List Kind) (s : St) (r : Nat) : Prop :=
  s.table (s.jobs r).id = some r ∨ (s.jobs r).closed = true ∨
  ((s.jobs r).owner ≠ none ∧ ∀ t, (s.jobs r).owner = some t →
    isResult prog t = true ∧ 2 ≤ (s.loc t).pc ∧ (s.loc t).pc ≤ 5 ∧ (s.loc t).ref = some r)

/-- What may happen to one Job object in a step: its number is fixed, closes only grow, a closed
channel stays closed, the first finishing event is never replaced and a finished Job's Status,
Result and Error are frozen. -/
def JobLe (a b : JobSt) : Prop :=
  a.id = b.id ∧ a.closes ≤ b.closes ∧ (a.closed = true → b.closed = true) ∧
  (∀ e, a.first = some e → b.first = some e) ∧
  (a.closed = true → b.status = a.status ∧ b.result = a.result ∧ b.err = a.err)

def Mono (s s' : St) : Prop := s.nJobs ≤ s'.nJobs ∧ ∀ r, r < s.nJobs → JobLe (s.jobs r) (s'.jobs r)

theorem jobLe_refl (a : JobSt) : JobLe a a := by simp [JobLe]

theorem jobLe_trans {a b c : JobSt} (h1 : JobLe a b) (h2 : JobLe b c) : JobLe a c := by
  unfold JobLe at *
  obtain ⟨a1, a2, a3, a4, a5⟩ := h1
  obtain ⟨b1, b2, b3, b4, b5⟩ := h2
  refine ⟨a1.trans b1, Nat.le_trans a2 b2, fun h => b3 (a3 h), fun e h => b4 e (a4 e h), ?_⟩
  intro h
  obtain ⟨x1, x2, x3⟩ := a5 h
  obtain ⟨y1, y2, y3⟩ := b5 (a3 h)
  exact ⟨y1.trans x1, y2.trans x2, y3.trans x3⟩

theorem mono_refl (s : St) : Mono s s := ⟨Nat.le_refl _, fun r _ => jobLe_refl _⟩

theorem mono_trans {a b c : St} (h1 : Mono a b) (h2 : Mono b c) : Mono a c :=
  ⟨Nat.le_trans h1.1 h2.1, fun r hr => jobLe_trans (h1.2 r hr) (h2.2 r (Nat.lt_of_lt_of_le hr h1.1))⟩

structure Inv (prog : List Kind) (s : St) : Prop where
  noLock : s.lockHeld = false
  noPanic : ∀ t, (s.loc t).out ≠ .panicClosed ∧ (s.loc t).out ≠ .panicNil
  tab : ∀ i r, s.table i = some r → TabOK s i r
  jobs : ∀ r, r < s.nJobs → JobOK (s.jobs r)
  outJob : ∀ t r, (s.loc t).out = .job r → r < s.nJobs
  own : ∀ t id ef tag, prog[t]? = some (.result id ef tag) → OwnOK s t id ef (s.loc t)
  live : ∀ r, r < s.nJobs → Kjob prog s r

/-- a step relation: the invariant holds afterwards and every Job object only moved forward -/
def Good (prog : List Kind) (s s' : St) : Prop := Inv prog s' ∧ Mono s s'

theorem good_refl {prog : List Kind} {s : St} (h : Inv prog s) : Good prog s s := ⟨h, mono_refl s⟩

theorem inv_init (prog : List Kind) : Inv prog {} := by
  constructor <;> simp [OwnOK]

/-- Frame lemma: a step of thread `t` preserves the invariant if it keeps the other threads'
locals and the Jobs owned by other handle-threads, and re-establishes the local conditions. -/
theorem inv_frame {prog : List Kind} {s s' : St} (t : Nat) (h : Inv prog s)
    (h1 : s'.lockHeld = false)
    (h2 : ∀ t', t' ≠ t → s'.loc t' = s.loc t')
    (h3 : (s'.loc t).out ≠ .panicClosed ∧ (s'.loc t).out ≠ .panicNil ∧ ∀ r, (s'.loc t).out = .job r → r < s'.nJobs)
    (h4 : s.nJobs ≤ s'.nJobs)
    (h5 : ∀ r, r < s'.nJobs → JobOK (s'.jobs r))
    (h6 : ∀ i r, s'.table i = some r → TabOK s' i r)
    (h7 : ∀ r t', r < s.nJobs → (s.jobs r).owner = some t' → t' ≠ t → s'.jobs r = s.jobs r)
    (h8 : ∀ id ef tag, prog[t]? = some (.result id ef tag) → OwnOK s' t id ef (s'.loc t))
    (h9 : ∀ r, r < s.nJobs → JobLe (s.jobs r) (s'.jobs r))
    (h10 : ∀ r, r < s'.nJobs → Kjob prog s' r) :
    Good prog s s' := by
  refine ⟨⟨h1, ?_, h6, h5, ?_, ?_, h10⟩, h4, h9⟩
  · intro t'
    by_cases e : t' = t
    · subst e; exact ⟨h3.1, h3.2.1⟩
    · rw [h2 t' e]; exact h.noPanic t'
  · intro t' r
    by_cases e : t' = t
    · subst e; exact h3.2.2 r
    · rw [h2 t' e]; intro hh; exact Nat.lt_of_lt_of_le (h.outJob t' r hh) h4
  · intro t' id ef tag hk
    by_cases e : t' = t
    · subst e; exact h8 id ef tag hk
    · rw [h2 t' e]
      intro ha hb
      obtain ⟨hn, hr⟩ := h.own t' id ef tag hk ha hb
      refine ⟨hn, ?_⟩
      intro r hrr
      obtain ⟨hlt, ho⟩ := hr r hrr
      rw [h7 r t' hlt ho.1 e]
      exact ⟨Nat.lt_of_lt_of_le hlt h4, ho⟩


/-! ### preservation, one lemma per thread kind (and per pc for the handle-thread) -/

attribute [local grind =] upd_apply

macro "fr_auto" : tactic =>
  `(tactic| (all_goals (simp only [finish, goto, setLoc, setJob, JobOK, OwnsJ, OwnOK, TabOK, Kjob, JobLe, fin, upd_same, evOf, Ev.status, Bool.false_eq_true, if_false, if_true] at *) <;> grind))

theorem inv_resultF_01 (prog : List Kind) (s : St) (t id : Nat) (ef : Bool) (tag : Nat)
    (hk : prog[t]? = some (.result id ef tag)) (h : Inv prog s) (h0 : (s.loc t).pc = 0 ∨ (s.loc t).pc = 1) :
    Good prog s (resultF s t id ef tag) := by
  have hL := h.noLock
  have hT := h.tab
  have hJ := h.jobs
  have hK := h.live
  simp only [TabOK, JobOK, Kjob] at hT hJ hK
  have hP := h.noPanic t
  have hO := h.outJob t
  have hR : isResult prog t = true := by simp [isResult, hk]
  rcases h0 with h0 | h0
  · simp only [resultF, h0]
    split
    · apply inv_frame t h
      fr_auto
    · apply inv_frame t h
      fr_auto
  · simp only [resultF, h0, hL, Bool.false_eq_true, if_false]
    split
    · apply inv_frame t h
      fr_auto
    · rename_i r hr
      obtain ⟨h1, h2, h3, h4, h5⟩ := hT id r hr
      apply inv_frame t h
      fr_auto

theorem inv_resultF_own (prog : List Kind) (s : St) (t id : Nat) (ef : Bool) (tag : Nat)
    (hk : prog[t]? = some (.result id ef tag)) (h : Inv prog s) (h0 : 2 ≤ (s.loc t).pc ∧ (s.loc t).pc ≤ 6) :
    ∃ r, (s.loc t).ref = some r ∧ r < s.nJobs ∧ OwnsJ (s.jobs r) t (s.loc t).pc id ef ∧ JobOK (s.jobs r) := by
  obtain ⟨hn, hr⟩ := h.own t id ef tag hk h0.1 h0.2
  cases e : (s.loc t).ref with
  | none => exact absurd e hn
  | some r => exact ⟨r, rfl, (hr r e).1, (hr r e).2, h.jobs r (hr r e).1⟩

theorem inv_resultF_2 (prog : List Kind) (s : St) (t id : Nat) (ef : Bool) (tag : Nat)
    (hk : prog[t]? = some (.result id ef tag)) (h : Inv prog s) (h0 : (s.loc t).pc = 2) :
    Good prog s (resultF s t id ef tag) := by
  obtain ⟨r, e, g1, g2, g3⟩ := inv_resultF_own prog s t id ef tag hk h (by omega)
  have hL := h.noLock
  have hT := h.tab
  have hJ := h.jobs
  have hK := h.live
  simp only [TabOK, JobOK, Kjob] at hT hJ hK
  have hP := h.noPanic t
  have hO := h.outJob t
  have hR : isResult prog t = true := by simp [isResult, hk]
  simp only [resultF, h0, e]
  apply inv_frame t h
  all_goals cases ef
  fr_auto

theorem inv_resultF_3 (prog : List Kind) (s : St) (t id : Nat) (ef : Bool) (tag : Nat)
    (hk : prog[t]? = some (.result id ef tag)) (h : Inv prog s) (h0 : (s.loc t).pc = 3) :
    Good prog s (resultF s t id ef tag) := by
  obtain ⟨r, e, g1, g2, g3⟩ := inv_resultF_own prog s t id ef tag hk h (by omega)
  have hL := h.noLock
  have hT := h.tab
  have hJ := h.jobs
  have hK := h.live
  simp only [TabOK, JobOK, Kjob] at hT hJ hK
  have hP := h.noPanic t
  have hO := h.outJob t
  have hR : isResult prog t = true := by simp [isResult, hk]
  simp only [resultF, h0, e]
  apply inv_frame t h
  all_goals cases ef
  fr_auto

theorem inv_resultF_4 (prog : List Kind) (s : St) (t id : Nat) (ef : Bool) (tag : Nat)
    (hk : prog[t]? = some (.result id ef tag)) (h : Inv prog s) (h0 : (s.loc t).pc = 4) :
    Good prog s (resultF s t id ef tag) := by
  obtain ⟨r, e, g1, g2, g3⟩ := inv_resultF_own prog s t id ef tag hk h (by omega)
  have hL := h.noLock
  have hT := h.tab
  have hJ := h.jobs
  have hK := h.live
  simp only [TabOK, JobOK, Kjob] at hT hJ hK
  have hP := h.noPanic t
  have hO := h.outJob t
  have hR : isResult prog t = true := by simp [isResult, hk]
  have g3' := g2.2.2.1 (by omega)
  simp only [resultF, h0, e, g3'.2, Bool.false_eq_true, if_false]
  apply inv_frame t h
  all_goals cases ef
  fr_auto

theorem inv_resultF_5 (prog : List Kind) (s : St) (t id : Nat) (ef : Bool) (tag : Nat)
    (hk : prog[t]? = some (.result id ef tag)) (h : Inv prog s) (h0 : (s.loc t).pc = 5) :
    Good prog s (resultF s t id ef tag) := by
  obtain ⟨r, e, g1, g2, g3⟩ := inv_resultF_own prog s t id ef tag hk h (by omega)
  have hL := h.noLock
  have hT := h.tab
  have hJ := h.jobs
  have hK := h.live
  simp only [TabOK, JobOK, Kjob] at hT hJ hK
  have hP := h.noPanic t
  have hO := h.outJob t
  have hR : isResult prog t = true := by simp [isResult, hk]
  have g3' := g2.2.2.1 (by omega)
  simp only [resultF, h0, e, closeDone, g3'.1, g3'.2, Bool.false_eq_true, if_false]
  apply inv_frame t h
  all_goals cases ef
  fr_auto

theorem inv_resultF_6 (prog : List Kind) (s : St) (t id : Nat) (ef : Bool) (tag : Nat)
    (hk : prog[t]? = some (.result id ef tag)) (h : Inv prog s) (h0 : (s.loc t).pc = 6) :
    Good prog s (resultF s t id ef tag) := by
  obtain ⟨r, e, g1, g2, g3⟩ := inv_resultF_own prog s t id ef tag hk h (by omega)
  have hL := h.noLock
  have hT := h.tab
  have hJ := h.jobs
  have hK := h.live
  simp only [TabOK, JobOK, Kjob] at hT hJ hK
  have hP := h.noPanic t
  have hO := h.outJob t
  have hR : isResult prog t = true := by simp [isResult, hk]
  simp only [resultF, h0, e]
  apply inv_frame t h
  all_goals cases ef
  fr_auto

theorem inv_resultF (prog : List Kind) (s : St) (t id : Nat) (ef : Bool) (tag : Nat)
    (hk : prog[t]? = some (.result id ef tag)) (h : Inv prog s) : Good prog s (resultF s t id ef tag) := by
  have hpc : (s.loc t).pc = 0 ∨ (s.loc t).pc = 1 ∨ (s.loc t).pc = 2 ∨ (s.loc t).pc = 3 ∨ (s.loc t).pc = 4 ∨
      (s.loc t).pc = 5 ∨ (s.loc t).pc = 6 ∨ 7 ≤ (s.loc t).pc := by omega
  rcases hpc with h0 | h0 | h0 | h0 | h0 | h0 | h0 | h0
  · exact inv_resultF_01 prog s t id ef tag hk h (Or.inl h0)
  · exact inv_resultF_01 prog s t id ef tag hk h (Or.inr h0)
  · exact inv_resultF_2 prog s t id ef tag hk h h0
  · exact inv_resultF_3 prog s t id ef tag hk h h0
  · exact inv_resultF_4 prog s t id ef tag hk h h0
  · exact inv_resultF_5 prog s t id ef tag hk h h0
  · exact inv_resultF_6 prog s t id ef tag hk h h0
  · have : resultF s t id ef tag = s := by
      unfold resultF
      dsimp only
      split <;> first | (exfalso; omega) | rfl
    rw [this]; exact good_refl h


theorem jobOf_lt {prog : List Kind} {s : St} {k r : Nat} (h : Inv prog s) (e : jobOf s k = some (some r)) :
    r < s.nJobs := by
  unfold jobOf at e
  split at e
  · split at e
    · rename_i r' ho; simp at e; subst e; exact h.outJob k _ ho
    · simp at e
  · simp at e

theorem inv_taskF (prog : List Kind) (s : St) (t id : Nat) (draws : List Nat) (wf : Bool)
    (hk : prog[t]? = some (.task id draws wf)) (h : Inv prog s) : Good prog s (taskF s t id draws wf) := by
  have hL := h.noLock
  have hT := h.tab
  have hJ := h.jobs
  have hK := h.live
  simp only [TabOK, JobOK, Kjob] at hT hJ hK
  have hP := h.noPanic t
  have hO := h.outJob t
  have hpc : (s.loc t).pc = 0 ∨ (s.loc t).pc = 1 ∨ 2 ≤ (s.loc t).pc := by omega
  rcases hpc with h0 | h0 | h0
  · simp only [taskF, h0, hL, Bool.false_eq_true, if_false]
    split
    · split
      · apply inv_frame t h
        fr_auto
      · apply inv_frame t h
        fr_auto
    · apply inv_frame t h
      fr_auto
  · simp only [taskF, h0, hL, Bool.false_eq_true, if_false]
    split
    · apply inv_frame t h
      fr_auto
    · split
      · apply inv_frame t h
        fr_auto
      · apply inv_frame t h
        fr_auto
  · have : taskF s t id draws wf = s := by
      unfold taskF
      dsimp only
      split <;> first | (exfalso; omega) | rfl
    rw [this]; exact good_refl h

theorem inv_cancelF (prog : List Kind) (s : St) (t k : Nat)
    (hk : prog[t]? = some (.cancel k)) (h : Inv prog s) : Good prog s (cancelF s t k) := by
  have hL := h.noLock
  have hT := h.tab
  have hJ := h.jobs
  have hK := h.live
  simp only [TabOK, JobOK, Kjob] at hT hJ hK
  have hP := h.noPanic t
  have hO := h.outJob t
  unfold cancelF
  dsimp only
  split
  · exact good_refl h
  · split
    · apply inv_frame t h
      fr_auto
    · exact good_refl h
  · rename_i r e
    have hr := jobOf_lt h e
    have hpc : (s.loc t).pc = 0 ∨ (s.loc t).pc = 1 ∨ 2 ≤ (s.loc t).pc := by omega
    rcases hpc with h0 | h0 | h0
    · simp only [h0]
      split
      · apply inv_frame t h
        fr_auto
      · apply inv_frame t h
        fr_auto
    · simp only [h0, hL, Bool.false_eq_true, if_false]
      split
      · rename_i hin
        obtain ⟨h1, h2, h3, h4, h5⟩ := hT _ _ hin
        simp only [closeDone, h3, h4, Bool.false_eq_true, if_false]
        apply inv_frame t h
        fr_auto
      · apply inv_frame t h
        fr_auto
    · split <;> first | (exfalso; omega) | exact good_refl h


theorem inv_waitF (prog : List Kind) (s : St) (t k : Nat)
    (hk : prog[t]? = some (.wait k)) (h : Inv prog s) : Good prog s (waitF s t k) := by
  have hL := h.noLock
  have hT := h.tab
  have hJ := h.jobs
  have hK := h.live
  simp only [TabOK, JobOK, Kjob] at hT hJ hK
  have hP := h.noPanic t
  have hO := h.outJob t
  unfold waitF
  dsimp only
  split
  · exact good_refl h
  · split
    · apply inv_frame t h
      fr_auto
    · exact good_refl h
  · have hpc : (s.loc t).pc = 0 ∨ (s.loc t).pc = 1 ∨ 2 ≤ (s.loc t).pc := by omega
    rcases hpc with h0 | h0 | h0
    · simp only [h0]
      split
      · apply inv_frame t h
        fr_auto
      · apply inv_frame t h
        fr_auto
    · simp only [h0]
      split
      · apply inv_frame t h
        fr_auto
      · exact good_refl h
    · split <;> first | (exfalso; omega) | exact good_refl h

theorem inv_isDoneF (prog : List Kind) (s : St) (t k : Nat)
    (hk : prog[t]? = some (.isDone k)) (h : Inv prog s) : Good prog s (isDoneF s t k) := by
  have hL := h.noLock
  have hT := h.tab
  have hJ := h.jobs
  have hK := h.live
  simp only [TabOK, JobOK, Kjob] at hT hJ hK
  have hP := h.noPanic t
  have hO := h.outJob t
  unfold isDoneF
  dsimp only
  split
  · exact good_refl h
  · split
    · apply inv_frame t h
      fr_auto
    · exact good_refl h
  · have hpc : (s.loc t).pc = 0 ∨ (s.loc t).pc = 1 ∨ 2 ≤ (s.loc t).pc := by omega
    rcases hpc with h0 | h0 | h0
    · simp only [h0]
      split
      · apply inv_frame t h
        fr_auto
      · apply inv_frame t h
        fr_auto
    · simp only [h0]
      apply inv_frame t h
      fr_auto
    · split <;> first | (exfalso; omega) | exact good_refl h

theorem inv_acceptF (prog : List Kind) (s : St) (t id : Nat)
    (hk : prog[t]? = some (.accept id)) (h : Inv prog s) : Good prog s (acceptF s t id) := by
  have hL := h.noLock
  have hT := h.tab
  have hJ := h.jobs
  have hK := h.live
  simp only [TabOK, JobOK, Kjob] at hT hJ hK
  have hP := h.noPanic t
  have hO := h.outJob t
  have hpc : (s.loc t).pc = 0 ∨ (s.loc t).pc = 1 ∨ 2 ≤ (s.loc t).pc := by omega
  rcases hpc with h0 | h0 | h0
  · simp only [acceptF, h0]
    split
    · apply inv_frame t h
      fr_auto
    · apply inv_frame t h
      fr_auto
  · simp only [acceptF, h0, hL, Bool.false_eq_true, if_false]
    split
    · apply inv_frame t h
      fr_auto
    · rename_i r hin
      obtain ⟨h1, h2, h3, h4, h5⟩ := hT _ _ hin
      apply inv_frame t h
      fr_auto
  · have : acceptF s t id = s := by
      unfold acceptF
      dsimp only
      split <;> first | (exfalso; omega) | rfl
    rw [this]; exact good_refl h

theorem inv_fragF (prog : List Kind) (s : St) (t id mx cur : Nat)
    (hk : prog[t]? = some (.frag id mx cur)) (h : Inv prog s) : Good prog s (fragF s t id mx cur) := by
  have hL := h.noLock
  have hT := h.tab
  have hJ := h.jobs
  have hK := h.live
  simp only [TabOK, JobOK, Kjob] at hT hJ hK
  have hP := h.noPanic t
  have hO := h.outJob t
  have hpc : (s.loc t).pc = 0 ∨ (s.loc t).pc = 1 ∨ 2 ≤ (s.loc t).pc := by omega
  rcases hpc with h0 | h0 | h0
  · simp only [fragF, h0]
    split
    · apply inv_frame t h
      fr_auto
    · apply inv_frame t h
      fr_auto
  · simp only [fragF, h0, hL, Bool.false_eq_true, if_false]
    split
    · apply inv_frame t h
      fr_auto
    · rename_i r hin
      obtain ⟨h1, h2, h3, h4, h5⟩ := hT _ _ hin
      apply inv_frame t h
      fr_auto
  · have : fragF s t id mx cur = s := by
      unfold fragF
      dsimp only
      split <;> first | (exfalso; omega) | rfl
    rw [this]; exact good_refl h

/-- Every atomic action of every thread preserves the invariant and moves every Job forward. -/
theorem good_stepF (prog : List Kind) (s : St) (t : Nat) (h : Inv prog s) : Good prog s (stepF prog s t) := by
  unfold stepF
  split
  · exact good_refl h
  · rename_i k hk
    cases k with
    | task id draws wf => exact inv_taskF prog s t id draws wf hk h
    | result id ef tag => exact inv_resultF prog s t id ef tag hk h
    | cancel k => exact inv_cancelF prog s t k hk h
    | wait k => exact inv_waitF prog s t k hk h
    | isDone k => exact inv_isDoneF prog s t k hk h
    | accept id => exact inv_acceptF prog s t id hk h
    | frag id mx cur => exact inv_fragF prog s t id mx cur hk h

theorem inv_stepF (prog : List Kind) (s : St) (t : Nat) (h : Inv prog s) : Inv prog (stepF prog s t) :=
  (good_stepF prog s t h).1

/-- … hence every state reachable under ANY schedule satisfies it (induction on the schedule),
and along any schedule every Job object only moves forward. -/
theorem good_runF (prog : List Kind) (sched : List Nat) (s : St) (h : Inv prog s) :
    Good prog s (runF prog s sched) := by
  induction sched generalizing s with
  | nil => exact good_refl h
  | cons t ts ih =>
    have g := good_stepF prog s t h
    have g2 := ih _ g.1
    exact ⟨g2.1, mono_trans g.2 g2.2⟩

theorem inv_runF (prog : List Kind) (sched : List Nat) (s : St) (h : Inv prog s) :
    Inv prog (runF prog s sched) := (good_runF prog sched s h).1

theorem runF_append (prog : List Kind) (s : St) (a b : List Nat) :
    runF prog s (a ++ b) = runF prog (runF prog s a) b := by
  simp [runF, List.foldl_append]

end XMT.Job
