/-
  XMT.JobSub — the Job life cycle at the granularity of the individual shared-memory writes INSIDE
  the locked regions, with the lock-free readers as threads (extension of XMT/Job.lean, which keeps a
  locked region as one action).

  * `s.lock : Option Nat` is the holder of `Session.lock`. A locked region with ONE shared write
    (Task's insert, handle's delete, accept's Status store) stays one action (nothing can be seen
    between "nothing written" and "the one write done"); it is enabled only while the lock is free.
    `Job.Cancel` (five writes: `jobs[ID] = nil`, `delete`, `Status = Canceled`, `close(done)`,
    `done = nil`) and `Session.frag` (Status store; `Frags, Current = max, cur`) hold the lock over
    several actions: every thread that needs the lock is blocked meanwhile, every lock-free access
    (Wait, IsDone, IsError, reads of Status / Result / Error, handle's unlocked part, the unlocked
    `len(s.jobs)` guards, Cancel's first `j.done == nil` test) can fall between any two of them.
  * The ORDER of Cancel's writes is data (`cancelActs`, the list the step function interprets); it is
    compared by `decide` with the order regenerated from c2/job.go (`Facts.c14sCancelOrder`).
    `cancelActsO` is the order before the repair `fix: Job.Cancel stores StatusCanceled before it
    releases the waiters` (close first, then `Status, done = Canceled, nil`).
  * Readers: `waitRd k` = `j.Wait(); st := j.Status; res := j.Result; e := len(j.Error) > 0`,
    `doneRd k` = `if j.IsDone() { the same three reads }`, `isError k` = `j.IsError()`; each read is
    its own action. A receive from a nil channel blocks for ever (the action is never enabled).
  * Memory: sequentially consistent interleaving of the single accesses (what the schedule replay
    executes). NOT modelled: what the Go memory model allows beyond that for the unsynchronised reads
    of `j.done` (a reader that saw nil has no happens-before edge to the finishing stores) — open
    statement in lib/props/C14.json.
  Core only.
-/
import XMT.Job
namespace XMT.JobSub
open XMT XMT.Job

/-- one shared-memory write of `Job.Cancel`'s locked region -/
inductive CAct
  | mapNil         -- j.s.jobs[j.ID] = nil   (len unchanged; the slot is only read under the lock)
  | delete         -- delete(j.s.jobs, j.ID)
  | status         -- j.Status = StatusCanceled
  | close          -- close(j.done)
  | doneNil        -- j.done = nil
  | statusDoneNil  -- j.Status, j.done = StatusCanceled, nil   (the tuple store of the unrepaired code)
deriving DecidableEq, Repr, Inhabited

/-- name of the write as rendered from the source by the fact provider (go/parser, c14_s3.go) -/
def CAct.name : CAct → String
  | .mapNil => "mapset"
  | .delete => "delete"
  | .status => "assign:Status"
  | .close => "close"
  | .doneNil => "assign:done"
  | .statusDoneNil => "assign:Status,done"

/-- yield label in front of the write (instrumented source) -/
def CAct.label : CAct → String
  | .mapNil => "Cm"
  | .delete => "Cd"
  | .status => "Cs"
  | .close => "Cc"
  | .doneNil => "Cn"
  | .statusDoneNil => "Cs"

/-- the locked region of Cancel as repaired: Status is stored before the waiters are released -/
def cancelActs : List CAct := [.mapNil, .delete, .status, .close, .doneNil]
/-- … and before that repair -/
def cancelActsO : List CAct := [.mapNil, .delete, .close, .statusDoneNil]

/-- the shared writes of `Session.handle` in source order (`?` = only for an error-flagged packet):
pc1 `delete` (locked), pc2 the tuple store, pc3 `Status = Error`, pc4 the Error string
(`ReadString(&j.Error)` and its fallback store), pc6 `close`, pc7 `done = nil`. `resultS` hard-codes
this order; the list is compared with the regenerated one. -/
def handleActs : List String :=
  ["delete", "assign:Result,Complete,Status", "?assign:Status", "?call:ReadString(&Error)", "?assign:Error",
   "close", "assign:done"]
/-- `Session.accept`: the one store under the lock -/
def acceptActs : List String := ["assign:Status"]
/-- `Session.frag`: pc1 the conditional Status store, pc2 the tuple store (both under the lock) -/
def fragActs : List String := ["?assign:Status", "assign:Frags,Current"]

/-- thread-local state; `oSt`/`oRes`/`oErr` = what a reader thread read from Status / Result / Error -/
structure LocS where
  pc : Nat := 0
  n : Nat := 0
  ref : Option Nat := none
  out : Out := .none
  oSt : Option Nat := none
  oRes : Option (Option Nat) := none
  oErr : Option Bool := none
deriving Inhabited

inductive KindS
  | task (id : Nat) (draws : List Nat) (wf : Bool)
  | result (id : Nat) (ef : Bool) (tag : Nat)
  | cancel (k : Nat)
  | accept (id : Nat)
  | frag (id mx cur : Nat)
  | waitRd (k : Nat)
  | doneRd (k : Nat)
  | isError (k : Nat)
deriving Repr, Inhabited

structure StS where
  jobs : Nat → JobSt := fun _ => {}
  nJobs : Nat := 0
  table : Nat → Option Nat := fun _ => none
  count : Nat := 0
  loc : Nat → LocS := fun _ => {}
  lock : Option Nat := none      -- holder of Session.lock (write lock)
  pub : List Nat := []

instance : Inhabited StS := ⟨{}⟩

def setLoc (s : StS) (t : Nat) (l : LocS) : StS := { s with loc := upd s.loc t l }
def setJob (s : StS) (r : Nat) (j : JobSt) : StS := { s with jobs := upd s.jobs r j }
def finish (s : StS) (t : Nat) (o : Out) : StS := setLoc s t { s.loc t with pc := fin, out := o }
def goto (s : StS) (t : Nat) (pc : Nat) : StS := setLoc s t { s.loc t with pc := pc }

def jobOf (s : StS) (k : Nat) : Option (Option Nat) :=
  if (s.loc k).pc = fin then
    match (s.loc k).out with
    | .job r => some (some r)
    | _ => some none
  else none

/-- Task: pc0 = newJobID (RLock region) when n.Job = 0; pc1 = Lock { dup check; s.write; insert } Unlock. -/
def taskS (s : StS) (t : Nat) (id : Nat) (draws : List Nat) (wf : Bool) : StS :=
  let l := s.loc t
  match l.pc with
  | 0 =>
    if id = 0 then
      if s.lock ≠ none then s else
      let i := newJobID s.table draws
      if i = 0 then finish s t .errNoId else setLoc s t { l with pc := 1, n := i }
    else setLoc s t { l with pc := 1, n := id }
  | 1 =>
    if s.lock ≠ none then s else
    match s.table l.n with
    | some _ => finish s t .errDup
    | none =>
      if wf then finish s t .errWrite else
      let r := s.nJobs
      finish { s with jobs := upd s.jobs r { id := l.n }, nJobs := r + 1,
                      table := upd s.table l.n (some r), count := s.count + 1,
                      pub := s.pub ++ [l.n] } t (.job r)
  | _ => s

/-- handle: pc0 guards (unlocked `len(s.jobs)`); pc1 Lock { lookup; delete } Unlock; pc2 Result, Complete,
Status = p, now, Completed; pc3 Status = Error; pc4 ReadString(&j.Error); pc5 load j.done; pc6 close;
pc7 j.done = nil. -/
def resultS (s : StS) (t : Nat) (id : Nat) (ef : Bool) (tag : Nat) : StS :=
  let l := s.loc t
  match l.pc with
  | 0 => if id < handleMin ∨ s.count = 0 then finish s t .ignored else goto s t 1
  | 1 =>
    if s.lock ≠ none then s else
    match s.table id with
    | none => finish s t .ignored
    | some r =>
      setLoc { s with table := upd s.table id none, count := s.count - 1,
                      jobs := upd s.jobs r { s.jobs r with owner := some t } }
        t { l with pc := 2, ref := some r }
  | 2 =>
    match l.ref with
    | none => s
    | some r =>
      goto (setJob s r { s.jobs r with result := some tag, status := stCompleted }) t (if ef then 3 else 5)
  | 3 =>
    match l.ref with
    | none => s
    | some r => goto (setJob s r { s.jobs r with status := stError }) t 4
  | 4 =>
    match l.ref with
    | none => s
    | some r => goto (setJob s r { s.jobs r with err := true }) t 5
  | 5 =>
    match l.ref with
    | none => s
    | some r => if (s.jobs r).doneNil then finish s t .handled else goto s t 6
  | 6 =>
    match l.ref with
    | none => s
    | some r =>
      match closeDone (s.jobs r) (evOf ef) with
      | .error o => finish s t o
      | .ok j => goto (setJob s r j) t 7
  | 7 =>
    match l.ref with
    | none => s
    | some r => finish (setJob s r { s.jobs r with doneNil := true }) t .handled
  | _ => s

/-- one write of Cancel's locked region on Job object `r` by thread `t` -/
def applyC (s : StS) (t r : Nat) : CAct → Except Out StS
  | .mapNil => .ok s
  | .delete => .ok { s with table := upd s.table (s.jobs r).id none, count := s.count - 1,
                            jobs := upd s.jobs r { s.jobs r with owner := some t } }
  | .status => .ok (setJob s r { s.jobs r with status := stCanceled })
  | .close =>
    match closeDone (s.jobs r) .canceled with
    | .error o => .error o
    | .ok j => .ok (setJob s r j)
  | .doneNil => .ok (setJob s r { s.jobs r with doneNil := true })
  | .statusDoneNil => .ok (setJob s r { s.jobs r with status := stCanceled, doneNil := true })

/-- Cancel: pc0 load j.done (unlocked); pc1 Lock + `v, ok := jobs[j.ID]; !ok || v != j` (→ Unlock,
return); pc 2+i = the i-th write of `acts` (the thread holds the lock); the last write also unlocks.
A panic inside the region leaves the lock held for ever. -/
def cancelS (acts : List CAct) (s : StS) (t : Nat) (k : Nat) : StS :=
  let l := s.loc t
  match jobOf s k with
  | none => s
  | some none => if l.pc = 0 then finish s t .ret else s
  | some (some r) =>
    match l.pc with
    | 0 => if (s.jobs r).doneNil then finish s t .ret else goto s t 1
    | 1 =>
      if s.lock ≠ none then s else
      if s.table (s.jobs r).id = some r then goto { s with lock := some t } t 2
      else finish s t .ret
    | pc + 2 =>
      match acts[pc]? with
      | none => s
      | some a =>
        match applyC s t r a with
        | .error o => finish s t o
        | .ok s' => if pc + 1 = acts.length then finish { s' with lock := none } t .ret else goto s' t (pc + 3)

/-- accept: pc0 guards; pc1 Lock { lookup; if ok { Status = Accepted } } Unlock. -/
def acceptS (s : StS) (t : Nat) (id : Nat) : StS :=
  let l := s.loc t
  match l.pc with
  | 0 => if id < acceptMin ∨ s.count = 0 then finish s t .ret else goto s t 1
  | 1 =>
    if s.lock ≠ none then s else
    match s.table id with
    | none => finish s t .ret
    | some r => finish (setJob s r { s.jobs r with status := stAccepted }) t .ret
  | _ => s

/-- frag: pc0 guards; pc1 Lock, lookup (!ok → Unlock, return), `if j.Frags == 0 { j.Status = Receiving }`;
pc2 `j.Frags, j.Current = max, cur`, Unlock. -/
def fragS (s : StS) (t : Nat) (id mx cur : Nat) : StS :=
  let l := s.loc t
  match l.pc with
  | 0 => if id < fragMin ∨ s.count = 0 then finish s t .ret else goto s t 1
  | 1 =>
    if s.lock ≠ none then s else
    match s.table id with
    | none => finish s t .ret
    | some r =>
      let j := s.jobs r
      setLoc { setJob s r { j with status := if j.frags = 0 then stReceiving else j.status } with lock := some t }
        t { l with pc := 2, ref := some r }
  | 2 =>
    match l.ref with
    | none => s
    | some r => finish { setJob s r { s.jobs r with frags := mx, current := cur } with lock := none } t .ret
  | _ => s

/-- the three reads after the reader knows the Job is done: pc `b` Status, `b+1` Result, `b+2` Error -/
def readsS (s : StS) (t r : Nat) (o : Out) (i : Nat) : StS :=
  let l := s.loc t
  match i with
  | 0 => setLoc s t { l with pc := l.pc + 1, oSt := some (s.jobs r).status }
  | 1 => setLoc s t { l with pc := l.pc + 1, oRes := some (s.jobs r).result }
  | 2 => setLoc s t { l with pc := fin, out := o, oErr := some (s.jobs r).err }
  | _ => s

/-- `j.Wait(); st := j.Status; res := j.Result; e := len(j.Error) > 0` -/
def waitRdS (s : StS) (t : Nat) (k : Nat) : StS :=
  let l := s.loc t
  match jobOf s k with
  | none => s
  | some none => if l.pc = 0 then finish s t .ret else s
  | some (some r) =>
    match l.pc with
    | 0 => if (s.jobs r).doneNil then goto s t 2 else goto s t 1     -- d := j.done; d == nil → return
    | 1 => if (s.jobs r).closed then goto s t 2 else s              -- <-d
    | pc + 2 => readsS s t r .ret pc

/-- `if j.IsDone() { st := j.Status; res := j.Result; e := len(j.Error) > 0 }` -/
def doneRdS (s : StS) (t : Nat) (k : Nat) : StS :=
  let l := s.loc t
  match jobOf s k with
  | none => s
  | some none => if l.pc = 0 then finish s t (.bool true) else s
  | some (some r) =>
    match l.pc with
    | 0 => if (s.jobs r).doneNil then goto s t 2 else goto s t 1
    | 1 => if (s.jobs r).closed then goto s t 2 else finish s t (.bool false)   -- select { case <-d: default: }
    | pc + 2 => readsS s t r (.bool true) pc

/-- `j.IsError()`: `if j.IsDone() { return len(j.Error) > 0 }; return false` (nil receiver: false) -/
def isErrorS (s : StS) (t : Nat) (k : Nat) : StS :=
  let l := s.loc t
  match jobOf s k with
  | none => s
  | some none => if l.pc = 0 then finish s t (.bool false) else s
  | some (some r) =>
    match l.pc with
    | 0 => if (s.jobs r).doneNil then goto s t 2 else goto s t 1
    | 1 => if (s.jobs r).closed then goto s t 2 else finish s t (.bool false)
    | 2 => setLoc s t { l with pc := fin, out := .bool (s.jobs r).err, oErr := some (s.jobs r).err }
    | _ => s

def stepK (acts : List CAct) (s : StS) (t : Nat) : KindS → StS
  | .task id draws wf => taskS s t id draws wf
  | .result id ef tag => resultS s t id ef tag
  | .cancel k => cancelS acts s t k
  | .accept id => acceptS s t id
  | .frag id mx cur => fragS s t id mx cur
  | .waitRd k => waitRdS s t k
  | .doneRd k => doneRdS s t k
  | .isError k => isErrorS s t k

/-- one schedule entry: thread `t` executes its next action (no-op when finished, blocked, not yet
startable, or no such thread) -/
def stepG (acts : List CAct) (prog : List KindS) (s : StS) (t : Nat) : StS :=
  match prog[t]? with
  | none => s
  | some k => stepK acts s t k

/-- the code as repaired -/
def stepS (prog : List KindS) (s : StS) (t : Nat) : StS := stepG cancelActs prog s t
def runS (prog : List KindS) (s : StS) (sched : List Nat) : StS := sched.foldl (stepS prog) s
/-- Cancel closing before it stores the Status (the code before this round's repair) -/
def runSO (prog : List KindS) (s : StS) (sched : List Nat) : StS := sched.foldl (stepG cancelActsO prog) s

/-- yield label thread t is parked at -/
def labelS (acts : List CAct) (k : KindS) (pc : Nat) : String :=
  if pc = fin then "end" else
  match k, pc with
  | _, 0 => "start"
  | .task .., 1 => "T2"
  | .result .., 1 => "H1"
  | .result .., 2 => "H2"
  | .result .., 3 => "H2e"
  | .result .., 4 => "H2f"
  | .result .., 5 => "H3"
  | .result .., 6 => "H4"
  | .result .., 7 => "H5"
  | .cancel _, 1 => "C2"
  | .cancel _, pc + 2 => match acts[pc]? with | some a => a.label | none => "?"
  | .accept _, 1 => "AF1"
  | .frag .., 1 => "AF1"
  | .frag .., 2 => "F3"
  | .waitRd _, 1 => "W2"
  | .waitRd _, 2 => "R1"
  | .waitRd _, 3 => "R2"
  | .waitRd _, 4 => "R3"
  | .doneRd _, 1 => "I2"
  | .doneRd _, 2 => "R1"
  | .doneRd _, 3 => "R2"
  | .doneRd _, 4 => "R3"
  | .isError _, 1 => "I2"
  | .isError _, 2 => "R3"
  | _, _ => "?"

end XMT.JobSub
