/-
  XMT.JobSubCount — `count` = number of keys of the pending table in every state of the sub-step
  model (also between the single writes of Cancel's locked region, where `delete` changes both at once).
-/
import XMT.JobCount
import XMT.JobSubInv
namespace XMT.JobSub
open XMT XMT.Job

theorem tabStep_cancelS (prog : List KindS) (s : StS) (t k : Nat) (hk : prog[t]? = some (.cancel k))
    (h : InvS prog s) :
    TabStep s.table s.count (cancelS cancelActs s t k).table (cancelS cancelActs s t k).count := by
  have hC := h.can t k hk
  unfold cancelS
  dsimp only
  split
  · ts_same
  · split <;> ts_same
  · rename_i r e
    split
    · split <;> ts_same
    · repeat' split
      all_goals ts_same
    · rename_i pc hpc
      split
      · ts_same
      · rename_i a ha
        rcases pc with _ | _ | _ | _ | _ | pc <;> simp [cancelActs] at ha
        · subst ha; simp only [applyC]; split <;> ts_same
        · subst ha
          obtain ⟨_, r', hj, _, hA, _⟩ := hC (by omega) (by omega)
          rw [e] at hj; cases hj
          have hin := hA (by omega)
          simp only [applyC]
          split <;> exact Or.inr (Or.inr ⟨_, _, hin, rfl, rfl⟩)
        · subst ha; simp only [applyC]; split <;> ts_same
        · subst ha
          cases hcd : closeDone (s.jobs r) .canceled with
          | error o => simp only [applyC, hcd]; ts_same
          | ok j => simp only [applyC, hcd]; split <;> ts_same
        · subst ha; simp only [applyC]; split <;> ts_same

theorem tabStep_stepS (prog : List KindS) (s : StS) (t : Nat) (h : InvS prog s) :
    TabStep s.table s.count (stepS prog s t).table (stepS prog s t).count := by
  unfold stepS stepG
  split
  · ts_same
  · rename_i k hk
    cases k with
    | task id draws wf =>
      simp only [stepK, taskS]
      repeat' split
      all_goals first
        | ts_same
        | (rename_i hn _; exact Or.inr (Or.inl ⟨_, _, hn, rfl, rfl⟩))
    | result id ef tag =>
      simp only [stepK, resultS]
      repeat' split
      all_goals first
        | ts_same
        | (rename_i hn; exact Or.inr (Or.inr ⟨_, _, hn, rfl, rfl⟩))
    | cancel k => exact tabStep_cancelS prog s t k hk h
    | accept id =>
      simp only [stepK, acceptS]
      repeat' split
      all_goals ts_same
    | frag id mx cur =>
      simp only [stepK, fragS]
      repeat' split
      all_goals ts_same
    | waitRd k =>
      simp only [stepK, waitRdS, readsS]
      repeat' split
      all_goals ts_same
    | doneRd k =>
      simp only [stepK, doneRdS, readsS]
      repeat' split
      all_goals ts_same
    | isError k =>
      simp only [stepK, isErrorS]
      repeat' split
      all_goals ts_same

end XMT.JobSub
