/-
  XMT.JobSubGood — every single action of the sub-step model preserves `InvS`; induction on the schedule.
-/
import XMT.JobSubInvA
import XMT.JobSubInvB
import XMT.JobSubInvC
import XMT.JobSubCount
namespace XMT.JobSub
open XMT XMT.Job

theorem good_stepS (prog : List KindS) (s : StS) (t : Nat) (h : InvS prog s) : GoodS prog s (stepS prog s t) := by
  unfold stepS stepG
  split
  · exact goodS_refl h
  · rename_i k hk
    cases k with
    | task id draws wf => exact invS_taskS prog s t id draws wf hk h
    | result id ef tag => exact invS_resultS prog s t id ef tag hk h
    | cancel k => exact invS_cancelS prog s t k hk h
    | accept id => exact invS_acceptS prog s t id hk h
    | frag id mx cur => exact invS_fragS prog s t id mx cur hk h
    | waitRd k => exact invS_waitRdS prog s t k hk h
    | doneRd k => exact invS_doneRdS prog s t k hk h
    | isError k => exact invS_isErrorS prog s t k hk h

theorem good_runS (prog : List KindS) (sched : List Nat) (s : StS) (h : InvS prog s) :
    GoodS prog s (runS prog s sched) := by
  induction sched generalizing s with
  | nil => exact goodS_refl h
  | cons t ts ih =>
    have g := good_stepS prog s t h
    have g2 := ih _ g.1
    exact ⟨g2.1, monoS_trans g.2 g2.2⟩

theorem inv_runS (prog : List KindS) (sched : List Nat) (s : StS) (h : InvS prog s) :
    InvS prog (runS prog s sched) := (good_runS prog sched s h).1

theorem runS_append (prog : List KindS) (s : StS) (a b : List Nat) :
    runS prog s (a ++ b) = runS prog (runS prog s a) b := by
  simp [runS, List.foldl_append]

/-- `count` is the number of keys of the table in every state of the sub-step model -/
theorem countIs_runS (prog : List KindS) (sched : List Nat) (s : StS) (h : InvS prog s)
    (hc : CountIs s.table s.count) : CountIs (runS prog s sched).table (runS prog s sched).count := by
  induction sched generalizing s with
  | nil => exact hc
  | cons t ts ih => exact ih _ (good_stepS prog s t h).1 (countIs_tabStep hc (tabStep_stepS prog s t h))

end XMT.JobSub
