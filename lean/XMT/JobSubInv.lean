/-
  XMT.JobSubInv — invariant of the sub-step model XMT/JobSub.lean (repaired write order `cancelActs`)
  and its preservation by every single action of every thread, readers included.
-/
import XMT.JobSub
import XMT.JobInv
namespace XMT.JobSub
open XMT XMT.Job
set_option linter.unusedSimpArgs false
set_option linter.unusedVariables false

/-- Consistency of one Job object with its ghost fields, in EVERY state between two single writes:
an open channel means nothing was released and the field is not nil; a closed channel carries the
Status of the event that closed it, and the Result / Error belonging to that event. -/
def JobOKS (j : JobSt) : Prop :=
  (j.closed = false → j.closes = 0 ∧ j.first = none ∧ j.doneNil = false) ∧
  (j.closed = true → j.closes = 1 ∧ ∃ e, j.first = some e ∧ j.status = e.status ∧
    (e = .canceled → j.result = none ∧ j.err = false) ∧
    (e = .error → j.result ≠ none ∧ j.err = true) ∧
    (e = .completed → j.result ≠ none ∧ j.err = false))

/-- handle-thread `t` between its locked removal (pc 2) and its last store (pc 7) -/
def OwnsS (j : JobSt) (t pc id : Nat) (ef : Bool) (tag : Nat) : Prop :=
  j.owner = some t ∧ j.id = id ∧
  (pc ≤ 6 → j.closed = false ∧ j.doneNil = false) ∧
  (pc = 2 → j.result = none ∧ j.err = false) ∧
  (3 ≤ pc → j.result = some tag) ∧
  (pc = 3 ∨ pc = 4 → ef = true ∧ j.err = false) ∧
  (pc = 4 → j.status = stError) ∧
  (pc = 5 ∨ pc = 6 → j.status = (evOf ef).status ∧ j.err = ef) ∧
  (pc = 7 → j.closed = true)

def TabOKS (s : StS) (i r : Nat) : Prop :=
  r < s.nJobs ∧ (s.jobs r).id = i ∧ (s.jobs r).closed = false ∧ (s.jobs r).doneNil = false ∧
  (s.jobs r).owner = none ∧ (s.jobs r).result = none ∧ (s.jobs r).err = false

def OwnOKS (s : StS) (t id : Nat) (ef : Bool) (tag : Nat) (l : LocS) : Prop :=
  2 ≤ l.pc → l.pc ≤ 7 → l.ref ≠ none ∧ ∀ r, l.ref = some r → r < s.nJobs ∧ OwnsS (s.jobs r) t l.pc id ef tag

/-- Cancel thread `t` inside its locked region (pc 2 … 6 = next write mapNil, delete, status, close,
doneNil): it holds the lock; before the delete its Job is still in the table, afterwards it owns it. -/
def CanOKS (s : StS) (t k : Nat) (l : LocS) : Prop :=
  2 ≤ l.pc → l.pc ≤ 6 → s.lock = some t ∧ ∃ r, jobOf s k = some (some r) ∧ r < s.nJobs ∧
    (l.pc ≤ 3 → s.table (s.jobs r).id = some r) ∧
    (4 ≤ l.pc → (s.jobs r).owner = some t ∧ (s.jobs r).result = none ∧ (s.jobs r).err = false ∧
      (l.pc ≤ 5 → (s.jobs r).closed = false ∧ (s.jobs r).doneNil = false) ∧
      (l.pc = 5 → (s.jobs r).status = stCanceled) ∧
      (l.pc = 6 → (s.jobs r).closed = true))

/-- frag thread between its two writes -/
def FrgOKS (s : StS) (t id : Nat) (l : LocS) : Prop :=
  l.pc = 2 → s.lock = some t ∧ ∃ r, l.ref = some r ∧ s.table id = some r

/-- the lock is only ever held by a Cancel or frag thread that is inside its region (in particular
never by a thread that has returned or died) -/
def HolderS (prog : List KindS) (s : StS) (t : Nat) : Prop :=
  (∃ k, prog[t]? = some (.cancel k) ∧ 2 ≤ (s.loc t).pc ∧ (s.loc t).pc ≤ 6) ∨
  (∃ id mx cur, prog[t]? = some (.frag id mx cur) ∧ (s.loc t).pc = 2)

/-- a reader that is past its done-test (Wait returned / IsDone said true) reads a finished Job, and
whatever it has read so far is what the Job holds (and will hold: a finished Job is frozen). -/
def RdOKS (s : StS) (k : Nat) (l : LocS) : Prop :=
  (jobOf s k = none → l.pc = 0 ∧ l.oSt = none ∧ l.oRes = none ∧ l.oErr = none) ∧
  ∀ r, jobOf s k = some (some r) →
    (2 ≤ l.pc → l.pc ≤ 4 → (s.jobs r).closed = true) ∧
    (∀ v, l.oSt = some v → (s.jobs r).closed = true ∧ v = (s.jobs r).status) ∧
    (∀ v, l.oRes = some v → (s.jobs r).closed = true ∧ v = (s.jobs r).result) ∧
    (∀ v, l.oErr = some v → (s.jobs r).closed = true ∧ v = (s.jobs r).err)

def isReader (prog : List KindS) (t k : Nat) : Prop :=
  prog[t]? = some (.waitRd k) ∨ prog[t]? = some (.doneRd k) ∨ prog[t]? = some (.isError k)

structure InvS (prog : List KindS) (s : StS) : Prop where
  lockOK : ∀ t, s.lock = some t → HolderS prog s t
  noPanic : ∀ t, (s.loc t).out ≠ .panicClosed ∧ (s.loc t).out ≠ .panicNil
  tab : ∀ i r, s.table i = some r → TabOKS s i r
  jobs : ∀ r, r < s.nJobs → JobOKS (s.jobs r)
  outJob : ∀ t r, (s.loc t).out = .job r → r < s.nJobs
  own : ∀ t id ef tag, prog[t]? = some (.result id ef tag) → OwnOKS s t id ef tag (s.loc t)
  can : ∀ t k, prog[t]? = some (.cancel k) → CanOKS s t k (s.loc t)
  frg : ∀ t id mx cur, prog[t]? = some (.frag id mx cur) → FrgOKS s t id (s.loc t)
  rd : ∀ t k, isReader prog t k → RdOKS s k (s.loc t)
  res : ∀ r g, r < s.nJobs → (s.jobs r).result = some g →
    ∃ t ef, (s.jobs r).owner = some t ∧ prog[t]? = some (.result (s.jobs r).id ef g)

def MonoS (s s' : StS) : Prop := s.nJobs ≤ s'.nJobs ∧ ∀ r, r < s.nJobs → JobLe (s.jobs r) (s'.jobs r)
def GoodS (prog : List KindS) (s s' : StS) : Prop := InvS prog s' ∧ MonoS s s'

theorem monoS_refl (s : StS) : MonoS s s := ⟨Nat.le_refl _, fun r _ => jobLe_refl _⟩
theorem monoS_trans {a b c : StS} (h1 : MonoS a b) (h2 : MonoS b c) : MonoS a c :=
  ⟨Nat.le_trans h1.1 h2.1, fun r hr => jobLe_trans (h1.2 r hr) (h2.2 r (Nat.lt_of_lt_of_le hr h1.1))⟩
theorem goodS_refl {prog : List KindS} {s : StS} (h : InvS prog s) : GoodS prog s s := ⟨h, monoS_refl s⟩

theorem invS_init (prog : List KindS) : InvS prog {} := by
  constructor <;> simp [OwnOKS, CanOKS, FrgOKS, RdOKS, jobOf, fin]

theorem jobOf_congr {s s' : StS} {k : Nat} (h : s'.loc k = s.loc k) : jobOf s' k = jobOf s k := by
  simp [jobOf, h]

theorem jobOf_job {s : StS} {k r : Nat} (h : jobOf s k = some (some r)) : (s.loc k).out = .job r := by
  unfold jobOf at h
  split at h
  · split at h
    · rename_i r' ho; simp at h; subst h; exact ho
    · simp at h
  · cases h

theorem jobOf_fin {s : StS} {k : Nat} {x : Option Nat} (h : jobOf s k = some x) : (s.loc k).pc = fin := by
  unfold jobOf at h
  split at h
  · assumption
  · cases h

/-- Frame lemma: a step of thread `t` (not finished) preserves the invariant if it leaves the other
threads' locals alone, leaves the lock and the table alone while another thread holds the lock,
leaves Jobs owned by other threads alone, moves every Job only forward (`JobLe`), and re-establishes
the conditions that concern `t` itself and the table. -/
theorem invS_frame {prog : List KindS} {s s' : StS} (t : Nat) (h : InvS prog s)
    (h0 : (s.loc t).pc ≠ fin)
    (h1 : (s'.lock = s.lock ∧ s'.table = s.table) ∨ ((s.lock = none ∨ s.lock = some t) ∧ (s'.lock = none ∨ s'.lock = some t)))
    (h1b : ∀ t', s'.lock = some t' → t' = t → HolderS prog s' t)
    (h2 : ∀ t', t' ≠ t → s'.loc t' = s.loc t')
    (h3 : (s'.loc t).out ≠ .panicClosed ∧ (s'.loc t).out ≠ .panicNil ∧ ∀ r, (s'.loc t).out = .job r → r < s'.nJobs)
    (h4 : s.nJobs ≤ s'.nJobs)
    (h5 : ∀ r, r < s'.nJobs → JobOKS (s'.jobs r))
    (h6 : ∀ i r, s'.table i = some r → TabOKS s' i r)
    (h7 : ∀ r t', r < s.nJobs → (s.jobs r).owner = some t' → t' ≠ t → s'.jobs r = s.jobs r)
    (h8 : ∀ id ef tag, prog[t]? = some (.result id ef tag) → OwnOKS s' t id ef tag (s'.loc t))
    (h8c : ∀ k, prog[t]? = some (.cancel k) → CanOKS s' t k (s'.loc t))
    (h8f : ∀ id mx cur, prog[t]? = some (.frag id mx cur) → FrgOKS s' t id (s'.loc t))
    (h8r : ∀ k, isReader prog t k → RdOKS s' k (s'.loc t))
    (h9 : ∀ r, r < s.nJobs → JobLe (s.jobs r) (s'.jobs r))
    (h10 : ∀ r g, r < s'.nJobs → (s'.jobs r).result = some g →
      ∃ t ef, (s'.jobs r).owner = some t ∧ prog[t]? = some (.result (s'.jobs r).id ef g)) :
    GoodS prog s s' := by
  have hjo : ∀ k x, jobOf s k = some x → jobOf s' k = some x := by
    intro k x hx
    have hf := jobOf_fin hx
    have : k ≠ t := by intro e; subst e; exact h0 hf
    rw [jobOf_congr (h2 k this)]; exact hx
  have hjo' : ∀ k x, k ≠ t → jobOf s' k = some x → jobOf s k = some x := by
    intro k x hk hx
    rw [jobOf_congr (h2 k hk)] at hx; exact hx
  -- while another thread holds the lock, lock and table are unchanged
  have hlk : ∀ t', t' ≠ t → s.lock = some t' → s'.lock = some t' ∧ s'.table = s.table := by
    intro t' ne hl
    rcases h1 with ⟨a, b⟩ | ⟨a, _⟩
    · exact ⟨a ▸ hl, b⟩
    · rcases a with a | a
      · rw [a] at hl; cases hl
      · rw [a] at hl; cases hl; exact absurd rfl ne
  refine ⟨⟨?_, ?_, h6, h5, ?_, ?_, ?_, ?_, ?_, h10⟩, h4, h9⟩
  · -- lockOK
    intro t' hl
    by_cases e : t' = t
    · exact e ▸ h1b t' hl e
    · have hl0 : s.lock = some t' := by
        rcases h1 with ⟨a, _⟩ | ⟨_, b⟩
        · rw [← a]; exact hl
        · rcases b with b | b
          · rw [b] at hl; cases hl
          · rw [b] at hl; cases hl; exact absurd rfl e
      have := h.lockOK t' hl0
      unfold HolderS at *
      rw [h2 t' e]; exact this
  · intro t'
    by_cases e : t' = t
    · subst e; exact ⟨h3.1, h3.2.1⟩
    · rw [h2 t' e]; exact h.noPanic t'
  · intro t' r
    by_cases e : t' = t
    · subst e; exact h3.2.2 r
    · rw [h2 t' e]; intro hh; exact Nat.lt_of_lt_of_le (h.outJob t' r hh) h4
  · intro t' id ef tag hk
    by_cases e : t' = t
    · subst e; exact h8 id ef tag hk
    · rw [h2 t' e]
      intro ha hb
      obtain ⟨hn, hr⟩ := h.own t' id ef tag hk ha hb
      refine ⟨hn, ?_⟩
      intro r hrr
      obtain ⟨hlt, ho⟩ := hr r hrr
      rw [h7 r t' hlt ho.1 e]
      exact ⟨Nat.lt_of_lt_of_le hlt h4, ho⟩
  · intro t' k hk
    by_cases e : t' = t
    · subst e; exact h8c k hk
    · rw [h2 t' e]
      intro ha hb
      obtain ⟨hl, r, hj, hlt, hA, hB⟩ := h.can t' k hk ha hb
      obtain ⟨hl', htab⟩ := hlk t' e hl
      refine ⟨hl', r, hjo k _ hj, Nat.lt_of_lt_of_le hlt h4, ?_, ?_⟩
      · intro h3'
        have := hA h3'
        rw [htab, ← (h9 r hlt).1]; exact this
      · intro h4'
        have hB' := hB h4'
        rw [h7 r t' hlt hB'.1 e]; exact hB'
  · intro t' id mx cur hk
    by_cases e : t' = t
    · subst e; exact h8f id mx cur hk
    · rw [h2 t' e]
      intro ha
      obtain ⟨hl, r, hr, ht⟩ := h.frg t' id mx cur hk ha
      obtain ⟨hl', htab⟩ := hlk t' e hl
      exact ⟨hl', r, hr, htab ▸ ht⟩
  · intro t' k hk
    by_cases e : t' = t
    · subst e; exact h8r k hk
    · rw [h2 t' e]
      have old := h.rd t' k hk
      have hnt : jobOf s t = none := by simp [jobOf, h0]
      constructor
      · intro hn
        apply old.1
        by_cases ek : k = t
        · subst ek; exact hnt
        · rw [← jobOf_congr (h2 k ek)]; exact hn
      · intro r hj
        by_cases ek : k = t
        · subst ek
          obtain ⟨p0, p1, p2, p3⟩ := old.1 hnt
          simp [p0, p1, p2, p3]
        · have hj0 := hjo' k _ ek hj
          obtain ⟨q1, q2, q3, q4⟩ := old.2 r hj0
          have hlt : r < s.nJobs := h.outJob k r (jobOf_job hj0)
          obtain ⟨_, _, c3, _, c5⟩ := h9 r hlt
          refine ⟨fun a b => c3 (q1 a b), ?_, ?_, ?_⟩
          · intro v hv
            obtain ⟨a, b⟩ := q2 v hv
            exact ⟨c3 a, by rw [(c5 a).1]; exact b⟩
          · intro v hv
            obtain ⟨a, b⟩ := q3 v hv
            exact ⟨c3 a, by rw [(c5 a).2.1]; exact b⟩
          · intro v hv
            obtain ⟨a, b⟩ := q4 v hv
            exact ⟨c3 a, by rw [(c5 a).2.2]; exact b⟩

attribute [grind =] upd_apply

/-- discharge the side conditions of `invS_frame` -/
macro "fs_auto" : tactic =>
  `(tactic| (all_goals (simp only [finish, goto, setLoc, setJob, JobOKS, OwnsS, OwnOKS, TabOKS, CanOKS, FrgOKS, RdOKS, HolderS, isReader, JobLe, fin, upd_same, evOf, Ev.status, Bool.false_eq_true, if_false, if_true] at *) <;> (first | (intro r0 hr0; simp only [upd_apply]; split <;> grind) | grind)))

theorem jobOf_lt {prog : List KindS} {s : StS} {k r : Nat} (h : InvS prog s) (e : jobOf s k = some (some r)) :
    r < s.nJobs := h.outJob k r (jobOf_job e)

end XMT.JobSub
