/-
  XMT.JobSubInvA — preservation of `InvS` by Task and by handle (every single action).
-/
import XMT.JobSubInv
namespace XMT.JobSub
open XMT XMT.Job
set_option linter.unusedSimpArgs false
set_option linter.unusedVariables false

set_option maxHeartbeats 1600000 in
theorem invS_taskS (prog : List KindS) (s : StS) (t id : Nat) (draws : List Nat) (wf : Bool)
    (hk : prog[t]? = some (.task id draws wf)) (h : InvS prog s) : GoodS prog s (taskS s t id draws wf) := by
  have hT := h.tab
  have hJ := h.jobs
  have hR := h.res
  have hLk := h.lockOK
  simp only [TabOKS, JobOKS] at hT hJ
  have hP := h.noPanic t
  have hO := h.outJob t
  have hpc : (s.loc t).pc = 0 ∨ (s.loc t).pc = 1 ∨ 2 ≤ (s.loc t).pc := by omega
  rcases hpc with h0 | h0 | h0
  · simp only [taskS, h0]
    split
    · split
      · exact goodS_refl h
      · split
        · apply invS_frame t h
          fs_auto
        · apply invS_frame t h
          fs_auto
    · apply invS_frame t h
      fs_auto
  · simp only [taskS, h0]
    split
    · exact goodS_refl h
    · split
      · apply invS_frame t h
        fs_auto
      · split
        · apply invS_frame t h
          fs_auto
        · apply invS_frame t h
          fs_auto
  · have : taskS s t id draws wf = s := by
      unfold taskS
      dsimp only
      split <;> first | (exfalso; omega) | rfl
    rw [this]; exact goodS_refl h

theorem invS_resultS_own (prog : List KindS) (s : StS) (t id : Nat) (ef : Bool) (tag : Nat)
    (hk : prog[t]? = some (.result id ef tag)) (h : InvS prog s) (h0 : 2 ≤ (s.loc t).pc ∧ (s.loc t).pc ≤ 7) :
    ∃ r, (s.loc t).ref = some r ∧ r < s.nJobs ∧ OwnsS (s.jobs r) t (s.loc t).pc id ef tag ∧ JobOKS (s.jobs r) := by
  obtain ⟨hn, hr⟩ := h.own t id ef tag hk h0.1 h0.2
  cases e : (s.loc t).ref with
  | none => exact absurd e hn
  | some r => exact ⟨r, rfl, (hr r e).1, (hr r e).2, h.jobs r (hr r e).1⟩

set_option maxHeartbeats 1600000 in
theorem invS_resultS_01 (prog : List KindS) (s : StS) (t id : Nat) (ef : Bool) (tag : Nat)
    (hk : prog[t]? = some (.result id ef tag)) (h : InvS prog s) (h0 : (s.loc t).pc = 0 ∨ (s.loc t).pc = 1) :
    GoodS prog s (resultS s t id ef tag) := by
  have hT := h.tab
  have hJ := h.jobs
  have hR := h.res
  have hLk := h.lockOK
  simp only [TabOKS, JobOKS] at hT hJ
  have hP := h.noPanic t
  have hO := h.outJob t
  rcases h0 with h0 | h0
  · simp only [resultS, h0]
    split
    · apply invS_frame t h
      fs_auto
    · apply invS_frame t h
      fs_auto
  · simp only [resultS, h0]
    split
    · exact goodS_refl h
    · split
      · apply invS_frame t h
        fs_auto
      · rename_i r hr
        obtain ⟨h1, h2, h3, h4, h5⟩ := hT id r hr
        apply invS_frame t h
        fs_auto

set_option maxHeartbeats 1600000 in
theorem invS_resultS_n (prog : List KindS) (s : StS) (t id : Nat) (ef : Bool) (tag : Nat)
    (hk : prog[t]? = some (.result id ef tag)) (h : InvS prog s)
    (h0 : (s.loc t).pc = 2 ∨ (s.loc t).pc = 3 ∨ (s.loc t).pc = 4 ∨ (s.loc t).pc = 5 ∨ (s.loc t).pc = 6 ∨ (s.loc t).pc = 7) :
    GoodS prog s (resultS s t id ef tag) := by
  obtain ⟨r, e, g1, g2, g3⟩ := invS_resultS_own prog s t id ef tag hk h (by omega)
  have hT := h.tab
  have hJ := h.jobs
  have hR := h.res
  have hLk := h.lockOK
  simp only [TabOKS, JobOKS] at hT hJ
  have hP := h.noPanic t
  have hO := h.outJob t
  have g3' := g2.2.2.1
  rcases h0 with h0 | h0 | h0 | h0 | h0 | h0
  · simp only [resultS, h0, e]
    apply invS_frame t h
    all_goals cases ef
    fs_auto
  · simp only [resultS, h0, e]
    apply invS_frame t h
    all_goals cases ef
    fs_auto
  · simp only [resultS, h0, e]
    apply invS_frame t h
    all_goals cases ef
    fs_auto
  · have g4 := g3' (by omega)
    simp only [resultS, h0, e, g4.2, Bool.false_eq_true, if_false]
    apply invS_frame t h
    all_goals cases ef
    fs_auto
  · have g4 := g3' (by omega)
    simp only [resultS, h0, e, closeDone, g4.1, g4.2, Bool.false_eq_true, if_false]
    apply invS_frame t h
    all_goals cases ef
    fs_auto
  · simp only [resultS, h0, e]
    apply invS_frame t h
    all_goals cases ef
    fs_auto

theorem invS_resultS (prog : List KindS) (s : StS) (t id : Nat) (ef : Bool) (tag : Nat)
    (hk : prog[t]? = some (.result id ef tag)) (h : InvS prog s) : GoodS prog s (resultS s t id ef tag) := by
  have hpc : (s.loc t).pc = 0 ∨ (s.loc t).pc = 1 ∨ (s.loc t).pc = 2 ∨ (s.loc t).pc = 3 ∨ (s.loc t).pc = 4 ∨
      (s.loc t).pc = 5 ∨ (s.loc t).pc = 6 ∨ (s.loc t).pc = 7 ∨ 8 ≤ (s.loc t).pc := by omega
  rcases hpc with h0 | h0 | h0 | h0 | h0 | h0 | h0 | h0 | h0
  · exact invS_resultS_01 prog s t id ef tag hk h (Or.inl h0)
  · exact invS_resultS_01 prog s t id ef tag hk h (Or.inr h0)
  · exact invS_resultS_n prog s t id ef tag hk h (by omega)
  · exact invS_resultS_n prog s t id ef tag hk h (by omega)
  · exact invS_resultS_n prog s t id ef tag hk h (by omega)
  · exact invS_resultS_n prog s t id ef tag hk h (by omega)
  · exact invS_resultS_n prog s t id ef tag hk h (by omega)
  · exact invS_resultS_n prog s t id ef tag hk h (by omega)
  · have : resultS s t id ef tag = s := by
      unfold resultS
      dsimp only
      split <;> first | (exfalso; omega) | rfl
    rw [this]; exact goodS_refl h

end XMT.JobSub
