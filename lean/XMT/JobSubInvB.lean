/-
  XMT.JobSubInvB — preservation of `InvS` by Cancel (every single write of its locked region),
  accept and frag.
-/
import XMT.JobSubInv
namespace XMT.JobSub
open XMT XMT.Job
set_option linter.unusedSimpArgs false
set_option linter.unusedVariables false

set_option maxHeartbeats 1600000 in
theorem invS_acceptS (prog : List KindS) (s : StS) (t id : Nat)
    (hk : prog[t]? = some (.accept id)) (h : InvS prog s) : GoodS prog s (acceptS s t id) := by
  have hT := h.tab
  have hJ := h.jobs
  have hR := h.res
  have hLk := h.lockOK
  simp only [TabOKS, JobOKS] at hT hJ
  have hP := h.noPanic t
  have hO := h.outJob t
  have hpc : (s.loc t).pc = 0 ∨ (s.loc t).pc = 1 ∨ 2 ≤ (s.loc t).pc := by omega
  rcases hpc with h0 | h0 | h0
  · simp only [acceptS, h0]
    split
    · apply invS_frame t h
      fs_auto
    · apply invS_frame t h
      fs_auto
  · simp only [acceptS, h0]
    split
    · exact goodS_refl h
    · split
      · apply invS_frame t h
        fs_auto
      · rename_i r hin
        obtain ⟨h1, h2, h3, h4, h5⟩ := hT _ _ hin
        apply invS_frame t h
        fs_auto
  · have : acceptS s t id = s := by
      unfold acceptS
      dsimp only
      split <;> first | (exfalso; omega) | rfl
    rw [this]; exact goodS_refl h

set_option maxHeartbeats 1600000 in
theorem invS_fragS (prog : List KindS) (s : StS) (t id mx cur : Nat)
    (hk : prog[t]? = some (.frag id mx cur)) (h : InvS prog s) : GoodS prog s (fragS s t id mx cur) := by
  have hT := h.tab
  have hJ := h.jobs
  have hR := h.res
  have hLk := h.lockOK
  have hF := h.frg t id mx cur hk
  simp only [TabOKS, JobOKS] at hT hJ
  have hP := h.noPanic t
  have hO := h.outJob t
  have hpc : (s.loc t).pc = 0 ∨ (s.loc t).pc = 1 ∨ (s.loc t).pc = 2 ∨ 3 ≤ (s.loc t).pc := by omega
  rcases hpc with h0 | h0 | h0 | h0
  · simp only [fragS, h0]
    split
    · apply invS_frame t h
      fs_auto
    · apply invS_frame t h
      fs_auto
  · simp only [fragS, h0]
    split
    · exact goodS_refl h
    · split
      · apply invS_frame t h
        fs_auto
      · rename_i r hin
        obtain ⟨h1, h2, h3, h4, h5⟩ := hT _ _ hin
        apply invS_frame t h
        fs_auto
  · obtain ⟨hl, r, hr, hin⟩ := hF h0
    obtain ⟨h1, h2, h3, h4, h5⟩ := hT _ _ hin
    simp only [fragS, h0, hr]
    apply invS_frame t h
    fs_auto
  · have : fragS s t id mx cur = s := by
      unfold fragS
      dsimp only
      split <;> first | (exfalso; omega) | rfl
    rw [this]; exact goodS_refl h

set_option maxHeartbeats 1600000 in
theorem invS_cancelS (prog : List KindS) (s : StS) (t k : Nat)
    (hk : prog[t]? = some (.cancel k)) (h : InvS prog s) : GoodS prog s (cancelS cancelActs s t k) := by
  have hT := h.tab
  have hJ := h.jobs
  have hR := h.res
  have hLk := h.lockOK
  have hC := h.can t k hk
  simp only [TabOKS, JobOKS] at hT hJ
  have hP := h.noPanic t
  have hO := h.outJob t
  unfold cancelS
  dsimp only
  split
  · exact goodS_refl h
  · split
    · apply invS_frame t h
      fs_auto
    · exact goodS_refl h
  · rename_i r e
    have hr := jobOf_lt h e
    have hJr := hJ r hr
    have hfin := jobOf_fin e
    simp only [fin] at hfin
    have hjk : ∀ s' : StS, s'.loc k = s.loc k → jobOf s' k = some (some r) := fun s' hs => by
      rw [jobOf_congr hs]; exact e
    have hpc : (s.loc t).pc = 0 ∨ (s.loc t).pc = 1 ∨ (s.loc t).pc = 2 ∨ (s.loc t).pc = 3 ∨ (s.loc t).pc = 4 ∨
        (s.loc t).pc = 5 ∨ (s.loc t).pc = 6 ∨ 7 ≤ (s.loc t).pc := by omega
    rcases hpc with h0 | h0 | h0 | h0 | h0 | h0 | h0 | h0
    · simp only [h0]
      split
      · apply invS_frame t h
        fs_auto
      · apply invS_frame t h
        fs_auto
    · simp only [h0]
      split
      · exact goodS_refl h
      · split
        · rename_i hin
          obtain ⟨h1, h2, h3, h4, h5⟩ := hT _ _ hin
          apply invS_frame t h
          fs_auto
        · apply invS_frame t h
          fs_auto
    · -- mapNil
      obtain ⟨hl, r', hj, hlt, hA, hB⟩ := hC (by omega) (by omega)
      rw [e] at hj; cases hj
      have hin := hA (by omega)
      obtain ⟨h1, h2, h3, h4, h5⟩ := hT _ _ hin
      simp [h0, cancelActs, applyC]
      apply invS_frame t h
      fs_auto
    · -- delete
      obtain ⟨hl, r', hj, hlt, hA, hB⟩ := hC (by omega) (by omega)
      rw [e] at hj; cases hj
      have hin := hA (by omega)
      obtain ⟨h1, h2, h3, h4, h5⟩ := hT _ _ hin
      simp [h0, cancelActs, applyC]
      apply invS_frame t h
      fs_auto
    · -- status
      obtain ⟨hl, r', hj, hlt, hA, hB⟩ := hC (by omega) (by omega)
      rw [e] at hj; cases hj
      obtain ⟨b1, b2, b3, b4, b5, b6⟩ := hB (by omega)
      have b4' := b4 (by omega)
      simp [h0, cancelActs, applyC]
      apply invS_frame t h
      fs_auto
    · -- close
      obtain ⟨hl, r', hj, hlt, hA, hB⟩ := hC (by omega) (by omega)
      rw [e] at hj; cases hj
      obtain ⟨b1, b2, b3, b4, b5, b6⟩ := hB (by omega)
      have b4' := b4 (by omega)
      have b5' := b5 h0
      simp [h0, cancelActs, applyC, closeDone, b4'.1, b4'.2]
      apply invS_frame t h
      fs_auto
    · -- doneNil, Unlock
      obtain ⟨hl, r', hj, hlt, hA, hB⟩ := hC (by omega) (by omega)
      rw [e] at hj; cases hj
      obtain ⟨b1, b2, b3, b4, b5, b6⟩ := hB (by omega)
      have b6' := b6 h0
      simp [h0, cancelActs, applyC]
      apply invS_frame t h
      fs_auto
    · have : ∃ p, (s.loc t).pc = p + 2 ∧ 5 ≤ p := ⟨(s.loc t).pc - 2, by omega, by omega⟩
      obtain ⟨p, hp, hp5⟩ := this
      have hnone : cancelActs[p]? = none := by
        apply List.getElem?_eq_none
        simp [cancelActs]; omega
      simp [hp, hnone]
      exact goodS_refl h

end XMT.JobSub
