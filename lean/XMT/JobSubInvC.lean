/-
  XMT.JobSubInvC — preservation of `InvS` by the lock-free readers (Wait / IsDone / IsError and the
  reads of Status, Result, Error that follow them), every single read.
-/
import XMT.JobSubInv
namespace XMT.JobSub
open XMT XMT.Job
set_option linter.unusedSimpArgs false
set_option linter.unusedVariables false

theorem isReader_unique {prog : List KindS} {t k k' : Nat} (h1 : isReader prog t k) (h2 : isReader prog t k') :
    k' = k := by
  unfold isReader at h1 h2
  rcases h1 with h1 | h1 | h1 <;> rcases h2 with h2 | h2 | h2 <;> (rw [h1] at h2; cases h2 <;> rfl)

set_option maxHeartbeats 1600000 in
theorem invS_waitRdS (prog : List KindS) (s : StS) (t k : Nat)
    (hk : prog[t]? = some (.waitRd k)) (h : InvS prog s) : GoodS prog s (waitRdS s t k) := by
  have hT := h.tab
  have hJ := h.jobs
  have hR := h.res
  have hLk := h.lockOK
  have hkr : isReader prog t k := Or.inl hk
  have hD := h.rd t k hkr
  simp only [TabOKS, JobOKS, RdOKS] at hT hJ hD
  have hP := h.noPanic t
  have hO := h.outJob t
  unfold waitRdS
  dsimp only
  split
  · exact goodS_refl h
  · rename_i e
    have hfin := jobOf_fin e
    simp only [fin] at hfin
    have hjk : ∀ s' : StS, s'.loc k = s.loc k → jobOf s' k = some none := fun s' hs => by
      rw [jobOf_congr hs]; exact e
    split
    · apply invS_frame t h
      case h8r => (intro k' hk'; cases isReader_unique hkr hk'; fs_auto)
      fs_auto
    · exact goodS_refl h
  · rename_i r e
    have hr := jobOf_lt h e
    have hJr := hJ r hr
    have hDr := hD.2 r e
    have hfin := jobOf_fin e
    simp only [fin] at hfin
    have hjk : ∀ s' : StS, s'.loc k = s.loc k → jobOf s' k = some (some r) := fun s' hs => by
      rw [jobOf_congr hs]; exact e
    have hpc : (s.loc t).pc = 0 ∨ (s.loc t).pc = 1 ∨ (s.loc t).pc = 2 ∨ (s.loc t).pc = 3 ∨ (s.loc t).pc = 4 ∨
        5 ≤ (s.loc t).pc := by omega
    rcases hpc with h0 | h0 | h0 | h0 | h0 | h0
    · simp only [h0]
      split
      · apply invS_frame t h
        case h8r => (intro k' hk'; cases isReader_unique hkr hk'; fs_auto)
        fs_auto
      · apply invS_frame t h
        case h8r => (intro k' hk'; cases isReader_unique hkr hk'; fs_auto)
        fs_auto
    · simp only [h0]
      split
      · apply invS_frame t h
        case h8r => (intro k' hk'; cases isReader_unique hkr hk'; fs_auto)
        fs_auto
      · exact goodS_refl h
    · simp only [h0, readsS]
      apply invS_frame t h
      case h8r => (intro k' hk'; cases isReader_unique hkr hk'; fs_auto)
      fs_auto
    · simp only [h0, readsS]
      apply invS_frame t h
      case h8r => (intro k' hk'; cases isReader_unique hkr hk'; fs_auto)
      fs_auto
    · simp only [h0, readsS]
      apply invS_frame t h
      case h8r => (intro k' hk'; cases isReader_unique hkr hk'; fs_auto)
      fs_auto
    · have : ∃ p, (s.loc t).pc = p + 2 ∧ 3 ≤ p := ⟨(s.loc t).pc - 2, by omega, by omega⟩
      obtain ⟨p, hp, hp3⟩ := this
      have : readsS s t r .ret p = s := by
        unfold readsS
        dsimp only
        split <;> first | (exfalso; omega) | rfl
      simp only [hp, this]
      exact goodS_refl h

set_option maxHeartbeats 1600000 in
theorem invS_doneRdS (prog : List KindS) (s : StS) (t k : Nat)
    (hk : prog[t]? = some (.doneRd k)) (h : InvS prog s) : GoodS prog s (doneRdS s t k) := by
  have hT := h.tab
  have hJ := h.jobs
  have hR := h.res
  have hLk := h.lockOK
  have hkr : isReader prog t k := Or.inr (Or.inl hk)
  have hD := h.rd t k hkr
  simp only [TabOKS, JobOKS, RdOKS] at hT hJ hD
  have hP := h.noPanic t
  have hO := h.outJob t
  unfold doneRdS
  dsimp only
  split
  · exact goodS_refl h
  · rename_i e
    have hfin := jobOf_fin e
    simp only [fin] at hfin
    have hjk : ∀ s' : StS, s'.loc k = s.loc k → jobOf s' k = some none := fun s' hs => by
      rw [jobOf_congr hs]; exact e
    split
    · apply invS_frame t h
      case h8r => (intro k' hk'; cases isReader_unique hkr hk'; fs_auto)
      fs_auto
    · exact goodS_refl h
  · rename_i r e
    have hr := jobOf_lt h e
    have hJr := hJ r hr
    have hDr := hD.2 r e
    have hfin := jobOf_fin e
    simp only [fin] at hfin
    have hjk : ∀ s' : StS, s'.loc k = s.loc k → jobOf s' k = some (some r) := fun s' hs => by
      rw [jobOf_congr hs]; exact e
    have hpc : (s.loc t).pc = 0 ∨ (s.loc t).pc = 1 ∨ (s.loc t).pc = 2 ∨ (s.loc t).pc = 3 ∨ (s.loc t).pc = 4 ∨
        5 ≤ (s.loc t).pc := by omega
    rcases hpc with h0 | h0 | h0 | h0 | h0 | h0
    · simp only [h0]
      split
      · apply invS_frame t h
        case h8r => (intro k' hk'; cases isReader_unique hkr hk'; fs_auto)
        fs_auto
      · apply invS_frame t h
        case h8r => (intro k' hk'; cases isReader_unique hkr hk'; fs_auto)
        fs_auto
    · simp only [h0]
      split
      · apply invS_frame t h
        case h8r => (intro k' hk'; cases isReader_unique hkr hk'; fs_auto)
        fs_auto
      · apply invS_frame t h
        case h8r => (intro k' hk'; cases isReader_unique hkr hk'; fs_auto)
        fs_auto
    · simp only [h0, readsS]
      apply invS_frame t h
      case h8r => (intro k' hk'; cases isReader_unique hkr hk'; fs_auto)
      fs_auto
    · simp only [h0, readsS]
      apply invS_frame t h
      case h8r => (intro k' hk'; cases isReader_unique hkr hk'; fs_auto)
      fs_auto
    · simp only [h0, readsS]
      apply invS_frame t h
      case h8r => (intro k' hk'; cases isReader_unique hkr hk'; fs_auto)
      fs_auto
    · have : ∃ p, (s.loc t).pc = p + 2 ∧ 3 ≤ p := ⟨(s.loc t).pc - 2, by omega, by omega⟩
      obtain ⟨p, hp, hp3⟩ := this
      have : readsS s t r (.bool true) p = s := by
        unfold readsS
        dsimp only
        split <;> first | (exfalso; omega) | rfl
      simp only [hp, this]
      exact goodS_refl h

set_option maxHeartbeats 1600000 in
theorem invS_isErrorS (prog : List KindS) (s : StS) (t k : Nat)
    (hk : prog[t]? = some (.isError k)) (h : InvS prog s) : GoodS prog s (isErrorS s t k) := by
  have hT := h.tab
  have hJ := h.jobs
  have hR := h.res
  have hLk := h.lockOK
  have hkr : isReader prog t k := Or.inr (Or.inr hk)
  have hD := h.rd t k hkr
  simp only [TabOKS, JobOKS, RdOKS] at hT hJ hD
  have hP := h.noPanic t
  have hO := h.outJob t
  unfold isErrorS
  dsimp only
  split
  · exact goodS_refl h
  · rename_i e
    have hfin := jobOf_fin e
    simp only [fin] at hfin
    have hjk : ∀ s' : StS, s'.loc k = s.loc k → jobOf s' k = some none := fun s' hs => by
      rw [jobOf_congr hs]; exact e
    split
    · apply invS_frame t h
      case h8r => (intro k' hk'; cases isReader_unique hkr hk'; fs_auto)
      fs_auto
    · exact goodS_refl h
  · rename_i r e
    have hr := jobOf_lt h e
    have hJr := hJ r hr
    have hDr := hD.2 r e
    have hfin := jobOf_fin e
    simp only [fin] at hfin
    have hjk : ∀ s' : StS, s'.loc k = s.loc k → jobOf s' k = some (some r) := fun s' hs => by
      rw [jobOf_congr hs]; exact e
    have hpc : (s.loc t).pc = 0 ∨ (s.loc t).pc = 1 ∨ (s.loc t).pc = 2 ∨ 3 ≤ (s.loc t).pc := by omega
    rcases hpc with h0 | h0 | h0 | h0
    · simp only [h0]
      split
      · apply invS_frame t h
        case h8r => (intro k' hk'; cases isReader_unique hkr hk'; fs_auto)
        fs_auto
      · apply invS_frame t h
        case h8r => (intro k' hk'; cases isReader_unique hkr hk'; fs_auto)
        fs_auto
    · simp only [h0]
      split
      · apply invS_frame t h
        case h8r => (intro k' hk'; cases isReader_unique hkr hk'; fs_auto)
        fs_auto
      · apply invS_frame t h
        case h8r => (intro k' hk'; cases isReader_unique hkr hk'; fs_auto)
        fs_auto
    · simp only [h0]
      apply invS_frame t h
      case h8r => (intro k' hk'; cases isReader_unique hkr hk'; fs_auto)
      fs_auto
    · split <;> first | (exfalso; omega) | exact goodS_refl h

end XMT.JobSub
