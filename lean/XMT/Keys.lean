/-
  XMT.Keys — executable model of the session-key machinery (property C06).

  Mirrors, function by function:
    data/crypto/subtle/c_no_xor.go   XorOp                        → `xorOp`
    data/x_key.go                    (*Chunk).KeyCrypt            → `xorOp buf share`
    data/crypto.go                   KeyPair.{Fill,Read,Sync,FillPublic,FillPrivate,fillShared,IsSynced}
    c2/x_key.go                      keyNextSync / keyCheckSync / keyCheckRevert /
                                     keySessionGenerate / keySessionSync
    c2/xz_key_no_implant.go          keyListenerInit / keyListenerRegenerate / keyCryptAndUpdate
    c2/channel.go                    keyHostSync, handle (reply encrypted with the conn-local copy)
    c2/listener.go                   talk / resolve / notify (order of copy, decrypt, update)
    c2/session.go                    (*Session).session (encrypt, write, read, decrypt, swap, receive)
    c2/c2.go                         connectContextInner (hello, SvComplete, keySessionSync)
    c2/vars.go                       receiveSingle (SvComplete, SvRegister)
    c2/server.go                     ListenContext / listen (where Server.Keys are generated)

  The elliptic-curve arithmetic is a parameter (`Curve`): `pubOf a` is the marshalled public key of
  the private scalar `a`, `dh m n` is `ScalarMult(Unmarshal(n), m).Bytes()` — the MINIMAL big-endian
  encoding of the x coordinate, `none` when Unmarshal/ScalarMult fail.  Core-only.
-/
import XMT.Base
import XMT.Generated.Facts
namespace XMT.Keys
open XMT

/-! ### data/crypto/subtle XorOp -/

/-- `subtle.XORBytes(dst, x, y)`: writes `min(len x, len y)` bytes `x[i]^y[i]` and returns that
count (the result list's length is the returned `n`). -/
def xorBytes (x y : Bytes) : Bytes := List.zipWith (· ^^^ ·) x y

/-- `for n := 0; n < len(value); { n += XORBytes(value[n:], key, value[n:]) }` — `v` is
`value[n:]`, the result is the rewritten `value[n:]`.  `fuel` bounds the number of iterations
(`xorOp` passes `len(value)`, which suffices because every iteration consumes ≥ 1 byte when the
key is non-empty; with exhausted fuel the remaining bytes are returned untouched). -/
def xorLoop (key : Bytes) : Nat → Bytes → Bytes
  | 0, v => v
  | fuel + 1, v =>
    if v.length = 0 then v
    else
      let blk := xorBytes key v
      blk ++ xorLoop key fuel (v.drop blk.length)

/-- `subtle.XorOp(value, key)`; returns the new contents of `value`. -/
def xorOp (value key : Bytes) : Bytes :=
  if key.length = 0 ∨ value.length = 0 then value
  else if key.length = value.length then xorBytes key value
  else xorLoop key value.length value

/-! ### data.KeyPair -/

def shareSize : Nat := Facts.c06SharedKeySize
def pubSize : Nat := Facts.c06PublicKeySize
def privSize : Nat := Facts.c06PrivateKeySize

def zeros (n : Nat) : Bytes := List.replicate n 0

/-- Go's `copy(dst[:], src)` into a fixed array: the first `min(len dst, len src)` bytes are
overwritten, the tail of `dst` keeps its previous contents. -/
def copyInto (dst src : Bytes) : Bytes := src.take dst.length ++ dst.drop src.length

structure KeyPair where
  pub : Bytes
  priv : Bytes
  share : Bytes
  deriving DecidableEq, Repr

/-- The curve operations the code calls (parameters, see the header). -/
structure Curve where
  pubOf : Bytes → Bytes
  dh : Bytes → Bytes → Option Bytes

/-- The zero value `data.KeyPair{}`. -/
def KeyPair.zero : KeyPair := ⟨zeros pubSize, zeros privSize, zeros shareSize⟩

/-- `Fill()` where `elliptic.GenerateKey` drew the private scalar `a`. -/
def KeyPair.fill (c : Curve) (k : KeyPair) (a : Bytes) : KeyPair :=
  { pub := copyInto k.pub (c.pubOf a), priv := copyInto k.priv a, share := zeros k.share.length }

/-- `PublicKey.Empty()` -/
def allZero (b : Bytes) : Bool := b.all (· == 0)

/-- `IsSynced()` -/
def KeyPair.isSynced (k : KeyPair) : Bool := !allZero k.share

/-- `fillShared(n, m)`: on success the minimal encoding of the secret is copied over the previous
contents of `share` (a secret shorter than the buffer leaves the old tail in place). -/
def KeyPair.fillShared (c : Curve) (k : KeyPair) (n m : Bytes) : KeyPair × Bool :=
  match c.dh m n with
  | none => (k, false)
  | some v => ({ k with share := copyInto k.share v }, true)

/-- `Sync()` -/
def KeyPair.sync (c : Curve) (k : KeyPair) : KeyPair × Bool := k.fillShared c k.pub k.priv

/-- `FillPublic(p)` -/
def KeyPair.fillPublic (c : Curve) (k : KeyPair) (p : Bytes) : KeyPair × Bool :=
  match k.fillShared c p k.priv with
  | (k', true) => ({ k' with pub := copyInto k'.pub p }, true)
  | (k', false) => (k', false)

/-- `FillPrivate(p)` -/
def KeyPair.fillPrivate (c : Curve) (k : KeyPair) (p : Bytes) : KeyPair × Bool :=
  match k.fillShared c k.pub p with
  | (k', true) => ({ k' with priv := copyInto k'.priv p }, true)
  | (k', false) => (k', false)

/-- `Read(r)` from a Chunk whose unread part is `buf`: one `r.Read(k.Public[:])`; an exhausted
chunk gives io.EOF, fewer than `publicKeySize` bytes give ErrUnexpectedEOF *after* the partial copy.
Returns the key pair, the still unread part, and whether `err == nil`. -/
def KeyPair.readPub (k : KeyPair) (buf : Bytes) : KeyPair × Bytes × Bool :=
  if buf.length = 0 then (k, buf, false)
  else ({ k with pub := copyInto k.pub buf }, buf.drop k.pub.length, decide (k.pub.length ≤ buf.length))

/-! ### Packets, faults, events -/

inductive PktId | hello | complete | register | data
  deriving DecidableEq, Repr

/-- What matters of a `com.Packet` for the key machinery: kind, FlagCrypt, the Chunk buffer and how
many leading bytes of it are device info (hello only). -/
structure Pkt where
  id : PktId
  crypt : Bool
  payload : Bytes
  infoLen : Nat := 0
  deriving DecidableEq, Repr

/-- Where the carrying connection fails. -/
inductive Fault | ok | writeFail | replyLost
  deriving DecidableEq, Repr

/-- What the client has to send in an exchange when nothing else is queued: `data p` = a queued
packet with payload `p` (`[]` = the empty keep-alive), `rekey a` = `keyNextSync` rolled a re-key and
`GenerateKey` drew `a`. -/
inductive Send
  | data (p : Bytes)
  | rekey (a : Bytes)
  deriving DecidableEq, Repr

inductive Ev
  /-- `c2.Connect`: fresh client Session, `GenerateKey` drew `a`, device info bytes `info`. -/
  | connect (a info : Bytes) (f : Fault)
  /-- one `(*Session).session` round (non-channel): client sends, server replies `reply`;
  `fresh` is the scalar `GenerateKey` draws if the reply is SvRegister. -/
  | xchg (send : Send) (reply fresh : Bytes) (f : Fault)
  /-- the server forgets the client's Session (Remove / restart); next packet gets SvRegister. -/
  | drop
  deriving DecidableEq, Repr

structure Client where
  keys : KeyPair
  next : Option KeyPair := none     -- Session.keysNext
  hello : Option Pkt := none        -- a queued SvHello (re-registration) — sent before anything else
  deriving DecidableEq, Repr

structure Server where
  keys : KeyPair                    -- Server.Keys
  sess : Option KeyPair := none     -- the server-side Session's keys for this client
  deriving DecidableEq, Repr

/-- A payload handed to a receiving handler: what was queued by the sender, what arrived. -/
structure Obs where
  toServer : Bool
  sent : Bytes
  got : Bytes
  deriving DecidableEq, Repr

structure State where
  client : Option Client
  server : Server
  obs : List Obs := []
  deriving DecidableEq, Repr

/-! ### Server side -/

/-- `keyListenerRegenerate`: Read, then Sync; errors are returned (and ignored by all callers). -/
def regenerate (c : Curve) (sk : KeyPair) (buf : Bytes) : KeyPair × Bytes :=
  match sk.readPub buf with
  | (sk1, rest, false) => (sk1, rest)
  | (sk1, rest, true) => ((sk1.sync c).1, rest)

/-- The `n.Flags&FlagCrypt == 0 || n.Empty()` guard + `keyListenerRegenerate` of `keyCryptAndUpdate`
(the decryption part, `d`, is done by the caller because it works on the whole buffer). -/
def updateIfCrypt (c : Curve) (sk : KeyPair) (crypt : Bool) (rest : Bytes) : KeyPair × Bytes :=
  if crypt ∧ rest.length ≠ 0 then regenerate c sk rest else (sk, rest)

/-- `keyListenerInit(k, …)`: Read, then FillPrivate(server private key). -/
def listenerInit (c : Curve) (srvPriv : Bytes) (buf : Bytes) : KeyPair × Bytes :=
  match KeyPair.zero.readPub buf with
  | (sk1, rest, false) => (sk1, rest)
  | (sk1, rest, true) => ((sk1.fillPrivate c srvPriv).1, rest)

/-- `keyHostSync`: SvComplete | FlagCrypt carrying `Server.Keys.Public`. -/
def hostSync (srv : KeyPair) : Pkt := { id := .complete, crypt := true, payload := srv.pub }

/-- `handle` → `Listener.talk` → `conn.process` → `notify` for one packet `w` as it arrived on the
wire; `replyData` is what the server-side Session has queued for the client.  Returns the new
server, the reply as written to the wire (`none`: connection closed without a reply) and the
payload handed to the server-side handler, if any. -/
def talk (c : Curve) (s : Server) (w : Pkt) (replyData : Bytes) : Server × Option Pkt × Option Bytes :=
  match s.sess with
  | none =>
    if w.id ≠ .hello then (s, some { id := .register, crypt := false, payload := [] }, none)
    else if w.payload.length = 0 then (s, none, none)            -- ErrMalformedPacket
    else
      -- readDeviceInfo consumed the info bytes; keyListenerInit; notify → keyCryptAndUpdate(false)
      let (sk, rest) := listenerInit c s.keys.priv (w.payload.drop w.infoLen)
      let (sk', _) := updateIfCrypt c sk w.crypt rest
      -- reply = the queued keyHostSync packet, NOT encrypted (session is new)
      ({ s with sess := some sk' }, some (hostSync s.keys), none)
  | some sk =>
    -- resolve(): conn{keys: s.keys} is copied BEFORE keyCryptAndUpdate
    let conn := sk
    -- keyCryptAndUpdate(d = true): decrypt the whole buffer, then maybe regenerate
    let buf := xorOp w.payload sk.share
    let (sk1, rest1) := updateIfCrypt c sk w.crypt buf
    -- notify → keyCryptAndUpdate(d = false)
    let (sk2, _) := updateIfCrypt c sk1 w.crypt rest1
    let seen := if w.id = .data ∧ w.crypt = false then some buf else none
    -- handle: `if e { v.next.KeyCrypt(v.keys) }` — the conn-local (old) copy
    ({ s with sess := some sk2 },
     some { id := .data, crypt := false, payload := xorOp replyData conn.share }, seen)

/-! ### Client side -/

/-- `keySessionGenerate(n)` on a packet whose buffer already holds `info`. -/
def sessionGenerate (c : Curve) (k : KeyPair) (a info : Bytes) : KeyPair × Pkt :=
  let k' := k.fill c a
  (k', { id := .hello, crypt := true, payload := info ++ k'.pub, infoLen := info.length })

/-- `keySessionSync(n)`; `trustCheck` = `s.p != nil` (false inside `Connect`, true afterwards; the
profile has no trusted-key list, so only the all-zero key is refused). -/
def sessionSync (c : Curve) (k : KeyPair) (buf : Bytes) (trustCheck : Bool) : KeyPair × Bool :=
  if k.isSynced then (k, true)
  else
    match k.readPub buf with
    | (k1, _, false) => (k1, false)
    | (k1, _, true) =>
      if trustCheck ∧ allZero k1.pub then (k1, false)
      else k1.sync c

/-- `keyCheckSync()` -/
def checkSync (c : Curve) (cl : Client) : Client × Bool :=
  match cl.next with
  | none => (cl, true)
  | some v =>
    let (k', ok) := cl.keys.fillPrivate c v.priv
    ({ cl with keys := k', next := none }, ok)

/-- `next(false)` → `pick` for the key machinery: a queued packet (the hello) goes first; with an
empty queue `keyNextSync` may produce a re-key packet unless one is already pending. -/
def clientNext (c : Curve) (cl : Client) (send : Send) : Pkt × Client :=
  match cl.hello with
  | some h => (h, { cl with hello := none })
  | none =>
    match send with
    | .data p => ({ id := .data, crypt := false, payload := p }, cl)
    | .rekey a =>
      if cl.next.isSome then ({ id := .data, crypt := false, payload := [] }, cl)
      else
        let v := KeyPair.zero.fill c a
        ({ id := .data, crypt := true, payload := v.pub }, { cl with next := some v })

/-- The part of `(*Session).session` after a reply `r` was read from the wire. -/
def clientReceive (c : Curve) (cl : Client) (r : Pkt) (fresh info : Bytes) (replyData : Bytes) :
    Client × List Obs :=
  -- `if n.ID != SvComplete { n.KeyCrypt(s.keys) }`
  let buf := if r.id ≠ .complete then xorOp r.payload cl.keys.share else r.payload
  -- `if s.keyCheckSync() != nil { return false }`
  match checkSync c cl with
  | (cl1, false) => (cl1, [])
  | (cl1, true) =>
    match r.id with
    | .register =>
      let (k', h) := sessionGenerate c cl1.keys fresh info
      ({ cl1 with keys := k', hello := some h }, [])
    | .complete =>
      if buf.length ≠ 0 ∧ r.crypt then ({ cl1 with keys := (sessionSync c cl1.keys buf true).1 }, [])
      else (cl1, [])
    | .data => (cl1, [{ toServer := false, sent := replyData, got := buf }])
    | .hello => (cl1, [])

/-! ### One event -/

/-- Device info bytes used for a re-registration hello (the contents are irrelevant for the keys;
the length matters for where the server finds the public key). -/
def reInfo : Bytes := [1, 2, 3, 4, 5, 6, 7]

/-- `c2.Connect` (connectContextInner) against the server; `none` = Connect returned an error. -/
def connectStep (c : Curve) (srv : Server) (a info : Bytes) (f : Fault) : Option Client × Server :=
  let gh := sessionGenerate c KeyPair.zero a info
  if f = .writeFail then (none, srv)
  else
    match talk c srv gh.2 [] with
    | (srv', none, _) => (none, srv')
    | (srv', some r, _) =>
      if f = .replyLost ∨ r.id ≠ .complete then (none, srv')
      else
        match sessionSync c gh.1 r.payload false with
        | (_, false) => (none, srv')
        | (k1, true) => (some { keys := k1 }, srv')

def obsOf (p : Pkt) (seen : Option Bytes) : List Obs :=
  match seen with
  | none => []
  | some g => [{ toServer := true, sent := p.payload, got := g }]

/-- One `(*Session).session` round of client `cl` against the server. -/
def xchgStep (c : Curve) (cl : Client) (srv : Server) (send : Send) (reply fresh : Bytes) (f : Fault) :
    Client × Server × List Obs :=
  let pc := clientNext c cl send
  -- `if n.ID != SvHello { n.KeyCrypt(s.keys) }`
  let w : Pkt := if pc.1.id = .hello then pc.1
                 else { pc.1 with payload := xorOp pc.1.payload pc.2.keys.share }
  if f = .writeFail then
    -- keyCheckRevert
    ({ pc.2 with next := none }, srv, [])
  else
    match talk c srv w reply with
    | (srv', none, seen) => (pc.2, srv', obsOf pc.1 seen)
    | (srv', some r, seen) =>
      if f = .replyLost then (pc.2, srv', obsOf pc.1 seen)
      else
        let co := clientReceive c pc.2 r fresh reInfo reply
        (co.1, srv', obsOf pc.1 seen ++ co.2)

def step (c : Curve) (s : State) : Ev → State
  | .drop => { s with server := { s.server with sess := none } }
  | .connect a info f =>
    let r := connectStep c s.server a info f
    { s with client := r.1, server := r.2 }
  | .xchg send reply fresh f =>
    match s.client with
    | none => s
    | some cl =>
      let r := xchgStep c cl s.server send reply fresh f
      { client := some r.1, server := r.2.1, obs := s.obs ++ r.2.2 }

def run (c : Curve) (s : State) (evs : List Ev) : State := evs.foldl (step c) s

/-- Start: the Server has generated its KeyPair from the scalar `b` (this is what the repaired
`ListenContext` guarantees before any Listener accepts), nobody is registered. -/
def init (c : Curve) (b : Bytes) : State :=
  { client := none, server := { keys := KeyPair.zero.fill c b } }

/-- Both ends hold the same shared secret (all bytes of the buffer, stale ones included). -/
def Synced (s : State) : Prop :=
  ∀ cl sk, s.client = some cl → s.server.sess = some sk → cl.keys.share = sk.share

/-- Every payload that reached a handler is the payload that was queued. -/
def Intact (s : State) : Prop := ∀ o ∈ s.obs, o.got = o.sent

/-! ### Server start-up (c2/server.go): where `Server.Keys` are generated relative to the first
registration.  Two goroutines run after `ListenContext`: the Server event loop (`listen`, one step:
`if Keys.Empty() { Keys.Fill() }`) and the Listener serving the first hello (two reads of
`Server.Keys`: `keyListenerInit(l.s.Keys.Private…)`, later `keyHostSync` → `Keys.Public`). -/

inductive Tid | loop | lis
  deriving DecidableEq, Repr

structure Boot where
  keys : KeyPair                       -- Server.Keys (shared, unsynchronised)
  loopDone : Bool := false
  sess : Option KeyPair := none        -- set by the Listener's first step
  reply : Option Bytes := none         -- public key sent to the client by the second step
  deriving DecidableEq, Repr

/-- `ListenContext` up to the point where both goroutines exist.  `prefill` = the source generates
the KeyPair before `go s.listen()` (regenerated fact `c06KeysBeforeListen`). -/
def bootInit (c : Curve) (prefill : Bool) (b : Bytes) : Boot :=
  { keys := if prefill then KeyPair.zero.fill c b else KeyPair.zero }

def bootStep (c : Curve) (b : Bytes) (clientPub : Bytes) (s : Boot) : Tid → Boot
  | .loop =>
    if s.loopDone then s
    else { s with loopDone := true, keys := if allZero s.keys.pub then s.keys.fill c b else s.keys }
  | .lis =>
    match s.sess with
    | none => { s with sess := some (listenerInit c s.keys.priv clientPub).1 }
    | some _ => if s.reply.isNone then { s with reply := some s.keys.pub } else s

/-- Runs a schedule, then the client's `keySessionSync` on the reply; result = (client share,
server-session share), `none` if the registration did not complete. -/
def bootRun (c : Curve) (prefill : Bool) (b a : Bytes) (sched : List Tid) : Option (Bytes × Bytes) :=
  let k0 := KeyPair.zero.fill c a
  let s := sched.foldl (bootStep c b k0.pub) (bootInit c prefill b)
  match s.sess, s.reply with
  | some sk, some r =>
    match sessionSync c k0 r false with
    | (k1, true) => some (k1.share, sk.share)
    | (_, false) => none
  | _, _ => none

end XMT.Keys
