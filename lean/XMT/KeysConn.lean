/-
  XMT.KeysConn — the per-connection key handling of the server (property C06, extension).

  Mirrors, function by function:
    c2/channel.go    type conn { host, next, subs, add, lock, keys data.KeyPair }  → `Conn`
                     (`keys` is a VALUE: a copy of the Session's KeyPair taken when the conn is built)
    c2/listener.go   (*Listener).resolve   — both composite literals `conn{…, keys: s.keys}`  → `listenerResolve`
    c2/channel.go    (*conn).resolve (o = false: the tag loop of a poll)                 → `connResolveLoop`
    c2/listener.go   (*Listener).talk (registered arm) + c2/channel.go handle
                     (`if e { v.next.KeyCrypt(v.keys) }`)                               → `talkConn`
    c2/channel.go    handle → (*conn).start: the conn that served the opening poll IS the conn of
                     the channel; (*conn).channelRead / (*conn).channelWrite              → `chanOpen`, `chanStep`
    c2/session.go    (*Session).channelWrite / channelRead (client side of a channel)     → `chanStep`

  Which key a `KeyCrypt` call used is recorded as a ghost value (`KeyUse`): the machines compute the
  bytes exactly as the code does and, next to them, remember the share that was passed to `KeyCrypt`.
  Core-only.
-/
import XMT.Keys
namespace XMT.Keys
open XMT

/-! ### `conn` and `Listener.resolve` -/

/-- A server-side `*Session` as far as tag resolution touches it: its key in `Server.sessions`
(the device hash), its LIVE `keys`, and at most one packet waiting in `send` (a batch of several
queued packets is the subject of XMT/RelaySplice.lean). -/
structure Host where
  id : Nat
  keys : KeyPair
  queue : Option Bytes := none
  deriving DecidableEq, Repr

/-- `c2/channel.go conn`: `keys` is a copy (Go struct value), `add` the packets collected for tagged
devices (device hash, buffer after `KeyCrypt`), `subs` the map of resolved tags in insertion order. -/
structure Conn where
  host : Nat
  keys : KeyPair
  add : List (Nat × Bytes) := []
  subs : List (Nat × Bool) := []
  deriving DecidableEq, Repr

def subsGet (m : List (Nat × Bool)) (k : Nat) : Option Bool := (m.find? (·.1 == k)).map (·.2)

def subsSet (m : List (Nat × Bool)) (k : Nat) (v : Bool) : List (Nat × Bool) :=
  if m.any (·.1 == k) then m.map (fun e => if e.1 == k then (k, v) else e) else m ++ [(k, v)]

/-- The `for i := range t` loop of `(*conn).resolve` with `o = false`; `i` is the loop index.
Result: the conn, the Sessions (a taken packet leaves its queue) and `err == nil`.
`v.keyCheckSync()` after `next` is a no-op on a server-side Session (`keyNextSync` never queues a
KeyPair unless `IsClient()`), `v.update(a)` does not touch keys. -/
def connResolveLoop (hostId : Nat) : Nat → List Nat → List Host → Conn → Conn × List Host × Bool
  | _, [], hs, c => (c, hs, true)
  | i, t :: ts, hs, c =>
    if t = 0 then (c, hs, false)                                     -- com.ErrMalformedTag
    else if i > Facts.packetMaxTags then (c, hs, true)               -- `i > com.PacketMaxTags`: break
    else if subsGet c.subs t = some true then connResolveLoop hostId (i + 1) ts hs c
    else
      match hs.find? (·.id == t) with                                -- h.clientGet(t[i])
      | none => connResolveLoop hostId (i + 1) ts hs c
      | some v =>
        if v.id = hostId then connResolveLoop hostId (i + 1) ts hs c -- v.clientID() == s.clientID()
        else
          let c1 := { c with subs := subsSet c.subs t true }
          match v.queue with                                          -- v.next(true)
          | none => connResolveLoop hostId (i + 1) ts hs c1
          | some p =>
            -- n.KeyCrypt(v.keyValue()): the TAGGED Session's live key, not the conn's
            let hs' := hs.map (fun h => if h.id == t then { h with queue := none } else h)
            connResolveLoop hostId (i + 1) ts hs' { c1 with add := c1.add ++ [(t, xorOp p v.keys.share)] }

/-- `(*Listener).resolve(s, a, t)`: `len(t) == 0` → `&conn{host: s, keys: s.keys}`; otherwise the
second literal (`add`, `subs` allocated, `host: s, keys: s.keys`) followed by `c.resolve(…, false)`.
The conn is returned together with the error. -/
def listenerResolve (hs : List Host) (s : Host) (tags : List Nat) : Conn × List Host × Bool :=
  if tags.length = 0 then ({ host := s.id, keys := s.keys }, hs, true)
  else connResolveLoop s.id 0 tags hs { host := s.id, keys := s.keys, add := [], subs := [] }

/-! ### Which key was used -/

/-- One packet that was encrypted by one side and decrypted by the other. `enc`/`dec` are the shares
handed to the two `KeyCrypt` calls, `sent` the buffer before the first, `got` the buffer after the
second call. -/
structure KeyUse where
  toServer : Bool
  enc : Bytes
  dec : Bytes
  sent : Bytes
  got : Bytes
  deriving DecidableEq, Repr

def KeyUse.Agree (u : KeyUse) : Prop := u.enc = u.dec ∧ u.got = u.sent
instance (u : KeyUse) : Decidable u.Agree := by unfold KeyUse.Agree; infer_instance

/-- `n.KeyCrypt(k)` on a packet. -/
def Pkt.encryptedWith (p : Pkt) (k : Bytes) : Pkt := { p with payload := xorOp p.payload k }

/-! ### A poll (non-channel exchange) of a registered Session, with the conn explicit -/

/-- The registered arm of `Listener.talk` followed by `handle`'s `if e { v.next.KeyCrypt(v.keys) }`,
for a request that carries the tags `tags`, none of which names a Session with something queued (the
tag table is empty: unknown tags are legal and skipped; a reply that carries packets of tagged devices
is a Multi container — XMT/RelaySplice.lean).  `none`: `resolve` failed (a zero tag), `talk` returns
the error before anything is decrypted and `handle` closes the connection.
`live = false` is the code; `live = true` is the variant that would encrypt the reply with the
Session's live key (`v.host.keyValue()`) — used only to show that the conn-local copy is needed.
Returns the Session's keys afterwards, the reply as written, what the handler saw, the conn. -/
def talkBody (c : Curve) (live : Bool) (conn : Conn) (sk : KeyPair) (w : Pkt) (replyData : Bytes) :
    KeyPair × Pkt × Option Bytes × Conn :=
  -- s.keyCryptAndUpdate(l.name, n, true): decrypt with the live key, maybe regenerate
  let buf := xorOp w.payload sk.share
  let u1 := updateIfCrypt c sk w.crypt buf
  -- c.process → processSingle → notify → keyCryptAndUpdate(…, false)
  let u2 := updateIfCrypt c u1.1 w.crypt u1.2
  let seen := if w.id = .data ∧ w.crypt = false then some buf else none
  -- handle: `if e { v.next.KeyCrypt(v.keys) }`
  let key := if live then u2.1.share else conn.keys.share
  (u2.1, { id := .data, crypt := false, payload := xorOp replyData key }, seen, conn)

def talkConn (c : Curve) (live : Bool) (tags : List Nat) (sk : KeyPair) (w : Pkt) (replyData : Bytes) :
    Option (KeyPair × Pkt × Option Bytes × Conn) :=
  -- c, err := l.resolve(s, a, n.Tags)          (BEFORE keyCryptAndUpdate)
  match listenerResolve [] { id := 0, keys := sk } tags with
  | (_, _, false) => none
  | (conn, _, true) => some (talkBody c live conn sk w replyData)

/-- The `KeyCrypt` calls of one `(*Session).session` round against a registered Session (a hello is
never encrypted by the sender and a failed write reaches nobody: no use).  Request: client
`n.KeyCrypt(s.keys)` / server `keyCryptAndUpdate(d = true)` with the live key.  Reply: server
`v.next.KeyCrypt(v.keys)` / client `n.KeyCrypt(s.keys)` BEFORE `keyCheckSync`. -/
def pollUses (c : Curve) (live : Bool) (tags : List Nat) (cl : Client) (srv : Server) (send : Send)
    (reply : Bytes) (f : Fault) : List KeyUse :=
  match srv.sess with
  | none => []
  | some sk =>
    let pc := clientNext c cl send
    if pc.1.id = .hello ∨ f = .writeFail then []
    else
      let w : Pkt := { pc.1 with payload := xorOp pc.1.payload pc.2.keys.share }
      match talkConn c live tags sk w reply with
      | none => []
      | some t =>
        let rq : KeyUse := ⟨true, pc.2.keys.share, sk.share, pc.1.payload, xorOp w.payload sk.share⟩
        if f = .replyLost then [rq]
        else
          let key := if live then t.1.share else t.2.2.2.keys.share
          [rq, ⟨false, key, pc.2.keys.share, reply, xorOp t.2.1.payload pc.2.keys.share⟩]

def stepUses (c : Curve) (live : Bool) (s : State) : Ev → List KeyUse
  | .xchg send reply _ f =>
    match s.client with
    | none => []
    | some cl => pollUses c live [] cl s.server send reply f
  | _ => []

/-- Every `KeyCrypt` pair of a history (the states evolve by the machine of XMT/Keys.lean). -/
def histUses (c : Curve) (live : Bool) : State → List Ev → List KeyUse
  | _, [] => []
  | s, e :: es => stepUses c live s e ++ histUses c live (step c s e) es

/-! ### Channel (full-duplex) mode -/

/-- A packet in flight: as written (`pkt.payload` is the buffer after `KeyCrypt`), with the ghost
record of what was encrypted with which share. -/
structure Wire where
  pkt : Pkt
  sent : Bytes
  enc : Bytes
  deriving DecidableEq, Repr

structure Chan where
  cl : Client                 -- client Session: `keys` (live), `keysNext`
  sess : KeyPair              -- server Session.keys (live; updated by notify → keyCryptAndUpdate)
  conn : Conn                 -- the conn: `keys` is the copy taken when the opening poll was resolved
  c2s : List Wire := []
  s2c : List Wire := []
  uses : List KeyUse := []
  up : Bool := true
  deriving DecidableEq, Repr

inductive ChanEv
  /-- one iteration of `(*Session).channelWrite`: `next(false)` yields what `send` says (`rekey a` =
  `pickWait` → `keyNextSync` rolled a re-key), `fail` = `writePacket` returned an error -/
  | cSend (send : Send) (fail : Bool)
  /-- one iteration of `(*conn).channelRead` on the oldest packet in flight -/
  | sRecv
  /-- one iteration of `(*conn).channelWrite` with payload `p` queued on the server Session -/
  | sSend (p : Bytes) (fail : Bool)
  /-- one iteration of `(*Session).channelRead` on the oldest packet in flight -/
  | cRecv
  deriving DecidableEq, Repr

def chanStep (c : Curve) (s : Chan) : ChanEv → Chan
  | .cSend send fail =>
    if !s.up then s else
    let pc := clientNext c s.cl send
    -- `n.KeyCrypt(s.keys)` — every packet (channelWrite has no SvHello exception)
    let w : Pkt := { pc.1 with payload := xorOp pc.1.payload pc.2.keys.share }
    if fail then
      { s with cl := { pc.2 with next := none }, up := false }       -- keyCheckRevert(); break
    else
      -- `s.keyCheckSync()` after EVERY write (its error is not looked at here)
      { s with cl := (checkSync c pc.2).1, c2s := s.c2s ++ [⟨w, pc.1.payload, pc.2.keys.share⟩] }
  | .sRecv =>
    if !s.up then s else
    match s.c2s with
    | [] => s
    | w :: rest =>
      -- `n.KeyCrypt(c.keys)`: the conn-local copy
      let buf := xorOp w.pkt.payload s.conn.keys.share
      -- c.process → processSingle → h.notify(c.host, n) → s.keyCryptAndUpdate(l.name, n, false):
      -- a re-key announcement updates the LIVE Session keys; `c.keys` is not touched
      let (sk', _) := updateIfCrypt c s.sess w.pkt.crypt buf
      { s with c2s := rest, sess := sk',
               uses := s.uses ++ [⟨true, w.enc, s.conn.keys.share, w.sent, buf⟩] }
  | .sSend p fail =>
    if !s.up then s else
    -- `n := c.host.next(false)`; `n.KeyCrypt(c.keys)`
    let w : Pkt := { id := .data, crypt := false, payload := xorOp p s.conn.keys.share }
    if fail then { s with up := false }     -- c.host.keyCheckRevert(): nothing queued server side
    else { s with s2c := s.s2c ++ [⟨w, p, s.conn.keys.share⟩] }   -- c.host.keyCheckSync(): no-op
  | .cRecv =>
    if !s.up then s else
    match s.s2c with
    | [] => s
    | w :: rest =>
      -- `n.KeyCrypt(s.keys)`: the client's live key at the time of the read
      let buf := xorOp w.pkt.payload s.cl.keys.share
      { s with s2c := rest, uses := s.uses ++ [⟨false, w.enc, s.cl.keys.share, w.sent, buf⟩] }

def chanRun (c : Curve) (s : Chan) (evs : List ChanEv) : Chan := evs.foldl (chanStep c) s

/-- `handle`: the poll that opens the channel (request `send`, reply `reply`) is served like any poll;
then `v.start(l, h, c, a)` runs the channel on the SAME conn `v` — built by `Listener.resolve`
before `keyCryptAndUpdate`.  `refresh` = the conn's key copy is renewed from the Session before the
channel starts (`c.keys = c.host.keyValue()` at the top of `(*conn).start`, regenerated fact
`c06ConnStartRefresh`).  Client side: `(*Session).session` decrypts the reply, `keyCheckSync`, then
`channelRead` / `channelWrite`. -/
def chanOpen (c : Curve) (refresh : Bool) (cl : Client) (sk : KeyPair) (send : Send) (reply : Bytes) :
    Option Chan :=
  let pc := clientNext c cl send
  let w : Pkt := { pc.1 with payload := xorOp pc.1.payload pc.2.keys.share }
  match talkConn c false [] sk w reply with
  | none => none
  | some t =>
    let conn : Conn := if refresh then { t.2.2.2 with keys := t.1 } else t.2.2.2
    some { cl := (checkSync c pc.2).1, sess := t.1, conn := conn }

def ChanEv.NoRekey : ChanEv → Prop
  | .cSend (.rekey _) _ => False
  | _ => True
instance (e : ChanEv) : Decidable e.NoRekey := by
  cases e with
  | cSend s f => cases s <;> unfold ChanEv.NoRekey <;> infer_instance
  | _ => unfold ChanEv.NoRekey; infer_instance

def ChanEv.IsSRecv : ChanEv → Prop
  | .sRecv => True
  | _ => False
instance (e : ChanEv) : Decidable e.IsSRecv := by cases e <;> unfold ChanEv.IsSRecv <;> infer_instance

/-- A channel right after it was opened by a poll of a synchronised pair. -/
def ChanGood (s : Chan) : Prop :=
  s.cl.next = none ∧ s.cl.hello = none ∧ s.cl.keys.share = s.sess.share ∧
  s.conn.keys.share = s.sess.share ∧ s.c2s = [] ∧ s.s2c = [] ∧ s.uses = [] ∧ s.up = true
instance (s : Chan) : Decidable (ChanGood s) := by unfold ChanGood; infer_instance

end XMT.Keys
