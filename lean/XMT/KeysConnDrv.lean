/-
  Line-protocol ops for the per-connection key model (XMT/KeysConn.lean); called from the new match
  arms of XMT/Drv/C06.lean.  Core-only.
    resolve host=<hash> tags=<t,t|-> hosts=<hash>:<share>:<payload|!>,…
    polls share=<hex> (D:<tags>:<payload>:<reply> | R:<tags>:<secret>:<reply>)…
    chan share=<hex> (oD:<payload> | oR:<secret>) (cD:<payload> | cR:<secret> | sr | sS:<payload> | cr)…
    fill2 <prevA> <prevB> <secret>
-/
import XMT.Drv.Util
import XMT.KeysConn
namespace XMT.KeysConnDrv
open XMT XMT.Keys XMT.Drv

def kv (pre : String) (t : String) : Option String :=
  if t.startsWith pre then some (t.drop pre.length).toString else none

def parseTags (s : String) : Option (List Nat) :=
  if s = "-" then some [] else (splitOn1 s ',').mapM natOf

def parseHost (s : String) : Option Host :=
  match splitOn1 s ':' with
  | [h, sh, q] => do
    let h ← natOf h
    let sh ← ofHex sh
    let q ← if q = "!" then some none else (ofHex q).map some
    pure { id := h, keys := ⟨[], [], sh⟩, queue := q }
  | _ => none

def dashJoin (l : List String) : String := if l.isEmpty then "-" else ",".intercalate l

def fp (b : Bytes) : String := toHex (b.take 4)

def b01 (b : Bool) : String := if b then "1" else "0"

def resolveOp : List String → String
  | [h, t, hs] =>
    match (kv "host=" h).bind natOf, (kv "tags=" t).bind parseTags,
          (kv "hosts=" hs).bind (fun s => (splitOn1 s ',').mapM parseHost) with
    | some h, some tags, some hosts =>
      match hosts.find? (·.id == h) with
      | none => "bad-op"
      | some host =>
        let r := listenerResolve hosts host tags
        let add := r.1.add.map fun e => s!"{e.1}:{hexOrDash e.2}"
        let subs := (r.1.subs.filter (·.2)).map fun e => s!"{e.1}"
        s!"ok={b01 r.2.2} keys={toHex r.1.keys.share} add={dashJoin add} subs={dashJoin subs}"
    | _, _, _ => "bad-op"
  | _ => "bad-op"

/-- fixed-size stand-ins: the ops carry the Diffie–Hellman VALUE of every re-key, not the points -/
def fakePub (b : UInt8) : Bytes := List.replicate pubSize b
def fakePriv (b : UInt8) : Bytes := List.replicate privSize b

/-- the curve of one step: every Diffie–Hellman value is `sec` -/
def stepCurve (sec : Bytes) : Curve := { pubOf := fun _ => fakePub 4, dh := fun _ _ => some sec }

def startPair (share : Bytes) : Client × Server :=
  ({ keys := ⟨fakePub 5, fakePriv 2, share⟩ },
   { keys := ⟨fakePub 5, fakePriv 3, zeros shareSize⟩, sess := some ⟨fakePub 6, fakePriv 3, share⟩ })

inductive PStep
  | data (tags : List Nat) (p reply : Bytes)
  | rekey (tags : List Nat) (sec reply : Bytes)

def parsePStep (s : String) : Option PStep :=
  match splitOn1 s ':' with
  | ["D", t, p, r] => do pure (.data (← parseTags t) (← ofHex p) (← ofHex r))
  | ["R", t, v, r] => do pure (.rekey (← parseTags t) (← ofHex v) (← ofHex r))
  | _ => none

def showUse (pre : String) (u : KeyUse) : String :=
  s!" {pre}={fp u.enc}/{fp u.dec}/{b01 (decide (u.got = u.sent))}"

def shareOf (srv : Server) : Bytes := match srv.sess with | some sk => sk.share | none => []

def runPolls : Client → Server → List PStep → List String → List String
  | _, _, [], acc => acc.reverse
  | cl, srv, st :: rest, acc =>
    let (cv, tags, send, reply, isData) : Curve × List Nat × Send × Bytes × Bool := match st with
      | .data t p r => (stepCurve [], t, Send.data p, r, true)
      | .rekey t v r => (stepCurve v, t, Send.rekey (fakePriv 9), r, false)
    let uses := pollUses cv false tags cl srv send reply .ok
    match uses with
    | [] => runPolls cl srv rest (s!"c={fp cl.keys.share} s={fp (shareOf srv)} closed" :: acc)
    | rq :: more =>
      let x := xchgStep cv cl srv send reply (fakePriv 8) .ok
      let line := s!"c={fp x.1.keys.share} s={fp (shareOf x.2.1)}" ++
        (if isData then showUse "rq" rq else "") ++ String.join (more.map (showUse "rp"))
      runPolls x.1 x.2.1 rest (line :: acc)

def pollsOp : List String → String
  | sh :: steps =>
    match (kv "share=" sh).bind ofHex, steps.mapM parsePStep with
    | some share, some steps =>
      let p := startPair share
      " | ".intercalate (runPolls p.1 p.2 steps [])
    | _, _ => "bad-op"
  | _ => "bad-op"

inductive CTok
  | ev (e : ChanEv) (cv : Curve)

def parseCTok (s : String) : Option (ChanEv × Curve) :=
  match splitOn1 s ':' with
  | ["cD", p] => do pure (.cSend (.data (← ofHex p)) false, stepCurve [])
  | ["cR", v] => do pure (.cSend (.rekey (fakePriv 9)) false, stepCurve (← ofHex v))
  | ["sS", p] => do pure (.sSend (← ofHex p) false, stepCurve [])
  | ["sr"] => some (.sRecv, stepCurve [])
  | ["cr"] => some (.cRecv, stepCurve [])
  | _ => none

/-- The curve matters at TWO events of a re-key: the client's swap (at `cR`) and the server's
regeneration (at the `sr` that reads the announcement); the value is the one of the latest `cR`. -/
def runChan : Chan → Curve → List (ChanEv × Curve) → Chan
  | s, _, [] => s
  | s, cur, (e, cv) :: rest =>
    let cur' := match e with | .cSend (.rekey _) _ => cv | _ => cur
    runChan (chanStep cur' s e) cur' rest

def showCUse (u : KeyUse) : String :=
  s!"{if u.toServer then "S" else "C"}:{fp u.enc}/{fp u.dec}/{b01 (decide (u.got = u.sent))}"

def chanOp : List String → String
  | sh :: op :: evs =>
    match (kv "share=" sh).bind ofHex, splitOn1 op ':', evs.mapM parseCTok with
    | some share, [o, x], some evs =>
      match ofHex x with
      | none => "bad-op"
      | some x =>
        let p := startPair share
        let (cv, send) : Curve × Send :=
          if o = "oR" then (stepCurve x, Send.rekey (fakePriv 9)) else (stepCurve [], Send.data x)
        if o ≠ "oR" ∧ o ≠ "oD" then "bad-op" else
        match p.2.sess with
        | none => "bad-op"
        | some sk =>
          match chanOpen cv Facts.c06ConnStartRefresh p.1 sk send [] with
          | none => "closed"
          | some s0 =>
            let s := runChan s0 cv evs
            let us := s.uses.map showCUse
            s!"sess={b01 (decide (s.cl.keys.share = s.sess.share))}" ++
              (if us.isEmpty then "" else " " ++ " ".intercalate us)
    | _, _, _ => "bad-op"
  | _ => "bad-op"

def fill2Op : List String → String
  | [a, b, v] =>
    match ofHex a, ofHex b, ofHex v with
    | some a, some b, some v =>
      let cv := stepCurve v
      let ka := (KeyPair.mk [] [] a).sync cv
      let kb := (KeyPair.mk [] [] b).fillPrivate cv []
      s!"{if ka.2 then "ok" else "err"} {if kb.2 then "ok" else "err"} eq={b01 (decide (ka.1.share = kb.1.share))} a={hexOrDash ka.1.share} b={hexOrDash kb.1.share}"
    | _, _, _ => "bad-op"
  | _ => "bad-op"

end XMT.KeysConnDrv
