/-
  Lemmas about XMT/KeysConn.lean: the conn built by `Listener.resolve` carries the Session's key on
  every path; in a poll the reply is encrypted with the key the client decrypts it with; a channel
  without a re-key keeps every `KeyCrypt` pair on one key.
-/
import XMT.KeysConn
import XMT.KeysLemmas
namespace XMT.Keys
open XMT

/-! ### `Listener.resolve` -/

theorem connResolveLoop_keys (hostId : Nat) (tags : List Nat) : ∀ (i : Nat) (hs : List Host) (c : Conn),
    (connResolveLoop hostId i tags hs c).1.keys = c.keys ∧
    (connResolveLoop hostId i tags hs c).1.host = c.host := by
  induction tags with
  | nil => intro i hs c; simp [connResolveLoop]
  | cons t ts ih =>
    intro i hs c
    unfold connResolveLoop
    split
    · exact ⟨rfl, rfl⟩
    · split
      · exact ⟨rfl, rfl⟩
      · split
        · exact ih _ _ _
        · split
          · exact ih _ _ _
          · split
            · exact ih _ _ _
            · split
              · exact ⟨(ih (i + 1) hs _).1, (ih (i + 1) hs _).2⟩
              · have := ih (i + 1) (hs.map (fun h => if h.id == t then { h with queue := none } else h))
                exact ⟨(this _).1, (this _).2⟩

theorem listenerResolve_keys (hs : List Host) (s : Host) (tags : List Nat) :
    (listenerResolve hs s tags).1.keys = s.keys ∧ (listenerResolve hs s tags).1.host = s.id := by
  unfold listenerResolve
  split
  · exact ⟨rfl, rfl⟩
  · exact connResolveLoop_keys s.id tags 0 hs _

/-! ### polls -/

theorem clientNext_keys (c : Curve) (cl : Client) (send : Send) : (clientNext c cl send).2.keys = cl.keys := by
  unfold clientNext
  split
  · rfl
  · split
    · rfl
    · split <;> rfl

theorem talkConn_some (c : Curve) (live : Bool) (tags : List Nat) (sk : KeyPair) (w : Pkt) (reply : Bytes)
    (t : KeyPair × Pkt × Option Bytes × Conn) (h : talkConn c live tags sk w reply = some t) :
    ∃ conn, conn.keys = sk ∧ t = talkBody c live conn sk w reply := by
  unfold talkConn at h
  have hk := (listenerResolve_keys [] { id := 0, keys := sk } tags).1
  generalize listenerResolve [] { id := 0, keys := sk } tags = r at h hk
  obtain ⟨conn, hs, ok⟩ := r
  cases ok
  · simp at h
  · simp only [Option.some.injEq] at h
    exact ⟨conn, hk, h.symm⟩

theorem talkConn_share (c : Curve) (tags : List Nat) (sk : KeyPair) (w : Pkt) (reply : Bytes)
    (t : KeyPair × Pkt × Option Bytes × Conn) (h : talkConn c false tags sk w reply = some t) :
    t.2.2.2.keys = sk ∧ t.2.1.payload = xorOp reply sk.share := by
  obtain ⟨conn, hk, rfl⟩ := talkConn_some c false tags sk w reply t h
  simp [talkBody, hk]

/-- With no tags the explicit-conn version IS the registered arm of `Keys.talk`. -/
theorem talkConn_talk (c : Curve) (srv : Server) (sk : KeyPair) (hs : srv.sess = some sk) (w : Pkt)
    (reply : Bytes) :
    ∃ t, talkConn c false [] sk w reply = some t ∧
      talk c srv w reply = ({ srv with sess := some t.1 }, some t.2.1, t.2.2.1) := by
  cases srv with | mk keys sess =>
  simp only at hs; subst hs
  refine ⟨talkBody c false { host := 0, keys := sk } sk w reply, ?_, ?_⟩
  · simp [talkConn, listenerResolve]
  · simp [talk, talkBody]

theorem pollUses_agree (c : Curve) (tags : List Nat) (cl : Client) (srv : Server) (sk : KeyPair)
    (send : Send) (reply : Bytes) (f : Fault) (hs : srv.sess = some sk)
    (hk : cl.keys.share = sk.share) :
    ∀ u ∈ pollUses c false tags cl srv send reply f, u.Agree := by
  intro u hu
  unfold pollUses at hu
  rw [hs] at hu
  simp only at hu
  have hck := clientNext_keys c cl send
  split at hu
  · simp at hu
  · split at hu
    · simp at hu
    · rename_i t ht
      have hts := talkConn_share c tags sk _ reply t ht
      have hkk : (clientNext c cl send).2.keys.share = sk.share := by rw [hck]; exact hk
      split at hu
      · simp only [List.mem_singleton] at hu
        subst hu
        exact ⟨hkk, by simp [hkk, xorOp_involutive]⟩
      · simp only [List.mem_cons, List.not_mem_nil, or_false] at hu
        rcases hu with hu | hu
        · subst hu
          exact ⟨hkk, by simp [hkk, xorOp_involutive]⟩
        · subst hu
          refine ⟨by simp [hts.1, hkk], ?_⟩
          simp [hts.2, hkk, xorOp_involutive]

theorem stepUses_agree (c : Curve) (s : State) (e : Ev) (h : Inv c s) :
    ∀ u ∈ stepUses c false s e, u.Agree := by
  cases e with
  | drop => simp [stepUses]
  | connect a info f => simp [stepUses]
  | xchg send reply fresh f =>
    cases hcl : s.client with
    | none => simp [stepUses, hcl]
    | some cl =>
      cases hsk : s.server.sess with
      | none => simp [stepUses, hcl, pollUses, hsk]
      | some sk =>
        have hk : cl.keys.share = sk.share := h.synced cl sk hcl hsk
        simpa [stepUses, hcl] using pollUses_agree c [] cl s.server sk send reply f hsk hk

theorem histUses_agree (c : Curve) (hc : c.WF) (evs : List Ev) : ∀ (s : State),
    (∀ e ∈ evs, e.Sized ∧ e.NoLoss) → Inv c s → ∀ u ∈ histUses c false s evs, u.Agree := by
  induction evs with
  | nil => intro s _ _ u hu; simp [histUses] at hu
  | cons e es ih =>
    intro s hall h u hu
    have he := hall e (by simp)
    simp only [histUses, List.mem_append] at hu
    rcases hu with hu | hu
    · exact stepUses_agree c s e h u hu
    · exact ih (step c s e) (fun e' he' => hall e' (by simp [he'])) (step_inv c hc s e he.1 he.2 h) u hu

/-- The re-key poll of a synchronised pair, with the keys spelled out: the Session's live key after
`talk` is the NEW secret, the conn holds the OLD one, the client still decrypts with the OLD one. -/
theorem talkConn_rekey (c : Curve) (live : Bool) (tags : List Nat) (sk : KeyPair) (buf v reply : Bytes)
    (hk : sk.pub.length = pubSize) (hb : buf.length = pubSize) (hv : c.dh sk.priv buf = some v)
    (t : KeyPair × Pkt × Option Bytes × Conn)
    (h : talkConn c live tags sk { id := .data, crypt := true, payload := xorOp buf sk.share } reply = some t) :
    t.1.share = copyInto sk.share v ∧ t.2.2.2.keys.share = sk.share ∧
    t.2.1.payload = xorOp reply (if live then copyInto sk.share v else sk.share) := by
  obtain ⟨conn, hkk, rfl⟩ := talkConn_some c live tags sk _ reply t h
  have h0 : buf.length ≠ 0 := by rw [hb]; exact pubSize_pos
  cases live <;>
    simp [talkBody, updateIfCrypt, xorOp_involutive, h0, regenerate_pub c sk buf v hk hb hv, hkk]

/-! ### channels -/

/-- What a channel keeps while no re-key is announced: the client's key, the conn's key and the key
of every packet in flight are one share `K`; every recorded `KeyCrypt` pair agrees. -/
structure ChanInv (K : Bytes) (s : Chan) : Prop where
  next : s.cl.next = none
  hello : s.cl.hello = none
  cli : s.cl.keys.share = K
  conn : s.conn.keys.share = K
  c2s : ∀ w ∈ s.c2s, w.enc = K ∧ w.pkt.crypt = false ∧ w.pkt.payload = xorOp w.sent K
  s2c : ∀ w ∈ s.s2c, w.enc = K ∧ w.pkt.payload = xorOp w.sent K
  uses : ∀ u ∈ s.uses, u.Agree

/-- The weaker invariant that survives the client's swap: server-bound traffic still matches the
conn's copy. -/
structure ChanInvS (K : Bytes) (s : Chan) : Prop where
  conn : s.conn.keys.share = K
  c2s : ∀ w ∈ s.c2s, w.enc = K ∧ w.pkt.payload = xorOp w.sent K
  uses : ∀ u ∈ s.uses, u.Agree

theorem ChanGood.inv {s : Chan} (h : ChanGood s) : ChanInv s.sess.share s := by
  obtain ⟨h1, h2, h3, h4, h5, h6, h7, _⟩ := h
  exact ⟨h1, h2, h3, h4, by simp [h5], by simp [h6], by simp [h7]⟩

theorem ChanInv.toS {K : Bytes} {s : Chan} (h : ChanInv K s) : ChanInvS K s :=
  ⟨h.conn, fun w hw => ⟨(h.c2s w hw).1, (h.c2s w hw).2.2⟩, h.uses⟩

theorem updateIfCrypt_false (c : Curve) (sk : KeyPair) (rest : Bytes) :
    updateIfCrypt c sk false rest = (sk, rest) := by simp [updateIfCrypt]

theorem chanStep_inv (c : Curve) (K : Bytes) (s : Chan) (e : ChanEv) (hn : e.NoRekey)
    (h : ChanInv K s) : ChanInv K (chanStep c s e) := by
  obtain ⟨cl, sess, conn, c2s, s2c, uses, up⟩ := s
  obtain ⟨hnext, hhello, hcli, hconn, hc2s, hs2c, huses⟩ := h
  simp only at hnext hhello hcli hconn hc2s hs2c huses
  obtain ⟨ckeys, cnext, chello⟩ := cl
  simp only at hnext hhello hcli; subst hnext hhello
  cases e with
  | cSend send fail =>
    cases send with
    | rekey a => exact absurd hn (by simp [ChanEv.NoRekey])
    | data p =>
      cases up <;> cases fail <;>
        simp only [chanStep, clientNext, checkSync, Bool.not_true, Bool.not_false, if_true, if_false,
          Bool.false_eq_true] <;>
        refine ⟨rfl, rfl, hcli, hconn, ?_, hs2c, huses⟩ <;> try exact hc2s
      intro w hw
      simp only [List.mem_append, List.mem_singleton] at hw
      rcases hw with hw | hw
      · exact hc2s w hw
      · subst hw; simp [hcli]
  | sRecv =>
    cases up
    · simpa [chanStep] using ChanInv.mk rfl rfl hcli hconn hc2s hs2c huses
    · cases c2s with
      | nil => simpa [chanStep] using ChanInv.mk rfl rfl hcli hconn hc2s hs2c huses
      | cons w rest =>
        have hw := hc2s w (by simp)
        simp only [chanStep, Bool.not_true, if_false, Bool.false_eq_true, hw.2.1, updateIfCrypt_false]
        refine ⟨rfl, rfl, hcli, hconn, fun w' hw' => hc2s w' (by simp [hw']), hs2c, ?_⟩
        intro u hu
        simp only [List.mem_append, List.mem_singleton] at hu
        rcases hu with hu | hu
        · exact huses u hu
        · subst hu
          exact ⟨by simp [hw.1, hconn], by simp [hw.2.2, hconn, xorOp_involutive]⟩
  | sSend p fail =>
    cases up <;> cases fail <;>
      simp only [chanStep, Bool.not_true, Bool.not_false, if_true, if_false, Bool.false_eq_true] <;>
      refine ⟨rfl, rfl, hcli, hconn, hc2s, ?_, huses⟩ <;> try exact hs2c
    intro w hw
    simp only [List.mem_append, List.mem_singleton] at hw
    rcases hw with hw | hw
    · exact hs2c w hw
    · subst hw; simp [hconn]
  | cRecv =>
    cases up
    · simpa [chanStep] using ChanInv.mk rfl rfl hcli hconn hc2s hs2c huses
    · cases s2c with
      | nil => simpa [chanStep] using ChanInv.mk rfl rfl hcli hconn hc2s hs2c huses
      | cons w rest =>
        have hw := hs2c w (by simp)
        simp only [chanStep, Bool.not_true, if_false, Bool.false_eq_true]
        refine ⟨rfl, rfl, hcli, hconn, hc2s, fun w' hw' => hs2c w' (by simp [hw']), ?_⟩
        intro u hu
        simp only [List.mem_append, List.mem_singleton] at hu
        rcases hu with hu | hu
        · exact huses u hu
        · subst hu
          exact ⟨by simp [hw.1, hcli], by simp [hw.2, hcli, xorOp_involutive]⟩

theorem chanRun_inv (c : Curve) (K : Bytes) (evs : List ChanEv) : ∀ (s : Chan),
    (∀ e ∈ evs, e.NoRekey) → ChanInv K s → ChanInv K (chanRun c s evs) := by
  induction evs with
  | nil => intro s _ h; exact h
  | cons e es ih =>
    intro s hall h
    exact ih (chanStep c s e) (fun e' he' => hall e' (by simp [he']))
      (chanStep_inv c K s e (hall e (by simp)) h)

/-- Any client write from a state of `ChanInv` (a re-key announcement included) leaves the
server-bound traffic on the conn's key: the client swaps only AFTER the write. -/
theorem chanStep_cSend_invS (c : Curve) (K : Bytes) (s : Chan) (send : Send) (fail : Bool)
    (h : ChanInv K s) : ChanInvS K (chanStep c s (.cSend send fail)) := by
  obtain ⟨cl, sess, conn, c2s, s2c, uses, up⟩ := s
  obtain ⟨hnext, hhello, hcli, hconn, hc2s, hs2c, huses⟩ := h
  simp only at hnext hhello hcli hconn hc2s hs2c huses
  have hck := clientNext_keys c cl send
  have hc2s' : ∀ w ∈ c2s, w.enc = K ∧ w.pkt.payload = xorOp w.sent K :=
    fun w hw => ⟨(hc2s w hw).1, (hc2s w hw).2.2⟩
  cases up <;> cases fail <;>
    simp only [chanStep, Bool.not_true, Bool.not_false, if_true, if_false, Bool.false_eq_true] <;>
    refine ⟨hconn, ?_, huses⟩ <;> try exact hc2s'
  intro w hw
  simp only [List.mem_append, List.mem_singleton] at hw
  rcases hw with hw | hw
  · exact hc2s' w hw
  · subst hw; simp [hck, hcli]

theorem chanStep_sRecv_invS (c : Curve) (K : Bytes) (s : Chan) (h : ChanInvS K s) :
    ChanInvS K (chanStep c s .sRecv) := by
  obtain ⟨cl, sess, conn, c2s, s2c, uses, up⟩ := s
  obtain ⟨hconn, hc2s, huses⟩ := h
  simp only at hconn hc2s huses
  cases up
  · simpa [chanStep] using ChanInvS.mk hconn hc2s huses
  · cases c2s with
    | nil => simpa [chanStep] using ChanInvS.mk hconn hc2s huses
    | cons w rest =>
      have hw := hc2s w (by simp)
      simp only [chanStep, Bool.not_true, if_false, Bool.false_eq_true]
      refine ⟨hconn, fun w' hw' => hc2s w' (by simp [hw']), ?_⟩
      intro u hu
      simp only [List.mem_append, List.mem_singleton] at hu
      rcases hu with hu | hu
      · exact huses u hu
      · subst hu
        exact ⟨by simp [hw.1, hconn], by simp [hw.2, hconn, xorOp_involutive]⟩

theorem chanRun_sRecv_invS (c : Curve) (K : Bytes) (evs : List ChanEv) : ∀ (s : Chan),
    (∀ e ∈ evs, e.IsSRecv) → ChanInvS K s → ChanInvS K (chanRun c s evs) := by
  induction evs with
  | nil => intro s _ h; exact h
  | cons e es ih =>
    intro s hall h
    have he := hall e (by simp)
    cases e with
    | sRecv =>
      exact ih (chanStep c s .sRecv) (fun e' he' => hall e' (by simp [he'])) (chanStep_sRecv_invS c K s h)
    | cSend _ _ => exact absurd he (by simp [ChanEv.IsSRecv])
    | sSend _ _ => exact absurd he (by simp [ChanEv.IsSRecv])
    | cRecv => exact absurd he (by simp [ChanEv.IsSRecv])

/-- `resolve` without tags cannot fail: the channel is opened. -/
theorem chanOpen_eq (c : Curve) (refresh : Bool) (cl : Client) (sk : KeyPair) (send : Send) (reply : Bytes) :
    chanOpen c refresh cl sk send reply =
      some { cl := (checkSync c (clientNext c cl send).2).1,
             sess := (talkBody c false { host := 0, keys := sk } sk
                ((clientNext c cl send).1.encryptedWith (clientNext c cl send).2.keys.share) reply).1,
             conn := if refresh then
                 { host := 0, keys := (talkBody c false { host := 0, keys := sk } sk
                    ((clientNext c cl send).1.encryptedWith (clientNext c cl send).2.keys.share) reply).1 }
               else { host := 0, keys := sk } } := by
  cases refresh <;> simp [chanOpen, talkConn, listenerResolve, Pkt.encryptedWith, talkBody]

theorem chanRun_append (c : Curve) (s : Chan) (a b : List ChanEv) :
    chanRun c s (a ++ b) = chanRun c (chanRun c s a) b := by
  simp [chanRun, List.foldl_append]

end XMT.Keys
