/-
  Concrete channel / poll witnesses over the toy curve (property C06 extension): executable checks
  whose results the property theorems state and prove by `decide`.
-/
import XMT.KeysConnLemmas
import XMT.KeysShare
import XMT.KeysToy
namespace XMT.Keys
open XMT

def wS : Bytes := zeros 65 ++ [3]
def wA : Bytes := zeros 65 ++ [5]
def wB : Bytes := zeros 65 ++ [7]

/-- client and server-side Session keys after `connect` (toy curve, server scalar `wS`, client `wA`) -/
def wPair : Option (Client × KeyPair) :=
  match (run toy (init toy wS) [.connect wA [9, 9] .ok]) with
  | ⟨some cl, ⟨_, some sk⟩, _⟩ => some (cl, sk)
  | _ => none

/-- a channel opened by the poll `send` (reply `[]`) of that pair, then `evs`; result: was the
channel `ChanGood` when it started, do the two SESSIONS agree at the end, does the conn's copy equal
the Session's key at the end, which `KeyCrypt` pairs agreed. -/
def chanWitness (refresh : Bool) (send : Send) (evs : List ChanEv) : Option (Bool × Bool × Bool × List Bool) :=
  wPair.bind fun p => (chanOpen toy refresh p.1 p.2 send []).map fun s0 =>
    let s := chanRun toy s0 evs
    (decide (ChanGood s0), decide (s.cl.keys.share = s.sess.share),
     decide (s.conn.keys.share = s.sess.share), s.uses.map (fun u => decide u.Agree))

/-- the re-key poll of that pair with reply `reply`: which `KeyCrypt` pairs agree -/
def pollWitness (live : Bool) (tags : List Nat) (reply : Bytes) : Option (List Bool) :=
  wPair.map fun p =>
    (pollUses toy live tags p.1 { keys := KeyPair.zero, sess := some p.2 } (.rekey wB) reply .ok).map
      (fun u => decide u.Agree)

end XMT.Keys
