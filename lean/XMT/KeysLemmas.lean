/-
  Lemmas about the key state machines of XMT/Keys.lean: what each protocol function computes under
  the curve hypotheses, and the invariant preserved by every event without a lost reply.
-/
import XMT.KeysXor
namespace XMT.Keys
open XMT

/-- Hypotheses on the curve parameter (each is exercised on real P-521 by the harness). -/
structure Curve.WF (c : Curve) : Prop where
  /-- Diffie–Hellman: both sides compute the same secret. -/
  comm : ∀ a b, c.dh a (c.pubOf b) = c.dh b (c.pubOf a)
  /-- generated keys always yield a secret -/
  total : ∀ a b, a.length = privSize → b.length = privSize → ∃ v, c.dh a (c.pubOf b) = some v
  /-- a marshalled public key fills the PublicKey array … -/
  pubLen : ∀ a, (c.pubOf a).length = pubSize
  /-- … and is not all zero (it starts with the uncompressed-point tag) -/
  pubNonzero : ∀ a, allZero (c.pubOf a) = false

/-! ### arrays -/

@[simp] theorem zeros_length (n : Nat) : (zeros n).length = n := by simp [zeros]

@[simp] theorem copyInto_length (d s : Bytes) : (copyInto d s).length = d.length := by
  simp only [copyInto, List.length_append, List.length_take, List.length_drop]; omega

theorem copyInto_same (d s : Bytes) (h : d.length = s.length) : copyInto d s = s := by
  simp [copyInto, h]

theorem allZero_zeros (n : Nat) : allZero (zeros n) = true := by
  simp [allZero, zeros]

theorem pubSize_pos : pubSize ≠ 0 := by decide
theorem shareSize_pos : shareSize ≠ 0 := by decide

@[simp] theorem zero_pub_length : KeyPair.zero.pub.length = pubSize := by simp [KeyPair.zero]
@[simp] theorem zero_priv_length : KeyPair.zero.priv.length = privSize := by simp [KeyPair.zero]
@[simp] theorem zero_share : KeyPair.zero.share = zeros shareSize := rfl

/-! ### KeyPair operations on well-sized data -/

theorem fill_spec (c : Curve) (hc : c.WF) (k : KeyPair) (a : Bytes)
    (hp : k.pub.length = pubSize) (hq : k.priv.length = privSize) (ha : a.length = privSize) :
    k.fill c a = ⟨c.pubOf a, a, zeros k.share.length⟩ := by
  simp [KeyPair.fill, copyInto_same _ _ (hp.trans (hc.pubLen a).symm), copyInto_same _ _ (hq.trans ha.symm)]

theorem zero_fill (c : Curve) (hc : c.WF) (a : Bytes) (ha : a.length = privSize) :
    KeyPair.zero.fill c a = ⟨c.pubOf a, a, zeros shareSize⟩ := by
  rw [fill_spec c hc _ a zero_pub_length zero_priv_length ha]; simp

theorem readPub_full (k : KeyPair) (buf : Bytes) (hk : k.pub.length = pubSize) (hb : buf.length = pubSize) :
    k.readPub buf = ({ k with pub := buf }, [], true) := by
  have hd : List.drop pubSize buf = [] := List.drop_eq_nil_of_le (by omega)
  simp [KeyPair.readPub, copyInto_same _ _ (hk.trans hb.symm), hk, hb, pubSize_pos, hd]

theorem fillShared_some (c : Curve) (k : KeyPair) (n m v : Bytes) (h : c.dh m n = some v) :
    k.fillShared c n m = ({ k with share := copyInto k.share v }, true) := by
  simp [KeyPair.fillShared, h]

theorem fillShared_none (c : Curve) (k : KeyPair) (n m : Bytes) (h : c.dh m n = none) :
    k.fillShared c n m = (k, false) := by
  simp [KeyPair.fillShared, h]

theorem fillShared_lengths (c : Curve) (k : KeyPair) (n m : Bytes) :
    (k.fillShared c n m).1.share.length = k.share.length ∧ (k.fillShared c n m).1.pub = k.pub ∧
    (k.fillShared c n m).1.priv = k.priv := by
  unfold KeyPair.fillShared; split <;> simp

theorem fillPrivate_some (c : Curve) (k : KeyPair) (p v : Bytes) (h : c.dh p k.pub = some v)
    (hl : k.priv.length = p.length) :
    k.fillPrivate c p = ({ k with share := copyInto k.share v, priv := p }, true) := by
  simp [KeyPair.fillPrivate, fillShared_some c k k.pub p v h, copyInto_same _ _ hl]

theorem fillPrivate_lengths (c : Curve) (k : KeyPair) (p : Bytes) :
    (k.fillPrivate c p).1.share.length = k.share.length ∧ (k.fillPrivate c p).1.pub = k.pub ∧
    (k.fillPrivate c p).1.priv.length = k.priv.length := by
  have h := fillShared_lengths c k k.pub p
  unfold KeyPair.fillPrivate
  generalize k.fillShared c k.pub p = r at h
  obtain ⟨k', b⟩ := r
  cases b <;> simp_all

theorem sync_some (c : Curve) (k : KeyPair) (v : Bytes) (h : c.dh k.priv k.pub = some v) :
    k.sync c = ({ k with share := copyInto k.share v }, true) := fillShared_some c k _ _ v h

/-! ### Server side -/

theorem talk_data (c : Curve) (srv : Server) (sk : KeyPair) (hs : srv.sess = some sk) (p reply : Bytes) :
    talk c srv { id := .data, crypt := false, payload := xorOp p sk.share } reply =
      (srv, some { id := .data, crypt := false, payload := xorOp reply sk.share }, some p) := by
  cases srv with | mk keys sess =>
  simp only at hs; subst hs
  simp [talk, updateIfCrypt, xorOp_involutive]

theorem regenerate_pub (c : Curve) (sk : KeyPair) (buf v : Bytes) (hk : sk.pub.length = pubSize)
    (hb : buf.length = pubSize) (hv : c.dh sk.priv buf = some v) :
    regenerate c sk buf = ({ sk with pub := buf, share := copyInto sk.share v }, []) := by
  simp [regenerate, readPub_full sk buf hk hb, KeyPair.sync, fillShared_some c _ buf sk.priv v hv]

theorem talk_rekey (c : Curve) (srv : Server) (sk : KeyPair) (hs : srv.sess = some sk)
    (buf v reply : Bytes) (hk : sk.pub.length = pubSize) (hb : buf.length = pubSize)
    (hv : c.dh sk.priv buf = some v) :
    talk c srv { id := .data, crypt := true, payload := xorOp buf sk.share } reply =
      ({ srv with sess := some { sk with pub := buf, share := copyInto sk.share v } },
       some { id := .data, crypt := false, payload := xorOp reply sk.share }, none) := by
  cases srv with | mk keys sess =>
  simp only at hs; subst hs
  have h0 : buf.length ≠ 0 := by rw [hb]; exact pubSize_pos
  simp [talk, updateIfCrypt, xorOp_involutive, h0, regenerate_pub c sk buf v hk hb hv]

theorem talk_unregistered (c : Curve) (srv : Server) (hs : srv.sess = none) (w : Pkt) (reply : Bytes)
    (hw : w.id ≠ .hello) :
    talk c srv w reply = (srv, some { id := .register, crypt := false, payload := [] }, none) := by
  cases srv with | mk keys sess =>
  simp only at hs; subst hs
  simp [talk, hw]

theorem listenerInit_pub (c : Curve) (srvPriv buf v : Bytes) (hb : buf.length = pubSize)
    (hp : srvPriv.length = privSize) (hv : c.dh srvPriv buf = some v) :
    listenerInit c srvPriv buf = (⟨buf, srvPriv, copyInto (zeros shareSize) v⟩, []) := by
  have h1 : (KeyPair.mk buf KeyPair.zero.priv (zeros shareSize)).priv.length = srvPriv.length := by
    simp [hp]
  simp [listenerInit, readPub_full KeyPair.zero buf zero_pub_length hb]
  rw [fillPrivate_some c ⟨buf, KeyPair.zero.priv, zeros shareSize⟩ srvPriv v hv h1]

theorem talk_hello (c : Curve) (srv : Server) (hs : srv.sess = none) (info pub v reply : Bytes)
    (hb : pub.length = pubSize) (hp : srv.keys.priv.length = privSize)
    (hv : c.dh srv.keys.priv pub = some v) :
    talk c srv { id := .hello, crypt := true, payload := info ++ pub, infoLen := info.length } reply =
      ({ srv with sess := some ⟨pub, srv.keys.priv, copyInto (zeros shareSize) v⟩ },
       some (hostSync srv.keys), none) := by
  cases srv with | mk keys sess =>
  simp only at hs; subst hs
  have h0 : pub ≠ [] := by
    intro h; rw [h] at hb; exact pubSize_pos hb.symm
  simp [talk, h0, listenerInit_pub c keys.priv pub v hb hp hv, updateIfCrypt]

/-! ### Client side -/

theorem sessionSync_fresh (c : Curve) (k : KeyPair) (buf v : Bytes) (t : Bool)
    (hz : k.share = zeros shareSize) (hk : k.pub.length = pubSize) (hb : buf.length = pubSize)
    (hnz : allZero buf = false) (hv : c.dh k.priv buf = some v) :
    sessionSync c k buf t = ({ k with pub := buf, share := copyInto (zeros shareSize) v }, true) := by
  have hs : k.isSynced = false := by simp [KeyPair.isSynced, hz, allZero_zeros]
  simp [sessionSync, hs, readPub_full k buf hk hb, hnz, KeyPair.sync,
    fillShared_some c _ buf k.priv v hv, hz]

/-! ### Invariant -/

/-- The Server generated its KeyPair (`Fill`). -/
structure SrvOK (c : Curve) (srv : Server) : Prop where
  pub : srv.keys.pub = c.pubOf srv.keys.priv
  privLen : srv.keys.priv.length = privSize

def helloOf (pub : Bytes) : Pkt :=
  { id := .hello, crypt := true, payload := reInfo ++ pub, infoLen := reInfo.length }

/-- What holds of a client between two events when no reply was ever lost. -/
def CliInv (c : Curve) (srv : Server) (cl : Client) : Prop :=
  cl.next = none ∧ cl.keys.share.length = shareSize ∧ cl.keys.pub.length = pubSize ∧
  cl.keys.priv.length = privSize ∧
  match srv.sess, cl.hello with
  | some sk, h => h = none ∧ cl.keys.share = sk.share ∧ cl.keys.pub = srv.keys.pub ∧
                   sk.priv = srv.keys.priv ∧ sk.pub.length = pubSize
  | none, none => True
  | none, some h => h = helloOf cl.keys.pub ∧ cl.keys.pub = c.pubOf cl.keys.priv ∧
                     cl.keys.share = zeros shareSize

def Send.Sized : Send → Prop
  | .data _ => True
  | .rekey a => a.length = privSize

theorem checkSync_none (c : Curve) (cl : Client) (h : cl.next = none) : checkSync c cl = (cl, true) := by
  simp [checkSync, h]

theorem intact_nil : ∀ o ∈ ([] : List Obs), o.got = o.sent := by simp

/-- One exchange without a lost reply preserves the invariant and delivers payloads intact. -/
theorem xchgStep_inv (c : Curve) (hc : c.WF) (cl : Client) (srv : Server) (send : Send)
    (reply fresh : Bytes) (f : Fault) (hf : f ≠ .replyLost) (hsend : send.Sized)
    (hfresh : fresh.length = privSize) (hsrv : SrvOK c srv) (hcl : CliInv c srv cl) :
    SrvOK c (xchgStep c cl srv send reply fresh f).2.1 ∧
    CliInv c (xchgStep c cl srv send reply fresh f).2.1 (xchgStep c cl srv send reply fresh f).1 ∧
    ∀ o ∈ (xchgStep c cl srv send reply fresh f).2.2, o.got = o.sent := by
  obtain ⟨hnext, hshl, hpubl, hprivl, hrel⟩ := hcl
  cases srv with | mk skeys sess =>
  cases cl with | mk keys next hello =>
  simp only at hnext hshl hpubl hprivl hrel; subst hnext
  have hspub : skeys.pub = c.pubOf skeys.priv := hsrv.pub
  have hspl : skeys.priv.length = privSize := hsrv.privLen
  have hfcases : f = .writeFail ∨ f = .ok := by cases f <;> simp_all
  cases sess with
  | some sk =>
    -- registered
    obtain ⟨hh, hsh, hcp, hskp, hskl⟩ := hrel
    subst hh
    obtain ⟨kpub, kpriv, kshare⟩ := keys
    simp only at hsh hcp hshl hpubl hprivl; subst hsh hcp
    cases send with
    | data p =>
      rcases hfcases with rfl | rfl
      · have e : xchgStep c ⟨⟨skeys.pub, kpriv, sk.share⟩, none, none⟩ ⟨skeys, some sk⟩ (.data p) reply fresh .writeFail
            = (⟨⟨skeys.pub, kpriv, sk.share⟩, none, none⟩, ⟨skeys, some sk⟩, []) := by
          simp [xchgStep, clientNext]
        rw [e]
        exact ⟨hsrv, ⟨rfl, hshl, hpubl, hprivl, rfl, rfl, rfl, hskp, hskl⟩, intact_nil⟩
      · have ht := talk_data c ⟨skeys, some sk⟩ sk rfl p reply
        have e : xchgStep c ⟨⟨skeys.pub, kpriv, sk.share⟩, none, none⟩ ⟨skeys, some sk⟩ (.data p) reply fresh .ok
            = (⟨⟨skeys.pub, kpriv, sk.share⟩, none, none⟩, ⟨skeys, some sk⟩,
               [⟨true, p, p⟩, ⟨false, reply, reply⟩]) := by
          simp [xchgStep, clientNext, ht, clientReceive, checkSync, obsOf, xorOp_involutive]
        rw [e]
        refine ⟨hsrv, ⟨rfl, hshl, hpubl, hprivl, rfl, rfl, rfl, hskp, hskl⟩, ?_⟩
        intro o ho; simp at ho; rcases ho with rfl | rfl <;> rfl
    | rekey a =>
      have ha : a.length = privSize := hsend
      have hz := zero_fill c hc a ha
      rcases hfcases with rfl | rfl
      · have e : xchgStep c ⟨⟨skeys.pub, kpriv, sk.share⟩, none, none⟩ ⟨skeys, some sk⟩ (.rekey a) reply fresh .writeFail
            = (⟨⟨skeys.pub, kpriv, sk.share⟩, none, none⟩, ⟨skeys, some sk⟩, []) := by
          simp [xchgStep, clientNext]
        rw [e]
        exact ⟨hsrv, ⟨rfl, hshl, hpubl, hprivl, rfl, rfl, rfl, hskp, hskl⟩, intact_nil⟩
      · obtain ⟨v, hv⟩ := hc.total skeys.priv a hspl ha
        have hv1 : c.dh sk.priv (c.pubOf a) = some v := by rw [hskp]; exact hv
        have hv2 : c.dh a skeys.pub = some v := by rw [hspub, hc.comm]; exact hv
        have ht := talk_rekey c ⟨skeys, some sk⟩ sk rfl (c.pubOf a) v reply hskl (hc.pubLen a) hv1
        have hfp := fillPrivate_some c ⟨skeys.pub, kpriv, sk.share⟩ a v hv2 (hprivl.trans ha.symm)
        have e : xchgStep c ⟨⟨skeys.pub, kpriv, sk.share⟩, none, none⟩ ⟨skeys, some sk⟩ (.rekey a) reply fresh .ok
            = (⟨⟨skeys.pub, a, copyInto sk.share v⟩, none, none⟩,
               ⟨skeys, some { sk with pub := c.pubOf a, share := copyInto sk.share v }⟩,
               [⟨false, reply, reply⟩]) := by
          simp [xchgStep, clientNext, hz, ht, clientReceive, checkSync, hfp, obsOf, xorOp_involutive]
        rw [e]
        refine ⟨⟨hspub, hspl⟩, ⟨rfl, by simpa using hshl, hpubl, ha, rfl, rfl, rfl, hskp, hc.pubLen a⟩, ?_⟩
        intro o ho; simp at ho; subst ho; rfl
  | none =>
    -- the server holds no Session for this client
    have hreg : ∀ w : Pkt, w.id ≠ .hello → talk c ⟨skeys, none⟩ w reply =
        (⟨skeys, none⟩, some { id := .register, crypt := false, payload := [] }, none) :=
      fun w hw => talk_unregistered c ⟨skeys, none⟩ rfl w reply hw
    have hgen : ∀ k : KeyPair, k.pub.length = pubSize → k.priv.length = privSize →
        k.share.length = shareSize →
        sessionGenerate c k fresh reInfo = (⟨c.pubOf fresh, fresh, zeros shareSize⟩, helloOf (c.pubOf fresh)) := by
      intro k h1 h2 h3
      simp [sessionGenerate, fill_spec c hc k fresh h1 h2 hfresh, h3, helloOf]
    have hnew : CliInv c ⟨skeys, none⟩ ⟨⟨c.pubOf fresh, fresh, zeros shareSize⟩, none, some (helloOf (c.pubOf fresh))⟩ :=
      ⟨rfl, by simp, hc.pubLen fresh, hfresh, rfl, rfl, rfl⟩
    cases hello with
    | none =>
      cases send with
      | data p =>
        rcases hfcases with rfl | rfl
        · have e : xchgStep c ⟨keys, none, none⟩ ⟨skeys, none⟩ (.data p) reply fresh .writeFail
              = (⟨keys, none, none⟩, ⟨skeys, none⟩, []) := by
            simp [xchgStep, clientNext]
          rw [e]
          exact ⟨hsrv, ⟨rfl, hshl, hpubl, hprivl, trivial⟩, intact_nil⟩
        · have e : xchgStep c ⟨keys, none, none⟩ ⟨skeys, none⟩ (.data p) reply fresh .ok
              = (⟨⟨c.pubOf fresh, fresh, zeros shareSize⟩, none, some (helloOf (c.pubOf fresh))⟩,
                 ⟨skeys, none⟩, []) := by
            simp [xchgStep, clientNext, hreg, clientReceive, checkSync, obsOf,
              hgen keys hpubl hprivl hshl]
          rw [e]
          exact ⟨hsrv, hnew, intact_nil⟩
      | rekey a =>
        have ha : a.length = privSize := hsend
        have hz := zero_fill c hc a ha
        rcases hfcases with rfl | rfl
        · have e : xchgStep c ⟨keys, none, none⟩ ⟨skeys, none⟩ (.rekey a) reply fresh .writeFail
              = (⟨keys, none, none⟩, ⟨skeys, none⟩, []) := by
            simp [xchgStep, clientNext]
          rw [e]
          exact ⟨hsrv, ⟨rfl, hshl, hpubl, hprivl, trivial⟩, intact_nil⟩
        · cases hd : c.dh a keys.pub with
          | none =>
            have hfp : keys.fillPrivate c a = (keys, false) := by
              simp [KeyPair.fillPrivate, fillShared_none c keys keys.pub a hd]
            have e : xchgStep c ⟨keys, none, none⟩ ⟨skeys, none⟩ (.rekey a) reply fresh .ok
                = (⟨keys, none, none⟩, ⟨skeys, none⟩, []) := by
              simp [xchgStep, clientNext, hz, hreg, clientReceive, checkSync, hfp, obsOf]
            rw [e]
            exact ⟨hsrv, ⟨rfl, hshl, hpubl, hprivl, trivial⟩, intact_nil⟩
          | some v =>
            have hfp := fillPrivate_some c keys a v hd (hprivl.trans ha.symm)
            have e : xchgStep c ⟨keys, none, none⟩ ⟨skeys, none⟩ (.rekey a) reply fresh .ok
                = (⟨⟨c.pubOf fresh, fresh, zeros shareSize⟩, none, some (helloOf (c.pubOf fresh))⟩,
                   ⟨skeys, none⟩, []) := by
              simp [xchgStep, clientNext, hz, hreg, clientReceive, checkSync, hfp, obsOf,
                hgen ⟨keys.pub, a, copyInto keys.share v⟩ hpubl ha (by simpa using hshl)]
            rw [e]
            exact ⟨hsrv, hnew, intact_nil⟩
    | some h =>
      obtain ⟨hh, hkp, hks⟩ := hrel
      subst hh
      rcases hfcases with rfl | rfl
      · have e : xchgStep c ⟨keys, none, some (helloOf keys.pub)⟩ ⟨skeys, none⟩ send reply fresh .writeFail
            = (⟨keys, none, none⟩, ⟨skeys, none⟩, []) := by
          simp [xchgStep, clientNext]
        rw [e]
        exact ⟨hsrv, ⟨rfl, hshl, hpubl, hprivl, trivial⟩, intact_nil⟩
      · obtain ⟨v, hv⟩ := hc.total skeys.priv keys.priv hspl hprivl
        have hv1 : c.dh skeys.priv keys.pub = some v := by rw [hkp]; exact hv
        have hv2 : c.dh keys.priv skeys.pub = some v := by rw [hspub, hc.comm]; exact hv
        have hspubl : skeys.pub.length = pubSize := by rw [hspub]; exact hc.pubLen _
        have hnz : allZero skeys.pub = false := by rw [hspub]; exact hc.pubNonzero _
        have ht := talk_hello c ⟨skeys, none⟩ rfl reInfo keys.pub v reply hpubl hspl hv1
        have hss := sessionSync_fresh c keys skeys.pub v true hks hpubl hspubl hnz hv2
        have hne : skeys.pub ≠ [] := by
          intro h0; rw [h0] at hspubl; exact pubSize_pos hspubl.symm
        have e : xchgStep c ⟨keys, none, some (helloOf keys.pub)⟩ ⟨skeys, none⟩ send reply fresh .ok
            = (⟨⟨skeys.pub, keys.priv, copyInto (zeros shareSize) v⟩, none, none⟩,
               ⟨skeys, some ⟨keys.pub, skeys.priv, copyInto (zeros shareSize) v⟩⟩, []) := by
          have ht' : talk c ⟨skeys, none⟩ (helloOf keys.pub) reply = _ := ht
          simp [xchgStep, clientNext, helloOf, clientReceive, checkSync, obsOf] at ht' ⊢
          simp [ht', hostSync, hss, hne]
        rw [e]
        exact ⟨⟨hspub, hspl⟩, ⟨rfl, by simp, hspubl, hprivl, rfl, rfl, rfl, rfl, hpubl⟩, intact_nil⟩

theorem talk_keys (c : Curve) (srv : Server) (w : Pkt) (reply : Bytes) :
    (talk c srv w reply).1.keys = srv.keys := by
  unfold talk
  split
  · split
    · rfl
    · split <;> rfl
  · rfl

theorem talk_registered_reply (c : Curve) (srv : Server) (sk : KeyPair) (hs : srv.sess = some sk)
    (w : Pkt) (reply : Bytes) : ∃ r, (talk c srv w reply).2.1 = some r ∧ r.id = .data := by
  cases srv with | mk keys sess =>
  simp only at hs; subst hs
  exact ⟨_, rfl, rfl⟩

/-- `c2.Connect` without a lost reply: the server stays well-formed and a client that comes into
being satisfies the invariant. -/
theorem connectStep_inv (c : Curve) (hc : c.WF) (srv : Server) (a info : Bytes) (f : Fault)
    (hf : f ≠ .replyLost) (ha : a.length = privSize) (hsrv : SrvOK c srv) :
    SrvOK c (connectStep c srv a info f).2 ∧
    ∀ cl, (connectStep c srv a info f).1 = some cl → CliInv c (connectStep c srv a info f).2 cl := by
  have hfcases : f = .writeFail ∨ f = .ok := by cases f <;> simp_all
  have hspub := hsrv.pub
  have hspl := hsrv.privLen
  rcases hfcases with rfl | rfl
  · simp [connectStep, hsrv]
  · cases hs : srv.sess with
    | some sk =>
      obtain ⟨r, hr, hid⟩ := talk_registered_reply c srv sk hs (sessionGenerate c KeyPair.zero a info).2 []
      have hk := talk_keys c srv (sessionGenerate c KeyPair.zero a info).2 []
      have e : connectStep c srv a info .ok
          = (none, (talk c srv (sessionGenerate c KeyPair.zero a info).2 []).1) := by
        simp only [connectStep]
        generalize talk c srv (sessionGenerate c KeyPair.zero a info).2 [] = t at hr hk ⊢
        obtain ⟨srv', r', seen⟩ := t
        simp only at hr; subst hr
        simp [hid]
      rw [e]
      exact ⟨⟨by rw [hk]; exact hspub, by rw [hk]; exact hspl⟩, by simp⟩
    | none =>
      obtain ⟨v, hv⟩ := hc.total srv.keys.priv a hspl ha
      have hv2 : c.dh a srv.keys.pub = some v := by rw [hspub, hc.comm]; exact hv
      have hspubl : srv.keys.pub.length = pubSize := by rw [hspub]; exact hc.pubLen _
      have hnz : allZero srv.keys.pub = false := by rw [hspub]; exact hc.pubNonzero _
      have hz := zero_fill c hc a ha
      have hg : sessionGenerate c KeyPair.zero a info =
          (⟨c.pubOf a, a, zeros shareSize⟩,
           { id := .hello, crypt := true, payload := info ++ c.pubOf a, infoLen := info.length }) := by
        simp [sessionGenerate, hz]
      have ht := talk_hello c srv hs info (c.pubOf a) v [] (hc.pubLen a) hspl hv
      have hss := sessionSync_fresh c ⟨c.pubOf a, a, zeros shareSize⟩ srv.keys.pub v false rfl
        (hc.pubLen a) hspubl hnz hv2
      have e : connectStep c srv a info .ok
          = (some ⟨⟨srv.keys.pub, a, copyInto (zeros shareSize) v⟩, none, none⟩,
             { srv with sess := some ⟨c.pubOf a, srv.keys.priv, copyInto (zeros shareSize) v⟩ }) := by
        simp [connectStep, hg, ht, hostSync, hss]
      rw [e]
      refine ⟨⟨hspub, hspl⟩, ?_⟩
      intro cl hcl
      simp only [Option.some.injEq] at hcl; subst hcl
      exact ⟨rfl, by simp, hspubl, ha, rfl, rfl, rfl, rfl, hc.pubLen a⟩

/-! ### Histories -/

structure Inv (c : Curve) (s : State) : Prop where
  srv : SrvOK c s.server
  cli : ∀ cl, s.client = some cl → CliInv c s.server cl
  intact : Intact s

/-- Every scalar a history draws has the private-key size. -/
def Ev.Sized : Ev → Prop
  | .connect a _ _ => a.length = privSize
  | .xchg send _ fresh _ => send.Sized ∧ fresh.length = privSize
  | .drop => True

/-- The event is not a lost reply (the write may fail). -/
def Ev.NoLoss : Ev → Prop
  | .connect _ _ f => f ≠ .replyLost
  | .xchg _ _ _ f => f ≠ .replyLost
  | .drop => True

instance (s : Send) : Decidable s.Sized := by cases s <;> unfold Send.Sized <;> infer_instance
instance (e : Ev) : Decidable e.Sized := by cases e <;> unfold Ev.Sized <;> infer_instance
instance (e : Ev) : Decidable e.NoLoss := by cases e <;> unfold Ev.NoLoss <;> infer_instance

theorem CliInv_drop (c : Curve) (srv : Server) (cl : Client) (h : CliInv c srv cl) :
    CliInv c { srv with sess := none } cl := by
  obtain ⟨h1, h2, h3, h4, h5⟩ := h
  refine ⟨h1, h2, h3, h4, ?_⟩
  cases hs : srv.sess with
  | some sk =>
    rw [hs] at h5
    have : cl.hello = none := h5.1
    simp [this]
  | none =>
    rw [hs] at h5
    exact h5

theorem step_inv (c : Curve) (hc : c.WF) (s : State) (e : Ev) (hs : e.Sized) (hn : e.NoLoss)
    (h : Inv c s) : Inv c (step c s e) := by
  cases e with
  | drop =>
    exact ⟨⟨h.srv.pub, h.srv.privLen⟩, fun cl hcl => CliInv_drop c s.server cl (h.cli cl hcl), h.intact⟩
  | connect a info f =>
    have := connectStep_inv c hc s.server a info f hn hs h.srv
    exact ⟨this.1, this.2, h.intact⟩
  | xchg send reply fresh f =>
    cases hcl : s.client with
    | none =>
      have e : step c s (.xchg send reply fresh f) = s := by simp [step, hcl]
      rw [e]; exact h
    | some cl =>
      have := xchgStep_inv c hc cl s.server send reply fresh f hn hs.1 hs.2 h.srv (h.cli cl hcl)
      have e : step c s (.xchg send reply fresh f) =
          { client := some (xchgStep c cl s.server send reply fresh f).1,
            server := (xchgStep c cl s.server send reply fresh f).2.1,
            obs := s.obs ++ (xchgStep c cl s.server send reply fresh f).2.2 } := by
        simp [step, hcl]
      rw [e]
      refine ⟨this.1, ?_, ?_⟩
      · intro cl' hcl'
        simp only [Option.some.injEq] at hcl'; subst hcl'
        exact this.2.1
      · intro o ho
        simp only [List.mem_append] at ho
        rcases ho with ho | ho
        · exact h.intact o ho
        · exact this.2.2 o ho

theorem run_inv (c : Curve) (hc : c.WF) (evs : List Ev) : ∀ (s : State),
    (∀ e ∈ evs, e.Sized ∧ e.NoLoss) → Inv c s → Inv c (run c s evs) := by
  induction evs with
  | nil => intro s _ h; exact h
  | cons e es ih =>
    intro s hall h
    have he := hall e (by simp)
    exact ih (step c s e) (fun e' he' => hall e' (by simp [he'])) (step_inv c hc s e he.1 he.2 h)

theorem init_inv (c : Curve) (hc : c.WF) (b : Bytes) (hb : b.length = privSize) : Inv c (init c b) := by
  have hz := zero_fill c hc b hb
  refine ⟨⟨?_, ?_⟩, ?_, ?_⟩
  · simp [init, hz]
  · simp [init, hz, hb]
  · intro cl hcl; simp [init] at hcl
  · intro o ho; simp [init] at ho

theorem Inv.synced {c : Curve} {s : State} (h : Inv c s) : Synced s := by
  intro cl sk hcl hsk
  have := (h.cli cl hcl).2.2.2.2
  rw [hsk] at this
  exact this.2.1

/-! ### Explicit results (used by the property theorems) -/

/-- First registration against a server that does not know the client: both ends end up with the
secret copied over an all-zero buffer. -/
theorem connectStep_fresh (c : Curve) (hc : c.WF) (srv : Server) (hs : srv.sess = none)
    (a info : Bytes) (ha : a.length = privSize) (hsrv : SrvOK c srv) :
    ∃ v, c.dh srv.keys.priv (c.pubOf a) = some v ∧ c.dh a (c.pubOf srv.keys.priv) = some v ∧
      connectStep c srv a info .ok
        = (some ⟨⟨srv.keys.pub, a, copyInto (zeros shareSize) v⟩, none, none⟩,
           { srv with sess := some ⟨c.pubOf a, srv.keys.priv, copyInto (zeros shareSize) v⟩ }) := by
  have hspub := hsrv.pub
  have hspl := hsrv.privLen
  obtain ⟨v, hv⟩ := hc.total srv.keys.priv a hspl ha
  have hv2 : c.dh a srv.keys.pub = some v := by rw [hspub, hc.comm]; exact hv
  have hspubl : srv.keys.pub.length = pubSize := by rw [hspub]; exact hc.pubLen _
  have hnz : allZero srv.keys.pub = false := by rw [hspub]; exact hc.pubNonzero _
  have hz := zero_fill c hc a ha
  have hg : sessionGenerate c KeyPair.zero a info =
      (⟨c.pubOf a, a, zeros shareSize⟩,
       { id := .hello, crypt := true, payload := info ++ c.pubOf a, infoLen := info.length }) := by
    simp [sessionGenerate, hz]
  have ht := talk_hello c srv hs info (c.pubOf a) v [] (hc.pubLen a) hspl hv
  have hss := sessionSync_fresh c ⟨c.pubOf a, a, zeros shareSize⟩ srv.keys.pub v false rfl
    (hc.pubLen a) hspubl hnz hv2
  refine ⟨v, hv, by rw [← hspub]; exact hv2, ?_⟩
  simp [connectStep, hg, ht, hostSync, hss]

/-- A completed re-key exchange of a registered, synchronised client. -/
theorem xchgStep_rekey_ok (c : Curve) (hc : c.WF) (cl : Client) (srv : Server) (sk : KeyPair)
    (a reply fresh : Bytes) (ha : a.length = privSize) (hsrv : SrvOK c srv) (hcl : CliInv c srv cl)
    (hs : srv.sess = some sk) :
    ∃ v, c.dh srv.keys.priv (c.pubOf a) = some v ∧ c.dh a (c.pubOf srv.keys.priv) = some v ∧
      xchgStep c cl srv (.rekey a) reply fresh .ok
        = (⟨⟨cl.keys.pub, a, copyInto cl.keys.share v⟩, none, none⟩,
           { srv with sess := some { sk with pub := c.pubOf a, share := copyInto sk.share v } },
           [⟨false, reply, reply⟩]) := by
  obtain ⟨hnext, hshl, hpubl, hprivl, hrel⟩ := hcl
  cases srv with | mk skeys sess =>
  cases cl with | mk keys next hello =>
  simp only at hs hnext hshl hpubl hprivl hrel; subst hnext hs
  obtain ⟨hh, hsh, hcp, hskp, hskl⟩ := hrel
  subst hh
  obtain ⟨kpub, kpriv, kshare⟩ := keys
  simp only at hsh hcp hshl hpubl hprivl; subst hsh hcp
  have hspub : skeys.pub = c.pubOf skeys.priv := hsrv.pub
  have hspl : skeys.priv.length = privSize := hsrv.privLen
  have hz := zero_fill c hc a ha
  obtain ⟨v, hv⟩ := hc.total skeys.priv a hspl ha
  have hv1 : c.dh sk.priv (c.pubOf a) = some v := by rw [hskp]; exact hv
  have hv2 : c.dh a skeys.pub = some v := by rw [hspub, hc.comm]; exact hv
  have ht := talk_rekey c ⟨skeys, some sk⟩ sk rfl (c.pubOf a) v reply hskl (hc.pubLen a) hv1
  have hfp := fillPrivate_some c ⟨skeys.pub, kpriv, sk.share⟩ a v hv2 (hprivl.trans ha.symm)
  refine ⟨v, hv, by rw [← hspub]; exact hv2, ?_⟩
  simp [xchgStep, clientNext, hz, ht, clientReceive, checkSync, hfp, obsOf, xorOp_involutive]

/-- A failed write: `keyCheckRevert` — whatever was picked is gone, the client keeps its keys, the
server never saw anything. -/
theorem xchgStep_writeFail (c : Curve) (cl : Client) (srv : Server) (send : Send) (reply fresh : Bytes) :
    xchgStep c cl srv send reply fresh .writeFail = ({ cl with next := none, hello := none }, srv, []) := by
  cases cl with | mk keys next hello =>
  cases hello with
  | some h => simp [xchgStep, clientNext]
  | none =>
    cases send with
    | data p => simp [xchgStep, clientNext]
    | rekey a =>
      cases next with
      | some v => simp [xchgStep, clientNext]
      | none => simp [xchgStep, clientNext]

/-! ### Start-up -/

/-- State of the start-up model when the KeyPair was generated before the goroutines started. -/
def BootGood (c : Curve) (b pa v : Bytes) (s : Boot) : Prop :=
  s.keys = ⟨c.pubOf b, b, zeros shareSize⟩ ∧
  (s.sess = none ∨ s.sess = some ⟨pa, b, copyInto (zeros shareSize) v⟩) ∧
  (s.reply = none ∨ s.reply = some (c.pubOf b))

theorem bootStep_good (c : Curve) (hc : c.WF) (b pa v : Bytes) (hb : b.length = privSize)
    (hpa : pa.length = pubSize) (hv : c.dh b pa = some v) (s : Boot) (t : Tid)
    (h : BootGood c b pa v s) : BootGood c b pa v (bootStep c b pa s t) := by
  obtain ⟨keys, ld, sess, reply⟩ := s
  obtain ⟨hk, h1, h2⟩ := h
  simp only at hk h1 h2; subst hk
  have hnz : allZero (c.pubOf b) = false := hc.pubNonzero b
  cases t with
  | loop =>
    cases ld with
    | true => exact ⟨rfl, h1, h2⟩
    | false => simp [bootStep, BootGood, hnz, h1, h2]
  | lis =>
    cases sess with
    | none =>
      simp [bootStep, BootGood, listenerInit_pub c b pa v hpa hb hv, h2]
    | some sk =>
      have hsk : sk = ⟨pa, b, copyInto (zeros shareSize) v⟩ := by simpa using h1
      cases reply with
      | none => simp [bootStep, BootGood, hsk]
      | some r =>
        have hr : r = c.pubOf b := by simpa using h2
        simp [bootStep, BootGood, hsk, hr]

theorem boot_fold_good (c : Curve) (hc : c.WF) (b pa v : Bytes) (hb : b.length = privSize)
    (hpa : pa.length = pubSize) (hv : c.dh b pa = some v) (sched : List Tid) :
    ∀ s : Boot, BootGood c b pa v s → BootGood c b pa v (sched.foldl (bootStep c b pa) s) := by
  induction sched with
  | nil => intro s h; exact h
  | cons t ts ih => intro s h; exact ih _ (bootStep_good c hc b pa v hb hpa hv s t h)

end XMT.Keys
