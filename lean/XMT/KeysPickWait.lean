/-
  XMT.KeysPickWait — `(*Session).pickWait` (c2/session.go): the helper thread `pick` starts for a
  client in Channel mode. Model + lemmas for Props/C06 `pickWait_announces_what_it_queues`; compared
  with the real function by op `pickwait`.
-/
import XMT.Keys
namespace XMT.Keys
open XMT

/-- `pickWait(o)`: after the wait, an abandoned helper (`*o != 0`: a packet was queued meanwhile and
`pick` took it) returns at once; otherwise the helper puts ONE packet in the send queue — the re-key
announcement `keyNextSync` produced (`roll = some a`: it rolled a re-key and `GenerateKey` drew `a`;
refused while one is pending) or a keep-alive. Returns the packet queued, if any, and the client. -/
def pickWait (c : Curve) (cl : Client) (abandoned : Bool) (roll : Option Bytes) : Option Pkt × Client :=
  if abandoned then (none, cl)
  else match roll with
    | none => (some { id := .data, crypt := false, payload := [] }, cl)
    | some a =>
      if cl.next.isSome then (some { id := .data, crypt := false, payload := [] }, cl)
      else
        let v := KeyPair.zero.fill c a
        (some { id := .data, crypt := true, payload := v.pub }, { cl with next := some v })

/-- The helper never touches the key in use, and it queues a KeyPair only together with the
announcement that carries that pair's public key: whenever `keysNext` changes, a packet was queued,
it is flagged as key material and its payload is the new pair's public key. In particular an
abandoned helper changes nothing. -/
theorem pickWait_spec (c : Curve) (cl : Client) (abandoned : Bool) (roll : Option Bytes) :
    (pickWait c cl abandoned roll).2.keys = cl.keys ∧
    (pickWait c cl abandoned roll).2.hello = cl.hello ∧
    (abandoned = true → pickWait c cl abandoned roll = (none, cl)) ∧
    ((pickWait c cl abandoned roll).2.next ≠ cl.next →
      ∃ p v, (pickWait c cl abandoned roll).1 = some p ∧ p.crypt = true ∧
        (pickWait c cl abandoned roll).2.next = some v ∧ p.payload = v.pub) := by
  unfold pickWait
  by_cases ha : abandoned = true
  · simp [ha]
  · simp only [ha]
    cases roll with
    | none => simp
    | some a =>
      by_cases hn : cl.next.isSome = true
      · simp [hn]
      · simp [hn]

end XMT.Keys
