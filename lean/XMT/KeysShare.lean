/-
  XMT.KeysShare — the copy of the ECDH secret into the fixed `share` array (data/crypto.go
  `fillShared`: `copy(k.share[:], v.Bytes())`), property C06 extension.

  `v.Bytes()` is the MINIMAL big-endian encoding of the x coordinate: 66 bytes for about half of all
  P-521 points (then the LAST byte is cut off by `copy`), 65 bytes for most of the others, shorter
  when the encoding of x starts with zero bytes (1 in 512) — then the tail of the array keeps whatever
  it held before (`copy` does not clear it; `Keys.copyInto`).  The derivation is always IN PLACE over
  the previous contents of `k.share`: `Fill()` zeroes the array (registration, re-registration), a
  re-key (`keyCheckSync` → `FillPrivate`, `keyListenerRegenerate` → `Sync`) writes over the previous
  secret.  Lemmas: when two derivations of the same secret give the same array.  Core-only.
-/
import XMT.KeysLemmas
namespace XMT.Keys
open XMT

/-- The two arrays after copying the same secret `v` are equal exactly when the parts the copy does
not reach were equal before. -/
theorem copyInto_agree_iff (p1 p2 v : Bytes) (hl : p1.length = p2.length) :
    copyInto p1 v = copyInto p2 v ↔ p1.drop v.length = p2.drop v.length := by
  unfold copyInto
  rw [hl]
  exact ⟨List.append_cancel_left, fun h => by rw [h]⟩

/-- A secret at least as long as the array overwrites all of it: the previous contents do not matter. -/
theorem copyInto_long (p v : Bytes) (h : p.length ≤ v.length) : copyInto p v = v.take p.length := by
  simp [copyInto, List.drop_eq_nil_of_le h]

/-- `fillShared` on both ends with the same Diffie–Hellman value. -/
theorem fillShared_agree_iff (c1 c2 : Curve) (k1 k2 : KeyPair) (n1 m1 n2 m2 v : Bytes)
    (h1 : c1.dh m1 n1 = some v) (h2 : c2.dh m2 n2 = some v) (hl : k1.share.length = k2.share.length) :
    (k1.fillShared c1 n1 m1).1.share = (k2.fillShared c2 n2 m2).1.share ↔
      k1.share.drop v.length = k2.share.drop v.length := by
  rw [fillShared_some c1 k1 n1 m1 v h1, fillShared_some c2 k2 n2 m2 v h2]
  exact copyInto_agree_iff _ _ _ hl

end XMT.Keys
