/-
  A concrete instance of the curve parameter (Diffie–Hellman in (Z/251)^*, generator 6) showing that
  the hypotheses `Curve.WF` are satisfiable, and decidable versions of `Synced` / `Intact` used to
  evaluate the model on witness histories.
-/
import XMT.KeysLemmas
namespace XMT.Keys
open XMT

/-- exponent of a private key (any function works; kept small so that the kernel evaluates it) -/
def toyExp (a : Bytes) : Nat := a.foldl (fun acc b => (acc + b.toNat) % 13) 0

/-- public key: tag 4, g^e mod 251, padded to the PublicKey size -/
def toyPub (a : Bytes) : Bytes := 4 :: byteOf (6 ^ toyExp a % 251) :: zeros (pubSize - 2)

/-- minimal big-endian encoding of a number below 256 -/
def toyEnc (x : Nat) : Bytes := if x = 0 then [] else [byteOf x]

def toyDh (m n : Bytes) : Option Bytes :=
  match n with
  | t :: y :: _ => if t = 4 ∧ n.length = pubSize then some (toyEnc (y.toNat ^ toyExp m % 251)) else none
  | _ => none

def toy : Curve := { pubOf := toyPub, dh := toyDh }

theorem toyPub_length (a : Bytes) : (toyPub a).length = pubSize := by
  have : 2 ≤ pubSize := by decide
  simp [toyPub]; omega

theorem toyDh_cons (m : Bytes) (y : UInt8) (r : Bytes) (h : (4 :: y :: r).length = pubSize) :
    toyDh m (4 :: y :: r) = some (toyEnc (y.toNat ^ toyExp m % 251)) := by
  unfold toyDh
  dsimp only
  rw [if_pos ⟨rfl, h⟩]

theorem toyDh_pub (a b : Bytes) :
    toyDh a (toyPub b) = some (toyEnc (6 ^ (toyExp b * toyExp a) % 251)) := by
  have hl := toyPub_length b
  unfold toyPub at hl ⊢
  rw [toyDh_cons a _ _ hl, byteOf_toNat]
  have : 6 ^ toyExp b % 251 % 256 = 6 ^ toyExp b % 251 := by omega
  rw [this, ← Nat.pow_mod, ← Nat.pow_mul]

theorem toy_dh_eq : toy.dh = toyDh := rfl
theorem toy_pub_eq : toy.pubOf = toyPub := rfl

theorem toy_comm (a b : Bytes) : toy.dh a (toy.pubOf b) = toy.dh b (toy.pubOf a) := by
  rw [toy_dh_eq, toy_pub_eq, toyDh_pub, toyDh_pub, Nat.mul_comm]

theorem toy_total (a b : Bytes) : ∃ v, toy.dh a (toy.pubOf b) = some v := by
  rw [toy_dh_eq, toy_pub_eq]
  exact ⟨_, toyDh_pub a b⟩

theorem toy_nonzero (a : Bytes) : allZero (toy.pubOf a) = false := by
  rw [toy_pub_eq]; unfold toyPub
  generalize zeros (pubSize - 2) = z
  simp [allZero]

theorem toy_publen (a : Bytes) : (toy.pubOf a).length = pubSize := by
  rw [toy_pub_eq]; exact toyPub_length a

theorem toy_wf : toy.WF :=
  ⟨toy_comm, fun a b _ _ => toy_total a b, toy_publen, toy_nonzero⟩

/-! ### decidable `Synced` / `Intact` -/

def syncedB (s : State) : Bool :=
  match s.client, s.server.sess with
  | some cl, some sk => cl.keys.share == sk.share
  | _, _ => true

def intactB (s : State) : Bool := s.obs.all fun o => o.got == o.sent

theorem syncedB_iff (s : State) : syncedB s = true ↔ Synced s := by
  unfold syncedB Synced
  cases hc : s.client with
  | none => simp
  | some cl =>
    cases hs : s.server.sess with
    | none => simp
    | some sk => simp

theorem intactB_iff (s : State) : intactB s = true ↔ Intact s := by
  simp [intactB, Intact]

end XMT.Keys
