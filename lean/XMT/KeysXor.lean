/-
  Lemmas about the XorOp model (XMT/Keys.lean): length, involution, pointwise characterisation.
-/
import XMT.Keys
namespace XMT.Keys
open XMT

theorem xor_cancel (a b : UInt8) : a ^^^ (a ^^^ b) = b := by
  rw [← UInt8.xor_assoc, UInt8.xor_self, UInt8.zero_xor]

theorem xorBytes_length (x y : Bytes) : (xorBytes x y).length = min x.length y.length := by
  simp [xorBytes]

theorem xorLoop_length (key : Bytes) : ∀ (fuel : Nat) (v : Bytes), (xorLoop key fuel v).length = v.length
  | 0, v => rfl
  | fuel + 1, v => by
    unfold xorLoop
    split
    · rfl
    · simp only [List.length_append, xorLoop_length key fuel, List.length_drop, xorBytes_length]
      omega

theorem xorOp_length (v k : Bytes) : (xorOp v k).length = v.length := by
  unfold xorOp
  split
  · rfl
  · split
    · rename_i h; simp [xorBytes_length, h]
    · exact xorLoop_length _ _ _

/-- `xorBytes key (xorBytes key v ++ r)` restores the first `min |key| |v|` bytes of `v`, provided
nothing of `r` is reached (either the key is used up or `r` is empty). -/
theorem xorBytes_undo (key v r : Bytes) (h : key.length ≤ v.length ∨ r = []) :
    xorBytes key (xorBytes key v ++ r) = v.take (min key.length v.length) := by
  apply List.ext_getElem
  · simp only [xorBytes_length, List.length_append, List.length_take]
    rcases h with h | h
    · omega
    · subst h; simp
  · intro i h1 h2
    simp only [xorBytes_length, List.length_append, List.length_take] at h1 h2
    have hi : i < (xorBytes key v).length := by rw [xorBytes_length]; omega
    simp only [xorBytes, List.getElem_zipWith, List.getElem_take]
    rw [List.getElem_append_left (by simpa [xorBytes] using hi)]
    simp only [List.getElem_zipWith]
    exact xor_cancel _ _

theorem xorLoop_nil (key : Bytes) (fuel : Nat) : xorLoop key fuel [] = [] := by
  cases fuel <;> simp [xorLoop]

theorem xorLoop_involutive (key : Bytes) (hk : key ≠ []) :
    ∀ (f1 f2 : Nat) (v : Bytes), v.length ≤ f1 → v.length ≤ f2 →
      xorLoop key f2 (xorLoop key f1 v) = v
  | 0, f2, v, h1, _ => by
    have : v = [] := List.length_eq_zero_iff.mp (by omega)
    subst this; simp [xorLoop, xorLoop_nil]
  | f1 + 1, f2, v, h1, h2 => by
    by_cases hv : v.length = 0
    · have : v = [] := List.length_eq_zero_iff.mp hv
      subst this; simp [xorLoop_nil]
    · have hkl : 0 < key.length := List.length_pos_iff.mpr hk
      obtain ⟨g2, rfl⟩ : ∃ g, f2 = g + 1 := ⟨f2 - 1, by omega⟩
      have hm : (xorBytes key v).length = min key.length v.length := xorBytes_length _ _
      have e1 : xorLoop key (f1 + 1) v =
          xorBytes key v ++ xorLoop key f1 (v.drop (xorBytes key v).length) := by
        rw [xorLoop]; simp [hv]
      rw [e1]
      have ih := xorLoop_involutive key hk f1 g2 (v.drop (xorBytes key v).length)
        (by rw [List.length_drop, hm]; omega) (by rw [List.length_drop, hm]; omega)
      have hRl : (xorLoop key f1 (v.drop (xorBytes key v).length)).length
          = v.length - min key.length v.length := by
        rw [xorLoop_length, List.length_drop, hm]
      generalize xorLoop key f1 (v.drop (xorBytes key v).length) = R at ih hRl ⊢
      have hne : (xorBytes key v ++ R).length ≠ 0 := by
        simp only [List.length_append, hm]; omega
      rw [xorLoop]; simp only [hne, if_false]
      have hcase : key.length ≤ v.length ∨ R = [] := by
        by_cases hc : key.length ≤ v.length
        · exact Or.inl hc
        · right; apply List.length_eq_zero_iff.mp; rw [hRl]; omega
      rw [xorBytes_undo key v R hcase]
      have hl : (v.take (min key.length v.length)).length = (xorBytes key v).length := by
        rw [List.length_take, hm]; omega
      rw [hl, List.drop_left, ih, hm]
      exact List.take_append_drop _ _

theorem xorBytes_involutive_eqlen (key v : Bytes) (h : key.length = v.length) :
    xorBytes key (xorBytes key v) = v := by
  have := xorBytes_undo key v [] (Or.inr rfl)
  simp only [List.append_nil] at this
  rw [this, h, Nat.min_self, List.take_length]

theorem xorOp_noop (v k : Bytes) (h : k.length = 0 ∨ v.length = 0) : xorOp v k = v := by
  unfold xorOp; rw [if_pos h]

theorem xorOp_eqlen (v k : Bytes) (h0 : ¬ (k.length = 0 ∨ v.length = 0)) (he : k.length = v.length) :
    xorOp v k = xorBytes k v := by
  unfold xorOp; rw [if_neg h0, if_pos he]

theorem xorOp_loop (v k : Bytes) (h0 : ¬ (k.length = 0 ∨ v.length = 0)) (he : k.length ≠ v.length) :
    xorOp v k = xorLoop k v.length v := by
  unfold xorOp; rw [if_neg h0, if_neg he]

theorem xorOp_involutive (v k : Bytes) : xorOp (xorOp v k) k = v := by
  have hl := xorOp_length v k
  by_cases h0 : k.length = 0 ∨ v.length = 0
  · rw [xorOp_noop v k h0, xorOp_noop v k h0]
  · have h0' : ¬ (k.length = 0 ∨ (xorOp v k).length = 0) := by rw [hl]; exact h0
    by_cases he : k.length = v.length
    · rw [xorOp_eqlen _ k h0' (by rw [hl]; exact he), xorOp_eqlen v k h0 he]
      exact xorBytes_involutive_eqlen k v he
    · rw [xorOp_loop _ k h0' (by rw [hl]; exact he), hl, xorOp_loop v k h0 he]
      have hk : k ≠ [] := by
        intro hk; apply h0; left; simp [hk]
      exact xorLoop_involutive k hk _ _ v (Nat.le_refl _) (Nat.le_refl _)

end XMT.Keys
