/-
  XMT.Packet — model of `com.Packet` (com/packet.go) and `device.ID` read/write (device/id.go):
  the top-level wire form (`Marshal`/`Unmarshal` over io.Writer / io.Reader with short reads) and the
  nested stream form (`MarshalStream`/`UnmarshalStream` over the typed codec of XMT.Codec).
-/
import XMT.Base
import XMT.Codec
import XMT.Chunk
import XMT.Generated.Facts

namespace XMT.Packet
open XMT XMT.Codec

inductive PErr
  | eof | ueof | noProgress | invalidType | malformedTag | tooLarge | tooManyTags
  deriving DecidableEq, Repr

def ofCodecErr : Codec.Err → PErr
  | .eof => .eof | .unexpectedEOF => .ueof | .invalidType => .invalidType | .tooLarge => .tooLarge

structure Packet where
  id : UInt8
  job : Nat
  flags : Nat
  tags : List Nat
  dev : Bytes
  payload : Bytes
  deriving DecidableEq, Repr

/-- Packets the Go type can hold and the writers accept. -/
structure WF (p : Packet) : Prop where
  job : p.job < 2^16
  flags : p.flags < 2^64
  ntags : p.tags.length ≤ Facts.packetMaxTags
  tags : ∀ t ∈ p.tags, 0 < t ∧ t < 2^32
  devLen : p.dev.length = Facts.idSize
  devNZ : p.dev.head? ≠ some 0
  pay : p.payload.length ≤ Facts.maxSlice

/-- the 14 fixed header bytes written after the device ID; `cls` is `b[13]` -/
def hdr14 (p : Packet) (cls : UInt8) : Bytes :=
  [p.id, byteOf (p.job >>> 8), byteOf p.job,
   byteOf (p.flags >>> 56), byteOf (p.flags >>> 48), byteOf (p.flags >>> 40), byteOf (p.flags >>> 32),
   byteOf (p.flags >>> 24), byteOf (p.flags >>> 16), byteOf (p.flags >>> 8), byteOf p.flags,
   byteOf (p.tags.length >>> 8), byteOf p.tags.length, cls]

/-- class byte and length bytes of `writeHeader` for payload length `l` -/
def lenClass (l : Nat) : UInt8 × Bytes :=
  if l = 0 then (0, [])
  else if l < Facts.limitSmall then (1, [byteOf l])
  else if l < Facts.limitMedium then (3, be16 l)
  else if l < Facts.limitLarge then (5, be32 l)
  else (7, be64 l)

def tagBytes (tags : List Nat) : Bytes := tags.flatMap be32

/-- split into `bufSize` pieces (the writes `Chunk.WriteTo` makes) -/
def pieces (n : Nat) (b : Bytes) : List Bytes :=
  if h : n = 0 ∨ b.length ≤ n then (if b.isEmpty then [] else [b])
  else b.take n :: pieces n (b.drop n)
termination_by b.length
decreasing_by simp [List.length_drop]; omega

/-- `Marshal(w)`: the sequence of `Write` calls (the zero-length second header write included). -/
def marshalWrites (p : Packet) : Except PErr (List Bytes) :=
  if p.tags.length > Facts.packetMaxTags then .error .tooManyTags
  else if p.tags.any (· = 0) then .error .malformedTag
  else
    let lc := lenClass p.payload.length
    .ok ([p.dev, hdr14 p lc.1, lc.2] ++ p.tags.map be32 ++ pieces Facts.bufSize p.payload)

/-- the bytes `Marshal` puts on the wire -/
def marshal (p : Packet) : Bytes :=
  let lc := lenClass p.payload.length
  p.dev ++ hdr14 p lc.1 ++ lc.2 ++ tagBytes p.tags ++ p.payload

/-- `io.ReadFull(r, buf[:k])` classified as the Go callers do -/
def readExact (k : Nat) (s : Stream) : Except PErr (Bytes × Stream) :=
  let r := readFull k s
  if r.1.length = k then .ok r else if r.1.isEmpty then .error .eof else .error .ueof

def readTags : Nat → Stream → Except PErr (List Nat × Stream)
  | 0, s => .ok ([], s)
  | n + 1, s =>
    match readExact 4 s with
    | .error e => .error e
    | .ok ([b0, b1, b2, b3], s) =>
      let t := ofBe32 b0 b1 b2 b3
      if t = 0 then .error .malformedTag
      else match readTags n s with
        | .error e => .error e
        | .ok (ts, s) => .ok (t :: ts, s)
    | .ok _ => .error .ueof

section
variable (cf : Nat → Nat)

/-- the loop of `readBody` around `Chunk.ReadFrom` -/
def bodyLoop : Nat → Chunk.Chunk → Stream → Nat → Nat → Chunk.Chunk × Nat × Stream
  | 0, c, s, t, _ => (c, t, s)
  | fuel + 1, c, s, t, len =>
    if t < len then
      let r := c.readFrom cf s
      if r.2.1 = 0 then (r.1, t, r.2.2) else bodyLoop fuel r.1 r.2.2 (t + r.2.1) len
    else (c, t, s)

/-- the length bytes after the 14 fixed header bytes, by class `b[13]` -/
def readLen (cls : UInt8) (s : Stream) : Except PErr (Nat × Stream) :=
  if cls = 0 then .ok (0, s)
  else if cls = 1 then
    match readExact 1 s with
    | .ok ([b0], s) => .ok (b0.toNat, s) | .ok _ => .error .ueof | .error e => .error e
  else if cls = 3 then
    match readExact 2 s with
    | .ok ([b0, b1], s) => .ok (ofBe16 b0 b1, s) | .ok _ => .error .ueof | .error e => .error e
  else if cls = 5 then
    match readExact 4 s with
    | .ok ([b0, b1, b2, b3], s) => .ok (ofBe32 b0 b1 b2 b3, s) | .ok _ => .error .ueof
    | .error e => .error e
  else if cls = 7 then
    match readExact 8 s with
    | .ok ([b0, b1, b2, b3, b4, b5, b6, b7], s) => .ok (ofBe64 b0 b1 b2 b3 b4 b5 b6 b7, s)
    | .ok _ => .error .ueof | .error e => .error e
  else .error .invalidType

/-- the payload part of `readBody`: `len` announced bytes into a fresh chunk with `Limit = len` -/
def readPayload (len : Nat) (s : Stream) : Except PErr (Bytes × Stream) :=
  if len = 0 then .ok ([], s)
  else
    -- `p.Limit = int(p.len)`: a length ≥ 2^63 becomes a negative (= no) limit
    let lim : Int := if len < 2^63 then (len : Int) else (len : Int) - 2^64
    let r := bodyLoop cf (s.flatten.length + 2) (Chunk.empty lim) s 0 len
    if r.2.1 < len then .error .ueof else .ok (r.1.unread, r.2.2)

/-- `Unmarshal(r)` into a fresh packet. -/
def unmarshal (s : Stream) : Except PErr (Packet × Stream) :=
  match readExact Facts.idSize s with
  | .error e => .error e
  | .ok (dev, s) =>
    if dev.head? = some 0 then .error .noProgress else
    match readExact 14 s with
    | .error e => .error e
    | .ok ([i, j1, j0, f7, f6, f5, f4, f3, f2, f1, f0, t1, t0, cls], s) =>
      match readLen cls s with
      | .error e => .error e
      | .ok (len, s) =>
        -- `int(b[12]) | int(b[11])<<8` tags
        match readTags (ofBe16 t1 t0) s with
        | .error e => .error e
        | .ok (tags, s) =>
          match readPayload cf len s with
          | .error e => .error e
          | .ok (pay, s) =>
            .ok ({ id := i, job := ofBe16 j1 j0, flags := ofBe64 f7 f6 f5 f4 f3 f2 f1 f0, tags := tags,
                   dev := dev, payload := pay }, s)
    | .ok _ => .error .ueof

end

/-! ### nested (stream) form -/

/-- `MarshalStream(w)` for a packet whose payload has not been partially read -/
def marshalStream (p : Packet) : Bytes :=
  [p.id] ++ be16 p.job ++ be16 (p.tags.length % 2^16) ++ be64 p.flags ++ p.dev ++
  tagBytes (p.tags.take Facts.packetMaxTags) ++ encBytesChunk p.payload

section
variable {S : Type} (P : Prim S)
-- `devRead` = `ID.Read` through a `data.Reader` (`io.ReadFull(r, i[:])`)
variable (devRead : S → Except PErr (Bytes × S))

def readTagsS : Nat → S → Except PErr (List Nat × S)
  | 0, s => .ok ([], s)
  | n + 1, s =>
    match P.u32 s with
    | .error e => .error (ofCodecErr e)
    | .ok (t, s) =>
      if t = 0 then .error .malformedTag
      else match readTagsS n s with
        | .error e => .error e
        | .ok (ts, s) => .ok (t :: ts, s)

/-- `UnmarshalStream(r)` -/
def unmarshalStream (s : S) : Except PErr (Packet × S) :=
  match P.u8 s with
  | .error e => .error (ofCodecErr e)
  | .ok (i, s) =>
  match P.u16 s with
  | .error e => .error (ofCodecErr e)
  | .ok (job, s) =>
  match P.u16 s with
  | .error e => .error (ofCodecErr e)
  | .ok (nt, s) =>
  match P.u64 s with
  | .error e => .error (ofCodecErr e)
  | .ok (flags, s) =>
  match devRead s with
  | .error e => .error e
  | .ok (dev, s) =>
  if dev.head? = some 0 then .error .noProgress else
  match readTagsS P (min nt Facts.packetMaxTags) s with
  | .error e => .error e
  | .ok (tags, s) =>
  match decBytes P s with
  | .error e => .error (ofCodecErr e)
  | .ok (pay, s) =>
    -- more than PacketMaxTags announced: the remaining slots stay zero
    .ok ({ id := i, job := job, flags := flags,
           tags := tags ++ List.replicate (nt - min nt Facts.packetMaxTags) 0, dev := dev, payload := pay }, s)

end

def devReadChunk (s : Bytes) : Except PErr (Bytes × Bytes) :=
  if s.length ≥ Facts.idSize then .ok (s.take Facts.idSize, s.drop Facts.idSize)
  else if s.isEmpty then .error .eof else .error .ueof

def devReadStream (s : Stream) : Except PErr (Bytes × Stream) := readExact Facts.idSize s

/-- `Size()` -/
def size (p : Packet) : Nat :=
  if p.payload.isEmpty then Facts.packetHeaderSize
  else
    let s := p.payload.length + Facts.packetHeaderSize + 4 * p.tags.length
    if s < Facts.limitSmall then s + 1
    else if s < Facts.limitMedium then s + 2
    else if s < Facts.limitLarge then s + 4
    else s + 8

end XMT.Packet
