/-
  XMT.PacketAlloc — `Packet.Unmarshal` (top-level wire form) on ARBITRARY bytes: what a decoded
  packet holds is never more than what was consumed from the wire, whatever length the header
  announces (also ≥ 2^63, which becomes "no limit"), and the two loops end by their own conditions
  (the fuel of the model is never what stops them). Helper lemmas for Props/C04.
-/
import XMT.PacketWire
namespace XMT.Chunk
open XMT
namespace Chunk
variable (cf : Nat → Nat)

/-- `ReadFrom`'s loop, any limit (none, positive, beyond MaxSlice): the invariant is kept, `t` grows by
exactly the number of bytes appended, and those were all taken off the stream. -/
theorem readFromLoop_bound : ∀ (fuel : Nat) (c : Chunk) (s : Codec.Stream) (t : Nat), c.Inv →
    (readFromLoop cf fuel c s t).1.Inv ∧ (readFromLoop cf fuel c s t).1.limit = c.limit ∧
    t ≤ (readFromLoop cf fuel c s t).2.1 ∧
    (readFromLoop cf fuel c s t).1.unread.length = c.unread.length + ((readFromLoop cf fuel c s t).2.1 - t) ∧
    ((readFromLoop cf fuel c s t).2.1 - t) + (readFromLoop cf fuel c s t).2.2.flatten.length ≤ s.flatten.length := by
  intro fuel
  induction fuel with
  | zero => intro c s t h; simp [readFromLoop, h]
  | succ fuel ih =>
    intro c s t h
    unfold readFromLoop
    by_cases hsp : c.limit > 0 ∧ c.space ≤ 0
    · rw [if_pos hsp]; simp [h]
    · rw [if_neg hsp]
      simp only
      cases s with
      | nil => simp [h]
      | cons p ps =>
        simp only
        generalize (if c.limit > 0 then min c.space.toNat Facts.bufSize else Facts.bufSize) = x
        -- what is left of the stream after this Read
        have hs' : ((if p.length ≤ x then ps else p.drop x :: ps) : Codec.Stream).flatten.length + (p.take x).length =
            (p :: ps).flatten.length := by
          split
          · rename_i hle
            simp only [List.flatten_cons, List.length_append, List.length_take]; omega
          · rename_i hle
            simp only [List.flatten_cons, List.length_append, List.length_take, List.length_drop]; omega
        generalize ((if p.length ≤ x then ps else p.drop x :: ps) : Codec.Stream) = s' at hs' ⊢
        cases hw : write cf c (p.take x) with
        | mk c' we =>
          obtain ⟨w, e⟩ := we
          obtain ⟨i1, l1, u1, n1, _, _⟩ := write_spec cf c (p.take x) h c' w e hw
          have hul : c'.unread.length = c.unread.length + w := by
            rw [u1, List.length_append, List.length_take]; omega
          have ht' : (if w < (p.take x).length then w else (p.take x).length) = w := by
            split <;> omega
          simp only [ht']
          cases e with
          | some err => refine ⟨i1, l1, ?_, ?_, ?_⟩ <;> dsimp only <;> omega
          | none =>
            dsimp only
            split
            · refine ⟨i1, l1, ?_, ?_, ?_⟩ <;> dsimp only <;> omega
            · obtain ⟨a1, a2, a3, a4, a5⟩ := ih c' s' (t + w) i1
              exact ⟨a1, by rw [a2, l1], by omega, by omega, by omega⟩

/-- the fuel `readFrom` gives its loop is never what ends it: one more unit changes nothing -/
theorem readFromLoop_fuel : ∀ (fuel : Nat) (c : Chunk) (s : Codec.Stream) (t : Nat),
    s.flatten.length + s.length + 1 ≤ fuel →
    readFromLoop cf (fuel + 1) c s t = readFromLoop cf fuel c s t := by
  intro fuel
  induction fuel with
  | zero => intro c s t hf; omega
  | succ fuel ih =>
    intro c s t hf
    conv => lhs; unfold readFromLoop
    conv => rhs; unfold readFromLoop
    by_cases hsp : c.limit > 0 ∧ c.space ≤ 0
    · rw [if_pos hsp, if_pos hsp]
    · rw [if_neg hsp, if_neg hsp]
      simp only
      cases s with
      | nil => rfl
      | cons p ps =>
        simp only
        have hx : 0 < (if c.limit > 0 then min c.space.toNat Facts.bufSize else Facts.bufSize) := by
          have := bufSize_pos
          split
          · rename_i hl
            have : c.space > 0 := by
              by_cases hh : c.space ≤ 0
              · exact absurd ⟨hl, hh⟩ hsp
              · omega
            omega
          · omega
        generalize (if c.limit > 0 then min c.space.toNat Facts.bufSize else Facts.bufSize) = x at hx ⊢
        have hs' : ((if p.length ≤ x then ps else p.drop x :: ps) : Codec.Stream).flatten.length +
            ((if p.length ≤ x then ps else p.drop x :: ps) : Codec.Stream).length + 1 ≤ fuel := by
          simp only [List.flatten_cons, List.length_append, List.length_cons] at hf
          split
          · omega
          · rename_i hle
            simp only [List.flatten_cons, List.length_append, List.length_drop, List.length_cons]; omega
        generalize ((if p.length ≤ x then ps else p.drop x :: ps) : Codec.Stream) = s' at hs' ⊢
        cases hw : write cf c (p.take x) with
        | mk c' we =>
          obtain ⟨w, e⟩ := we
          simp only
          cases e with
          | some err => rfl
          | none =>
            simp only
            split
            · rfl
            · exact ih c' s' _ hs'

theorem readFrom_bound (c : Chunk) (s : Codec.Stream) (h : c.Inv) :
    (c.readFrom cf s).1.Inv ∧ (c.readFrom cf s).1.limit = c.limit ∧
    (c.readFrom cf s).1.unread.length = c.unread.length + (c.readFrom cf s).2.1 ∧
    (c.readFrom cf s).2.1 + (c.readFrom cf s).2.2.flatten.length ≤ s.flatten.length := by
  unfold readFrom
  obtain ⟨a1, a2, _, a4, a5⟩ := readFromLoop_bound cf (s.flatten.length + s.length + 1) c s 0 h
  exact ⟨a1, a2, by simpa using a4, by simpa using a5⟩

end Chunk
end XMT.Chunk

namespace XMT.Packet
open XMT XMT.Codec
variable (cf : Nat → Nat)

/-- the loop of `readBody`: the bytes held grow by exactly what `t` counts, all taken off the stream -/
theorem bodyLoop_bound : ∀ (fuel : Nat) (c : Chunk.Chunk) (s : Stream) (t len : Nat), c.Inv →
    (bodyLoop cf fuel c s t len).1.Inv ∧ (bodyLoop cf fuel c s t len).1.limit = c.limit ∧
    t ≤ (bodyLoop cf fuel c s t len).2.1 ∧
    (bodyLoop cf fuel c s t len).1.unread.length = c.unread.length + ((bodyLoop cf fuel c s t len).2.1 - t) ∧
    ((bodyLoop cf fuel c s t len).2.1 - t) + (bodyLoop cf fuel c s t len).2.2.flatten.length ≤ s.flatten.length := by
  intro fuel
  induction fuel with
  | zero => intro c s t len h; simp [bodyLoop, h]
  | succ fuel ih =>
    intro c s t len h
    unfold bodyLoop
    by_cases hlt : t < len
    · rw [if_pos hlt]
      obtain ⟨r1, r2, r3, r4⟩ := Chunk.Chunk.readFrom_bound cf c s h
      simp only
      by_cases h0 : (c.readFrom cf s).2.1 = 0
      · rw [if_pos h0]
        simp only
        exact ⟨r1, r2, by omega, by omega, by omega⟩
      · rw [if_neg h0]
        obtain ⟨a1, a2, a3, a4, a5⟩ := ih (c.readFrom cf s).1 (c.readFrom cf s).2.2 (t + (c.readFrom cf s).2.1) len r1
        exact ⟨a1, by rw [a2, r2], by omega, by omega, by omega⟩
    · rw [if_neg hlt]; simp [h]

/-- the fuel `readPayload` gives the loop is never what ends it -/
theorem bodyLoop_fuel : ∀ (fuel : Nat) (c : Chunk.Chunk) (s : Stream) (t len : Nat), c.Inv →
    s.flatten.length + 1 ≤ fuel → bodyLoop cf (fuel + 1) c s t len = bodyLoop cf fuel c s t len := by
  intro fuel
  induction fuel with
  | zero => intro c s t len _ hf; omega
  | succ fuel ih =>
    intro c s t len h hf
    conv => lhs; unfold bodyLoop
    conv => rhs; unfold bodyLoop
    by_cases hlt : t < len
    · rw [if_pos hlt, if_pos hlt]
      obtain ⟨r1, _, _, r4⟩ := Chunk.Chunk.readFrom_bound cf c s h
      simp only
      by_cases h0 : (c.readFrom cf s).2.1 = 0
      · rw [if_pos h0, if_pos h0]
      · rw [if_neg h0, if_neg h0]
        exact ih _ _ _ len r1 (by omega)
    · rw [if_neg hlt, if_neg hlt]

theorem readExact_len {k : Nat} {s s' : Stream} {b : Bytes} (h : readExact k s = .ok (b, s')) :
    b.length = k ∧ k + s'.flatten.length = s.flatten.length := by
  unfold readExact at h
  simp only at h
  split at h
  · rename_i hk
    injection h with h
    have h1 := readFull_fst k s
    have h2 := readFull_snd k s
    rw [h] at hk h1 h2
    simp only at hk h1 h2
    refine ⟨hk, ?_⟩
    rw [h2, List.length_drop]
    have : (s.flatten.take k).length = k := by rw [← h1]; exact hk
    rw [List.length_take] at this
    omega
  · split at h <;> cases h

theorem readTags_len : ∀ (n : Nat) (s s' : Stream) (ts : List Nat), readTags n s = .ok (ts, s') →
    ts.length = n ∧ 4 * n + s'.flatten.length = s.flatten.length := by
  intro n
  induction n with
  | zero => intro s s' ts h; simp only [readTags] at h; injection h with h; cases h; simp
  | succ n ih =>
    intro s s' ts h
    unfold readTags at h
    split at h
    · cases h
    · rename_i b0 b1 b2 b3 s1 he
      obtain ⟨_, e2⟩ := readExact_len he
      dsimp only at h
      split at h
      · cases h
      · split at h
        · cases h
        · rename_i ts1 s2 hr
          injection h with h
          cases h
          obtain ⟨i1, i2⟩ := ih _ _ _ hr
          exact ⟨by simp [i1], by omega⟩
    · cases h

theorem readLen_len {cls : UInt8} {s s' : Stream} {len : Nat} (h : readLen cls s = .ok (len, s')) :
    s'.flatten.length ≤ s.flatten.length := by
  unfold readLen at h
  repeat' split at h
  all_goals first
    | (injection h with h; cases h; omega)
    | (rename_i he; cases h; have := (readExact_len he).2; omega)
    | (cases h; done)

/-- `readPayload`: the payload returned is exactly as long as announced and was taken off the
stream — for every announced length; one of 2^63 or more ("no limit") can never be satisfied. -/
theorem readPayload_len {len : Nat} {s s' : Stream} {pay : Bytes} (h : readPayload cf len s = .ok (pay, s')) :
    len ≤ pay.length ∧ pay.length + s'.flatten.length ≤ s.flatten.length ∧ (len < 2^63 → pay.length = len) := by
  unfold readPayload at h
  split at h
  · rename_i h0; injection h with h; cases h; subst h0; simp
  · dsimp only at h
    generalize hlim : (if len < 2^63 then (len : Int) else (len : Int) - 2^64) = lim at h
    split at h
    · cases h
    · rename_i hge
      injection h with h
      injection h with hp hs
      obtain ⟨b1, b2, _, b4, b5⟩ := bodyLoop_bound cf (s.flatten.length + 2) (Chunk.empty lim) s 0 len
        (Chunk.Chunk.inv_empty lim)
      have hu0 : (Chunk.empty lim).unread.length = 0 := by simp [Chunk.empty, Chunk.Chunk.unread]
      rw [hu0] at b4
      simp only [Nat.zero_add, Nat.sub_zero] at b4 b5
      rw [← hp, ← hs]
      refine ⟨by omega, by omega, fun hl => ?_⟩
      have hlpos : (Chunk.empty lim).limit = (len : Int) := by
        simp only [Chunk.empty]; rw [← hlim, if_pos hl]
      have hul := Chunk.Chunk.unread_length _ b1
      have := b1.lim (by rw [b2, hlpos]; omega)
      rw [b2, hlpos] at this
      omega

/-- **A decoded packet never holds more than was consumed from the wire**: identity, the 14 fixed
header bytes, 4 bytes per tag and the payload all came off the stream, the payload is exactly as long
as the header announced, and the tag count is the announced one. -/
theorem unmarshal_alloc {s s' : Stream} {p : Packet} (h : unmarshal cf s = .ok (p, s')) :
    Facts.idSize + 14 + 4 * p.tags.length + p.payload.length + s'.flatten.length ≤ s.flatten.length ∧
    p.dev.length = Facts.idSize ∧ p.tags.length < 2^16 := by
  unfold unmarshal at h
  split at h
  · cases h
  · rename_i dev s1 h1
    obtain ⟨d1, d2⟩ := readExact_len h1
    split at h
    · cases h
    · split at h
      · cases h
      · rename_i i j1 j0 f7 f6 f5 f4 f3 f2 f1 f0 t1 t0 cls s2 h2
        obtain ⟨_, e2⟩ := readExact_len h2
        split at h
        · cases h
        · rename_i len s3 h3
          have l3 := readLen_len h3
          split at h
          · cases h
          · rename_i tags s4 h4
            obtain ⟨t4, e4⟩ := readTags_len _ _ _ _ h4
            split at h
            · cases h
            · rename_i pay s5 h5
              obtain ⟨_, e5, _⟩ := readPayload_len cf h5
              injection h with h
              injection h with hp hs
              subst hp hs
              simp only
              have : ofBe16 t1 t0 < 2^16 := by
                unfold ofBe16
                have := t1.toNat_lt; have := t0.toNat_lt
                rw [or_shl_eq_add _ _ 8 (by omega)]
                omega
              refine ⟨by omega, d1, by omega⟩
      · cases h

end XMT.Packet
