import XMT.Packet
import XMT.CodecPrefix
namespace XMT.Packet
open XMT XMT.Codec

/-- obligations on the regenerated constants -/
structure ConstOK : Prop where
  tags16 : Facts.packetMaxTags < 2^16
  idPos : 0 < Facts.idSize
  buf : 0 < Facts.bufSize

theorem constOK : ConstOK := by constructor <;> decide

section
variable {S : Type} {P : Prim S} {abs : S → Bytes} {inv : S → Prop}

/-- what the device-ID read of a reader implementation must satisfy -/
def DevLawful (abs : S → Bytes) (inv : S → Prop) (dr : S → Except PErr (Bytes × S)) : Prop :=
  ∀ s d r, inv s → d.length = Facts.idSize → abs s = d ++ r →
    ∃ s', dr s = .ok (d, s') ∧ abs s' = r ∧ inv s'

theorem devReadChunk_lawful : DevLawful id (fun _ => True) devReadChunk := by
  intro s d r _ hd h
  simp only [id] at h
  subst h
  refine ⟨r, ?_, rfl, trivial⟩
  unfold devReadChunk
  rw [if_pos (by simp; omega), ← hd]
  simp

theorem devReadStream_lawful : DevLawful List.flatten NoEmpty devReadStream := by
  intro s d r hi hd h
  have h1 := readFull_fst d.length s
  have h2 := readFull_snd d.length s
  have h3 := readFull_noEmpty d.length s hi
  rw [h] at h1 h2
  rw [List.take_left] at h1
  rw [List.drop_left] at h2
  refine ⟨(readFull d.length s).2, ?_, h2, h3⟩
  unfold devReadStream readExact
  rw [← hd]
  simp only
  rw [if_pos (by rw [h1])]
  congr 1
  exact Prod.ext h1 rfl

theorem readTagsS_ok (L : Lawful P abs inv) (tags : List Nat) (ht : ∀ t ∈ tags, 0 < t ∧ t < 2^32)
    (s : S) (r : Bytes) (hi : inv s) (h : abs s = tagBytes tags ++ r) :
    ∃ s', readTagsS P tags.length s = .ok (tags, s') ∧ abs s' = r ∧ inv s' := by
  induction tags generalizing s with
  | nil => exact ⟨s, rfl, by simpa [tagBytes] using h, hi⟩
  | cons t ts ih =>
    simp only [tagBytes, List.flatMap_cons, be32, List.cons_append, List.nil_append,
      List.append_assoc] at h
    obtain ⟨s1, e1, a1, i1⟩ := L.u32_ok s _ _ _ _ _ hi h
    have ht1 := ht t List.mem_cons_self
    have hv := ofBe32_be32 t ht1.2
    obtain ⟨s2, e2, a2, i2⟩ := ih (fun x hx => ht x (List.mem_cons_of_mem _ hx)) s1 i1 a1
    refine ⟨s2, ?_, a2, i2⟩
    simp only [List.length_cons, readTagsS, e1, hv]
    rw [if_neg (by omega), e2]

/-- nested form: `UnmarshalStream ∘ MarshalStream = id`, consuming exactly the written bytes -/
theorem unmarshalStream_ok (L : Lawful P abs inv) (dr : S → Except PErr (Bytes × S))
    (D : DevLawful abs inv dr) (p : Packet) (hp : WF p) (s : S) (r : Bytes) (hi : inv s)
    (h : abs s = marshalStream p ++ r) :
    ∃ s', unmarshalStream P dr s = .ok (p, s') ∧ abs s' = r ∧ inv s' := by
  have K := constOK
  obtain ⟨hjob, hflags, hnt, htags, hdl, hdz, hpay⟩ := hp
  have hntl : p.tags.length % 2^16 = p.tags.length := Nat.mod_eq_of_lt (by have := K.tags16; omega)
  unfold marshalStream at h
  rw [hntl, List.take_of_length_le hnt] at h
  simp only [be16, be64, List.cons_append, List.nil_append, List.append_assoc] at h
  obtain ⟨s1, e1, a1, i1⟩ := L.u8_ok s _ _ hi h
  obtain ⟨s2, e2, a2, i2⟩ := L.u16_ok s1 _ _ _ i1 a1
  obtain ⟨s3, e3, a3, i3⟩ := L.u16_ok s2 _ _ _ i2 a2
  obtain ⟨s4, e4, a4, i4⟩ := L.u64_ok s3 _ _ _ _ _ _ _ _ _ i3 a3
  obtain ⟨s5, e5, a5, i5⟩ := D s4 p.dev _ i4 hdl a4
  obtain ⟨s6, e6, a6, i6⟩ := readTagsS_ok L p.tags htags s5 _ i5 a5
  obtain ⟨s7, e7, a7, i7⟩ := decBytes_ok L p.payload hpay s6 _ i6 a6
  refine ⟨s7, ?_, a7, i7⟩
  have v2 := ofBe16_be16 p.job hjob
  have v3 := ofBe16_be16 p.tags.length (by have := K.tags16; omega)
  have v4 := ofBe64_be64 p.flags hflags
  unfold unmarshalStream
  simp only [e1, e2, e3, e4, e5, v2, v3, v4]
  rw [if_neg hdz, Nat.min_eq_left hnt, e6]
  simp only [e7, Nat.sub_self, List.replicate_zero, List.append_nil]

end
end XMT.Packet
